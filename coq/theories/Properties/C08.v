(* C08 — Fragments and mixins are honoured as reusable base types.
   Property theorems only; proofs live in Proofs/FragmentsP.v. *)
From Coq Require Import List String Bool Permutation.
From AC Require Import Model.Prune Model.Fragments Proofs.PruneP Proofs.FragmentsP Proofs.FragmentsResultsP.
Import ListNotations.
Local Open Scope string_scope.

(* _get_sorted_fragments_names: for EVERY iteration order o of the dependency sets and every order in
   which the names are given, if the mixin graph is acyclic and closed under the names, the emitted
   order is a rearrangement of the names in which every fragment comes after all its mixins; the
   function does not run out of fuel and does not raise KeyError *)
Theorem C08_toposort_sound : forall tbl dict o names,
  (forall n l, Permutation (o n l) l) -> acyclic tbl -> NoDup names -> incl names dict ->
  (forall n, In n names -> incl (D tbl n) names) ->
  exists out, toposort tbl dict o names = Some out /\ Permutation out names /\
    forall n d, In n names -> In d (D tbl n) -> exists a b, out = (a ++ n :: b)%list /\ In d a.
Proof. exact toposort_sound_lemma. Qed.
Print Assumptions C08_toposort_sound.

(* the code of /repo HEAD (93e79d6) iterates sorted(deps): the instance at the identity oracle *)
Theorem C08_toposort_sound_sorted : forall tbl dict names,
  acyclic tbl -> NoDup names -> incl names dict ->
  (forall n, In n names -> incl (D tbl n) names) ->
  exists out, toposort tbl dict id_oracle names = Some out /\ Permutation out names /\
    forall n d, In n names -> In d (D tbl n) -> exists a b, out = (a ++ n :: b)%list /\ In d a.
Proof. intros. apply toposort_sound_lemma; auto. Qed.
Print Assumptions C08_toposort_sound_sorted.

(* the rule of /repo HEAD (after the F11 fix): exclude = unpacked - used_as_mixins, then the worklist.
   The worklist NEVER runs out of fuel (fuel = number of fragment definitions + 1, provided the mixins of
   every fragment are defined fragments); every fragment an operation uses as a base, every fragment
   nobody unpacks and, transitively, every mixin of a module fragment is in the module; exactly the names
   of the module are generated (so the dependency dict read by the topological sort has every key). *)
Theorem C08_fragment_present : forall tbl names unp mix,
  (forall n d, In d (deps_of tbl n) -> In d names) ->
  let start := start_names names (exclude_of unp mix) in
  exists names' done', work (1 + List.length names) tbl start start [] = Some (names', done') /\
  (forall f, In f names -> In f mix -> In f names') /\
  (forall f, In f names -> ~ In f unp -> In f names') /\
  (forall n, In n names' -> forall d, In d (deps_of tbl n) -> In d names') /\
  (forall x, In x names' <-> In x done').
Proof. exact fragment_present_total. Qed.
Print Assumptions C08_fragment_present.

(* Reading of the property's premise (recorded in notes/C08.md): "directly spreads a named fragment" means an
   UNCONDITIONAL spread - SSpread fn false, the selection set of a class never lies under a conditional
   container.  A spread under @skip/@include cannot yield an instance: the fragment's fields may be absent from
   a conformant response, so a class with those fields required cannot validate it (C01); since /repo e47d9e8
   such a spread is unpacked (C08_conditional_not_base).
   EVERY fragment spread directly and unconditionally in a selection set, defined on exactly the type the set is
   evaluated for (never a union) and free of inline fragments, is resolved as a base of the class generated for
   that set; after fix 959c464 its class is either listed as a base or inherited through a listed base
   along the emitted class hierarchy (rgraph g: every fragment class lists its reduced bases) - so the
   object is an instance of it.  g = base graph of the document, acyclic (fragment cycles are invalid). *)
Theorem C08_mixin_instance : forall fuel sch frags g snake cn tn ss extra s cs s',
  acyclic_g g ->
  ptd fuel sch frags g snake cn tn ss extra s = Some (cs, s') -> mem cn (st_public s) = false ->
  exists c rest, cs = c :: rest /\ c_name c = cn /\ c_type c = tn /\
    forall fn fd, In (SSpread fn false) ss -> find_frag fn frags = Some fd ->
      is_union sch (fr_on fd) = false -> fr_on fd = tn -> existsb is_inline (fr_sel fd) = false ->
      In fn (c_frags c) /\
      exists b, In b (c_bfrags c) /\ In (pascal_s b) (c_bases c) /\ reachable (rgraph g) b fn.
Proof. exact mixin_instance_lemma. Qed.
Print Assumptions C08_mixin_instance.

(* the premise through applicable inline fragments: a selection set EVALUATED for rt is the class's own selection
   set or the selection set of an unconditional `... on rt` whose condition applies (rt = the interface named by the
   condition when the position's type implements it), nested to any depth; a named fragment on exactly rt spread
   directly there is a base / inherited through a base of the class *)
Theorem C08_mixin_instance_nested : forall fuel sch frags g snake cn tn ss extra s cs s',
  acyclic_g g ->
  ptd fuel sch frags g snake cn tn ss extra s = Some (cs, s') -> mem cn (st_public s) = false ->
  exists c rest, cs = c :: rest /\ c_name c = cn /\ c_direct_at c = direct_at sch tn ss /\
    forall fn rt fd, In (fn, rt) (c_direct_at c) -> find_frag fn frags = Some fd ->
      is_union sch (fr_on fd) = false -> fr_on fd = rt -> existsb is_inline (fr_sel fd) = false ->
      In fn (c_frags c) /\
      exists b, In b (c_bfrags c) /\ In (pascal_s b) (c_bases c) /\ reachable (rgraph g) b fn.
Proof. exact mixin_instance_nested_lemma. Qed.
Print Assumptions C08_mixin_instance_nested.

(* a selection set that reaches fragments only through conditional spreads / conditional inline fragments
   gets no fragment base class; below a conditional container nothing is a base (any depth) *)
Theorem C08_conditional_not_base : forall sch frags fuel ss root unp fields mix unp',
  forallb (fun s => match s with SSpread _ c => c | SInline _ c _ => c | SField _ _ _ _ => true end) ss = true ->
  resolve fuel sch frags false ss root unp = Some (fields, mix, unp') -> mix = [].
Proof. exact conditional_only_no_mixin. Qed.
Print Assumptions C08_conditional_not_base.

Theorem C08_under_condition_not_base : forall sch frags fuel ss root unp fields mix unp',
  resolve fuel sch frags true ss root unp = Some (fields, mix, unp') -> mix = [].
Proof. exact resolve_under_no_mixin. Qed.
Print Assumptions C08_under_condition_not_base.

(* the dependency relation of the fragments module is taken on the names WRITTEN in the queries file (the keys
   of fragments_definitions), not on the PascalCased class names: everything resolve returns as a base, and every
   edge of the base graph, is the written name of a defined fragment (whatever its case style) *)
Theorem C08_deps_on_written_names : forall sch frags fuel under ss root unp fields mix unp',
  resolve fuel sch frags under ss root unp = Some (fields, mix, unp') ->
  forall fn, In fn mix -> exists fd, find_frag fn frags = Some fd.
Proof. exact resolve_mix_written. Qed.
Print Assumptions C08_deps_on_written_names.

Theorem C08_base_graph_on_written_names : forall fuel sch frags g, top_graph fuel sch frags = Some g ->
  forall n d, In d (succs g n) -> exists fd, find_frag d frags = Some fd.
Proof. exact top_graph_written. Qed.
Print Assumptions C08_base_graph_on_written_names.

(* the result of the resolver does not depend on the fuel once it suffices (so fuel is not a parameter of the
   behaviour), and the base graph handed to the class generator IS the hierarchy the fragments module realises:
   the class generated for a fragment resolves exactly `succs g name` as bases and lists exactly
   `succs (rgraph g) name` - this closes the gap between C08_mixin_instance's `reachable (rgraph g) b fn`
   and the classes actually emitted *)
Theorem C08_resolve_fuel_independent : forall sch frags f1 f2 under ss root unp r1 r2,
  resolve f1 sch frags under ss root unp = Some r1 -> resolve f2 sch frags under ss root unp = Some r2 -> r1 = r2.
Proof. exact resolve_fuel_agree. Qed.
Print Assumptions C08_resolve_fuel_independent.

Theorem C08_top_graph_realised : forall fuel0 fuel sch frags g snake fd cs s',
  top_graph fuel0 sch frags = Some g -> NoDup (map fr_name frags) -> In fd frags ->
  unpack_fragment sch fd None = false ->
  gen_frag fuel sch frags g snake fd = Some (cs, s') ->
  exists c rest, cs = c :: rest /\ c_name c = pascal_s (fr_name fd) /\
    c_frags c = sort_uniq (succs g (fr_name fd)) /\
    c_bfrags c = sort_uniq (succs (rgraph g) (fr_name fd)).
Proof. exact top_graph_realised. Qed.
Print Assumptions C08_top_graph_realised.

(* the two models of _resolve_selection_set agree: on the shared encoding (tr_schema / tr_frag / tr_sel into
   Gql.Schema), Model/Results.v's resolve (C01: field nodes + bases) returns exactly the base list that
   Model/Fragments.v's resolve (C08: bases + unpacked names) returns - for every selection set, every nesting of
   inline fragments and fragment chains, conditional or not.  wf_doc: fragment types and the interfaces listed by
   objects and (since /repo 568dfd8) by interfaces are types of the schema (Results.v raises KeyError otherwise). *)
Theorem C08_resolve_agrees_with_results : forall sch frags, wf_doc sch frags ->
  forall f under ss root unp fields mix unp',
  resolve f sch frags under ss root unp = Some (fields, mix, unp') -> known sch root ->
  forall F, f <= F ->
  exists fns, AC.Model.Results.resolve F (tr_schema sch) (map tr_frag frags) under (map tr_sel ss) root
              = AC.Model.Results.Ok (fns, mix).
Proof. exact resolve_agrees. Qed.
Print Assumptions C08_resolve_agrees_with_results.

(* by construction + tie: the fragments module carries the @mixin imports of EVERY generated fragment, also of
   those package.py excluded and the worklist re-added *)
Theorem C08_module_imports_cover : forall imps generated n l x,
  In n generated -> lookup n imps = Some l -> In x l -> In x (module_imports_of imps generated).
Proof. exact module_imports_cover. Qed.

(* acyclicity of the base graph is not an assumption for valid documents: the boolean NoFragmentCycles check on the
   document (no fragment reaches itself through spreads at any depth; K2-tied to graphql-core's rule) implies it -
   every edge of the base graph is a non-empty spread path *)
Theorem C08_no_cycles_acyclic : forall fuel sch frags g,
  no_fragment_cycles frags = true -> top_graph fuel sch frags = Some g -> acyclic_g g.
Proof. exact no_cycles_acyclic. Qed.
Print Assumptions C08_no_cycles_acyclic.

(* C08_mixin_instance for a valid document: both hypotheses about the graph discharged *)
Theorem C08_mixin_instance_valid_document : forall fuel0 fuel sch frags g snake cn tn ss extra s cs s',
  no_fragment_cycles frags = true -> top_graph fuel0 sch frags = Some g ->
  ptd fuel sch frags g snake cn tn ss extra s = Some (cs, s') -> mem cn (st_public s) = false ->
  exists c rest, cs = c :: rest /\ c_name c = cn /\ c_type c = tn /\
    forall fn fd, In (SSpread fn false) ss -> find_frag fn frags = Some fd ->
      is_union sch (fr_on fd) = false -> fr_on fd = tn -> existsb is_inline (fr_sel fd) = false ->
      In fn (c_frags c) /\
      exists b, In b (c_bfrags c) /\ In (pascal_s b) (c_bases c) /\ reachable (rgraph g) b fn.
Proof.
  intros fuel0 fuel sch frags g snake cn tn ss extra s cs s' Hn Hg. apply mixin_instance_lemma.
  eapply no_cycles_acyclic; eassumption.
Qed.
Print Assumptions C08_mixin_instance_valid_document.

(* the mixins recorded while generating the classes of a fragment are defined fragments, so the dependency table
   generate_package builds is closed in the fragment names: the hypothesis of C08_fragment_present is a theorem
   for it (invariant carried through ptd and its two loops) *)
Theorem C08_frag_table_closed : forall fuel sch frags g snake rfrags,
  all_some (map (gen_frag fuel sch frags g snake) frags) = Some rfrags ->
  let tbl := combine (map fr_name frags) (map (fun r => sort_uniq (st_mix (snd r))) rfrags) in
  forall n d, In d (deps_of tbl n) -> In d (map fr_name frags).
Proof. exact frag_table_closed. Qed.
Print Assumptions C08_frag_table_closed.

Theorem C08_fragment_present_package : forall fuel sch frags g snake rfrags unp mix,
  all_some (map (gen_frag fuel sch frags g snake) frags) = Some rfrags ->
  let names := map fr_name frags in
  let tbl := combine names (map (fun r => sort_uniq (st_mix (snd r))) rfrags) in
  let start := start_names names (exclude_of unp mix) in
  exists names' done', work (1 + List.length names) tbl start start [] = Some (names', done') /\
  (forall f, In f names -> In f mix -> In f names') /\
  (forall f, In f names -> ~ In f unp -> In f names') /\
  (forall n, In n names' -> forall d, In d (deps_of tbl n) -> In d names') /\
  (forall x, In x names' <-> In x done').
Proof.
  intros fuel sch frags g snake rfrags unp mix H names tbl. apply fragment_present_total.
  exact (frag_table_closed _ _ _ _ _ _ H).
Qed.
Print Assumptions C08_fragment_present_package.

(* the listed fragment bases never contain a fragment that another fragment of the resolved set - in
   particular another listed base, earlier or later - inherits: `class X(A, B)` with B a subclass of A
   (the pattern Python's C3 linearisation rejects, former finding C08-MRO) is never emitted.
   C3 itself is not modelled; that every package imports is K3. *)
Theorem C08_bases_no_ancestor : forall fuel sch frags g snake cn tn ss extra s cs s',
  ptd fuel sch frags g snake cn tn ss extra s = Some (cs, s') -> mem cn (st_public s) = false ->
  exists c rest, cs = c :: rest /\ incl (c_bfrags c) (c_frags c) /\
    forall a b, In a (c_bfrags c) -> In b (c_frags c) -> ~ tcr g b a.
Proof. exact bases_no_ancestor_lemma. Qed.
Print Assumptions C08_bases_no_ancestor.

(* bases of a generated class: the @mixin imports given for exactly that field / definition are all
   bases, and nothing else is a base except BaseModel or classes of listed fragments *)
Theorem C08_mixin_bases : forall fuel sch frags g snake cn tn ss extra s cs s',
  ptd fuel sch frags g snake cn tn ss extra s = Some (cs, s') -> mem cn (st_public s) = false ->
  exists c rest, cs = c :: rest /\ c_name c = cn /\
    (forall x, In x extra -> In x (c_bases c)) /\
    (forall x, In x (c_bases c) ->
       In x extra \/ (c_frags c = [] /\ x = base_model) \/ exists fn, In fn (c_bfrags c) /\ x = pascal_s fn).
Proof. exact mixin_bases_lemma. Qed.
Print Assumptions C08_mixin_bases.

Theorem C08_mixin_bases_operation : forall fuel sch frags g snake (o : opdef) cs s' from imp,
  gen_op fuel sch frags g snake o = Some (cs, s') -> In (from, imp) (o_mixins o) ->
  exists c rest, cs = c :: rest /\ c_name c = pascal_s (o_name o) /\ In imp (c_bases c).
Proof. exact mixin_bases_def_lemma. Qed.
Print Assumptions C08_mixin_bases_operation.

Theorem C08_mixin_bases_fragment : forall fuel sch frags g snake (fd : fragdef) cs s' from imp,
  gen_frag fuel sch frags g snake fd = Some (cs, s') -> unpack_fragment sch fd None = false ->
  In (from, imp) (fr_mixins fd) ->
  exists c rest, cs = c :: rest /\ c_name c = pascal_s (fr_name fd) /\ In imp (c_bases c).
Proof. exact mixin_bases_frag_lemma. Qed.
Print Assumptions C08_mixin_bases_fragment.

(* ---- non-vacuity and the role of the iteration order ---- *)
Definition t_diamond : list (string * list string) :=
  [("A", ["B"; "C"]); ("B", ["D"]); ("C", ["D"]); ("D", [])].
Definition rev_oracle : oracle := fun _ l => rev l.

Example C08_toposort_example :
  toposort t_diamond ["A"; "B"; "C"; "D"] id_oracle ["D"; "C"; "B"; "A"] = Some ["D"; "B"; "C"; "A"] /\
  toposort t_diamond ["A"; "B"; "C"; "D"] rev_oracle ["A"; "B"; "C"; "D"] = Some ["D"; "C"; "B"; "A"] /\
  toposort t_diamond ["A"; "B"; "C"] id_oracle ["A"; "B"; "C"] = None.   (* KeyError: D not generated *)
Proof. vm_compute. repeat split. Qed.

(* AF is used as a base class by operation One and unpacked by operation Two (a Dog position): it stays
   in the module, together with its own mixin Base (not spread by any operation) *)
Definition sch_ex : aschema := {|
  s_types := [("Query", KObj []); ("Animal", KIface []); ("Dog", KObj ["Animal"]); ("String", KLeaf)];
  s_fields := [("Query", [("animal", "Animal"); ("dog", "Dog")]);
               ("Animal", [("name", "String")]); ("Dog", [("name", "String"); ("bark", "String")])] |}.
Definition frags_ex : list fragdef :=
  [ {| fr_name := "AF"; fr_on := "Animal"; fr_mixins := [("mix", "Extra")]; fr_sel := [SSpread "Base" false] |};
    {| fr_name := "Base"; fr_on := "Animal"; fr_mixins := []; fr_sel := [SField None "name" [] []] |};
    {| fr_name := "Only"; fr_on := "Dog"; fr_mixins := []; fr_sel := [SInline "Dog" false [SField None "bark" [] []]] |} ].
Definition ops_ex : list opdef :=
  [ {| o_name := "One"; o_root := "Query"; o_mixins := [];
       o_sel := [SField None "animal" [] [SSpread "AF" false]] |};
    {| o_name := "Two"; o_root := "Query"; o_mixins := [];
       o_sel := [SField None "dog" [("m2", "DogMixin")] [SSpread "AF" false; SSpread "Only" false]] |} ].

Definition skipme := 0.
(* Base is unpacked by Two and spread by no operation, so package.py excludes it; the worklist of
   FragmentsGenerator.generate brings it back because AF (kept: One uses it as a base) has it as mixin *)
Example C08_package_example :
  match generate_package 200 sch_ex frags_ex ops_ex true id_oracle with
  | Some p =>
      pk_exclude p = ["Base"; "Only"] /\
      option_map fm_order (pk_module p) = Some ["Base"; "AF"] /\
      map (fun r => map (fun c => (c_name c, c_bases c)) (snd (fst r))) (pk_ops p) =
        [ [("One", ["BaseModel"]); ("OneAnimal", ["AF"])];
          [("Two", ["BaseModel"]); ("TwoDog", ["BaseModel"; "DogMixin"])] ] /\
      option_map (fun m => map (fun nc => map (fun c => (c_name c, c_bases c)) (snd nc)) (fm_classes m)) (pk_module p) =
        Some [ [("Base", ["BaseModel"])]; [("AF", ["Base"; "Extra"])] ]
  | None => False
  end.
Proof. vm_compute. repeat split. Qed.

(* ---- regression case of the former finding C08-MRO (fixed in /repo 959c464) ----
   `query Q { dog { ...B ...A } } fragment A on Dog { a } fragment B on Dog { b ...A }` used to give
   `class QDog(A, B)` with `class B(A)` (no C3 linearisation, TypeError at import).  The fixed rule lists
   only B; A is inherited through it, and the hazard pattern is absent. *)
Definition sch_mro : aschema := {|
  s_types := [("Query", KObj []); ("Dog", KObj []); ("Int", KLeaf)];
  s_fields := [("Query", [("dog", "Dog")]); ("Dog", [("a", "Int"); ("b", "Int")])] |}.
Definition frags_mro : list fragdef :=
  [ {| fr_name := "A"; fr_on := "Dog"; fr_mixins := []; fr_sel := [SField None "a" [] []] |};
    {| fr_name := "B"; fr_on := "Dog"; fr_mixins := []; fr_sel := [SField None "b" [] []; SSpread "A" false] |} ].
Definition ops_mro : list opdef :=
  [ {| o_name := "Q"; o_root := "Query"; o_mixins := [];
       o_sel := [SField None "dog" [] [SSpread "B" false; SSpread "A" false]] |} ].

Example C08_mro_regression :
  match generate_package 100 sch_mro frags_mro ops_mro true id_oracle with
  | Some p => map (fun r => map (fun c => (c_name c, c_bases c, c_frags c)) (snd (fst r))) (pk_ops p) =
                [[("Q", ["BaseModel"], []); ("QDog", ["B"], ["A"; "B"])]] /\
              option_map (fun m => map (fun nc => map (fun c => (c_name c, c_bases c)) (snd nc)) (fm_classes m)) (pk_module p) =
                Some [[("A", ["BaseModel"])]; [("B", ["A"])]] /\
              mro_hazard1 p = false
  | None => False
  end.
Proof. vm_compute. repeat split. Qed.

(* the hypotheses of C08_mixin_instance are met by that document: its base graph is acyclic *)
Example C08_mro_graph : top_graph 100 sch_mro frags_mro = Some [("A", []); ("B", ["A"])] /\
  reduced [("A", []); ("B", ["A"])] ["B"; "A"] = ["B"] /\ inherited [("A", []); ("B", ["A"])] ["B"; "A"] = ["A"].
Proof. vm_compute. repeat split. Qed.

(* conditional spreads: A is spread under @include at a Dog position -> unpacked, QDog keeps BaseModel; the
   unconditional spread of B next to it is still a base (and brings A in through inheritance); no operation
   uses A as a base, so package.py excludes it and the worklist re-adds it as B's mixin *)
Definition ops_cond : list opdef :=
  [ {| o_name := "Q"; o_root := "Query"; o_mixins := [];
       o_sel := [SField None "dog" [] [SSpread "A" true]] |};
    {| o_name := "R"; o_root := "Query"; o_mixins := [];
       o_sel := [SField None "dog" [] [SInline "Dog" true [SSpread "B" false]; SSpread "B" false; SSpread "A" true]] |} ].

Example C08_conditional_example :
  match generate_package 100 sch_mro frags_mro ops_cond true id_oracle with
  | Some p => map (fun r => map (fun c => (c_name c, c_bases c, c_direct c)) (snd (fst r))) (pk_ops p) =
                [[("Q", ["BaseModel"], []); ("QDog", ["BaseModel"], [])];
                 [("R", ["BaseModel"], []); ("RDog", ["B"], ["B"])]] /\
              pk_exclude p = ["A"] /\ option_map fm_order (pk_module p) = Some ["A"; "B"]
  | None => False
  end.
Proof. vm_compute. repeat split. Qed.

(* fragment names in other case styles: the table is keyed by the written names, class names are PascalCased;
   `itemDetails` (sorts before `itemName`) is still emitted after the fragment it inherits from, and
   snake_case / UPPER names keep their own keys *)
Definition frags_case : list fragdef :=
  [ {| fr_name := "itemDetails"; fr_on := "Dog"; fr_mixins := []; fr_sel := [SField None "b" [] []; SSpread "itemName" false] |};
    {| fr_name := "itemName"; fr_on := "Dog"; fr_mixins := []; fr_sel := [SField None "a" [] []] |};
    {| fr_name := "dog_extra_1"; fr_on := "Dog"; fr_mixins := []; fr_sel := [SSpread "itemDetails" false] |};
    {| fr_name := "DOG_ALL"; fr_on := "Dog"; fr_mixins := []; fr_sel := [SSpread "dog_extra_1" false; SSpread "itemName" false] |} ].
Definition ops_case : list opdef :=
  [ {| o_name := "Q"; o_root := "Query"; o_mixins := []; o_sel := [SField None "dog" [] [SSpread "DOG_ALL" false]] |} ].

Example C08_case_styles_example :
  match generate_package 200 sch_mro frags_case ops_case true id_oracle with
  | Some p => pk_frag_table p = [("itemDetails", ["itemName"]); ("itemName", []); ("dog_extra_1", ["itemDetails"]);
                                 ("DOG_ALL", ["dog_extra_1"; "itemName"])] /\
              option_map fm_order (pk_module p) = Some ["itemName"; "itemDetails"; "dog_extra_1"; "DOG_ALL"] /\
              option_map (fun m => map (fun nc => map (fun c => (c_name c, c_bases c)) (snd nc)) (fm_classes m)) (pk_module p) =
                Some [[("ItemName", ["BaseModel"])]; [("ItemDetails", ["ItemName"])]; [("DogExtra1", ["ItemDetails"])];
                      [("DOGALL", ["DogExtra1"])]]
  | None => False
  end.
Proof. vm_compute. repeat split. Qed.

Example C08_no_cycles_example :
  no_fragment_cycles frags_mro = true /\
  no_fragment_cycles [ {| fr_name := "A"; fr_on := "Dog"; fr_mixins := [];
                          fr_sel := [SField None "mate" [] [SSpread "B" true]] |};
                       {| fr_name := "B"; fr_on := "Dog"; fr_mixins := []; fr_sel := [SInline "Dog" false [SSpread "A" false]] |} ] = false.
Proof. vm_compute. split; reflexivity. Qed.


(* regression case of seeded change C08-9: `dog { ... on Animal { ...AF } }` - the inline fragment's selection set is
   evaluated for the implemented interface Animal, so AF (on Animal) is a base of the Dog class; also one level
   deeper along Dog -> Animal -> Named *)
Definition sch_ic : aschema := {|
  s_types := [("Query", KObj []); ("Named", KIface []); ("Animal", KIface ["Named"]);
              ("Dog", KObj ["Animal"; "Named"]); ("String", KLeaf)];
  s_fields := [("Query", [("dog", "Dog")]); ("Named", [("name", "String")]);
               ("Animal", [("name", "String"); ("id", "String")]); ("Dog", [("name", "String"); ("id", "String")])] |}.
Definition frags_ic : list fragdef :=
  [ {| fr_name := "AF"; fr_on := "Animal"; fr_mixins := []; fr_sel := [SField None "id" [] []] |};
    {| fr_name := "NF"; fr_on := "Named"; fr_mixins := []; fr_sel := [SField None "name" [] []] |} ].
Definition ops_ic : list opdef :=
  [ {| o_name := "V"; o_root := "Query"; o_mixins := [];
       o_sel := [SField None "dog" [] [SField None "name" [] []; SInline "Animal" false [SSpread "AF" false]]] |};
    {| o_name := "C"; o_root := "Query"; o_mixins := [];
       o_sel := [SField None "dog" [] [SInline "Animal" false [SInline "Named" false [SSpread "NF" false]]]] |} ].
Example C08_interface_condition_regression :
  match generate_package 100 sch_ic frags_ic ops_ic true id_oracle with
  | Some p => map (fun r => map (fun c => (c_name c, c_bases c, c_direct_at c)) (snd (fst r))) (pk_ops p) =
                [[("V", ["BaseModel"], []); ("VDog", ["AF"], [("AF", "Animal")])];
                 [("C", ["BaseModel"], []); ("CDog", ["NF"], [("NF", "Named")])]]
  | None => False
  end.
Proof. vm_compute. reflexivity. Qed.
