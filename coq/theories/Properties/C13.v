(* C13 — Subscriptions follow the graphql-transport-ws protocol for every frame sequence.
   Property theorems only; proofs live in Proofs/WsP.v.  run_ws is the model of execute_ws
   (Model/Ws.v), spec_ws the protocol machine the property text describes.  All theorems quantify
   over ALL configurations, requests and frame lists (any length, any JSON). *)
From Coq Require Import List String Bool ZArith.
From AC Require Import Base.Json Model.Ws Proofs.WsP.
Import ListNotations.
Local Open Scope string_scope.

(* ---- the full statement: the client is the protocol machine ---- *)
Definition C13_conforms_full : Prop :=
  forall c rq fs, same_obs (run_ws c rq fs) (spec_ws c rq fs).

(* proved under the two open finding classes as explicit boolean guards (g_all = g_shape && g_nonnull);
   the guards g_stop (F26) and g_vars were deleted when /repo b1e7ba9 and d334181 landed *)
Theorem C13_conforms_partial : forall c rq fs, g_all fs = true ->
  same_obs (run_ws c rq fs) (spec_ws c rq fs).
Proof. exact conform. Qed.
Print Assumptions C13_conforms_partial.

(* ---- init first, and nothing else before a frame has been received (unguarded) ---- *)
Theorem C13_init_first : forall c rq fs, exists evs,
  t_events (run_ws c rq fs) = ESend (init_msg c) :: evs /\
  (fs = [] /\ evs = [] \/ exists evs', evs = ERecv :: evs').
Proof. exact events_head. Qed.
Print Assumptions C13_init_first.

(* ---- everything the client ever sends, in closed form (unguarded): init; then, only if the
        first frame is the ack, one subscribe; then one pong per ping that precedes the first
        complete/error/malformed frame; nothing else.  silent_until_ack, one_subscribe (count)
        and one_pong_per_ping are its corollaries ---- *)
Theorem C13_sent_closed_form : forall c rq fs,
  sent_of (t_events (run_ws c rq fs)) =
    init_msg c ::
    match fs with
    | [] => []
    | f :: r =>
        if is_ack f then
          match subscribe_msg rq with
          | Some m => m :: repeat pong_msg (count_pings (spec_prefix r))
          | None => []
          end
        else []
    end.
Proof. exact sent_closed_form. Qed.
Print Assumptions C13_sent_closed_form.

Theorem C13_silent_until_ack : forall c rq fs, (forall f r, fs = f :: r -> is_ack f = false) ->
  sent_of (t_events (run_ws c rq fs)) = [init_msg c] /\ yielded_of (t_events (run_ws c rq fs)) = [].
Proof. exact silent_until_ack. Qed.
Print Assumptions C13_silent_until_ack.

(* ---- first frame not the ack => invalid-message error, one frame consumed ---- *)
Definition C13_first_not_ack_invalid_full : Prop := forall c rq f r, is_ack f = false ->
  exists msg, t_fin (run_ws c rq (f :: r)) = RaisedInvalid msg.
Theorem C13_first_not_ack_invalid_partial : forall c rq f r, type_crashes f = false -> is_ack f = false ->
  exists msg, t_fin (run_ws c rq (f :: r)) = RaisedInvalid msg /\
              t_events (run_ws c rq (f :: r)) = [ESend (init_msg c); ERecv].
Proof. exact first_not_ack. Qed.
Print Assumptions C13_first_not_ack_invalid_partial.

(* ---- exactly one subscribe, carrying query, operationName and the serialised variables
        (json.dumps(default=to_jsonable_python), the serialisation of the HTTP path) — full strength
        since /repo d334181 ---- *)
Theorem C13_one_subscribe : forall c rq f r m, is_ack f = true -> subscribe_msg rq = Some m ->
  sent_of (t_events (run_ws c rq (f :: r))) = init_msg c :: m :: repeat pong_msg (count_pings (spec_prefix r)).
Proof. exact one_subscribe. Qed.
Print Assumptions C13_one_subscribe.

(* ---- the yielded list is the data of the next frames, in order: proved up to the null-data
        class (what is left of F14 after /repo 8b27040), the only guard left ---- *)
Definition C13_yields_next_in_order_full : Prop := forall c rq f r m, is_ack f = true ->
  subscribe_msg rq = Some m ->
  yielded_of (t_events (run_ws c rq (f :: r))) = next_data (spec_prefix r).
Theorem C13_yields_next_in_order_partial : forall c rq f r m, is_ack f = true ->
  subscribe_msg rq = Some m -> g_nonnull r = true ->
  yielded_of (t_events (run_ws c rq (f :: r))) = next_data (spec_prefix r).
Proof. exact yields_partial. Qed.
Print Assumptions C13_yields_next_in_order_partial.

(* ---- finishes on complete, whatever follows: outcome Finished, close() once, the complete frame
        is the last frame consumed, yields = the non-null data of the next frames before it — full
        strength since /repo b1e7ba9 ---- *)
Theorem C13_complete_finishes : forall c rq f a x b m, is_ack f = true ->
  subscribe_msg rq = Some m -> nonterminal a = true -> skind_of x = SComplete ->
  t_fin (run_ws c rq (f :: a ++ x :: b)) = Finished /\
  closes_of (t_events (run_ws c rq (f :: a ++ x :: b))) = 1 /\
  consumed_of (t_events (run_ws c rq (f :: a ++ x :: b))) = S (S (List.length a)) /\
  yielded_of (t_events (run_ws c rq (f :: a ++ x :: b))) = filter nonnull (next_data a).
Proof. exact complete_finishes. Qed.
Print Assumptions C13_complete_finishes.

(* ---- error => the multi-error with the frame's errors; malformed => invalid-message ---- *)
Definition C13_malformed_raises_invalid_full : Prop := forall c rq f a x b m, is_ack f = true ->
  subscribe_msg rq = Some m -> nonterminal a = true -> skind_of x = SMalformed ->
  exists msg, t_fin (run_ws c rq (f :: a ++ x :: b)) = RaisedInvalid msg.
(* error with a list of error objects (or no payload): full strength, the hypothesis skind_of x = SError l
   already excludes the crash class *)
Theorem C13_error_raises_multi : forall c rq f a x b m l, is_ack f = true ->
  subscribe_msg rq = Some m -> nonterminal a = true -> skind_of x = SError l ->
  t_fin (run_ws c rq (f :: a ++ x :: b)) = RaisedMulti l (frame_json x) /\
  yielded_of (t_events (run_ws c rq (f :: a ++ x :: b))) = filter nonnull (next_data a).
Proof. exact error_multi. Qed.
Print Assumptions C13_error_raises_multi.
Theorem C13_malformed_raises_invalid_partial : forall c rq f a x b m, is_ack f = true ->
  subscribe_msg rq = Some m -> nonterminal a = true -> skind_of x = SMalformed -> shape_ok x = true ->
  t_fin (run_ws c rq (f :: a ++ x :: b)) = RaisedInvalid (Some x) /\
  yielded_of (t_events (run_ws c rq (f :: a ++ x :: b))) = filter nonnull (next_data a).
Proof. exact malformed_invalid. Qed.
Print Assumptions C13_malformed_raises_invalid_partial.

(* ---- the shape class is EXACT.  A run ends with an exception that is neither the multi-error nor
        the invalid-message error (nor ConnectionClosed) only if (1) the variables cannot be serialised
        at all, or (2) the first frame is in the syntactic class type_crashes, or (3) after the ack a
        frame of the syntactic class crash_stream = type_crashes || payload_crashes is consumed; and
        conversely every such frame, once consumed, does end the run that way ---- *)
Theorem C13_only_protocol_outcomes : forall c rq fs e, t_fin (run_ws c rq fs) = RaisedOther e ->
  (e = SER_ERROR /\ subscribe_msg rq = None /\ exists f r, fs = f :: r /\ is_ack f = true)
  \/ (exists f r, fs = f :: r /\ type_crashes f = true)
  \/ (exists f a x b, fs = f :: a ++ x :: b /\ is_ack f = true /\ nonterminal a = true /\ crash_stream x = true).
Proof. exact only_protocol_outcomes. Qed.
Print Assumptions C13_only_protocol_outcomes.

Theorem C13_crash_class_exact_stream : forall c rq f a x b m, is_ack f = true -> subscribe_msg rq = Some m ->
  nonterminal a = true -> crash_stream x = true ->
  exists e, t_fin (run_ws c rq (f :: a ++ x :: b)) = RaisedOther e.
Proof. exact crash_consumed_raises. Qed.
Print Assumptions C13_crash_class_exact_stream.

Theorem C13_crash_class_exact_first : forall c rq f r, type_crashes f = true ->
  exists e, t_fin (run_ws c rq (f :: r)) = RaisedOther e.
Proof. exact first_crash_raises. Qed.
Print Assumptions C13_crash_class_exact_first.

(* the remaining two frames of shape_ok = false: error with payload {} or "" gives an empty multi-error *)
Theorem C13_odd_error_empty_multi : forall rq f, odd_empty_error f = true ->
  step rq Streaming f = (Done (RaisedMulti [] (frame_json f)), [ERecv]).
Proof. exact odd_error_multi. Qed.
Print Assumptions C13_odd_error_empty_multi.

(* ---- the type table handed to the harness (and compared there with the enum in /repo) is what the
        model decides with ---- *)
Theorem C13_type_table_exact : forall s t, mtype_of_string s = Some t <-> exists n, In (n, s, t) type_table.
Proof. exact mtype_table_exact. Qed.
Print Assumptions C13_type_table_exact.

(* ---- the OpenTelemetry client, with or without tracer, produces the same trace ---- *)
Theorem C13_otel_same_trace : forall c rq fs tracer,
  strip_spans (run_ws_otel tracer c rq fs) = run_ws c rq fs.
Proof. exact otel_same. Qed.
Print Assumptions C13_otel_same_trace.

(* ---- histories: a subscription does not depend on earlier subscriptions on the same client object,
        and leaves the object as it found it.  BY CONSTRUCTION of the model (call returns the client it
        was given, as execute_ws works on copies); its force is the history tie of the harness, which
        compares every call of 2-4-call histories on one real client object with run_ws of that call
        alone and snapshots vars(client) / module state ---- *)
Theorem C13_history_independent : forall cl calls,
  snd (run_history cl calls) = cl /\
  fst (run_history cl calls) = map (fun c => run_ws (cfg_of cl (fst (fst c))) (snd (fst c)) (snd c)) calls.
Proof. exact history_independent. Qed.
Print Assumptions C13_history_independent.

(* ================= refutations of the full statements on the faithful model ================= *)
Definition C0 := {| c_url := "ws://x"; c_headers := []; c_origin := None; c_init_payload := None;
                    c_kw_headers := None; c_kw_other := [] |}.
Definition RQ0 := {| r_query := "subscription { x }"; r_opname := None; r_vars := None |}.
Definition fr (ty : string) (rest : list (string * json)) := FJson (JObj (("type", JStr ty) :: rest)).
Definition ACK := fr "connection_ack" [].
Definition NEXT (d : json) := fr "next" [("payload", JObj [("data", d)])].
Definition COMPLETE := fr "complete" [].
Definition D1 := JObj [("x", JInt 1)].

(* F14, narrowed by /repo 8b27040: a next frame whose data is null is (still) not yielded *)
Theorem C13_yields_refuted_null_data : exists c rq f r m, is_ack f = true /\ subscribe_msg rq = Some m /\
  yielded_of (t_events (run_ws c rq (f :: r))) <> next_data (spec_prefix r).
Proof. exists C0, RQ0, ACK, [NEXT JNull]. eexists. vm_compute. repeat split; discriminate. Qed.

Theorem C13_yields_next_in_order_refuted : ~ C13_yields_next_in_order_full.
Proof.
  intro H. specialize (H C0 RQ0 ACK [NEXT JNull] _ eq_refl eq_refl). vm_compute in H. discriminate.
Qed.
Print Assumptions C13_yields_next_in_order_refuted.

(* falsy but non-null data is yielded since 8b27040 (was the F14 witness [ack, next {}]) *)
Example C13_regression_empty_object_data :
  yielded_of (t_events (run_ws C0 RQ0 [ACK; NEXT (JObj []); NEXT (JInt 0); NEXT (JStr ""); NEXT D1])) =
    [JObj []; JInt 0; JStr ""; D1] /\
  g_nonnull [NEXT (JObj []); NEXT (JInt 0); NEXT (JStr ""); NEXT D1] = true.
Proof. vm_compute. split; reflexivity. Qed.

(* regression witnesses of the two repaired findings (they were ..._refuted theorems before) *)
Example C13_regression_after_complete :
  let t := run_ws C0 RQ0 [ACK; COMPLETE; NEXT D1; fr "ping" [];
                          fr "error" [("payload", JArr [JObj [("message", JStr "late")]])]] in
  t_fin t = Finished /\ yielded_of (t_events t) = [] /\ consumed_of (t_events t) = 2 /\
  List.length (sent_of (t_events t)) = 2.
Proof. vm_compute. repeat split. Qed.

(* shape class: JSON that is not an object, an unhashable type, a payload of the wrong kind *)
Theorem C13_first_not_ack_invalid_refuted : ~ C13_first_not_ack_invalid_full.
Proof.
  intro H. destruct (H C0 RQ0 (FJson (JArr [JInt 1; JInt 2])) [] eq_refl) as [m F].
  vm_compute in F. discriminate.
Qed.
Print Assumptions C13_first_not_ack_invalid_refuted.

Theorem C13_malformed_raises_invalid_refuted : ~ C13_malformed_raises_invalid_full.
Proof.
  intro H.
  destruct (H C0 RQ0 ACK [] (fr "error" [("payload", JObj [("message", JStr "single object")])]) []
              _ eq_refl eq_refl eq_refl eq_refl) as [m F].
  vm_compute in F. discriminate.
Qed.
Print Assumptions C13_malformed_raises_invalid_refuted.

Definition RQ_DT := {| r_query := "subscription($t: DateTime) { x(since: $t) }"; r_opname := Some "S";
                       r_vars := Some [("t", VOpaque (JStr "2024-01-02T03:04:05"));
                                       ("w", VModel false (JObj [("at", JStr "2024-01-02T03:04:05")]))] |}.
Example C13_regression_datetime_variable :
  t_fin (run_ws C0 RQ_DT [ACK]) = Finished /\
  sent_of (t_events (run_ws C0 RQ_DT [ACK])) =
    [init_msg C0;
     JObj [("id", JStr "<id>"); ("type", JStr "subscribe");
           ("payload", JObj [("query", JStr "subscription($t: DateTime) { x(since: $t) }");
                             ("operationName", JStr "S");
                             ("variables", JObj [("t", JStr "2024-01-02T03:04:05");
                                                 ("w", JObj [("at", JStr "2024-01-02T03:04:05")])])])]].
Proof. vm_compute. split; reflexivity. Qed.

Theorem C13_conforms_refuted : ~ C13_conforms_full.
Proof.
  intro H. destruct (H C0 RQ0 [ACK; NEXT JNull]) as (_ & E & _). vm_compute in E. discriminate.
Qed.
Print Assumptions C13_conforms_refuted.

(* ================= non-vacuity: the guards are met by non-trivial inputs ================= *)
Definition RQ_RICH := {| r_query := "subscription S($a: Int) { count(a: $a) }"; r_opname := Some "S";
  r_vars := Some [("a", VJ (JInt 1)); ("skip", VUnset);
                  ("inp", VModel true (JObj [("fieldA", JInt 1)]));
                  ("lst", VList [VModel true (JObj [("k", JInt 2)]); VJ (JInt 3)])] |}.
Definition C_RICH := {| c_url := "ws://h/g"; c_headers := [("X-A", JStr "1"); ("X-B", JStr "2")];
  c_origin := Some "https://o"; c_init_payload := Some (JObj [("token", JStr "t")]);
  c_kw_headers := Some [("X-B", JStr "over")]; c_kw_other := [("open_timeout", JInt 5)] |}.
Definition FS_RICH := [ACK; NEXT D1; fr "ping" []; fr "pong" []; NEXT (JObj [("x", JInt 2)]); COMPLETE].

Example C13_guards_satisfiable :
  g_all FS_RICH = true /\
  yielded_of (t_events (run_ws C_RICH RQ_RICH FS_RICH)) = [D1; JObj [("x", JInt 2)]] /\
  t_fin (run_ws C_RICH RQ_RICH FS_RICH) = Finished /\
  List.length (sent_of (t_events (run_ws C_RICH RQ_RICH FS_RICH))) = 3 /\
  k_kwargs (t_connect (run_ws C_RICH RQ_RICH FS_RICH)) =
    [("origin", JStr "https://o"); ("open_timeout", JInt 5);
     ("extra_headers", JObj [("X-A", JStr "1"); ("X-B", JStr "over")])] /\
  subscribe_msg RQ_RICH = Some (JObj [("id", JStr "<id>"); ("type", JStr "subscribe");
    ("payload", JObj [("query", JStr "subscription S($a: Int) { count(a: $a) }"); ("operationName", JStr "S");
       ("variables", JObj [("a", JInt 1); ("inp", JObj [("fieldA", JInt 1)]);
                           ("lst", JArr [JObj [("k", JInt 2)]; JInt 3])])])]).
Proof. vm_compute. repeat split. Qed.

Example C13_error_hypotheses_satisfiable :
  let e := fr "error" [("payload", JArr [JObj [("message", JStr "boom")]])] in
  nonterminal [NEXT D1; fr "ping" []] = true /\ skind_of e = SError [JObj [("message", JStr "boom")]] /\
  shape_ok e = true /\ is_ack ACK = true /\
  t_fin (run_ws C0 RQ0 (ACK :: [NEXT D1; fr "ping" []] ++ e :: [NEXT D1])) =
    RaisedMulti [JObj [("message", JStr "boom")]] (frame_json e).
Proof. vm_compute. repeat split. Qed.
