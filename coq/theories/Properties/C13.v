(* C13 — Subscriptions follow the graphql-transport-ws protocol for every frame sequence.
   Property theorems only; proofs live in Proofs/WsP.v.  run_ws is the model of execute_ws
   (Model/Ws.v, as of /repo 20e6b35), spec_ws the protocol machine the property text describes.  All
   theorems quantify over ALL configurations, requests and frame lists (any length, any JSON).
   No finding class is open any more: every statement is at full strength, without guards.  The former
   `..._refuted` witnesses are kept below as regression Examples (and replayed on the real code by the
   check: harness/vh/props/c13_deep.py). *)
From Coq Require Import List String Bool ZArith.
From AC Require Import Base.Json Model.Ws Proofs.WsP.
Import ListNotations.
Local Open Scope string_scope.

(* ---- the client is the protocol machine: connect parameters, the whole interleaved event list
        (receive / send / yield / close) and the outcome (message text of the invalid-message error
        aside) ---- *)
Theorem C13_conforms : forall c rq fs, same_obs (run_ws c rq fs) (spec_ws c rq fs).
Proof. exact conform. Qed.
Print Assumptions C13_conforms.

(* ---- init first, and nothing else before a frame has been received ---- *)
Theorem C13_init_first : forall c rq fs, exists evs,
  t_events (run_ws c rq fs) = ESend (init_msg c) :: evs /\
  (fs = [] /\ evs = [] \/ exists evs', evs = ERecv :: evs').
Proof. exact events_head. Qed.
Print Assumptions C13_init_first.

(* ---- everything the client ever sends, in closed form: init; then, only if the first frame is the
        ack, one subscribe; then one pong per ping that precedes the first terminal frame ---- *)
Theorem C13_sent_closed_form : forall c rq fs,
  sent_of (t_events (run_ws c rq fs)) =
    init_msg c ::
    match fs with
    | [] => []
    | f :: r =>
        if is_ack f then
          match subscribe_msg rq with
          | Some m => m :: repeat pong_msg (count_pings (spec_prefix r))
          | None => []
          end
        else []
    end.
Proof. exact sent_closed_form. Qed.
Print Assumptions C13_sent_closed_form.

Theorem C13_silent_until_ack : forall c rq fs, (forall f r, fs = f :: r -> is_ack f = false) ->
  sent_of (t_events (run_ws c rq fs)) = [init_msg c] /\ yielded_of (t_events (run_ws c rq fs)) = [].
Proof. exact silent_until_ack. Qed.
Print Assumptions C13_silent_until_ack.

(* ---- first frame not the ack => invalid-message error, exactly one frame consumed ---- *)
Theorem C13_first_not_ack_invalid : forall c rq f r, is_ack f = false ->
  exists msg, t_fin (run_ws c rq (f :: r)) = RaisedInvalid msg /\
              t_events (run_ws c rq (f :: r)) = [ESend (init_msg c); ERecv].
Proof. exact first_not_ack. Qed.
Print Assumptions C13_first_not_ack_invalid.

(* ---- exactly one subscribe (query, operationName, to_jsonable serialisation of the variables) ---- *)
Theorem C13_one_subscribe : forall c rq f r m, is_ack f = true -> subscribe_msg rq = Some m ->
  sent_of (t_events (run_ws c rq (f :: r))) = init_msg c :: m :: repeat pong_msg (count_pings (spec_prefix r)).
Proof. exact one_subscribe. Qed.
Print Assumptions C13_one_subscribe.

(* ---- the yielded list is the data of the next frames, in order, up to the first terminal frame
        (complete / error / next whose data is null / malformed); that data is never null ---- *)
Theorem C13_yields_next_in_order : forall c rq f r m, is_ack f = true -> subscribe_msg rq = Some m ->
  yielded_of (t_events (run_ws c rq (f :: r))) = next_data (spec_prefix r).
Proof. exact yields. Qed.
Print Assumptions C13_yields_next_in_order.

Theorem C13_next_data_never_null : forall f d, skind_of f = SNext d -> nonnull d = true.
Proof. exact snext_nonnull. Qed.
Print Assumptions C13_next_data_never_null.

(* ---- finishes on complete, whatever follows ---- *)
Theorem C13_complete_finishes : forall c rq f a x b m, is_ack f = true ->
  subscribe_msg rq = Some m -> nonterminal a = true -> skind_of x = SComplete ->
  t_fin (run_ws c rq (f :: a ++ x :: b)) = Finished /\
  closes_of (t_events (run_ws c rq (f :: a ++ x :: b))) = 1 /\
  consumed_of (t_events (run_ws c rq (f :: a ++ x :: b))) = S (S (List.length a)) /\
  yielded_of (t_events (run_ws c rq (f :: a ++ x :: b))) = next_data a.
Proof. exact complete_finishes. Qed.
Print Assumptions C13_complete_finishes.

(* ---- error => the multi-error with the frame's errors (data = the message) ---- *)
Theorem C13_error_raises_multi : forall c rq f a x b m l, is_ack f = true ->
  subscribe_msg rq = Some m -> nonterminal a = true -> skind_of x = SError l ->
  t_fin (run_ws c rq (f :: a ++ x :: b)) = RaisedMulti l (frame_json x) /\
  yielded_of (t_events (run_ws c rq (f :: a ++ x :: b))) = next_data a.
Proof. exact error_multi. Qed.
Print Assumptions C13_error_raises_multi.

(* ---- next whose data is null => the multi-error built from the result's errors (data = None);
        no frame vanishes silently (former finding F14) ---- *)
Theorem C13_next_null_data_raises_errors : forall c rq f a x b m l, is_ack f = true ->
  subscribe_msg rq = Some m -> nonterminal a = true -> skind_of x = SNextErrors l ->
  t_fin (run_ws c rq (f :: a ++ x :: b)) = RaisedMulti l JNull /\
  yielded_of (t_events (run_ws c rq (f :: a ++ x :: b))) = next_data a.
Proof. exact next_errors_multi. Qed.
Print Assumptions C13_next_null_data_raises_errors.

(* ---- malformed (non-JSON, not an object, missing / non-string / unknown type, next without data or with
        null data and no errors, error payload that is not a list of error objects) => invalid-message
        error carrying the frame (former finding C13-shape-crash) ---- *)
Theorem C13_malformed_raises_invalid : forall c rq f a x b m, is_ack f = true ->
  subscribe_msg rq = Some m -> nonterminal a = true -> skind_of x = SMalformed ->
  t_fin (run_ws c rq (f :: a ++ x :: b)) = RaisedInvalid (Some x) /\
  yielded_of (t_events (run_ws c rq (f :: a ++ x :: b))) = next_data a.
Proof. exact malformed_invalid. Qed.
Print Assumptions C13_malformed_raises_invalid.

(* ---- no frame sequence whatsoever ends the run with an exception outside the protocol: the only
        other exception is the serialisation failure of the caller's own variables ---- *)
Theorem C13_only_protocol_outcomes : forall c rq fs e, t_fin (run_ws c rq fs) = RaisedOther e ->
  e = SER_ERROR /\ subscribe_msg rq = None /\ exists f r, fs = f :: r /\ is_ack f = true.
Proof. exact only_protocol_outcomes. Qed.
Print Assumptions C13_only_protocol_outcomes.

(* ---- the type table handed to the harness (compared there with the enum in /repo) is what the model
        decides with ---- *)
Theorem C13_type_table_exact : forall s t, mtype_of_string s = Some t <-> exists n, In (n, s, t) type_table.
Proof. exact mtype_table_exact. Qed.
Print Assumptions C13_type_table_exact.

(* ---- the OpenTelemetry client, with or without tracer, produces the same trace (by construction of
        the separately written step_otel + the exhaustive tie over the three variants) ---- *)
Theorem C13_otel_same_trace : forall c rq fs tracer,
  strip_spans (run_ws_otel tracer c rq fs) = run_ws c rq fs.
Proof. exact otel_same. Qed.
Print Assumptions C13_otel_same_trace.

(* ---- histories (by construction + the history / overlap ties of the harness) ---- *)
Theorem C13_history_independent : forall cl calls,
  snd (run_history cl calls) = cl /\
  fst (run_history cl calls) = map (fun c => run_ws (cfg_of cl (fst (fst c))) (snd (fst c)) (snd c)) calls.
Proof. exact history_independent. Qed.
Print Assumptions C13_history_independent.

(* ================= regression Examples: the witnesses of the five repaired findings ================= *)
Definition C0 := {| c_url := "ws://x"; c_headers := []; c_origin := None; c_init_payload := None;
                    c_kw_headers := None; c_kw_other := [] |}.
Definition RQ0 := {| r_query := "subscription { x }"; r_opname := None; r_vars := None |}.
Definition fr (ty : string) (rest : list (string * json)) := FJson (JObj (("type", JStr ty) :: rest)).
Definition ACK := fr "connection_ack" [].
Definition NEXT (d : json) := fr "next" [("payload", JObj [("data", d)])].
Definition COMPLETE := fr "complete" [].
Definition D1 := JObj [("x", JInt 1)].
Definition BOOM := [JObj [("message", JStr "boom")]].

(* F14 ({} data, 8b27040): falsy non-null data is yielded *)
Example C13_regression_empty_object_data :
  yielded_of (t_events (run_ws C0 RQ0 [ACK; NEXT (JObj []); NEXT (JInt 0); NEXT (JStr ""); NEXT D1])) =
    [JObj []; JInt 0; JStr ""; D1].
Proof. vm_compute. reflexivity. Qed.

(* F14 (null data, 20e6b35): errors are raised, a null without errors is malformed; later frames untouched *)
Example C13_regression_null_data :
  let nx := fr "next" [("payload", JObj [("data", JNull); ("errors", JArr BOOM)])] in
  t_fin (run_ws C0 RQ0 [ACK; NEXT D1; nx; NEXT D1]) = RaisedMulti BOOM JNull /\
  yielded_of (t_events (run_ws C0 RQ0 [ACK; NEXT D1; nx; NEXT D1])) = [D1] /\
  t_fin (run_ws C0 RQ0 [ACK; NEXT JNull]) = RaisedInvalid (Some (NEXT JNull)) /\
  t_fin (run_ws C0 RQ0 [ACK; fr "next" [("payload", JObj [("data", JNull); ("errors", JArr [])])]]) =
    RaisedInvalid (Some (fr "next" [("payload", JObj [("data", JNull); ("errors", JArr [])])])).
Proof. vm_compute. repeat split. Qed.

(* F26 (b1e7ba9): nothing after complete is processed *)
Example C13_regression_after_complete :
  let t := run_ws C0 RQ0 [ACK; COMPLETE; NEXT D1; fr "ping" [];
                          fr "error" [("payload", JArr [JObj [("message", JStr "late")]])]] in
  t_fin t = Finished /\ yielded_of (t_events t) = [] /\ consumed_of (t_events t) = 2 /\
  List.length (sent_of (t_events t)) = 2.
Proof. vm_compute. repeat split. Qed.

(* C13-shape-crash (2ce90a9): the former crash frames raise the invalid-message error *)
Example C13_regression_shape :
  t_fin (run_ws C0 RQ0 [FJson (JArr [JInt 1; JInt 2])]) = RaisedInvalid (Some (FJson (JArr [JInt 1; JInt 2]))) /\
  (let e := fr "error" [("payload", JObj [("message", JStr "single object")])] in
   t_fin (run_ws C0 RQ0 [ACK; e]) = RaisedInvalid (Some e)) /\
  (let e := fr "error" [("payload", JObj [])] in t_fin (run_ws C0 RQ0 [ACK; e]) = RaisedInvalid (Some e)) /\
  (let n := fr "next" [("payload", JStr "xdatax")] in
   t_fin (run_ws C0 RQ0 [ACK; NEXT D1; n]) = RaisedInvalid (Some n)) /\
  (let u := FJson (JObj [("type", JArr [JStr "next"])]) in
   t_fin (run_ws C0 RQ0 [ACK; u]) = RaisedInvalid (Some u)) /\
  t_fin (run_ws C0 RQ0 [ACK; fr "error" []]) = RaisedMulti [] (frame_json (fr "error" [])).
Proof. vm_compute. repeat split. Qed.

(* C13-vars-not-json (d334181): datetime-like variables are serialised *)
Definition RQ_DT := {| r_query := "subscription($t: DateTime) { x(since: $t) }"; r_opname := Some "S";
                       r_vars := Some [("t", VOpaque (JStr "2024-01-02T03:04:05"));
                                       ("w", VModel false (JObj [("at", JStr "2024-01-02T03:04:05")]))] |}.
Example C13_regression_datetime_variable :
  t_fin (run_ws C0 RQ_DT [ACK]) = Finished /\
  sent_of (t_events (run_ws C0 RQ_DT [ACK])) =
    [init_msg C0;
     JObj [("id", JStr "<id>"); ("type", JStr "subscribe");
           ("payload", JObj [("query", JStr "subscription($t: DateTime) { x(since: $t) }");
                             ("operationName", JStr "S");
                             ("variables", JObj [("t", JStr "2024-01-02T03:04:05");
                                                 ("w", JObj [("at", JStr "2024-01-02T03:04:05")])])])]].
Proof. vm_compute. split; reflexivity. Qed.

(* ================= non-vacuity: the hypotheses are met by non-trivial inputs ================= *)
Definition RQ_RICH := {| r_query := "subscription S($a: Int) { count(a: $a) }"; r_opname := Some "S";
  r_vars := Some [("a", VJ (JInt 1)); ("skip", VUnset);
                  ("inp", VModel true (JObj [("fieldA", JInt 1)]));
                  ("lst", VList [VModel true (JObj [("k", JInt 2)]); VJ (JInt 3)])] |}.
Definition C_RICH := {| c_url := "ws://h/g"; c_headers := [("X-A", JStr "1"); ("X-B", JStr "2")];
  c_origin := Some "https://o"; c_init_payload := Some (JObj [("token", JStr "t")]);
  c_kw_headers := Some [("X-B", JStr "over")]; c_kw_other := [("open_timeout", JInt 5)] |}.
Definition FS_RICH := [ACK; NEXT D1; fr "ping" []; fr "pong" []; NEXT (JObj [("x", JInt 2)]); COMPLETE].

Example C13_rich_example :
  yielded_of (t_events (run_ws C_RICH RQ_RICH FS_RICH)) = [D1; JObj [("x", JInt 2)]] /\
  t_fin (run_ws C_RICH RQ_RICH FS_RICH) = Finished /\
  List.length (sent_of (t_events (run_ws C_RICH RQ_RICH FS_RICH))) = 3 /\
  k_kwargs (t_connect (run_ws C_RICH RQ_RICH FS_RICH)) =
    [("origin", JStr "https://o"); ("open_timeout", JInt 5);
     ("extra_headers", JObj [("X-A", JStr "1"); ("X-B", JStr "over")])] /\
  subscribe_msg RQ_RICH = Some (JObj [("id", JStr "<id>"); ("type", JStr "subscribe");
    ("payload", JObj [("query", JStr "subscription S($a: Int) { count(a: $a) }"); ("operationName", JStr "S");
       ("variables", JObj [("a", JInt 1); ("inp", JObj [("fieldA", JInt 1)]);
                           ("lst", JArr [JObj [("k", JInt 2)]; JInt 3])])])]).
Proof. vm_compute. repeat split. Qed.

Example C13_error_hypotheses_satisfiable :
  let e := fr "error" [("payload", JArr BOOM)] in
  nonterminal [NEXT D1; fr "ping" []] = true /\ skind_of e = SError BOOM /\ is_ack ACK = true /\
  t_fin (run_ws C0 RQ0 (ACK :: [NEXT D1; fr "ping" []] ++ e :: [NEXT D1])) = RaisedMulti BOOM (frame_json e).
Proof. vm_compute. repeat split. Qed.
