(* placeholder while the harness is brought up *)
From Coq Require Import List.
From AC Require Import Base.Strs Model.Init Model.Package.
Theorem C04_placeholder : forall c s ops, s_frag_bad_mixin s = true -> generate c s ops = Refused BadMixinArgs.
Proof. intros c s ops H. unfold generate. rewrite H. reflexivity. Qed.
Print Assumptions C04_placeholder.
