(* C04 — every valid input generates, and what is generated loads.
   Property theorems only; proofs live in Proofs/PackageP.v and Proofs/InitP.v.
   What these theorems are about: the package-layout logic of package.py / init_file.py / the refusal tests
   (Model/Package.v, Model/Init.v).  "Valid Python that imports with all models built" is a fact about
   CPython and pydantic and is checked end to end (K3 in harness/vh/props/c04.py), not proved. *)
From Coq Require Import List String Ascii Bool Sorted Permutation.
From AC Require Import Base.Strs Model.Names Model.Init Model.Package Proofs.NamesP Proofs.InitP Proofs.PackageP.
From AC Require Gql.Schema Py.Ann Model.Results Proofs.ScopeP Model.Rebuild Proofs.RebuildP.
From AC Require Gql.InSchema Model.Inputs Proofs.InputScopeP.
Import ListNotations.
Local Open Scope string_scope.

(* ---- refusals: exactly the four documented ones, each exactly under its condition ----
   (by construction of the total model + the tie: an exception of the real generator where the model
   says Ok, or another refusal, is a K1 disagreement) *)
Theorem C04_refusals_exact : forall c s ops r,
  generate c s ops = Refused r <->
  (s_frag_bad_mixin s = true /\ r = BadMixinArgs) \/
  (s_frag_bad_mixin s = false /\ first_refusing c [] ops r) \/
  (s_frag_bad_mixin s = false /\ accepted c [] ops /\
   r = DuplicateFiles /\ ~ NoDup (checked_names c s (result_files ops))).
Proof. exact generate_refused. Qed.
Print Assumptions C04_refusals_exact.

(* [accepted] read declaratively: nobody refuses on its own and the module files are pairwise distinct *)
Theorem C04_accepted_meaning : forall c ops,
  accepted c [] ops <->
  Forall (fun o => op_static_refusal c o = None) ops /\ NoDup (result_files ops).
Proof.
  intros c ops. rewrite accepted_iff. split; [tauto|]. intros [F D]. repeat split; auto.
Qed.
Print Assumptions C04_accepted_meaning.

(* generation succeeds exactly when no documented condition holds: no malformed @mixin, every operation
   named, no subscription with a synchronous client, and ALL file names that will be written pairwise
   distinct (this subsumes the collision test between two operations) *)
Theorem C04_generates_iff_no_condition : forall c s ops,
  (exists p, generate c s ops = Ok p) <->
  s_frag_bad_mixin s = false /\ Forall (fun o => op_static_refusal c o = None) ops /\
  NoDup (checked_names c s (result_files ops)).
Proof. exact generate_ok_iff. Qed.
Print Assumptions C04_generates_iff_no_condition.

(* the per-operation tests, spelled out: an operation is refused iff it is anonymous, or its module file
   is already taken by an earlier operation (the documented "colliding file names" refusal: same
   ParsingError, same message), or it carries a malformed @mixin, or it is a subscription while the client
   is synchronous — in that order *)
Theorem C04_operation_conditions : forall c seen o,
  (op_refusal c seen o = Some Anonymous <-> o_name o = None) /\
  (op_refusal c seen o = Some DuplicateFiles <-> o_name o <> None /\ In (op_file o) seen) /\
  (op_refusal c seen o = Some SubscriptionSync ->
     o_kind o = OSubscription /\ c_async c = false) /\
  (op_refusal c seen o = Some BadMixinArgs -> exists a, In a (o_mixins o) /\ mixin_ok a = false).
Proof.
  intros c seen o. unfold op_refusal, op_static_refusal, o_bad_mixin, bad_mixins.
  destruct (o_name o) as [n|].
  - destruct (mem_chars (op_file o) seen) eqn:M.
    + apply mem_chars_In in M. split; [split; discriminate|]. split; [|split; discriminate].
      split; [intros _; split; [discriminate | exact M] | reflexivity].
    + assert (~ In (op_file o) seen) as NM by (intro I; apply mem_chars_In in I; congruence).
      destruct (existsb (fun a => negb (mixin_ok a)) (o_mixins o)) eqn:B.
      * split; [split; discriminate|]. split; [split; [discriminate | intros [_ I]; contradiction]|].
        split; [discriminate|]. intros _. apply existsb_exists in B as (a & I & N).
        exists a. split; [exact I|]. destruct (mixin_ok a); [discriminate | reflexivity].
      * destruct (o_kind o); destruct (c_async c); simpl;
          (split; [split; discriminate|]; split; [split; [discriminate | intros [_ I]; contradiction]|];
           split; [try discriminate; auto | discriminate]).
  - split; [split; reflexivity|]. split; [split; [discriminate | intros [X _]; contradiction]|].
    split; discriminate.
Qed.
Print Assumptions C04_operation_conditions.

(* ---- __all__ ---- *)
Theorem C04_all_is_imports : forall c s ops p, generate c s ops = Ok p ->
  p_all p = sort_chars (imported_names (init_imports p)) /\
  Sorted chars_le (p_all p) /\
  Permutation (p_all p) (imported_names (init_imports p)) /\
  imported_names (init_imports p) = expected_exports c s ops.
Proof.
  intros c s ops p H. destruct (generate_ok_shape _ _ _ _ H) as (_ & _ & A & E & _).
  rewrite A. repeat split; [apply sort_sorted | apply sort_perm | exact E].
Qed.
Print Assumptions C04_all_is_imports.

Definition C04_all_duplicate_free_full : Prop := forall c s ops p,
  generate c s ops = Ok p -> NoDup (p_all p).

Theorem C04_all_duplicate_free_partial : forall c s ops p, generate c s ops = Ok p ->
  NoDup (expected_exports c s ops) -> NoDup (p_all p).
Proof.
  intros c s ops p H N. destruct (generate_ok_shape _ _ _ _ H) as (_ & _ & A & E & _).
  rewrite A. apply sort_nodup. rewrite E. exact N.
Qed.
Print Assumptions C04_all_duplicate_free_partial.

(* every name a sub-generator hands over is exported: nothing is lost on the way to __all__ *)
Theorem C04_exports_complete : forall c s ops p, generate c s ops = Ok p ->
  (forall o n, In o ops -> In n (o_public o) -> In n (p_all p)) /\
  In (c_client_name c) (p_all p) /\
  (forall n, In n (s_enums_public s) -> In n (p_all p)) /\
  (forall n, In n (s_inputs_public s) -> In n (p_all p)) /\
  (frags_written s = true -> forall n, In n (s_frag_public s) -> In n (p_all p)).
Proof.
  intros c s ops p H. destruct (generate_ok_shape _ _ _ _ H) as (_ & _ & A & E & _).
  rewrite A. unfold expected_exports in E. repeat split.
  - intros o n Io In_. apply sort_in. rewrite E, in_app_iff. left. apply in_flat_map. exists o. auto.
  - apply sort_in. rewrite E. repeat (rewrite in_app_iff; simpl). tauto.
  - intros n I. apply sort_in. rewrite E. repeat (rewrite in_app_iff; simpl). tauto.
  - intros n I. apply sort_in. rewrite E. repeat (rewrite in_app_iff; simpl). tauto.
  - intros W n I. apply sort_in. rewrite E, W. repeat (rewrite in_app_iff; simpl). tauto.
Qed.
Print Assumptions C04_exports_complete.

(* ---- reported file list ---- *)
Theorem C04_reported_files_are_written : forall c s ops p, generate c s ops = Ok p ->
  reported p = sort_chars (written p) /\
  Sorted chars_le (reported p) /\
  Permutation (reported p) (written p) /\
  (forall w, Permutation w (written p) -> sort_chars w = reported p).
Proof.
  intros c s ops p H. destruct (generate_ok_shape _ _ _ _ H) as (_ & R & _).
  rewrite R. repeat split; [apply sort_sorted | apply sort_perm | intros w P; apply sort_canonical, P].
Qed.
Print Assumptions C04_reported_files_are_written.

Theorem C04_written_complete : forall c s ops p, generate c s ops = Ok p ->
  (forall o n, In o ops -> o_name o = Some n -> In (py (op_module n)) (written p)) /\
  In (py (c_client_file c)) (written p) /\ In (py (c_enums_mod c)) (written p) /\
  In (py (c_inputs_mod c)) (written p) /\ In init_file (written p) /\
  (forall f, In f (c_include c) -> In f (written p)).
Proof.
  intros c s ops p H. destruct (generate_ok_shape _ _ _ _ H) as (W & _). rewrite W.
  repeat split; try (apply written_has; simpl; tauto).
  - intros o n I E. apply written_has. left. apply in_map_iff. exists o. split; [apply op_file_named, E | exact I].
  - intros f I. apply written_has. right. right. left. unfold includes. rewrite in_app_iff. auto.
Qed.
Print Assumptions C04_written_complete.

(* ---- file names are pairwise distinct (full strength since d2e37b3: the check covers every written
   file and two operations cannot share a module) ---- *)
Theorem C04_file_names_unique : forall c s ops p,
  generate c s ops = Ok p -> NoDup (written p) /\ NoDup (reported p).
Proof.
  intros c s ops p H. pose proof (written_unique _ _ _ _ H) as N. split; [exact N|].
  destruct (generate_ok_shape _ _ _ _ H) as (_ & R & _). rewrite R. apply sort_nodup, N.
Qed.
Print Assumptions C04_file_names_unique.

Theorem C04_operations_keep_their_module : forall c s ops p,
  generate c s ops = Ok p ->
  forall i j a b, nth_error ops i = Some a -> nth_error ops j = Some b -> i <> j ->
  option_map op_module (o_name a) <> option_map op_module (o_name b).
Proof. exact modules_distinct. Qed.
Print Assumptions C04_operations_keep_their_module.

(* ---- witnesses ---- *)
Definition cfg0 (custom : bool) (include : list chars) : cfg :=
  {| c_client_name := s2l "Client"; c_client_file := s2l "client"; c_enums_mod := s2l "enums";
     c_inputs_mod := s2l "input_types"; c_frags_mod := s2l "fragments"; c_async := true; c_otel := false;
     c_custom_ops := custom; c_include := include; c_custom_base := None |}.
Definition sum0 : summary :=
  {| s_frag_names := []; s_frag_unpacked := []; s_frag_mixins := []; s_frag_dirs := []; s_frag_public := [];
     s_enums_public := [s2l "Color"]; s_inputs_public := []; s_has_query := true; s_has_mutation := false |}.
Definition q (name : string) (public : list string) : op :=
  {| o_kind := OQuery; o_name := Some (s2l name); o_mixins := []; o_public := map s2l public |}.

(* regression cases: the witnesses of the former refutations (findings C04-F28 / C04-F29, fixed by
   d2e37b3) are now refused with the documented "colliding file names" refusal *)
Example C04_former_witnesses_refused :
  generate (cfg0 true []) sum0 [q "customFields" ["CustomFields"]] = Refused DuplicateFiles /\
  generate (cfg0 false [s2l "__init__.py"]) sum0 [q "Q" ["Q"]] = Refused DuplicateFiles /\
  generate (cfg0 false []) sum0 [q "GetX" ["GetX"]; q "getX" ["GetX"]] = Refused DuplicateFiles /\
  (* the same operation name without custom operations is fine: custom_fields.py is not written *)
  (exists p, generate (cfg0 false []) sum0 [q "customFields" ["CustomFields"]] = Ok p).
Proof. repeat split; try (vm_compute; reflexivity). eexists. vm_compute. reflexivity. Qed.

(* __all__ may still list a name twice: class names of DIFFERENT operation modules can coincide
   (operation Foo selecting `animal` and operation FooAnimal both own a class FooAnimal); nothing refuses
   that, the package imports, set(__all__) = imported names still holds (observation, not a finding) *)
Theorem C04_all_duplicate_free_refuted : ~ C04_all_duplicate_free_full.
Proof.
  intro H.
  assert (exists p, generate (cfg0 false []) sum0
                      [q "Foo" ["Foo"; "FooAnimal"]; q "FooAnimal" ["FooAnimal"]] = Ok p /\
                    has_dup (p_all p) = true) as (p & E & D)
    by (eexists; split; vm_compute; reflexivity).
  apply H in E. apply has_dup_false_iff in E. congruence.
Qed.
Print Assumptions C04_all_duplicate_free_refuted.

(* module names of operations are valid identifiers (from C18, same guard) *)
Theorem C04_module_names_valid_partial : forall n, gql_name n = true -> g_c18 op_flags n = true ->
  py_identifier (op_module n) = true /\ iskeyword (op_module n) = false.
Proof.
  intros n G K. split; [apply process_valid_identifier | apply process_not_keyword]; assumption.
Qed.
Print Assumptions C04_module_names_valid_partial.

(* ---- well_scoped: the contents of the result modules and of the fragments module (Model/Results.v) ----
   Every class an annotation names is a class of the SAME module (forward references are rebuilt after all
   classes of the module exist), every enum an annotation names is an enum of the schema (the enums module),
   every base is BaseModel, a fragment that has a class in the fragments module, or a @mixin import.
   Guard: the leaf discipline [leaf_disc] (GraphQL's ScalarLeafs rule read by field name: a field selected
   without sub-selection is of scalar/enum type wherever it is declared, and lookup of String is a scalar). *)
Module WS.
  Import Gql.Schema Py.Ann Model.Results Proofs.ScopeP.

  Theorem C04_well_scoped_classes_partial : forall fuel C S frs d cls,
    result_classes fuel C S frs d = Ok cls ->
    leaf_disc S frs (match d with DOp _ _ _ sels => sels | DFrag f => fr_sel f end) ->
    forall c pf n, In c cls -> In pf (c_fields c) -> In n (ann_classes (p_ann pf)) -> In n (map c_name cls).
  Proof.
    intros fuel C S frs [kind name mixins sels | f] cls H L; simpl in H.
    - unfold op_parse in H. destruct (root_type_name S kind) as [tn|m]; simpl in H; [|discriminate].
      destruct (parse_type_def fuel C S frs [] (pascal_s name) tn sels false mixins None) as [[[o p] k]|m] eqn:E;
        simpl in H; [|discriminate]. inversion H; subst. eapply ptd_well_scoped; eauto.
    - destruct (unpack_fragment S f None); [inversion H; subst; intros c pf n []|].
      destruct (parse_type_def fuel C S frs [] (pascal_s (fr_name f)) (fr_on f) (fr_sel f) false (fr_mixins f) None)
        as [[[o p] k]|m] eqn:E; simpl in H; [|discriminate]. inversion H; subst. eapply ptd_well_scoped; eauto.
  Qed.

  (* the typed form: the guard is GraphQL's ScalarLeafs rule along the generator's own typed traversal
     ([typed_leafs H]: where H holds of (type, selection list), a field without sub-selection is scalar/enum IN THAT
     TYPE, and H is handed on to every (class type, sub-selection) a class is generated for).  The by-name guard
     above is one instance ([leaf_disc_typed]); any typing judgement closed under these two steps is another. *)
  Theorem C04_well_scoped_classes_typed : forall (H : string -> list sel -> Prop) fuel C S frs d cls tn,
    typed_leafs C S frs H ->
    result_classes fuel C S frs d = Ok cls ->
    (match d with DOp kind _ _ _ => root_type_name S kind = Ok tn | DFrag f => tn = fr_on f end) ->
    H tn (match d with DOp _ _ _ sels => sels | DFrag f => fr_sel f end) ->
    forall c pf n, In c cls -> In pf (c_fields c) -> In n (ann_classes (p_ann pf)) -> In n (map c_name cls).
  Proof.
    intros H fuel C S frs [kind name mixins sels | f] cls tn HH E T L; simpl in E.
    - unfold op_parse in E. rewrite T in E. simpl in E.
      destruct (parse_type_def fuel C S frs [] (pascal_s name) tn sels false mixins None) as [[[o p] k]|m] eqn:P;
        simpl in E; [|discriminate]. inversion E; subst. eapply ptd_well_scoped_typed; eauto.
    - subst tn. destruct (unpack_fragment S f None); [inversion E; subst; intros c pf n []|].
      destruct (parse_type_def fuel C S frs [] (pascal_s (fr_name f)) (fr_on f) (fr_sel f) false (fr_mixins f) None)
        as [[[o p] k]|m] eqn:P; simpl in E; [|discriminate]. inversion E; subst. eapply ptd_well_scoped_typed; eauto.
  Qed.

  Theorem C04_well_scoped_enums : forall fuel C S frs d cls,
    result_classes fuel C S frs d = Ok cls ->
    forall c pf e, In c cls -> In pf (c_fields c) -> In e (ann_enums (p_ann pf)) ->
    exists vs, lookup_type S e = Some (DEnum vs).
  Proof.
    intros fuel C S frs [kind name mixins sels | f] cls H; simpl in H.
    - unfold op_parse in H. destruct (root_type_name S kind) as [tn|m]; simpl in H; [|discriminate].
      destruct (parse_type_def fuel C S frs [] (pascal_s name) tn sels false mixins None) as [[[o p] k]|m] eqn:E;
        simpl in H; [|discriminate]. inversion H; subst. eapply ptd_enums_in_schema; eauto.
    - destruct (unpack_fragment S f None); [inversion H; subst; intros c pf e []|].
      destruct (parse_type_def fuel C S frs [] (pascal_s (fr_name f)) (fr_on f) (fr_sel f) false (fr_mixins f) None)
        as [[[o p] k]|m] eqn:E; simpl in H; [|discriminate]. inversion H; subst. eapply ptd_enums_in_schema; eauto.
  Qed.

  (* c_bases c = (BaseModel | Pascal names of [kept] fragments) ++ @mixin imports, and every fragment used as a
     base is one the fragments module has a class for (it is not unpacked on its own) *)
  Theorem C04_well_scoped_bases : forall fuel C S frs d cls,
    result_classes fuel C S frs d = Ok cls ->
    forall c, In c cls ->
    exists ms kept eb, c_bases c = class_bases ms kept eb /\ incl kept ms /\
      forall n, In n ms -> exists f, lookup_frag frs n = Some f /\ unpack_fragment S f None = false.
  Proof.
    intros fuel C S frs [kind name mixins sels | f] cls H; simpl in H.
    - unfold op_parse in H. destruct (root_type_name S kind) as [tn|m]; simpl in H; [|discriminate].
      destruct (parse_type_def fuel C S frs [] (pascal_s name) tn sels false mixins None) as [[[o p] k]|m] eqn:E;
        simpl in H; [|discriminate]. inversion H; subst. eapply ptd_bases; eauto.
    - destruct (unpack_fragment S f None); [inversion H; subst; intros c []|].
      destruct (parse_type_def fuel C S frs [] (pascal_s (fr_name f)) (fr_on f) (fr_sel f) false (fr_mixins f) None)
        as [[[o p] k]|m] eqn:E; simpl in H; [|discriminate]. inversion H; subst. eapply ptd_bases; eauto.
  Qed.
  (* non-vacuity: a schema and an operation that meet the guard, with nested classes and an enum *)
  Definition exS : schema :=
    {| s_types := [("String", DScalar); ("Int", DScalar); ("Color", DEnum ["RED"]);
                   ("A", DObject [] [("x", TNamed "Int"); ("c", TNamed "Color"); ("next", TNamed "A")]);
                   ("Query", DObject [] [("a", TNamed "A"); ("s", TNamed "String")])];
       s_query := Some "Query"; s_mutation := None; s_subscription := None |}.
  Definition exSels : list sel :=
    [SField None "a" false [] (Some [SField None "x" false [] None; SField None "c" false [] None;
                                     SField None "next" false [] (Some [SField None "c" false [] None])]);
     SField None "s" false [] None].
  Ltac ins := repeat match goal with
    | H : In _ (_ :: _) |- _ => destruct H as [H|H]
    | H : In _ [] |- _ => destruct H
    | H : SField _ _ _ _ _ = SField _ _ _ _ _ |- _ => inversion H; subst; clear H
    | H : _ = _ |- _ => discriminate H
    end.
  Ltac leafcase H := unfold schema_field_type, lookup_type in H; simpl in H;
    repeat match type of H with context [String.eqb ?a ?b] => destruct (String.eqb a b); simpl in H end;
    try discriminate; inversion H; subst; reflexivity.
  Ltac occinv H := match goal with O' : occ _ _ _ None |- _ => inversion O'; subst; clear O'; ins; try (leafcase H) end.

  Example C04_well_scoped_guard_satisfiable :
    leaf_disc exS [] exSels /\
    option_map (map c_name) (match result_classes 10 {| cf_snake := true; cf_scalars := [] |} exS []
                                   (DOp "query" "Q" [] exSels) with Ok l => Some l | Err _ => None end)
      = Some ["Q"; "QA"; "QANext"].
  Proof.
    split; [| vm_compute; reflexivity].
    intros n [->|O] tn t H; [leafcase H|]. unfold exSels in O.
    occinv H. all: try occinv H. all: try occinv H. all: try occinv H.
  Qed.

  (* why the guard is there: without it (an object-typed field selected without sub-selection, which GraphQL
     validation rejects) the annotation names a class nobody generates *)
  Definition C04_well_scoped_classes_full : Prop := forall fuel C S frs d cls,
    result_classes fuel C S frs d = Ok cls ->
    forall c pf n, In c cls -> In pf (c_fields c) -> In n (ann_classes (p_ann pf)) -> In n (map c_name cls).

  Theorem C04_well_scoped_classes_refuted : ~ C04_well_scoped_classes_full.
  Proof.
    intro H.
    specialize (H 10 {| cf_snake := true; cf_scalars := [] |} exS [] (DOp "query" "Q" [] [SField None "a" false [] None])
                  _ eq_refl _ _ "QA" (or_introl eq_refl) (or_introl eq_refl) (or_introl eq_refl)).
    simpl in H. destruct H as [H|[]]. discriminate H.
  Qed.
End WS.
Print Assumptions WS.C04_well_scoped_classes_partial.
Print Assumptions WS.C04_well_scoped_classes_typed.
Print Assumptions WS.C04_well_scoped_enums.
Print Assumptions WS.C04_well_scoped_bases.

(* ---- model_rebuild placement (Model/Rebuild.v) ----
   Import-time model: classes are created in list order; a class is complete at creation iff every class its
   annotations name is earlier in the list; a model_rebuild() after all classes completes it iff every name it
   mentions exists by then ([complete_after_load]).  With the calls the generator places (every class that has a
   quoted annotation; in the fragments module also every top-level fragment class, b2fbf53) every class of a
   result module / of one fragment's class group is complete - given well-scoped annotations (typed guard). *)
Module RB.
  Local Open Scope list_scope.
  Import Gql.Schema Py.Ann Model.Results Model.Rebuild Proofs.ScopeP Proofs.RebuildP.

  Theorem C04_result_module_complete_after_import : forall (H : string -> list sel -> Prop) fuel C S frs d cls tn,
    typed_leafs C S frs H ->
    result_classes fuel C S frs d = Ok cls ->
    (match d with DOp kind _ _ _ => root_type_name S kind = Ok tn | DFrag f => tn = fr_on f end) ->
    H tn (match d with DOp _ _ _ sels => sels | DFrag f => fr_sel f end) ->
    forall top pre c post, cls = pre ++ c :: post ->
      complete_after_load (map c_name cls) (op_rebuild_calls cls) (map c_name pre) c = true /\
      complete_after_load (map c_name cls) (frag_rebuild_calls top cls) (map c_name pre) c = true.
  Proof.
    intros H fuel C S frs d cls tn HH E T L top pre c post Ec.
    pose proof (WS.C04_well_scoped_classes_typed H fuel C S frs d cls tn HH E T L) as W.
    split; eapply complete_generic; eauto; intros c0 Hc0 F; [apply op_rebuild_has | apply frag_rebuild_has]; assumption.
  Qed.

  (* no call of an operation module is wasted: only classes with a quoted annotation are rebuilt *)
  Theorem C04_rebuild_calls_minimal : forall cls n,
    In n (op_rebuild_calls cls) -> exists c, In c cls /\ c_name c = n /\ has_forward_refs c = true.
  Proof. exact op_rebuild_minimal. Qed.

  (* the rule before b2fbf53 (only top-level fragment classes) left a nested class incomplete: regression witness *)
  Example C04_nested_fragment_class_needs_rebuild :
    let boss := {| c_name := "F3Boss"; c_bases := ["BaseModel"];
                   c_fields := [{| p_name := "boss"; p_alias := None; p_ann := AOpt (AClass "F3BossBoss");
                                   p_default_none := false; p_discriminator := false |}] |} in
    let cls := [{| c_name := "F3"; c_bases := ["BaseModel"];
                   c_fields := [{| p_name := "boss"; p_alias := None; p_ann := AOpt (AClass "F3Boss");
                                   p_default_none := false; p_discriminator := false |}] |};
                boss; {| c_name := "F3BossBoss"; c_bases := ["F1"]; c_fields := [] |}] in
    complete_after_load (map c_name cls) ["F3"] ["F3"] boss = false /\
    complete_after_load (map c_name cls) (frag_rebuild_calls ["F3"] cls) ["F3"] boss = true.
  Proof. split; vm_compute; reflexivity. Qed.
End RB.
Print Assumptions RB.C04_result_module_complete_after_import.
Print Assumptions RB.C04_rebuild_calls_minimal.

(* ---- the input types module (Model/Inputs.v, include_all_inputs) ---- *)
Module IN.
  Local Open Scope list_scope.
  Import Gql.InSchema Model.Inputs Proofs.InputScopeP.

  (* every class an annotation names is a class of input_types.py, every enum an enum of the schema (enums.py),
     every custom scalar type/serializer one of the configured scalars; no hypothesis *)
  Theorem C04_inputs_well_scoped : forall s cs snake c pf,
    In c (gen_classes s cs snake) -> In pf (c_fields c) ->
    (forall m, In m (ann_classes (p_ann pf)) -> In m (map c_name (gen_classes s cs snake))) /\
    (forall e, In e (ann_enums (p_ann pf)) -> exists vs, lookup e s = Some (DEnum vs)) /\
    (forall ty ser, In (ty, ser) (ann_customs (p_ann pf)) ->
       exists n d, lookup n cs = Some d /\ sd_type_name d = ty /\ sd_serialize_name d = ser).
  Proof. exact inputs_well_scoped. Qed.

  (* with the model_rebuild() calls of InputTypesGenerator every input class is complete after import
     (recursive and mutually recursive inputs included); no hypothesis *)
  Theorem C04_inputs_complete_after_import : forall s cs snake pre c post,
    gen_classes s cs snake = pre ++ c :: post ->
    complete_after_load (map c_name (gen_classes s cs snake)) (rebuild_calls (gen_classes s cs snake))
                        (map c_name pre) c = true.
  Proof. exact inputs_complete_after_load. Qed.

  Theorem C04_inputs_rebuild_minimal : forall cl n,
    In n (rebuild_calls cl) -> exists c, In c cl /\ c_name c = n /\ refs c <> [].
  Proof. exact inputs_rebuild_minimal. Qed.

  (* ---- finding C04-F35: a class of the module may be named like a name the module itself imports and
     subscripts in its annotations (typing.Optional / List / Union ...): the class shadows the import and the
     module fails at import.  Full statement and its refutation on the faithful model (class name = type name) ---- *)
  Definition annotation_imports : list string := ["Optional"; "List"; "Union"; "Any"; "Annotated"]%string.
  Definition C04_input_classes_avoid_imports_full : Prop := forall s cs snake c,
    In c (gen_classes s cs snake) -> ~ In (c_name c) annotation_imports.
  Theorem C04_input_classes_avoid_imports_refuted : ~ C04_input_classes_avoid_imports_full.
  Proof.
    intro H.
    apply (H [("Optional", DInput [{| i_name := "a"; i_type := TNamed "Int"; i_default := None |}])]%string [] true
             (hd (Build_pclass "" []) (gen_classes [("Optional", DInput [{| i_name := "a"; i_type := TNamed "Int"; i_default := None |}])]%string [] true))).
    - vm_compute. left. reflexivity.
    - vm_compute. left. reflexivity.
  Qed.
End IN.
Print Assumptions IN.C04_input_classes_avoid_imports_refuted.
Print Assumptions IN.C04_inputs_well_scoped.
Print Assumptions IN.C04_inputs_complete_after_import.
Print Assumptions IN.C04_inputs_rebuild_minimal.

(* ---- non-vacuity: hypotheses are met by a non-trivial input, every refusal is reachable ---- *)
Example C04_ok_example : exists p,
  generate (cfg0 true [s2l "mixins_mod.py"]) sum0
    [q "GetHTTPData" ["GetHTTPData"; "GetHTTPDataNode"]; q "listItems" ["ListItems"]] = Ok p /\
  map l2s (reported p) =
    ["__init__.py"; "async_base_client.py"; "base_model.py"; "base_operation.py"; "client.py";
     "custom_fields.py"; "custom_queries.py"; "custom_typing_fields.py"; "enums.py"; "exceptions.py";
     "get_http_data.py"; "input_types.py"; "list_items.py"; "mixins_mod.py"] /\
  has_dup (p_all p) = false.
Proof. eexists. repeat split; vm_compute; reflexivity. Qed.

Example C04_refusals_reachable :
  generate (cfg0 false []) sum0 [{| o_kind := OQuery; o_name := None; o_mixins := []; o_public := [] |}]
    = Refused Anonymous /\
  generate {| c_client_name := s2l "Client"; c_client_file := s2l "client"; c_enums_mod := s2l "enums";
              c_inputs_mod := s2l "input_types"; c_frags_mod := s2l "fragments"; c_async := false;
              c_otel := false; c_custom_ops := false; c_include := []; c_custom_base := None |} sum0
    [{| o_kind := OSubscription; o_name := Some (s2l "T"); o_mixins := []; o_public := [] |}]
    = Refused SubscriptionSync /\
  generate (cfg0 false []) sum0 [q "client" ["Client"]] = Refused DuplicateFiles /\
  generate (cfg0 false []) sum0 [q "GetX" ["A"]; q "get_x" ["B"]] = Refused DuplicateFiles /\
  generate (cfg0 false []) sum0
    [{| o_kind := OQuery; o_name := Some (s2l "Q"); o_mixins := [[(s2l "from", true)]]; o_public := [] |}]
    = Refused BadMixinArgs /\
  generate (cfg0 false []) sum0
    [{| o_kind := OQuery; o_name := Some (s2l "Q");
        o_mixins := [[(s2l "from", true); (s2l "import", false)]]; o_public := [] |}]
    = Refused BadMixinArgs.
Proof. repeat split; vm_compute; reflexivity. Qed.
