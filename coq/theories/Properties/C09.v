(* C09 — Pruning unused inputs and enums never removes something needed.
   Property theorems only; proofs live in Proofs/PruneP.v.  All statements are unguarded:
   they hold for every finite dependency graph (cycles, self-loops, dangling names included). *)
From Coq Require Import List String Bool.
From AC Require Import Gql.Schema Model.Prune Model.PruneDoc Proofs.PruneP Proofs.PruneDocP.
Import ListNotations.
Local Open Scope string_scope.

(* _get_dependencies_of_type never runs out of fuel and returns exactly the reachable set,
   each node once (fuel = |nodes| + 2 bounds the recursion depth) *)
Theorem C09_dfs_is_reachability : forall g t,
  exists l, deps_opt g t = Some l /\ (forall x, In x l <-> reachable g t x) /\ NoDup l.
Proof. exact dfs_is_reachability. Qed.
Print Assumptions C09_dfs_is_reachability.

Theorem C09_generate_total : forall (p : pkg string) fi fe,
  exists ins ens, generate p fi fe = Some (ins, ens).
Proof. exact generate_total. Qed.
Print Assumptions C09_generate_total.

(* retained input classes = exactly the input classes reachable from the roots: the variables' input
   types and, when custom operations are enabled (fix c0f9ed8), the argument input types of the fields
   the operation-builder modules expose *)
Theorem C09_inputs_closed : forall (p : pkg string),
  exists ins, gen_inputs p false = Some ins /\
  forall d, In d ins <->
    In d (input_defs p) /\ exists r, In r (roots p) /\ reachable (dep_graph p) r (fst d).
Proof. exact inputs_closed_lemma. Qed.
Print Assumptions C09_inputs_closed.

(* retained enum classes = exactly those named by result fields, retained inputs, the fragments
   module, the builder modules' arguments (custom operations only) and variables; nothing else *)
Theorem C09_enums_closed : forall (p : pkg string) ins d,
  In d (gen_enums p false ins) <->
  In d (p_enums p) /\
  (In (fst d) (p_res_enums p) \/
   (exists i, In i ins /\ In (fst d) (enums_of (p_inputs p) (fst i))) \/
   In (fst d) (p_frag_enums p) \/ In (fst d) (builder_enums p) \/ In (fst d) (p_arg_enums p)).
Proof. exact enums_closed_lemma. Qed.
Print Assumptions C09_enums_closed.

(* every retained class definition is an element of the unpruned list, in the same relative order *)
Theorem C09_retained_identical : forall (p : pkg string) fi fe ins ens,
  generate p fi fe = Some (ins, ens) -> sublist ins (input_defs p) /\ sublist ens (p_enums p).
Proof. exact retained_identical_lemma. Qed.
Print Assumptions C09_retained_identical.

Theorem C09_flags_independent : forall (p : pkg string) fi fe, exists ins,
  gen_inputs p fi = Some ins /\
  generate p fi fe = Some (ins, gen_enums p fe ins) /\
  (forall fe', exists ens', generate p fi fe' = Some (ins, ens')) /\
  (fe = true -> gen_enums p fe ins = p_enums p) /\
  (fi = true -> ins = input_defs p).
Proof. exact flags_independent_lemma. Qed.
Print Assumptions C09_flags_independent.

Theorem C09_prune_monotone : forall (p : pkg string) i0 i1 e0 e1,
  generate p false false = Some (i0, e0) -> generate p true false = Some (i1, e1) ->
  incl i0 i1 /\ incl e0 e1.
Proof. exact prune_monotone_lemma. Qed.
Print Assumptions C09_prune_monotone.

(* nothing a retained definition or an operation refers to is removed (type names unique, as in
   schema.type_map) *)
Theorem C09_needed_retained : forall (p : pkg string), NoDup (map i_name (p_inputs p)) ->
  forall ins ens, generate p false false = Some (ins, ens) ->
  (forall v, In v (roots p) -> forall d, In d (p_inputs p) -> i_name d = v -> In (i_name d, i_body d) ins) /\
  (forall d, In d (p_inputs p) -> In (i_name d, i_body d) ins ->
     forall d', In d' (p_inputs p) -> In (i_name d') (i_deps d) -> In (i_name d', i_body d') ins) /\
  (forall d, In d (p_inputs p) -> In (i_name d, i_body d) ins ->
     forall e, In e (p_enums p) -> In (fst e) (i_enums d) -> In e ens) /\
  (forall e, In e (p_enums p) ->
     In (fst e) (p_res_enums p) \/ In (fst e) (p_frag_enums p) \/ In (fst e) (builder_enums p) \/
     In (fst e) (p_arg_enums p) -> In e ens).
Proof. exact needed_retained_lemma. Qed.
Print Assumptions C09_needed_retained.

(* the builder's argument types count exactly when custom operations are enabled *)
Theorem C09_roots_custom : forall (p : pkg string),
  (p_custom p = false -> roots p = p_arg_inputs p /\ builder_enums p = []) /\
  (p_custom p = true -> forall x, In x (roots p) <-> In x (p_arg_inputs p) \/ In x (p_builder_inputs p)).
Proof.
  intro p. unfold roots, builder_enums. split; intro H; rewrite H.
  - split; [apply app_nil_r | reflexivity].
  - intro x. apply in_app_iff.
Qed.
Print Assumptions C09_roots_custom.

(* imports of input_types.py: every import item a RETAINED class refers to is in the emitted module - for
   every retained set (so for the transitive closure _filter_class_defs emits, at any depth), whether
   autoflake prunes the imports or gives up (the empty-enum-import quirk); unless it gives up, nothing
   else is imported.  needs_wf: a class refers only to the preamble, its own enums, its own scalars. *)
Theorem C09_imports_cover_retained : forall (p : pkg string), NoDup (map i_name (p_inputs p)) ->
  needs_wf p -> forall retained d, In d (p_inputs p) -> In (i_name d, i_body d) retained ->
  forall x, In x (i_needs d) -> In x (module_imports p retained).
Proof. exact imports_cover_retained_lemma. Qed.
Print Assumptions C09_imports_cover_retained.

Theorem C09_imports_exact : forall (p : pkg string) retained x,
  autoflake_gives_up p retained = false -> In x (module_imports p retained) ->
  exists r, In r retained /\ In x (needs_lookup (p_inputs p) (fst r)).
Proof. exact imports_exact_lemma. Qed.
Print Assumptions C09_imports_exact.

(* needs_wf is not an assumption for classes DERIVED from their fields: the import items a class body refers to
   are computed from the field annotations (Optional / List levels, builtin, Any, Upload, enum, quoted input
   class, custom scalar with or without PlainSerializer, Field for an alias or a collection default) together with
   its input dependencies, enums and scalar import candidates - and then every need is covered by construction of
   the candidates.  The tie compares the derived needs with the names each class of the generated file uses. *)
Theorem C09_derived_needs_wf : forall (p : pkg string), incl std_preamble (p_preamble p) ->
  (forall d, In d (p_inputs p) -> exists snake fs, d = derive snake (i_name d) (i_body d) fs) -> needs_wf p.
Proof. exact derived_needs_wf. Qed.
Print Assumptions C09_derived_needs_wf.

Theorem C09_derived_imports_cover : forall (p : pkg string), NoDup (map i_name (p_inputs p)) ->
  incl std_preamble (p_preamble p) ->
  (forall d, In d (p_inputs p) -> exists snake fs, d = derive snake (i_name d) (i_body d) fs) ->
  forall retained d, In d (p_inputs p) -> In (i_name d, i_body d) retained ->
  forall x, In x (i_needs d) -> In x (module_imports p retained).
Proof. exact derived_imports_cover. Qed.
Print Assumptions C09_derived_imports_cover.

Example C09_derive_example :
  let d := derive true "WindowInput" "class WindowInput"
             [ {| if_name := "at"; if_nullable := true; if_list := false; if_coll_default := false;
                  if_base := BCustom (Some "pathlib:PurePosixPath") (Some "scalars_impl:ser_stamp")
                                     (Some "scalars_impl:parse_stamp") true |};
               {| if_name := "openDays"; if_nullable := false; if_list := true; if_base := BEnum "Day";
                  if_coll_default := true |};
               {| if_name := "next"; if_nullable := true; if_list := false; if_base := BInput "WindowInput";
                  if_coll_default := false |} ] in
  i_deps d = ["WindowInput"] /\ i_enums d = ["Day"] /\
  i_scalar_items d = ["pathlib:PurePosixPath"; "scalars_impl:ser_stamp"; "scalars_impl:parse_stamp"] /\
  i_needs d = [".base_model:BaseModel"; "typing:Optional"; "pathlib:PurePosixPath"; "typing:Annotated";
               "pydantic:PlainSerializer"; "scalars_impl:ser_stamp"; "typing:List"; ".enums:Day"; "pydantic:Field";
               "typing:Optional"].
Proof. vm_compute. repeat split. Qed.

(* "which selections reach which enums" is inside the model (Model/PruneDoc.v, Gql/Schema.v vocabulary): the walk
   over a selection set returns exactly the enums reachable from it - enum-typed fields selected directly, in
   sub-selections, through fragment spreads and inline fragments, to any depth - whenever it returns (fuel) *)
Theorem C09_sel_enums_is_reachability : forall S frs fuel parent sels l,
  sel_enums fuel S frs parent sels = Some l -> forall e, In e l <-> reaches S frs parent sels e.
Proof. exact sel_enums_is_reachability. Qed.
Print Assumptions C09_sel_enums_is_reachability.

(* and the four lists fed to the pruning pipeline are: enums reachable from some operation; enums reachable from a
   class-generating fragment no operation spreads; the enum / input types of the operations' variables *)
Theorem C09_doc_analysis_spec : forall fuel S frs ops d, doc_analysis fuel S frs ops = Some d ->
  (forall e, In e (de_res_enums d) <-> exists o, In o ops /\ reaches S frs (op_root o) (op_sel o) e) /\
  (forall e, In e (de_frag_enums d) -> exists f, In f frs /\ unpacks_by_definition S f = false /\
                                                 reaches S frs (fr_on f) (fr_sel f) e) /\
  (forall t, In t (de_arg_enums d) <-> is_enum S t = true /\ exists o v, In o ops /\ In v (op_vars o) /\ named (snd v) = t) /\
  (forall t, In t (de_arg_inputs d) <-> is_input S t = true /\ exists o v, In o ops /\ In v (op_vars o) /\ named (snd v) = t).
Proof. exact doc_analysis_spec. Qed.
Print Assumptions C09_doc_analysis_spec.

(* ---- non-vacuity: a cyclic graph with a self-loop, a dangling name and an unreachable component ---- *)
Definition g_ex : graph :=
  [("A", ["B"; "C"; "B"]); ("B", ["A"; "B"]); ("C", ["Missing"]); ("D", ["A"]); ("E", [])].

Example C09_dfs_example :
  deps_opt g_ex "A" = Some ["A"; "B"; "C"; "Missing"] /\ deps_opt g_ex "E" = Some ["E"] /\
  deps_opt g_ex "Nowhere" = Some ["Nowhere"] /\ closure_opt g_ex ["C"; "B"] = Some ["C"; "Missing"; "B"; "A"; "C"; "Missing"].
Proof. vm_compute. repeat split. Qed.

Definition p_ex : pkg string := {|
  p_inputs := [ {| i_name := "A"; i_deps := ["B"]; i_enums := ["Color"]; i_body := "class A";
                   i_needs := ["typing:Optional"; ".enums:Color"]; i_scalar_items := [] |};
                {| i_name := "B"; i_deps := ["A"]; i_enums := []; i_body := "class B";
                   i_needs := ["typing:Optional"; "datetime:datetime"]; i_scalar_items := ["datetime:datetime"] |};
                {| i_name := "C"; i_deps := []; i_enums := ["Size"]; i_body := "class C";
                   i_needs := [".enums:Size"; "pathlib:Path"]; i_scalar_items := ["pathlib:Path"; "m:parse_p"] |} ];
  p_enums := [("Color", "class Color"); ("Size", "class Size"); ("Kind", "class Kind"); ("Un", "class Un")];
  p_arg_inputs := ["B"]; p_arg_enums := []; p_res_enums := ["Kind"]; p_frag_enums := [];
  p_custom := false; p_builder_inputs := ["C"]; p_builder_enums := ["Un"];
  p_preamble := ["typing:Optional"; "typing:Any"; ".base_model:BaseModel"] |}.

Example C09_generate_example :
  generate p_ex false false = Some ([("A", "class A"); ("B", "class B")], [("Color", "class Color"); ("Kind", "class Kind")]) /\
  generate p_ex true false = Some (input_defs p_ex, [("Color", "class Color"); ("Size", "class Size"); ("Kind", "class Kind")]) /\
  NoDup (map i_name (p_inputs p_ex)).
Proof. vm_compute. repeat split; repeat constructor; simpl; intuition discriminate. Qed.

(* regression case of the former finding F25 (fixed: c0f9ed8): with custom operations the builder's
   argument types C / Un are roots and survive pruning; without them they are pruned *)
Definition p_ex_custom : pkg string := {|
  p_inputs := p_inputs p_ex; p_enums := p_enums p_ex; p_arg_inputs := ["B"]; p_arg_enums := [];
  p_res_enums := ["Kind"]; p_frag_enums := []; p_custom := true;
  p_builder_inputs := ["C"]; p_builder_enums := ["Un"]; p_preamble := p_preamble p_ex |}.

Example C09_custom_operations_regression :
  generate p_ex_custom false false =
    Some ([("A", "class A"); ("B", "class B"); ("C", "class C")],
          [("Color", "class Color"); ("Size", "class Size"); ("Kind", "class Kind"); ("Un", "class Un")]) /\
  option_map (fun r => map fst (fst r)) (generate p_ex false false) = Some ["A"; "B"].
Proof. vm_compute. repeat split. Qed.

(* imports: pruned to {A, B} the module imports exactly what A and B need (the scalar of the dependency B
   included, C's scalar and the unused parse function dropped); when only C-free, enum-free B-like sets are
   retained while another input uses an enum, autoflake gives up and every candidate stays *)
Example C09_imports_example :
  module_imports p_ex [("A", "class A"); ("B", "class B")] =
    ["typing:Optional"; ".enums:Color"; "datetime:datetime"] /\
  autoflake_gives_up p_ex [("B", "class B")] = true /\
  module_imports p_ex [("B", "class B")] =
    ["typing:Optional"; "typing:Any"; ".base_model:BaseModel"; "datetime:datetime"; "pathlib:Path"; "m:parse_p"].
Proof. vm_compute. repeat split. Qed.

Definition S_doc : schema := {|
  s_types := [("Query", DObject [] [("mid", TNamed "Mid")]); ("Kind", DEnum ["A"; "B"]); ("Deep", DEnum ["X"]);
              ("Mid", DObject [] [("kind", TNonNull (TNamed "Kind")); ("leaf", TList (TNamed "Leaf"))]);
              ("Leaf", DObject [] [("deep", TNamed "Deep")]); ("InA", DInput)];
  s_query := Some "Query"; s_mutation := None; s_subscription := None |}.
Example C09_doc_example :
  doc_analysis 50 S_doc
    [ {| fr_name := "F"; fr_on := "Mid"; fr_mixins := []; fr_sel := [SField None "leaf" false [] (Some [SField None "deep" false [] None])] |};
      {| fr_name := "Unused"; fr_on := "Mid"; fr_mixins := []; fr_sel := [SField None "kind" false [] None] |} ]
    [ {| op_name := "Q"; op_root := "Query"; op_vars := [("a", TNonNull (TNamed "InA")); ("k", TList (TNamed "Kind"))];
         op_sel := [SField None "mid" false [] (Some [SInline (Some "Mid") true [SSpread "F" false]])] |} ]
  = Some {| de_arg_inputs := ["InA"]; de_arg_enums := ["Kind"]; de_res_enums := ["Deep"]; de_frag_enums := ["Kind"] |}.
Proof. vm_compute. reflexivity. Qed.
