(* C03 — Method arguments arrive at the server as the declared variables.
   Property theorems only; proofs live in Proofs/ArgsP.v and Proofs/ConvertP.v.
   Model: Model/Args.v (signature, variables dict, locals), Model/Convert.v (call binding, serialize
   wrapping, _convert_dict_to_json_serializable / _convert_value, model_dump by alias / exclude_unset).
   Specification: Gql/Coerce.v (variable and input coercion, tied to graphql-core by K2). *)
From Coq Require Import List String Ascii ZArith Bool Permutation.
From AC Require Import Base.Strs Base.Json Model.Names Gql.Coerce Model.Args Model.Convert
     Proofs.ArgsP Proofs.ConvertP.
Import ListNotations.
Local Open Scope string_scope.

(* ---- END TO END.  For every schema, every VALID operation variable list (distinct GraphQL names, accepted by the
        generator), every typed call and every well-behaved serialize function: the call sends a payload that
        coerce_vars accepts and that yields exactly the caller's values.  The parameter of each variable is given by the
        generator's naming (process_name, an underscore back if that is no identifier, then "_" appended until the name
        is free of self / kwargs / gql / UNSET / serialize functions / the result class / earlier parameters).
        No defect-class guard is left: g_f10, g_f21, the parameter-name conditions and names_ok went away with
        /repo d163d56, 1ef155d/0db841f, a558946/7f3b78b, e1c98d1, 6bef770, 70630f0.  inputs_ok is VALIDITY of the
        schema (distinct field names per input type, distinct type names): colliding mangled field names are handled by the
        modelled suffix loop (C06's Inputs.fname, FreshP.fname_nodup) since /repo bec4417 / a4347c6. ---- *)
Definition valid_var_names (vs : list vardef) : bool := forallb (fun v => gql_name (s2l (v_name v))) vs.

Theorem C03_sent_coerces_to_intended : forall ser, ser_wf ser -> forall S snake,
  inputs_ok S snake = true ->
  forall extra vs kwargs n g, generate S (naming S snake extra vs) vs = Some g ->
    NoDup (map v_name vs) -> valid_var_names vs = true ->
    typed_call n S snake (naming S snake extra vs) vs kwargs = true ->
    exists sent cs, (forall m, n <= m -> call_method ser m S snake (naming S snake extra vs) vs kwargs = Sent sent) /\
                    coerce_vars n S vs sent = Some cs /\
                    intended_vars ser n S snake (naming S snake extra vs) vs kwargs = Some cs.
Proof.
  intros ser Hser S snake Hin extra vs kwargs n g Hg Hd Hv Ht.
  exact (call_delivery ser Hser S snake Hin (naming S snake extra vs) vs kwargs n g Hg (naming_wf S snake extra vs Hd Hv) Hd Ht).
Qed.
Print Assumptions C03_sent_coerces_to_intended.

Theorem C03_omitted_absent_call : forall ser, ser_wf ser -> forall S snake,
  inputs_ok S snake = true ->
  forall extra vs kwargs n g, generate S (naming S snake extra vs) vs = Some g ->
    NoDup (map v_name vs) -> valid_var_names vs = true ->
    typed_call n S snake (naming S snake extra vs) vs kwargs = true ->
    forall v, In v vs -> assoc (naming S snake extra vs (v_name v)) kwargs = None ->
    exists sent, (forall m, n <= m -> call_method ser m S snake (naming S snake extra vs) vs kwargs = Sent sent) /\
                 jlookup (v_name v) sent = None.
Proof.
  intros ser Hser S snake Hin extra vs kwargs n g Hg Hd Hv Ht.
  exact (call_omitted_absent ser Hser S snake Hin (naming S snake extra vs) vs kwargs n g Hg (naming_wf S snake extra vs Hd Hv) Hd Ht).
Qed.
Print Assumptions C03_omitted_absent_call.

Theorem C03_none_is_null_call : forall ser, ser_wf ser -> forall S snake,
  inputs_ok S snake = true ->
  forall extra vs kwargs n g, generate S (naming S snake extra vs) vs = Some g ->
    NoDup (map v_name vs) -> valid_var_names vs = true ->
    typed_call n S snake (naming S snake extra vs) vs kwargs = true ->
    forall v, In v vs -> assoc (naming S snake extra vs (v_name v)) kwargs = Some PNone ->
    exists sent, (forall m, n <= m -> call_method ser m S snake (naming S snake extra vs) vs kwargs = Sent sent) /\
                 jlookup (v_name v) sent = Some JNull.
Proof.
  intros ser Hser S snake Hin extra vs kwargs n g Hg Hd Hv Ht.
  exact (call_none_is_null ser Hser S snake Hin (naming S snake extra vs) vs kwargs n g Hg (naming_wf S snake extra vs Hd Hv) Hd Ht).
Qed.
Print Assumptions C03_none_is_null_call.

(* ---- the renaming: injective on distinct variables, never a reserved name, valid identifiers ---- *)
Theorem C03_naming_injective_and_free : forall S snake extra vs, NoDup (map v_name vs) ->
  NoDup (map (fun v => naming S snake extra vs (v_name v)) vs) /\
  (forall v, In v vs -> ~ In (naming S snake extra vs (v_name v)) (reserved_names S ++ extra)%list).
Proof.
  intros S snake extra vs Hd. rewrite (naming_names S snake extra vs Hd).
  destruct (assign_free (map (base_name snake) (map v_name vs)) (reserved_names S ++ extra)%list) as [H1 H2].
  split; [exact H1|]. intros v Hv. apply H2. rewrite <- (naming_names S snake extra vs Hd).
  apply (in_map (fun v => naming S snake extra vs (v_name v))). exact Hv.
Qed.
Print Assumptions C03_naming_injective_and_free.

Theorem C03_naming_wf : forall S snake extra vs,
  NoDup (map v_name vs) -> valid_var_names vs = true -> names_wf S (naming S snake extra vs) vs = true.
Proof. exact naming_wf. Qed.
Print Assumptions C03_naming_wf.

(* ---- signature and dict (unguarded, all schemas / variable lists) ---- *)
Theorem C03_keys_are_graphql_names : forall S nm vs g,
  generate S nm vs = Some g -> map fst (g_dict g) = map v_name vs.
Proof. exact keys_are_graphql_names. Qed.
Print Assumptions C03_keys_are_graphql_names.

Theorem C03_required_first_is_permutation : forall S nm vs g,
  generate S nm vs = Some g ->
  exists ps,
    map p_name ps = map (fun v => nm (v_name v)) vs /\
    map p_required ps = map (fun v => is_nonnull (v_type v)) vs /\
    g_params g = (filter p_required ps ++ filter (fun p => negb (p_required p)) ps)%list /\
    Permutation (g_params g) ps.
Proof. exact signature_shape. Qed.
Print Assumptions C03_required_first_is_permutation.

Theorem C03_required_before_optional : forall S nm vs g,
  generate S nm vs = Some g ->
  exists l1 l2, g_params g = (l1 ++ l2)%list /\ Forall (fun p => p_required p = true) l1 /\
                Forall (fun p => p_required p = false) l2.
Proof. exact required_before_optional. Qed.
Print Assumptions C03_required_before_optional.

(* a variable that GraphQL requires (non-null, no default) is a required Python parameter *)
Theorem C03_gql_required_is_py_required : forall S nm v p e,
  gen_one S nm v = Some (p, e) -> gql_required v = true -> p_required p = true.
Proof. exact gql_required_is_py_required. Qed.
Print Assumptions C03_gql_required_is_py_required.

Theorem C03_required_cannot_be_omitted : forall ser S snake n nm vs kwargs g p,
  generate S nm vs = Some g -> sig_ok g = true ->
  In p (g_params g) -> p_required p = true -> assoc (p_name p) kwargs = None ->
  call_method ser n S snake nm vs kwargs = PyMissingArg.
Proof. intros ser S snake n nm vs kwargs g p. apply required_cannot_be_omitted. Qed.
Print Assumptions C03_required_cannot_be_omitted.

(* ---- the payload: UNSET dropped, None -> null (any dict, any serialize functions) ---- *)
Theorem C03_omitted_absent : forall ser S snake n d kv k,
  convert_dict ser n S snake d = Some kv -> NoDup (map fst d) -> In (k, PUnset) d -> jlookup k kv = None.
Proof. exact convert_dict_unset_absent. Qed.
Print Assumptions C03_omitted_absent.

Theorem C03_none_is_null : forall ser S snake n d kv k,
  convert_dict ser n S snake d = Some kv -> NoDup (map fst d) -> In (k, PNone) d ->
  jlookup k kv = Some JNull.
Proof. exact convert_dict_none_null. Qed.
Print Assumptions C03_none_is_null.

(* ---- delivery of one argument (any type, any wrapper nesting, with or without serialize): the JSON sent is
        accepted by coercion and yields the caller's value.  Guard: inputs_ok (F18) only. ---- *)
Theorem C03_arg_delivery : forall ser, ser_wf ser -> forall S snake,
  inputs_ok S snake = true ->
  forall n t v, typed n S snake t v = true ->
  exists w j c, wrap_arg ser S t v = Some w /\
              (forall m, n <= m -> convert_value ser m S snake w = Some j) /\
              coerce n S t j = Some c /\ intend ser n S snake t v = Some c /\
              (v <> PNone -> j <> JNull).
Proof. exact arg_delivery. Qed.
Print Assumptions C03_arg_delivery.

(* the generated dict expression computes the per-occurrence serialisation, value and call log *)
Theorem C03_serialize_expression : forall ser f,
  forall t env x nl depth v,
    assoc x env = Some v -> assoc f env = None -> assoc "UNSET" env = None ->
    eval_se ser env (gen_se t x f nl depth) = ser_arg ser f t nl (Nat.eqb depth 0) v.
Proof. exact eval_gen. Qed.
Print Assumptions C03_serialize_expression.

(* the same for a value held by a field of a (nested) input model *)
Theorem C03_field_delivery_partial : forall ser, ser_wf ser -> forall S snake,
  inputs_ok S snake = true ->
  forall n t nl v, typed n S snake t v = true -> (nl = false -> v <> PNone) ->
  exists j c, (forall m, n <= m -> dump_field ser m S snake t nl v = Some j) /\
              coerce n S t j = Some c /\ intend ser n S snake t v = Some c /\
              (v <> PNone -> j <> JNull).
Proof. exact field_delivery. Qed.
Print Assumptions C03_field_delivery_partial.

(* every schema-valid value can be held by the generated input classes (unguarded since /repo 1ef155d) *)
Theorem C03_constructible : forall S snake n t nl v,
  typed n S snake t v = true -> (nl = false -> v <> PNone) -> constructible n S snake t nl v = true.
Proof. exact typed_constructible. Qed.
Print Assumptions C03_constructible.

(* ---- refutations on the faithful model ---- *)
Definition cfgDT : scalar_cfg :=
  {| sc_type := "Any"; sc_ser := Some "vscal.ser_DT"; sc_parse := None; sc_import := None |}.
Definition S1 : schema := [("DT", DCustom (Some cfgDT))].
Definition V (n : string) (t : gtype) : vardef := {| v_name := n; v_type := t; v_default := None |}.

Lemma ser_inst_wf : ser_wf ser_inst.
Proof. intros f j H. exists (JArr [JStr f; j]). split; reflexivity. Qed.

Definition callm (S : schema) (snake : bool) (vs : list vardef) (kw : list (string * pyval)) : outcome :=
  call_method ser_inst 8 S snake (naming S snake ["Op"] vs) vs kw.

(* F10 (fixed by /repo d163d56) - the former refutation witnesses, kept as regression cases:
   omitted -> no key; None -> null; list -> serialize per non-None item *)
Example C03_f10_regression :
  callm S1 true [V "d" (TNamed "DT")] [] = Sent [] /\
  callm S1 true [V "d" (TNamed "DT")] [("d", PNone)] = Sent [("d", JNull)] /\
  callm S1 true [V "e" (TList (TNamed "DT"))] [("e", PList [PCustom (JStr "a"); PNone])] =
    Sent [("e", JArr [JArr [JStr "ser_DT"; JStr "a"]; JNull])] /\
  dictval_str (gen_se (TList (TNamed "DT")) "e" "ser_DT" true 0) =
    "e if e is None or e is UNSET else [_item0 if _item0 is None else ser_DT(_item0) for _item0 in e]".
Proof. vm_compute. repeat split. Qed.

(* F7 (fixed by /repo a558946 + 7f3b78b) - the former refutation witnesses, kept as regression cases:
   self / kwargs / gql / UNSET / the serialize function / colliding names / query+_query all work now *)
Example C03_f7_regression :
  callm [] true [V "self" (TNamed "Int"); V "kwargs" (TNamed "Int")] [("self_", PInt 1); ("kwargs_", PNone)]
    = Sent [("self", JInt 1); ("kwargs", JNull)] /\
  callm [] false [V "self" (TNamed "Int"); V "self_" (TNamed "Int")] [("self_", PInt 1); ("self__", PInt 2)]
    = Sent [("self", JInt 1); ("self_", JInt 2)] /\
  callm [] true [V "fooBar" (TNamed "Int"); V "foo_bar" (TNamed "Int")] [("foo_bar", PInt 1); ("foo_bar_", PInt 2)]
    = Sent [("fooBar", JInt 1); ("foo_bar", JInt 2)] /\
  callm [] false [V "query" (TNamed "String"); V "_query" (TNamed "String")] [("query", PStr "a"); ("_query", PStr "b")]
    = Sent [("query", JStr "a"); ("_query", JStr "b")] /\
  callm [] true [V "gql" (TNamed "Int")] [("gql_", PInt 1)] = Sent [("gql", JInt 1)] /\
  callm S1 false [V "UNSET" (TList (TNamed "DT")); V "ser_DT" (TNamed "DT")]
        [("UNSET_", PList [PCustom (JStr "a")]); ("ser_DT_", PCustom (JStr "b"))]
    = Sent [("UNSET", JArr [JArr [JStr "ser_DT"; JStr "a"]]); ("ser_DT", JArr [JStr "ser_DT"; JStr "b"])].
Proof. vm_compute. repeat split. Qed.

(* F32 (fixed by /repo e1c98d1): a variable named like the operation's result class is renamed *)
Example C03_f32_regression :
  callm [] false [V "Op" (TNamed "Int")] [("Op_", PInt 1)] = Sent [("Op", JInt 1)].
Proof. vm_compute. reflexivity. Qed.

(* F18-variable-name-not-identifier (fixed by /repo 70630f0) and F33 (fixed by /repo 6bef770): the former refutation
   witnesses, kept as regression cases - $_1 keeps its underscore, a serialize function called query or _item0 works *)
Definition cfgQ : scalar_cfg :=
  {| sc_type := "Any"; sc_ser := Some "mod.query"; sc_parse := None; sc_import := None |}.
Definition cfgI : scalar_cfg :=
  {| sc_type := "Any"; sc_ser := Some "mod._item0"; sc_parse := None; sc_import := None |}.
Example C03_f18_f33_regression :
  callm [] true [V "_1" (TNamed "Int")] [("_1", PInt 1)] = Sent [("_1", JInt 1)] /\
  callm [("DT", DCustom (Some cfgQ))] true [V "d" (TNonNull (TNamed "DT"))] [("d", PCustom (JStr "a"))]
    = Sent [("d", JArr [JStr "query"; JStr "a"])] /\
  callm [("DT", DCustom (Some cfgI))] true [V "d" (TList (TNamed "DT"))] [("d", PList [PCustom (JStr "a")])]
    = Sent [("d", JArr [JArr [JStr "_item0"; JStr "a"]])] /\
  dictval_str (gen_se (TList (TNamed "DT")) "d" "_item0" true 0) =
    "d if d is None or d is UNSET else [_item0_ if _item0_ is None else _item0(_item0_) for _item0_ in d]".
Proof. vm_compute. repeat split. Qed.

(* F18 input-field collisions (fixed by /repo bec4417 + a4347c6) are INSIDE the model now (C06's Inputs.fname): fooBar becomes
   foo_bar_ (alias fooBar), foo_bar keeps its name; both are delivered *)
Definition S18 : schema :=
  [("In", DInput [{| if_name := "fooBar"; if_type := TNamed "Int"; if_default := None |};
                  {| if_name := "foo_bar"; if_type := TNamed "Int"; if_default := None |}])].
Example C03_f18_fields_regression :
  inputs_ok S18 true = true /\
  map (fpy true [{| if_name := "fooBar"; if_type := TNamed "Int"; if_default := None |};
                 {| if_name := "foo_bar"; if_type := TNamed "Int"; if_default := None |}])
      [{| if_name := "fooBar"; if_type := TNamed "Int"; if_default := None |};
       {| if_name := "foo_bar"; if_type := TNamed "Int"; if_default := None |}] = ["foo_bar_"; "foo_bar"] /\
  callm S18 true [V "i" (TNamed "In")] [("i", PModel "In" [("foo_bar_", PInt 1); ("foo_bar", PInt 2)])]
    = Sent [("i", JObj [("fooBar", JInt 1); ("foo_bar", JInt 2)])].
Proof. vm_compute. repeat split. Qed.

(* F21 (fixed for input fields by /repo 1ef155d: [Int]! with a None item is now accepted by the class;
   the method SIGNATURE still drops the Optional of the items (a type hint, no runtime effect) *)
Definition S21 : schema :=
  [("In", DInput [{| if_name := "xs"; if_type := TNonNull (TList (TNamed "Int")); if_default := None |}])].
Example C03_f21_regression :
  constructible 8 S21 true (TNamed "In") true (PModel "In" [("xs", PList [PInt 1; PNone])]) = true /\
  option_map (fun r => ann_str (fst r)) (parse_type_node S21 (TNonNull (TList (TNamed "Int"))) true)
    = Some "List[Optional[int]]".
Proof. vm_compute. split; reflexivity. Qed.

(* observation: `$b: Int! = 5` is optional for GraphQL but a required Python parameter *)
Theorem C03_default_nonnull_is_required :
  gql_required {| v_name := "b"; v_type := TNonNull (TNamed "Int"); v_default := Some (CInt 5) |} = false /\
  callm [] true
    [{| v_name := "b"; v_type := TNonNull (TNamed "Int"); v_default := Some (CInt 5) |}] [] = PyMissingArg.
Proof. vm_compute. split; reflexivity. Qed.

(* ---- non-vacuity: the hypotheses of the partial theorems are met by a non-trivial call ---- *)
Definition S2 : schema :=
  [("DT", DCustom (Some cfgDT)); ("Color", DEnum ["RED"; "GREEN"]);
   ("InA", DInput [{| if_name := "fooBar"; if_type := TNamed "Int"; if_default := Some (CInt 7) |};
                   {| if_name := "when"; if_type := TNamed "DT"; if_default := None |};
                   {| if_name := "class"; if_type := TList (TNonNull (TNamed "Color")); if_default := None |};
                   {| if_name := "sub"; if_type := TNamed "InA"; if_default := None |}])].
Definition vA : pyval :=
  PModel "InA" [("when", PCustom (JStr "w")); ("class_", PList [PEnum "Color" "RED"]);
                ("sub", PModel "InA" [("foo_bar", PNone)])].

Example C03_hypotheses_satisfiable :
  inputs_ok S2 true = true /\
  typed 8 S2 true (TNonNull (TList (TNamed "InA"))) (PList [vA; PNone]) = true /\
  convert_value ser_inst 8 S2 true (PList [vA; PNone]) =
    Some (JArr [JObj [("when", JArr [JStr "ser_DT"; JStr "w"]); ("class", JArr [JStr "RED"]);
                      ("sub", JObj [("fooBar", JNull)])]; JNull]) /\
  coerce 8 S2 (TNonNull (TList (TNamed "InA")))
    (JArr [JObj [("when", JArr [JStr "ser_DT"; JStr "w"]); ("class", JArr [JStr "RED"]);
                 ("sub", JObj [("fooBar", JNull)])]; JNull]) =
    intend ser_inst 8 S2 true (TNonNull (TList (TNamed "InA"))) (PList [vA; PNone]) /\
  intend ser_inst 8 S2 true (TNonNull (TList (TNamed "InA"))) (PList [vA; PNone]) =
    Some (CList [CObj [("fooBar", CInt 7); ("when", CCustom (JArr [JStr "ser_DT"; JStr "w"]));
                       ("class", CList [CEnum "RED"]); ("sub", CObj [("fooBar", CNull)])]; CNull]).
Proof. vm_compute. repeat split. Qed.
