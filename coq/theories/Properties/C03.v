(* C03 — Method arguments arrive at the server as the declared variables.
   Property theorems only; proofs live in Proofs/ArgsP.v and Proofs/ConvertP.v.
   Model: Model/Args.v (signature, variables dict, locals), Model/Convert.v (call binding, serialize
   wrapping, _convert_dict_to_json_serializable / _convert_value, model_dump by alias / exclude_unset).
   Specification: Gql/Coerce.v (variable and input coercion, tied to graphql-core by K2). *)
From Coq Require Import List String Ascii ZArith Bool Permutation.
From AC Require Import Base.Strs Base.Json Model.Names Gql.Coerce Model.Args Model.Convert
     Proofs.ArgsP Proofs.ConvertP.
Import ListNotations.
Local Open Scope string_scope.

(* ---- the full statement: every call with schema-valid arguments delivers the caller's values ---- *)
Definition C03_delivery_full : Prop :=
  forall ser S snake vs kwargs n g, ser_wf ser -> generate S snake vs = Some g -> NoDup (map v_name vs) ->
    typed_call n S snake vs kwargs = true ->
    exists sent cs, (forall m, n <= m -> call_method ser m S snake vs kwargs = Sent sent) /\
                    coerce_vars n S vs sent = Some cs /\
                    intended_vars ser n S snake vs kwargs = Some cs.

(* ---- END TO END, proved: guards = the two open finding classes (names_ok: F7 parameter-name clashes,
        inputs_ok: F18 colliding input field names).  The former guards g_f10 (serialize on the whole
        argument) and g_f21 went away with /repo d163d56 and 1ef155d. ---- *)
Theorem C03_sent_coerces_to_intended : forall ser, ser_wf ser -> forall S snake,
  inputs_ok S snake = true ->
  forall vs kwargs n g, generate S snake vs = Some g -> names_ok S snake vs = true ->
    NoDup (map v_name vs) -> typed_call n S snake vs kwargs = true ->
    exists sent cs, (forall m, n <= m -> call_method ser m S snake vs kwargs = Sent sent) /\
                    coerce_vars n S vs sent = Some cs /\
                    intended_vars ser n S snake vs kwargs = Some cs.
Proof. exact call_delivery. Qed.
Print Assumptions C03_sent_coerces_to_intended.

Theorem C03_omitted_absent_call : forall ser, ser_wf ser -> forall S snake,
  inputs_ok S snake = true ->
  forall vs kwargs n g, generate S snake vs = Some g -> names_ok S snake vs = true ->
    NoDup (map v_name vs) -> typed_call n S snake vs kwargs = true ->
    forall v, In v vs -> assoc (pname snake (v_name v)) kwargs = None ->
    exists sent, (forall m, n <= m -> call_method ser m S snake vs kwargs = Sent sent) /\
                 jlookup (v_name v) sent = None.
Proof. exact call_omitted_absent. Qed.
Print Assumptions C03_omitted_absent_call.

Theorem C03_none_is_null_call : forall ser, ser_wf ser -> forall S snake,
  inputs_ok S snake = true ->
  forall vs kwargs n g, generate S snake vs = Some g -> names_ok S snake vs = true ->
    NoDup (map v_name vs) -> typed_call n S snake vs kwargs = true ->
    forall v, In v vs -> assoc (pname snake (v_name v)) kwargs = Some PNone ->
    exists sent, (forall m, n <= m -> call_method ser m S snake vs kwargs = Sent sent) /\
                 jlookup (v_name v) sent = Some JNull.
Proof. exact call_none_is_null. Qed.
Print Assumptions C03_none_is_null_call.

(* ---- signature and dict (unguarded, all schemas / variable lists) ---- *)
Theorem C03_keys_are_graphql_names : forall S snake vs g,
  generate S snake vs = Some g -> map fst (g_dict g) = map v_name vs.
Proof. exact keys_are_graphql_names. Qed.
Print Assumptions C03_keys_are_graphql_names.

Theorem C03_required_first_is_permutation : forall S snake vs g,
  generate S snake vs = Some g ->
  exists ps,
    map p_name ps = map (fun v => pname snake (v_name v)) vs /\
    map p_required ps = map (fun v => is_nonnull (v_type v)) vs /\
    g_params g = (filter p_required ps ++ filter (fun p => negb (p_required p)) ps)%list /\
    Permutation (g_params g) ps.
Proof. exact signature_shape. Qed.
Print Assumptions C03_required_first_is_permutation.

Theorem C03_required_before_optional : forall S snake vs g,
  generate S snake vs = Some g ->
  exists l1 l2, g_params g = (l1 ++ l2)%list /\ Forall (fun p => p_required p = true) l1 /\
                Forall (fun p => p_required p = false) l2.
Proof. exact required_before_optional. Qed.
Print Assumptions C03_required_before_optional.

(* a variable that GraphQL requires (non-null, no default) is a required Python parameter *)
Theorem C03_gql_required_is_py_required : forall S snake v p e,
  gen_one S snake v = Some (p, e) -> gql_required v = true -> p_required p = true.
Proof. exact gql_required_is_py_required. Qed.
Print Assumptions C03_gql_required_is_py_required.

Theorem C03_required_cannot_be_omitted : forall ser S snake n vs kwargs g p,
  generate S snake vs = Some g -> sig_ok g = true ->
  In p (g_params g) -> p_required p = true -> assoc (p_name p) kwargs = None ->
  call_method ser n S snake vs kwargs = PyMissingArg.
Proof. intros ser S snake n vs kwargs g p. apply required_cannot_be_omitted. Qed.
Print Assumptions C03_required_cannot_be_omitted.

(* ---- the payload: UNSET dropped, None -> null (any dict, any serialize functions) ---- *)
Theorem C03_omitted_absent : forall ser S snake n d kv k,
  convert_dict ser n S snake d = Some kv -> NoDup (map fst d) -> In (k, PUnset) d -> jlookup k kv = None.
Proof. exact convert_dict_unset_absent. Qed.
Print Assumptions C03_omitted_absent.

Theorem C03_none_is_null : forall ser S snake n d kv k,
  convert_dict ser n S snake d = Some kv -> NoDup (map fst d) -> In (k, PNone) d ->
  jlookup k kv = Some JNull.
Proof. exact convert_dict_none_null. Qed.
Print Assumptions C03_none_is_null.

(* ---- delivery of one argument (any type, any wrapper nesting, with or without serialize): the JSON sent is
        accepted by coercion and yields the caller's value.  Guard: inputs_ok (F18) only. ---- *)
Theorem C03_arg_delivery : forall ser, ser_wf ser -> forall S snake,
  inputs_ok S snake = true ->
  forall n t v, typed n S snake t v = true ->
  exists w j c, wrap_arg ser S t v = Some w /\
              (forall m, n <= m -> convert_value ser m S snake w = Some j) /\
              coerce n S t j = Some c /\ intend ser n S snake t v = Some c /\
              (v <> PNone -> j <> JNull).
Proof. exact arg_delivery. Qed.
Print Assumptions C03_arg_delivery.

(* the generated dict expression computes the per-occurrence serialisation, value and call log *)
Theorem C03_serialize_expression : forall ser f, (forall d, String.eqb f (item_name d) = false) ->
  forall t env x nl depth v,
    assoc x env = Some v -> assoc f env = None -> assoc "UNSET" env = None ->
    eval_se ser env (gen_se t x f nl depth) = ser_arg ser f t nl (Nat.eqb depth 0) v.
Proof. exact eval_gen. Qed.
Print Assumptions C03_serialize_expression.

(* the same for a value held by a field of a (nested) input model *)
Theorem C03_field_delivery_partial : forall ser, ser_wf ser -> forall S snake,
  inputs_ok S snake = true ->
  forall n t nl v, typed n S snake t v = true -> (nl = false -> v <> PNone) ->
  exists j c, (forall m, n <= m -> dump_field ser m S snake t nl v = Some j) /\
              coerce n S t j = Some c /\ intend ser n S snake t v = Some c /\
              (v <> PNone -> j <> JNull).
Proof. exact field_delivery. Qed.
Print Assumptions C03_field_delivery_partial.

(* every schema-valid value can be held by the generated input classes (unguarded since /repo 1ef155d) *)
Theorem C03_constructible : forall S snake n t nl v,
  typed n S snake t v = true -> (nl = false -> v <> PNone) -> constructible n S snake t nl v = true.
Proof. exact typed_constructible. Qed.
Print Assumptions C03_constructible.

(* ---- refutations on the faithful model ---- *)
Definition cfgDT : scalar_cfg :=
  {| sc_type := "Any"; sc_ser := Some "vscal.ser_DT"; sc_parse := None; sc_import := None |}.
Definition S1 : schema := [("DT", DCustom (Some cfgDT))].
Definition V (n : string) (t : gtype) : vardef := {| v_name := n; v_type := t; v_default := None |}.

Lemma ser_inst_wf : ser_wf ser_inst.
Proof. intros f j H. exists (JArr [JStr f; j]). split; reflexivity. Qed.

(* F10 (fixed by /repo d163d56) - the former refutation witnesses, kept as regression cases:
   omitted -> no key; None -> null; list -> serialize per non-None item *)
Example C03_f10_regression :
  call_method ser_inst 8 S1 true [V "d" (TNamed "DT")] [] = Sent [] /\
  call_method ser_inst 8 S1 true [V "d" (TNamed "DT")] [("d", PNone)] = Sent [("d", JNull)] /\
  call_method ser_inst 8 S1 true [V "e" (TList (TNamed "DT"))] [("e", PList [PCustom (JStr "a"); PNone])] =
    Sent [("e", JArr [JArr [JStr "ser_DT"; JStr "a"]; JNull])] /\
  dictval_str (gen_se (TList (TNamed "DT")) "e" "ser_DT" true 0) =
    "e if e is None or e is UNSET else [_item0 if _item0 is None else ser_DT(_item0) for _item0 in e]".
Proof. vm_compute. repeat split. Qed.

(* the full statement without the name guards is false: *)
Theorem C03_delivery_refuted_names : ~ C03_delivery_full.
Proof.
  intro H.
  destruct (H ser_inst [] true [V "fooBar" (TNamed "Int"); V "foo_bar" (TNamed "Int")] [("foo_bar", PInt 1)] 8
              _ ser_inst_wf eq_refl) as [sent [cs [H1 _]]].
  - repeat constructor; simpl; intuition discriminate.
  - reflexivity.
  - specialize (H1 8 (le_n 8)). vm_compute in H1. discriminate.
Qed.
Print Assumptions C03_delivery_refuted_names.

(* F7: names that break the method *)
(* $self / $kwargs alone are fine since /repo a558946 (parameter self_ / kwargs_), kept as regression case;
   but the renamed parameter can now collide with a variable that is already called self_ *)
Example C03_self_regression :
  call_method ser_inst 8 [] true [V "self" (TNamed "Int"); V "kwargs" (TNamed "Int")]
              [("self_", PInt 1); ("kwargs_", PNone)] = Sent [("self", JInt 1); ("kwargs", JNull)].
Proof. vm_compute. reflexivity. Qed.

Theorem C03_names_refuted_self :
  call_method ser_inst 8 [] false [V "self" (TNamed "Int"); V "self_" (TNamed "Int")]
              [("self_", PInt 1)] = PySyntaxError.
Proof. vm_compute. reflexivity. Qed.

Theorem C03_names_refuted_collision :
  call_method ser_inst 8 [] true [V "fooBar" (TNamed "Int"); V "foo_bar" (TNamed "Int")]
              [("foo_bar", PInt 1)] = PySyntaxError.
Proof. vm_compute. reflexivity. Qed.

Theorem C03_names_refuted_query_local : exists sent,
  call_method ser_inst 8 [] false [V "query" (TNamed "String"); V "_query" (TNamed "String")]
              [("query", PStr "a"); ("_query", PStr "b")] = Sent sent /\
  jlookup "_query" sent = Some (JStr "<operation string>").
Proof. eexists. vm_compute. split; reflexivity. Qed.

Theorem C03_names_refuted_gql :
  call_method ser_inst 8 [] true [V "gql" (TNamed "Int")] [("gql", PInt 1)] = PyNotCallable.
Proof. vm_compute. reflexivity. Qed.

(* a variable literally named UNSET (snake case off) shadows the sentinel in the generated guard
   `x is UNSET`: its own value is returned unserialized *)
Theorem C03_names_refuted_unset : exists sent,
  call_method ser_inst 8 S1 false [V "UNSET" (TList (TNamed "DT"))] [("UNSET", PList [PCustom (JStr "a")])]
    = Sent sent /\
  jlookup "UNSET" sent = Some (JArr [JStr "a"]) /\ names_ok S1 false [V "UNSET" (TList (TNamed "DT"))] = false.
Proof. eexists. vm_compute. repeat split. Qed.

(* F21 (fixed for input fields by /repo 1ef155d: [Int]! with a None item is now accepted by the class;
   the method SIGNATURE still drops the Optional of the items (a type hint, no runtime effect) *)
Definition S21 : schema :=
  [("In", DInput [{| if_name := "xs"; if_type := TNonNull (TList (TNamed "Int")); if_default := None |}])].
Example C03_f21_regression :
  constructible 8 S21 true (TNamed "In") true (PModel "In" [("xs", PList [PInt 1; PNone])]) = true /\
  option_map (fun r => ann_str (fst r)) (parse_type_node S21 (TNonNull (TList (TNamed "Int"))) true)
    = Some "List[Optional[int]]".
Proof. vm_compute. split; reflexivity. Qed.

(* observation: `$b: Int! = 5` is optional for GraphQL but a required Python parameter *)
Theorem C03_default_nonnull_is_required :
  gql_required {| v_name := "b"; v_type := TNonNull (TNamed "Int"); v_default := Some (CInt 5) |} = false /\
  call_method ser_inst 8 [] true
    [{| v_name := "b"; v_type := TNonNull (TNamed "Int"); v_default := Some (CInt 5) |}] [] = PyMissingArg.
Proof. vm_compute. split; reflexivity. Qed.

(* ---- non-vacuity: the hypotheses of the partial theorems are met by a non-trivial call ---- *)
Definition S2 : schema :=
  [("DT", DCustom (Some cfgDT)); ("Color", DEnum ["RED"; "GREEN"]);
   ("InA", DInput [{| if_name := "fooBar"; if_type := TNamed "Int"; if_default := Some (CInt 7) |};
                   {| if_name := "when"; if_type := TNamed "DT"; if_default := None |};
                   {| if_name := "class"; if_type := TList (TNonNull (TNamed "Color")); if_default := None |};
                   {| if_name := "sub"; if_type := TNamed "InA"; if_default := None |}])].
Definition vA : pyval :=
  PModel "InA" [("when", PCustom (JStr "w")); ("class_", PList [PEnum "Color" "RED"]);
                ("sub", PModel "InA" [("foo_bar", PNone)])].

Example C03_hypotheses_satisfiable :
  inputs_ok S2 true = true /\
  typed 8 S2 true (TNonNull (TList (TNamed "InA"))) (PList [vA; PNone]) = true /\
  convert_value ser_inst 8 S2 true (PList [vA; PNone]) =
    Some (JArr [JObj [("when", JArr [JStr "ser_DT"; JStr "w"]); ("class", JArr [JStr "RED"]);
                      ("sub", JObj [("fooBar", JNull)])]; JNull]) /\
  coerce 8 S2 (TNonNull (TList (TNamed "InA")))
    (JArr [JObj [("when", JArr [JStr "ser_DT"; JStr "w"]); ("class", JArr [JStr "RED"]);
                 ("sub", JObj [("fooBar", JNull)])]; JNull]) =
    intend ser_inst 8 S2 true (TNonNull (TList (TNamed "InA"))) (PList [vA; PNone]) /\
  intend ser_inst 8 S2 true (TNonNull (TList (TNamed "InA"))) (PList [vA; PNone]) =
    Some (CList [CObj [("fooBar", CInt 7); ("when", CCustom (JArr [JStr "ser_DT"; JStr "w"]));
                       ("class", CList [CEnum "RED"]); ("sub", CObj [("fooBar", CNull)])]; CNull]).
Proof. vm_compute. repeat split. Qed.
