From Coq Require Import List String.
From AC Require Import Model.Convert.
Theorem C03_stub : True. Proof. exact I. Qed.
