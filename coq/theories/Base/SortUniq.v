(* Canonical sorting.  Python's `sorted(xs)` / `list.sort()` return a sorted permutation of xs; under a
   total, antisymmetric, transitive order there is exactly ONE sorted permutation of a given multiset
   ([sort_canonical]), so the result does not depend on the order in which xs was enumerated
   ([isort_perm_invariant]).  `sorted(xs, key=k)` is a STABLE sort on the keys: it is canonical only when
   the keys of distinct elements differ ([ksort_perm_invariant]); ties keep the enumeration order.
   Orders provided: strings by code unit (= Python str order on UTF-8 bytes), lists of strings
   lexicographically (= pathlib's PurePosixPath order on path parts). *)
From Coq Require Import List String Ascii Bool Arith NArith Lia Permutation Sorted.
Import ListNotations.

Section Sort.
  Variable A : Type.
  Variable leb : A -> A -> bool.

  Fixpoint insert (x : A) (l : list A) : list A :=
    match l with
    | [] => [x]
    | y :: r => if leb x y then x :: l else y :: insert x r
    end.

  (* insertion sort, stable: an earlier element stays before a later one it ties with *)
  Fixpoint isort (l : list A) : list A :=
    match l with
    | [] => []
    | x :: r => insert x (isort r)
    end.

  Definition le (a b : A) : Prop := leb a b = true.
  Definition sorted (l : list A) : Prop := StronglySorted le l.

  Lemma insert_perm x l : Permutation (insert x l) (x :: l).
  Proof.
    induction l as [|y r IH]; simpl; auto.
    destruct (leb x y); auto.
    eapply perm_trans; [apply perm_skip, IH | apply perm_swap].
  Qed.

  Lemma isort_perm l : Permutation (isort l) l.
  Proof.
    induction l as [|x r IH]; simpl; auto.
    eapply perm_trans; [apply insert_perm | apply perm_skip, IH].
  Qed.

  Lemma insert_In x y l : In y (insert x l) <-> y = x \/ In y l.
  Proof.
    split; intro H.
    - apply (Permutation_in _ (insert_perm x l)) in H. destruct H; auto.
    - apply (Permutation_in _ (Permutation_sym (insert_perm x l))). destruct H; [left|right]; auto.
  Qed.

  (* ---- facts needing the order laws only on the elements at hand ---- *)
  Definition total_on (l : list A) : Prop :=
    forall a b, In a l -> In b l -> leb a b = true \/ leb b a = true.
  Definition antisym_on (l : list A) : Prop :=
    forall a b, In a l -> In b l -> leb a b = true -> leb b a = true -> a = b.
  Definition trans_on (l : list A) : Prop :=
    forall a b c, In a l -> In b l -> In c l -> leb a b = true -> leb b c = true -> leb a c = true.

  Lemma insert_sorted x l :
    total_on (x :: l) -> trans_on (x :: l) -> sorted l -> sorted (insert x l).
  Proof.
    intros Ht Hr Hs. induction Hs as [|y r Hs IH Hy]; simpl.
    - constructor; constructor.
    - destruct (leb x y) eqn:E.
      + constructor; [constructor; assumption|].
        constructor; [exact E|].
        rewrite Forall_forall in *. intros z Hz.
        apply (Hr x y z); simpl; auto. apply Hy; exact Hz.
      + constructor.
        * apply IH.
          -- intros a b Ha Hb. apply Ht; simpl in *; intuition.
          -- intros a b c Ha Hb Hc. apply Hr; simpl in *; intuition.
        * rewrite Forall_forall in *. intros z Hz. apply insert_In in Hz. destruct Hz as [->|Hz].
          -- destruct (Ht x y) as [H|H]; simpl; auto. unfold le. congruence.
          -- apply Hy; exact Hz.
  Qed.

  Lemma isort_sorted l : total_on l -> trans_on l -> sorted (isort l).
  Proof.
    induction l as [|x r IH]; intros Ht Hr; simpl; [constructor|].
    apply insert_sorted.
    - intros a b Ha Hb. apply Ht.
      + destruct Ha as [<-|Ha]; [left; auto | right; apply (Permutation_in _ (isort_perm r)); auto].
      + destruct Hb as [<-|Hb]; [left; auto | right; apply (Permutation_in _ (isort_perm r)); auto].
    - intros a b c Ha Hb Hc. apply Hr.
      + destruct Ha as [<-|Ha]; [left; auto | right; apply (Permutation_in _ (isort_perm r)); auto].
      + destruct Hb as [<-|Hb]; [left; auto | right; apply (Permutation_in _ (isort_perm r)); auto].
      + destruct Hc as [<-|Hc]; [left; auto | right; apply (Permutation_in _ (isort_perm r)); auto].
    - apply IH.
      + intros a b Ha Hb. apply Ht; right; auto.
      + intros a b c Ha Hb Hc. apply Hr; right; auto.
  Qed.

  (* THE canonicity theorem: two sorted lists with the same elements are the same list *)
  Theorem sort_canonical_on l1 l2 :
    antisym_on l1 -> sorted l1 -> sorted l2 -> Permutation l1 l2 -> l1 = l2.
  Proof.
    revert l2. induction l1 as [|a r1 IH]; intros l2 Ha S1 S2 P.
    - apply Permutation_nil in P. subst; reflexivity.
    - destruct l2 as [|b r2]; [apply Permutation_sym, Permutation_nil in P; discriminate|].
      inversion S1 as [|? ? S1' F1]; subst. inversion S2 as [|? ? S2' F2]; subst.
      rewrite Forall_forall in F1, F2.
      assert (Hab : a = b).
      { assert (Inb : In b (a :: r1)) by (apply (Permutation_in _ (Permutation_sym P)); left; auto).
        assert (Ina : In a (b :: r2)) by (apply (Permutation_in _ P); left; auto).
        destruct Inb as [E|Inb]; [exact E|]. destruct Ina as [E|Ina]; [symmetry; exact E|].
        apply Ha; simpl; auto. apply F1; exact Inb. apply F2; exact Ina. }
      subst b. f_equal. apply IH; auto.
      + intros x y Hx Hy. apply Ha; right; auto.
      + eapply Permutation_cons_inv; exact P.
  Qed.

  Lemma perm_total_on l1 l2 : Permutation l1 l2 -> total_on l1 -> total_on l2.
  Proof.
    intros P H a b Ha Hb. apply H; apply (Permutation_in _ (Permutation_sym P)); auto.
  Qed.
  Lemma perm_trans_on l1 l2 : Permutation l1 l2 -> trans_on l1 -> trans_on l2.
  Proof.
    intros P H a b c Ha Hb Hc. apply H; apply (Permutation_in _ (Permutation_sym P)); auto.
  Qed.
  Lemma perm_antisym_on l1 l2 : Permutation l1 l2 -> antisym_on l1 -> antisym_on l2.
  Proof.
    intros P H a b Ha Hb. apply H; apply (Permutation_in _ (Permutation_sym P)); auto.
  Qed.

  (* sorting erases the enumeration order (laws needed on the elements only) *)
  Theorem isort_perm_invariant_on l1 l2 :
    total_on l1 -> antisym_on l1 -> trans_on l1 -> Permutation l1 l2 -> isort l1 = isort l2.
  Proof.
    intros Ht Ha Hr P.
    apply sort_canonical_on.
    - apply (perm_antisym_on l1); [apply Permutation_sym, isort_perm | exact Ha].
    - apply isort_sorted; assumption.
    - apply isort_sorted; [apply (perm_total_on l1) | apply (perm_trans_on l1)]; assumption.
    - eapply perm_trans; [apply isort_perm|]. eapply perm_trans; [exact P|]. apply Permutation_sym, isort_perm.
  Qed.

  Section Global.
    Hypothesis leb_total : forall a b, leb a b = true \/ leb b a = true.
    Hypothesis leb_antisym : forall a b, leb a b = true -> leb b a = true -> a = b.
    Hypothesis leb_trans : forall a b c, leb a b = true -> leb b c = true -> leb a c = true.

    Theorem sort_canonical l1 l2 : sorted l1 -> sorted l2 -> Permutation l1 l2 -> l1 = l2.
    Proof. intros. apply sort_canonical_on; auto. intros a b _ _. apply leb_antisym. Qed.

    Theorem isort_is_sorted l : sorted (isort l).
    Proof. apply isort_sorted; [intros a b _ _; apply leb_total | intros a b c _ _ _; apply leb_trans]. Qed.

    Theorem isort_perm_invariant l1 l2 : Permutation l1 l2 -> isort l1 = isort l2.
    Proof.
      apply isort_perm_invariant_on.
      - intros a b _ _; apply leb_total.
      - intros a b _ _; apply leb_antisym.
      - intros a b c _ _ _; apply leb_trans.
    Qed.

    (* any function returning a sorted permutation of its input IS isort: Python's timsort included *)
    Theorem any_sort_is_isort (f : list A -> list A) :
      (forall l, sorted (f l)) -> (forall l, Permutation (f l) l) -> forall l, f l = isort l.
    Proof.
      intros Hs Hp l. apply sort_canonical; [apply Hs | apply isort_is_sorted|].
      eapply perm_trans; [apply Hp | apply Permutation_sym, isort_perm].
    Qed.
  End Global.
End Sort.

Arguments insert {A}. Arguments isort {A}. Arguments sorted {A}. Arguments le {A}.
Arguments total_on {A}. Arguments antisym_on {A}. Arguments trans_on {A}.

(* ---- stable sort by key: sorted(xs, key=k) ---- *)
Section KeySort.
  Variables A K : Type.
  Variable kleb : K -> K -> bool.
  Variable key : A -> K.
  Hypothesis kleb_total : forall a b, kleb a b = true \/ kleb b a = true.
  Hypothesis kleb_antisym : forall a b, kleb a b = true -> kleb b a = true -> a = b.
  Hypothesis kleb_trans : forall a b c, kleb a b = true -> kleb b c = true -> kleb a c = true.

  Definition kle_b (a b : A) : bool := kleb (key a) (key b).
  Definition ksort (l : list A) : list A := isort kle_b l.

  (* keys of distinct positions differ *)
  Definition keys_distinct (l : list A) : Prop := NoDup (map key l).

  Lemma keys_distinct_inj l a b : keys_distinct l -> In a l -> In b l -> key a = key b -> a = b.
  Proof.
    unfold keys_distinct. induction l as [|x r IH]; simpl; intros N Ha Hb E; [contradiction|].
    inversion N as [|? ? Nx Nr]; subst.
    destruct Ha as [<-|Ha], Hb as [<-|Hb]; auto.
    - exfalso. apply Nx. rewrite E. apply in_map; exact Hb.
    - exfalso. apply Nx. rewrite <- E. apply in_map; exact Ha.
  Qed.

  Theorem ksort_perm_invariant l1 l2 :
    keys_distinct l1 -> Permutation l1 l2 -> ksort l1 = ksort l2.
  Proof.
    intros N P. unfold ksort. apply isort_perm_invariant_on; auto.
    - intros a b _ _. apply kleb_total.
    - intros a b Ha Hb H1 H2. apply (keys_distinct_inj l1); auto.
    - intros a b c _ _ _. apply kleb_trans.
  Qed.
End KeySort.
Arguments ksort {A K}. Arguments keys_distinct {A K}. Arguments kle_b {A K}.

(* ---- the string order: code units, shorter prefix first (stdlib String.leb) ---- *)
Lemma ascii_compare_trans_lt a b c :
  Ascii.compare a b = Lt -> Ascii.compare b c = Lt -> Ascii.compare a c = Lt.
Proof. unfold Ascii.compare. rewrite !N.compare_lt_iff. apply N.lt_trans. Qed.

Lemma ascii_compare_refl a : Ascii.compare a a = Eq.
Proof. unfold Ascii.compare. apply N.compare_refl. Qed.

Lemma string_compare_refl s : String.compare s s = Eq.
Proof. induction s as [|a s IH]; simpl; auto. rewrite ascii_compare_refl. exact IH. Qed.

Lemma string_compare_trans_lt : forall a b c,
  String.compare a b = Lt -> String.compare b c = Lt -> String.compare a c = Lt.
Proof.
  induction a as [|x a IH]; intros [|y b] [|z c]; simpl; intros H1 H2; try discriminate; auto.
  destruct (Ascii.compare x y) eqn:Exy; try discriminate.
  - apply Ascii.compare_eq_iff in Exy. subst y.
    destruct (Ascii.compare x z) eqn:Exz; try discriminate; auto. eapply IH; eauto.
  - destruct (Ascii.compare y z) eqn:Eyz; try discriminate.
    + apply Ascii.compare_eq_iff in Eyz. subst z. rewrite Exy. reflexivity.
    + rewrite (ascii_compare_trans_lt _ _ _ Exy Eyz). reflexivity.
Qed.

Lemma string_leb_trans a b c : String.leb a b = true -> String.leb b c = true -> String.leb a c = true.
Proof.
  unfold String.leb. intros H1 H2.
  destruct (String.compare a b) eqn:Eab; try discriminate;
  destruct (String.compare b c) eqn:Ebc; try discriminate.
  - apply String.compare_eq_iff in Eab. subst. rewrite Ebc. reflexivity.
  - apply String.compare_eq_iff in Eab. subst. rewrite Ebc. reflexivity.
  - apply String.compare_eq_iff in Ebc. subst. rewrite Eab. reflexivity.
  - rewrite (string_compare_trans_lt _ _ _ Eab Ebc). reflexivity.
Qed.

Definition str_leb : string -> string -> bool := String.leb.
Definition str_sort : list string -> list string := isort str_leb.

Theorem str_sort_perm_invariant l1 l2 : Permutation l1 l2 -> str_sort l1 = str_sort l2.
Proof. apply isort_perm_invariant; [apply String.leb_total | apply String.leb_antisym | apply string_leb_trans]. Qed.

Theorem str_sort_canonical l1 l2 :
  sorted str_leb l1 -> sorted str_leb l2 -> Permutation l1 l2 -> l1 = l2.
Proof. apply sort_canonical. apply String.leb_antisym. Qed.

(* ---- lexicographic lift to lists (path parts) ---- *)
Section Lex.
  Variable A : Type.
  Variable leb : A -> A -> bool.
  Hypothesis leb_total : forall a b, leb a b = true \/ leb b a = true.
  Hypothesis leb_antisym : forall a b, leb a b = true -> leb b a = true -> a = b.
  Hypothesis leb_trans : forall a b c, leb a b = true -> leb b c = true -> leb a c = true.

  (* a <= b  as Python compares lists:  first differing position decides, a prefix is smaller *)
  Fixpoint lex_leb (a b : list A) : bool :=
    match a, b with
    | [], _ => true
    | _ :: _, [] => false
    | x :: a', y :: b' => if leb x y then (if leb y x then lex_leb a' b' else true) else false
    end.

  Lemma lex_total a b : lex_leb a b = true \/ lex_leb b a = true.
  Proof.
    revert b; induction a as [|x a IH]; intros [|y b]; simpl; auto.
    destruct (leb x y) eqn:E1, (leb y x) eqn:E2; auto.
    destruct (leb_total x y); congruence.
  Qed.

  Lemma lex_antisym a b : lex_leb a b = true -> lex_leb b a = true -> a = b.
  Proof.
    revert b; induction a as [|x a IH]; intros [|y b]; simpl; auto; try discriminate.
    destruct (leb x y) eqn:E1, (leb y x) eqn:E2; try discriminate.
    intros H1 H2. rewrite (leb_antisym x y E1 E2). f_equal. apply IH; auto.
  Qed.

  Lemma lex_trans a b c : lex_leb a b = true -> lex_leb b c = true -> lex_leb a c = true.
  Proof.
    revert b c; induction a as [|x a IH]; intros [|y b] [|z c]; simpl; auto; try discriminate.
    destruct (leb x y) eqn:Exy; try discriminate.
    destruct (leb y z) eqn:Eyz; try (intros; discriminate).
    rewrite (leb_trans x y z Exy Eyz).
    destruct (leb z x) eqn:Ezx; [|reflexivity].
    rewrite (leb_trans z x y Ezx Exy), (leb_trans y z x Eyz Ezx).
    intros H1 H2. eapply IH; eauto.
  Qed.
End Lex.
Arguments lex_leb {A}.

Definition path_leb : list string -> list string -> bool := lex_leb str_leb.
Definition path_sort : list (list string) -> list (list string) := isort path_leb.

Theorem path_sort_perm_invariant l1 l2 : Permutation l1 l2 -> path_sort l1 = path_sort l2.
Proof.
  apply isort_perm_invariant.
  - apply lex_total. apply String.leb_total.
  - apply lex_antisym. apply String.leb_antisym.
  - apply lex_trans. apply string_leb_trans.
Qed.
