(* Character and string helpers shared by the models. Strings are handled as
   [list ascii] inside models (structural recursion, list lemmas) and converted at the edges. *)
From Coq Require Import List String Ascii ZArith Bool Arith Lia.
Import ListNotations.

Definition chars := list ascii.
Definition s2l : string -> chars := list_ascii_of_string.
Definition l2s : chars -> string := string_of_list_ascii.

Lemma l2s_s2l s : l2s (s2l s) = s.
Proof. apply string_of_list_ascii_of_string. Qed.
Lemma s2l_l2s l : s2l (l2s l) = l.
Proof. apply list_ascii_of_string_of_list_ascii. Qed.

Definition code (c : ascii) : nat := nat_of_ascii c.
Definition is_upper (c : ascii) : bool := (65 <=? code c) && (code c <=? 90).
Definition is_lower (c : ascii) : bool := (97 <=? code c) && (code c <=? 122).
Definition is_digit (c : ascii) : bool := (48 <=? code c) && (code c <=? 57).
Definition is_us (c : ascii) : bool := Ascii.eqb c "_"%char.
Definition is_alnum (c : ascii) : bool := is_upper c || is_lower c || is_digit c.
Definition is_name_char (c : ascii) : bool := is_alnum c || is_us c.
Definition to_lower (c : ascii) : ascii :=
  if is_upper c then ascii_of_nat (code c + 32) else c.
Definition to_upper (c : ascii) : ascii :=
  if is_lower c then ascii_of_nat (code c - 32) else c.

Fixpoint chars_eqb (a b : chars) : bool :=
  match a, b with
  | [], [] => true
  | x :: a', y :: b' => Ascii.eqb x y && chars_eqb a' b'
  | _, _ => false
  end.

Lemma chars_eqb_eq a b : chars_eqb a b = true <-> a = b.
Proof.
  revert b; induction a as [|x a IH]; intros [|y b]; simpl; split; intro H;
    try reflexivity; try discriminate.
  - apply andb_true_iff in H as [H1 H2]. apply Ascii.eqb_eq in H1. apply IH in H2. congruence.
  - inversion H; subst. rewrite Ascii.eqb_refl. simpl. apply IH. reflexivity.
Qed.

Lemma chars_eqb_refl a : chars_eqb a a = true.
Proof. apply chars_eqb_eq. reflexivity. Qed.

Definition mem_chars (x : chars) (l : list chars) : bool := existsb (chars_eqb x) l.

Lemma mem_chars_In x l : mem_chars x l = true <-> In x l.
Proof.
  unfold mem_chars. rewrite existsb_exists. split.
  - intros [y [Hy He]]. apply chars_eqb_eq in He. subst. exact Hy.
  - intro H. exists x. split; [exact H | apply chars_eqb_refl].
Qed.

(* drop leading characters satisfying p  (Python str.lstrip for a one-character set) *)
Fixpoint drop_while (p : ascii -> bool) (l : chars) : chars :=
  match l with
  | [] => []
  | c :: r => if p c then drop_while p r else l
  end.
