(* S-expressions: the wire format between the Python harness and the extracted model.
   Decoding/encoding of model values is done in Gallina so it is checkable inside Coq. *)
From Coq Require Import List String Ascii ZArith Bool DecimalString Decimal.
Import ListNotations.
Local Open Scope string_scope.

Inductive sexp := A (s : string) | L (l : list sexp).

Definition z_to_string (z : Z) : string := NilZero.string_of_int (Z.to_int z).
Definition z_of_string (s : string) : option Z :=
  match NilZero.int_of_string s with Some i => Some (Z.of_int i) | None => None end.

Definition sZ (z : Z) : sexp := A (z_to_string z).
Definition sB (b : bool) : sexp := A (if b then "t" else "f").
Definition sN (n : nat) : sexp := sZ (Z.of_nat n).
Definition sOpt {X} (f : X -> sexp) (o : option X) : sexp :=
  match o with Some x => L [A "some"; f x] | None => A "none" end.
Definition sList {X} (f : X -> sexp) (l : list X) : sexp := L (map f l).
Definition sErr (msg : string) : sexp := L [A "error"; A msg].

Definition dStr (e : sexp) : option string := match e with A s => Some s | _ => None end.
Definition dZ (e : sexp) : option Z := match e with A s => z_of_string s | _ => None end.
Definition dNat (e : sexp) : option nat :=
  match dZ e with Some z => if (z <? 0)%Z then None else Some (Z.to_nat z) | None => None end.
Definition dB (e : sexp) : option bool :=
  match e with A "t" => Some true | A "f" => Some false | _ => None end.
Fixpoint dAll {X} (f : sexp -> option X) (l : list sexp) : option (list X) :=
  match l with
  | [] => Some []
  | e :: r => match f e, dAll f r with Some x, Some xs => Some (x :: xs) | _, _ => None end
  end.
Definition dList {X} (f : sexp -> option X) (e : sexp) : option (list X) :=
  match e with L l => dAll f l | _ => None end.
Definition dOpt {X} (f : sexp -> option X) (e : sexp) : option (option X) :=
  match e with
  | A "none" => Some None
  | L [A "some"; x] => match f x with Some v => Some (Some v) | None => None end
  | _ => None
  end.
