(* JSON values. Floats are opaque lexemes, never computed with. *)
From Coq Require Import List String Ascii ZArith Bool.
From AC Require Import Base.Sexp.
Import ListNotations.
Local Open Scope string_scope.

Inductive json :=
| JNull
| JBool (b : bool)
| JInt (z : Z)
| JFloat (lexeme : string)
| JStr (s : string)
| JArr (l : list json)
| JObj (kv : list (string * json)).

(* association lookup, first binding wins when decoding; Python dicts from json.loads keep
   the LAST duplicate, so the harness never sends duplicate keys *)
Fixpoint jlookup (k : string) (kv : list (string * json)) : option json :=
  match kv with
  | [] => None
  | (k', v) :: r => if String.eqb k k' then Some v else jlookup k r
  end.

Definition jhas (k : string) (kv : list (string * json)) : bool :=
  match jlookup k kv with Some _ => true | None => false end.

(* Python truthiness of a decoded JSON value (used by `if errors:` / `if data:`) *)
Definition truthy (j : json) : bool :=
  match j with
  | JNull => false
  | JBool b => b
  | JInt z => negb (Z.eqb z 0)
  | JFloat _ => true   (* harness never sends a zero float; see DESIGN *)
  | JStr s => negb (String.eqb s "")
  | JArr l => match l with [] => false | _ => true end
  | JObj kv => match kv with [] => false | _ => true end
  end.

(* S-expression codec:  n | (b t) | (i 12) | (f "1.5") | (s "x") | (a v...) | (o (k v)...) *)
Fixpoint json_to_sexp (j : json) : sexp :=
  match j with
  | JNull => A "n"
  | JBool b => L [A "b"; sB b]
  | JInt z => L [A "i"; sZ z]
  | JFloat s => L [A "f"; A s]
  | JStr s => L [A "s"; A s]
  | JArr l => L (A "a" :: map json_to_sexp l)
  | JObj kv => L (A "o" :: map (fun p => L [A (fst p); json_to_sexp (snd p)]) kv)
  end.

Fixpoint json_of_sexp (e : sexp) : option json :=
  match e with
  | A "n" => Some JNull
  | L [A "b"; b] => option_map JBool (dB b)
  | L [A "i"; z] => option_map JInt (dZ z)
  | L [A "f"; A s] => Some (JFloat s)
  | L [A "s"; A s] => Some (JStr s)
  | L (A "a" :: l) =>
      option_map JArr
      ((fix go (l : list sexp) : option (list json) :=
         match l with
         | [] => Some []
         | x :: r => match json_of_sexp x, go r with
                     | Some v, Some vs => Some (v :: vs) | _, _ => None end
         end) l)
  | L (A "o" :: l) =>
      option_map JObj
      ((fix go (l : list sexp) : option (list (string * json)) :=
         match l with
         | [] => Some []
         | L [A k; x] :: r => match json_of_sexp x, go r with
                              | Some v, Some vs => Some ((k, v) :: vs) | _, _ => None end
         | _ => None
         end) l)
  | _ => None
  end.
