(* Object-level refinement for the result-class generator: the classes generated for a selection set
   accept (C01), cover (C01 preservation) every conformant response object, and are as strict as the
   schema up to pydantic's lax leaf table and extra=ignore (C05).
   Sub-language: sels_ok (Proofs/ResultsRunP.v): fields, inline fragments and unpacked spreads that
   resolve and collect flatten alike (flatten), scalar / enum leaves, OBJECT-typed composite fields. *)
From Coq Require Import List String Ascii Bool Arith Lia ZArith.
From AC Require Import Base.Strs Base.Sexp Base.Json Gql.Schema Gql.Exec Py.Ann Py.Pydantic
     Model.Names Model.Results Proofs.ResultsP Proofs.ResultsRunP Proofs.ResultsAbsP.
Import ListNotations.
Local Open Scope string_scope.
Local Open Scope list_scope.

(* ------------------------------------------------------------------------------------------- *)
(* conf_obj on a fields-only selection set with distinct response keys, field by field           *)

Definition key_spec (rec : gtype -> list scope -> json -> bool) (S : schema) (tn : string)
           (kv : list (string * json)) (f : fnode) : bool :=
  match jlookup (field_key f) kv with
  | None => fn_cond f
  | Some v =>
      if String.eqb (fn_name f) "__typename"
      then match v with JStr s => String.eqb s tn | _ => false end
      else match field_type_on S tn (fn_name f) with
           | None => false
           | Some ft => rec ft (sub_scopes [node_of_fnode false f]) v
           end
  end.

Lemma forallb_map {X Y} (h : X -> Y) (p : Y -> bool) l : forallb p (map h l) = forallb (fun x => p (h x)) l.
Proof. induction l; simpl; congruence. Qed.

Lemma forallb_ext_in {X} (p q : X -> bool) l : (forall x, In x l -> p x = q x) -> forallb p l = forallb q l.
Proof.
  induction l as [|x l IH]; simpl; intro H; [reflexivity|].
  rewrite H by (left; reflexivity). f_equal. apply IH. intros y Hy. apply H. right; exact Hy.
Qed.

Lemma conf_obj_flat eo rec S tn fns kv :
  NoDup (map field_key fns) ->
  conf_obj_gen eo rec S tn (Some (map (node_of_fnode false) fns)) kv
  = (eo || forallb (fun p => mem (fst p) (map field_key fns)) kv)
    && forallb (key_spec rec S tn kv) fns.
Proof.
  intros Hnd. unfold conf_obj_gen.
  set (nodes := map (node_of_fnode false) fns).
  assert (Hk : map n_key nodes = map field_key fns) by (unfold nodes; rewrite map_map; reflexivity).
  rewrite keys_in_order_nodup; [| rewrite Hk; exact Hnd | intros n _ []].
  rewrite Hk. f_equal. rewrite forallb_map. apply forallb_ext_in. intros f Hf.
  unfold conf_key, key_spec.
  assert (Hfil : filter (fun n => String.eqb (n_key n) (field_key f)) nodes = [node_of_fnode false f]).
  { apply (filter_key_single nodes (node_of_fnode false f)); [rewrite Hk; exact Hnd|].
    unfold nodes. apply in_map, Hf. }
  rewrite Hfil. destruct (jlookup (field_key f) kv); simpl; [reflexivity | apply andb_true_r].
Qed.

Lemma keys_in_order_In k : forall l seen,
  In k (keys_in_order l seen) <-> In k (map n_key l) /\ ~ In k seen.
Proof.
  induction l as [|n r IH]; intros seen; simpl; [tauto|].
  destruct (mem (n_key n) seen) eqn:M.
  - apply mem_In in M. rewrite IH. split.
    + intros [H1 H2]. auto.
    + intros [[E | H1] H2]; [subst k; contradiction | auto].
  - apply mem_false_In in M. simpl. rewrite IH. simpl. split.
    + intros [E | [H1 H2]]; [subst k; auto | split; [auto | intro; apply H2; auto]].
    + intros [[E | H1] H2]; [left; exact E|].
      destruct (string_dec (n_key n) k) as [E | E]; [left; exact E | right].
      split; [exact H1 | intros [E' | H3]; [contradiction | contradiction]].
Qed.

(* a key that occurs once: its node is alone in the filter *)
Lemma filter_count_single (nodes : list cnode) n :
  count_key (n_key n) (map n_key nodes) = 1 -> In n nodes ->
  filter (fun m => String.eqb (n_key m) (n_key n)) nodes = [n].
Proof.
  unfold count_key. induction nodes as [|m r IH]; intros Hc Hin; [contradiction|].
  simpl in Hc |- *. destruct Hin as [E | Hin].
  - subst m. rewrite String.eqb_refl in Hc |- *. simpl in Hc. f_equal.
    assert (Hz : List.length (filter (String.eqb (n_key n)) (map n_key r)) = 0) by lia.
    clear - Hz. induction r as [|x r IHr]; [reflexivity|]. simpl in Hz |- *.
    rewrite (String.eqb_sym (n_key x)). destruct (String.eqb (n_key n) (n_key x)); [discriminate Hz | apply IHr, Hz].
  - rewrite (String.eqb_sym (n_key m)). destruct (String.eqb (n_key n) (n_key m)) eqn:E.
    + simpl in Hc. exfalso.
      assert (Hpos : List.length (filter (String.eqb (n_key n)) (map n_key r)) >= 1).
      { clear - Hin. induction r as [|x r IHr]; [contradiction|]. simpl. destruct Hin as [E | Hin].
        - subst x. rewrite String.eqb_refl. simpl. lia.
        - destruct (String.eqb (n_key n) (n_key x)); simpl; [lia | apply IHr, Hin]. }
      lia.
    + apply IH; auto.
Qed.

Lemma conf_obj_flat_dup rec S tn fns kv :
  dup_ok fns = true ->
  conf_obj_gen false rec S tn (Some (map (node_of_fnode false) fns)) kv = true ->
  (forall p, In p kv -> In (fst p) (map field_key fns)) /\ forallb (key_spec rec S tn kv) fns = true.
Proof.
  intros Hd H. unfold conf_obj_gen in H.
  set (nodes := map (node_of_fnode false) fns) in *.
  assert (Hk : map n_key nodes = map field_key fns) by (unfold nodes; rewrite map_map; reflexivity).
  simpl orb in H. apply andb_true_iff in H as [H1 H2]. rewrite forallb_forall in H1, H2.
  split.
  - intros p Hp. specialize (H1 p Hp). apply mem_In in H1. apply keys_in_order_In in H1.
    destruct H1 as [H1 _]. rewrite <- Hk. exact H1.
  - apply forallb_forall. intros f Hf.
    assert (Hin : In (node_of_fnode false f) nodes) by (unfold nodes; apply in_map, Hf).
    assert (Hkey : In (field_key f) (keys_in_order nodes [])).
    { apply keys_in_order_In. split; [| intros []]. rewrite Hk. apply in_map, Hf. }
    specialize (H2 _ Hkey). unfold conf_key in H2. unfold key_spec.
    set (ns := filter (fun n => String.eqb (n_key n) (field_key f)) nodes) in *.
    assert (Hfns : In (node_of_fnode false f) ns).
    { unfold ns. apply filter_In. split; [exact Hin | apply String.eqb_refl]. }
    unfold dup_ok in Hd. rewrite forallb_forall in Hd.
    destruct (Nat.eqb (count_key (field_key f) (map field_key fns)) 1) eqn:Ec.
    + apply Nat.eqb_eq in Ec. rewrite <- Hk in Ec.
      assert (Ens : ns = [node_of_fnode false f]) by (apply (filter_count_single nodes (node_of_fnode false f)); auto).
      rewrite Ens in H2. destruct (jlookup (field_key f) kv); simpl in H2 |- *; [exact H2|].
      rewrite andb_true_r in H2. exact H2.
    + pose proof (Hd f Hf) as Hdf. rewrite Ec in Hdf. simpl in Hdf. apply andb_true_iff in Hdf as [Hleaf Hsame].
      rewrite forallb_forall in Hsame.
      (* every node of this key is a leaf selection of the same field *)
      assert (Hall : forall n, In n ns -> n_name n = fn_name f /\ n_sub n = None).
      { intros n Hn. unfold ns in Hn. apply filter_In in Hn. destruct Hn as [Hn Hkn].
        unfold nodes in Hn. apply in_map_iff in Hn. destruct Hn as [g [Eg Hg]]. subst n.
        cbn [n_key n_name n_sub node_of_fnode] in *. apply String.eqb_eq in Hkn.
        split.
        - pose proof (Hsame g Hg) as Hs. rewrite Hkn, String.eqb_refl in Hs. simpl in Hs.
          apply String.eqb_eq, Hs.
        - pose proof (Hd g Hg) as Hdg. rewrite Hkn, Ec in Hdg. simpl in Hdg.
          apply andb_true_iff in Hdg as [Hl _]. unfold is_leaf_sel in Hl. destruct (fn_sub g); [discriminate | reflexivity]. }
      assert (Hss : sub_scopes ns = []).
      { unfold sub_scopes. generalize (negb match ns with [_] => true | _ => false end). intro b0.
        clear - Hall. induction ns as [|n r IH]; [reflexivity|]. simpl.
        rewrite (proj2 (Hall n (or_introl eq_refl))). simpl. apply IH. intros m Hm. apply Hall. right; exact Hm. }
      assert (Hs1 : sub_scopes [node_of_fnode false f] = []).
      { unfold sub_scopes. simpl. unfold is_leaf_sel in Hleaf. destruct (fn_sub f); [discriminate | reflexivity]. }
      destruct (jlookup (field_key f) kv) as [v|].
      * destruct ns as [|n0 rest] eqn:Ens; [contradiction|].
        destruct (Hall n0 (or_introl eq_refl)) as [En0 _]. rewrite En0 in H2.
        rewrite Hss in H2. rewrite Hs1. exact H2.
      * rewrite forallb_forall in H2. apply (H2 _ Hfns).
Qed.

Definition obj_conf (fc : nat) (S : schema) (frs : list fragdef) (tn : string) (sels : list sel)
           (kv : list (string * json)) : bool :=
  conf_obj_with (conf_val fc S frs) S tn (collect_scopes fc S frs tn [(false, sels)]) kv.

  Lemma Forall2_right {X Y} (P : X -> Y -> Prop) (R : Y -> Prop) l l' :
    Forall2 P l l' -> (forall x y, P x y -> R y) -> Forall R l'.
  Proof. induction 1; intro HR; constructor; eauto. Qed.

  Lemma Forall2_In_l {X Y} (P : X -> Y -> Prop) l l' x :
    Forall2 P l l' -> In x l -> exists y, In y l' /\ P x y.
  Proof.
    induction 1 as [|a b l l' Hab H IH]; intros Hin; [contradiction|].
    destruct Hin as [E | Hin]; [subst; exists b; split; [left; reflexivity | exact Hab]|].
    destruct (IH Hin) as [y [Hy Hp]]. exists y. split; [right; exact Hy | exact Hp].
  Qed.

  Lemma Forall2_map_eq {X Y Z} (P : X -> Y -> Prop) (h1 : X -> Z) (h2 : Y -> Z) l l' :
    Forall2 P l l' -> (forall x y, P x y -> h2 y = h1 x) -> map h2 l' = map h1 l.
  Proof. induction 1; intro HR; simpl; [reflexivity|]. f_equal; auto. Qed.


Lemma sels_ok_inv g cov C S frs mx abs rt r sels :
  sels_ok g cov C S frs mx abs rt r sels = true ->
  exists g' fns, g = Datatypes.S g' /\ flatten g' S frs rt r sels = Some fns /\
             keys_okG cov C fns = true /\
             (cov = true -> NoDup (map (fun f => py_field_name C (field_key f)) fns)) /\
             forallb (field_ok (sels_ok g' cov C S frs mx) g' cov S mx abs rt r) fns = true.
Proof.
  destruct g as [|g']; [discriminate|]. simpl. intro H.
  destruct (flatten g' S frs rt r sels) as [fns|] eqn:Ef; [| discriminate].
  apply andb_true_iff in H as [H H3]. apply andb_true_iff in H as [H1 H2].
  exists g', fns. repeat split; auto. intro Hc. subst cov. simpl in H2. apply nodupb_NoDup, H2.
Qed.

Lemma keys_ok_nodup C keys : keys_ok C keys = true -> NoDup keys.
Proof. unfold keys_ok. intro H. apply andb_true_iff in H as [H _]. apply nodupb_NoDup, H. Qed.

Lemma obj_conf_inv fc S frs tn sels kv C g r fns :
  obj_conf fc S frs tn sels kv = true -> flatten g S frs tn r sels = Some fns ->
  keys_okD C fns = true ->
  (forall p, In p kv -> In (fst p) (map field_key fns)) /\
  forallb (key_spec (conf_val fc S frs) S tn kv) fns = true.
Proof.
  unfold obj_conf, conf_obj_with. intros H Hfl Hk.
  destruct (collect_scopes fc S frs tn [(false, sels)]) as [l|] eqn:E; [| discriminate H].
  rewrite (collect_scopes_flat _ _ _ _ _ _ _ _ _ Hfl E) in H.
  unfold keys_okD in Hk. apply andb_true_iff in Hk as [Hd _].
  apply (conf_obj_flat_dup _ _ _ _ _ Hd H).
Qed.

Lemma sels_ok_ok_inv g cov C S frs mx : forall b rt r sels,
  sels_ok g cov C S frs mx b rt r sels = true -> no_spread g sels = true ->
  exists g' fns, flatten g' S frs rt r sels = Some fns /\ keys_okD C fns = true /\
                 (cov = true -> NoDup (map (fun f => py_field_name C (field_key f)) fns)).
Proof.
  intros b rt r sels H _. destruct (sels_ok_inv _ _ _ _ _ _ _ _ _ _ H) as [g' [fns [_ [H1 [H2 [H3 _]]]]]].
  exists g', fns. split; [exact H1|]. split; [eapply keys_okG_D; eauto | exact H3].
Qed.

Lemma keys_ok_forall C (fns : list fnode) :
  keys_okD C fns = true ->
  forall f, In f fns -> String.eqb (py_field_name C (field_key f)) (field_key f)
                        || negb (mem (py_field_name C (field_key f)) (map field_key fns)) = true.
Proof.
  unfold keys_okD. intros H f Hf. apply andb_true_iff in H as [_ H]. rewrite forallb_forall in H.
  apply (H (field_key f)). apply in_map, Hf.
Qed.

Section Level.
  Variables (C : cfg) (S : schema) (frs : list fragdef).
  Variables (fuel' g : nat) (cov : bool) (cs : list pclass).
  (* W: the checker applied to field values (accepts (S n) cs enums / covers (S n) cs), which at class
     and union positions is cls_step over the per-class check chk, the inner checker Wrec and the field
     table mro;  Q: an invariant of the payload inherited by array elements and object members *)
  Variable W : ann -> json -> bool.
  Variable Q : json -> Prop.
  Variable chk : (ann -> json -> bool) -> option (list pfield) -> json -> bool.
  Variable Wrec : ann -> json -> bool.
  Variable mro : string -> option (list pfield).
  (* ok: the guard required of nested selection sets (sels_ok g cov C S frs true, or a larger language) *)
  Variable ok : bool -> string -> string -> list sel -> bool.
  (* mx: the @mixin names allowed on fields; harm: what the class table guarantees about such extra bases *)
  Variable mx : list string.
  Variable harm : list string -> Prop.
  Hypothesis harm_mx : forall eb, forallb (fun b => mem b mx) eb = true -> harm eb.
  Hypothesis ok_inv : forall b rt r sels, ok b rt r sels = true -> no_spread g sels = true ->
      exists g' fns, flatten g' S frs rt r sels = Some fns /\ keys_okD C fns = true /\
                     (cov = true -> NoDup (map (fun f => py_field_name C (field_key f)) fns)).
  Hypothesis W_opt : forall a j, W (AOpt a) j = is_null j || W a j.
  Hypothesis W_list : forall a j, W (AList a) j = match j with JArr l => forallb (W a) l | _ => false end.
  Hypothesis Q_arr : forall l, Q (JArr l) -> forall x, In x l -> Q x.
  Hypothesis W_scalar : forall n j, leaf_conf S n DScalar j = true -> j <> JNull ->
                                    W (fst (scalar_ann C n false)) j = true.
  Hypothesis W_enum : forall n vs j, lookup_type S n = Some (DEnum vs) ->
                                     leaf_conf S n (DEnum vs) j = true -> W (AEnum n) j = true.
  Hypothesis W_lit : forall tvs s, In s tvs -> W (ALit (sort_strings tvs)) (JStr s) = true.
  Hypothesis W_str : forall s, W AStr (JStr s) = true.
  Hypothesis W_cls : forall c j, W (AClass c) j = cls_step chk Wrec mro (AClass c) j.
  Hypothesis W_uni : forall alts j, W (AUnion alts) j = cls_step chk Wrec mro (AUnion alts) j.
  Hypothesis mro_ok : forall c eb, lookup_class cs (c_name c) = Some c -> c_name c <> "BaseModel" ->
                                   c_bases c = "BaseModel" :: eb -> harm eb -> mro (c_name c) = Some (c_fields c).
  Hypothesis fuel_pos : exists f2, fuel' = Datatypes.S f2.
  Hypothesis W_class : forall pub cn2 rt2 r2 sels2 at2 eb2 tvs out2 pub2 fc kv,
      harm eb2 ->
      parse_type_def fuel' C S frs pub cn2 r2 sels2 at2 eb2 (Some tvs) = Ok (out2, pub2, false) ->
      ok at2 rt2 r2 sels2 = true -> In rt2 tvs ->
      (at2 = true -> has_typename sels2 = true) -> table_ok cs out2 ->
      obj_conf fc S frs rt2 sels2 kv = true ->
      Q (JObj kv) -> chk Wrec (mro cn2) (JObj kv) = true.

  Lemma cond_ann_W cond a j : W a j = true -> W (cond_ann false cond a) j = true.
  Proof.
    unfold cond_ann. destruct cond; auto. destruct (is_opt a); auto. intro H.
    rewrite W_opt, H. apply orb_true_r.
  Qed.

  Lemma wrapP_Q (P : json -> Prop) : forall t j, Q j -> wrapP P t j -> wrapP (fun j' => Q j' /\ P j') t j.
  Proof.
    induction t as [n | t IH | t IH]; intros j HQ; simpl.
    - intros [E | HP]; auto.
    - intros [E | [l [E Hf]]]; auto. right. exists l. split; auto. subst j.
      rewrite Forall_forall in *. intros x Hx. apply IH; [eapply Q_arr; eauto | apply Hf, Hx].
    - intros [E HP]. auto.
  Qed.

  Definition value_conf (rt : string) (f : fnode) (k : nat) (v : json) : Prop :=
    if String.eqb (fn_name f) "__typename" then v = JStr rt
    else exists ft, field_type_on S rt (fn_name f) = Some ft /\
                    conf_val k S frs ft (sub_scopes [node_of_fnode false f]) v = true.

  (* an object at an abstract position: the class of the variant of its runtime type validates it, and
     the discriminated union picks that class *)
  Lemma abstract_value base sub f sc x ctx pub0 exc pub1 k' kv' :
    (exists ifs fs, lookup_type S base = Some (DInterface ifs fs)) \/
    (exists ms, lookup_type S base = Some (DUnion ms)) ->
    abs_ok ok g cov S base sub = true ->
    harm (fn_mixins f) ->
    named_ann C S frs fuel' (Some sub) base false sc false = Ok (x, ctx) ->
    subs_run (parse_type_def fuel' C S frs) S ctx f sub (x_related ctx) pub0 exc pub1 false ->
    table_ok cs exc -> Q (JObj kv') ->
    existsb (fun rt => conf_obj_gen false (conf_val k' S frs) S rt
                                    (collect_scopes k' S frs rt [(false, sub)]) kv')
            (possible_types S base) = true ->
    W x (JObj kv') = true.
  Proof.
    intros Hkind Habs Emix Hna Hrun Htab HQ Hex.
    destruct fuel_pos as [f2 Ef].
    apply existsb_exists in Hex. destruct Hex as [rt [Hrt Hconf]].
    unfold abs_ok in Habs.
    apply andb_true_iff in Habs as [Habs Hall]. apply andb_true_iff in Habs as [Habs Hun].
    apply andb_true_iff in Habs as [Habs Hnb]. apply andb_true_iff in Habs as [Habs Hsome].
    apply andb_true_iff in Habs as [Habs Hns]. apply andb_true_iff in Habs as [Hcov Hht].
    apply negb_true_iff in Hnb.
    rewrite forallb_forall in Hall. specialize (Hall rt Hrt). apply andb_true_iff in Hall as [Hobj Hvar].
    set (names := abs_names S base sub) in *.
    set (t0 := variant names base rt) in *.
    (* shape of the annotation: one class per related type, named by cname *)
    assert (Hshape : x_abstract ctx = true /\
              exists cname, x_related ctx = map (fun t => {| r_class := cname t; r_type := t |}) names /\
                ((x = AClass (cname t0) /\ names = [base]) \/ x = AUnion (map (fun t => AClass (cname t)) names))).
    { destruct Hkind as [[ifs [fs Hl]] | [ms Hl]].
      - rewrite Ef in Hna.
        destruct (named_ann_interface _ _ _ _ _ _ _ _ _ _ _ Hl (no_spread_top _ _ Hns) Hsome Hna)
          as [Hab [[Hi [Hx Hr]] | [Hi [Hx Hr]]]].
        + split; [exact Hab|]. exists (fun _ => sc).
          assert (En : names = [base]) by (unfold names, abs_names; rewrite Hl, Hi; reflexivity).
          rewrite En. simpl. split; [exact Hr|]. left. auto.
        + split; [exact Hab|]. exists (fun t => sc +++ t). split; [exact Hr|]. right. exact Hx.
      - rewrite Hl in Hun.
        destruct (named_ann_union _ _ _ _ _ _ _ _ _ _ Hl Hun Hna) as [Hab [Hx Hr]].
        split; [exact Hab|]. exists (fun t => sc +++ t).
        assert (En : names = ms) by (unfold names, abs_names; rewrite Hl; reflexivity).
        rewrite En. split; [exact Hr|]. right. exact Hx. }
    destruct Hshape as [Hab [cname [Hrel Hx]]].
    assert (Hrt' : map r_type (x_related ctx) = names) by (rewrite Hrel, map_map; simpl; apply map_id).
    assert (Hkind' : (exists ifs fs, lookup_type S base = Some (DInterface ifs fs)) \/
                     (exists ms, lookup_type S base = Some (DUnion ms) /\ forallb (is_object S) ms = true)).
    { destruct Hkind as [H | [ms Hl]]; [left; exact H | right]. exists ms. rewrite Hl in Hun. auto. }
    destruct (tv_variant S base sub (x_related ctx) rt Hkind' Hnb Hrt' Hrt) as [Hin0 [Htv0 Huniq]].
    fold names in Hin0, Huniq. fold t0 in Hin0, Htv0, Huniq.
    set (tvs := typename_values S (x_related ctx)) in *.
    change (In rt (tvs t0)) in Htv0.
    (* every related class comes from its own sub-run *)
    assert (Hruns : forall t, In t names -> exists pa qc qp,
               parse_type_def fuel' C S frs pa (cname t) t sub true (fn_mixins f) (Some (tvs t)) = Ok (qc, qp, false) /\
               incl qc exc).
    { intros t Ht.
      assert (Hrc : In {| r_class := cname t; r_type := t |} (x_related ctx))
        by (rewrite Hrel; apply in_map_iff; eauto).
      destruct (subs_run_each _ _ _ _ _ _ _ _ _ _ Hrun eq_refl _ Hrc) as [pa [qc [qp [Hq Hi]]]].
      simpl in Hq. rewrite Hab in Hq. eauto. }
    (* the variant's class validates the object *)
    destruct (Hruns t0 Hin0) as [pa0 [qc0 [qp0 [Hq0 Hi0]]]].
    assert (Hchk : chk Wrec (mro (cname t0)) (JObj kv') = true).
    { eapply (W_class pa0 (cname t0) rt t0 sub true (fn_mixins f) (tvs t0)); eauto.
      eapply table_ok_incl; eauto. }
    destruct Hx as [[Hx Hn1] | Hx]; subst x.
    - rewrite W_cls. exact Hchk.
    - rewrite W_uni. cbn [cls_step].
      (* the response carries __typename = rt *)
      destruct (ok_inv _ _ _ _ Hvar Hns) as [g' [fns0 [Hfl0 [Hkeys0 Hnames0]]]].
      destruct (obj_conf_inv _ _ _ _ _ _ C _ _ _ Hconf Hfl0 Hkeys0) as [Hkv0 Hspec0].
      destruct (has_typename_flatten _ _ _ _ _ _ _ Hht Hfl0) as [ms0 Htn0].
      assert (Hjl : jlookup "__typename" kv' = Some (JStr rt)).
      { rewrite forallb_forall in Hspec0. specialize (Hspec0 _ Htn0). unfold key_spec in Hspec0.
        cbn [field_key fn_alias fn_name fnode_of fn_cond] in Hspec0.
        destruct (jlookup "__typename" kv') as [v|]; [| discriminate Hspec0].
        simpl in Hspec0. destruct v; try discriminate Hspec0. apply String.eqb_eq in Hspec0. congruence. }
      rewrite Hjl.
      (* facts about every alternative's class *)
      assert (Hfacts : forall t, In t names -> exists pfl, mro (cname t) = Some pfl /\
                 forall pf vs, In pf pfl -> p_ann pf = ALit vs -> vs = sort_strings (tvs t)).
      { intros t Ht. destruct (Hruns t Ht) as [pa [qc [qp [Hq Hi]]]]. rewrite Ef in Hq.
        destruct (variant_class_facts _ _ _ _ _ _ _ _ _ _ _ _ _ Hq Hns) as [fields0 [pfl [extra [_ [_ [Eqc Hlit]]]]]].
        exists pfl. split; [| exact Hlit].
        assert (Hc : In {| c_name := cname t; c_bases := "BaseModel" :: fn_mixins f; c_fields := pfl |} exc)
          by (apply Hi; rewrite Eqc; left; reflexivity).
        destruct (Htab _ Hc) as [Hl Hnbm]. apply (mro_ok _ _ Hl Hnbm eq_refl Emix). }
      assert (Hpick : union_pick mro (map (fun t => AClass (cname t)) names) rt = Some (AClass (cname t0))).
      { apply (union_pick_variant mro cname tvs names rt t0 Hin0 Htv0 Huniq Hfacts).
        rewrite Ef in Hq0.
        destruct (variant_class_facts _ _ _ _ _ _ _ _ _ _ _ _ _ Hq0 Hns)
          as [fields0 [pfl0 [extra0 [Hres0 [Hrun0 [Eqc0 Hlit0]]]]]].
        exists pfl0.
        assert (Hc : In {| c_name := cname t0; c_bases := "BaseModel" :: fn_mixins f; c_fields := pfl0 |} exc)
          by (apply Hi0; rewrite Eqc0; left; reflexivity).
        destruct (Htab _ Hc) as [Hl Hnbm]. split; [apply (mro_ok _ _ Hl Hnbm eq_refl Emix)|].
        (* the class's own typename field is the only one called typename__ *)
        pose proof (flatten_resolve_det _ _ _ _ _ _ _ _ _ Hfl0 Hres0) as E. inversion E; subst fields0.
        assert (Hadd : add_typename_field true fns0 = fns0).
        { unfold add_typename_field. simpl.
          assert (Hex : existsb (fun f0 => String.eqb (fn_name f0) "__typename") fns0 = true)
            by (apply existsb_exists; exists (fnode_of None "__typename" false ms0 None); split; [exact Htn0 | reflexivity]).
          rewrite Hex. reflexivity. }
        rewrite Hadd in Hrun0.
        pose proof (fields_run_pf _ _ _ _ _ _ _ _ _ _ _ _ _ _ _ Hrun0) as HF.
        assert (En : map p_name pfl0 = map (fun f0 => py_field_name C (field_key f0)) fns0).
        { eapply Forall2_map_eq; [exact HF|]. intros f0 pf0 [ctx0 Hpf0].
          destruct (field_pf_inv _ _ _ _ _ _ _ _ _ _ _ Hpf0) as [? [? [? [_ [_ Ep]]]]]. subst pf0. reflexivity. }
        assert (Hcovt : cov = true) by exact Hcov.
        assert (Hnd : NoDup (map p_name pfl0)) by (rewrite En; apply Hnames0, Hcovt).
        rewrite (last_wins_nodup _ Hnd).
        destruct (Forall2_In_l _ _ _ _ HF Htn0) as [pft [Hpft [ctxt Hpfpf]]].
        destruct (tvs t0) as [|v0 vs0] eqn:Etv;
          [try rewrite Etv in Htv0; contradiction|].
        destruct (field_pf_typename _ _ _ _ _ _ _ _ (fnode_of None "__typename" false ms0 None) _ _ eq_refl Hpfpf) as [Hat Hnt].
        unfold typename_literal.
        destruct (find (fun f0 => String.eqb (p_name f0) "typename__") pfl0) as [f'|] eqn:Ef'.
        - apply find_some in Ef'. destruct Ef' as [Hf' Hn']. apply String.eqb_eq in Hn'.
          assert (f' = pft).
          { eapply (NoDup_map_inj_in p_name); eauto. rewrite Hn', Hnt. reflexivity. }
          subst f'. rewrite Hat. reflexivity.
        - exfalso. pose proof (find_none _ _ Ef' _ Hpft) as Hno. cbv beta in Hno. rewrite Hnt in Hno.
          discriminate Hno. }
      rewrite Hpick. exact Hchk.
  Qed.

  Lemma field_value cn rt r tv at_ f pf ctx pub0 exc pub1 k v :
    field_ok ok g cov S mx at_ rt r f = true -> tv_ok rt tv ->
    field_pf C S frs fuel' cn r tv at_ f = Ok (pf, ctx) ->
    parse_subs (parse_type_def fuel' C S frs) S ctx f pub0 = Ok (exc, pub1, false) ->
    table_ok cs exc -> Q v -> value_conf rt f k v ->
    W (p_ann pf) v = true.
  Proof.
    intros Hok Htv Hpf Hsub Htab HQ Hv.
    destruct (field_pf_inv _ _ _ _ _ _ _ _ _ _ _ Hpf) as [t [a0 [il [Ht [Ha Hpf']]]]]. subst pf.
    cbn [p_ann mk_pfield].
    unfold field_ok in Hok. apply andb_true_iff in Hok as [Hmix Hok].
    pose proof (harm_mx _ Hmix) as Emix. clear Hmix.
    unfold value_conf in Hv.
    destruct (String.eqb (fn_name f) "__typename") eqn:Etn.
    - apply String.eqb_eq in Etn.
      apply andb_true_iff in Hok as [Hok Hstr]. apply andb_true_iff in Hok as [Hok Hsft].
      apply andb_true_iff in Hok as [Hsub0 Hnc].
      subst v. rewrite Etn in Ht. rewrite Ht in Hsft.
      destruct Htv as [Htv | [tvs [Htv Hin]]]; subst tv.
      + unfold field_ann_lit in Ha.
        destruct t as [| |[s| |]]; try discriminate. apply String.eqb_eq in Hsft. subst s.
        simpl in Ha. unfold named_ann in Ha.
        destruct (lookup_type S "String") as [[]|]; try discriminate. simpl in Ha. inversion Ha; subst.
        apply cond_ann_W. apply W_str.
      + unfold field_ann_lit in Ha. rewrite Etn in Ha. destruct tvs as [|v0 vs0]; [contradiction|].
        rewrite String.eqb_refl in Ha. inversion Ha; subst.
        destruct (true && at_); [unfold cond_ann; exact (W_lit (v0 :: vs0) rt Hin)|].
        apply cond_ann_W. exact (W_lit (v0 :: vs0) rt Hin).
    - assert (Hne : fn_name f <> "__typename") by (apply String.eqb_neq, Etn).
      rewrite Ht in Hok. apply andb_true_iff in Hok as [Hok0 Hok]. apply andb_true_iff in Hok0 as [Hwf Hagree].
      destruct Hv as [ft [Hft Hconf]].
      assert (ft = t).
      { destruct (schema_field_type S rt (fn_name f)) as [t'|] eqn:Et'; [| discriminate Hagree].
        apply gtype_eqb_eq in Hagree. rewrite (field_type_on_schema _ _ _ _ Hne Et') in Hft. congruence. }
      subst ft. clear Hft Hagree.
      set (sc := cn +++ pascal_s (py_field_name C (field_key f))) in *.
      assert (Ha' : exists r0, field_type_ann C S frs fuel' (fn_sub f) t true sc false = Ok r0 /\
                              a0 = fst r0 /\ ctx = snd r0 /\ il = false).
      { unfold field_ann_lit in Ha. rewrite Etn in Ha.
        destruct tv as [[|v0 vs]|]; apply bind_ok in Ha; destruct Ha as [r0 [Hr Ha]];
          inversion Ha; subst; exists r0; auto. }
      destruct Ha' as [r0 [Hr [E1 [E2 E3]]]]. subst a0 ctx il. clear Ha.
      destruct (field_type_ann_image C S frs fuel' (fn_sub f) sc t true r0 Hwf Hr) as [img [Himg [Hfst _]]].
      simpl in Hfst. apply cond_ann_W. rewrite Hfst.
      unfold conf_val in Hconf. apply conf_val_wrapP in Hconf. apply (wrapP_Q _ _ _ HQ) in Hconf.
      unfold image in Himg.
      apply (wrapP_W W W_opt W_list _ t img v _ Hwf Himg Hconf).
      intros x j' Hleaf [HQj [Hnn [k' Hc]]].
      destruct (field_type_ann_ctx _ _ _ _ _ _ _ _ _ Hr) as [a1 Hctx].
      unfold leaf_ann in Hleaf.
      destruct (named_ann C S frs fuel' (fn_sub f) (base_name t) false sc false) as [[x' ctx']|] eqn:Hna;
        [| discriminate Hleaf].
      inversion Hleaf; subst x'. inversion Hctx; subst a1 ctx'. clear Hleaf Hctx.
      cbn [conf_val_gen] in Hc.
      destruct (lookup_type S (base_name t)) as [[| vs | ifs fs | ifs fs | ms |]|] eqn:El;
        destruct (fn_sub f) as [sub|] eqn:Esub; try discriminate Hok.
      + (* scalar *)
        unfold named_ann in Hna. rewrite El in Hna.
        destruct (scalar_ann C (base_name t) false) as [sa sctx] eqn:Esc. inversion Hna; subst x.
        replace sa with (fst (scalar_ann C (base_name t) false)) by (rewrite Esc; reflexivity).
        apply W_scalar; [| exact Hnn]. destruct j'; try exact Hc. congruence.
      + (* enum *)
        unfold named_ann in Hna. rewrite El in Hna.
        inversion Hna; subst x. apply (W_enum _ vs); [exact El|]. destruct j'; try exact Hc. congruence.
      + (* object *)
        unfold named_ann in Hna. rewrite El in Hna.
        unfold object_ann in Hna. simpl in Hna. inversion Hna as [[Ex Ec]]; subst x; clear Hna.
        destruct j' as [| | | | | |kv']; try discriminate Hc; [congruence|].
        apply parse_subs_inv in Hsub. destruct Hsub as [[Hn _] | [sub' [Hs Hrun]]]; [congruence|].
        rewrite Esub in Hs. inversion Hs; subst sub'; clear Hs.
        rewrite <- Ec in Hrun. simpl in Hrun.
        inversion Hrun as [| rc rcs pb qc qp qs cls pb' sk Hq Hrest]; subst.
        inversion Hrest; subst. simpl in Hq.
        match goal with H : _ || _ = false |- _ => apply orb_false_elim in H as [Hqs _] end. subst qs.
        rewrite (typename_values_object S _ (base_name t)) in Hq;
          [| unfold is_object; rewrite El; reflexivity | reflexivity].
        rewrite W_cls. cbn [cls_step].
        eapply (W_class _ _ (base_name t) (base_name t) _ _ (fn_mixins f)); eauto.
        * left; reflexivity.
        * discriminate.
        * eapply table_ok_incl; [exact Htab|]. rewrite app_nil_r. apply incl_refl.
        * unfold sub_scopes in Hc. simpl in Hc. rewrite Esub in Hc. simpl in Hc.
          rewrite andb_false_r in Hc. exact Hc.
      + (* interface *)
        destruct j' as [| | | | | |kv']; try discriminate Hc; [congruence|].
        apply parse_subs_inv in Hsub. destruct Hsub as [[Hn _] | [sub' [Hs Hrun]]]; [congruence|].
        rewrite Esub in Hs. inversion Hs; subst sub'; clear Hs.
        eapply (abstract_value (base_name t) sub f sc); eauto.
        unfold sub_scopes in Hc. simpl in Hc. rewrite Esub in Hc. simpl in Hc.
        rewrite andb_false_r in Hc. exact Hc.
      + (* union *)
        destruct j' as [| | | | | |kv']; try discriminate Hc; [congruence|].
        apply parse_subs_inv in Hsub. destruct Hsub as [[Hn _] | [sub' [Hs Hrun]]]; [congruence|].
        rewrite Esub in Hs. inversion Hs; subst sub'; clear Hs.
        eapply (abstract_value (base_name t) sub f sc); eauto.
        unfold sub_scopes in Hc. simpl in Hc. rewrite Esub in Hc. simpl in Hc.
        rewrite andb_false_r in Hc. exact Hc.
  Qed.

  Lemma key_spec_value tn kv f k v :
    key_spec (conf_val k S frs) S tn kv f = true -> jlookup (field_key f) kv = Some v -> value_conf tn f k v.
  Proof.
    unfold key_spec, value_conf. intros H E. rewrite E in H.
    destruct (String.eqb (fn_name f) "__typename").
    - destruct v; try discriminate. apply String.eqb_eq in H. congruence.
    - destruct (field_type_on S tn (fn_name f)) as [ft|]; [| discriminate]. eauto.
  Qed.

  (* everything one level of the run gives about each generated field *)
  Definition field_facts (kv : list (string * json)) (f : fnode) (pf : pfield) : Prop :=
    field_key_of pf = field_key f /\ p_name pf = py_field_name C (field_key f) /\
    field_check W kv pf = true /\
    (forall v, jlookup (field_key f) kv = Some v -> W (p_ann pf) v = true).

  Lemma level_facts cn rt r tv at_ fns pub pfl extra pub' k kv (K : list string) :
    fields_run (parse_type_def fuel' C S frs) C S frs fuel' cn r tv at_ fns pub pfl extra pub' false ->
    forallb (field_ok ok g cov S mx at_ rt r) fns = true ->
    (* K: the response keys of the whole object (own fields and, with mixins, the base classes') *)
    (forall f, In f fns -> String.eqb (py_field_name C (field_key f)) (field_key f)
                           || negb (mem (py_field_name C (field_key f)) K) = true) ->
    tv_ok rt tv -> table_ok cs extra ->
    (forall p, In p kv -> In (fst p) K) ->
    forallb (key_spec (conf_val k S frs) S rt kv) fns = true ->
    (forall p, In p kv -> Q (snd p)) ->
    Forall2 (field_facts kv) fns pfl.
  Proof.
    intros Hrun Hok Hkeys Htv Htab Hkv Hspec HQ.
    eapply fields_run_Forall; [exact Hrun|].
    intros f pf ctx exc pub0 pub1 Hin Hpf Hsub Hincl.
    rewrite forallb_forall in Hok, Hspec. specialize (Hok f Hin). specialize (Hspec f Hin).
    assert (Hval : forall v, jlookup (field_key f) kv = Some v -> W (p_ann pf) v = true).
    { intros v Ev. eapply field_value; eauto.
      - eapply table_ok_incl; eauto.
      - apply jlookup_In in Ev. apply (HQ _ Ev).
      - eapply key_spec_value; eauto. }
    destruct (field_pf_inv _ _ _ _ _ _ _ _ _ _ _ Hpf) as [t [a0 [il [Ht [Ha Hpf']]]]].
    assert (Hk : field_key_of pf = field_key f) by (subst pf; apply mk_pfield_key).
    split; [exact Hk|]. split; [subst pf; reflexivity|]. split; [| exact Hval].
    unfold field_check. rewrite Hk. destruct (jlookup (field_key f) kv) as [v|] eqn:Ev; [apply Hval; reflexivity|].
    assert (Hc : fn_cond f = true) by (unfold key_spec in Hspec; rewrite Ev in Hspec; exact Hspec).
    assert (Hal : match p_alias pf with Some _ => jlookup (p_name pf) kv | None => None end = None).
    { subst pf. cbn [p_alias p_name mk_pfield].
      destruct (String.eqb (py_field_name C (field_key f)) (field_key f)) eqn:E; [reflexivity|].
      apply jlookup_None_notin. intro Hm. apply in_map_iff in Hm. destruct Hm as [p [Hp1 Hp2]].
      apply Hkv in Hp2. rewrite Hp1 in Hp2.
      specialize (Hkeys f Hin).
      rewrite E in Hkeys. simpl in Hkeys. apply negb_true_iff, mem_false_In in Hkeys. contradiction. }
    rewrite Hal. subst pf. cbn [p_default_none mk_pfield]. rewrite Hc, andb_true_r.
    (* the typename literal is never conditional *)
    destruct il; [| reflexivity]. destruct at_ eqn:Eat; [| reflexivity]. exfalso.
    unfold field_ann_lit in Ha.
    assert (Hlit : fn_name f = "__typename" /\ exists v vs, tv = Some (v :: vs)).
    { destruct tv as [[|v0 vs]|].
      - apply bind_ok in Ha. destruct Ha as [r0 [_ Ha]]. inversion Ha.
      - destruct (String.eqb (fn_name f) "__typename") eqn:E.
        + apply String.eqb_eq in E. eauto.
        + apply bind_ok in Ha. destruct Ha as [r0 [_ Ha]]. inversion Ha.
      - apply bind_ok in Ha. destruct Ha as [r0 [_ Ha]]. inversion Ha. }
    destruct Hlit as [Hn [v0 [vs Etv]]].
    unfold field_ok in Hok. rewrite Hn in Hok. simpl in Hok. rewrite Hc in Hok.
    destruct (forallb (fun b => mem b mx) (fn_mixins f)); simpl in Hok; [| discriminate].
    destruct (fn_sub f); simpl in Hok; discriminate.
  Qed.

  Lemma level_accepts kv fns pfl :
    Forall2 (field_facts kv) fns pfl -> class_accepts W (Some pfl) (JObj kv) = true.
  Proof.
    intro H. rewrite class_accepts_check. apply forallb_forall. intros pf Hpf. apply last_wins_In in Hpf.
    assert (HF : Forall (fun pf => field_check W kv pf = true) pfl).
    { eapply Forall2_right; [exact H|]. intros x y [_ [_ [Hc _]]]. exact Hc. }
    rewrite Forall_forall in HF. apply HF, Hpf.
  Qed.

  Lemma level_covers kv fns pfl :
    Forall2 (field_facts kv) fns pfl ->
    NoDup (map field_key fns) -> NoDup (map (fun f => py_field_name C (field_key f)) fns) ->
    NoDup (map fst kv) -> (forall p, In p kv -> In (fst p) (map field_key fns)) ->
    class_covers W (Some pfl) (JObj kv) = true.
  Proof.
    intros H Hnk Hnn Hkv Hin. unfold class_covers.
    assert (Ek : map field_key_of pfl = map field_key fns).
    { eapply Forall2_map_eq; [exact H|]. intros x y [E _]. exact E. }
    assert (En : map p_name pfl = map (fun f => py_field_name C (field_key f)) fns).
    { eapply Forall2_map_eq; [exact H|]. intros x y [_ [E _]]. exact E. }
    rewrite last_wins_nodup by (rewrite En; exact Hnn).
    apply forallb_forall. intros [k0 v] Hp. cbn [fst snd].
    specialize (Hin _ Hp). cbn [fst] in Hin. apply in_map_iff in Hin. destruct Hin as [f [Hf1 Hf2]].
    destruct (Forall2_In_l _ _ _ _ H Hf2) as [pf [Hpf [Hk [_ [_ Hv]]]]].
    rewrite <- Hf1, <- Hk. rewrite find_key_nodup; [| rewrite Ek; exact Hnk | exact Hpf].
    apply Hv. rewrite Hf1.
    (* the first binding of k0 is this one *)
    clear - Hkv Hp. induction kv as [|[k1 v1] r IH]; [contradiction|]. simpl in *.
    inversion Hkv; subst. destruct Hp as [E | Hp].
    - inversion E; subst. rewrite String.eqb_refl. reflexivity.
    - rewrite eqb_neq_false; [apply IH; auto|]. intro E. subst. apply H1.
      change k1 with (fst (k1, v)). apply in_map, Hp.
  Qed.
End Level.

(* ------------------------------------------------------------------------------------------- *)
(* Main induction: acceptance                                                                    *)

(* one level of the generator on a guarded selection set *)
Lemma level_inv C S frs fuel pub cn rt r sels at_ eb tv out pub' g cov mx :
  parse_type_def (Datatypes.S fuel) C S frs pub cn r sels at_ eb tv = Ok (out, pub', false) ->
  sels_ok g cov C S frs mx at_ rt r sels = true ->
  (at_ = true -> has_typename sels = true) ->
  exists f2 g' fns pfl extra,
    fuel = Datatypes.S f2 /\ g = Datatypes.S g' /\ flatten g' S frs rt r sels = Some fns /\
    fields_run (parse_type_def fuel C S frs) C S frs fuel cn r tv at_ fns (pub ++ [cn]) pfl extra pub' false /\
    out = {| c_name := cn; c_bases := "BaseModel" :: eb; c_fields := pfl |} :: extra.
Proof.
  intros H Hok Hat. simpl in H. apply body_inv in H.
  destruct H as [[_ [_ [_ H]]] | [M [fields0 [mixins [pfl [extra [Hres [Hrun [kept [Hk Hout]]]]]]]]]];
    [discriminate|].
  destruct (resolve_ok_fuel _ _ _ _ _ _ _ Hres) as [f2 Ef]. subst fuel.
  destruct (sels_ok_inv _ _ _ _ _ _ _ _ _ _ Hok) as [g' [fns [Eg [Hfl _]]]].
  pose proof (flatten_resolve_det _ _ _ _ _ _ _ _ _ Hfl Hres) as E. inversion E; subst fields0 mixins.
  assert (Hadd : add_typename_field at_ fns = fns).
  { unfold add_typename_field. destruct at_; [| reflexivity].
    destruct (has_typename_flatten _ _ _ _ _ _ _ (Hat eq_refl) Hfl) as [ms0 Htn0].
    assert (Hex : existsb (fun f0 => String.eqb (fn_name f0) "__typename") fns = true)
      by (apply existsb_exists; exists (fnode_of None "__typename" false ms0 None); split; [exact Htn0 | reflexivity]).
    rewrite Hex. reflexivity. }
  rewrite Hadd in Hrun.
  exists f2, g', fns, pfl, extra. repeat split; auto.
Qed.

Theorem obj_accepts C S frs : forall fuel g cov mx pub cn rt r sels at_ eb tv out pub' cs fc kv n,
  parse_type_def fuel C S frs pub cn r sels at_ eb tv = Ok (out, pub', false) ->
  sels_ok g cov C S frs mx at_ rt r sels = true -> tv_ok rt tv ->
  (at_ = true -> has_typename sels = true) -> table_ok cs out ->
  mx_ok cs mx = true -> harmless cs eb ->
  obj_conf fc S frs rt sels kv = true ->
  n >= fuel + 2 ->
  accepts n cs (schema_enums S) (AClass cn) (JObj kv) = true.
Proof.
  induction fuel as [|fuel IH];
    intros g cov mx pub cn rt r sels at_ eb tv out pub' cs fc kv n Hp Hok Htv Hat Htab Hmx Heb Hc Hn;
    [discriminate Hp|].
  destruct (level_inv _ _ _ _ _ _ _ _ _ _ _ _ _ _ _ _ _ Hp Hok Hat)
    as [f2 [g' [fns [pfl [extra [Ef [Eg [Hfl [Hrun Hout]]]]]]]]].
  destruct (sels_ok_inv _ _ _ _ _ _ _ _ _ _ Hok) as [g'' [fns' [Eg' [Hfl' [Hkeys [_ Hfields]]]]]].
  rewrite Eg in Eg'. inversion Eg'; subst g''. clear Eg'.
  rewrite Hfl in Hfl'. inversion Hfl'; subst fns'. clear Hfl'.
  apply keys_okG_D in Hkeys.
  destruct (obj_conf_inv _ _ _ _ _ _ C _ _ _ Hc Hfl Hkeys) as [Hkv Hspec].
  destruct n as [|[|[|[|n3]]]]; try lia.
  set (n1 := Datatypes.S (Datatypes.S n3)). set (n' := Datatypes.S n1).
  assert (Hc0 : In {| c_name := cn; c_bases := "BaseModel" :: eb; c_fields := pfl |} out)
    by (rewrite Hout; left; reflexivity).
  destruct (Htab _ Hc0) as [Hl Hnb]. simpl in Hl, Hnb.
  change (class_accepts (accepts n' cs (schema_enums S)) (mro_fields n' cs cn) (JObj kv) = true).
  unfold n', n1. rewrite (mro_harmless cs cn _ (Datatypes.S n3) eb Hl eq_refl Hnb Heb). simpl c_fields.
  fold n1.
  eapply (level_accepts C (accepts (Datatypes.S n1) cs (schema_enums S))).
  eapply (level_facts C S frs fuel g' cov cs (accepts (Datatypes.S n1) cs (schema_enums S)) (fun _ => True)
                      class_accepts (accepts n1 cs (schema_enums S)) (mro_fields n1 cs)
                      (sels_ok g' cov C S frs mx) mx (harmless cs) (fun eb0 => mx_ok_harmless cs mx eb0 Hmx)
                      (sels_ok_ok_inv g' cov C S frs mx))
    with (K := map field_key fns);
    try eassumption; try reflexivity; auto.
  - intros m j H1 H2. apply (scalar_leaf_accepts C S); auto.
  - intros m vs j H1 H2. eapply enum_leaf_accepts; eauto.
  - intros tvs s Hs. simpl. apply mem_In. apply (proj2 (sort_strings_In _ _)), Hs.
  - intros c eb0 Hlc Hnc Hbc Hh. unfold n1. eapply mro_harmless; eauto.
  - eauto.
  - intros pb cn2 rt2 r2 sels2 at2 eb2 tvs out2 pub2 fc2 kv2 P0 P1 P2 P3 P4 P5 P6 _.
    change (accepts (Datatypes.S n1) cs (schema_enums S) (AClass cn2) (JObj kv2) = true).
    eapply IH; eauto.
    + right. eauto.
    + unfold n1. lia.
  - apply keys_ok_forall, Hkeys.
  - eapply table_ok_incl; [exact Htab|]. rewrite Hout. apply incl_tl, incl_refl.
Qed.

(* ------------------------------------------------------------------------------------------- *)
(* Main induction: preservation (key coverage)                                                   *)

(* no object of the payload has two members with the same key (true of every parsed response) *)
Fixpoint jwf (j : json) : bool :=
  match j with
  | JArr l => forallb jwf l
  | JObj kv => nodupb (map fst kv) && forallb (fun p => jwf (snd p)) kv
  | _ => true
  end.

Lemma scalar_ann_cov C clscov n j : cov_ann clscov (fst (scalar_ann C n false)) j = true.
Proof.
  unfold scalar_ann, simple_type.
  repeat match goal with |- context [if ?b then _ else _] => destruct b; [reflexivity|] end.
  destruct (find _ (cf_scalars C)); reflexivity.
Qed.

Theorem obj_covers C S frs : forall fuel g mx pub cn rt r sels at_ eb tv out pub' cs fc kv n,
  parse_type_def fuel C S frs pub cn r sels at_ eb tv = Ok (out, pub', false) ->
  sels_ok g true C S frs mx at_ rt r sels = true -> tv_ok rt tv ->
  (at_ = true -> has_typename sels = true) -> table_ok cs out ->
  mx_ok cs mx = true -> harmless cs eb ->
  obj_conf fc S frs rt sels kv = true -> jwf (JObj kv) = true ->
  n >= fuel + 2 ->
  covers n cs (AClass cn) (JObj kv) = true.
Proof.
  induction fuel as [|fuel IH];
    intros g mx pub cn rt r sels at_ eb tv out pub' cs fc kv n Hp Hok Htv Hat Htab Hmx Heb Hc Hwf Hn;
    [discriminate Hp|].
  destruct (level_inv _ _ _ _ _ _ _ _ _ _ _ _ _ _ _ _ _ Hp Hok Hat)
    as [f2 [g' [fns [pfl [extra [Ef [Eg [Hfl [Hrun Hout]]]]]]]]].
  destruct (sels_ok_inv _ _ _ _ _ _ _ _ _ _ Hok) as [g'' [fns' [Eg' [Hfl' [Hkeys [Hnames Hfields]]]]]].
  rewrite Eg in Eg'. inversion Eg'; subst g''. clear Eg'.
  rewrite Hfl in Hfl'. inversion Hfl'; subst fns'. clear Hfl'.
  cbn [keys_okG] in Hkeys. pose proof (keys_ok_D _ _ Hkeys) as HkeysD.
  destruct (obj_conf_inv _ _ _ _ _ _ C _ _ _ Hc Hfl HkeysD) as [Hkv Hspec].
  destruct n as [|[|[|[|n3]]]]; try lia.
  set (n1 := Datatypes.S (Datatypes.S n3)). set (n' := Datatypes.S n1).
  assert (Hc0 : In {| c_name := cn; c_bases := "BaseModel" :: eb; c_fields := pfl |} out)
    by (rewrite Hout; left; reflexivity).
  destruct (Htab _ Hc0) as [Hl Hnb]. simpl in Hl, Hnb.
  change (class_covers (covers n' cs) (mro_fields n' cs cn) (JObj kv) = true).
  unfold n', n1. rewrite (mro_harmless cs cn _ (Datatypes.S n3) eb Hl eq_refl Hnb Heb). simpl c_fields.
  fold n1.
  simpl in Hwf. apply andb_true_iff in Hwf as [Hnd Hmem]. rewrite forallb_forall in Hmem.
  eapply (level_covers C (covers (Datatypes.S n1) cs)); eauto.
  - eapply (level_facts C S frs fuel g' true cs (covers (Datatypes.S n1) cs) (fun j => jwf j = true)
                        class_covers (covers n1 cs) (mro_fields n1 cs)
                        (sels_ok g' true C S frs mx) mx (harmless cs) (fun eb0 => mx_ok_harmless cs mx eb0 Hmx)
                        (sels_ok_ok_inv g' true C S frs mx))
      with (K := map field_key fns);
      try eassumption; try reflexivity; auto.
    + intros l Hl' x Hx. simpl in Hl'. rewrite forallb_forall in Hl'. apply Hl', Hx.
    + intros m j _ _. apply scalar_ann_cov.
    + intros c eb0 Hlc Hnc Hbc Hh. unfold n1. eapply mro_harmless; eauto.
    + eauto.
    + intros pb cn2 rt2 r2 sels2 at2 eb2 tvs out2 pub2 fc2 kv2 P0 P1 P2 P3 P4 P5 P6 P7.
      change (covers (Datatypes.S n1) cs (AClass cn2) (JObj kv2) = true).
      eapply IH; eauto.
      * right. eauto.
      * unfold n1. lia.
    + apply keys_ok_forall, HkeysD.
    + eapply table_ok_incl; [exact Htab|]. rewrite Hout. apply incl_tl, incl_refl.
  - eapply keys_ok_nodup; eauto.
  - apply nodupb_NoDup, Hnd.
Qed.

(* ------------------------------------------------------------------------------------------- *)
(* Operation level                                                                              *)

(* the guard on the input of an operation: the root is an object type, the selection set is in the
   sub-language; [cov] adds pairwise distinct Python field names *)
(* mx: the @mixin names used on the operation (mixins) and on its fields *)
Definition op_ok (g : nat) (cov : bool) (C : cfg) (S : schema) (frs : list fragdef) (mx mixins : list string)
           (root : string) (sels : list sel) : bool :=
  is_object S root && forallb (fun b => mem b mx) mixins && sels_ok g cov C S frs mx false root root sels.

Lemma conf_op_obj fc S frs root sels j :
  is_object S root = true -> conf_op fc S frs root sels j = true ->
  exists kv k, j = JObj kv /\ obj_conf k S frs root sels kv = true.
Proof.
  unfold is_object, conf_op, conf_op_gen, conf_val. intros Ho H.
  destruct fc as [|[|k]]; try (destruct j; simpl in H; discriminate H).
  assert (H' : conf_val_gen leaf_conf false false (Datatypes.S k) S frs (TNamed root) [(false, sels)] j = true /\
               j <> JNull)
    by (destruct j; try discriminate H; split; try exact H; discriminate).
  clear H. destruct H' as [H' Hn]. cbn [conf_val_gen] in H'.
  destruct (lookup_type S root) as [[]|]; try discriminate Ho.
  destruct j as [| | | | | |kv]; try discriminate H'; [congruence|].
  exists kv, k. split; [reflexivity | exact H'].
Qed.

Lemma all_classes_prefix fuel C S frs d cls :
  all_classes fuel C S frs d = Ok cls ->
  exists own rest, result_classes fuel C S frs d = Ok own /\ cls = own ++ rest.
Proof.
  unfold all_classes. intro H. apply bind_ok in H. destruct H as [own [Ho H]].
  exists own. 
  assert (G : forall l l0 r, fold_left (fun acc f => l <- acc ;; c <- result_classes fuel C S frs (DFrag f) ;; Ok (l ++ c))
                               l (Ok l0) = Ok r -> exists rest, r = l0 ++ rest).
  { induction l as [|f l IH]; intros l0 r Hf; cbn [fold_left] in Hf.
    - inversion Hf. exists []. rewrite app_nil_r. reflexivity.
    - destruct (result_classes fuel C S frs (DFrag f)) as [c|m]; cbn [bind] in Hf.
      + apply IH in Hf. destruct Hf as [rest Hr]. exists (c ++ rest). rewrite app_assoc. exact Hr.
      + exfalso. clear - Hf. induction l; cbn [fold_left bind] in Hf; [discriminate | auto]. }
  destruct (G _ _ _ H) as [rest Hr]. exists rest. auto.
Qed.

Lemma op_table fuel C S frs kind name mixins sels own pub' cls :
  op_parse fuel C S frs kind name mixins sels = Ok (own, pub', false) ->
  all_classes fuel C S frs (DOp kind name mixins sels) = Ok cls ->
  no_basemodel own = true -> table_ok cls own.
Proof.
  intros Hop Hall Hnb.
  destruct (all_classes_prefix _ _ _ _ _ _ Hall) as [own' [rest [Hr Hc]]].
  simpl in Hr. rewrite Hop in Hr. simpl in Hr. inversion Hr; subst own' cls.
  unfold op_parse in Hop. apply bind_ok in Hop. destruct Hop as [root [_ Hp]].
  intros c Hin. split.
  - eapply ptd_table; eauto.
  - unfold no_basemodel in Hnb. rewrite forallb_forall in Hnb. specialize (Hnb c Hin).
    apply negb_true_iff, String.eqb_neq in Hnb. exact Hnb.
Qed.

Theorem op_accepts C S frs fuel kind name mixins sels root own pub' cls g cov mx fc j n :
  root_type_name S kind = Ok root ->
  op_parse fuel C S frs kind name mixins sels = Ok (own, pub', false) ->
  all_classes fuel C S frs (DOp kind name mixins sels) = Ok cls ->
  op_ok g cov C S frs mx mixins root sels = true -> mx_ok cls mx = true -> no_basemodel own = true ->
  conf_op fc S frs root sels j = true ->
  n >= fuel + 2 ->
  accepts n cls (schema_enums S) (AClass (pascal_s name)) j = true.
Proof.
  intros Hroot Hop Hall Hok Hmx Hnb Hconf Hn.
  pose proof (op_table _ _ _ _ _ _ _ _ _ _ _ Hop Hall Hnb) as Htab.
  unfold op_ok in Hok. apply andb_true_iff in Hok as [Hobj Hsels]. apply andb_true_iff in Hobj as [Hobj Hmix].
  pose proof (mx_ok_harmless _ _ _ Hmx Hmix) as Hharm.
  destruct (conf_op_obj _ _ _ _ _ _ Hobj Hconf) as [kv [k [Ej Hc]]]. subst j.
  unfold op_parse in Hop. rewrite Hroot in Hop. simpl in Hop.
  eapply obj_accepts; eauto; [left; reflexivity | discriminate].
Qed.

Theorem op_covers C S frs fuel kind name mixins sels root own pub' cls g mx fc j n :
  root_type_name S kind = Ok root ->
  op_parse fuel C S frs kind name mixins sels = Ok (own, pub', false) ->
  all_classes fuel C S frs (DOp kind name mixins sels) = Ok cls ->
  op_ok g true C S frs mx mixins root sels = true -> mx_ok cls mx = true -> no_basemodel own = true ->
  conf_op fc S frs root sels j = true -> jwf j = true ->
  n >= fuel + 2 ->
  covers n cls (AClass (pascal_s name)) j = true.
Proof.
  intros Hroot Hop Hall Hok Hmx Hnb Hconf Hwf Hn.
  pose proof (op_table _ _ _ _ _ _ _ _ _ _ _ Hop Hall Hnb) as Htab.
  unfold op_ok in Hok. apply andb_true_iff in Hok as [Hobj Hsels]. apply andb_true_iff in Hobj as [Hobj Hmix].
  pose proof (mx_ok_harmless _ _ _ Hmx Hmix) as Hharm.
  destruct (conf_op_obj _ _ _ _ _ _ Hobj Hconf) as [kv [k [Ej Hc]]]. subst j.
  unfold op_parse in Hop. rewrite Hroot in Hop. simpl in Hop.
  eapply obj_covers; eauto; [left; reflexivity | discriminate].
Qed.
