(* sel_enums (Model/PruneDoc.v) computes exactly the enums reachable from a selection set. *)
From Coq Require Import List String Bool Arith Lia.
From AC Require Import Base.Sexp Gql.Schema Model.Prune Model.PruneDoc.
Import ListNotations.

Definition cond_parent (tc : option string) (parent : string) : string :=
  match tc with Some t => t | None => parent end.

(* e is the type of an enum-typed field selected below `parent`, directly, in a sub-selection, through a fragment
   spread or through an inline fragment *)
Inductive reaches (S : schema) (frs : list fragdef) : string -> list sel -> string -> Prop :=
| re_field parent sels al n c ms sub nt :
    In (SField al n c ms sub) sels -> String.eqb n typename = false ->
    field_named S parent n = Some nt -> is_enum S nt = true -> reaches S frs parent sels nt
| re_sub parent sels al n c ms ss nt e :
    In (SField al n c ms (Some ss)) sels -> String.eqb n typename = false ->
    field_named S parent n = Some nt -> reaches S frs nt ss e -> reaches S frs parent sels e
| re_spread parent sels n c fd e :
    In (SSpread n c) sels -> lookup_frag frs n = Some fd ->
    reaches S frs (fr_on fd) (fr_sel fd) e -> reaches S frs parent sels e
| re_inline parent sels tc c sub e :
    In (SInline tc c sub) sels -> reaches S frs (cond_parent tc parent) sub e -> reaches S frs parent sels e.

Lemma reaches_cons S frs parent s rest e : reaches S frs parent rest e -> reaches S frs parent (s :: rest) e.
Proof.
  intro H. destruct H.
  - eapply re_field; eauto. right; eassumption.
  - eapply re_sub; eauto. right; eassumption.
  - eapply re_spread; eauto. right; eassumption.
  - eapply re_inline; eauto. right; eassumption.
Qed.

(* soundness: everything the walk returns is reachable *)
Lemma sel_walk_sound S frs : forall fuel parent sels es fs,
  sel_walk fuel S frs parent sels = Some (es, fs) -> forall e, In e es -> reaches S frs parent sels e.
Proof.
  induction fuel as [|f IH]; intros parent sels es fs H e He; [discriminate|].
  simpl in H. destruct sels as [|s rest]; [inversion H; subst; destruct He|].
  match type of H with match ?r1 with _ => _ end = _ => destruct r1 as [[e1 f1]|] eqn:E1; [|discriminate] end.
  destruct (sel_walk f S frs parent rest) as [[e2 f2]|] eqn:E2; [|discriminate].
  inversion H; subst. apply in_app_or in He. destruct He as [He|He]; [|apply reaches_cons; eapply IH; eassumption].
  destruct s as [al n c ms sub|n c|tc c sub].
  - destruct (String.eqb n typename) eqn:Et; [inversion E1; subst; destruct He|].
    destruct (field_named S parent n) as [nt|] eqn:Ef; [|inversion E1; subst; destruct He].
    destruct sub as [ss|].
    + destruct (sel_walk f S frs nt ss) as [[es' fs']|] eqn:Es; [|discriminate]. inversion E1; subst.
      apply in_app_or in He. destruct He as [He|He].
      * destruct (is_enum S nt) eqn:Ee; [|destruct He]. destruct He as [<-|[]].
        eapply re_field; [left; reflexivity | exact Et | exact Ef | exact Ee].
      * eapply re_sub; [left; reflexivity | exact Et | exact Ef | eapply IH; eassumption].
    + inversion E1; subst. rewrite app_nil_r in He.
      destruct (is_enum S nt) eqn:Ee; [|destruct He]. destruct He as [<-|[]].
      eapply re_field; [left; reflexivity | exact Et | exact Ef | exact Ee].
  - destruct (lookup_frag frs n) as [fd|] eqn:El; [|inversion E1; subst; destruct He].
    destruct (sel_walk f S frs (fr_on fd) (fr_sel fd)) as [[es' fs']|] eqn:Es; [|discriminate]. inversion E1; subst.
    eapply re_spread; [left; reflexivity | exact El | eapply IH; eassumption].
  - eapply re_inline; [left; reflexivity | eapply IH; eassumption].
Qed.

(* completeness: everything reachable is returned, whenever the walk returns at all *)
Lemma sel_walk_complete S frs : forall fuel parent sels es fs,
  sel_walk fuel S frs parent sels = Some (es, fs) -> forall e, reaches S frs parent sels e -> In e es.
Proof.
  induction fuel as [|f IH]; intros parent sels es fs H e Hr; [discriminate|].
  simpl in H. destruct sels as [|s rest].
  - inversion Hr; subst; match goal with Hin : In _ [] |- _ => destruct Hin end.
  - match type of H with match ?r1 with _ => _ end = _ => destruct r1 as [[e1 f1]|] eqn:E1; [|discriminate] end.
    destruct (sel_walk f S frs parent rest) as [[e2 f2]|] eqn:E2; [|discriminate].
    inversion H; subst. apply in_or_app.
    (* the first selection responsible for e is the head, or lies in the rest *)
    assert (Hsplit : (exists s0, s0 = s /\
                        ((exists al n c ms sub nt, s0 = SField al n c ms sub /\ String.eqb n typename = false /\
                             field_named S parent n = Some nt /\
                             ((is_enum S nt = true /\ e = nt) \/ exists ss, sub = Some ss /\ reaches S frs nt ss e)) \/
                         (exists n c fd, s0 = SSpread n c /\ lookup_frag frs n = Some fd /\
                             reaches S frs (fr_on fd) (fr_sel fd) e) \/
                         (exists tc c sub, s0 = SInline tc c sub /\ reaches S frs (cond_parent tc parent) sub e)))
                     \/ reaches S frs parent rest e).
    { inversion Hr; subst.
      - match goal with Hin : In _ (s :: rest) |- _ => destruct Hin as [Hin|Hin] end.
        + left. exists s. split; [reflexivity|]. left. subst s. do 6 eexists. split; [reflexivity|].
          split; [eassumption|]. split; [eassumption|]. left. split; [assumption | reflexivity].
        + right. eapply re_field; eauto.
      - match goal with Hin : In _ (s :: rest) |- _ => destruct Hin as [Hin|Hin] end.
        + left. exists s. split; [reflexivity|]. left. subst s. do 6 eexists. split; [reflexivity|].
          split; [eassumption|]. split; [eassumption|]. right. eexists. split; [reflexivity | eassumption].
        + right. eapply re_sub; eauto.
      - match goal with Hin : In _ (s :: rest) |- _ => destruct Hin as [Hin|Hin] end.
        + left. exists s. split; [reflexivity|]. right. left. subst s. do 3 eexists. split; [reflexivity|].
          split; eassumption.
        + right. eapply re_spread; eauto.
      - match goal with Hin : In _ (s :: rest) |- _ => destruct Hin as [Hin|Hin] end.
        + left. exists s. split; [reflexivity|]. right. right. subst s. do 3 eexists. split; [reflexivity | eassumption].
        + right. eapply re_inline; eauto. }
    destruct Hsplit as [[s0 [-> Hhead]]|Hrest]; [|right; eapply IH; eassumption]. left.
    destruct Hhead as [[al [n [c [ms [sub [nt [-> [Et [Ef Hc]]]]]]]]]|[[n [c [fd [-> [El Hc]]]]]|[tc [c [sub [-> Hc]]]]]].
    + rewrite Et, Ef in E1. destruct sub as [ss|].
      * destruct (sel_walk f S frs nt ss) as [[es' fs']|] eqn:Es; [|discriminate]. inversion E1; subst.
        apply in_or_app. destruct Hc as [[Hen ->]|[ss' [Hs Hc]]].
        -- left. rewrite Hen. left. reflexivity.
        -- inversion Hs; subst. right. eapply IH; eassumption.
      * inversion E1; subst. rewrite app_nil_r. destruct Hc as [[Hen ->]|[ss' [Hs _]]]; [|discriminate].
        rewrite Hen. left. reflexivity.
    + rewrite El in E1. destruct (sel_walk f S frs (fr_on fd) (fr_sel fd)) as [[es' fs']|] eqn:Es; [|discriminate].
      inversion E1; subst. eapply IH; eassumption.
    + eapply IH; eassumption.
Qed.

Theorem sel_enums_is_reachability S frs fuel parent sels l :
  sel_enums fuel S frs parent sels = Some l -> forall e, In e l <-> reaches S frs parent sels e.
Proof.
  unfold sel_enums. destruct (sel_walk fuel S frs parent sels) as [[es fs]|] eqn:E; [|discriminate].
  intro H. inversion H; subst. intro e. split; [eapply sel_walk_sound; eassumption | eapply sel_walk_complete; eassumption].
Qed.

(* every enum the walk returns IS an enum type of the schema *)
Lemma reaches_is_enum S frs parent sels e : reaches S frs parent sels e -> is_enum S e = true.
Proof. induction 1; assumption. Qed.

Lemma all_ok_flat {X Y Z} (g : X -> option (list Y * Z)) : forall l rs, all_ok (map g l) = Some rs ->
  forall e, In e (flat_map fst rs) <-> exists x r, In x l /\ g x = Some r /\ In e (fst r).
Proof.
  induction l as [|h l IH]; intros rs H e; simpl in H.
  - inversion H; subst. simpl. split; [intros [] | intros [x [r [[] _]]]].
  - destruct (g h) as [y|] eqn:E; [|discriminate]. destruct (all_ok (map g l)) as [ys|] eqn:E2; [|discriminate].
    inversion H; subst. simpl. rewrite in_app_iff. rewrite (IH ys eq_refl e). split.
    + intros [He|[x [r [Hx [Hg Hr]]]]]; [exists h, y; auto | exists x, r; auto].
    + intros [x [r [[->|Hx] [Hg Hr]]]]; [left; rewrite E in Hg; inversion Hg; subst; exact Hr | right; exists x, r; auto].
Qed.

Lemma all_ok_In_some {X Y} (g : X -> option Y) : forall l rs, all_ok (map g l) = Some rs ->
  forall x, In x l -> exists r, g x = Some r.
Proof.
  induction l as [|h l IH]; intros rs H x Hx; [destruct Hx|]. simpl in H.
  destruct (g h) as [y|] eqn:E; [|discriminate]. destruct (all_ok (map g l)) as [ys|] eqn:E2; [|discriminate].
  destruct Hx as [<-|Hx]; [exists y; exact E | eapply IH; eauto].
Qed.

(* the enum lists the package model is fed are exactly: the enums reachable from some operation's selection set;
   the enums reachable from a class-generating fragment no operation spreads; the enum / input types of variables *)
Theorem doc_analysis_spec fuel S frs ops d : doc_analysis fuel S frs ops = Some d ->
  (forall e, In e (de_res_enums d) <-> exists o, In o ops /\ reaches S frs (op_root o) (op_sel o) e) /\
  (forall e, In e (de_frag_enums d) -> exists f, In f frs /\ unpacks_by_definition S f = false /\
                                                 reaches S frs (fr_on f) (fr_sel f) e) /\
  (forall t, In t (de_arg_enums d) <-> is_enum S t = true /\ exists o v, In o ops /\ In v (op_vars o) /\ named (snd v) = t) /\
  (forall t, In t (de_arg_inputs d) <-> is_input S t = true /\ exists o v, In o ops /\ In v (op_vars o) /\ named (snd v) = t).
Proof.
  unfold doc_analysis. intro H.
  destruct (all_ok (map (fun o => sel_walk fuel S frs (op_root o) (op_sel o)) ops)) as [rs|] eqn:E1; [|discriminate].
  match type of H with match all_ok (map _ ?roots) with _ => _ end = _ => set (rt := roots) in * end.
  destruct (all_ok (map (fun f => sel_walk fuel S frs (fr_on f) (fr_sel f)) rt)) as [fr|] eqn:E2; [|discriminate].
  inversion H; subst. simpl. clear H.
  assert (Hv : forall t, In t (flat_map (fun o => map (fun v => named (snd v)) (op_vars o)) ops) <->
                         exists o v, In o ops /\ In v (op_vars o) /\ named (snd v) = t).
  { intro t. rewrite in_flat_map. split.
    - intros [o [Ho Ht]]. apply in_map_iff in Ht. destruct Ht as [v [Hn Hvv]]. exists o, v. auto.
    - intros [o [v [Ho [Hvv Hn]]]]. exists o. split; [exact Ho|]. apply in_map_iff. exists v. auto. }
  split; [|split; [|split]].
  - intro e. rewrite (all_ok_flat _ _ _ E1 e). split.
    + intros [o [[es fs] [Ho [Hg He]]]]. exists o. split; [exact Ho|]. eapply sel_walk_sound; eassumption.
    + intros [o [Ho Hr]]. destruct (all_ok_In_some _ _ _ E1 o Ho) as [[es fs] Hg].
      exists o, (es, fs). split; [exact Ho|]. split; [exact Hg|]. eapply sel_walk_complete; eassumption.
  - intros e He. apply (all_ok_flat _ _ _ E2 e) in He. destruct He as [f [[es fs] [Hf [Hg He]]]].
    unfold rt in Hf. apply filter_In in Hf. destruct Hf as [Hf Hb]. apply andb_true_iff in Hb. destruct Hb as [_ Hb].
    exists f. split; [exact Hf|]. split; [apply negb_true_iff; exact Hb|]. eapply sel_walk_sound; eassumption.
  - intro t. rewrite filter_In. rewrite Hv. tauto.
  - intro t. rewrite filter_In. rewrite Hv. tauto.
Qed.
