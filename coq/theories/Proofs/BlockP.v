(* Block strings under the multi-line rewriter: the value (BlockStringValue) of every block string of the
   embedded text is the value it has in the operation string; token streams agree up to that. *)
From Coq Require Import List String Ascii Bool Arith Lia.
From AC Require Import Base.Strs Gql.Lex Gql.Block Proofs.LexP.
Import ListNotations.
Local Open Scope char_scope.
Local Open Scope list_scope.

Definition sp (k : nat) : chars := repeat " " k.

(* ---------------------------------------------------------------- the value under a uniform shift *)
(* a line of the block string after the rewriter: k blanks in front of it, or (the empty line) untouched *)
Definition padr (k : nat) (l l' : chars) : Prop := l' = sp k ++ l \/ (l = [] /\ l' = []).

Lemma blankl_sp k l : blankl (sp k ++ l) = blankl l.
Proof. unfold sp. induction k as [|k IH]; [reflexivity|]. cbn [repeat app blankl forallb]. exact IH. Qed.

Lemma lead_sp k l : lead (sp k ++ l) = k + lead l.
Proof. unfold sp. induction k as [|k IH]; [reflexivity|]. cbn [repeat app lead]. change (is_bw " ") with true. cbv iota. rewrite IH. reflexivity. Qed.

Lemma padr_blank k l l' : padr k l l' -> blankl l' = blankl l.
Proof. intros [-> | [-> ->]]; [apply blankl_sp | reflexivity]. Qed.

Lemma common_shift k : forall ls ls', Forall2 (padr k) ls ls' ->
  common ls' = option_map (Nat.add k) (common ls).
Proof.
  induction 1 as [|l l' ls ls' Hp _ IH]; [reflexivity|]. cbn [common].
  rewrite (padr_blank k l l' Hp). destruct (blankl l) eqn:Eb; [exact IH|].
  destruct Hp as [-> | [-> _]]; [|discriminate]. rewrite lead_sp, IH.
  destruct (common ls) as [m|]; cbn [option_map]; [rewrite Nat.add_min_distr_l|]; reflexivity.
Qed.

Lemma skipn_sp k c l : skipn (k + c) (sp k ++ l) = skipn c l.
Proof. unfold sp. induction k as [|k IH]; [reflexivity|]. exact IH. Qed.

Lemma cut_shift k c l l' : padr k l l' -> cut (option_map (Nat.add k) c) l' = cut c l.
Proof.
  intros [-> | [-> ->]]; destruct c as [n|]; cbn [option_map cut]; try reflexivity.
  - apply skipn_sp.
  - rewrite !skipn_nil. reflexivity.
Qed.

Lemma map_cut_shift k c : forall ls ls', Forall2 (padr k) ls ls' ->
  map (cut (option_map (Nat.add k) c)) ls' = map (cut c) ls.
Proof. induction 1 as [|l l' ls ls' Hp _ IH]; [reflexivity|]. cbn [map]. rewrite (cut_shift k c l l' Hp), IH. reflexivity. Qed.

(* the value of a block string does not change when every non-empty line after the first moves right by k *)
Theorem dedent_shift k l0 rest rest' : Forall2 (padr k) rest rest' ->
  block_value_lines (l0 :: rest') = block_value_lines (l0 :: rest).
Proof.
  intro H. unfold block_value_lines. f_equal. cbn [dedent_lines]. f_equal.
  rewrite (common_shift k rest rest' H). apply map_cut_shift. exact H.
Qed.

(* ---------------------------------------------------------------- scanning a block string *)
Lemma scanb_cons c r : scanb (c :: r) =
  if leq c lq && la2q r then Some ([], skipn 2 r)
  else if leq c lbs && la3q r then pre_raw (c :: firstn 3 r) (scanb (skipn 3 r))
  else pre_raw [c] (scanb r).
Proof.
  destruct r as [|d [|e [|g r3]]]; cbn [scanb la2q la3q skipn firstn]; rewrite ?andb_false_r; try reflexivity.
  - rewrite andb_assoc. reflexivity.
  - rewrite !andb_assoc. reflexivity.
Qed.

Lemma lexB_cons acc c r : lex (LB acc) (c :: r) =
  if leq c lq && la2q r then cons_tok (TB (rev acc)) (lex LD (skipn 2 r))
  else if leq c lbs && la3q r then lex (LB (rev (firstn 3 r) ++ c :: acc)) (skipn 3 r)
  else lex (LB (c :: acc)) r.
Proof.
  destruct r as [|d [|e [|g r3]]]; cbn [lex la2q la3q skipn firstn]; rewrite ?andb_false_r; try reflexivity.
  - rewrite andb_assoc. reflexivity.
  - rewrite !andb_assoc. reflexivity.
Qed.

Lemma skipn_le {X} n (l : list X) : List.length (skipn n l) <= List.length l.
Proof. rewrite skipn_length. lia. Qed.

(* the lexer in a block string = scan to the closing quotes, then go on in the default state *)
Lemma lex_LB : forall n l, List.length l <= n -> forall acc,
  lex (LB acc) l = match scanb l with
                   | Some (raw, rest) => cons_tok (TB (rev acc ++ raw)) (lex LD rest)
                   | None => None
                   end.
Proof.
  induction n as [|n IH]; intros l Hl acc.
  - destruct l; [reflexivity | simpl in Hl; lia].
  - destruct l as [|c r]; [reflexivity|]. rewrite lexB_cons, scanb_cons.
    assert (Hr : List.length r <= n) by (simpl in Hl; lia).
    destruct (leq c lq && la2q r); [rewrite app_nil_r; reflexivity|].
    destruct (leq c lbs && la3q r).
    + rewrite IH by (pose proof (skipn_le 3 r); lia).
      destruct (scanb (skipn 3 r)) as [[raw rest]|]; [|reflexivity]. cbn [pre_raw].
      rewrite rev_app_distr, rev_involutive. cbn [rev]. rewrite <- !app_assoc. reflexivity.
    + rewrite IH by exact Hr. destruct (scanb r) as [[raw rest]|]; [|reflexivity]. cbn [pre_raw rev].
      rewrite <- app_assoc. reflexivity.
Qed.

Lemma la2q_line x R : no_nl x = true -> la2q (x ++ lnl :: R) = la2q x.
Proof.
  intro Hn. destruct x as [|d [|e x2]]; cbn [app la2q]; try reflexivity.
  - destruct R; reflexivity.
  - apply andb_false_r.
Qed.

Lemma la3q_line x R : no_nl x = true -> la3q (x ++ lnl :: R) = la3q x.
Proof.
  intro Hn. destruct x as [|d [|e [|g x3]]]; cbn [app la3q]; try reflexivity.
  - destruct R as [|a [|b R]]; reflexivity.
  - destruct R; [reflexivity|]. rewrite andb_false_r. reflexivity.
  - apply andb_false_r.
Qed.

Lemma skipn_line n x R : n <= List.length x -> skipn n (x ++ lnl :: R) = skipn n x ++ lnl :: R.
Proof. intro H. rewrite skipn_app. replace (n - List.length x) with 0 by lia. reflexivity. Qed.

Lemma firstn_line n x R : n <= List.length x -> firstn n (x ++ lnl :: R) = firstn n x.
Proof. intro H. rewrite firstn_app. replace (n - List.length x) with 0 by lia. cbn [firstn]. apply app_nil_r. Qed.

Lemma la2q_len x : la2q x = true -> 2 <= List.length x.
Proof. destruct x as [|d [|e x2]]; cbn; intro H; try discriminate; lia. Qed.
Lemma la3q_len x : la3q x = true -> 3 <= List.length x.
Proof. destruct x as [|d [|e [|g x2]]]; cbn; intro H; try discriminate; lia. Qed.

Lemma no_nl_skipn n x : no_nl x = true -> no_nl (skipn n x) = true.
Proof.
  unfold no_nl. rewrite !forallb_forall. intros H y Hy. apply H.
  rewrite <- (firstn_skipn n x). apply in_or_app. right. exact Hy.
Qed.

(* a line: the closing quotes are in it (then what follows the line is irrelevant), or the scan goes on
   behind its line feed *)
Lemma scan_line : forall n x, List.length x <= n -> no_nl x = true -> forall R,
  scanb (x ++ lnl :: R) = match scanb x with
                          | Some (p, y) => Some (p, y ++ lnl :: R)
                          | None => pre_raw (x ++ [lnl]) (scanb R)
                          end.
Proof.
  induction n as [|n IH]; intros x Hl Hn R.
  - destruct x; [|simpl in Hl; lia]. cbn [app]. rewrite scanb_cons. reflexivity.
  - destruct x as [|c x]; [cbn [app]; rewrite scanb_cons; reflexivity|].
    cbn [no_nl forallb] in Hn. apply andb_true_iff in Hn as [_ Hn].
    assert (Hx : List.length x <= n) by (simpl in Hl; lia).
    cbn [app]. rewrite !scanb_cons, la2q_line, la3q_line by exact Hn.
    destruct (leq c lq && la2q x) eqn:E2.
    + apply andb_true_iff in E2 as [_ E2]. rewrite skipn_line by (apply la2q_len; exact E2). reflexivity.
    + destruct (leq c lbs && la3q x) eqn:E3.
      * apply andb_true_iff in E3 as [_ E3]. pose proof (la3q_len x E3) as H3.
        rewrite skipn_line, firstn_line by exact H3.
        rewrite IH; [| pose proof (skipn_le 3 x); lia | apply no_nl_skipn; exact Hn].
        destruct (scanb (skipn 3 x)) as [[p y]|]; [reflexivity|].
        destruct (scanb R) as [[raw rest]|]; [|reflexivity]. cbn [pre_raw]. f_equal. f_equal.
        rewrite <- (firstn_skipn 3 x) at 3. cbn [app]. rewrite <- !app_assoc. reflexivity.
      * rewrite IH by assumption. destruct (scanb x) as [[p y]|]; [reflexivity|].
        destruct (scanb R) as [[raw rest]|]; reflexivity.
Qed.

(* ---------------------------------------------------------------- the operation string and its laid-out form *)
Definition padk (k : nat) (l : chars) : nat := match l with [] => 0 | _ => k end.

(* T: lines with their line feeds;  T': the same lines, the non-empty ones behind k blanks, then some blanks *)
Inductive trel (k : nat) : chars -> chars -> Prop :=
| trel_end j : trel k [] (sp j)
| trel_line l T T' : no_nl l = true -> trel k T T' ->
                     trel k (l ++ lnl :: T) (sp (padk k l) ++ l ++ lnl :: T').

(* raw contents of a block string from a line start on: line by line related by padr *)
Inductive tailrel (k : nat) : chars -> chars -> Prop :=
| tail_last p p' : no_nl p = true -> padr k p p' -> tailrel k p p'
| tail_cons l l' t t' : no_nl l = true -> padr k l l' -> tailrel k t t' ->
                        tailrel k (l ++ lnl :: t) (l' ++ lnl :: t').

Definition rawrel (k : nat) (raw raw' : chars) : Prop :=
  raw = raw' \/ exists x t t', no_nl x = true /\ raw = x ++ lnl :: t /\ raw' = x ++ lnl :: t' /\ tailrel k t t'.

Lemma no_nl_app a b : no_nl (a ++ b) = no_nl a && no_nl b.
Proof. unfold no_nl. apply forallb_app. Qed.

Lemma no_nl_sp j : no_nl (sp j) = true.
Proof. unfold sp. induction j; [reflexivity | exact IHj]. Qed.

Lemma padr_no_nl k l l' : padr k l l' -> no_nl l = true -> no_nl l' = true.
Proof. intros [-> | [_ ->]] H; [rewrite no_nl_app, no_nl_sp, H|]; reflexivity. Qed.

Lemma split_lf_line l r : no_nl l = true -> split_lf (l ++ lnl :: r) = l :: split_lf r.
Proof.
  induction l as [|c l IH]; intro H.
  - cbn [app split_lf]. change (leq lnl lnl) with true. reflexivity.
  - cbn [no_nl forallb] in H. apply andb_true_iff in H as [Hc H]. apply negb_true_iff in Hc.
    cbn [app split_lf]. rewrite Hc, IH by exact H. reflexivity.
Qed.

Lemma split_lf_last l : no_nl l = true -> split_lf l = [l].
Proof.
  induction l as [|c l IH]; intro H; [reflexivity|].
  cbn [no_nl forallb] in H. apply andb_true_iff in H as [Hc H]. apply negb_true_iff in Hc.
  cbn [split_lf]. rewrite Hc, IH by exact H. reflexivity.
Qed.

Lemma tailrel_lines k t t' : tailrel k t t' -> Forall2 (padr k) (split_lf t) (split_lf t').
Proof.
  induction 1 as [p p' Hn Hp | l l' t t' Hn Hp _ IH].
  - rewrite (split_lf_last p Hn), (split_lf_last p' (padr_no_nl k p p' Hp Hn)). constructor; [exact Hp | constructor].
  - rewrite (split_lf_line l t Hn), (split_lf_line l' t' (padr_no_nl k l l' Hp Hn)). constructor; assumption.
Qed.

(* the value of a block string survives the rewriter *)
Theorem rawrel_value k raw raw' : rawrel k raw raw' -> block_value raw' = block_value raw.
Proof.
  intros [-> | (x & t & t' & Hx & -> & -> & Ht)]; [reflexivity|].
  unfold block_value. rewrite !(split_lf_line x _ Hx). apply (dedent_shift k). apply tailrel_lines. exact Ht.
Qed.

Lemma scanb_sp j l : scanb (sp j ++ l) = pre_raw (sp j) (scanb l).
Proof.
  unfold sp. induction j as [|j IH]; cbn [repeat app].
  - destruct (scanb l) as [[? ?]|]; reflexivity.
  - rewrite scanb_cons. change (leq " " lq) with false. change (leq " " lbs) with false. cbn [andb].
    rewrite IH. destruct (scanb l) as [[? ?]|]; reflexivity.
Qed.

Lemma scanb_sp_none j : scanb (sp j) = None.
Proof. rewrite <- (app_nil_r (sp j)), scanb_sp. reflexivity. Qed.

(* the scanned text = raw content, closing quotes, rest *)
Lemma scanb_split : forall n x, List.length x <= n -> forall p y, scanb x = Some (p, y) ->
  exists q, x = p ++ q ++ y /\ 1 <= List.length q.
Proof.
  induction n as [|n IH]; intros x Hl p y H.
  - destruct x; [discriminate | simpl in Hl; lia].
  - destruct x as [|c r]; [discriminate|]. rewrite scanb_cons in H.
    assert (Hr : List.length r <= n) by (simpl in Hl; lia).
    destruct (leq c lq && la2q r).
    + inversion H; subst. exists (c :: firstn 2 r). split; [cbn [app]; rewrite firstn_skipn; reflexivity | simpl; lia].
    + destruct (leq c lbs && la3q r).
      * destruct (scanb (skipn 3 r)) as [[p0 y0]|] eqn:E; [|discriminate]. cbn [pre_raw] in H. inversion H; subst.
        destruct (IH (skipn 3 r) ltac:(pose proof (skipn_le 3 r); lia) p0 y E) as (q & Eq & Hq).
        exists q. split; [|exact Hq].
        cbn [app]. f_equal. rewrite <- (firstn_skipn 3 r) at 1. rewrite Eq, app_assoc. reflexivity.
      * destruct (scanb r) as [[p0 y0]|] eqn:E; [|discriminate]. cbn [pre_raw] in H. inversion H; subst.
        destruct (IH r Hr p0 y E) as (q & Eq & Hq). exists q. split; [rewrite Eq; reflexivity | exact Hq].
Qed.

Definition rest_ok (k : nat) (bound : nat) (rest rest' : chars) : Prop :=
  exists y T2 T2', no_nl y = true /\ rest = y ++ lnl :: T2 /\ rest' = y ++ lnl :: T2' /\ trel k T2 T2' /\
                   List.length y + List.length T2 < bound.

(* scanning from a line start *)
Lemma scan_from_line_start k : forall T T', trel k T T' ->
  match scanb T, scanb T' with
  | Some (t, rest), Some (t', rest') => tailrel k t t' /\ rest_ok k (List.length T) rest rest'
  | None, None => True
  | _, _ => False
  end.
Proof.
  induction 1 as [j | l T T' Hn Ht IH].
  - rewrite scanb_sp_none. exact I.
  - rewrite (scan_line (List.length l) l (le_n _) Hn T).
    assert (Hn' : no_nl (sp (padk k l) ++ l) = true) by (rewrite no_nl_app, no_nl_sp, Hn; reflexivity).
    replace (sp (padk k l) ++ l ++ lnl :: T') with ((sp (padk k l) ++ l) ++ lnl :: T') by (rewrite <- app_assoc; reflexivity).
    rewrite (scan_line _ _ (le_n _) Hn' T'). rewrite scanb_sp.
    destruct (scanb l) as [[p y]|] eqn:El; cbn [pre_raw].
    + destruct (scanb_split _ l (le_n _) p y El) as (q & Eq & Hq).
      assert (Hpad : padk k l = k) by (destruct l; [destruct p; destruct q; discriminate || (simpl in Hq; lia) | reflexivity]).
      pose proof Hn as Hn2. rewrite Eq, !no_nl_app in Hn2.
      apply andb_true_iff in Hn2 as [Hp Hn2]. apply andb_true_iff in Hn2 as [_ Hy].
      split.
      * apply tail_last; [exact Hp | left; rewrite Hpad; reflexivity].
      * exists y, T, T'. repeat split; auto. rewrite Eq, !app_length. cbn [List.length]. lia.
    + destruct (scanb T) as [[t rest]|], (scanb T') as [[t' rest']|]; cbn [pre_raw]; try exact IH.
      destruct IH as [Ht2 (y & T2 & T2' & Hy & -> & -> & Hr & Hlen)]. split.
      * rewrite <- !app_assoc. cbn [app].
        change (sp (padk k l) ++ l ++ lnl :: t') with (sp (padk k l) ++ (l ++ lnl :: t')). rewrite app_assoc.
        apply tail_cons; [exact Hn | | exact Ht2].
        destruct l; [right; split; reflexivity | left; reflexivity].
      * exists y, T2, T2'. repeat split; auto. rewrite app_length. cbn [List.length]. lia.
Qed.

(* scanning from inside a line *)
Lemma scan_in_line k x T T' : no_nl x = true -> trel k T T' ->
  match scanb (x ++ lnl :: T), scanb (x ++ lnl :: T') with
  | Some (raw, rest), Some (raw', rest') =>
      rawrel k raw raw' /\ rest_ok k (List.length x + List.length T) rest rest'
  | None, None => True
  | _, _ => False
  end.
Proof.
  intros Hn Ht. rewrite !(scan_line _ x (le_n _) Hn).
  destruct (scanb x) as [[p y]|] eqn:Ex.
  - destruct (scanb_split _ x (le_n _) p y Ex) as (q & Eq & Hq).
    pose proof Hn as Hn2. rewrite Eq, !no_nl_app in Hn2.
    apply andb_true_iff in Hn2 as [_ Hn2]. apply andb_true_iff in Hn2 as [_ Hy].
    split; [left; reflexivity|]. exists y, T, T'. repeat split; auto.
    rewrite Eq, !app_length. lia.
  - pose proof (scan_from_line_start k T T' Ht) as H.
    destruct (scanb T) as [[t rest]|], (scanb T') as [[t' rest']|]; cbn [pre_raw]; try exact H.
    destruct H as [Ht2 (y & T2 & T2' & Hy & -> & -> & Hr & Hlen)]. split.
    + right. exists x, t, t'. rewrite <- !app_assoc. repeat split; auto.
    + exists y, T2, T2'. repeat split; auto. lia.
Qed.

(* ---------------------------------------------------------------- token streams up to block-string values *)
Definition tok_equiv (t t' : tok) : Prop :=
  match t, t' with
  | TB r, TB r' => block_value r' = block_value r
  | _, _ => t = t'
  end.

Definition opt_equiv (o o' : option (list tok)) : Prop :=
  match o, o' with
  | Some l, Some l' => Forall2 tok_equiv l l'
  | None, None => True
  | _, _ => False
  end.

Lemma tok_equiv_refl t : tok_equiv t t.
Proof. destruct t; reflexivity. Qed.

Lemma opt_equiv_refl o : opt_equiv o o.
Proof.
  destruct o as [l|]; [|exact I]. cbn. induction l; constructor; [apply tok_equiv_refl | assumption].
Qed.

Lemma opt_equiv_cons t t' o o' : tok_equiv t t' -> opt_equiv o o' -> opt_equiv (cons_tok t o) (cons_tok t' o').
Proof. intros Ht Ho. destruct o, o'; cbn in *; try contradiction; [constructor; assumption | exact I]. Qed.

Lemma opt_equiv_emit pre o o' : opt_equiv o o' -> opt_equiv (emit pre o) (emit pre o').
Proof. intro H. destruct pre as [t|]; [apply opt_equiv_cons; [apply tok_equiv_refl | exact H] | exact H]. Qed.

Lemma la2_la2q r : la2 lq r = la2q r.
Proof. reflexivity. Qed.

(* the simulation: [lexm n] for a line suffix followed by related texts, [lexb n] from a line start *)
Definition lexm (k n : nat) : Prop := forall x T T' st,
  List.length x + List.length T <= n -> no_nl x = true -> trel k T T' -> not_block st = true ->
  opt_equiv (lex st (x ++ lnl :: T)) (lex st (x ++ lnl :: T')).
Definition lexb (k n : nat) : Prop := forall T T',
  List.length T <= n -> trel k T T' -> opt_equiv (lex LD T) (lex LD T').

Lemma lex_sp j R : lex LD (sp j ++ R) = lex LD R.
Proof. apply lex_blanks. Qed.

Lemma lexb_step k n : (forall m, m < n -> lexm k m) -> lexb k n.
Proof.
  intros Hm T T' Hl Ht. destruct Ht as [j | l T T' Hn Ht].
  - rewrite <- (app_nil_r (sp j)), lex_sp. apply opt_equiv_refl.
  - rewrite lex_sp. apply (Hm (List.length l + List.length T)); auto;
      rewrite app_length in Hl; cbn [List.length] in Hl; lia.
Qed.

Lemma lexm_step k n : lexb k n -> (forall m, m < n -> lexm k m) -> lexm k n.
Proof.
  intros Hb Hm x T T' st Hl Hn Ht Hst. destruct x as [|c x].
  - (* the line feed *)
    cbn [app]. assert (HT : List.length T <= n) by (simpl in Hl; lia).
    destruct st; try discriminate; [rewrite !lex_D, !dflt_nl | rewrite !lex_W | exact I | exact I | rewrite !lex_C].
    + apply Hb; assumption.
    + change (leq lnl ".") with false. change (is_wordc lnl) with false. cbv iota. rewrite !dflt_nl.
      apply opt_equiv_emit. apply Hb; assumption.
    + change (leq lnl lnl || leq lnl lcr) with true. cbv iota. apply Hb; assumption.
  - cbn [no_nl forallb] in Hn. apply andb_true_iff in Hn as [Hc Hn].
    assert (IHx : forall st', not_block st' = true ->
                   opt_equiv (lex st' (x ++ lnl :: T)) (lex st' (x ++ lnl :: T'))).
    { intros st' Hs. apply (Hm (List.length x + List.length T)); auto; simpl in Hl; lia. }
    assert (IH2 : opt_equiv (lex LD (skipn 2 x ++ lnl :: T)) (lex LD (skipn 2 x ++ lnl :: T'))).
    { apply (Hm (List.length (skipn 2 x) + List.length T)); auto; try (apply no_nl_skipn; exact Hn);
        pose proof (skipn_le 2 x); simpl in Hl; lia. }
    assert (D : forall pre, opt_equiv (dflt_of pre c (x ++ lnl :: T)) (dflt_of pre c (x ++ lnl :: T'))).
    { intro pre. unfold dflt_of.
      rewrite !(la2_app lq x) by (reflexivity || exact Hn). rewrite !(la2_app "." x) by (reflexivity || exact Hn).
      destruct (leq c lq).
      - destruct (la2 lq x) eqn:E2.
        + (* a block string starts *)
          rewrite la2_la2q in E2. rewrite !skipn_line by (apply la2q_len; exact E2).
          apply opt_equiv_emit. rewrite !(lex_LB _ _ (le_n _)).
          pose proof (scan_in_line k (skipn 2 x) T T' (no_nl_skipn 2 x Hn) Ht) as Hs.
          destruct (scanb (skipn 2 x ++ lnl :: T)) as [[raw rest]|], (scanb (skipn 2 x ++ lnl :: T')) as [[raw' rest']|];
            try contradiction; [|exact I].
          destruct Hs as [Hr (y & T2 & T2' & Hy & -> & -> & Ht2 & Hlen)].
          apply opt_equiv_cons; [cbn; apply (rawrel_value k); exact Hr|].
          apply (Hm (List.length y + List.length T2)); auto;
            pose proof (skipn_le 2 x); simpl in Hl; lia.
        + apply opt_equiv_emit, IHx. reflexivity.
      - destruct (leq c "#"); [apply opt_equiv_emit, IHx; reflexivity|].
        destruct (leq c ".").
        + destruct (la2 "." x) eqn:El.
          * rewrite !skipn2_app by (right; exact El). apply opt_equiv_emit, opt_equiv_cons; [reflexivity | exact IH2].
          * apply opt_equiv_emit, IHx. reflexivity.
        + destruct (is_punct c); [apply opt_equiv_emit, opt_equiv_cons; [reflexivity | apply IHx; reflexivity]|].
          destruct (is_ign c); [apply opt_equiv_emit, IHx; reflexivity|].
          destruct (is_wordc c); [apply opt_equiv_emit, IHx; reflexivity | exact I]. }
    cbn [app]. destruct st; try discriminate.
    + rewrite !lex_D. apply D.
    + rewrite !lex_W. rewrite !(la2_app "." x) by (reflexivity || exact Hn).
      destruct (leq c "."); [destruct (la2 "." x); [apply D | apply IHx; reflexivity]|].
      destruct (is_wordc c); [apply IHx; reflexivity | apply D].
    + rewrite !lex_S. destruct (leq c lq); [apply opt_equiv_cons; [reflexivity | apply IHx; reflexivity]|].
      destruct (leq c lbs); [apply IHx; reflexivity|]. destruct (leq c lnl || leq c lcr); [exact I | apply IHx; reflexivity].
    + rewrite !lex_SE. destruct (leq c lnl || leq c lcr); [exact I | apply IHx; reflexivity].
    + rewrite !lex_C. destruct (leq c lnl || leq c lcr); apply IHx; reflexivity.
Qed.

Lemma lex_sim k : forall n, lexm k n /\ lexb k n.
Proof.
  induction n as [n IH] using lt_wf_ind.
  assert (Hm : forall m, m < n -> lexm k m) by (intros m Hlt; apply (IH m Hlt)).
  pose proof (lexb_step k n Hm) as Hb. split; [apply lexm_step; assumption | exact Hb].
Qed.

(* every list of lines (no line feed inside a line), block strings included *)
Lemma trel_lines k lines : Forall (fun l => no_nl l = true) lines ->
  trel k (joined_text lines) (flat_map (fun l => repeat " " (padk k l) ++ l ++ [lnl]) lines ++ repeat " " k).
Proof.
  unfold joined_text. induction 1 as [|l ls Hn _ IH]; cbn [flat_map app].
  - apply (trel_end k k).
  - rewrite <- !app_assoc. cbn [app]. apply (trel_line k l _ _ Hn IH).
Qed.

Theorem layout_ignored_up_to_block_values k lines : Forall (fun l => no_nl l = true) lines ->
  opt_equiv (tokens (joined_text lines)) (tokens (laid_out (padk k) k lines)).
Proof.
  intro H. unfold tokens, laid_out. rewrite lex_nl.
  apply (proj2 (lex_sim k _) _ _ (le_n _)). apply trel_lines. exact H.
Qed.
