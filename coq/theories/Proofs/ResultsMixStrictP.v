(* C05 strictness with fragment spreads used as mixin base classes. *)
From Coq Require Import List String Ascii Bool Arith Lia ZArith.
From AC Require Import Base.Strs Base.Sexp Base.Json Gql.Schema Gql.Exec Py.Ann Py.Pydantic
     Model.Names Model.Results Proofs.ResultsP Proofs.ResultsRunP Proofs.ResultsAbsP Proofs.ResultsObjP
     Proofs.ResultsMixP Proofs.ResultsMixCovP Proofs.ResultsStrictP.
Import ListNotations.
Local Open Scope string_scope.
Local Open Scope list_scope.

(* ---- collect keeps its result at larger fuel ---- *)
Lemma collect_mono S frs rt : forall k under sels a,
  collect k S frs rt under sels = Some a -> forall k', k' >= k -> collect k' S frs rt under sels = Some a.
Proof.
  induction k as [|k IH]; intros under sels a H k' Hk; [discriminate H|].
  destruct k' as [|k']; [lia|]. assert (Hk' : k' >= k) by lia. simpl in H. simpl.
  assert (G : forall sels l0 a,
            fold_left (collect_step (collect k S frs rt) S frs rt under) sels (Some l0) = Some a ->
            fold_left (collect_step (collect k' S frs rt) S frs rt under) sels (Some l0) = Some a).
  { clear H a sels. induction sels as [|s sels IHs]; intros l0 a H; simpl in H; simpl; [exact H|].
    destruct s as [al n c ms sub | n c | tc c sub]; simpl in H; simpl.
    - apply IHs, H.
    - destruct (lookup_frag frs n) as [fd|]; [| rewrite collect_fold_none in H; discriminate].
      destruct (type_applies S rt (fr_on fd)); [| apply IHs, H].
      destruct (collect k S frs rt (under || c) (fr_sel fd)) as [q|] eqn:E;
        [| rewrite collect_fold_none in H; discriminate].
      rewrite (IH _ _ _ E k' Hk'). apply IHs, H.
    - destruct (match tc with None => true | Some t => type_applies S rt t end); [| apply IHs, H].
      destruct (collect k S frs rt (under || c) sub) as [q|] eqn:E;
        [| rewrite collect_fold_none in H; discriminate].
      rewrite (IH _ _ _ E k' Hk'). apply IHs, H. }
  apply G, H.
Qed.

(* ---- the strictness guard with mixins ---- *)
Fixpoint sels_strictM (fuel : nat) (C : cfg) (S : schema) (frs : list fragdef) (nested : bool) (tn : string)
         (sels : list sel) : bool :=
  match fuel with
  | O => false
  | Datatypes.S g =>
      match flattenM g S frs tn tn false sels with
      | Some (fns, ms) =>
          forallb (fun f =>
            field_strict C S nested tn f &&
            match fn_sub f, schema_field_type S tn (fn_name f) with
            | Some sub, Ok t => (* interface positions: only in the mixin-free theorem (okb = false here) *)
                                strict_sub (fun _ _ => false) (sels_strictM g C S frs true) (fun _ _ => false) S (base_name t) sub
            | _, _ => true
            end) fns &&
          forallb (fun m => match lookup_frag frs m with
                            | Some fm => String.eqb (fr_on fm) tn && sels_strictM g C S frs false tn (fr_sel fm)
                            | None => false
                            end) ms
      | None => false
      end
  end.

Definition mixin_strict (g : nat) (C : cfg) (S : schema) (frs : list fragdef) (tn : string) (m : string) : bool :=
  match lookup_frag frs m with
  | Some fm => String.eqb (fr_on fm) tn && sels_strictM g C S frs false tn (fr_sel fm)
  | None => false
  end.

Lemma sels_strictM_inv gs C S frs nested tn sels g fns ms :
  sels_strictM gs C S frs nested tn sels = true -> flattenM g S frs tn tn false sels = Some (fns, ms) ->
  exists gs', gs = Datatypes.S gs' /\
    forallb (fun f => field_strict C S nested tn f &&
                      sub_strict S (fun _ _ _ _ => false) (sels_strictM gs' C S frs true) (fun _ _ => false) tn f) fns = true /\
    forallb (mixin_strict gs' C S frs tn) ms = true.
Proof.
  destruct gs as [|gs']; [discriminate|]. cbn [sels_strictM]. intros H Hfl.
  destruct (flattenM gs' S frs tn tn false sels) as [[fns2 ms2]|] eqn:E; [| discriminate H].
  destruct (flattenM_both_ex S frs tn _ _ _ _ _ _ E (max g gs') (Nat.le_max_r _ _)) as [R1 _].
  destruct (flattenM_both_ex S frs tn _ _ _ _ _ _ Hfl (max g gs') (Nat.le_max_l _ _)) as [R2 _].
  rewrite R1 in R2. inversion R2; subst fns2 ms2.
  apply andb_true_iff in H as [H1 H2]. exists gs'. split; [reflexivity|]. split; [exact H1 | exact H2].
Qed.

Section MixS.
  Variables (C : cfg) (S : schema) (frs : list fragdef) (F : nat) (cls : list pclass).
  Variable mx : list string.
  Hypothesis G0 : mx_ok cls mx = true.
  Hypothesis G1 : NoDup (map c_name cls).
  Hypothesis G3 : no_basemodel cls = true.
  Hypothesis G2 : forall fm, In fm frs -> unpack_fragment S fm None = false ->
    exists out pub', parse_type_def F C S frs [] (pascal_s (fr_name fm)) (fr_on fm) (fr_sel fm) false
                                     (fr_mixins fm) None = Ok (out, pub', false) /\ incl out cls.
  Hypothesis F1 : F >= 1.

  Definition Wn (n' : nat) : ann -> json -> bool :=
    fun a j => accepts n' cls (schema_enums S) a j && covers n' cls a j.

  (* the class cn with everything it inherits: every field belongs to a node of the object and is as
     strict as that node demands; every node of l has a field *)
  Definition class_goodS (g : nat) (cn : string) (tn : string) (N l : list cnode) : Prop :=
    exists pfs, (forall j, j >= g + 2 -> mro_fields j cls cn = Some pfs) /\
      (forall pf, In pf pfs -> exists f, In (node_of_fnode false f) N /\
          forall n', n' >= F + g + 1 -> field_facts_rev C S frs (Wn n') [tn] tn f pf) /\
      (forall x, In x l -> In (n_key x) (map field_key_of pfs)).

  Definition ambS (N : list cnode) : Prop :=
    keys_ok C (map n_key N) = true /\ NoDup (map (py_field_name C) (map n_key N)).

  Lemma Wn_opt n1 a j : Wn (Datatypes.S n1) (AOpt a) j = is_null j || Wn (Datatypes.S n1) a j.
  Proof. unfold Wn. simpl. destruct (is_null j); reflexivity. Qed.

  Lemma Wn_list n1 a j :
    Wn (Datatypes.S n1) (AList a) j = match j with JArr l => forallb (Wn (Datatypes.S n1) a) l | _ => false end.
  Proof. unfold Wn. simpl. destruct j; try reflexivity. apply forallb_andb. Qed.

  (* from the per-class facts to lax conformance of the object, when the class's nodes are all the
     object's nodes *)
  Lemma class_goodS_conf g cn tn l kv n' :
    class_goodS g cn tn l l -> ambS l -> n' >= F + g + 1 ->
    class_accepts (accepts n' cls (schema_enums S)) (mro_fields n' cls cn) (JObj kv) = true ->
    class_covers (covers n' cls) (mro_fields n' cls cn) (JObj kv) = true ->
    ev (fun fc => conf_obj_gen false (lconf fc S frs) S tn (Some l) kv).
  Proof.
    intros [pfs [Hm [HA HB]]] [Hk Hpy] Hn Hacc Hcov.
    rewrite (Hm n') in Hacc, Hcov by lia.
    rewrite class_accepts_check in Hacc. unfold class_covers in Hcov. rewrite forallb_forall in Hacc, Hcov.
    assert (Hndk : NoDup (map n_key l)) by (eapply keys_ok_nodup; eauto).
    (* a field of the class determines its node by the key *)
    assert (Hnode : forall pf, In pf pfs -> forall x, In x l -> field_key_of pf = n_key x ->
              exists f, x = node_of_fnode false f /\ field_facts_rev C S frs (Wn n') [tn] tn f pf).
    { intros pf Hpf x Hx Ek. destruct (HA pf Hpf) as [f [Hf Hfacts]]. exists f. split; [| apply Hfacts, Hn].
      destruct (Hfacts n' Hn) as [E1 _].
      eapply (NoDup_map_inj_in n_key); eauto. rewrite <- Ek, E1. reflexivity. }
    (* keys of the payload are keys of nodes *)
    assert (Hkv : forall p, In p kv -> In (fst p) (map n_key l)).
    { intros p Hp. specialize (Hcov p Hp).
      destruct (find (fun f => String.eqb (field_key_of f) (fst p)) (last_wins pfs)) as [pf|] eqn:Ef; [| discriminate].
      apply find_some in Ef. destruct Ef as [Hin He]. apply String.eqb_eq in He.
      destruct (HA pf (last_wins_In _ _ Hin)) as [f [Hf Hfacts]]. destruct (Hfacts n' Hn) as [E1 _].
      rewrite <- He, E1. change (field_key f) with (n_key (node_of_fnode false f)). apply in_map, Hf. }
    assert (Hall : forall x, In x l -> ev (fun fc => key_spec_n (lconf fc S frs) S tn kv x)).
    { intros x Hx. specialize (HB x Hx). apply in_map_iff in HB. destruct HB as [pf0 [Ek0 Hpf0]].
      destruct (last_wins_name _ _ Hpf0) as [pf1 [Hpf1 En1]].
      assert (Ek1 : field_key_of pf1 = n_key x).
      { destruct (HA pf0 Hpf0) as [f0 [Hf0 Hfa0]]. destruct (Hfa0 n' Hn) as [A1 [A2 _]].
        destruct (HA pf1 (last_wins_In _ _ Hpf1)) as [f1 [Hf1 Hfa1]]. destruct (Hfa1 n' Hn) as [B1 [B2 _]].
        rewrite <- Ek0, A1, B1.
        symmetry. eapply (NoDup_map_inj_in (py_field_name C) (map n_key l)); eauto.
        - change (field_key f0) with (n_key (node_of_fnode false f0)). apply in_map, Hf0.
        - change (field_key f1) with (n_key (node_of_fnode false f1)). apply in_map, Hf1.
        - congruence. }
      unfold key_spec_n. destruct (jlookup (n_key x) kv) as [v|] eqn:Ev.
      - (* the field pydantic finds for this key *)
        pose proof (Hcov _ (jlookup_In _ _ _ Ev)) as Hc. cbn [fst snd] in Hc.
        destruct (find (fun f => String.eqb (field_key_of f) (n_key x)) (last_wins pfs)) as [pf|] eqn:Ef;
          [| discriminate Hc].
        apply find_some in Ef. destruct Ef as [Hin He]. apply String.eqb_eq in He.
        pose proof (Hacc pf Hin) as Ha. unfold field_check in Ha. rewrite He, Ev in Ha.
        assert (Hw : Wn n' (p_ann pf) v = true) by (unfold Wn; rewrite Ha, Hc; reflexivity).
        destruct (Hnode pf (last_wins_In _ _ Hin) x Hx He) as [f [Ex [_ [_ [_ [_ Hval]]]]]].
        apply Hval in Hw. unfold value_lconf in Hw. subst x. cbn [n_name node_of_fnode].
        destruct (String.eqb (fn_name f) "__typename").
        + destruct Hw as [s0 [Es0 [Hs0 | []]]]. subst v s0. apply ev_const. apply String.eqb_refl.
        + destruct Hw as [ft [Hft He']]. rewrite Hft. exact He'.
      - (* absent key: the field's default must be None, so the node is conditional *)
        pose proof (Hacc pf1 Hpf1) as Ha. unfold field_check in Ha. rewrite Ek1, Ev in Ha.
        destruct (Hnode pf1 (last_wins_In _ _ Hpf1) x Hx Ek1) as [f [Ex [E1 [E2 [E3 [E4 _]]]]]].
        assert (Hal : match p_alias pf1 with Some _ => jlookup (p_name pf1) kv | None => None end = None).
        { destruct (p_alias pf1) eqn:Eal; [| reflexivity].
          apply jlookup_None_notin. intro Hmm. apply in_map_iff in Hmm. destruct Hmm as [p [Hp1 Hp2]].
          apply Hkv in Hp2. rewrite Hp1, E2 in Hp2.
          unfold keys_ok in Hk. apply andb_true_iff in Hk as [_ Hk'].
          rewrite forallb_forall in Hk'.
          assert (Hkin : In (field_key f) (map n_key l)).
          { rewrite <- E1, Ek1. apply in_map, Hx. }
          specialize (Hk' _ Hkin). apply orb_true_iff in Hk' as [Hk' | Hk'].
          - rewrite <- E2 in Hk'. rewrite (E4 _ eq_refl) in Hk'. discriminate.
          - apply negb_true_iff, mem_false_In in Hk'. contradiction. }
        rewrite Hal in Ha. apply ev_const. subst x. cbn [n_cond node_of_fnode]. apply E3, Ha. }
    pose proof (ev_forallb (fun fc x => key_spec_n (lconf fc S frs) S tn kv x) _ Hall) as [a Ha].
    exists a. intros fc Hfc. rewrite conf_obj_nodes by exact Hndk. simpl orb. apply andb_true_iff. split.
    - apply forallb_forall. intros p Hp. apply mem_In, Hkv, Hp.
    - apply Ha, Hfc.
  Qed.


  Lemma Forall2_forall {X Y} (P : nat -> X -> Y -> Prop) (b : nat) : forall l l',
    (forall n, n >= b -> Forall2 (P n) l l') -> Forall2 (fun x y => forall n, n >= b -> P n x y) l l'.
  Proof.
    induction l as [|x l IH]; intros l' H.
    - specialize (H b (le_n _)) as H0. inversion H0. constructor.
    - pose proof (H b (le_n _)) as H0. inversion H0 as [| x0 y l0 l'0 Hxy Hrest]; subst. constructor.
      + intros n Hn. specialize (H n Hn). inversion H; subst. assumption.
      + apply IH. intros n Hn. specialize (H n Hn). inversion H; subst. assumption.
  Qed.

  Theorem mixS_main : forall g gs fuel pub cn tn sels at_ eb tv top nested out pub' k l N,
    fuel <= F -> parse_type_def fuel C S frs pub cn tn sels at_ eb tv = Ok (out, pub', false) ->
    sels_okM g true C S frs mx top at_ tn tn sels = true -> sels_strictM gs C S frs nested tn sels = true ->
    (at_ = true -> has_typename sels = true) ->
    tv = (if nested then Some [tn] else None) -> table_ok cls out -> harmless cls eb ->
    collect k S frs tn false sels = Some l -> incl l N -> ambS N ->
    class_goodS g cn tn N l.
  Proof.
    induction g as [|g IH];
      intros gs fuel pub cn tn sels at_ eb tv top nested out pub' k l N HF Hp Hok Hst Hat Htv Htab Heb Hcol HlN Hamb;
      [discriminate Hok|].
    destruct (sels_okM_inv _ _ _ _ _ _ _ _ _ _ _ Hok) as [g' [fns [ms [Eg [Hfl [_ [Hfields [Hmix Hreach]]]]]]]].
    inversion Eg; subst g'. clear Eg.
    destruct (sels_strictM_inv _ _ _ _ _ _ _ _ _ _ Hst Hfl) as [gs' [Egs [Hstf Hstm]]]. subst gs.
    destruct fuel as [|fuel']; [discriminate Hp|].
    destruct (level_invM _ _ _ _ _ _ _ _ _ _ _ _ _ _ _ _ _ Hp Hfl Hat)
      as [f2 [pfl [extra [kept [Ef [Hrun [Hkept [Hrem Hout]]]]]]]].
    destruct Hamb as [HkN HpyN].
    destruct (flattenM_collect_mix _ _ _ _ _ _ _ _ _ _ _ Hfl Hcol) as [Hown Hmixn].
    assert (Hc0 : In {| c_name := cn; c_bases := class_bases ms kept eb; c_fields := pfl |} out)
      by (rewrite Hout; left; reflexivity).
    destruct (Htab _ Hc0) as [Hl Hnb]. simpl in Hl, Hnb.
    assert (HB : forall m, In m ms -> exists fm km lm,
                 lookup_frag frs m = Some fm /\ collect km S frs tn false (fr_sel fm) = Some lm /\
                 incl lm l /\ class_goodS g (pascal_s m) tn N lm).
    { intros m Hm. rewrite forallb_forall in Hmix, Hstm. specialize (Hmix m Hm). specialize (Hstm m Hm).
      unfold mixin_ok in Hmix. unfold mixin_strict in Hstm.
      destruct (lookup_frag frs m) as [fm|] eqn:Elf; [| discriminate Hmix].
      apply andb_true_iff in Hmix as [Hmix Hokm]. apply andb_true_iff in Hmix as [Hnm Hun].
      apply negb_true_iff in Hun. apply andb_true_iff in Hstm as [Hon Hstm]. apply String.eqb_eq in Hon.
      pose proof (mx_ok_harmless _ _ _ G0 Hnm) as Hhm.
      unfold lookup_frag in Elf. pose proof (find_some _ _ Elf) as [Hfin Hfn].
      apply String.eqb_eq in Hfn.
      destruct (G2 fm Hfin Hun) as [outm [pubm [Hrunm Hinm]]]. rewrite Hfn, Hon in Hrunm.
      rewrite Hon in Hokm.
      destruct (Hmixn m Hm) as [fm' [k' [lm [Elf' [Hcm Hilm]]]]].
      unfold lookup_frag in Elf'. rewrite Elf in Elf'. inversion Elf'; subst fm'.
      exists fm, k', lm. split; [reflexivity|]. split; [exact Hcm|]. split; [exact Hilm|].
      eapply (IH gs' F [] (pascal_s m) tn (fr_sel fm) false (fr_mixins fm) None false false outm pubm k' lm N); eauto;
        try discriminate.
      - apply (table_of_incl cls G1 G3), Hinm.
      - eapply incl_tran; eauto.
      - split; auto. }
    destruct (mro_with_bases2 cls cn _ (g + 2) Hl Hnb) as [pfs [Hmro [Hdec [Hownp Hname]]]].
    { intros b Hb. destruct (class_bases_In _ _ _ _ Hb) as [E | [[m [Hm E]] | Hbe]]; [subst b | subst b |].
      - exists []. intros j Hj. apply mro_basemodel. lia.
      - destruct (HB m (Hkept m Hm)) as [fm [km [lm [_ [_ [_ [pb [Hpb _]]]]]]]]. exists pb. exact Hpb.
      - exists []. intros j Hj. destruct j as [|j']; [lia|]. apply mro_empty, Heb, Hbe. }
    (* the own fields, uniformly in the validation fuel *)
    assert (HFF : Forall2 (fun f pf => forall n', n' >= F + Datatypes.S g + 1 ->
                                         field_facts_rev C S frs (Wn n') [tn] tn f pf) fns pfl).
    { apply Forall2_forall. intros n' Hn'. destruct n' as [|n1]; [lia|].
      eapply level_facts_rev with (W := Wn (Datatypes.S n1)) (mro := mro_fields n1 cls)
                                  (ok := sels_okM g true C S frs mx true) (ok2 := fun _ _ _ _ => false)
                                  (strict := sels_strictM gs' C S frs true) (una := fun _ _ => false)
                                  (mx := mx) (harm := harmless cls) (tvs := [tn])
                                  (fuel' := fuel') (g := g) (cs := cls);
        try eassumption; try (intro Hnil; discriminate Hnil).
      - intros eb0. apply mx_ok_harmless, G0.
      - apply Wn_opt.
      - apply Wn_list.
      - intros m j Hnn H. unfold Wn in H. apply andb_true_iff in H as [H _]. cbn [accepts] in H.
        rewrite (scalar_leaf_exact C S) in H by exact Hnn. exact H.
      - intros m Hm. unfold Wn. cbn [accepts]. rewrite scalar_rejects_null by exact Hm. reflexivity.
      - intros m vs j Hm H. unfold Wn in H. apply andb_true_iff in H as [H _]. cbn [accepts] in H.
        rewrite (enum_leaf_exact S _ m vs j Hm) in H. exact H.
      - intros vs v H. unfold Wn in H. apply andb_true_iff in H as [H _]. simpl in H.
        destruct v; try discriminate H. eexists. split; [reflexivity | apply mem_In, H].
      - intros c j H. unfold Wn in H. apply andb_true_iff in H as [H _]. simpl in H.
        destruct j; try discriminate H. eauto.
      - intros alts j H. unfold Wn in *. apply acc_cov_union, H.
      - intros c eb0 fs Hlc Hnc Hbc Hh Hm. eapply mro_some_harmless; eauto.
      - eauto.
      - (* nested classes *)
        intros pb cn2 tn2 sels2 at2 eb2 tvs2 out2 pub2 kv2 P0 P1 Pne P2 P3 Pd P3' P4 P5.
        destruct Pd as [Pd | [_ Pd]]; [subst tvs2 | discriminate Pd].
        exists tn2. split; [left; reflexivity|].
        destruct (P2 tn2 (or_introl eq_refl)) as [P2' | P2']; [| discriminate P2']. clear P2. rename P2' into P2.
        unfold Wn in P5. apply andb_true_iff in P5 as [P5 P6].
        change (class_accepts (accepts n1 cls (schema_enums S)) (mro_fields n1 cls cn2) (JObj kv2) = true) in P5.
        change (class_covers (covers n1 cls) (mro_fields n1 cls cn2) (JObj kv2) = true) in P6.
        destruct (sels_okM_inv _ _ _ _ _ _ _ _ _ _ _ P2) as [g'' [fns2 [ms2 [_ [_ [Htop2 _]]]]]].
        destruct (Htop2 eq_refl) as [l2 [Hc2 [Hk2 Hpy2]]].
        assert (Hgood : class_goodS g cn2 tn2 l2 l2).
        { eapply (IH gs' fuel' pb cn2 tn2 sels2 at2 eb2 (Some [tn2]) true true out2 pub2 g'' l2 l2); eauto.
          - lia.
          - apply incl_refl.
          - split; [exact Hk2 | apply Hpy2; reflexivity]. }
        assert (He : ev (fun fc => conf_obj_gen false (lconf fc S frs) S tn2 (Some l2) kv2)).
        { eapply (class_goodS_conf g cn2 tn2 l2 kv2 n1); eauto.
          - split; [exact Hk2 | apply Hpy2; reflexivity].
          - lia. }
        destruct He as [a Ha]. exists (max a g''). intros fc Hfc. unfold obj_lconf.
        rewrite collect_scopes_single. rewrite (collect_mono _ _ _ _ _ _ _ Hc2 fc) by lia. apply Ha. lia.
      - eapply table_ok_incl; [exact Htab|]. rewrite Hout. apply incl_tl, incl_refl. }
    assert (HA : forall pf, In pf pfs -> exists f, In (node_of_fnode false f) N /\
               forall n', n' >= F + Datatypes.S g + 1 -> field_facts_rev C S frs (Wn n') [tn] tn f pf).
    { intros pf Hpf. destruct (Hdec pf Hpf) as [Hin | [b [pb [Hb [Hmb Hinb]]]]].
      - simpl c_fields in Hin. destruct (Forall2_In_r _ _ _ _ HFF Hin) as [f [Hf Hfacts]].
        exists f. split; [apply HlN, Hown, Hf | exact Hfacts].
      - destruct (class_bases_In _ _ _ _ Hb) as [E | [[m [Hm E]] | Hbe]]; [subst b | subst b |].
        + pose proof (Hmb (g + 2) (le_n _)) as E1. rewrite mro_basemodel in E1 by lia. inversion E1; subst pb.
          contradiction.
        + destruct (HB m (Hkept m Hm)) as [fm [km [lm [_ [_ [_ [pb' [Hpb' [HA' _]]]]]]]]].
          assert (pb = pb') by (specialize (Hmb (g + 2) (le_n _)); specialize (Hpb' (g + 2) (le_n _)); congruence).
          subst pb'. destruct (HA' pf Hinb) as [f [Hf Hfacts]]. exists f. split; [exact Hf|].
          intros n' Hn'. apply Hfacts. lia.
        + pose proof (Hmb (g + 2) (le_n _)) as E1. replace (g + 2) with (Datatypes.S (g + 1)) in E1 by lia.
          rewrite (mro_empty cls b (g + 1) (Heb b Hbe)) in E1. inversion E1; subst pb. contradiction. }
    exists pfs. split; [intros j Hj; apply Hmro; lia|]. split; [exact HA|].
    (* name and key of a field, from its facts *)
    assert (Hnk : forall pf, In pf pfs -> p_name pf = py_field_name C (field_key_of pf) /\
                                          In (field_key_of pf) (map n_key N)).
    { intros pf Hpf. destruct (HA pf Hpf) as [f [Hf Hfacts]].
      destruct (Hfacts (F + Datatypes.S g + 1) (le_n _)) as [E1 [E2 _]]. rewrite E1, E2. split; [reflexivity|].
      change (field_key f) with (n_key (node_of_fnode false f)). apply in_map, Hf. }
    assert (HK : forall m, In m kept -> forall fm km lm, lookup_frag frs m = Some fm ->
                   collect km S frs tn false (fr_sel fm) = Some lm ->
                   forall x, In x lm -> In (n_key x) (map field_key_of pfs)).
    { intros m Hm fm km lm Elf Hcm x Hx.
      destruct (HB m (Hkept m Hm)) as [fm' [km' [lm' [Elf' [Hcm' [_ [pb [Hpb [HAb HBb]]]]]]]]].
      rewrite Elf in Elf'. inversion Elf'; subst fm'.
      pose proof (collect_fuel_det _ _ _ _ _ _ _ _ _ Hcm Hcm') as El. subst lm'.
      specialize (HBb x Hx). apply in_map_iff in HBb. destruct HBb as [pfm [Ekm Hpfm]].
      assert (Hne : ms <> []) by (intro E; rewrite E in Hkept; apply (Hkept m Hm)).
      destruct (Hname (pascal_s m) pb pfm (class_bases_In_conv _ _ _ _ Hm Hne) Hpb Hpfm) as [pf' [Hpf' En]].
      apply in_map_iff. exists pf'. split; [| exact Hpf'].
      destruct (Hnk pf' Hpf') as [A1 A2].
      destruct (HAb pfm Hpfm) as [fb0 [Hfb0 Hfa]]. destruct (Hfa (F + g + 1) (le_n _)) as [B1 [B2 _]].
      rewrite <- Ekm. eapply (NoDup_map_inj_in (py_field_name C) (map n_key N)); eauto.
      - rewrite B1. change (field_key fb0) with (n_key (node_of_fnode false fb0)). apply in_map, Hfb0.
      - rewrite <- A1, En, B2, B1. reflexivity. }
    pose proof (fields_run_pf _ _ _ _ _ _ _ _ _ _ _ _ _ _ _ Hrun) as FP.
    intros x Hx. destruct (flattenM_collect_conv _ _ _ _ _ _ _ _ _ _ _ Hfl Hcol x Hx)
      as [[fn [Hfn Ex]] | [m [fm [km [lm [Hm [Elf [Hcm Hxm]]]]]]]].
    - destruct (Forall2_In_l _ _ _ _ FP Hfn) as [pf [Hpf [ctx Hfp]]].
      destruct (field_pf_inv _ _ _ _ _ _ _ _ _ _ _ Hfp) as [t [a0 [il [_ [_ Epf]]]]].
      apply in_map_iff. exists pf. split; [| apply Hownp; exact Hpf].
      subst pf x. rewrite mk_pfield_key. reflexivity.
    - unfold reach_ok in Hreach.
      destruct (remove_inherited g S frs ms) as [keptg|] eqn:Erg; [| discriminate Hreach].
      assert (keptg = kept) by (eapply remove_inherited_det; eauto). subst keptg.
      rewrite forallb_forall in Hreach. specialize (Hreach m Hm).
      apply orb_true_iff in Hreach as [Hr | Hr].
      + apply mem_In in Hr. eapply HK; eauto.
      + apply existsb_exists in Hr. destruct Hr as [k0 [Hk0 Hfb]].
        destruct (fragment_bases g S frs k0) as [lk|] eqn:Efb; [| discriminate Hfb]. apply mem_In in Hfb.
        destruct (HB k0 (Hkept k0 Hk0)) as [fk [kk [Lk [Elk [Hck [_ _]]]]]].
        assert (Hmk : mixin_ok g true C S frs mx tn k0 = true)
          by (rewrite forallb_forall in Hmix; apply Hmix, Hkept, Hk0).
        destruct (nodes_incl C S frs mx tn true _ _ _ _ _ _ _ _ Hmk Efb Hfb Elk Hck) as [fm2 [c2 [Lm [E1 [E2 E3]]]]].
        rewrite Elf in E1. inversion E1; subst fm2.
        pose proof (collect_fuel_det _ _ _ _ _ _ _ _ _ Hcm E2) as El. subst Lm.
        eapply (HK k0 Hk0 fk kk Lk); eauto.
  Qed.
End MixS.

(* ------------------------------------------------------------------------------------------- *)
(* Operation level                                                                              *)
Theorem op_strict_mix C S frs F kind name mixins sels root own pub' cls g gs mx j n :
  root_type_name S kind = Ok root ->
  op_parse F C S frs kind name mixins sels = Ok (own, pub', false) ->
  all_classes F C S frs (DOp kind name mixins sels) = Ok cls ->
  op_okM g true C S frs mx mixins root sels = true -> sels_strictM gs C S frs false root sels = true ->
  mx_ok cls mx = true ->
  nodupb (map c_name cls) = true -> no_basemodel cls = true -> frag_no_skip F C S frs = true ->
  n >= F + g + 2 ->
  accepts n cls (schema_enums S) (AClass (pascal_s name)) j = true ->
  covers n cls (AClass (pascal_s name)) j = true ->
  ev (fun fc => conf_op_gen lax_leaf false true fc S frs root sels j).
Proof.
  intros Hroot Hop Hall Hok Hst Hmx Hnd Hnb Hfs Hn Hacc Hcov.
  apply nodupb_NoDup in Hnd.
  unfold op_okM in Hok. apply andb_true_iff in Hok as [Hobj Hsels]. apply andb_true_iff in Hobj as [Hobj Hmix].
  assert (Hj : exists kv, j = JObj kv).
  { destruct n as [|n']; [discriminate Hacc|]. simpl in Hacc. destruct j; try discriminate Hacc. eauto. }
  destruct Hj as [kv Ej]. subst j.
  destruct (all_classes_prefix _ _ _ _ _ _ Hall) as [own' [rest [Hr Ecls]]].
  simpl in Hr. rewrite Hop in Hr. simpl in Hr. inversion Hr; subst own'. clear Hr.
  assert (Hown : incl own cls) by (rewrite Ecls; apply incl_appl, incl_refl).
  unfold op_parse in Hop. rewrite Hroot in Hop. simpl in Hop.
  assert (HF1 : F >= 1) by (destruct F; [discriminate Hop | lia]).
  pose proof (frag_runs _ _ _ _ _ _ Hall Hfs) as G2.
  destruct (sels_okM_inv _ _ _ _ _ _ _ _ _ _ _ Hsels) as [g' [fns [ms [_ [_ [Htop _]]]]]].
  destruct (Htop eq_refl) as [l [Hc [Hk Hpy]]].
  destruct n as [|n']; [lia|].
  change (class_accepts (accepts n' cls (schema_enums S)) (mro_fields n' cls (pascal_s name)) (JObj kv) = true) in Hacc.
  change (class_covers (covers n' cls) (mro_fields n' cls (pascal_s name)) (JObj kv) = true) in Hcov.
  assert (Hgood : class_goodS C S frs F cls g (pascal_s name) root l l).
  { eapply (mixS_main C S frs F cls mx Hmx Hnd Hnb G2 HF1 g gs F [] (pascal_s name) root sels false mixins None true false
                      own pub' g' l l); eauto.
    - discriminate.
    - apply (table_of_incl cls Hnd Hnb), Hown.
    - eapply mx_ok_harmless; eauto.
    - apply incl_refl.
    - split; [exact Hk | apply Hpy; reflexivity]. }
  assert (He : ev (fun fc => conf_obj_gen false (lconf fc S frs) S root (Some l) kv)).
  { eapply (class_goodS_conf C S frs F cls HF1 g (pascal_s name) root l kv n'); eauto.
    - split; [exact Hk | apply Hpy; reflexivity].
    - lia. }
  destruct He as [a Ha]. exists (Datatypes.S (Datatypes.S (max a g'))). intros [|[|k]] Hk'; try lia.
  unfold conf_op_gen. cbn [conf_val_gen]. unfold is_object in Hobj.
  destruct (lookup_type S root) as [[]|]; try discriminate Hobj.
  rewrite collect_scopes_single. rewrite (collect_mono _ _ _ _ _ _ _ Hc k) by lia. apply Ha. lia.
Qed.
