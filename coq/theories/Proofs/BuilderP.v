(* Proofs about Model/Builder.v (C14). *)
From Coq Require Import List String Ascii Bool Arith ZArith Lia DecimalString Decimal DecimalNat FinFun.
From AC Require Import Base.Strs Base.Sexp Base.Json Model.Names Model.Builder.
Import ListNotations.

(* ------------------------------------------------------------------------------------------ *)
(* strings, decimal printing                                                                  *)
(* ------------------------------------------------------------------------------------------ *)
Lemma mem_In x l : mem x l = true <-> In x l.
Proof.
  unfold mem. rewrite existsb_exists. split.
  - intros [y [H1 H2]]. apply String.eqb_eq in H2. subst. exact H1.
  - intro H. exists x. split; [exact H | apply String.eqb_refl].
Qed.

Lemma mem_false x l : mem x l = false <-> ~ In x l.
Proof.
  split; intro H.
  - intro Hi. apply mem_In in Hi. congruence.
  - destruct (mem x l) eqn:E; [|reflexivity]. apply mem_In in E. contradiction.
Qed.

Lemma append_inj_l s a b : (s ++ a = s ++ b)%string -> a = b.
Proof. induction s; simpl; intro H; [exact H | inversion H; auto]. Qed.

Lemma to_uint_nonnil n : Nat.to_uint n <> Nil.
Proof.
  intro H. assert (n = 0) by (rewrite <- (Unsigned.of_to n), H; reflexivity).
  subst. discriminate.
Qed.

Lemma nat_str_inj i j : nat_str i = nat_str j -> i = j.
Proof.
  unfold nat_str. intro H. apply (f_equal NilZero.uint_of_string) in H.
  rewrite !NilZero.usu in H by apply to_uint_nonnil.
  inversion H. apply Unsigned.to_uint_inj. assumption.
Qed.

Definition cand (base : string) (c : nat) : string := (base ++ "_" ++ nat_str c)%string.

Lemma cand_inj base : Injective (cand base).
Proof.
  intros i j H. unfold cand in H. apply append_inj_l in H. apply append_inj_l in H.
  apply nat_str_inj. exact H.
Qed.

(* ------------------------------------------------------------------------------------------ *)
(* _format_variable_name: the result is fresh, and the loop always terminates                  *)
(* ------------------------------------------------------------------------------------------ *)
Lemma name_loop_S f base c used :
  name_loop (S f) base c used =
  if mem (cand base c) used then name_loop f base (S c) used else Some (cand base c).
Proof. reflexivity. Qed.

Lemma name_loop_fresh fuel base c used u :
  name_loop fuel base c used = Some u -> ~ In u used.
Proof.
  revert c. induction fuel; intros c H; [discriminate|].
  rewrite name_loop_S in H. destruct (mem (cand base c) used) eqn:E.
  - eapply IHfuel. exact H.
  - inversion H; subst. apply mem_false. exact E.
Qed.

Lemma name_loop_none fuel base c used :
  name_loop fuel base c used = None -> forall i, i < fuel -> In (cand base (c + i)) used.
Proof.
  revert c. induction fuel; intros c H i Hi; [lia|].
  rewrite name_loop_S in H. destruct (mem (cand base c) used) eqn:E; [|discriminate].
  destruct i.
  - rewrite Nat.add_0_r. apply mem_In. exact E.
  - replace (c + S i) with (S c + i) by lia. apply IHfuel; [exact H | lia].
Qed.

Lemma name_loop_total base c used :
  exists u, name_loop (S (List.length used)) base c used = Some u.
Proof.
  destruct (name_loop (S (List.length used)) base c used) eqn:E; [eauto|].
  exfalso.
  pose proof (name_loop_none _ _ _ _ E) as Hall.
  set (l := map (fun i => cand base (c + i)) (seq 0 (S (List.length used)))).
  assert (Hnd : NoDup l).
  { apply Injective_map_NoDup; [|apply seq_NoDup].
    intros i j H. apply cand_inj in H. lia. }
  assert (Hincl : incl l used).
  { intros x Hx. apply in_map_iff in Hx as [i [<- Hi]]. apply in_seq in Hi. apply Hall. lia. }
  pose proof (NoDup_incl_length Hnd Hincl) as Hlen.
  unfold l in Hlen. rewrite map_length, seq_length in Hlen. lia.
Qed.

Theorem format_variable_name_fresh idx v used u :
  format_variable_name idx v used = Some u -> ~ In u used.
Proof.
  unfold format_variable_name. destruct (mem _ used) eqn:E.
  - apply name_loop_fresh.
  - intro H. inversion H; subst. apply mem_false. exact E.
Qed.

Theorem format_variable_name_total idx v used :
  exists u, format_variable_name idx v used = Some u.
Proof.
  unfold format_variable_name. destruct (mem _ used); [apply name_loop_total | eauto].
Qed.

(* ------------------------------------------------------------------------------------------ *)
(* unique variable names: the used-names set as invariant                                      *)
(* ------------------------------------------------------------------------------------------ *)
(* P used used' ks: the keys ks handed out between used and used' are pairwise distinct, new, and
   exactly what was added *)
Definition handed (used used' ks : list string) : Prop :=
  NoDup ks /\ (forall k, In k ks -> ~ In k used) /\ (forall x, In x used' <-> In x ks \/ In x used).

Lemma nodup_app {X} (a b : list X) :
  NoDup a -> NoDup b -> (forall x, In x a -> In x b -> False) -> NoDup (a ++ b).
Proof.
  induction a as [|x a IH]; simpl; intros Ha Hb Hd; [exact Hb|].
  inversion Ha; subst. constructor.
  - intro Hi. apply in_app_or in Hi as [Hi|Hi]; [contradiction | exact (Hd x (or_introl eq_refl) Hi)].
  - apply IH; auto. intros y Hy. apply Hd. right. exact Hy.
Qed.

Lemma handed_nil u : handed u u [].
Proof. repeat split; try constructor; simpl; intros; tauto. Qed.

Lemma handed_app u0 u1 u2 k1 k2 :
  handed u0 u1 k1 -> handed u1 u2 k2 -> handed u0 u2 (k1 ++ k2)%list.
Proof.
  intros [N1 [F1 E1]] [N2 [F2 E2]]. repeat split.
  - apply nodup_app; try assumption.
    intros x Hx1 Hx2. apply (F2 x Hx2). apply E1. left. exact Hx1.
  - intros k Hk Hu. apply in_app_or in Hk as [Hk|Hk].
    + apply (F1 k Hk Hu).
    + apply (F2 k Hk). apply E1. right. exact Hu.
  - intro Hx. apply E2 in Hx as [Hx|Hx].
    + left. apply in_or_app. right. exact Hx.
    + apply E1 in Hx as [Hx|Hx]; [left; apply in_or_app; left; exact Hx | right; exact Hx].
  - intros [Hx|Hx].
    + apply in_app_or in Hx as [Hx|Hx]; apply E2; [right; apply E1; left; exact Hx | left; exact Hx].
    + apply E2. right. apply E1. right. exact Hx.
Qed.

Lemma collect_handed idx used vs used' fs :
  collect idx used vs = Some (used', fs) ->
  handed used used' (map fv_key fs) /\ map fv_var fs = vs.
Proof.
  revert used used' fs. induction vs as [|v r IH]; simpl; intros used used' fs H.
  - inversion H; subst. split; [apply handed_nil | reflexivity].
  - destruct (format_variable_name idx (v_name v) used) as [u|] eqn:Eu; [|discriminate].
    destruct (collect idx (u :: used) r) as [[u2 fs2]|] eqn:Ec; [|discriminate].
    inversion H; subst. apply IH in Ec as [Hh Hm]. simpl. split; [|rewrite Hm; reflexivity].
    apply format_variable_name_fresh in Eu.
    change (u :: map fv_key fs2) with ([u] ++ map fv_key fs2)%list.
    apply handed_app with (u1 := u :: used); [|exact Hh].
    repeat split.
    + constructor; [intros []|constructor].
    + intros k [<-|[]]. exact Eu.
    + simpl. intros [->|Hx]; auto.
    + simpl. intros [[->|[]]|Hx]; auto.
Qed.

(* variable names occurring in a selection, in document order *)
Fixpoint sel_vars (s : sel string) : list string :=
  match s with
  | SF _ _ args sels =>
      (map snd args ++
       match sels with
       | None => []
       | Some l => (fix go (l : list (sel string)) : list string :=
                      match l with [] => [] | x :: r => sel_vars x ++ go r end) l
       end)%list
  | SI _ l => (fix go (l : list (sel string)) : list string :=
                 match l with [] => [] | x :: r => sel_vars x ++ go r end) l
  end.

Lemma sel_vars_go l :
  (fix go (l : list (sel string)) : list string :=
     match l with [] => [] | x :: r => (sel_vars x ++ go r)%list end) l = flat_map sel_vars l.
Proof. induction l; simpl; [reflexivity | rewrite IHl; reflexivity]. Qed.

Lemma flat_map_map {X Y Z} (f : X -> Y) (g : Y -> list Z) l :
  flat_map g (map f l) = flat_map (fun x => g (f x)) l.
Proof. induction l; simpl; [reflexivity | rewrite IHl; reflexivity]. Qed.


Lemma thread_handed {X Y} (g : list string -> X -> option (list string * Y)) (vars : Y -> list string) :
  (forall s x s' y, g s x = Some (s', y) -> handed s s' (vars y)) ->
  forall l s s' ys, thread g s l = Some (s', ys) -> handed s s' (flat_map vars ys).
Proof.
  intros Hg. induction l as [|x r IH]; simpl; intros s s' ys H.
  - inversion H; subst. apply handed_nil.
  - destruct (g s x) as [[s1 y]|] eqn:E1; [|discriminate].
    destruct (thread g s1 r) as [[s2 ys2]|] eqn:E2; [|discriminate].
    inversion H; subst. simpl. eapply handed_app; [eapply Hg; eassumption | eapply IH; eassumption].
Qed.

Lemma thread_nil_inv {St X Y} (g : St -> X -> option (St * Y)) s s' ys :
  thread g s [] = Some (s', ys) -> ys = [].
Proof. simpl. intro H. injection H as _ <-. reflexivity. Qed.

Lemma thread_cons {St X Y} (g : St -> X -> option (St * Y)) s x r :
  thread g s (x :: r) = match g s x with
                        | Some (s1, y) => match thread g s1 r with
                                          | Some (s2, ys) => Some (s2, y :: ys)
                                          | None => None end
                        | None => None end.
Proof. reflexivity. Qed.

(* one step of to_ast, named *)
Definition frag_step (f idx : nat) (s' : list string) (fr : string * list node)
  : option (list string * (string * list (sel string * node))) :=
  match thread (to_ast f idx) s' (snd fr) with
  | Some (s'', cs) => Some (s'', (fst fr, cs))
  | None => None end.

Definition node_sl (d : ndata) (subs : list node) (frs : list (string * list node)) (fmt : list fvar)
  (rs : list (sel string * node)) (frs' : list (string * list (sel string * node))) : sel string :=
  SF (eff_alias (d_alias d)) (d_name d)
     (map (fun fv => (v_name (fv_var fv), fv_key fv)) fmt)
     (if is_nil subs && is_nil frs then None
      else Some (map (fun r => fst r) rs ++
                 map (fun fr => SI (fst fr) (map (fun r => fst r) (snd fr))) frs')%list).
Definition node_ann (d : ndata) (fmt : list fvar)
  (rs : list (sel string * node)) (frs' : list (string * list (sel string * node))) : node :=
  N (set_fmt d fmt) (map (fun r => snd r) rs)
    (map (fun fr => (fst fr, map (fun r => snd r) (snd fr))) frs').

Lemma to_ast_S f idx u d subs frs :
  to_ast (S f) idx u (N d subs frs) =
  match collect idx u (d_vars d) with
  | Some (used1, fmt) =>
      match thread (to_ast f idx) used1 subs with
      | Some (s2, rs) =>
          match thread (frag_step f idx) s2 frs with
          | Some (s3, frs') => Some (s3, (node_sl d subs frs fmt rs frs', node_ann d fmt rs frs'))
          | None => None end
      | None => None end
  | None => None end.
Proof. reflexivity. Qed.

Lemma to_ast_N_inv f idx u d subs frs u' sl n' :
  to_ast (S f) idx u (N d subs frs) = Some (u', (sl, n')) ->
  exists used1 fmt s2 rs frs',
    collect idx u (d_vars d) = Some (used1, fmt) /\
    thread (to_ast f idx) used1 subs = Some (s2, rs) /\
    thread (frag_step f idx) s2 frs = Some (u', frs') /\
    sl = node_sl d subs frs fmt rs frs' /\ n' = node_ann d fmt rs frs'.
Proof.
  rewrite to_ast_S. intro H.
  destruct (collect idx u (d_vars d)) as [[used1 fmt]|] eqn:Ec; [|discriminate].
  destruct (thread (to_ast f idx) used1 subs) as [[s2 rs]|] eqn:E1; [|discriminate].
  destruct (thread (frag_step f idx) s2 frs) as [[s3 frs']|] eqn:E2; [|discriminate].
  injection H as <- <- <-. exists used1, fmt, s2, rs, frs'. repeat split; assumption.
Qed.

Definition rs_vars (rs : list (sel string * node)) : list string :=
  flat_map (fun r : sel string * node => sel_vars (fst r)) rs.
Definition frs_vars (frs' : list (string * list (sel string * node))) : list string :=
  flat_map (fun fr : string * list (sel string * node) => rs_vars (snd fr)) frs'.

Lemma sel_vars_node d subs frs fmt rs frs' :
  (subs = [] -> rs = []) -> (frs = [] -> frs' = []) ->
  sel_vars (node_sl d subs frs fmt rs frs') = (map fv_key fmt ++ rs_vars rs ++ frs_vars frs')%list.
Proof.
  intros H1 H2. unfold node_sl. simpl. rewrite map_map. simpl. f_equal.
  destruct (is_nil subs && is_nil frs) eqn:En.
  - apply andb_true_iff in En as [Ea Eb]. destruct subs; [|discriminate]. destruct frs; [|discriminate].
    rewrite H1, H2 by reflexivity. reflexivity.
  - rewrite sel_vars_go, flat_map_app, !flat_map_map. unfold rs_vars, frs_vars. f_equal.
    apply flat_map_ext. intros [t cs]. simpl. rewrite sel_vars_go, flat_map_map. reflexivity.
Qed.

Lemma to_ast_vars f idx u d subs frs u' sl n' :
  to_ast (S f) idx u (N d subs frs) = Some (u', (sl, n')) ->
  exists used1 fmt s2 rs frs',
    collect idx u (d_vars d) = Some (used1, fmt) /\
    thread (to_ast f idx) used1 subs = Some (s2, rs) /\
    thread (frag_step f idx) s2 frs = Some (u', frs') /\
    sl = node_sl d subs frs fmt rs frs' /\ n' = node_ann d fmt rs frs' /\
    sel_vars sl = (map fv_key fmt ++ rs_vars rs ++ frs_vars frs')%list.
Proof.
  intro H. apply to_ast_N_inv in H as [used1 [fmt [s2 [rs [frs' [Ec [E1 [E2 [-> ->]]]]]]]]].
  exists used1, fmt, s2, rs, frs'. repeat split; try assumption.
  apply sel_vars_node; intros ->; eapply thread_nil_inv; eassumption.
Qed.

Lemma to_ast_handed fuel : forall idx s n s' sl n',
  to_ast fuel idx s n = Some (s', (sl, n')) -> handed s s' (sel_vars sl).
Proof.
  induction fuel as [|f IH]; intros idx s [d subs frs] s' sl n' H; [discriminate|].
  apply to_ast_vars in H as [used1 [fmt [s2 [rs [frs' [Ec [E1 [E2 [-> [-> Hsv]]]]]]]]]].
  rewrite Hsv. apply collect_handed in Ec as [Hc _].
  eapply handed_app; [exact Hc|]. eapply handed_app.
  - apply (thread_handed (to_ast f idx) (fun r => sel_vars (fst r))) in E1; [exact E1|].
    intros s0 x s0' [a b] Hx. eapply IH. exact Hx.
  - apply (thread_handed (frag_step f idx) (fun fr => rs_vars (snd fr))) in E2; [exact E2|].
    intros s0 x s0' y Hx. unfold frag_step in Hx.
    destruct (thread (to_ast f idx) s0 (snd x)) as [[s4 cs]|] eqn:E3; [|discriminate].
    injection Hx as <- <-. simpl.
    apply (thread_handed (to_ast f idx) (fun r => sel_vars (fst r))) in E3; [exact E3|].
    intros s5 x5 s5' [a b] H5. eapply IH. exact H5.
Qed.

(* every variable name used by one top-level field's AST occurs once *)
Theorem unique_var_names fuel idx n s' sl n' :
  to_ast fuel idx [] n = Some (s', (sl, n')) -> NoDup (sel_vars sl).
Proof. intro H. apply to_ast_handed in H. destruct H as [H _]. exact H. Qed.

(* ------------------------------------------------------------------------------------------ *)
(* induction principle for builder expressions                                                 *)
(* ------------------------------------------------------------------------------------------ *)
Lemma bexpr_ind' (P : bexpr -> Prop) :
  (forall c f, P (Attr c f)) ->
  (forall c f a, P (Call c f a)) ->
  (forall e es, P e -> Forall P es -> P (Fields e es)) ->
  (forall e a, P e -> P (Alias e a)) ->
  (forall e t es, P e -> Forall P es -> P (On e t es)) ->
  forall e, P e.
Proof.
  intros HA HC HF HL HO. fix IH 1. intro e. destruct e as [c f|c f a|e es|e a|e t es].
  - apply HA.
  - apply HC.
  - apply HF; [apply IH|]. induction es; constructor; [apply IH | assumption].
  - apply HL. apply IH.
  - apply HO; [apply IH|]. induction es; constructor; [apply IH | assumption].
Qed.


Lemma evals_fix ct es :
  (fix go (l : list bexpr) {struct l} : option (list node) :=
     match l with
     | [] => Some []
     | x :: r => match eval ct x, go r with Some n, Some ns => Some (n :: ns) | _, _ => None end
     end) es = evals ct es.
Proof. induction es as [|x r IH]; simpl; [reflexivity | rewrite IH; reflexivity]. Qed.

(* ------------------------------------------------------------------------------------------ *)
(* the generated class table is well formed: GraphQL names, exact types                        *)
(* ------------------------------------------------------------------------------------------ *)
Definition wf_arg (am : argmeta) : Prop := am_type am = am_exact am.
Definition wf_field (fm : fieldmeta) : Prop :=
  fm_emit fm = fm_gql fm /\ Forall wf_arg (fm_args fm) /\
  (fm_method fm = false -> can_fields (fm_okind fm) = false).
Definition wf_ct (ct : list classmeta) : Prop := Forall (fun cm => Forall wf_field (cm_fields cm)) ct.

Lemma arg_metas_wf c l : Forall wf_arg (map (arg_meta c) l).
Proof. apply Forall_forall. intros am H. apply in_map_iff in H as [a [<- _]]. reflexivity. Qed.

Lemma field_meta_wf c s owner f : wf_field (field_meta c s owner f).
Proof.
  unfold field_meta, wf_field. destruct (kind_of s (final_name (fd_type f))); simpl;
    (split; [reflexivity | split; [apply arg_metas_wf|]]); try reflexivity;
    rewrite orb_true_r; discriminate.
Qed.

Lemma root_field_meta_wf c s f : wf_field (root_field_meta c s f).
Proof.
  unfold root_field_meta, wf_field. simpl. split; [reflexivity | split; [apply arg_metas_wf | discriminate]].
Qed.

Theorem gen_classes_wf c s q m : wf_ct (gen_classes c s q m).
Proof.
  unfold wf_ct, gen_classes.
  assert (R : forall n cls, Forall (fun cm => Forall wf_field (cm_fields cm))
            (match n with
             | Some tn => match lookup_type s tn with Some td => [root_class c s cls td] | None => [] end
             | None => [] end)).
  { intros [tn|] cls; [|constructor]. destruct (lookup_type s tn); constructor; [|constructor].
    simpl. apply Forall_forall. intros fm H. apply in_map_iff in H as [f [<- _]]. apply root_field_meta_wf. }
  apply Forall_app. split; [apply R|]. apply Forall_app. split; [apply R|].
  apply Forall_forall. intros cm H. apply in_map_iff in H as [td [<- _]]. simpl.
  apply Forall_forall. intros fm H. apply in_map_iff in H as [f [<- _]]. apply field_meta_wf.
Qed.

Lemma find_fm_wf ct cls f fm : wf_ct ct -> find_fm ct cls f = Some fm -> wf_field fm.
Proof.
  unfold find_fm, find_class, find_field. intros Hw H.
  destruct (find (fun cm => streq (cm_name cm) cls) ct) as [cm|] eqn:E; [|discriminate].
  apply find_some in E as [Hin _]. apply find_some in H as [Hin2 _].
  unfold wf_ct in Hw. rewrite Forall_forall in Hw. specialize (Hw _ Hin).
  rewrite Forall_forall in Hw. apply Hw. exact Hin2.
Qed.

Lemma omap_map_in {X Y} (f : X -> option Y) (g : X -> Y) l :
  (forall x, In x l -> f x = Some (g x)) -> omap f l = Some (map g l).
Proof.
  induction l as [|x r IH]; simpl; intro H; [reflexivity|].
  rewrite (H x (or_introl eq_refl)), IH; [reflexivity|]. intros y Hy. apply H. right. exact Hy.
Qed.

Lemma omap_map_inv {X Y} (f : X -> option Y) (g : X -> Y) l :
  omap f l = Some (map g l) -> forall x, In x l -> f x = Some (g x).
Proof.
  induction l as [|x r IH]; simpl; intros H y Hy; [contradiction|].
  destruct (f x) as [a|] eqn:Ea; [|discriminate]. destruct (omap f r) as [b|] eqn:Eb; [|discriminate].
  injection H as -> ->. destruct Hy as [<-|Hy]; [exact Ea | apply IH; [reflexivity | exact Hy]].
Qed.

Lemma lst_items_ok f g it v :
  (forall x, nn_ok false it x = true -> f x = Some (g x)) ->
  match v with JArr l => forallb (nn_ok false it) l | _ => false end = true ->
  lst f v = Some (lsts g v).
Proof.
  intros H Hv. destruct v; try discriminate. simpl.
  rewrite (omap_map_in f g); [reflexivity|]. intros x Hx. apply H.
  rewrite forallb_forall in Hv. apply Hv. exact Hx.
Qed.

Lemma lst_items_bad f g it v :
  (forall x, nn_ok false it x = false -> f x <> Some (g x)) -> is_null v = false ->
  match v with JArr l => forallb (nn_ok false it) l | _ => false end = false ->
  lst f v <> Some (lsts g v).
Proof.
  intros H Hn Hv. destruct v; simpl; try discriminate.
  intro Heq. destruct (omap f l) as [b|] eqn:Eo; [|discriminate]. simpl in Heq. injection Heq as ->.
  assert (Hall : forallb (nn_ok false it) l = true).
  { apply forallb_forall. intros x Hx. destruct (nn_ok false it x) eqn:E; [reflexivity|].
    exfalso. apply (H x E). eapply omap_map_inv; eassumption. }
  congruence.
Qed.

(* the generated serialize expression computes the specified element-wise serialisation EXACTLY on the
   values of the argument's type (arrays at list positions, no None at a non-null item position);
   on every other value it raises or serialises a None *)
Lemma ser_t_spec : forall t top v, nn_ok top t v = true -> ser_t top t v = Some (ser_spec t v).
Proof.
  induction t as [n|it IH|t' IH]; intros top v H.
  - simpl. unfold guardo, guardn. destruct (is_null v); reflexivity.
  - simpl in *. unfold guardo, guardn. destruct (is_null v) eqn:En; [reflexivity|]. simpl in H.
    apply (lst_items_ok _ _ it); [|exact H]. intros x Hx. apply IH. exact Hx.
  - simpl in *. destruct t' as [n|it|t''].
    + unfold guardo, guardn. destruct top; simpl in H.
      * destruct (is_null v); reflexivity.
      * destruct (is_null v); [discriminate | reflexivity].
    + assert (Hl : forall x, nn_ok false it x = true -> ser_t false it x = Some (ser_spec it x)).
      { intros x Hx. specialize (IH false (JArr [x])). simpl in IH. rewrite Hx in IH.
        specialize (IH eq_refl). unfold guardo, guardn in IH. simpl in IH.
        destruct (ser_t false it x); [|discriminate]. injection IH as ->. reflexivity. }
      unfold guardo, guardn. destruct (is_null v) eqn:En.
      * destruct top; [reflexivity|]. simpl in H. destruct v; discriminate.
      * assert (Hi : match v with JArr l => forallb (nn_ok false it) l | _ => false end = true)
          by (destruct top; simpl in H; exact H).
        rewrite (lst_items_ok _ _ it _ Hl Hi). destruct top; reflexivity.
    + unfold guardo, guardn. destruct top; simpl in H.
      * destruct (is_null v); reflexivity.
      * destruct (is_null v); [discriminate | reflexivity].
Qed.

Lemma ser_t_tight : forall t top v, nn_ok top t v = false -> ser_t top t v <> Some (ser_spec t v).
Proof.
  induction t as [n|it IH|t' IH]; intros top v H.
  - discriminate.
  - simpl in *. apply orb_false_iff in H as [Hn Hi]. unfold guardo, guardn. rewrite Hn.
    apply (lst_items_bad _ _ it); [|exact Hn|exact Hi]. intros x Hx. apply IH. exact Hx.
  - simpl in *. destruct t' as [n|it|t''].
    + apply orb_false_iff in H as [-> Hn]. apply negb_false_iff in Hn.
      unfold guardn. rewrite Hn. destruct v; discriminate.
    + assert (Hl : forall x, nn_ok false it x = false -> ser_t false it x <> Some (ser_spec it x)).
      { intros x Hx Heq. apply (IH false (JArr [x])).
        - simpl. rewrite Hx. reflexivity.
        - simpl. unfold guardo, guardn. simpl. rewrite Heq. reflexivity. }
      apply orb_false_iff in H as [Ht Hi]. unfold guardo, guardn.
      destruct (is_null v) eqn:En.
      * rewrite andb_true_r in Ht. subst top. destruct v; discriminate.
      * pose proof (lst_items_bad _ _ it v Hl En Hi) as Hb. destruct top; exact Hb.
    + apply orb_false_iff in H as [-> Hn]. apply negb_false_iff in Hn.
      unfold guardn. rewrite Hn. destruct v; discriminate.
Qed.

Lemma ser_spec_null t v : is_null (ser_spec t v) = is_null v.
Proof.
  destruct t as [n|it|t']; simpl; unfold guardn; destruct v; try reflexivity;
    destruct t'; reflexivity.
Qed.

(* type_exact + none_omitted + values_bound for one classmethod call: the variables put on the object
   are the ideal ones — exact type, caller's value serialised element-wise, None omitted *)
Lemma call_vars_exact args ams :
  Forall wf_arg ams -> args_conform ams args = true -> call_vars ams args = ideal_vars ams args.
Proof.
  induction 1 as [|am r Ha _ IH]; simpl; intro Hc; [reflexivity|].
  apply andb_true_iff in Hc as [Hc1 Hc2]. rewrite (IH Hc2). clear IH Hc2.
  unfold wf_arg in Ha. unfold arg_value in Hc1.
  assert (G : forall v, (negb (am_ser am) || nn_ok true (am_ty am) v = true) ->
            forall vs,
            match (if am_ser am then ser_t true (am_ty am) v else Some v) with
            | Some v' => Some (if is_null v' then vs
                               else {| v_name := am_gql am; v_type := am_type am; v_value := v' |} :: vs)
            | None => None end
            = Some (if is_null v then vs
               else {| v_name := am_gql am; v_type := am_exact am;
                       v_value := if am_ser am then ser_spec (am_ty am) v else v |} :: vs)).
  { intros v Hv vs. rewrite Ha. destruct (am_ser am); [|reflexivity]. simpl in Hv.
    rewrite (ser_t_spec _ _ _ Hv), ser_spec_null. reflexivity. }
  destruct (dlookup (am_gql am) args) as [v|].
  - destruct (ideal_vars r args) as [vs|]; [|reflexivity]. rewrite (G v Hc1). reflexivity.
  - destruct (am_required am); [reflexivity|].
    destruct (ideal_vars r args) as [vs|]; [|reflexivity]. rewrite (G JNull Hc1). reflexivity.
Qed.

(* ------------------------------------------------------------------------------------------ *)
(* variable names are unique across ALL top-level fields of an operation                       *)
(* ------------------------------------------------------------------------------------------ *)
Definition op_vars (sns : list (sel string * node)) : list string :=
  flat_map (fun r : sel string * node => sel_vars (fst r)) sns.

Lemma build_sels_from_handed fuel : forall ns idx s s' sns,
  build_sels_from fuel idx s ns = Some (s', sns) -> handed s s' (op_vars sns).
Proof.
  induction ns as [|n r IH]; simpl; intros idx s s' sns H.
  - injection H as <- <-. apply handed_nil.
  - destruct (to_ast fuel idx s n) as [[s1 [sl n1]]|] eqn:E; [|discriminate].
    destruct (build_sels_from fuel (S idx) s1 r) as [[s2 sns2]|] eqn:E2; [|discriminate].
    injection H as <- <-. unfold op_vars. simpl.
    eapply handed_app; [eapply to_ast_handed; exact E | eapply IH; exact E2].
Qed.

Theorem unique_var_names_operation fuel ns sns :
  build_sels fuel ns = Some sns -> NoDup (op_vars sns).
Proof.
  unfold build_sels. intro H.
  destruct (build_sels_from fuel 0 [] ns) as [[u sns1]|] eqn:E; [|discriminate].
  injection H as <-. apply build_sels_from_handed in E. destruct E as [E _]. exact E.
Qed.

(* ------------------------------------------------------------------------------------------ *)
(* Python dicts as association lists                                                            *)
(* ------------------------------------------------------------------------------------------ *)
Definition keys {X} (d : list (string * X)) : list string := map fst d.

Lemma dset_fresh {X} (d : list (string * X)) k v : ~ In k (keys d) -> dset d k v = (d ++ [(k, v)])%list.
Proof.
  induction d as [|[k' v'] r IH]; simpl; intro H; [reflexivity|].
  destruct (streq k k') eqn:E.
  - apply String.eqb_eq in E. subst. exfalso. apply H. left. reflexivity.
  - rewrite IH; [reflexivity|]. intro Hi. apply H. right. exact Hi.
Qed.

Lemma dupdate_fresh {X} (l : list (string * X)) : forall d,
  NoDup (keys l) -> (forall k, In k (keys l) -> ~ In k (keys d)) -> dupdate d l = (d ++ l)%list.
Proof.
  unfold dupdate. induction l as [|[k v] r IH]; intros d Hn Hd; simpl.
  - rewrite app_nil_r. reflexivity.
  - simpl in Hn. inversion Hn as [|? ? Hk Hr]; subst.
    rewrite dset_fresh by (apply Hd; left; reflexivity).
    rewrite IH; [rewrite <- app_assoc; reflexivity | exact Hr |].
    intros k' Hk' Hin. unfold keys in Hin. rewrite map_app in Hin. apply in_app_or in Hin as [Hin|Hin].
    + apply (Hd k'); [right; exact Hk' | exact Hin].
    + simpl in Hin. destruct Hin as [<-|[]]. contradiction.
Qed.

Lemma dlookup_in_nodup {X} (d : list (string * X)) k v :
  NoDup (keys d) -> In (k, v) d -> dlookup k d = Some v.
Proof.
  induction d as [|[k' v'] r IH]; simpl; intros Hn Hi; [contradiction|].
  inversion Hn as [|? ? Hk Hr]; subst. destruct Hi as [Hi|Hi].
  - inversion Hi; subst. unfold streq. rewrite String.eqb_refl. reflexivity.
  - destruct (streq k k') eqn:E.
    + apply String.eqb_eq in E. subst. exfalso. apply Hk. apply in_map_iff. exists (k', v). split; auto.
    + apply IH; assumption.
Qed.

Lemma dlookup_map {X Y} (f : X -> Y) (d : list (string * X)) k :
  dlookup k (map (fun kv => (fst kv, f (snd kv))) d) = option_map f (dlookup k d).
Proof.
  induction d as [|[k' v'] r IH]; simpl; [reflexivity|]. destruct (streq k k'); [reflexivity | exact IH].
Qed.

(* ------------------------------------------------------------------------------------------ *)
(* unfolding lemmas for the nested fixpoints                                                    *)
(* ------------------------------------------------------------------------------------------ *)
Fixpoint rargs {A} (look : string -> option A) (l : list (string * string)) : option (list (string * A)) :=
  match l with
  | [] => Some []
  | (an, vn) :: r => match look vn, rargs look r with
                     | Some a, Some b => Some ((an, a) :: b) | _, _ => None end
  end.

Lemma resolve_SF {A} (look : string -> option A) al nm args sels :
  resolve look (SF al nm args sels) =
  match rargs look args, (match sels with
                          | None => Some None
                          | Some l => option_map Some (omap (resolve look) l) end) with
  | Some a, Some sl => Some (SF al nm a sl)
  | _, _ => None end.
Proof.
  simpl.
  assert (Ha : forall l0, (fix ga (l : list (string * string)) : option (list (string * A)) :=
                match l with
                | [] => Some []
                | (an, vn) :: r => match look vn, ga r with
                                   | Some a, Some b => Some ((an, a) :: b) | _, _ => None end
                end) l0 = rargs look l0).
  { intro l0. induction l0 as [|[an vn] r IH]; simpl; [reflexivity | rewrite IH; reflexivity]. }
  rewrite Ha. destruct (rargs look args) as [ra|]; [|reflexivity].
  destruct sels as [l|]; [|reflexivity].
  assert (Hl : forall l', (fix go (l : list (sel string)) : option (list (sel A)) :=
                match l with
                | [] => Some []
                | x :: r => match resolve look x, go r with Some a, Some b => Some (a :: b) | _, _ => None end
                end) l' = omap (resolve look) l').
  { intro l'. induction l' as [|x r IH]; simpl; [reflexivity | rewrite IH; reflexivity]. }
  rewrite Hl. reflexivity.
Qed.

Lemma resolve_SI {A} (look : string -> option A) t l :
  resolve look (SI t l) = option_map (SI t) (omap (resolve look) l).
Proof.
  simpl. f_equal. induction l as [|x r IH]; simpl; [reflexivity | rewrite IH; reflexivity].
Qed.

Lemma resolves_omap {A} (look : string -> option A) l : resolves look l = omap (resolve look) l.
Proof. induction l as [|x r IH]; simpl; [reflexivity | rewrite IH; reflexivity]. Qed.

Lemma omap_app {X Y} (f : X -> option Y) a b :
  omap f (a ++ b) = match omap f a, omap f b with Some x, Some y => Some (x ++ y)%list | _, _ => None end.
Proof.
  induction a as [|x r IH]; simpl.
  - destruct (omap f b); reflexivity.
  - destruct (f x); [|reflexivity]. rewrite IH. destruct (omap f r); [|reflexivity].
    destruct (omap f b); reflexivity.
Qed.

Lemma ideals_fix ct es :
  (fix go (l : list bexpr) : option (list node) :=
     match l with
     | [] => Some []
     | x :: r => match ideal ct x, go r with Some n, Some ns => Some (n :: ns) | _, _ => None end
     end) es = ideals ct es.
Proof. induction es as [|x r IH]; simpl; [reflexivity | rewrite IH; reflexivity]. Qed.


Lemma g_conform_fix ct es :
  (fix go (l : list bexpr) : bool := match l with [] => true | x :: r => g_conform ct x && go r end) es
  = forallb (g_conform ct) es.
Proof. induction es; simpl; [reflexivity | rewrite IHes; reflexivity]. Qed.

(* ------------------------------------------------------------------------------------------ *)
(* Step A: the evaluated object tree IS the ideal tree                                          *)
(* ------------------------------------------------------------------------------------------ *)
Lemma evals_ideals ct es :
  Forall (fun e => g_conform ct e = true -> eval ct e = ideal ct e) es ->
  forallb (g_conform ct) es = true -> evals ct es = ideals ct es.
Proof.
  induction 1 as [|x r Hx _ IH]; simpl; intro Hc; [reflexivity|].
  apply andb_true_iff in Hc as [C1 C2]. rewrite (Hx C1), (IH C2). reflexivity.
Qed.

(* names_graphql + type_exact + none_omitted + values_bound at the level of objects: for well-typed
   values, what the builder calls construct is exactly the tree the expression stands for — including
   the cases where there is none (unknown class/field/argument, missing required argument,
   fields()/on() on a class without them) *)
Theorem eval_ideal ct : wf_ct ct -> forall e, g_conform ct e = true -> eval ct e = ideal ct e.
Proof.
  intros Hw. induction e using bexpr_ind'; intro Hcf.
  - simpl. destruct (find_fm ct c f) as [fm|] eqn:Ef; [|reflexivity].
    destruct (find_fm_wf _ _ _ _ Hw Ef) as [-> _]. reflexivity.
  - simpl in *. destruct (find_fm ct c f) as [fm|] eqn:Ef; [|reflexivity].
    destruct (find_fm_wf _ _ _ _ Hw Ef) as [-> [Hargs _]].
    rewrite (call_vars_exact a _ Hargs Hcf). reflexivity.
  - simpl in Hcf. rewrite g_conform_fix in Hcf. apply andb_true_iff in Hcf as [C1 C2].
    simpl. rewrite evals_fix, ideals_fix, (IHe C1), (evals_ideals ct es H C2). reflexivity.
  - simpl in *. rewrite (IHe Hcf). reflexivity.
  - simpl in Hcf. rewrite g_conform_fix in Hcf. apply andb_true_iff in Hcf as [C1 C2].
    simpl. rewrite evals_fix, ideals_fix, (IHe C1), (evals_ideals ct es H C2). reflexivity.
Qed.

Lemma evals_ideals_all ct (Hw : wf_ct ct) es :
  forallb (g_conform ct) es = true -> evals ct es = ideals ct es.
Proof. apply evals_ideals. apply Forall_forall. intros e _. apply eval_ideal. exact Hw. Qed.

Lemma nodup_app_inv {X} (a b : list X) :
  NoDup (a ++ b) -> NoDup a /\ NoDup b /\ (forall x, In x a -> In x b -> False).
Proof.
  induction a as [|x a IH]; simpl; intro H.
  - repeat split; [constructor | exact H | intros ? []].
  - inversion H as [|? ? Hx Hr]; subst. destruct (IH Hr) as [Ha [Hb Hd]]. repeat split.
    + constructor; [|exact Ha]. intro Hi. apply Hx. apply in_or_app. left. exact Hi.
    + exact Hb.
    + intros y [<-|Hy] Hyb; [apply Hx; apply in_or_app; right; exact Hyb | eapply Hd; eassumption].
Qed.


(* ------------------------------------------------------------------------------------------ *)
(* Step B: to_ast + get_formatted_variables of an object tree resolve to its own selection      *)
(* ------------------------------------------------------------------------------------------ *)
Section Faithful.
Context {A : Type} (pj : var -> A).

Definition agree (L : string -> option A) (G : list (string * var)) : Prop :=
  forall k v, In (k, v) G -> L k = Some (pj v).

Lemma agree_app L a b : agree L (a ++ b) -> agree L a /\ agree L b.
Proof. intro H. split; intros k v Hi; apply H; apply in_or_app; [left|right]; exact Hi. Qed.

Lemma rargs_fmt L fmt : agree L (map fmt_entry fmt) ->
  rargs L (map (fun fv => (v_name (fv_var fv), fv_key fv)) fmt)
  = Some (map (fun v => (v_name v, pj v)) (map fv_var fmt)).
Proof.
  induction fmt as [|fv r IH]; simpl; intro H; [reflexivity|].
  rewrite (H (fv_key fv) (fv_var fv)) by (left; reflexivity).
  rewrite IH; [reflexivity|]. intros k v Hi. apply H. right. exact Hi.
Qed.

Definition Gs (f : nat) (rs : list (sel string * node)) : list (string * var) :=
  flat_map (fun r : sel string * node => get_formatted_variables f (snd r)) rs.
Definition Gf (f : nat) (frs' : list (string * list (sel string * node))) : list (string * var) :=
  flat_map (fun fr : string * list (sel string * node) => Gs f (snd fr)) frs'.

(* vars_collected at every depth: the keys collected from the annotated tree are exactly the
   variables of the AST, in order; and the AST resolves to the tree's own selection *)
Definition goodB (f : nat) : Prop := forall idx s n s' sl n',
  to_ast f idx s n = Some (s', (sl, n')) ->
  keys (get_formatted_variables f n') = sel_vars sl /\
  (forall L, agree L (get_formatted_variables f n') ->
   forall f2 isl, node_sel pj f2 n = Some isl -> resolve L sl = Some isl).

Lemma B_list f (IH : goodB f) idx : forall xs s s' rs,
  thread (to_ast f idx) s xs = Some (s', rs) ->
  keys (Gs f rs) = rs_vars rs /\
  (forall L, agree L (Gs f rs) -> forall f2 isls, omap (node_sel pj f2) xs = Some isls ->
   omap (resolve L) (map (fun r => fst r) rs) = Some isls).
Proof.
  induction xs as [|x xs IHl]; intros s s' rs H.
  - apply thread_nil_inv in H. subst. split; [reflexivity|].
    intros L _ f2 isls Hi. simpl in Hi. injection Hi as <-. reflexivity.
  - rewrite thread_cons in H.
    destruct (to_ast f idx s x) as [[s1 [sl n1]]|] eqn:E1; [|discriminate].
    destruct (thread (to_ast f idx) s1 xs) as [[s2 rs2]|] eqn:E2; [|discriminate].
    injection H as <- <-.
    destruct (IH _ _ _ _ _ _ E1) as [K1 R1]. destruct (IHl _ _ _ E2) as [K2 R2]. split.
    + unfold Gs, rs_vars, keys in *. simpl. rewrite map_app. simpl in K1. rewrite K1, K2. reflexivity.
    + intros L Ha f2 isls Hi. unfold Gs in Ha. simpl in Ha. apply agree_app in Ha as [Ha1 Ha2].
      simpl in Hi. destruct (node_sel pj f2 x) as [a|] eqn:N1; [|discriminate].
      destruct (omap (node_sel pj f2) xs) as [b|] eqn:N2; [|discriminate]. injection Hi as <-.
      simpl. rewrite (R1 L Ha1 f2 a N1). rewrite (R2 L Ha2 f2 b N2). reflexivity.
Qed.

Lemma B_frags f (IH : goodB f) idx : forall frs s s' frs',
  thread (frag_step f idx) s frs = Some (s', frs') ->
  keys (Gf f frs') = frs_vars frs' /\
  (forall L, agree L (Gf f frs') -> forall f2 isls,
   omap (fun fr : string * list node => option_map (SI (fst fr)) (omap (node_sel pj f2) (snd fr))) frs = Some isls ->
   omap (resolve L) (map (fun fr => SI (fst fr) (map (fun r => fst r) (snd fr))) frs') = Some isls).
Proof.
  induction frs as [|x xs IHl]; intros s s' frs' H.
  - apply thread_nil_inv in H. subst. split; [reflexivity|].
    intros L _ f2 isls Hi. simpl in Hi. injection Hi as <-. reflexivity.
  - rewrite thread_cons in H. unfold frag_step at 1 in H.
    destruct (thread (to_ast f idx) s (snd x)) as [[s1 cs]|] eqn:E1; [|discriminate].
    destruct (thread (frag_step f idx) s1 xs) as [[s2 rs2]|] eqn:E2; [|discriminate].
    injection H as <- <-.
    destruct (B_list f IH idx _ _ _ _ E1) as [K1 R1]. destruct (IHl _ _ _ E2) as [K2 R2]. split.
    + unfold Gf, frs_vars, keys in *. simpl. rewrite map_app. rewrite K2. f_equal. exact K1.
    + intros L Ha f2 isls Hi. unfold Gf in Ha. simpl in Ha. apply agree_app in Ha as [Ha1 Ha2].
      simpl in Hi.
      destruct (omap (node_sel pj f2) (snd x)) as [a|] eqn:N1; [|discriminate]. simpl in Hi.
      destruct (omap (fun fr : string * list node =>
                        option_map (SI (fst fr)) (omap (node_sel pj f2) (snd fr))) xs) as [b|] eqn:N2;
        [|discriminate]. injection Hi as <-.
      cbn [map omap fst snd]. rewrite resolve_SI. rewrite (R1 L Ha1 f2 a N1). cbn [option_map].
      rewrite (R2 L Ha2 f2 b N2). reflexivity.
Qed.

Lemma goodB_all : forall f, goodB f.
Proof.
  induction f as [|f IH]; intros idx s [d subs frs] s' sl n' H; [discriminate|].
  pose proof (to_ast_handed _ _ _ _ _ _ _ H) as [Hnd _].
  apply to_ast_vars in H as [used1 [fmt [s2 [rs [frs2 [Ec [E1 [E2 [-> [-> Hsv]]]]]]]]]].
  apply collect_handed in Ec as [_ Hvars].
  destruct (B_list f IH idx _ _ _ _ E1) as [K1 R1].
  destruct (B_frags f IH idx _ _ _ _ E2) as [K2 R2].
  rewrite Hsv in Hnd.
  assert (HG : get_formatted_variables (S f) (node_ann d fmt rs frs2)
               = (map fmt_entry fmt ++ Gs f rs ++ Gf f frs2)%list).
  { unfold node_ann. simpl. rewrite !flat_map_map. simpl.
    replace (flat_map (fun x : string * list (sel string * node) =>
               flat_map (get_formatted_variables f) (map (fun r => snd r) (snd x))) frs2)
      with (Gf f frs2)
      by (unfold Gf, Gs; apply flat_map_ext; intros [t cs]; simpl; rewrite flat_map_map; reflexivity).
    change (flat_map (fun x : sel string * node => get_formatted_variables f (snd x)) rs) with (Gs f rs).
    apply nodup_app_inv in Hnd as [_ [Hn2 Hd]].
    apply dupdate_fresh.
    - unfold keys. rewrite map_app. unfold keys in K1, K2. rewrite K1, K2. exact Hn2.
    - intros k Hk Hk2. unfold keys in Hk, Hk2. rewrite map_app in Hk. unfold keys in K1, K2.
      rewrite K1, K2 in Hk. rewrite map_map in Hk2. simpl in Hk2. eapply Hd; eassumption. }
  rewrite HG. split.
  - unfold keys. rewrite !map_app. unfold keys in K1, K2. rewrite K1, K2, Hsv, map_map. reflexivity.
  - intros L Ha f2 isl Hi. apply agree_app in Ha as [Ha0 Ha12]. apply agree_app in Ha12 as [Ha1 Ha2].
    destruct f2 as [|f2']; [discriminate|]. simpl in Hi.
    destruct (omap (node_sel pj f2') subs) as [ss|] eqn:N1; [|discriminate].
    destruct (omap (fun fr : string * list node =>
                      option_map (SI (fst fr)) (omap (node_sel pj f2') (snd fr))) frs) as [fs|] eqn:N2;
      [|discriminate].
    injection Hi as <-. unfold node_sl. rewrite resolve_SF.
    rewrite (rargs_fmt L fmt Ha0), Hvars.
    destruct (is_nil subs && is_nil frs); [reflexivity|].
    rewrite omap_app, (R1 L Ha1 f2' ss N1), (R2 L Ha2 f2' fs N2). reflexivity.
Qed.

(* totality of to_ast: fuel = depth of the tree *)
Lemma collect_total idx : forall vs used, exists r, collect idx used vs = Some r.
Proof.
  induction vs as [|v r IH]; intro used; simpl; [eauto|].
  destruct (format_variable_name_total idx (v_name v) used) as [u ->].
  destruct (IH (u :: used)) as [[u2 fs] ->]. eauto.
Qed.

Definition totalB (f : nat) : Prop := forall idx s n isl,
  node_sel pj f n = Some isl -> exists s' r, to_ast f idx s n = Some (s', r).

Lemma T_list f (IH : totalB f) idx : forall xs isls, omap (node_sel pj f) xs = Some isls ->
  forall s, exists s' rs, thread (to_ast f idx) s xs = Some (s', rs).
Proof.
  induction xs as [|x xs IHl]; intros isls Hi s; simpl in Hi.
  { exists s, []. reflexivity. }
  destruct (node_sel pj f x) as [a|] eqn:N1; [|discriminate].
  destruct (omap (node_sel pj f) xs) as [b|] eqn:N2; [|discriminate].
  destruct (IH idx s x a N1) as [s1 [r E1]]. destruct (IHl _ eq_refl s1) as [s2 [rs E2]].
  rewrite thread_cons, E1, E2. eauto.
Qed.

Lemma T_frags f (IH : totalB f) idx : forall frs isls,
  omap (fun fr : string * list node => option_map (SI (fst fr)) (omap (node_sel pj f) (snd fr))) frs = Some isls ->
  forall s, exists s' frs', thread (frag_step f idx) s frs = Some (s', frs').
Proof.
  induction frs as [|x xs IHl]; intros isls Hi s; simpl in Hi.
  { exists s, []. reflexivity. }
  destruct (omap (node_sel pj f) (snd x)) as [a|] eqn:N1; [|discriminate]. simpl in Hi.
  destruct (omap (fun fr : string * list node =>
                    option_map (SI (fst fr)) (omap (node_sel pj f) (snd fr))) xs) as [b|] eqn:N2; [|discriminate].
  destruct (T_list f IH idx _ _ N1 s) as [s1 [cs E1]]. destruct (IHl _ eq_refl s1) as [s2 [frs2 E2]].
  rewrite thread_cons. unfold frag_step at 1. rewrite E1, E2. eauto.
Qed.

Lemma totalB_all : forall f, totalB f.
Proof.
  induction f as [|f IH]; intros idx s [d subs frs] isl Hn; [discriminate|].
  simpl in Hn.
  destruct (omap (node_sel pj f) subs) as [ss|] eqn:N1; [|discriminate].
  destruct (omap (fun fr : string * list node =>
                    option_map (SI (fst fr)) (omap (node_sel pj f) (snd fr))) frs) as [fs|] eqn:N2;
    [|discriminate].
  destruct (collect_total idx (d_vars d) s) as [[used1 fmt] Ec].
  destruct (T_list f IH idx _ _ N1 used1) as [s2 [rs E1]].
  destruct (T_frags f IH idx _ _ N2 s2) as [s3 [frs2 E2]].
  rewrite to_ast_S, Ec, E1, E2. eauto.
Qed.
End Faithful.

(* ------------------------------------------------------------------------------------------ *)
(* Reuse: a field object that already went through an operation builds the same request again   *)
(* (formatted_variables left by the earlier operation are recomputed, never read)               *)
(* ------------------------------------------------------------------------------------------ *)
Definition reuseB (f : nat) : Prop := forall idx u n u' sl n',
  to_ast f idx u n = Some (u', (sl, n')) -> forall i2 u2, to_ast f i2 u2 n' = to_ast f i2 u2 n.

Lemma thread_reuse {X} (g : list string -> X -> option (list string * (sel string * X)))
      (h : list string -> X -> option (list string * (sel string * X))) :
  forall xs s s' rs, thread g s xs = Some (s', rs) ->
  (forall x s0 s0' r, In x xs -> g s0 x = Some (s0', r) -> forall u, h u (snd r) = h u x) ->
  forall u, thread h u (map (fun r => snd r) rs) = thread h u xs.
Proof.
  induction xs as [|x xs IH]; intros s s' rs H Hx u.
  - apply thread_nil_inv in H. subst. reflexivity.
  - rewrite thread_cons in H. destruct (g s x) as [[s1 r]|] eqn:E1; [|discriminate].
    destruct (thread g s1 xs) as [[s2 rs2]|] eqn:E2; [|discriminate]. injection H as <- <-.
    simpl map. rewrite !thread_cons. rewrite (Hx x s s1 r (or_introl eq_refl) E1 u).
    destruct (h u x) as [[u1 y]|]; [|reflexivity].
    rewrite (IH _ _ _ E2); [reflexivity|]. intros x0 s0 s0' r0 Hin. apply Hx. right. exact Hin.
Qed.

Lemma frags_reuse f idx i2 (IH : reuseB f) : forall frs s2 u' frs2,
  thread (frag_step f idx) s2 frs = Some (u', frs2) ->
  forall w, thread (frag_step f i2) w
      (map (fun fr : string * list (sel string * node) => (fst fr, map (fun r => snd r) (snd fr))) frs2)
    = thread (frag_step f i2) w frs.
Proof.
  induction frs as [|x xs IHf]; intros s2 u' frs2 E2 w.
  - apply thread_nil_inv in E2. subst. reflexivity.
  - rewrite thread_cons in E2. unfold frag_step at 1 in E2.
    destruct (thread (to_ast f idx) s2 (snd x)) as [[s3 cs]|] eqn:E3; [|discriminate].
    destruct (thread (frag_step f idx) s3 xs) as [[s4 r4]|] eqn:E4; [|discriminate].
    injection E2 as _ <-. simpl map. rewrite !thread_cons. unfold frag_step at 1 3. simpl.
    rewrite (thread_reuse (to_ast f idx) (to_ast f i2) _ _ _ _ E3)
      by (intros x0 s0 s0' [a b] _ Hx w'; simpl; eapply IH; exact Hx).
    destruct (thread (to_ast f i2) w (snd x)) as [[w1 cs2]|]; [|reflexivity].
    rewrite (IHf _ _ _ E4). reflexivity.
Qed.

Lemma reuseB_all : forall f, reuseB f.
Proof.
  induction f as [|f IH]; intros idx u [d subs frs] u' sl n' H i2 u2; [discriminate|].
  apply to_ast_N_inv in H as [used1 [fmt [s2 [rs [frs2 [Ec [E1 [E2 [-> ->]]]]]]]]].
  unfold node_ann. rewrite !to_ast_S. destruct d as [nm kd vs fm al]. simpl.
  destruct (collect i2 u2 vs) as [[v1 fmt2]|]; [|reflexivity].
  rewrite (thread_reuse (to_ast f idx) (to_ast f i2) _ _ _ _ E1)
    by (intros x s0 s0' [a b] _ Hx w'; simpl; eapply IH; exact Hx).
  destruct (thread (to_ast f i2) v1 subs) as [[w2 rs2]|]; [|reflexivity].
  rewrite (frags_reuse f idx i2 IH _ _ _ _ E2).
  destruct (thread (frag_step f i2) w2 frs) as [[w3 frs3]|]; [|reflexivity].
  unfold node_sl, node_ann. simpl.
  assert (N1 : is_nil (map (fun r : sel string * node => snd r) rs) = is_nil subs).
  { destruct subs; [apply thread_nil_inv in E1; subst; reflexivity|].
    rewrite thread_cons in E1. destruct (to_ast f idx used1 n); [|discriminate]. destruct p.
    destruct (thread (to_ast f idx) l subs); [|discriminate]. destruct p0. injection E1 as _ <-. reflexivity. }
  assert (N2 : is_nil (map (fun fr : string * list (sel string * node) =>
                              (fst fr, map (fun r => snd r) (snd fr))) frs2) = is_nil frs).
  { destruct frs; [apply thread_nil_inv in E2; subst; reflexivity|].
    rewrite thread_cons in E2. destruct (frag_step f idx s2 p); [|discriminate]. destruct p0.
    destruct (thread (frag_step f idx) l frs); [|discriminate]. destruct p1. injection E2 as _ <-. reflexivity. }
  rewrite N1, N2. reflexivity.
Qed.

(* ------------------------------------------------------------------------------------------ *)
(* Step C: the whole operation                                                                  *)
(* ------------------------------------------------------------------------------------------ *)
Lemma C_list fuel : forall ns idx s s' sns,
  build_sels_from fuel idx s ns = Some (s', sns) ->
  keys (Gs fuel sns) = op_vars sns /\
  (forall L, agree tv L (Gs fuel sns) -> forall f2 isls, omap (node_sel tv f2) ns = Some isls ->
   omap (resolve L) (map (fun r => fst r) sns) = Some isls).
Proof.
  induction ns as [|x xs IHl]; intros idx s s' sns H; simpl in H.
  - injection H as _ <-. split; [reflexivity|].
    intros L _ f2 isls Hi. simpl in Hi. injection Hi as <-. reflexivity.
  - destruct (to_ast fuel idx s x) as [[s1 [sl n1]]|] eqn:E1; [|discriminate].
    destruct (build_sels_from fuel (S idx) s1 xs) as [[s2 rs2]|] eqn:E2; [|discriminate].
    injection H as _ <-.
    destruct (goodB_all tv fuel _ _ _ _ _ _ E1) as [K1 R1]. destruct (IHl _ _ _ _ E2) as [K2 R2]. split.
    + unfold Gs, op_vars, keys in *. simpl. rewrite map_app. simpl in K1. rewrite K1, K2. reflexivity.
    + intros L Ha f2 isls Hi. unfold Gs in Ha. simpl in Ha. apply agree_app in Ha as [Ha1 Ha2].
      simpl in Hi. destruct (node_sel tv f2 x) as [a|] eqn:N1; [|discriminate].
      destruct (omap (node_sel tv f2) xs) as [b|] eqn:N2; [|discriminate]. injection Hi as <-.
      simpl. rewrite (R1 L Ha1 f2 a N1). rewrite (R2 L Ha2 f2 b N2). reflexivity.
Qed.

Lemma combine_concat {X} (g : X -> list (string * var)) : forall l acc,
  NoDup (keys acc ++ keys (flat_map g l)) ->
  fold_left (fun acc n => dupdate acc (g n)) l acc = (acc ++ flat_map g l)%list.
Proof.
  induction l as [|x r IH]; intros acc Hn; simpl.
  - rewrite app_nil_r. reflexivity.
  - simpl in Hn. unfold keys in Hn. rewrite map_app in Hn.
    rewrite dupdate_fresh.
    + rewrite IH; [rewrite <- app_assoc; reflexivity|].
      unfold keys. rewrite map_app, <- app_assoc. exact Hn.
    + apply nodup_app_inv in Hn as [_ [Hn _]]. apply nodup_app_inv in Hn as [Hn _]. exact Hn.
    + intros k Hk Hk2. apply nodup_app_inv in Hn as [_ [_ Hd]].
      apply (Hd k Hk2). apply in_or_app. left. exact Hk.
Qed.


(* doc_valid + values_bound, composed, for ANY operation with well-typed values: whenever it builds and
   the expression denotes a request, the request resolves to the ideal request; the declared variables
   are exactly the variables used, each once, and each is bound *)
Theorem doc_valid ct fuel f2 es rq idl :
  wf_ct ct -> forallb (g_conform ct) es = true ->
  run_op ct fuel es = Some rq -> ideal_sels ct f2 es = Some idl ->
  resolves (look_req rq) (r_sels rq) = Some idl /\
  NoDup (keys (r_vardefs rq)) /\
  keys (r_vardefs rq) = flat_map sel_vars (r_sels rq) /\
  keys (r_values rq) = keys (r_vardefs rq).
Proof.
  intros Hw Hcf Hr Hi. unfold run_op in Hr. unfold ideal_sels in Hi.
  rewrite (evals_ideals_all ct Hw es Hcf) in Hr.
  destruct (ideals ct es) as [ns|]; [|discriminate].
  unfold build_request in Hr. destruct (build_sels fuel ns) as [sns|] eqn:Eb; [|discriminate].
  pose proof (unique_var_names_operation _ _ _ Eb) as Hnd.
  unfold build_sels in Eb.
  destruct (build_sels_from fuel 0 [] ns) as [[u3 sns3]|] eqn:Ef; [|discriminate].
  injection Eb as ->.
  destruct (C_list fuel _ _ _ _ _ Ef) as [K R].
  injection Hr as <-. cbn [r_sels r_vardefs r_values].
  set (comb := combine fuel (map (fun r => snd r) sns)).
  assert (Hc : comb = Gs fuel sns).
  { unfold comb, combine. rewrite combine_concat.
    - simpl. unfold Gs. rewrite flat_map_map. reflexivity.
    - simpl. rewrite flat_map_map. fold (Gs fuel sns). rewrite K. exact Hnd. }
  assert (Hk : keys comb = op_vars sns) by (rewrite Hc; exact K).
  assert (Hk1 : forall (Y : Type) (h : var -> Y),
            keys (map (fun kv : string * var => (fst kv, h (snd kv))) comb) = keys comb).
  { intros. unfold keys. rewrite map_map. reflexivity. }
  repeat split.
  - rewrite resolves_omap. apply (R (look_req _)) with (f2 := f2); [|exact Hi].
    intros k v Hin. rewrite <- Hc in Hin. unfold look_req. cbn [r_vardefs r_values].
    rewrite (dlookup_map v_type), (dlookup_map v_value).
    rewrite (dlookup_in_nodup comb k v); [reflexivity | rewrite Hk; exact Hnd | exact Hin].
  - rewrite Hk1, Hk. exact Hnd.
  - rewrite Hk1, Hk. unfold op_vars. rewrite flat_map_map. reflexivity.
  - rewrite !Hk1. reflexivity.
Qed.

Lemma build_sels_from_total f : forall ns isls, omap (node_sel tv f) ns = Some isls ->
  forall idx s, exists s' sns, build_sels_from f idx s ns = Some (s', sns).
Proof.
  induction ns as [|x xs IHl]; intros isls Hi idx s; simpl in Hi.
  { exists s, []. reflexivity. }
  destruct (node_sel tv f x) as [a|] eqn:N1; [|discriminate].
  destruct (omap (node_sel tv f) xs) as [b|] eqn:N2; [|discriminate].
  destruct (totalB_all tv f idx s x a N1) as [s1 [r E1]].
  destruct (IHl _ eq_refl (S idx) s1) as [s2 [sns E2]].
  exists s2, (r :: sns). simpl. rewrite E1, E2. reflexivity.
Qed.

(* No exception + the composed statement: an operation that denotes a request (its ideal exists and
   has depth <= f) with well-typed values ALWAYS builds with recursion depth f, and its request is the
   ideal one *)
Theorem doc_valid_total ct f es idl :
  wf_ct ct -> forallb (g_conform ct) es = true -> ideal_sels ct f es = Some idl ->
  exists rq, run_op ct f es = Some rq /\
    resolves (look_req rq) (r_sels rq) = Some idl /\
    NoDup (keys (r_vardefs rq)) /\
    keys (r_vardefs rq) = flat_map sel_vars (r_sels rq) /\
    keys (r_values rq) = keys (r_vardefs rq).
Proof.
  intros Hw Hcf Hi. pose proof Hi as Hi0. unfold ideal_sels in Hi.
  destruct (ideals ct es) as [ns|] eqn:Ei; [|discriminate].
  destruct (build_sels_from_total f _ _ Hi 0 []) as [u1 [sns Eb]].
  assert (Er : exists rq, run_op ct f es = Some rq).
  { unfold run_op. rewrite (evals_ideals_all ct Hw es Hcf), Ei.
    unfold build_request, build_sels. rewrite Eb. simpl. eauto. }
  destruct Er as [rq Er]. exists rq. split; [exact Er|]. eapply doc_valid; eassumption.
Qed.

(* history freedom for re-used objects: the field objects of an operation, after it was sent, build
   the same request again — in any later operation position *)
Lemma build_sels_from_reuse fuel : forall ns idx u u' sns,
  build_sels_from fuel idx u ns = Some (u', sns) ->
  forall i2 u2, build_sels_from fuel i2 u2 (map (fun r => snd r) sns) = build_sels_from fuel i2 u2 ns.
Proof.
  induction ns as [|x xs IH]; intros idx u u' sns H i2 u2; simpl in H.
  - injection H as _ <-. reflexivity.
  - destruct (to_ast fuel idx u x) as [[s1 [sl n1]]|] eqn:E1; [|discriminate].
    destruct (build_sels_from fuel (S idx) s1 xs) as [[s2 rs2]|] eqn:E2; [|discriminate].
    injection H as _ <-. simpl. rewrite (reuseB_all fuel _ _ _ _ _ _ E1 i2 u2).
    destruct (to_ast fuel i2 u2 x) as [[w1 y]|]; [|reflexivity].
    rewrite (IH _ _ _ _ E2). reflexivity.
Qed.

Theorem reuse_request fuel ns sns :
  build_sels fuel ns = Some sns ->
  build_request fuel (map (fun r => snd r) sns) = build_request fuel ns.
Proof.
  unfold build_sels. intro H.
  destruct (build_sels_from fuel 0 [] ns) as [[u sns1]|] eqn:E; [|discriminate]. injection H as <-.
  unfold build_request, build_sels. rewrite (build_sels_from_reuse fuel _ _ _ _ _ E 0 []). reflexivity.
Qed.

(* ------------------------------------------------------------------------------------------ *)
(* a concrete world for witnesses (the harness replays the same expressions on the real code)  *)
(* ------------------------------------------------------------------------------------------ *)
Module Demo.
Local Open Scope string_scope.
Definition nn t := TNonNull t.
Definition nm s := TNamed s.
Definition F n t args := {| fd_name := n; fd_args := args; fd_type := t |}.
Definition Ar n t := {| a_name := n; a_type := t |}.
Definition animal_fields :=
  [F "id" (nn (nm "ID")) []; F "name" (nn (nm "String")) []; F "bestFriend" (nm "Animal") []].
Definition schema : schema :=
  [ {| t_name := "Animal"; t_kind := KIface; t_fields := animal_fields; t_ifaces := [] |};
    {| t_name := "Dog"; t_kind := KObj; t_ifaces := ["Animal"];
       t_fields := (animal_fields ++ [F "barkVolume" (nm "Int") [Ar "unit" (nm "String")];
                                      F "owner" (nm "Person") []])%list |};
    {| t_name := "Person"; t_kind := KObj; t_ifaces := [];
       t_fields := [F "id" (nn (nm "ID")) []; F "fullName" (nn (nm "String")) [];
                    F "pets" (nn (TList (nn (nm "Animal")))) [Ar "limit" (nm "Int")];
                    F "friend" (nm "Person") [Ar "since" (nm "Instant")];
                    F "favourite" (nm "SearchResult") [];
                    F "x" (nm "Int") [Ar "a" (nm "Int"); Ar "a_0" (nm "Int")]] |};
    {| t_name := "SearchResult"; t_kind := KUnion; t_fields := []; t_ifaces := [] |};
    {| t_name := "Query"; t_kind := KObj; t_ifaces := [];
       t_fields := [F "animals" (nn (TList (nn (nm "Animal")))) [Ar "ids" (nn (TList (nn (nm "ID"))))];
                    F "person" (nm "Person") [Ar "id" (nn (nm "ID"))];
                    F "p" (nm "Person") [Ar "a" (nm "Int"); Ar "a_0" (nm "Int")];
                    F "me" (nm "Person") [];
                    F "events" (nm "Person") [Ar "at" (TList (nn (nm "Instant"))); Ar "opt" (TList (nm "Instant"))]] |} ].
Definition conf := {| c_snake := true; c_ser := ["Instant"] |}.
Definition ct := gen_classes conf schema (Some "Query") None.

Definition pid := Attr "PersonFields" "id".
Definition person1 := Call "Query" "person" [("id", JStr "1")].
(* one expression per REPAIRED defect class (regression cases; the harness replays them too) *)
Definition e_types := Fields (Call "Query" "animals" [("ids", JArr [JStr "1"])]) [Attr "AnimalInterface" "id"].
Definition e_names := Fields person1 [Fields (Call "PersonFields" "pets" [])
                        [Fields (Call "AnimalInterface" "best_friend" []) [Attr "AnimalInterface" "name"]]].
Definition e_depth := Fields person1 [On (Call "PersonFields" "pets" []) "Dog"
                        [Fields (Call "DogFields" "owner" []) [Call "PersonFields" "x" [("a", JInt 1%Z)]]]].
Definition e_ser := Fields person1 [Fields (Call "PersonFields" "friend" []) [pid]].
Definition h_alias := [[Fields (Call "Query" "me" []) [Alias pid "n1"]]].
Definition e_plain := Fields (Call "Query" "me" []) [pid].
Definition fav := Attr "PersonFields" "favourite".
Definition h_on := [[Fields (Call "Query" "me" []) [On fav "Dog" [Attr "DogFields" "name"]]]].
Definition e_on := Fields (Call "Query" "me" []) [On fav "Person" [pid]].
Definition es_collide :=
  [Fields (Alias (Call "Query" "p" [("a", JInt 1%Z)]) "u") [Alias (Call "PersonFields" "x" [("a", JInt 5%Z)]) "v"];
   Fields (Call "Query" "p" [("a_0", JInt 3%Z)]) [Call "PersonFields" "x" [("a", JInt 7%Z)]]].
(* list-typed serialised arguments (fix 3032a3a): item by item, None items of a nullable item type kept *)
Definition e_serlist := Fields (Call "Query" "events"
  [("at", JArr [JStr "a"; JStr "b"]); ("opt", JArr [JNull; JStr "c"])]) [pid].
(* a non-trivial two-field operation without shared mutation *)
Definition es_good :=
  [Fields (Alias person1 "q") [pid; Attr "PersonFields" "full_name";
      Fields (Call "PersonFields" "friend" [("since", JStr "t0")]) [pid];
      Call "PersonFields" "x" [("a", JInt 1%Z); ("a_0", JInt 2%Z)]];
   Fields (Call "Query" "me" []) [Alias (Call "PersonFields" "x" [("a", JInt 4%Z)]) "y"]].
End Demo.

(* the property on one input, decided: does the request of [es] after [hist] resolve to the ideal? *)

(* the property on one input, decided: does the request of [es] resolve to the ideal? *)
Definition faithful_on (ct : list classmeta) (fuel : nat) (es : list bexpr) : option bool :=
  match run_op ct fuel es, ideal_sels ct fuel es with
  | Some rq, Some idl =>
      Some (match resolves (look_req rq) (r_sels rq) with
            | Some l => sel_eqb_sexp (s_ideal l) (s_ideal idl)
            | None => false end)
  | _, _ => None end.

Lemma NoDup_nodupb l : NoDup l -> nodupb l = true.
Proof.
  induction 1 as [|x l Hx _ IH]; simpl; [reflexivity|].
  rewrite IH. apply mem_false in Hx. rewrite Hx. reflexivity.
Qed.


