(* Proofs about Model/Builder.v (C14). *)
From Coq Require Import List String Ascii Bool Arith ZArith Lia DecimalString Decimal DecimalNat FinFun.
From AC Require Import Base.Strs Base.Sexp Base.Json Model.Names Model.Builder.
Import ListNotations.

(* ------------------------------------------------------------------------------------------ *)
(* strings, decimal printing                                                                  *)
(* ------------------------------------------------------------------------------------------ *)
Lemma mem_In x l : mem x l = true <-> In x l.
Proof.
  unfold mem. rewrite existsb_exists. split.
  - intros [y [H1 H2]]. apply String.eqb_eq in H2. subst. exact H1.
  - intro H. exists x. split; [exact H | apply String.eqb_refl].
Qed.

Lemma mem_false x l : mem x l = false <-> ~ In x l.
Proof.
  split; intro H.
  - intro Hi. apply mem_In in Hi. congruence.
  - destruct (mem x l) eqn:E; [|reflexivity]. apply mem_In in E. contradiction.
Qed.

Lemma append_inj_l s a b : (s ++ a = s ++ b)%string -> a = b.
Proof. induction s; simpl; intro H; [exact H | inversion H; auto]. Qed.

Lemma to_uint_nonnil n : Nat.to_uint n <> Nil.
Proof.
  intro H. assert (n = 0) by (rewrite <- (Unsigned.of_to n), H; reflexivity).
  subst. discriminate.
Qed.

Lemma nat_str_inj i j : nat_str i = nat_str j -> i = j.
Proof.
  unfold nat_str. intro H. apply (f_equal NilZero.uint_of_string) in H.
  rewrite !NilZero.usu in H by apply to_uint_nonnil.
  inversion H. apply Unsigned.to_uint_inj. assumption.
Qed.

Definition cand (base : string) (c : nat) : string := (base ++ "_" ++ nat_str c)%string.

Lemma cand_inj base : Injective (cand base).
Proof.
  intros i j H. unfold cand in H. apply append_inj_l in H. apply append_inj_l in H.
  apply nat_str_inj. exact H.
Qed.

(* ------------------------------------------------------------------------------------------ *)
(* _format_variable_name: the result is fresh, and the loop always terminates                  *)
(* ------------------------------------------------------------------------------------------ *)
Lemma name_loop_S f base c used :
  name_loop (S f) base c used =
  if mem (cand base c) used then name_loop f base (S c) used else Some (cand base c).
Proof. reflexivity. Qed.

Lemma name_loop_fresh fuel base c used u :
  name_loop fuel base c used = Some u -> ~ In u used.
Proof.
  revert c. induction fuel; intros c H; [discriminate|].
  rewrite name_loop_S in H. destruct (mem (cand base c) used) eqn:E.
  - eapply IHfuel. exact H.
  - inversion H; subst. apply mem_false. exact E.
Qed.

Lemma name_loop_none fuel base c used :
  name_loop fuel base c used = None -> forall i, i < fuel -> In (cand base (c + i)) used.
Proof.
  revert c. induction fuel; intros c H i Hi; [lia|].
  rewrite name_loop_S in H. destruct (mem (cand base c) used) eqn:E; [|discriminate].
  destruct i.
  - rewrite Nat.add_0_r. apply mem_In. exact E.
  - replace (c + S i) with (S c + i) by lia. apply IHfuel; [exact H | lia].
Qed.

Lemma name_loop_total base c used :
  exists u, name_loop (S (List.length used)) base c used = Some u.
Proof.
  destruct (name_loop (S (List.length used)) base c used) eqn:E; [eauto|].
  exfalso.
  pose proof (name_loop_none _ _ _ _ E) as Hall.
  set (l := map (fun i => cand base (c + i)) (seq 0 (S (List.length used)))).
  assert (Hnd : NoDup l).
  { apply Injective_map_NoDup; [|apply seq_NoDup].
    intros i j H. apply cand_inj in H. lia. }
  assert (Hincl : incl l used).
  { intros x Hx. apply in_map_iff in Hx as [i [<- Hi]]. apply in_seq in Hi. apply Hall. lia. }
  pose proof (NoDup_incl_length Hnd Hincl) as Hlen.
  unfold l in Hlen. rewrite map_length, seq_length in Hlen. lia.
Qed.

Theorem format_variable_name_fresh idx v used u :
  format_variable_name idx v used = Some u -> ~ In u used.
Proof.
  unfold format_variable_name. destruct (mem _ used) eqn:E.
  - apply name_loop_fresh.
  - intro H. inversion H; subst. apply mem_false. exact E.
Qed.

Theorem format_variable_name_total idx v used :
  exists u, format_variable_name idx v used = Some u.
Proof.
  unfold format_variable_name. destruct (mem _ used); [apply name_loop_total | eauto].
Qed.

(* ------------------------------------------------------------------------------------------ *)
(* unique variable names: the used-names set as invariant                                      *)
(* ------------------------------------------------------------------------------------------ *)
(* P used used' ks: the keys ks handed out between used and used' are pairwise distinct, new, and
   exactly what was added *)
Definition handed (used used' ks : list string) : Prop :=
  NoDup ks /\ (forall k, In k ks -> ~ In k used) /\ (forall x, In x used' <-> In x ks \/ In x used).

Lemma nodup_app {X} (a b : list X) :
  NoDup a -> NoDup b -> (forall x, In x a -> In x b -> False) -> NoDup (a ++ b).
Proof.
  induction a as [|x a IH]; simpl; intros Ha Hb Hd; [exact Hb|].
  inversion Ha; subst. constructor.
  - intro Hi. apply in_app_or in Hi as [Hi|Hi]; [contradiction | exact (Hd x (or_introl eq_refl) Hi)].
  - apply IH; auto. intros y Hy. apply Hd. right. exact Hy.
Qed.

Lemma handed_nil u : handed u u [].
Proof. repeat split; try constructor; simpl; intros; tauto. Qed.

Lemma handed_app u0 u1 u2 k1 k2 :
  handed u0 u1 k1 -> handed u1 u2 k2 -> handed u0 u2 (k1 ++ k2)%list.
Proof.
  intros [N1 [F1 E1]] [N2 [F2 E2]]. repeat split.
  - apply nodup_app; try assumption.
    intros x Hx1 Hx2. apply (F2 x Hx2). apply E1. left. exact Hx1.
  - intros k Hk Hu. apply in_app_or in Hk as [Hk|Hk].
    + apply (F1 k Hk Hu).
    + apply (F2 k Hk). apply E1. right. exact Hu.
  - intro Hx. apply E2 in Hx as [Hx|Hx].
    + left. apply in_or_app. right. exact Hx.
    + apply E1 in Hx as [Hx|Hx]; [left; apply in_or_app; left; exact Hx | right; exact Hx].
  - intros [Hx|Hx].
    + apply in_app_or in Hx as [Hx|Hx]; apply E2; [right; apply E1; left; exact Hx | left; exact Hx].
    + apply E2. right. apply E1. right. exact Hx.
Qed.

Lemma collect_handed idx used vs used' fs :
  collect idx used vs = Some (used', fs) ->
  handed used used' (map fv_key fs) /\ map fv_var fs = vs.
Proof.
  revert used used' fs. induction vs as [|v r IH]; simpl; intros used used' fs H.
  - inversion H; subst. split; [apply handed_nil | reflexivity].
  - destruct (format_variable_name idx (v_name v) used) as [u|] eqn:Eu; [|discriminate].
    destruct (collect idx (u :: used) r) as [[u2 fs2]|] eqn:Ec; [|discriminate].
    inversion H; subst. apply IH in Ec as [Hh Hm]. simpl. split; [|rewrite Hm; reflexivity].
    apply format_variable_name_fresh in Eu.
    change (u :: map fv_key fs2) with ([u] ++ map fv_key fs2)%list.
    apply handed_app with (u1 := u :: used); [|exact Hh].
    repeat split.
    + constructor; [intros []|constructor].
    + intros k [<-|[]]. exact Eu.
    + simpl. intros [->|Hx]; auto.
    + simpl. intros [[->|[]]|Hx]; auto.
Qed.

(* variable names occurring in a selection, in document order *)
Fixpoint sel_vars (s : sel string) : list string :=
  match s with
  | SF _ _ args sels =>
      (map snd args ++
       match sels with
       | None => []
       | Some l => (fix go (l : list (sel string)) : list string :=
                      match l with [] => [] | x :: r => sel_vars x ++ go r end) l
       end)%list
  | SI _ l => (fix go (l : list (sel string)) : list string :=
                 match l with [] => [] | x :: r => sel_vars x ++ go r end) l
  end.

Lemma sel_vars_go l :
  (fix go (l : list (sel string)) : list string :=
     match l with [] => [] | x :: r => (sel_vars x ++ go r)%list end) l = flat_map sel_vars l.
Proof. induction l; simpl; [reflexivity | rewrite IHl; reflexivity]. Qed.

Lemma thread_handed {X Y} (g : tstate -> X -> option (tstate * Y)) (vars : Y -> list string) :
  (forall s x s' y, g s x = Some (s', y) -> handed (snd s) (snd s') (vars y)) ->
  forall l s s' ys, thread g s l = Some (s', ys) -> handed (snd s) (snd s') (flat_map vars ys).
Proof.
  intros Hg. induction l as [|x r IH]; simpl; intros s s' ys H.
  - inversion H; subst. apply handed_nil.
  - destruct (g s x) as [[s1 y]|] eqn:E1; [|discriminate].
    destruct (thread g s1 r) as [[s2 ys2]|] eqn:E2; [|discriminate].
    inversion H; subst. simpl. eapply handed_app; [eapply Hg; eassumption | eapply IH; eassumption].
Qed.

Lemma flat_map_map {X Y Z} (f : X -> Y) (g : Y -> list Z) l :
  flat_map g (map f l) = flat_map (fun x => g (f x)) l.
Proof. induction l; simpl; [reflexivity | rewrite IHl; reflexivity]. Qed.

Lemma to_ast_handed fuel : forall idx s n s' sl n',
  to_ast fuel idx s n = Some (s', (sl, n')) -> handed (snd s) (snd s') (sel_vars sl).
Proof.
  induction fuel as [|f IH]; intros idx s n s' sl n' H; simpl in H; [discriminate|].
  destruct n as [d subs frs | k].
  - destruct (collect idx (snd s) (d_vars d)) as [[used1 fmt]|] eqn:Ec; [|discriminate].
    destruct (thread (to_ast f idx) (fst s, used1) subs) as [[s2 rs]|] eqn:E1; [|discriminate].
    match type of H with context [thread ?g s2 frs] => set (gf := g) in H end.
    destruct (thread gf s2 frs) as [[s3 frs']|] eqn:E2; [|discriminate].
    inversion H; subst; clear H.
    apply collect_handed in Ec as [Hc _].
    assert (H1 : handed used1 (snd s2) (flat_map (fun r : sel string * node => sel_vars (fst r)) rs)).
    { apply (thread_handed (to_ast f idx) (fun r => sel_vars (fst r))) in E1; [exact E1|].
      intros s0 x s0' [a b] Hx. eapply IH. exact Hx. }
    assert (H2 : handed (snd s2) (snd s')
                  (flat_map (fun fr : string * list (sel string * node) =>
                               flat_map (fun r => sel_vars (fst r)) (snd fr)) frs')).
    { apply (thread_handed gf (fun fr => flat_map (fun r : sel string * node => sel_vars (fst r)) (snd fr))) in E2;
        [exact E2|].
      intros s0 x s0' y Hx. unfold gf in Hx.
      destruct (thread (to_ast f idx) s0 (snd x)) as [[s4 cs]|] eqn:E3; [|discriminate].
      inversion Hx; subst. simpl.
      apply (thread_handed (to_ast f idx) (fun r => sel_vars (fst r))) in E3; [exact E3|].
      intros s5 x5 s5' [a b] H5. eapply IH. exact H5. }
    assert (Hsv : sel_vars (SF (eff_alias (d_alias d)) (d_name d)
                     (map (fun fv => (v_name (fv_var fv), fv_key fv)) fmt)
                     (if is_nil subs && is_nil frs then None
                      else Some (map (fun r => fst r) rs ++
                                 map (fun fr => SI (fst fr) (map (fun r => fst r) (snd fr))) frs')%list))
                  = (map fv_key fmt ++ flat_map (fun r : sel string * node => sel_vars (fst r)) rs ++
                     flat_map (fun fr : string * list (sel string * node) =>
                                 flat_map (fun r => sel_vars (fst r)) (snd fr)) frs')%list).
    { simpl. rewrite map_map. simpl. f_equal.
      destruct (is_nil subs && is_nil frs) eqn:En.
      - apply andb_true_iff in En as [Ea Eb]. destruct subs; [|discriminate]. destruct frs; [|discriminate].
        simpl in E1. inversion E1; subst. simpl in E2. inversion E2; subst. reflexivity.
      - rewrite sel_vars_go, flat_map_app, !flat_map_map. f_equal.
        apply flat_map_ext. intros [t cs]. simpl. rewrite sel_vars_go, flat_map_map. reflexivity. }
    rewrite Hsv.
    eapply handed_app; [exact Hc|]. eapply handed_app; [exact H1 | exact H2].
  - destruct (nth_error (fst s) k) as [[d subs frs|]|] eqn:En; try discriminate.
    destruct (to_ast f idx s (N d subs frs)) as [[[st1 used1] [sl1 n1]]|] eqn:E; [|discriminate].
    inversion H; subst. apply IH in E. exact E.
Qed.

(* every variable name used by one top-level field's AST occurs once *)
Theorem unique_var_names fuel idx st n s' sl n' :
  to_ast fuel idx (st, []) n = Some (s', (sl, n')) -> NoDup (sel_vars sl).
Proof. intro H. apply to_ast_handed in H. destruct H as [H _]. exact H. Qed.

(* ------------------------------------------------------------------------------------------ *)
(* induction principle for builder expressions                                                 *)
(* ------------------------------------------------------------------------------------------ *)
Lemma bexpr_ind' (P : bexpr -> Prop) :
  (forall c f, P (Attr c f)) ->
  (forall c f a, P (Call c f a)) ->
  (forall e es, P e -> Forall P es -> P (Fields e es)) ->
  (forall e a, P e -> P (Alias e a)) ->
  (forall e t es, P e -> Forall P es -> P (On e t es)) ->
  forall e, P e.
Proof.
  intros HA HC HF HL HO. fix IH 1. intro e. destruct e as [c f|c f a|e es|e a|e t es].
  - apply HA.
  - apply HC.
  - apply HF; [apply IH|]. induction es; constructor; [apply IH | assumption].
  - apply HL. apply IH.
  - apply HO; [apply IH|]. induction es; constructor; [apply IH | assumption].
Qed.

Lemma evals_fix ct es : forall st,
  (fix go (l : list bexpr) (st : store) {struct l} : option (store * list node) :=
     match l with
     | [] => Some (st, [])
     | x :: r => match eval ct x st with
                 | Some (st1, n) => match go r st1 with
                                    | Some (st2, ns) => Some (st2, n :: ns)
                                    | None => None end
                 | None => None end
     end) es st = evals ct es st.
Proof.
  induction es as [|x r IH]; intro st; simpl; [reflexivity|].
  destruct (eval ct x st) as [[st1 n]|]; [|reflexivity]. rewrite IH. reflexivity.
Qed.

Lemma g_shared_fix es :
  (fix go (l : list bexpr) : bool := match l with [] => true | x :: r => g_shared x && go r end) es
  = forallb g_shared es.
Proof. induction es; simpl; [reflexivity | rewrite IHes; reflexivity]. Qed.

(* ------------------------------------------------------------------------------------------ *)
(* history freedom for histories that never mutate a shared object                             *)
(* ------------------------------------------------------------------------------------------ *)
(* the receiver of a fresh-receiver expression evaluates to an inline object *)
Lemma recv_fresh_inline ct e : forall st st' n,
  recv_fresh e = true -> eval ct e st = Some (st', n) -> exists d subs frs, n = N d subs frs.
Proof.
  induction e using bexpr_ind'; intros st st' n Hr He; simpl in Hr; try discriminate.
  - simpl in He. destruct (find_fm ct c f); [|discriminate].
    destruct (fm_method f0 && args_known (fm_args f0) a); [|discriminate].
    destruct (call_vars (fm_args f0) a); [|discriminate]. inversion He; subst. eauto.
  - simpl in He.
    destruct (eval ct e st) as [[st1 [d subs frs|k]]|]; try discriminate.
    destruct (can_fields (d_kind d)); [|discriminate]. rewrite evals_fix in He.
    destruct (evals ct es st1) as [[st2 ns]|]; [|discriminate]. inversion He; subst. eauto.
  - simpl in He. destruct (eval ct e st) as [[st1 n1]|] eqn:E; [|discriminate].
    destruct (IHe _ _ _ Hr E) as [d [subs [frs ->]]]. inversion He; subst. eauto.
  - simpl in He. destruct (eval ct e st) as [[st1 n1]|] eqn:E; [|discriminate].
    destruct (IHe _ _ _ Hr E) as [d [subs [frs ->]]].
    destruct (can_on (d_kind d)); [|discriminate]. rewrite evals_fix in He.
    destruct (evals ct es st1) as [[st2 ns]|]; [|discriminate]. inversion He; subst. eauto.
Qed.

Lemma evals_store_of ct es :
  Forall (fun e => forall st st' n, g_shared e = true -> eval ct e st = Some (st', n) -> st' = st) es ->
  forall st st' ns, forallb g_shared es = true -> evals ct es st = Some (st', ns) -> st' = st.
Proof.
  induction 1 as [|x r Hx Hr IH]; intros st st' ns Hg He; simpl in *.
  - inversion He; reflexivity.
  - apply andb_true_iff in Hg as [G1 G2].
    destruct (eval ct x st) as [[st1 n]|] eqn:E; [|discriminate].
    destruct (evals ct r st1) as [[st2 ns2]|] eqn:E2; [|discriminate].
    inversion He; subst. apply Hx in E; [|exact G1]. subst. eapply IH; eassumption.
Qed.

Lemma eval_safe_store ct e : forall st st' n,
  g_shared e = true -> eval ct e st = Some (st', n) -> st' = st.
Proof.
  induction e using bexpr_ind'; intros st st' n Hg He.
  - simpl in He. destruct (attr_index ct c f); inversion He; reflexivity.
  - simpl in He. destruct (find_fm ct c f); [|discriminate].
    destruct (fm_method f0 && args_known (fm_args f0) a); [|discriminate].
    destruct (call_vars (fm_args f0) a); inversion He; reflexivity.
  - simpl in Hg. rewrite g_shared_fix in Hg. apply andb_true_iff in Hg as [G1 G2].
    simpl in He.
    destruct (eval ct e st) as [[st1 [d subs frs|k]]|] eqn:E; try discriminate.
    destruct (can_fields (d_kind d)); [|discriminate]. rewrite evals_fix in He.
    destruct (evals ct es st1) as [[st2 ns]|] eqn:E2; [|discriminate]. inversion He; subst.
    apply IHe in E; [|exact G1]. subst. eapply evals_store_of; eassumption.
  - simpl in Hg. apply andb_true_iff in Hg as [G1 G2]. simpl in He.
    destruct (eval ct e st) as [[st1 n1]|] eqn:E; [|discriminate].
    destruct (recv_fresh_inline _ _ _ _ _ G1 E) as [d [subs [frs ->]]].
    inversion He; subst. eapply IHe; eassumption.
  - simpl in Hg. rewrite g_shared_fix in Hg.
    apply andb_true_iff in Hg as [G12 G3]. apply andb_true_iff in G12 as [G1 G2].
    simpl in He.
    destruct (eval ct e st) as [[st1 n1]|] eqn:E; [|discriminate].
    destruct (recv_fresh_inline _ _ _ _ _ G1 E) as [d [subs [frs ->]]].
    destruct (can_on (d_kind d)); [|discriminate]. rewrite evals_fix in He.
    destruct (evals ct es st1) as [[st2 ns]|] eqn:E2; [|discriminate]. inversion He; subst.
    apply IHe in E; [|exact G2]. subst. eapply evals_store_of; eassumption.
Qed.

Lemma evals_safe_store ct es st st' ns :
  forallb g_shared es = true -> evals ct es st = Some (st', ns) -> st' = st.
Proof.
  apply evals_store_of. apply Forall_forall. intros e _. apply eval_safe_store.
Qed.

(* a store whose shared objects are as created at import time: leaves without variables *)
Definition leafp (n : node) : Prop :=
  exists d, n = N d [] [] /\ d_vars d = [] /\ d_fmt d = [].
Definition pristine (st : store) : Prop := Forall leafp st.

Lemma store0_pristine ct : pristine (store0 ct).
Proof.
  unfold pristine, store0. apply Forall_forall. intros n Hn. apply in_map_iff in Hn as [p [<- _]].
  eexists. repeat split.
Qed.

Lemma set_nth_same {X} (l : list X) k x : nth_error l k = Some x -> set_nth k x l = l.
Proof.
  revert k. induction l as [|y r IH]; intros [|k] H; simpl in *; try discriminate.
  - inversion H; reflexivity.
  - rewrite IH by exact H. reflexivity.
Qed.

Lemma set_fmt_nil d : d_fmt d = [] -> set_fmt d [] = d.
Proof. destruct d; simpl; intros ->; reflexivity. Qed.

Lemma thread_fst {X Y} (g : tstate -> X -> option (tstate * Y)) (st : store) :
  (forall s x s' y, fst s = st -> g s x = Some (s', y) -> fst s' = st) ->
  forall l s s' ys, fst s = st -> thread g s l = Some (s', ys) -> fst s' = st.
Proof.
  intros Hg. induction l as [|x r IH]; simpl; intros s s' ys Hs H.
  - injection H as <- <-. exact Hs.
  - destruct (g s x) as [[s1 y]|] eqn:E1; [|discriminate].
    destruct (thread g s1 r) as [[s2 ys2]|] eqn:E2; [|discriminate].
    injection H as <- <-. eapply IH; [|exact E2]. eapply Hg; eassumption.
Qed.

Lemma to_ast_pristine st : pristine st -> forall fuel idx s n s' r,
  fst s = st -> to_ast fuel idx s n = Some (s', r) -> fst s' = st.
Proof.
  intros Hp. induction fuel as [|f IH]; intros idx s n s' r Hs H; simpl in H; [discriminate|].
  destruct n as [d subs frs | k].
  - destruct (collect idx (snd s) (d_vars d)) as [[used1 fmt]|]; [|discriminate].
    destruct (thread (to_ast f idx) (fst s, used1) subs) as [[s2 rs]|] eqn:E1; [|discriminate].
    match type of H with context [thread ?g s2 frs] => set (gf := g) in H end.
    destruct (thread gf s2 frs) as [[s3 frs']|] eqn:E2; [|discriminate].
    injection H as Hs3 _. subst s'.
    assert (H2 : fst s2 = st).
    { apply (thread_fst (to_ast f idx) st (fun s0 x s0' y H0 H1 => IH idx s0 x s0' y H0 H1)
               subs (fst s, used1) s2 rs Hs E1). }
    refine (thread_fst gf st _ frs s2 s3 frs' H2 E2).
    intros s0 x s0' y Hs0 Hx. unfold gf in Hx.
    destruct (thread (to_ast f idx) s0 (snd x)) as [[s4 cs]|] eqn:E3; [|discriminate].
    injection Hx as <- _.
    exact (thread_fst (to_ast f idx) st (fun s1 x1 s1' y1 H0 H1 => IH idx s1 x1 s1' y1 H0 H1)
             (snd x) s0 s4 cs Hs0 E3).
  - destruct (nth_error (fst s) k) as [[d subs frs|]|] eqn:En; try discriminate.
    assert (Hl : leafp (N d subs frs)).
    { unfold pristine in Hp. rewrite Forall_forall in Hp. apply Hp.
      rewrite <- Hs. eapply nth_error_In. exact En. }
    destruct Hl as [d0 [Heq [Hv Hf]]]. inversion Heq; subst d0 subs frs.
    destruct f as [|f']; simpl in H; [discriminate|].
    rewrite Hv in H. simpl in H. injection H as <- _. simpl.
    rewrite set_fmt_nil by exact Hf. rewrite <- Hs. apply set_nth_same. exact En.
Qed.

Lemma build_sels_pristine st : pristine st -> forall fuel ns idx st' sns,
  build_sels fuel idx st ns = Some (st', sns) -> st' = st.
Proof.
  intros Hp fuel. induction ns as [|n r IH]; simpl; intros idx st' sns H.
  - inversion H; reflexivity.
  - destruct (to_ast fuel idx (st, []) n) as [[[st1 u1] sn]|] eqn:E; [|discriminate].
    assert (st1 = st) by (apply (to_ast_pristine st Hp) in E; [exact E | reflexivity]). subst st1.
    destruct (build_sels fuel (S idx) st r) as [[st2 sns2]|] eqn:E2; [|discriminate].
    inversion H; subst. eapply IH. exact E2.
Qed.

Lemma run_op_safe_store ct fuel st es st' rq :
  pristine st -> forallb g_shared es = true -> run_op ct fuel st es = Some (st', rq) -> st' = st.
Proof.
  intros Hp Hg H. unfold run_op in H.
  destruct (evals ct es st) as [[st1 ns]|] eqn:E; [|discriminate].
  apply evals_safe_store in E; [|exact Hg]. subst st1.
  unfold build_request in H.
  destruct (build_sels fuel 0 st ns) as [[st2 sns]|] eqn:E2; [|discriminate].
  inversion H; subst. eapply build_sels_pristine; eassumption.
Qed.

Theorem safe_history_keeps_store ct fuel hist : forall st,
  Forall (fun es => forallb g_shared es = true) hist ->
  run_hist ct fuel (store0 ct) hist = Some st -> st = store0 ct.
Proof.
  assert (G : forall st0, pristine st0 -> forall st,
             Forall (fun es => forallb g_shared es = true) hist ->
             run_hist ct fuel st0 hist = Some st -> st = st0).
  { induction hist as [|es r IH]; intros st0 Hp st Hf H; simpl in H.
    - inversion H; reflexivity.
    - inversion Hf; subst.
      destruct (run_op ct fuel st0 es) as [[st1 rq]|] eqn:E; [|discriminate].
      apply run_op_safe_store in E; [|exact Hp|assumption]. subst st1. eapply IH; eassumption. }
  intro st. apply G. apply store0_pristine.
Qed.

(* the request of ANY operation is the same after a history that never called alias()/on() on a
   shared object as right after import *)
Theorem history_free_safe ct fuel hist st es :
  Forall (fun es => forallb g_shared es = true) hist ->
  run_hist ct fuel (store0 ct) hist = Some st ->
  run_op ct fuel st es = run_op ct fuel (store0 ct) es.
Proof. intros Hf H. rewrite (safe_history_keeps_store _ _ _ _ Hf H). reflexivity. Qed.

(* ------------------------------------------------------------------------------------------ *)
(* one classmethod call: under the type / serialize guards the variables put on the object are *)
(* exactly the ideal ones (exact type, caller's value, None omitted)                           *)
(* ------------------------------------------------------------------------------------------ *)
Definition arg_ok (args : list (string * json)) (am : argmeta) : bool :=
  (is_null (arg_value am args) || streq (am_type am) (am_exact am)) &&
  negb (am_ser am && is_null (arg_value am args)).

Lemma call_vars_exact args ams :
  forallb (arg_ok args) ams = true -> call_vars ams args = ideal_vars ams args.
Proof.
  induction ams as [|am r IH]; simpl; intro H; [reflexivity|].
  apply andb_true_iff in H as [Ha Hr]. rewrite (IH Hr). clear IH Hr.
  unfold arg_ok, arg_value in Ha. apply andb_true_iff in Ha as [H1 H2].
  destruct (dlookup (am_gql am) args) as [v|] eqn:El.
  - destruct (ideal_vars r args) as [vs|]; [|reflexivity].
    destruct (is_null v) eqn:En.
    + destruct (am_ser am); [simpl in H2; discriminate|]. rewrite En. reflexivity.
    + simpl in H1. apply String.eqb_eq in H1. rewrite H1.
      destruct (am_ser am); simpl; [reflexivity | rewrite En; reflexivity].
  - destruct (am_required am); [reflexivity|].
    destruct (ideal_vars r args) as [vs|]; [|reflexivity].
    destruct (am_ser am); [simpl in H2; discriminate|]. reflexivity.
Qed.

(* ------------------------------------------------------------------------------------------ *)
(* a concrete world for witnesses (the harness replays the same expressions on the real code)  *)
(* ------------------------------------------------------------------------------------------ *)
Module Demo.
Local Open Scope string_scope.
Definition nn t := TNonNull t.
Definition nm s := TNamed s.
Definition F n t args := {| fd_name := n; fd_args := args; fd_type := t |}.
Definition Ar n t := {| a_name := n; a_type := t |}.
Definition animal_fields :=
  [F "id" (nn (nm "ID")) []; F "name" (nn (nm "String")) []; F "bestFriend" (nm "Animal") []].
Definition schema : schema :=
  [ {| t_name := "Animal"; t_kind := KIface; t_fields := animal_fields; t_ifaces := [] |};
    {| t_name := "Dog"; t_kind := KObj; t_ifaces := ["Animal"];
       t_fields := (animal_fields ++ [F "barkVolume" (nm "Int") [Ar "unit" (nm "String")];
                                      F "owner" (nm "Person") []])%list |};
    {| t_name := "Person"; t_kind := KObj; t_ifaces := [];
       t_fields := [F "id" (nn (nm "ID")) []; F "fullName" (nn (nm "String")) [];
                    F "pets" (nn (TList (nn (nm "Animal")))) [Ar "limit" (nm "Int")];
                    F "friend" (nm "Person") [Ar "since" (nm "Instant")];
                    F "favourite" (nm "SearchResult") [];
                    F "x" (nm "Int") [Ar "a" (nm "Int"); Ar "a_0" (nm "Int")]] |};
    {| t_name := "SearchResult"; t_kind := KUnion; t_fields := []; t_ifaces := [] |};
    {| t_name := "Query"; t_kind := KObj; t_ifaces := [];
       t_fields := [F "animals" (nn (TList (nn (nm "Animal")))) [Ar "ids" (nn (TList (nn (nm "ID"))))];
                    F "person" (nm "Person") [Ar "id" (nn (nm "ID"))];
                    F "p" (nm "Person") [Ar "a" (nm "Int"); Ar "a_0" (nm "Int")];
                    F "me" (nm "Person") []] |} ].
Definition conf := {| c_snake := true; c_ser := ["Instant"] |}.
Definition ct := gen_classes conf schema (Some "Query") None.

Definition pid := Attr "PersonFields" "id".
Definition person1 := Call "Query" "person" [("id", JStr "1")].
(* one expression per defect class; every OTHER guard holds on it *)
Definition e_types := Fields (Call "Query" "animals" [("ids", JArr [JStr "1"])]) [Attr "AnimalInterface" "id"].
Definition e_names := Fields person1 [Fields (Call "PersonFields" "pets" [])
                        [Fields (Call "AnimalInterface" "best_friend" []) [Attr "AnimalInterface" "name"]]].
Definition e_depth := Fields person1 [On (Call "PersonFields" "pets" []) "Dog"
                        [Fields (Call "DogFields" "owner" []) [Call "PersonFields" "x" [("a", JInt 1%Z)]]]].
Definition e_ser := Fields person1 [Fields (Call "PersonFields" "friend" []) [pid]].
Definition h_alias := [[Fields (Call "Query" "me" []) [Alias pid "n1"]]].
Definition e_plain := Fields (Call "Query" "me" []) [pid].
Definition fav := Attr "PersonFields" "favourite".
Definition h_on := [[Fields (Call "Query" "me" []) [On fav "Dog" [Attr "DogFields" "name"]]]].
Definition e_on := Fields (Call "Query" "me" []) [On fav "Person" [pid]].
Definition es_collide :=
  [Fields (Alias (Call "Query" "p" [("a", JInt 1%Z)]) "u") [Alias (Call "PersonFields" "x" [("a", JInt 5%Z)]) "v"];
   Fields (Call "Query" "p" [("a_0", JInt 3%Z)]) [Call "PersonFields" "x" [("a", JInt 7%Z)]]].
Definition ns_collide : list node :=
  match evals ct es_collide (store0 ct) with Some (_, ns) => ns | None => [] end.
(* a non-trivial expression on which every guard holds *)
Definition es_good :=
  [Fields (Alias person1 "q") [pid; Attr "PersonFields" "full_name";
      Fields (Call "PersonFields" "friend" [("since", JStr "t0")]) [pid];
      Call "PersonFields" "x" [("a", JInt 1%Z); ("a_0", JInt 2%Z)]];
   Fields (Call "Query" "me" []) [Alias (Call "PersonFields" "x" [("a", JInt 4%Z)]) "y"]].
End Demo.

(* the property on one input, decided: does the request of [es] after [hist] resolve to the ideal? *)
Definition faithful_on (ct : list classmeta) (fuel : nat) (hist : list (list bexpr)) (es : list bexpr) : option bool :=
  match run_hist ct fuel (store0 ct) hist with
  | Some st =>
      match run_op ct fuel st es, ideal_sels ct fuel es with
      | Some (_, rq), Some idl =>
          Some (match resolves (look_req rq) (r_sels rq) with
                | Some l => sel_eqb_sexp (s_ideal l) (s_ideal idl)
                | None => false end)
      | _, _ => None end
  | None => None end.

Lemma NoDup_nodupb l : NoDup l -> nodupb l = true.
Proof.
  induction 1 as [|x l Hx _ IH]; simpl; [reflexivity|].
  rewrite IH. apply mem_false in Hx. rewrite Hx. reflexivity.
Qed.
