(* Construction by Python field name: a schema-valid value whose object keys are renamed (type-directed, at
   every nesting level) to the generated Python field names is accepted as well (populate_by_name). *)
From Coq Require Import List String Ascii ZArith Bool Lia.
From AC Require Import Base.Sexp Base.Json Base.Strs Gql.InSchema Gql.InCoerce
  Model.Names Model.Defaults Model.Inputs Py.PyEval Proofs.InputsP Proofs.FreshP Proofs.AcceptsP.
Import ListNotations.
Local Open Scope string_scope.

Lemma rename_nonnull n s snake t j : rename n s snake (TNonNull t) j = rename n s snake t j.
Proof. destruct n; reflexivity. Qed.
Lemma rename_list n s snake t j :
  rename n s snake (TList t) j =
  match j, n with JArr l, S n' => JArr (map (rename n' s snake t) l) | _, _ => j end.
Proof. destruct n; reflexivity. Qed.
Lemma rename_named n s snake nm j :
  rename n s snake (TNamed nm) j =
  match kind_of s nm, j, n with
  | KInput fs, JObj kv, S n' => JObj (map (rename_entry (rename n' s snake) snake fs) kv)
  | _, _, _ => j
  end.
Proof. destruct n; reflexivity. Qed.

Lemma rename_null n s snake t : rename n s snake t JNull = JNull.
Proof.
  induction t as [nm|t IH|t IH].
  - rewrite rename_named. destruct (kind_of s nm); reflexivity.
  - rewrite rename_list. reflexivity.
  - rewrite rename_nonnull. exact IH.
Qed.

Lemma rename_not_null n s snake t j : j <> JNull -> rename n s snake t j <> JNull.
Proof.
  intros H. induction t as [nm|t IH|t IH].
  - rewrite rename_named. destruct (kind_of s nm); try exact H. destruct j; try exact H. destruct n; [exact H|discriminate].
  - rewrite rename_list. destruct j; try exact H. destruct n; [exact H | discriminate].
  - rewrite rename_nonnull. exact IH.
Qed.

(* ---------- field names ---------- *)
Lemma names_unique snake fs : names_ok_fields snake fs = true ->
  forall f g, In f fs -> In g fs -> i_name f = i_name g -> f = g.
Proof.
  intros N. apply (nodup_map_inj i_name fs (names_ok_nodup snake fs N)).
Qed.

Lemma find_field_some k fs g : find_field k fs = Some g -> In g fs /\ i_name g = k.
Proof.
  induction fs as [|h r IH]; simpl; [discriminate|].
  destruct (k =? i_name h) eqn:E.
  - intros H. inversion H; subst. apply String.eqb_eq in E. auto.
  - intros H. destruct (IH H). auto.
Qed.

Lemma find_field_known k fs : mem k (map i_name fs) = true -> exists g, find_field k fs = Some g.
Proof.
  induction fs as [|h r IH]; simpl; [discriminate|].
  destruct (k =? i_name h); [eauto | exact IH].
Qed.

Lemma find_field_self snake fs f : names_ok_fields snake fs = true -> In f fs -> find_field (i_name f) fs = Some f.
Proof.
  intros N Hf. destruct (find_field_known (i_name f) fs) as [g Hg].
  { apply mem_In. apply in_map. exact Hf. }
  destruct (find_field_some _ _ _ Hg) as [Hin E]. rewrite Hg. f_equal.
  apply (names_unique snake fs N g f Hin Hf E).
Qed.

Section Fields.
Variables (snake : bool) (fs : list ifdef) (ren : gtype -> json -> json).
Hypothesis N : names_ok_fields snake fs = true.

Lemma lookup_by_name kv f : known_keys fs kv = true -> In f fs ->
  jlookup (fname snake fs (i_name f)) (map (rename_entry ren snake fs) kv)
  = option_map (ren (i_type f)) (jlookup (i_name f) kv).
Proof.
  intros K Hf. induction kv as [|[k v] r IH]; [reflexivity|].
  simpl in K. apply andb_true_iff in K as [K1 K2]. specialize (IH K2).
  destruct (find_field_known k fs K1) as [g Hg]. destruct (find_field_some _ _ _ Hg) as [Hin Eg].
  simpl map. unfold rename_entry at 1. simpl fst. simpl snd. rewrite Hg. simpl jlookup.
  destruct (i_name f =? k) eqn:E.
  - apply String.eqb_eq in E.
    assert (g = f) by (apply (names_unique snake fs N g f Hin Hf); congruence). subst g.
    rewrite String.eqb_refl. reflexivity.
  - assert (i_name f <> i_name g) by (rewrite Eg; intro X; rewrite X, String.eqb_refl in E; discriminate).
    destruct (names_ok_pairs snake fs N f g Hf Hin H) as [H1 _].
    destruct (fname snake fs (i_name f) =? fname snake fs (i_name g)) eqn:E2;
      [apply String.eqb_eq in E2; contradiction | exact IH].
Qed.

Lemma lookup_by_alias_none kv f : known_keys fs kv = true -> In f fs ->
  (fname snake fs (i_name f) =? i_name f) = false ->
  jlookup (i_name f) (map (rename_entry ren snake fs) kv) = None.
Proof.
  intros K Hf A. induction kv as [|[k v] r IH]; [reflexivity|].
  simpl in K. apply andb_true_iff in K as [K1 K2]. specialize (IH K2).
  destruct (find_field_known k fs K1) as [g Hg]. destruct (find_field_some _ _ _ Hg) as [Hin Eg].
  simpl map. unfold rename_entry at 1. simpl fst. simpl snd. rewrite Hg. simpl jlookup.
  destruct (i_name f =? fname snake fs (i_name g)) eqn:E; [|exact IH]. exfalso.
  apply String.eqb_eq in E.
  destruct (String.eqb_spec (i_name f) (i_name g)) as [X|X].
  - rewrite <- X in E. rewrite <- E, String.eqb_refl in A. discriminate.
  - assert (Y : i_name g <> i_name f) by congruence.
    destruct (names_ok_pairs snake fs N g f Hin Hf Y) as [_ H2]. apply H2. symmetry. exact E.
Qed.
End Fields.

Lemma field_input_by_name s cs snake fs ren kv f : names_ok_fields snake fs = true -> known_keys fs kv = true ->
  In f fs ->
  field_input (gen_field s cs snake fs f) (map (rename_entry ren snake fs) kv)
  = option_map (ren (i_type f)) (jlookup (i_name f) kv).
Proof.
  intros N K Hf. unfold field_input. rewrite gen_field_alias, gen_field_name.
  destruct (fname snake fs (i_name f) =? i_name f) eqn:E.
  - apply lookup_by_name; assumption.
  - rewrite (lookup_by_alias_none snake fs ren N kv f K Hf E). apply lookup_by_name; assumption.
Qed.

(* ---------- the theorem ---------- *)
Theorem accepts_by_name s cs snake : schema_ok snake s = true ->
  forall n t nb j cv, (nb = false -> j <> JNull) ->
  coerce_input n s t j = Some cv ->
  accepts n (env_of s cs snake) (fst (parse_input_field_type s cs t nb)) (rename n s snake t j) = true.
Proof.
  intros OK. induction n as [n IHn] using lt_wf_ind.
  induction t as [nm | t IH | t IH]; intros nb j cv NB C.
  - destruct (json_null_dec j) as [->|JN].
    { rewrite rename_null. simpl. destruct (leaf s cs nm). simpl. rewrite accepts_opt_if by exact NB. reflexivity. }
    pose proof (kind_of_lookup s nm) as KL.
    destruct (kind_of s nm) as [| | | | | |vals|fs|] eqn:K.
    8: {
      rewrite coerce_named in C. rewrite K in C.
      destruct j as [| | | | | |kv]; try discriminate; [exfalso; apply JN; reflexivity|].
      destruct n as [|n']; [discriminate|].
      destruct (known_keys fs kv) eqn:KK; [|discriminate].
      destruct (fields_with (fun k => jlookup k kv) (coerce_input n' s) (coerced_default n' s) fs) as [r|] eqn:FW;
        [|discriminate].
      pose proof (schema_ok_input snake s nm fs OK KL) as NOK.
      rewrite rename_named, K. simpl parse_input_field_type. unfold leaf. rewrite K. simpl fst.
      rewrite accepts_opt_if by (intros; discriminate).
      rewrite accepts_class. simpl e_classes. unfold gen_classes.
      rewrite (classes_lookup s cs snake s nm fs KL). simpl c_fields.
      rewrite (effective_gen s cs snake fs NOK).
      apply forallb_forall. intros pf Hpf. apply in_map_iff in Hpf as [f [<- Hf]].
      rewrite (field_input_by_name s cs snake fs (rename n' s snake) kv f NOK KK Hf).
      pose proof (fields_with_each _ _ _ _ _ FW f Hf) as EACH. simpl in EACH.
      destruct (jlookup (i_name f) kv) as [x|] eqn:L; simpl option_map.
      + destruct EACH as [v Cv]. rewrite gen_field_ann.
        apply (IHn n' (Nat.lt_succ_diag_r n') (i_type f) true x v); [discriminate | exact Cv].
      + rewrite has_default_gen. destruct EACH as [D|NNf].
        * destruct (i_default f); [rewrite andb_false_r; reflexivity | congruence].
        * rewrite NNf. reflexivity. }
    all: rewrite rename_named, K;
      replace (match j with JObj _ => j | _ => j end) with j by (destruct j; reflexivity);
      apply (accepts_complete s cs snake OK n (TNamed nm) nb j cv NB C).
  - rewrite rename_list. rewrite coerce_list in C.
    simpl. destruct (parse_input_field_type s cs t true) as [sl tn] eqn:E. simpl.
    destruct j; try discriminate.
    + rewrite accepts_opt_if by exact NB. reflexivity.
    + destruct n as [|n']; [discriminate|].
      rewrite accepts_opt_if by (intros; discriminate). rewrite accepts_list.
      destruct (map_opt (coerce_input n' s t) l) as [r|] eqn:M; [|discriminate].
      apply forallb_forall. intros x Hx. apply in_map_iff in Hx as [x0 [<- Hx0]].
      destruct (map_opt_forall _ _ _ M x0 Hx0) as [y Cy].
      replace sl with (fst (parse_input_field_type s cs t true)) by (rewrite E; reflexivity).
      apply (IHn n' (Nat.lt_succ_diag_r n') t true x0 y); [discriminate | exact Cy].
  - rewrite rename_nonnull. simpl. rewrite coerce_nonnull in C.
    apply (IH false j cv); [intros _ ->; discriminate | destruct j; try exact C; discriminate].
Qed.
