(* Lemmas about the input-type generator model (Model/Inputs.v, Model/Defaults.v). *)
From Coq Require Import List String Ascii ZArith Bool Lia.
From AC Require Import Base.Sexp Base.Json Base.Strs Gql.InSchema Model.Names Model.Defaults Model.Inputs.
Import ListNotations.
Local Open Scope string_scope.

(* ---------- annotation = image of the type (unguarded since fix 1ef155d) ---------- *)
Lemma ann_is_image s cs t : forall nb,
  fst (parse_input_field_type s cs t nb) = image s cs t nb.
Proof.
  induction t as [n | t IH | t IH]; intros nb; simpl.
  - destruct (leaf s cs n). reflexivity.
  - specialize (IH true). destruct (parse_input_field_type s cs t true) as [sl tn]. simpl in *.
    subst sl. reflexivity.
  - apply IH.
Qed.

(* the type name reported does not depend on the flag *)
Lemma type_name_flag s cs t : forall a b,
  snd (parse_input_field_type s cs t a) = snd (parse_input_field_type s cs t b).
Proof.
  induction t as [n | t IH | t IH]; intros a b; simpl.
  - destruct (leaf s cs n); reflexivity.
  - destruct (parse_input_field_type s cs t true). reflexivity.
  - reflexivity.
Qed.

Lemma leaf_not_opt s cs n : is_opt (fst (leaf s cs n)) = false.
Proof.
  unfold leaf. destruct (kind_of s n); try reflexivity.
  destruct (n =? "Upload"); [reflexivity|]. destruct (lookup n cs); reflexivity.
Qed.

Lemma not_opt_when_nonnull s cs t : is_opt (fst (parse_input_field_type s cs t false)) = false.
Proof.
  induction t as [n | t IH | t IH]; simpl.
  - pose proof (leaf_not_opt s cs n). destruct (leaf s cs n). exact H.
  - destruct (parse_input_field_type s cs t true). reflexivity.
  - exact IH.
Qed.

Lemma opt_when_nullable s cs t : is_nonnull t = false ->
  is_opt (fst (parse_input_field_type s cs t true)) = true.
Proof.
  destruct t; simpl; try discriminate; intros _.
  - destruct (leaf s cs n). reflexivity.
  - destruct (parse_input_field_type s cs t true). reflexivity.
Qed.

(* ---------- shape of emitted default expressions ---------- *)
Definition plain_or_factory (e : pyexpr) : Prop :=
  (exists b, e = default_factory b) \/ (forall kws, e <> PField kws).

Lemma const_value_node_shape ft v : plain_or_factory (const_value_node ft v false false).
Proof.
  destruct v; simpl; try (right; intros kws; discriminate).
  - left. eexists. reflexivity.
  - left. eexists. reflexivity.
Qed.

Lemma rhs_default_plain e : (forall kws, e <> PField kws) -> rhs_default (Some e) = DValue e.
Proof. intros H. destruct e; try reflexivity. exfalso. apply (H kws). reflexivity. Qed.

Lemma rhs_alias_plain e : (forall kws, e <> PField kws) -> rhs_alias (Some e) = None.
Proof. intros H. destruct e; try reflexivity. exfalso. apply (H kws). reflexivity. Qed.

Lemma process_field_value_alias v a : rhs_alias (Some (process_field_value v a)) = Some a.
Proof. destruct v as [e|]; [destruct e|]; reflexivity. Qed.

(* the default of a merged Field(alias=..., ...) is the default of what was merged in *)
Lemma process_field_value_default v a :
  match v with Some e => plain_or_factory e | None => True end ->
  rhs_default (Some (process_field_value v a)) = rhs_default v.
Proof.
  destruct v as [e|]; [|reflexivity]. intros [[b ->] | H].
  - reflexivity.
  - rewrite (rhs_default_plain e H). destruct e; try reflexivity. exfalso. apply (H kws). reflexivity.
Qed.

Lemma field_default_value_shape d nn ao ft :
  match field_default_value d nn ao ft with Some e => plain_or_factory e | None => True end.
Proof.
  unfold field_default_value. destruct d as [d|].
  - apply const_value_node_shape.
  - destruct (negb nn || ao); [|exact I]. right. intros kws. discriminate.
Qed.

Lemma rhs_default_of_shape e : plain_or_factory e -> rhs_default (Some e) <> DRequired.
Proof.
  intros [[b ->] | H].
  - discriminate.
  - rewrite (rhs_default_plain e H). discriminate.
Qed.

(* the Python-side default of a generated field *)
Lemma gen_field_default s cs snake fs f :
  rhs_default (p_value (gen_field s cs snake fs f)) =
  rhs_default (field_default_value (emitted_default s f) (is_nonnull (i_type f))
                 (is_opt (fst (parse_input_field_type s cs (i_type f) true)))
                 (snd (parse_input_field_type s cs (i_type f) true))).
Proof.
  unfold gen_field. destruct (parse_input_field_type s cs (i_type f) true) as [a ft]. simpl.
  destruct (fname snake fs (i_name f) =? i_name f); [reflexivity|].
  apply process_field_value_default. apply field_default_value_shape.
Qed.

(* required_iff: no Python default iff the type is non-null and the schema gives no default *)
Lemma required_iff s cs snake fs f :
  rhs_default (p_value (gen_field s cs snake fs f)) = DRequired <->
  (is_nonnull (i_type f) = true /\ i_default f = None).
Proof.
  rewrite gen_field_default. unfold field_default_value, emitted_default.
  destruct (i_default f) as [d|]; simpl option_map.
  - split.
    + intros H. exfalso. exact (rhs_default_of_shape _ (const_value_node_shape _ _) H).
    + intros [_ H]. discriminate.
  - destruct (is_nonnull (i_type f)) eqn:N; simpl.
    + destruct (i_type f) as [| |t]; simpl in N; try discriminate. simpl.
      rewrite not_opt_when_nonnull. simpl. split; auto.
    + split; [discriminate | intros [H _]; discriminate].
Qed.

Lemma gen_field_alias s cs snake fs f :
  rhs_alias (p_value (gen_field s cs snake fs f)) =
  if fname snake fs (i_name f) =? i_name f then None else Some (i_name f).
Proof.
  unfold gen_field. destruct (parse_input_field_type s cs (i_type f) true) as [a ft]. simpl.
  destruct (fname snake fs (i_name f) =? i_name f).
  - pose proof (field_default_value_shape (emitted_default s f) (is_nonnull (i_type f)) (is_opt a) ft) as H.
    destruct (field_default_value (emitted_default s f) (is_nonnull (i_type f)) (is_opt a) ft) as [e|]; [|reflexivity].
    destruct H as [[b ->] | H]; [reflexivity | apply rhs_alias_plain; exact H].
  - apply process_field_value_alias.
Qed.

Lemma gen_field_name s cs snake fs f : p_name (gen_field s cs snake fs f) = fname snake fs (i_name f).
Proof. unfold gen_field. destruct (parse_input_field_type s cs (i_type f) true). reflexivity. Qed.

Lemma gen_field_ann s cs snake fs f :
  p_ann (gen_field s cs snake fs f) = fst (parse_input_field_type s cs (i_type f) true).
Proof. unfold gen_field. destruct (parse_input_field_type s cs (i_type f) true). reflexivity. Qed.

(* the GraphQL name stays the wire name (C18 wire_name_kept, on the input side) *)
Lemma gen_field_wire s cs snake fs f :
  match rhs_alias (p_value (gen_field s cs snake fs f)) with
  | Some a => a | None => p_name (gen_field s cs snake fs f) end = i_name f.
Proof.
  rewrite gen_field_alias, gen_field_name.
  destruct (fname snake fs (i_name f) =? i_name f) eqn:E; [|reflexivity].
  apply String.eqb_eq in E. exact E.
Qed.

(* every class that mentions another input class is rebuilt after all classes are defined *)
Lemma rebuild_complete cl c : In c cl -> has_forward_refs c = true -> In (c_name c) (rebuild_calls cl).
Proof.
  intros H1 H2. unfold rebuild_calls. apply in_map. apply filter_In. split; assumption.
Qed.
