(* C19 — proofs about Model/Loader.v *)
From Coq Require Import List String Ascii ZArith Bool Arith Lia Permutation Sorting.Sorted.
From AC Require Import Base.Sexp Base.Strs Model.SchemaSrc Model.Loader.
Import ListNotations.
Local Open Scope string_scope.
Local Open Scope list_scope.

(* ------------------------------------------------------------------ lexicographic order *)
Section Lex.
  Variable X : Type.
  Variable leb eqb : X -> X -> bool.
  Hypothesis eqb_spec : forall x y, eqb x y = true <-> x = y.
  Hypothesis leb_total : forall x y, leb x y = true \/ leb y x = true.
  Hypothesis leb_antisym : forall x y, leb x y = true -> leb y x = true -> x = y.
  Hypothesis leb_trans : forall x y z, leb x y = true -> leb y z = true -> leb x z = true.

  Lemma eqb_refl' x : eqb x x = true.
  Proof. apply eqb_spec. reflexivity. Qed.

  Lemma eqb_sym' x y : eqb x y = eqb y x.
  Proof.
    destruct (eqb x y) eqn:E.
    - apply eqb_spec in E. subst. symmetry. apply eqb_refl'.
    - destruct (eqb y x) eqn:E'; [|reflexivity]. apply eqb_spec in E'. subst.
      rewrite eqb_refl' in E. discriminate.
  Qed.

  Lemma lex_total a b : lex_leb leb eqb a b = true \/ lex_leb leb eqb b a = true.
  Proof.
    revert b; induction a as [|x a IH]; intros [|y b]; simpl; auto.
    rewrite (eqb_sym' y x). destruct (eqb x y); [apply IH | apply leb_total].
  Qed.

  Lemma lex_antisym a b : lex_leb leb eqb a b = true -> lex_leb leb eqb b a = true -> a = b.
  Proof.
    revert b; induction a as [|x a IH]; intros [|y b]; simpl; try discriminate; auto.
    rewrite (eqb_sym' y x). destruct (eqb x y) eqn:E.
    - apply eqb_spec in E. subst. intros H1 H2. f_equal. apply IH; assumption.
    - intros H1 H2. pose proof (leb_antisym _ _ H1 H2) as H. subst.
      rewrite eqb_refl' in E. discriminate.
  Qed.

  Lemma lex_trans a b c :
    lex_leb leb eqb a b = true -> lex_leb leb eqb b c = true -> lex_leb leb eqb a c = true.
  Proof.
    revert b c; induction a as [|x a IH]; intros [|y b] [|z c]; simpl; try discriminate; auto.
    destruct (eqb x y) eqn:Exy.
    - apply eqb_spec in Exy. subst y. destruct (eqb x z) eqn:Exz.
      + apply IH.
      + auto.
    - destruct (eqb y z) eqn:Eyz.
      + apply eqb_spec in Eyz. subst z. rewrite Exy. auto.
      + intros H1 H2. destruct (eqb x z) eqn:Exz.
        * apply eqb_spec in Exz. subst z. pose proof (leb_antisym _ _ H1 H2). subst.
          rewrite eqb_refl' in Exy. discriminate.
        * eapply leb_trans; eassumption.
  Qed.
End Lex.

Lemma nat_of_ascii_inj a b : nat_of_ascii a = nat_of_ascii b -> a = b.
Proof. intro H. rewrite <- (ascii_nat_embedding a), <- (ascii_nat_embedding b), H. reflexivity. Qed.

Lemma ascii_leb_total x y : ascii_leb x y = true \/ ascii_leb y x = true.
Proof. unfold ascii_leb. destruct (Nat.leb_spec (nat_of_ascii x) (nat_of_ascii y)); [auto|]. right. apply Nat.leb_le. lia. Qed.
Lemma ascii_leb_antisym x y : ascii_leb x y = true -> ascii_leb y x = true -> x = y.
Proof. unfold ascii_leb. rewrite !Nat.leb_le. intros. apply nat_of_ascii_inj. lia. Qed.
Lemma ascii_leb_trans x y z : ascii_leb x y = true -> ascii_leb y z = true -> ascii_leb x z = true.
Proof. unfold ascii_leb. rewrite !Nat.leb_le. lia. Qed.

Lemma s2l_inj s t : s2l s = s2l t -> s = t.
Proof. intro H. rewrite <- (l2s_s2l s), <- (l2s_s2l t), H. reflexivity. Qed.

Lemma str_leb_total s t : str_leb s t = true \/ str_leb t s = true.
Proof. apply lex_total; [apply Ascii.eqb_eq | apply ascii_leb_total]. Qed.
Lemma str_leb_antisym s t : str_leb s t = true -> str_leb t s = true -> s = t.
Proof.
  intros H1 H2. apply s2l_inj.
  eapply lex_antisym; [apply Ascii.eqb_eq | apply ascii_leb_antisym | exact H1 | exact H2].
Qed.
Lemma str_leb_trans s t u : str_leb s t = true -> str_leb t u = true -> str_leb s u = true.
Proof.
  apply lex_trans; [apply Ascii.eqb_eq | apply ascii_leb_antisym | apply ascii_leb_trans].
Qed.

Lemma path_leb_total p q : path_leb p q = true \/ path_leb q p = true.
Proof. apply lex_total; [apply String.eqb_eq | apply str_leb_total]. Qed.
Lemma path_leb_antisym p q : path_leb p q = true -> path_leb q p = true -> p = q.
Proof. apply lex_antisym; [apply String.eqb_eq | apply str_leb_antisym]. Qed.
Lemma path_leb_trans p q r : path_leb p q = true -> path_leb q r = true -> path_leb p r = true.
Proof. apply lex_trans; [apply String.eqb_eq | apply str_leb_antisym | apply str_leb_trans]. Qed.

(* ------------------------------------------------------------------ insertion sort *)
Section Sort.
  Variable X : Type.
  Variable leb : X -> X -> bool.
  Hypothesis leb_total : forall x y, leb x y = true \/ leb y x = true.
  Hypothesis leb_trans : forall x y z, leb x y = true -> leb y z = true -> leb x z = true.
  Let R x y := leb x y = true.

  Lemma insert_perm x l : Permutation (insert_by leb x l) (x :: l).
  Proof.
    induction l as [|y l IH]; simpl; [reflexivity|].
    destruct (leb x y); [reflexivity|].
    rewrite IH. apply perm_swap.
  Qed.

  Lemma sort_perm l : Permutation (sort_by leb l) l.
  Proof.
    induction l as [|x l IH]; simpl; [reflexivity|].
    unfold sort_by in *. simpl. rewrite insert_perm. constructor. exact IH.
  Qed.

  Lemma insert_sorted x l : StronglySorted R l -> StronglySorted R (insert_by leb x l).
  Proof.
    induction l as [|y l IH]; simpl; intro H.
    - repeat constructor.
    - apply StronglySorted_inv in H as [Hs Hf]. destruct (leb x y) eqn:E.
      + constructor; [constructor; assumption|]. constructor; [exact E|].
        eapply Forall_impl; [|exact Hf]. intros z Hz. eapply leb_trans; eassumption.
      + constructor; [apply IH; exact Hs|].
        assert (Hyx : leb y x = true) by (destruct (leb_total x y); congruence).
        eapply Permutation_Forall; [symmetry; apply insert_perm|]. constructor; assumption.
  Qed.

  Lemma sort_sorted l : StronglySorted R (sort_by leb l).
  Proof.
    induction l as [|x l IH]; [constructor|]. unfold sort_by in *. simpl. apply insert_sorted. exact IH.
  Qed.

  (* two sorted permutations of one another are equal, antisymmetry needed on members only *)
  Lemma sorted_perm_eq l l' :
    (forall x y, In x l -> In y l -> leb x y = true -> leb y x = true -> x = y) ->
    StronglySorted R l -> StronglySorted R l' -> Permutation l l' -> l = l'.
  Proof.
    revert l'; induction l as [|x l IH]; intros l' Ha Hs Hs' Hp.
    - apply Permutation_nil in Hp. subst. reflexivity.
    - destruct l' as [|y l']; [apply Permutation_sym, Permutation_nil in Hp; discriminate|].
      apply StronglySorted_inv in Hs as [Hs Hf]. apply StronglySorted_inv in Hs' as [Hs' Hf'].
      assert (Hx : In x (y :: l')) by (eapply Permutation_in; [exact Hp | left; reflexivity]).
      assert (Hy : In y (x :: l)) by (eapply Permutation_in; [symmetry; exact Hp | left; reflexivity]).
      assert (E : x = y).
      { destruct Hx as [Hx|Hx]; [congruence|]. destruct Hy as [Hy|Hy]; [congruence|].
        rewrite Forall_forall in Hf, Hf'.
        apply Ha; [left; reflexivity | right; exact Hy | apply Hf; exact Hy | apply Hf'; exact Hx]. }
      subst y. f_equal. apply IH; try assumption.
      + intros a b Ia Ib. apply Ha; right; assumption.
      + eapply Permutation_cons_inv. exact Hp.
  Qed.
End Sort.

Lemma filter_perm {X} (f : X -> bool) l l' : Permutation l l' -> Permutation (filter f l) (filter f l').
Proof.
  induction 1; simpl.
  - constructor.
  - destruct (f x); [constructor|]; assumption.
  - destruct (f x), (f y); try reflexivity. apply perm_swap.
  - etransitivity; eassumption.
Qed.

Lemma NoDup_map_filter {X Y} (g : X -> Y) (f : X -> bool) l : NoDup (map g l) -> NoDup (map g (filter f l)).
Proof.
  induction l as [|x l IH]; simpl; intro H; [constructor|].
  inversion H as [|? ? Hn Hd]; subst. destruct (f x); simpl.
  - constructor; [|apply IH; exact Hd]. intro Hin. apply Hn.
    apply in_map_iff in Hin as [z [Hz Hi]]. apply filter_In in Hi as [Hi _].
    apply in_map_iff. exists z. split; assumption.
  - apply IH. exact Hd.
Qed.

Lemma NoDup_map_inj_on {X Y} (g : X -> Y) l x y :
  NoDup (map g l) -> In x l -> In y l -> g x = g y -> x = y.
Proof.
  induction l as [|z l IH]; simpl; intros Hn Hx Hy E; [contradiction|].
  inversion Hn as [|? ? Hni Hd]; subst.
  destruct Hx as [Hx|Hx], Hy as [Hy|Hy]; subst.
  - reflexivity.
  - exfalso. apply Hni. rewrite E. apply in_map. exact Hy.
  - exfalso. apply Hni. rewrite <- E. apply in_map. exact Hx.
  - apply IH; assumption.
Qed.

Lemma entry_leb_total a b : entry_leb a b = true \/ entry_leb b a = true.
Proof. apply path_leb_total. Qed.
Lemma entry_leb_trans a b c : entry_leb a b = true -> entry_leb b c = true -> entry_leb a c = true.
Proof. apply path_leb_trans. Qed.

(* ------------------------------------------------------------------ the walk *)
Lemma walk_perm tree : Permutation (walk_sorted tree) (filter selected tree).
Proof. apply sort_perm. Qed.

Lemma walk_sorted_sorted tree :
  StronglySorted (fun a b => entry_leb a b = true) (walk_sorted tree).
Proof. apply sort_sorted; [apply entry_leb_total | apply entry_leb_trans]. Qed.

(* the order in which the file system lists the entries does not matter *)
Lemma walk_order_independent tree tree' :
  NoDup (map e_path tree) -> Permutation tree tree' -> walk_sorted tree = walk_sorted tree'.
Proof.
  intros Hn Hp.
  apply (sorted_perm_eq _ entry_leb); try apply walk_sorted_sorted.
  - intros x y Hx Hy H1 H2.
    assert (Hx' : In x (filter selected tree)) by (eapply Permutation_in; [apply walk_perm | exact Hx]).
    assert (Hy' : In y (filter selected tree)) by (eapply Permutation_in; [apply walk_perm | exact Hy]).
    apply filter_In in Hx' as [Hx' _]. apply filter_In in Hy' as [Hy' _].
    eapply NoDup_map_inj_on; [exact Hn | exact Hx' | exact Hy' |].
    apply path_leb_antisym; assumption.
  - rewrite walk_perm. rewrite walk_perm. apply filter_perm. exact Hp.
Qed.

Lemma load_order_independent tree tree' :
  NoDup (map e_path tree) -> Permutation tree tree' -> load_dir tree = load_dir tree'.
Proof. intros Hn Hp. unfold load_dir. rewrite (walk_order_independent tree tree' Hn Hp). reflexivity. Qed.

Lemma loaded_defs_order_independent tree tree' :
  NoDup (map e_path tree) -> Permutation tree tree' -> loaded_defs tree = loaded_defs tree'.
Proof. intros Hn Hp. unfold loaded_defs. rewrite (walk_order_independent tree tree' Hn Hp). reflexivity. Qed.

(* entries that are not selected do not matter *)
Lemma unselected_ignored tree junk :
  forallb (fun e => negb (selected e)) junk = true ->
  walk_sorted (tree ++ junk) = walk_sorted tree.
Proof.
  intro H. unfold walk_sorted. rewrite filter_app.
  replace (filter selected junk) with (@nil entry); [rewrite app_nil_r; reflexivity|].
  induction junk as [|e j IH]; simpl in *; [reflexivity|].
  apply andb_true_iff in H as [H1 H2]. destruct (selected e); [discriminate|]. apply IH. exact H2.
Qed.

(* ------------------------------------------------------------------ reading *)
Definition err_of (e : entry) : lerr := if e_isdir e then EIsDir (e_path e) else ESyntax (e_path e).

Lemma read_file_readable e : readable e = true -> read_file e = inr (e_text e).
Proof.
  unfold readable, read_file. destruct (e_isdir e); simpl; [discriminate|].
  destruct (e_defs e); [reflexivity | discriminate].
Qed.

Lemma read_file_unreadable e : readable e = false -> read_file e = inl (err_of e).
Proof.
  unfold readable, read_file, err_of. destruct (e_isdir e); simpl; [reflexivity|].
  destruct (e_defs e); [discriminate | reflexivity].
Qed.

Lemma read_all_ok l : forallb readable l = true -> read_all l = inr (map e_text l).
Proof.
  induction l as [|e l IH]; simpl; [reflexivity|]. intro H. apply andb_true_iff in H as [H1 H2].
  rewrite (read_file_readable e H1), (IH H2). reflexivity.
Qed.

(* the first unreadable entry in the given order is the one reported *)
Lemma read_all_err l x : read_all l = inl x ->
  exists pre e post, l = pre ++ e :: post /\ forallb readable pre = true /\ readable e = false /\ x = err_of e.
Proof.
  induction l as [|e l IH]; simpl; [discriminate|].
  destruct (readable e) eqn:R.
  - rewrite (read_file_readable e R). destruct (read_all l) eqn:Ra; [|discriminate].
    intro H. inversion H; subst. destruct (IH eq_refl) as [pre [e' [post [E [Hp [Hu Hx]]]]]].
    exists (e :: pre), e', post. subst l. simpl. rewrite R, Hp. auto.
  - rewrite (read_file_unreadable e R). intro H. inversion H; subst.
    exists [], e, l. auto.
Qed.

Lemma forallb_perm {X} (f : X -> bool) l l' : Permutation l l' -> forallb f l = forallb f l'.
Proof.
  induction 1; simpl; try congruence.
  - destruct (f x), (f y); reflexivity.
Qed.

Lemma load_ok_iff tree :
  (exists t, load_dir tree = inr t) <-> all_readable tree = true.
Proof.
  unfold load_dir, all_readable. rewrite <- (forallb_perm readable _ _ (walk_perm tree)). split.
  - intros [t H]. destruct (read_all (walk_sorted tree)) eqn:Ra; [discriminate|].
    destruct (forallb readable (walk_sorted tree)) eqn:F; [reflexivity|].
    exfalso. clear H. revert l Ra. induction (walk_sorted tree) as [|e l IH]; simpl in *; [discriminate|].
    intros ts. destruct (readable e) eqn:R.
    + rewrite (read_file_readable e R). destruct (read_all l) eqn:Rl; [discriminate|].
      intros _. simpl in F. eapply IH; [exact F | reflexivity].
    + rewrite (read_file_unreadable e R). discriminate.
  - intro H. rewrite (read_all_ok _ H). eexists. reflexivity.
Qed.

Lemma load_ok_text tree :
  all_readable tree = true -> load_dir tree = inr (join_nl (map e_text (walk_sorted tree))).
Proof.
  unfold load_dir, all_readable. rewrite <- (forallb_perm readable _ _ (walk_perm tree)).
  intro H. rewrite (read_all_ok _ H). reflexivity.
Qed.

(* the error names the least unreadable selected path *)
Lemma load_first_error tree x :
  load_dir tree = inl x ->
  exists e, In e (filter selected tree) /\ readable e = false /\ x = err_of e /\
    forall e', In e' (filter selected tree) -> readable e' = false ->
               path_leb (e_path e) (e_path e') = true.
Proof.
  unfold load_dir. destruct (read_all (walk_sorted tree)) eqn:Ra; [|discriminate].
  intro H. inversion H; subst. destruct (read_all_err _ _ Ra) as [pre [e [post [E [Hp [Hu Hx]]]]]].
  exists e. split; [|split; [exact Hu | split; [exact Hx|]]].
  - eapply Permutation_in; [apply walk_perm|]. rewrite E. apply in_or_app. right. left. reflexivity.
  - intros e' Hin Hr.
    assert (Hin' : In e' (walk_sorted tree)) by (eapply Permutation_in; [symmetry; apply walk_perm | exact Hin]).
    pose proof (walk_sorted_sorted tree) as Hs. rewrite E in Hs, Hin'.
    apply in_app_or in Hin' as [Hin'|Hin'].
    + exfalso. rewrite forallb_forall in Hp. rewrite (Hp _ Hin') in Hr. discriminate.
    + clear Hp E. induction pre as [|p pre IH]; simpl in Hs.
      * apply StronglySorted_inv in Hs as [_ Hf]. destruct Hin' as [Hin'|Hin'].
        -- subst. destruct (path_leb_total (e_path e') (e_path e')); assumption.
        -- rewrite Forall_forall in Hf. apply Hf. exact Hin'.
      * apply StronglySorted_inv in Hs as [Hs _]. apply IH. exact Hs.
Qed.

(* ------------------------------------------------------------------ definitions fed to build_ast_schema *)
Theorem split_permutation tree ds :
  Permutation (flat_map defs_of (filter selected tree)) ds ->
  Permutation (loaded_defs tree) ds.
Proof.
  intro H. unfold loaded_defs. etransitivity; [|exact H].
  apply Permutation_flat_map. apply walk_perm.
Qed.

(* ------------------------------------------------------------------ the type map *)
Definition type_names (ds : list defn) : list string := map d_name (filter (fun d => negb (d_ext d)) ds).
Definition pairs (ds : list defn) : list (string * tbody) :=
  map (fun d => (d_name d, d_body d)) (filter (fun d => negb (d_ext d)) ds).

Lemma assoc_set_fresh {V} k (v : V) m : ~ In k (map fst m) -> assoc_set k v m = m ++ [(k, v)].
Proof.
  induction m as [|[k' v'] m IH]; simpl; intro H; [reflexivity|].
  destruct (String.eqb k k') eqn:E.
  - apply String.eqb_eq in E. subst. exfalso. apply H. left. reflexivity.
  - rewrite IH; [reflexivity|]. intro Hin. apply H. right. exact Hin.
Qed.

Lemma base_map_gen ds m :
  NoDup (map fst m ++ type_names ds) ->
  fold_left (fun m d => if d_ext d then m else assoc_set (d_name d) (d_body d) m) ds m = m ++ pairs ds.
Proof.
  revert m; induction ds as [|d ds IH]; intros m H; simpl.
  - unfold pairs. simpl. rewrite app_nil_r. reflexivity.
  - unfold pairs, type_names in *. simpl in *. destruct (d_ext d); simpl in *.
    + apply IH. exact H.
    + rewrite assoc_set_fresh.
      * rewrite IH.
        -- rewrite <- app_assoc. reflexivity.
        -- rewrite map_app. simpl. rewrite <- app_assoc. simpl. exact H.
      * apply NoDup_remove_2 in H. intro Hin. apply H. apply in_or_app. left. exact Hin.
Qed.

Lemma base_map_pairs ds : NoDup (type_names ds) -> base_map ds = pairs ds.
Proof. intro H. unfold base_map. rewrite base_map_gen; [reflexivity | exact H]. Qed.

Lemma pairs_perm ds ds' : Permutation ds' ds -> Permutation (pairs ds') (pairs ds).
Proof. intro H. unfold pairs. apply Permutation_map. apply filter_perm. exact H. Qed.

Lemma type_names_perm ds ds' : Permutation ds' ds -> Permutation (type_names ds') (type_names ds).
Proof. intro H. unfold type_names. apply Permutation_map. apply filter_perm. exact H. Qed.

Lemma ext_members_perm n ds ds' : Permutation ds' ds -> Permutation (ext_members n ds') (ext_members n ds).
Proof. intro H. unfold ext_members. apply Permutation_flat_map. exact H. Qed.

Lemma ext_members_none n ds : has_ext ds = false -> ext_members n ds = [].
Proof.
  unfold has_ext, ext_members. induction ds as [|d ds IH]; simpl; [reflexivity|].
  intro H. apply orb_false_iff in H as [H1 H2]. rewrite H1. simpl. apply IH. exact H2.
Qed.

Lemma has_ext_perm ds ds' : Permutation ds' ds -> has_ext ds' = has_ext ds.
Proof.
  unfold has_ext. induction 1; simpl; try congruence.
  - destruct (d_ext x), (d_ext y); reflexivity.
Qed.

Lemma extend_body_noext ds nb : has_ext ds = false -> extend_body ds nb = nb.
Proof.
  intro H. unfold extend_body. rewrite (ext_members_none _ _ H), app_nil_r.
  destruct nb as [n [k h m]]. reflexivity.
Qed.

(* without extensions the type map of any permutation of the definitions is a permutation of
   the type map: the same classes are generated, in another order *)
Theorem type_map_perm_noext ds ds' :
  NoDup (type_names ds) -> has_ext ds = false -> Permutation ds' ds ->
  Permutation (type_map ds') (type_map ds).
Proof.
  intros Hn He Hp. unfold type_map.
  assert (Hn' : NoDup (type_names ds')) by (eapply Permutation_NoDup; [symmetry; apply type_names_perm; exact Hp | exact Hn]).
  rewrite (base_map_pairs _ Hn), (base_map_pairs _ Hn').
  rewrite (map_ext _ (fun nb => nb) (fun nb => extend_body_noext ds nb He)), map_id.
  assert (He' : has_ext ds' = false) by (rewrite (has_ext_perm _ _ Hp); exact He).
  rewrite (map_ext _ (fun nb => nb) (fun nb => extend_body_noext ds' nb He')), map_id.
  apply pairs_perm. exact Hp.
Qed.

Lemma assoc_get_perm {V} (m m' : list (string * V)) k :
  NoDup (map fst m) -> Permutation m' m -> assoc_get k m' = assoc_get k m.
Proof.
  intros Hn Hp. revert Hn. induction Hp; intro Hn; simpl.
  - reflexivity.
  - destruct x as [k' v]. destruct (String.eqb k k'); [reflexivity|].
    apply IHHp. inversion Hn. assumption.
  - destruct x as [k1 v1], y as [k2 v2]. simpl in Hn.
    destruct (String.eqb k k1) eqn:E1, (String.eqb k k2) eqn:E2; try reflexivity.
    apply String.eqb_eq in E1, E2. subst. exfalso. inversion Hn as [|? ? Hni _]. apply Hni. left. reflexivity.
  - rewrite IHHp1; [apply IHHp2; exact Hn|].
    eapply Permutation_NoDup; [|exact Hn]. apply Permutation_map. symmetry. exact Hp2.
Qed.

Lemma assoc_get_map_ext ds k m :
  assoc_get k (map (extend_body ds) m) = option_map (fun b => snd (extend_body ds (k, b))) (assoc_get k m).
Proof.
  induction m as [|[k' b] m IH]; simpl; [reflexivity|].
  destruct (String.eqb k k') eqn:E; [|exact IH].
  apply String.eqb_eq in E. subst. reflexivity.
Qed.

Definition body_equiv (b b' : tbody) : Prop :=
  b_kind b = b_kind b' /\ b_header b = b_header b' /\ Permutation (b_members b) (b_members b').

Definition lookup_equiv (o o' : option tbody) : Prop :=
  match o, o' with
  | Some b, Some b' => body_equiv b b'
  | None, None => True
  | _, _ => False
  end.

Lemma pairs_fst ds : map fst (pairs ds) = type_names ds.
Proof. unfold pairs, type_names. rewrite map_map. reflexivity. Qed.

(* in general (extensions allowed): as a finite map the type map is the same up to the order of
   the members that extensions contribute *)
Theorem type_map_lookup_equiv ds ds' n :
  NoDup (type_names ds) -> Permutation ds' ds ->
  lookup_equiv (assoc_get n (type_map ds')) (assoc_get n (type_map ds)).
Proof.
  intros Hn Hp. unfold type_map.
  assert (Hn' : NoDup (type_names ds')) by (eapply Permutation_NoDup; [symmetry; apply type_names_perm; exact Hp | exact Hn]).
  rewrite (base_map_pairs _ Hn), (base_map_pairs _ Hn'), !assoc_get_map_ext.
  rewrite (assoc_get_perm (pairs ds) (pairs ds') n); [| rewrite pairs_fst; exact Hn | apply pairs_perm; exact Hp].
  destruct (assoc_get n (pairs ds)) as [b|]; simpl; [|exact I].
  repeat split; try reflexivity. apply Permutation_app_head. apply ext_members_perm. exact Hp.
Qed.

Theorem type_map_lookup_eq_noext ds ds' n :
  NoDup (type_names ds) -> has_ext ds = false -> Permutation ds' ds ->
  assoc_get n (type_map ds') = assoc_get n (type_map ds).
Proof.
  intros Hn He Hp. apply assoc_get_perm.
  - unfold type_map. rewrite (base_map_pairs _ Hn).
    rewrite (map_ext _ (fun nb => nb) (fun nb => extend_body_noext ds nb He)), map_id, pairs_fst. exact Hn.
  - apply type_map_perm_noext; assumption.
Qed.

(* ------------------------------------------------------------------ suffix *)
Lemma split_last_dot_app pre suf :
  forallb (fun c => negb (is_dot c)) suf = true ->
  split_last_dot (pre ++ "."%char :: suf) = Some (pre, suf).
Proof.
  intro H. induction pre as [|c pre IH]; simpl.
  - assert (E : split_last_dot suf = None).
    { clear -H. induction suf as [|c s IH]; simpl in *; [reflexivity|].
      apply andb_true_iff in H as [H1 H2]. rewrite (IH H2). destruct (is_dot c); [discriminate | reflexivity]. }
    rewrite E. reflexivity.
  - rewrite IH. reflexivity.
Qed.

(* a name stem ++ ext with a non-empty stem is selected, whatever the stem (dots included) *)
Lemma suffix_of_ext stem ext :
  stem <> [] -> ext <> [] -> forallb (fun c => negb (is_dot c)) ext = true ->
  suffix_chars (stem ++ "."%char :: ext) = "."%char :: ext.
Proof.
  intros Hs He Hd. unfold suffix_chars. rewrite (split_last_dot_app stem ext Hd).
  destruct stem; [contradiction|]. destruct ext; [contradiction|]. reflexivity.
Qed.

Lemma no_dot_no_suffix name : forallb (fun c => negb (is_dot c)) name = true -> suffix_chars name = [].
Proof.
  intro H. unfold suffix_chars.
  assert (E : split_last_dot name = None).
  { induction name as [|c s IH]; simpl in *; [reflexivity|].
    apply andb_true_iff in H as [H1 H2]. rewrite (IH H2). destruct (is_dot c); [discriminate | reflexivity]. }
  rewrite E. reflexivity.
Qed.

(* ------------------------------------------------------------------ statements used by Properties/C19.v *)
Theorem split_invariant tree ds :
  NoDup (type_names ds) -> has_ext ds = false ->
  Permutation (flat_map defs_of (filter selected tree)) ds ->
  Permutation (type_map (loaded_defs tree)) (type_map ds) /\
  forall n, assoc_get n (type_map (loaded_defs tree)) = assoc_get n (type_map ds).
Proof.
  intros Hn He Hp. pose proof (split_permutation tree ds Hp) as H. split.
  - apply type_map_perm_noext; assumption.
  - intro n. apply type_map_lookup_eq_noext; assumption.
Qed.

Theorem split_invariant_ext tree ds n :
  NoDup (type_names ds) ->
  Permutation (flat_map defs_of (filter selected tree)) ds ->
  lookup_equiv (assoc_get n (type_map (loaded_defs tree))) (assoc_get n (type_map ds)).
Proof.
  intros Hn Hp. apply type_map_lookup_equiv; [exact Hn | apply split_permutation; exact Hp].
Qed.

Theorem load_unselected_ignored tree junk :
  forallb (fun e => negb (selected e)) junk = true ->
  load_dir (tree ++ junk) = load_dir tree.
Proof. intro H. unfold load_dir. rewrite (unselected_ignored tree junk H). reflexivity. Qed.

Lemma all_readable_from_files tree : files_readable tree = true -> all_readable tree = true.
Proof.
  unfold files_readable, all_readable. intro H.
  induction tree as [|e t IH]; simpl in *; [reflexivity|].
  apply andb_true_iff in H as [H1 H2]. specialize (IH H2).
  destruct (selected e) eqn:S; simpl; [|exact IH]. rewrite IH, andb_true_r.
  unfold selected in S. apply andb_true_iff in S as [D _].
  destruct (e_isdir e); simpl in *; [discriminate | exact H1].
Qed.

(* a tree whose FILES are all fine loads (directories, whatever their names, are never opened) *)
Theorem split_loads tree : files_readable tree = true -> exists t, load_dir tree = inr t.
Proof. intro H. apply load_ok_iff. apply all_readable_from_files. exact H. Qed.

Lemma selected_not_dir e : selected e = true -> e_isdir e = false.
Proof. unfold selected. intro H. apply andb_true_iff in H as [H _]. destruct (e_isdir e); [discriminate | reflexivity]. Qed.

(* the only load error left is a syntax error in a selected file *)
Theorem load_error_is_syntax tree x : load_dir tree = inl x -> exists p, x = ESyntax p.
Proof.
  intro H. destruct (load_first_error tree x H) as [e [Hin [_ [Hx _]]]].
  apply filter_In in Hin as [_ S]. apply selected_not_dir in S.
  unfold err_of in Hx. rewrite S in Hx. eauto.
Qed.
