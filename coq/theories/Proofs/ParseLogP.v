(* parse is called exactly on the occurrences present in the response: the field-driven log of validation is a
   permutation of the payload-driven enumeration, for ANY class table, under hereditary uniqueness of keys. *)
From Coq Require Import List String Ascii Bool ZArith Permutation Lia.
From AC Require Import Base.Sexp Base.Json Gql.Schema Py.Ann Py.Pydantic Py.ParseLog.
Import ListNotations.
Local Open Scope string_scope.
Local Open Scope list_scope.

Lemma mem_In x l : mem x l = true <-> In x l.
Proof.
  unfold mem. rewrite existsb_exists. split.
  - intros [y [Hy E]]. apply String.eqb_eq in E. subst. exact Hy.
  - intro H. exists x. split; [exact H|apply String.eqb_refl].
Qed.

Lemma nodup_s_NoDup l : nodup_s l = true -> NoDup l.
Proof.
  induction l as [|x r IH]; simpl; intro H; [constructor|].
  apply andb_true_iff in H as [H1 H2]. constructor; [|apply IH; exact H2].
  intro Hin. apply mem_In in Hin. rewrite Hin in H1. discriminate.
Qed.

Lemma jlookup_notin k (kv : list (string * json)) : ~ In k (map fst kv) -> jlookup k kv = None.
Proof.
  induction kv as [|[k' v] r IH]; simpl; intro H; [reflexivity|].
  destruct (String.eqb k k') eqn:E; [apply String.eqb_eq in E; subst; exfalso; apply H; left; reflexivity|].
  apply IH. intro Hin. apply H. right; exact Hin.
Qed.

Lemma flat_map_perm {X Y} (f g : X -> list Y) l :
  (forall x, In x l -> Permutation (f x) (g x)) -> Permutation (flat_map f l) (flat_map g l).
Proof.
  induction l as [|x l IH]; intro H; simpl; [constructor|].
  apply Permutation_app; [apply H; left; reflexivity|apply IH; intros y Hy; apply H; right; exact Hy].
Qed.

Lemma flat_map_nil {X Y} (f : X -> list Y) l : (forall x, In x l -> f x = []) -> flat_map f l = [].
Proof.
  induction l as [|x l IH]; intro H; simpl; [reflexivity|].
  rewrite (H x (or_introl eq_refl)), IH; [reflexivity|intros y Hy; apply H; right; exact Hy].
Qed.

Lemma flat_map_ext_in' {X Y} (f g : X -> list Y) l :
  (forall x, In x l -> f x = g x) -> flat_map f l = flat_map g l.
Proof.
  induction l as [|x l IH]; intro H; simpl; [reflexivity|].
  rewrite (H x (or_introl eq_refl)), IH; [reflexivity|intros y Hy; apply H; right; exact Hy].
Qed.

Lemma find_split {X} (p : X -> bool) l x :
  find p l = Some x -> exists l1 l2, l = l1 ++ x :: l2 /\ p x = true /\ forall y, In y l1 -> p y = false.
Proof.
  induction l as [|a l IH]; simpl; [discriminate|].
  destruct (p a) eqn:E; intro H.
  - inversion H; subst. exists [], l. repeat split; [exact E|intros y []].
  - destruct (IH H) as [l1 [l2 [El [Hp Hn]]]]. exists (a :: l1), l2. subst l. repeat split; [exact Hp|].
    intros y [Ey|Hy]; [subst; exact E|apply Hn; exact Hy].
Qed.

Lemma find_none_all {X} (p : X -> bool) l : find p l = None -> forall y, In y l -> p y = false.
Proof.
  induction l as [|a l IH]; simpl; intros H y Hy; [contradiction|].
  destruct (p a) eqn:E; [discriminate|]. destruct Hy as [Ey|Hy]; [subst; exact E|apply IH; assumption].
Qed.

(* the heart: fields looked up in the payload vs payload entries matched to fields *)
Section ClassPerm.
  Variable key : pfield -> string.
  Variables R1 R2 : pfield -> json -> list pentry.

  Definition by_field (F : list pfield) (kv : list (string * json)) : list pentry :=
    flat_map (fun f => match jlookup (key f) kv with Some v => R1 f v | None => [] end) F.
  Definition by_entry (F : list pfield) (kv : list (string * json)) : list pentry :=
    flat_map (fun p => match find (fun f => String.eqb (key f) (fst p)) F with
                       | Some f => R2 f (snd p) | None => [] end) kv.

  Lemma by_field_app A B kv : by_field (A ++ B) kv = by_field A kv ++ by_field B kv.
  Proof. unfold by_field. apply flat_map_app. Qed.

  Lemma by_field_cons f G kv :
    by_field (f :: G) kv = (match jlookup (key f) kv with Some v => R1 f v | None => [] end) ++ by_field G kv.
  Proof. reflexivity. Qed.

  Lemma class_perm F : NoDup (map key F) -> forall kv, NoDup (map fst kv) ->
    (forall k v f, In (k, v) kv -> find (fun f => String.eqb (key f) k) F = Some f ->
                   Permutation (R1 f v) (R2 f v)) ->
    Permutation (by_field F kv) (by_entry F kv).
  Proof.
    intros HF. induction kv as [|[k v] r IH]; intros Hkv Hrec.
    - unfold by_field, by_entry. simpl. rewrite flat_map_nil; [constructor|]. intros f _. reflexivity.
    - apply NoDup_cons_iff in Hkv as [Hk Hr]. simpl in Hk.
      assert (IH' : Permutation (by_field F r) (by_entry F r)).
      { apply IH; [exact Hr|]. intros k' v' f Hin Hf. apply (Hrec k' v' f); [right; exact Hin|exact Hf]. }
      unfold by_entry at 1. simpl. fold (by_entry F r).
      destruct (find (fun f => String.eqb (key f) k) F) as [f0|] eqn:Ef.
      + destruct (find_split _ _ _ Ef) as [F1 [F2 [EF [Hp Hn1]]]]. apply String.eqb_eq in Hp.
        assert (Hn2 : forall y, In y F2 -> String.eqb (key y) k = false).
        { intros y Hy. apply String.eqb_neq. intro E. subst F. rewrite map_app in HF. simpl in HF.
          apply NoDup_remove_2 in HF. apply HF. apply in_or_app. right. rewrite Hp, <- E. apply in_map. exact Hy. }
        assert (Hother : forall y, String.eqb (key y) k = false ->
                  (match jlookup (key y) ((k, v) :: r) with Some x => R1 y x | None => [] end) =
                  (match jlookup (key y) r with Some x => R1 y x | None => [] end)).
        { intros y E. simpl. rewrite E. reflexivity. }
        assert (Hpart : forall G, (forall y, In y G -> String.eqb (key y) k = false) ->
                  by_field G ((k, v) :: r) = by_field G r).
        { intros G HG. unfold by_field. apply flat_map_ext_in'. intros y Hy. apply Hother. apply HG; exact Hy. }
        subst F. rewrite by_field_app, by_field_cons.
        rewrite (Hpart F1 Hn1), (Hpart F2 Hn2).
        assert (Hhere : jlookup (key f0) ((k, v) :: r) = Some v) by (simpl; rewrite Hp, String.eqb_refl; reflexivity).
        rewrite Hhere.
        assert (Hf0r : jlookup (key f0) r = None) by (rewrite Hp; apply jlookup_notin; exact Hk).
        assert (IH2 : Permutation (by_field F1 r ++ by_field F2 r) (by_entry (F1 ++ f0 :: F2) r)).
        { eapply perm_trans; [|exact IH']. rewrite by_field_app, by_field_cons, Hf0r. apply Permutation_refl. }
        eapply perm_trans; [apply Permutation_app_comm|]. rewrite <- app_assoc.
        apply Permutation_app; [apply (Hrec k v f0); [left; reflexivity|exact Ef]|].
        eapply perm_trans; [apply Permutation_app_comm|]. exact IH2.
      + simpl. assert (Hall : forall y, In y F -> String.eqb (key y) k = false) by (apply find_none_all; exact Ef).
        assert (E : by_field F ((k, v) :: r) = by_field F r).
        { unfold by_field. apply flat_map_ext_in'. intros y Hy. simpl. rewrite (Hall y Hy). reflexivity. }
        rewrite E. exact IH'.
  Qed.
End ClassPerm.

Lemma class_step_perm (P1 P2 : ann -> json -> list pentry) (U : ann -> json -> bool) fields j :
  (forall a v, U a v = true -> Permutation (P1 a v) (P2 a v)) ->
  class_uniq U fields j = true ->
  Permutation (class_plog P1 fields j) (class_pocc P2 fields j).
Proof.
  intros Hrec Hu. unfold class_plog, class_pocc, class_uniq in *.
  destruct j as [| | | | | |kv]; try apply Permutation_refl.
  destruct fields as [fs|]; [|apply Permutation_refl].
  apply andb_true_iff in Hu as [Hu Hent]. apply andb_true_iff in Hu as [Hu Hfb].
  apply andb_true_iff in Hu as [Hkv HF].
  apply nodup_s_NoDup in Hkv. apply nodup_s_NoDup in HF.
  rewrite forallb_forall in Hfb, Hent.
  (* no populate_by_name fallback: the field value is the lookup by key *)
  rewrite (flat_map_ext_in' _ (fun f => match jlookup (field_key_of f) kv with
                                        | Some v => P1 (p_ann f) v | None => [] end)).
  - apply (class_perm field_key_of (fun f v => P1 (p_ann f) v) (fun f v => P2 (p_ann f) v)
             (last_wins fs) HF kv Hkv).
    intros k v f Hin Hf. apply Hrec. specialize (Hent (k, v) Hin). simpl in Hent. rewrite Hf in Hent. exact Hent.
  - intros f Hf. unfold field_value. destruct (jlookup (field_key_of f) kv); [reflexivity|].
    specialize (Hfb f Hf). destruct (p_alias f); [|reflexivity].
    destruct (jlookup (p_name f) kv); [discriminate|reflexivity].
Qed.

Lemma cls_step_perm (P1 P2 : ann -> json -> list pentry) (U : ann -> json -> bool) mro a j :
  (forall a v, U a v = true -> Permutation (P1 a v) (P2 a v)) ->
  cls_step class_uniq U mro a j = true ->
  Permutation (cls_step_log class_plog P1 mro a j) (cls_step_log class_pocc P2 mro a j).
Proof.
  intros Hrec Hu. unfold cls_step, cls_step_log in *.
  destruct a; try apply Permutation_refl.
  - apply (class_step_perm P1 P2 U); assumption.
  - destruct j as [| | | | | |kv]; try apply Permutation_refl.
    destruct (jlookup "__typename" kv) as [[| | | |tn| |]|]; try apply Permutation_refl.
    destruct (union_pick mro alts tn) as [x|]; [|apply Permutation_refl].
    destruct x; try apply Permutation_refl.
    apply (class_step_perm P1 P2 U); assumption.
Qed.

Lemma ann_perm (L1 L2 : ann -> json -> list pentry) (C : ann -> json -> bool) :
  (forall a j, C a j = true -> Permutation (L1 a j) (L2 a j)) ->
  forall a j, cov_ann C a j = true -> Permutation (plog_ann L1 a j) (plog_ann L2 a j).
Proof.
  intro Hcls. fix IH 1. intros a j Hc. destruct a; simpl in *; try apply Permutation_refl.
  - apply Hcls; exact Hc.
  - destruct (is_null j); [constructor|]. simpl in Hc. apply IH; exact Hc.
  - destruct j; try apply Permutation_refl. rewrite forallb_forall in Hc.
    apply flat_map_perm. intros x Hx. apply IH. apply Hc; exact Hx.
  - apply Hcls; exact Hc.
Qed.

(* THEOREM: validation calls parse on exactly the occurrences present in the response (as multisets), for every
   class table and payload with hereditarily unique keys *)
Theorem parse_once_response : forall n cs a j,
  uniq n cs a j = true -> Permutation (plog n cs a j) (pocc n cs a j).
Proof.
  induction n as [|n IH]; intros cs a j Hu; [constructor|].
  simpl in *. eapply ann_perm; [|exact Hu].
  intros a' j' Hc. apply (cls_step_perm (plog n cs) (pocc n cs) (uniq n cs)); [|exact Hc].
  intros a2 v Hv. apply IH; exact Hv.
Qed.

(* parse never sees null in an accepted payload *)
Lemma plog_ann_nonnull (L : ann -> json -> list pentry) (A : ann -> json -> bool) enums :
  (forall a j, A a j = true -> Forall (fun e => snd e <> JNull) (L a j)) ->
  forall a j, acc_ann A enums a j = true -> Forall (fun e => snd e <> JNull) (plog_ann L a j).
Proof.
  intro Hcls. fix IH 1. intros a j Hc. destruct a; simpl in *; try constructor.
  - destruct has_parse; [|constructor]. constructor; [|constructor]. simpl.
    destruct j; simpl in Hc; try discriminate; discriminate.
  - apply Hcls; exact Hc.
  - destruct (is_null j) eqn:E; [constructor|]. simpl in Hc. apply IH; exact Hc.
  - destruct j; try constructor. rewrite forallb_forall in Hc.
    apply Forall_forall. intros e He. apply in_flat_map in He as [x [Hx He]].
    pose proof (IH a x (Hc x Hx)) as Hf. rewrite Forall_forall in Hf. apply Hf; exact He.
  - apply Hcls; exact Hc.
Qed.

Lemma class_plog_nonnull (P : ann -> json -> list pentry) (A : ann -> json -> bool) fields j :
  (forall a v, A a v = true -> Forall (fun e => snd e <> JNull) (P a v)) ->
  class_accepts A fields j = true -> Forall (fun e => snd e <> JNull) (class_plog P fields j).
Proof.
  intros Hrec Ha. unfold class_accepts, class_plog in *.
  destruct j as [| | | | | |kv]; try constructor. destruct fields as [fs|]; [|constructor].
  rewrite forallb_forall in Ha. apply Forall_forall. intros e He. apply in_flat_map in He as [f [Hf He]].
  specialize (Ha f Hf). unfold field_value in He.
  destruct (jlookup (field_key_of f) kv) as [v|].
  - pose proof (Hrec _ _ Ha) as H. rewrite Forall_forall in H. apply H; exact He.
  - destruct (p_alias f); [|contradiction].
    destruct (jlookup (p_name f) kv) as [v|]; [|contradiction].
    pose proof (Hrec _ _ Ha) as H. rewrite Forall_forall in H. apply H; exact He.
Qed.

Theorem parse_never_null : forall n cs enums a j,
  accepts n cs enums a j = true -> Forall (fun e => snd e <> JNull) (plog n cs a j).
Proof.
  induction n as [|n IH]; intros cs enums a j Ha; [constructor|].
  simpl in *. eapply plog_ann_nonnull; [|exact Ha].
  intros a' j' Hc. unfold cls_step in Hc. unfold cls_step_log.
  destruct a'; try discriminate.
  - eapply class_plog_nonnull; [|exact Hc]. intros a2 v Hv. eapply IH; exact Hv.
  - destruct j' as [| | | | | |kv]; try discriminate.
    destruct (jlookup "__typename" kv) as [[| | | |tn| |]|]; try discriminate.
    destruct (union_pick (mro_fields n cs) alts tn) as [x|]; [|discriminate].
    destruct x; try discriminate.
    eapply class_plog_nonnull; [|exact Hc]. intros a2 v Hv. eapply IH; exact Hv.
Qed.
