(* C01 preservation (key coverage) with fragment spreads used as mixin base classes. *)
From Coq Require Import List String Ascii Bool Arith Lia ZArith.
From AC Require Import Base.Strs Base.Sexp Base.Json Gql.Schema Gql.Exec Py.Ann Py.Pydantic
     Model.Names Model.Results Proofs.ResultsP Proofs.ResultsRunP Proofs.ResultsAbsP Proofs.ResultsObjP
     Proofs.ResultsMixP.
Import ListNotations.
Local Open Scope string_scope.
Local Open Scope list_scope.

(* ---- resolve and fragment_bases do not depend on the fuel once they succeed ---- *)
Lemma resolve_fuel_det S frs : forall k1 k2 under sels r a b,
  resolve k1 S frs under sels r = Ok a -> resolve k2 S frs under sels r = Ok b -> a = b.
Proof.
  induction k1 as [|k1 IH]; intros k2 under sels r a b H1 H2; [discriminate H1|].
  destruct k2 as [|k2]; [discriminate H2|]. simpl in H1, H2.
  assert (G : forall sels acc a b,
            fold_left (resolve_step (resolve k1 S frs) S frs r under) sels (Ok acc) = Ok a ->
            fold_left (resolve_step (resolve k2 S frs) S frs r under) sels (Ok acc) = Ok b -> a = b).
  { clear H1 H2 a b sels. induction sels as [|s sels IHs]; intros [l0 m0] a b H1 H2; simpl in H1, H2.
    - congruence.
    - destruct s as [al n c ms sub | n c | tc c sub]; simpl in H1, H2.
      + eapply IHs; eauto.
      + destruct (lookup_frag frs n) as [fd|]; [| rewrite resolve_fold_err in H1; discriminate].
        destruct (lookup_type S r); [| rewrite resolve_fold_err in H1; discriminate].
        destruct (lookup_type S (fr_on fd)) as [df|]; [| rewrite resolve_fold_err in H1; discriminate].
        destruct (negb (under || c) && negb (unpack_fragment S fd (Some r))); simpl in H1, H2;
          [eapply IHs; eauto|].
        destruct (String.eqb (fr_on fd) r || (is_abstract df && is_sub_type S (fr_on fd) r));
          [| eapply IHs; eauto].
        destruct (resolve k1 S frs (under || c) (fr_sel fd) r) as [q1|] eqn:E1; simpl in H1;
          [| rewrite resolve_fold_err in H1; discriminate].
        destruct (resolve k2 S frs (under || c) (fr_sel fd) r) as [q2|] eqn:E2; simpl in H2;
          [| rewrite resolve_fold_err in H2; discriminate].
        rewrite (IH _ _ _ _ _ _ E1 E2) in H1. eapply IHs; eauto.
      + destruct (inline_root_type S (match tc with Some tc0 => tc0 | None => r end) r) as [r'|];
          [| eapply IHs; eauto].
        destruct (resolve k1 S frs (under || c) sub r') as [q1|] eqn:E1; simpl in H1;
          [| rewrite resolve_fold_err in H1; discriminate].
        destruct (resolve k2 S frs (under || c) sub r') as [q2|] eqn:E2; simpl in H2;
          [| rewrite resolve_fold_err in H2; discriminate].
        rewrite (IH _ _ _ _ _ _ E1 E2) in H1. eapply IHs; eauto. }
  eapply G; eauto.
Qed.

Lemma append_fold_err rec l m : fold_left (append_bases rec) l (Err m) = Err m.
Proof. induction l; simpl; auto. Qed.

(* the result of folding append_bases: the start list followed by each element's bases *)
Lemma append_fold_In rec : forall l acc res,
  fold_left (append_bases rec) l (Ok acc) = Ok res ->
  incl acc res /\
  (forall b, In b l -> exists lb, rec b = Ok lb /\ incl lb res) /\
  (forall x, In x res -> In x acc \/ exists b lb, In b l /\ rec b = Ok lb /\ In x lb).
Proof.
  induction l as [|b l IH]; intros acc res H; simpl in H.
  - inversion H; subst. split; [apply incl_refl|]. split; [intros b []|]. auto.
  - destruct (rec b) as [lb|m] eqn:E; simpl in H; [| rewrite append_fold_err in H; discriminate].
    destruct (IH _ _ H) as [I0 [I1 I2]]. split; [eapply incl_tran; [apply incl_appl, incl_refl | exact I0]|].
    split.
    + intros b' [Eb | Hb'].
      * subst b'. exists lb. split; [exact E|]. eapply incl_tran; [apply incl_appr, incl_refl | exact I0].
      * apply I1, Hb'.
    + intros x Hx. destruct (I2 x Hx) as [Hin | [b' [lb' [Hb' [E' Hx']]]]].
      * apply in_app_or in Hin. destruct Hin as [Hin | Hin]; [left; exact Hin|].
        right. exists b, lb. split; [left; reflexivity | auto].
      * right. exists b', lb'. split; [right; exact Hb' | auto].
Qed.

Lemma fragment_bases_fuel_det S frs : forall k1 k2 n a b,
  fragment_bases k1 S frs n = Ok a -> fragment_bases k2 S frs n = Ok b -> a = b.
Proof.
  induction k1 as [|k1 IH]; intros k2 n a b H1 H2; [discriminate H1|].
  destruct k2 as [|k2]; [discriminate H2|]. simpl in H1, H2.
  destruct (lookup_frag frs n) as [f|]; [| discriminate H1].
  apply bind_ok in H1. destruct H1 as [q1 [R1 H1]]. apply bind_ok in H2. destruct H2 as [q2 [R2 H2]].
  rewrite (resolve_fuel_det _ _ _ _ _ _ _ _ _ R1 R2) in H1. clear R1 R2 q1.
  revert H1 H2. generalize (snd q2) at 1 3 as l. generalize (snd q2) as acc.
  intros acc l. revert acc a b. induction l as [|x l IHl]; intros acc a b H1 H2; simpl in H1, H2.
  - congruence.
  -
    destruct (fragment_bases k1 S frs x) as [l1|] eqn:E1; simpl in H1;
      [| rewrite append_fold_err in H1; discriminate].
    destruct (fragment_bases k2 S frs x) as [l2|] eqn:E2; simpl in H2;
      [| rewrite append_fold_err in H2; discriminate].
    rewrite (IH _ _ _ _ E1 E2) in H1. eapply IHl; eauto.
Qed.

(* ---- converse of flattenM_collect_mix: every collected node is an own field's or a mixin's ---- *)
Lemma flattenM_collect_conv S frs rt : forall g f r under sels fns ms l,
  flattenM g S frs rt r under sels = Some (fns, ms) -> collect f S frs rt under sels = Some l ->
  forall x, In x l ->
    (exists fn, In fn fns /\ x = node_of_fnode false fn) \/
    (exists m fm k lm, In m ms /\ lookup_frag frs m = Some fm /\
                       collect k S frs rt false (fr_sel fm) = Some lm /\ In x lm).
Proof.
  induction g as [|g IH]; intros f r under sels fns ms l Hf Hc; [discriminate Hf|].
  destruct f as [|f]; [discriminate Hc|]. simpl in Hf, Hc.
  set (OWN := fun (fns : list fnode) (x : cnode) => exists fn, In fn fns /\ x = node_of_fnode false fn).
  set (MIX := fun (ms : list string) (x : cnode) =>
                exists m fm k lm, In m ms /\ lookup_frag frs m = Some fm /\
                                  collect k S frs rt false (fr_sel fm) = Some lm /\ In x lm).
  assert (OWNmono : forall a b x, incl a b -> OWN a x -> OWN b x).
  { intros a b x Hab [fn [H1 H2]]. exists fn. auto. }
  assert (MIXmono : forall a b x, incl a b -> MIX a x -> MIX b x).
  { intros a b x Hab [m [fm [k [lm [H1 H2]]]]]. exists m, fm, k, lm. auto. }
  assert (G : forall sels l1 m1 l0 fns ms l,
            fold_left (flattenM_step (flattenM g S frs rt) S frs rt r under) sels (Some (l1, m1)) = Some (fns, ms) ->
            fold_left (collect_step (collect f S frs rt) S frs rt under) sels (Some l0) = Some l ->
            incl l1 fns /\ incl m1 ms /\
            (forall x, In x l -> In x l0 \/ OWN fns x \/ MIX ms x)).
  { clear Hf Hc fns ms l sels. induction sels as [|s sels IHs]; intros l1 m1 l0 fns ms l Hf Hc; simpl in Hf, Hc.
    - inversion Hf; inversion Hc; subst. split; [apply incl_refl|]. split; [apply incl_refl | auto].
    - destruct s as [al n c mx sub | n c | tc c sub].
      + simpl in Hf, Hc. destruct (IHs _ _ _ _ _ _ Hf Hc) as [I1 [I2 I3]].
        split; [eapply incl_tran; [apply incl_appl, incl_refl | exact I1]|]. split; [exact I2|].
        intros x Hx. destruct (I3 x Hx) as [H | H]; [| right; exact H].
        apply in_app_or in H. destruct H as [H | [H | []]]; [left; exact H|]. subst x. right. left.
        exists (fnode_of al n (under || c) mx sub).
        split; [apply I1, in_or_app; right; left; reflexivity | reflexivity].
      + simpl in Hf, Hc.
        destruct (lookup_frag frs n) as [fd|] eqn:Elf; [| rewrite flattenM_fold_none in Hf; discriminate].
        destruct (lookup_type S r) as [dr|]; [| rewrite flattenM_fold_none in Hf; discriminate].
        destruct (lookup_type S (fr_on fd)) as [df|]; [| rewrite flattenM_fold_none in Hf; discriminate].
        destruct (negb (under || c) && negb (unpack_fragment S fd (Some r))) eqn:Emx.
        * apply andb_true_iff in Emx as [Eu _]. apply negb_true_iff in Eu. rewrite Eu in Hc.
          destruct (type_applies S rt (fr_on fd)); [| rewrite flattenM_fold_none in Hf; discriminate].
          destruct (collect f S frs rt false (fr_sel fd)) as [q|] eqn:Eq;
            [| rewrite collect_fold_none in Hc; discriminate].
          destruct (IHs _ _ _ _ _ _ Hf Hc) as [I1 [I2 I3]].
          split; [exact I1|]. split; [eapply incl_tran; [apply incl_appl, incl_refl | exact I2]|].
          intros x Hx. destruct (I3 x Hx) as [H | H]; [| right; exact H].
          apply in_app_or in H. destruct H as [H | H]; [left; exact H | right; right].
          exists n, fd, f, q. split; [apply I2, in_or_app; right; left; reflexivity | auto].
        * destruct (String.eqb (fr_on fd) r || (is_abstract df && is_sub_type S (fr_on fd) r)).
          -- destruct (type_applies S rt (fr_on fd)); [| rewrite flattenM_fold_none in Hf; discriminate].
             destruct (flattenM g S frs rt r (under || c) (fr_sel fd)) as [[l' ms']|] eqn:El;
               [| rewrite flattenM_fold_none in Hf; discriminate].
             destruct (collect f S frs rt (under || c) (fr_sel fd)) as [q|] eqn:Eq;
               [| rewrite collect_fold_none in Hc; discriminate].
             destruct (IHs _ _ _ _ _ _ Hf Hc) as [I1 [I2 I3]].
             split; [eapply incl_tran; [apply incl_appl, incl_refl | exact I1]|].
             split; [eapply incl_tran; [apply incl_appl, incl_refl | exact I2]|].
             intros x Hx. destruct (I3 x Hx) as [H | H]; [| right; exact H].
             apply in_app_or in H. destruct H as [H | H]; [left; exact H | right].
             destruct (IH _ _ _ _ _ _ _ El Eq x H) as [Ho | Hm].
             ++ left. eapply OWNmono; [| exact Ho]. eapply incl_tran; [apply incl_appr, incl_refl | exact I1].
             ++ right. eapply MIXmono; [| exact Hm]. eapply incl_tran; [apply incl_appr, incl_refl | exact I2].
          -- destruct (type_applies S rt (fr_on fd)); [rewrite flattenM_fold_none in Hf; discriminate|].
             apply (IHs _ _ _ _ _ _ Hf Hc).
      + simpl in Hf, Hc.
        destruct (inline_root_type S (match tc with Some tc0 => tc0 | None => r end) r) as [r'|].
        * destruct (match tc with None => true | Some t => type_applies S rt t end);
            [| rewrite flattenM_fold_none in Hf; discriminate].
          destruct (flattenM g S frs rt r' (under || c) sub) as [[l' ms']|] eqn:El;
            [| rewrite flattenM_fold_none in Hf; discriminate].
          destruct (collect f S frs rt (under || c) sub) as [q|] eqn:Eq;
            [| rewrite collect_fold_none in Hc; discriminate].
          destruct (IHs _ _ _ _ _ _ Hf Hc) as [I1 [I2 I3]].
          split; [eapply incl_tran; [apply incl_appl, incl_refl | exact I1]|].
          split; [eapply incl_tran; [apply incl_appl, incl_refl | exact I2]|].
          intros x Hx. destruct (I3 x Hx) as [H | H]; [| right; exact H].
          apply in_app_or in H. destruct H as [H | H]; [left; exact H | right].
          destruct (IH _ _ _ _ _ _ _ El Eq x H) as [Ho | Hm].
          -- left. eapply OWNmono; [| exact Ho]. eapply incl_tran; [apply incl_appr, incl_refl | exact I1].
          -- right. eapply MIXmono; [| exact Hm]. eapply incl_tran; [apply incl_appr, incl_refl | exact I2].
        * destruct (match tc with None => true | Some t => type_applies S rt t end);
            [rewrite flattenM_fold_none in Hf; discriminate|].
          apply (IHs _ _ _ _ _ _ Hf Hc). }
  destruct (G _ _ _ _ _ _ _ Hf Hc) as [_ [_ G3]].
  intros x Hx. destruct (G3 x Hx) as [[] | H]. exact H.
Qed.

(* ---- a fragment inherited through another one: its nodes are among the other's nodes ---- *)
Lemma nodes_incl C S frs mx rt cov : forall f g k m lk fk c1 Lk,
  mixin_ok g cov C S frs mx rt k = true ->
  fragment_bases f S frs k = Ok lk -> In m lk ->
  lookup_frag frs k = Some fk -> collect c1 S frs rt false (fr_sel fk) = Some Lk ->
  exists fm c2 Lm, lookup_frag frs m = Some fm /\ collect c2 S frs rt false (fr_sel fm) = Some Lm /\
                   incl Lm Lk.
Proof.
  induction f as [|f IH]; intros g k m lk fk c1 Lk Hok Hfb Hm Hlk Hc; [discriminate Hfb|].
  simpl in Hfb. rewrite Hlk in Hfb. apply bind_ok in Hfb. destruct Hfb as [q [Hres Hfold]].
  unfold mixin_ok in Hok. rewrite Hlk in Hok.
  apply andb_true_iff in Hok as [_ Hok].
  destruct (sels_okM_inv _ _ _ _ _ _ _ _ _ _ _ Hok) as [g' [fns [ms [Eg [Hfl [_ [_ [Hmix _]]]]]]]].
  pose proof (flattenM_resolve_det _ _ _ _ _ _ _ _ _ _ Hfl Hres) as Eq. subst q. simpl in Hfold.
  destruct (flattenM_collect_mix _ _ _ _ _ _ _ _ _ _ _ Hfl Hc) as [_ Hmx].
  destruct (append_fold_In _ _ _ _ Hfold) as [_ [_ H3]].
  destruct (H3 m Hm) as [Hin | [b [lb [Hb [Efb Hmb]]]]].
  - destruct (Hmx m Hin) as [fm [k' [lm [E1 [E2 E3]]]]]. exists fm, k', lm. auto.
  - destruct (Hmx b Hb) as [fb0 [kb [Lb [E1 [E2 E3]]]]].
    rewrite forallb_forall in Hmix. specialize (Hmix b Hb).
    destruct (IH _ _ _ _ _ _ _ Hmix Efb Hmb E1 E2) as [fm [c2 [Lm [F1 [F2 F3]]]]].
    exists fm, c2, Lm. split; [exact F1|]. split; [exact F2|]. eapply incl_tran; eauto.
Qed.

(* ---- mro_fields of a class with bases: nothing is lost up to the Python name ---- *)
Lemma mro_with_bases2 cs cn c J :
  lookup_class cs cn = Some c -> cn <> "BaseModel" ->
  (forall b, In b (c_bases c) -> exists pb, forall j, j >= J -> mro_fields j cs b = Some pb) ->
  exists pfs, (forall j, j >= Datatypes.S J -> mro_fields j cs cn = Some pfs) /\
              (forall pf, In pf pfs -> In pf (c_fields c) \/
                   exists b pb, In b (c_bases c) /\ (forall j, j >= J -> mro_fields j cs b = Some pb) /\ In pf pb) /\
              incl (c_fields c) pfs /\
              (forall b pb pf, In b (c_bases c) -> (forall j, j >= J -> mro_fields j cs b = Some pb) ->
                               In pf pb -> exists pf', In pf' pfs /\ p_name pf' = p_name pf).
Proof.
  intros Hl Hn Hb.
  assert (G : forall bases acc,
            (forall b, In b bases -> exists pb, forall j, j >= J -> mro_fields j cs b = Some pb) ->
            exists res,
              (forall j', j' >= J ->
                 fold_left (fun a b => match a, mro_fields j' cs b with
                                       | Some l, Some bl => Some (mro_merge l bl) | _, _ => None end)
                           bases (Some acc) = Some res) /\
              (forall pf, In pf res -> In pf acc \/
                   exists b pb, In b bases /\ (forall j, j >= J -> mro_fields j cs b = Some pb) /\ In pf pb) /\
              incl acc res /\
              (forall b pb pf, In b bases -> (forall j, j >= J -> mro_fields j cs b = Some pb) ->
                               In pf pb -> exists pf', In pf' res /\ p_name pf' = p_name pf)).
  { induction bases as [|b bases IH]; intros acc H.
    - exists acc. split; [reflexivity|]. split; [auto|]. split; [apply incl_refl|]. intros b pb pf [].
    - destruct (H b (or_introl eq_refl)) as [pb Hpb].
      destruct (IH (mro_merge acc pb) (fun b' Hb' => H b' (or_intror Hb'))) as [res [R1 [R2 [R3 R4]]]].
      exists res. split; [| split; [| split]].
      + intros j' Hj. simpl. rewrite (Hpb j' Hj). apply R1, Hj.
      + intros pf Hpf. destruct (R2 pf Hpf) as [Hin | [b' [pb' [Hb' [Hm Hi]]]]].
        * unfold mro_merge in Hin. apply in_app_or in Hin. destruct Hin as [Hin | Hin]; [left; exact Hin|].
          apply filter_In in Hin. destruct Hin as [Hin _]. right. exists b, pb. split; [left; reflexivity | auto].
        * right. exists b', pb'. split; [right; exact Hb' | auto].
      + eapply incl_tran; [| exact R3]. unfold mro_merge. apply incl_appl, incl_refl.
      + intros b' pb' pf [Eb | Hb'] Hm' Hpf.
        * subst b'. assert (pb' = pb) by (specialize (Hm' J (le_n _)); specialize (Hpb J (le_n _)); congruence).
          subst pb'.
          destruct (existsb (fun g0 => String.eqb (p_name g0) (p_name pf)) acc) eqn:Ex.
          -- apply existsb_exists in Ex. destruct Ex as [g0 [Hg0 Eg0]]. apply String.eqb_eq in Eg0.
             exists g0. split; [apply R3; unfold mro_merge; apply in_or_app; left; exact Hg0 | exact Eg0].
          -- exists pf. split; [| reflexivity]. apply R3. unfold mro_merge. apply in_or_app. right.
             apply filter_In. split; [exact Hpf | rewrite Ex; reflexivity].
        * apply (R4 b' pb' pf Hb' Hm' Hpf). }
  destruct (G (c_bases c) (c_fields c) Hb) as [res [R1 [R2 [R3 R4]]]].
  exists res. split; [| split; [exact R2 | split; [exact R3 | exact R4]]].
  intros j Hj. destruct j as [|j']; [lia|]. cbn [mro_fields]. rewrite (eqb_neq_false _ _ Hn), Hl.
  apply R1. lia.
Qed.

Lemma last_wins_name : forall l pf, In pf l -> exists pf', In pf' (last_wins l) /\ p_name pf' = p_name pf.
Proof.
  induction l as [|g r IH]; intros pf Hin; [contradiction|]. simpl.
  destruct (existsb (fun g0 => String.eqb (p_name g0) (p_name g)) r) eqn:E.
  - destruct Hin as [Eq | Hin]; [| apply IH, Hin]. subst g.
    apply existsb_exists in E. destruct E as [g0 [Hg0 Eg0]]. apply String.eqb_eq in Eg0.
    destruct (IH g0 Hg0) as [pf' [H1 H2]]. exists pf'. split; [exact H1 | congruence].
  - destruct Hin as [Eq | Hin].
    + subst g. exists pf. split; [left; reflexivity | reflexivity].
    + destruct (IH pf Hin) as [pf' [H1 H2]]. exists pf'. split; [right; exact H1 | exact H2].
Qed.

Lemma jlookup_nodup : forall kv k v, NoDup (map fst kv) -> In (k, v) kv -> jlookup k kv = Some v.
Proof.
  induction kv as [|[k1 v1] r IH]; intros k v Hnd Hin; [contradiction|]. simpl in *.
  inversion Hnd; subst. destruct Hin as [E | Hin].
  - inversion E; subst. rewrite String.eqb_refl. reflexivity.
  - rewrite eqb_neq_false; [apply IH; auto|]. intro E. subst. apply H1.
    change k1 with (fst (k1, v)). apply in_map, Hin.
Qed.

Lemma class_bases_In_conv m ms kept eb :
  In m kept -> ms <> [] -> In (pascal_s m) (class_bases ms kept eb).
Proof.
  intros Hm Hne. unfold class_bases. apply in_or_app. left. destruct ms; [congruence|].
  apply in_map, sorted_set_In, Hm.
Qed.

Lemma remove_inherited_det S frs f1 f2 ms a b :
  remove_inherited f1 S frs ms = Ok a -> remove_inherited f2 S frs ms = Ok b -> a = b.
Proof.
  unfold remove_inherited. intros H1 H2.
  apply bind_ok in H1. destruct H1 as [i1 [F1 H1]]. apply bind_ok in H2. destruct H2 as [i2 [F2 H2]].
  assert (i1 = i2).
  { clear H1 H2. revert F1 F2. generalize (@nil string) as acc. revert i1 i2.
    induction ms as [|m ms IH]; intros i1 i2 acc F1 F2; simpl in F1, F2; [congruence|].
    destruct (fragment_bases f1 S frs m) as [l1|] eqn:E1; simpl in F1;
      [| rewrite append_fold_err in F1; discriminate].
    destruct (fragment_bases f2 S frs m) as [l2|] eqn:E2; simpl in F2;
      [| rewrite append_fold_err in F2; discriminate].
    rewrite (fragment_bases_fuel_det _ _ _ _ _ _ _ E1 E2) in F1. eapply IH; eauto. }
  subst. congruence.
Qed.

(* ------------------------------------------------------------------------------------------- *)
Section MixC.
  Variables (C : cfg) (S : schema) (frs : list fragdef) (F : nat) (cls : list pclass).
  Variable mx : list string.
  Hypothesis G0 : mx_ok cls mx = true.
  Hypothesis G1 : NoDup (map c_name cls).
  Hypothesis G3 : no_basemodel cls = true.
  Hypothesis G2 : forall fm, In fm frs -> unpack_fragment S fm None = false ->
    exists out pub', parse_type_def F C S frs [] (pascal_s (fr_name fm)) (fr_on fm) (fr_sel fm) false
                                     (fr_mixins fm) None = Ok (out, pub', false) /\ incl out cls.
  Hypothesis F1 : F >= 1.

  (* the class cn with everything it inherits: its fields carry the mangled name of their key, their
     keys are keys of the object, they cover the values found under their keys, and every node of l has
     a field *)
  Definition class_goodC (g : nat) (cn : string) (kv : list (string * json)) (N l : list cnode) : Prop :=
    exists pfs, (forall j, j >= g + 2 -> mro_fields j cls cn = Some pfs) /\
      (forall pf, In pf pfs ->
          p_name pf = py_field_name C (field_key_of pf) /\ In (field_key_of pf) (map n_key N) /\
          (forall n' v, n' >= F + g + 1 -> jlookup (field_key_of pf) kv = Some v ->
                        covers n' cls (p_ann pf) v = true)) /\
      (forall x, In x l -> In (n_key x) (map field_key_of pfs)).

  Definition ambC (N : list cnode) (rt : string) (kv : list (string * json)) (fc : nat) : Prop :=
    amb C S frs N rt kv fc /\ NoDup (map (py_field_name C) (map n_key N)) /\
    (forall p, In p kv -> jwf (snd p) = true).

  Lemma py_inj N k1 k2 :
    NoDup (map (py_field_name C) (map n_key N)) -> In k1 (map n_key N) -> In k2 (map n_key N) ->
    py_field_name C k1 = py_field_name C k2 -> k1 = k2.
  Proof. intros Hnd H1 H2 E. eapply (NoDup_map_inj_in (py_field_name C)); eauto. Qed.

  Lemma class_goodC_covers g cn kv N l n' :
    class_goodC g cn kv N l -> (forall p, In p kv -> In (fst p) (map n_key l)) ->
    NoDup (map fst kv) -> NoDup (map (py_field_name C) (map n_key N)) -> n' >= F + g + 1 ->
    class_covers (covers n' cls) (mro_fields n' cls cn) (JObj kv) = true.
  Proof.
    intros [pfs [Hm [HA HB]]] Hkv Hnd HndN Hn. rewrite (Hm n') by lia. unfold class_covers.
    apply forallb_forall. intros [k v] Hp. cbn [fst snd].
    specialize (Hkv _ Hp). cbn [fst] in Hkv. apply in_map_iff in Hkv. destruct Hkv as [x [Ex Hx]].
    specialize (HB x Hx). rewrite Ex in HB. apply in_map_iff in HB. destruct HB as [pf [Ek Hpf]].
    destruct (last_wins_name _ _ Hpf) as [pf' [Hpf' En]].
    assert (Ek' : field_key_of pf' = k).
    { destruct (HA pf Hpf) as [A1 [A2 _]]. destruct (HA pf' (last_wins_In _ _ Hpf')) as [B1 [B2 _]].
      rewrite <- Ek. eapply py_inj; eauto. congruence. }
    destruct (find (fun f => String.eqb (field_key_of f) k) (last_wins pfs)) as [f0|] eqn:Ef.
    - apply find_some in Ef. destruct Ef as [Hf0 E0]. apply String.eqb_eq in E0.
      destruct (HA f0 (last_wins_In _ _ Hf0)) as [_ [_ A3]]. apply (A3 n' v Hn).
      rewrite E0. apply jlookup_nodup; auto.
    - pose proof (find_none _ _ Ef pf' Hpf') as Hno. cbv beta in Hno. rewrite Ek', String.eqb_refl in Hno.
      discriminate Hno.
  Qed.

  Theorem mixC_main : forall g fuel pub cn rt r sels at_ eb tv top out pub' k l N kv fc,
    fuel <= F -> parse_type_def fuel C S frs pub cn r sels at_ eb tv = Ok (out, pub', false) ->
    sels_okM g true C S frs mx top at_ rt r sels = true -> tv_ok rt tv ->
    (at_ = true -> has_typename sels = true) -> table_ok cls out -> harmless cls eb ->
    collect k S frs rt false sels = Some l -> incl l N -> ambC N rt kv fc ->
    class_goodC g cn kv N l.
  Proof.
    induction g as [|g IH];
      intros fuel pub cn rt r sels at_ eb tv top out pub' k l N kv fc HF Hp Hok Htv Hat Htab Heb Hcol HlN Hamb;
      [discriminate Hok|].
    destruct (sels_okM_inv _ _ _ _ _ _ _ _ _ _ _ Hok) as [g' [fns [ms [Eg [Hfl [_ [Hfields [Hmix Hreach]]]]]]]].
    inversion Eg; subst g'. clear Eg.
    destruct fuel as [|fuel']; [discriminate Hp|].
    destruct (level_invM _ _ _ _ _ _ _ _ _ _ _ _ _ _ _ _ _ Hp Hfl Hat)
      as [f2 [pfl [extra [kept [Ef [Hrun [Hkept [Hrem Hout]]]]]]]].
    destruct Hamb as [[HkN [HkvN HspecN]] [HpyN Hjwf]].
    destruct (flattenM_collect_mix _ _ _ _ _ _ _ _ _ _ _ Hfl Hcol) as [Hown Hmixn].
    assert (Hc0 : In {| c_name := cn; c_bases := class_bases ms kept eb; c_fields := pfl |} out)
      by (rewrite Hout; left; reflexivity).
    destruct (Htab _ Hc0) as [Hl Hnb]. simpl in Hl, Hnb.
    (* every resolved mixin's class, with the nodes its fragment contributes *)
    assert (HB : forall m, In m ms -> exists fm km lm,
                 lookup_frag frs m = Some fm /\ collect km S frs rt false (fr_sel fm) = Some lm /\
                 incl lm l /\ class_goodC g (pascal_s m) kv N lm).
    { intros m Hm. rewrite forallb_forall in Hmix. specialize (Hmix m Hm). unfold mixin_ok in Hmix.
      destruct (lookup_frag frs m) as [fm|] eqn:Elf; [| discriminate Hmix].
      apply andb_true_iff in Hmix as [Hmix Hokm]. apply andb_true_iff in Hmix as [Hnm Hun].
      apply negb_true_iff in Hun.
      pose proof (mx_ok_harmless _ _ _ G0 Hnm) as Hhm.
      unfold lookup_frag in Elf. pose proof (find_some _ _ Elf) as [Hfin Hfn].
      apply String.eqb_eq in Hfn.
      destruct (G2 fm Hfin Hun) as [outm [pubm [Hrunm Hinm]]]. rewrite Hfn in Hrunm.
      destruct (Hmixn m Hm) as [fm' [k' [lm [Elf' [Hcm Hilm]]]]].
      unfold lookup_frag in Elf'. rewrite Elf in Elf'. inversion Elf'; subst fm'.
      exists fm, k', lm. split; [reflexivity|]. split; [exact Hcm|]. split; [exact Hilm|].
      eapply (IH F [] (pascal_s m) rt (fr_on fm) (fr_sel fm) false (fr_mixins fm) None false outm pubm k' lm N kv fc);
        eauto.
      - left; reflexivity.
      - discriminate.
      - apply (table_of_incl cls G1 G3), Hinm.
      - eapply incl_tran; eauto.
      - repeat split; auto. }
    destruct (mro_with_bases2 cls cn _ (g + 2) Hl Hnb) as [pfs [Hmro [Hdec [Hownp Hname]]]].
    { intros b Hb. destruct (class_bases_In _ _ _ _ Hb) as [E | [[m [Hm E]] | Hbe]]; [subst b | subst b |].
      - exists []. intros j Hj. apply mro_basemodel. lia.
      - destruct (HB m (Hkept m Hm)) as [fm [km [lm [_ [_ [_ [pb [Hpb _]]]]]]]]. exists pb. exact Hpb.
      - exists []. intros j Hj. destruct j as [|j']; [lia|]. apply mro_empty, Heb, Hbe. }
    (* the own fields *)
    pose proof (fields_run_pf _ _ _ _ _ _ _ _ _ _ _ _ _ _ _ Hrun) as FP.
    assert (HownA : forall pf, In pf pfl ->
               p_name pf = py_field_name C (field_key_of pf) /\ In (field_key_of pf) (map n_key N) /\
               (forall n' v, n' >= F + Datatypes.S g + 1 -> jlookup (field_key_of pf) kv = Some v ->
                             covers n' cls (p_ann pf) v = true)).
    { intros pf Hpf. destruct (Forall2_In_r _ _ _ _ FP Hpf) as [f [Hf [ctx Hfp]]].
      destruct (field_pf_inv _ _ _ _ _ _ _ _ _ _ _ Hfp) as [t [a0 [il [_ [_ Epf]]]]].
      assert (Ek : field_key_of pf = field_key f) by (subst pf; apply mk_pfield_key).
      split; [rewrite Ek; subst pf; reflexivity|]. split.
      { rewrite Ek. change (field_key f) with (n_key (node_of_fnode false f)). apply in_map, HlN, Hown, Hf. }
      intros n' v Hn' Hv. destruct n' as [|n1]; [lia|].
      assert (HFF : Forall2 (field_facts C (covers (Datatypes.S n1) cls) kv) fns pfl).
      { eapply (level_facts C S frs fuel' g true cls (covers (Datatypes.S n1) cls) (fun j => jwf j = true)
                            class_covers (covers n1 cls) (mro_fields n1 cls)
                            (sels_okM g true C S frs mx true) mx (harmless cls)
                            (fun eb0 => mx_ok_harmless cls mx eb0 G0) (sels_okM_ok_inv g true C S frs mx))
          with (K := map n_key N) (k := fc);
          try eassumption; try reflexivity; auto.
        - intros ll Hl' x Hx. simpl in Hl'. rewrite forallb_forall in Hl'. apply Hl', Hx.
        - intros m j _ _. apply scalar_ann_cov.
        - intros c eb0 Hlc Hnc Hbc Hh. destruct n1 as [|[|n3]]; try lia. eapply mro_harmless; eauto.
        - eauto.
        - (* nested classes *)
          intros pb cn2 rt2 r2 sels2 at2 eb2 tvs out2 pub2 fc2 kv2 P0 P1 P2 P3 P4 P5 P6 P7.
          destruct (sels_okM_inv _ _ _ _ _ _ _ _ _ _ _ P2) as [g'' [fns2 [ms2 [_ [_ [Htop2 _]]]]]].
          destruct (Htop2 eq_refl) as [l2' [Hc2' [Hk2 Hpy2]]].
          unfold obj_conf, conf_obj_with in P6. rewrite collect_scopes_single in P6.
          destruct (collect fc2 S frs rt2 false sels2) as [l2|] eqn:Ec2; [| discriminate P6].
          pose proof (collect_fuel_det _ _ _ _ _ _ _ _ _ Ec2 Hc2') as El2. subst l2'.
          rewrite conf_obj_nodes in P6 by (eapply keys_ok_nodup; eauto).
          simpl in P6. apply andb_true_iff in P6 as [Q1 Q2]. rewrite forallb_forall in Q1, Q2.
          simpl in P7. apply andb_true_iff in P7 as [Hnd2 Hmem2]. rewrite forallb_forall in Hmem2.
          eapply (class_goodC_covers g cn2 kv2 l2 l2).
          + eapply (IH fuel' pb cn2 rt2 r2 sels2 at2 eb2 (Some tvs) true out2 pub2 fc2 l2 l2 kv2 fc2); eauto.
            * lia.
            * right. eauto.
            * apply incl_refl.
            * split; [split; [exact Hk2|]; split; [intros p Hp'; apply mem_In, Q1, Hp' | exact Q2]|].
              split; [apply Hpy2; reflexivity | exact Hmem2].
          + intros p Hp'. apply mem_In, Q1, Hp'.
          + apply nodupb_NoDup, Hnd2.
          + apply Hpy2; reflexivity.
          + lia.
        - intros f0 Hf0. unfold keys_ok in HkN. apply andb_true_iff in HkN as [_ HkN'].
          rewrite forallb_forall in HkN'. apply (HkN' (field_key f0)).
          change (field_key f0) with (n_key (node_of_fnode false f0)). apply in_map, HlN, Hown, Hf0.
        - eapply table_ok_incl; [exact Htab|]. rewrite Hout. apply incl_tl, incl_refl.
        - apply forallb_forall. intros f0 Hf0. rewrite key_spec_node. apply HspecN, HlN, Hown, Hf0. }
      destruct (Forall2_In_r _ _ _ _ HFF Hpf) as [f' [_ [Ek' [_ [_ Hval]]]]].
      apply Hval. rewrite <- Ek'. exact Hv. }
    (* facts for every field of the class and its bases *)
    assert (HA : forall pf, In pf pfs ->
               p_name pf = py_field_name C (field_key_of pf) /\ In (field_key_of pf) (map n_key N) /\
               (forall n' v, n' >= F + Datatypes.S g + 1 -> jlookup (field_key_of pf) kv = Some v ->
                             covers n' cls (p_ann pf) v = true)).
    { intros pf Hpf. destruct (Hdec pf Hpf) as [Hin | [b [pb [Hb [Hmb Hinb]]]]].
      - apply HownA. exact Hin.
      - destruct (class_bases_In _ _ _ _ Hb) as [E | [[m [Hm E]] | Hbe]]; [subst b | subst b |].
        + pose proof (Hmb (g + 2) (le_n _)) as E1. rewrite mro_basemodel in E1 by lia. inversion E1; subst pb.
          contradiction.
        + destruct (HB m (Hkept m Hm)) as [fm [km [lm [_ [_ [_ [pb' [Hpb' [HA' _]]]]]]]]].
          assert (pb = pb') by (specialize (Hmb (g + 2) (le_n _)); specialize (Hpb' (g + 2) (le_n _)); congruence).
          subst pb'. destruct (HA' pf Hinb) as [A1 [A2 A3]]. split; [exact A1|]. split; [exact A2|].
          intros n' v Hn' Hv. apply A3; [lia | exact Hv].
        + pose proof (Hmb (g + 2) (le_n _)) as E1. replace (g + 2) with (Datatypes.S (g + 1)) in E1 by lia.
          rewrite (mro_empty cls b (g + 1) (Heb b Hbe)) in E1. inversion E1; subst pb. contradiction. }
    exists pfs. split; [intros j Hj; apply Hmro; lia|]. split; [exact HA|].
    (* every node has a field *)
    assert (HK : forall m, In m kept -> forall fm km lm, lookup_frag frs m = Some fm ->
                   collect km S frs rt false (fr_sel fm) = Some lm ->
                   forall x, In x lm -> In (n_key x) (map field_key_of pfs)).
    { intros m Hm fm km lm Elf Hcm x Hx.
      destruct (HB m (Hkept m Hm)) as [fm' [km' [lm' [Elf' [Hcm' [_ [pb [Hpb [HAb HBb]]]]]]]]].
      rewrite Elf in Elf'. inversion Elf'; subst fm'.
      pose proof (collect_fuel_det _ _ _ _ _ _ _ _ _ Hcm Hcm') as El. subst lm'.
      specialize (HBb x Hx). apply in_map_iff in HBb. destruct HBb as [pfm [Ekm Hpfm]].
      assert (Hne : ms <> []) by (intro E; rewrite E in Hkept; apply (Hkept m Hm)).
      destruct (Hname (pascal_s m) pb pfm (class_bases_In_conv _ _ _ _ Hm Hne) Hpb Hpfm) as [pf' [Hpf' En]].
      apply in_map_iff. exists pf'. split; [| exact Hpf'].
      destruct (HA pf' Hpf') as [A1 [A2 _]]. destruct (HAb pfm Hpfm) as [B1 [B2 _]].
      rewrite <- Ekm. eapply py_inj; eauto. congruence. }
    intros x Hx. destruct (flattenM_collect_conv _ _ _ _ _ _ _ _ _ _ _ Hfl Hcol x Hx)
      as [[fn [Hfn Ex]] | [m [fm [km [lm [Hm [Elf [Hcm Hxm]]]]]]]].
    - destruct (Forall2_In_l _ _ _ _ FP Hfn) as [pf [Hpf [ctx Hfp]]].
      destruct (field_pf_inv _ _ _ _ _ _ _ _ _ _ _ Hfp) as [t [a0 [il [_ [_ Epf]]]]].
      apply in_map_iff. exists pf. split; [| apply Hownp; exact Hpf].
      subst pf x. rewrite mk_pfield_key. reflexivity.
    - (* reachability of the mixin *)
      unfold reach_ok in Hreach.
      destruct (remove_inherited g S frs ms) as [keptg|] eqn:Erg; [| discriminate Hreach].
      assert (keptg = kept) by (eapply remove_inherited_det; eauto). subst keptg.
      rewrite forallb_forall in Hreach. specialize (Hreach m Hm).
      apply orb_true_iff in Hreach as [Hr | Hr].
      + apply mem_In in Hr. eapply HK; eauto.
      + apply existsb_exists in Hr. destruct Hr as [k0 [Hk0 Hfb]].
        destruct (fragment_bases g S frs k0) as [lk|] eqn:Efb; [| discriminate Hfb]. apply mem_In in Hfb.
        destruct (HB k0 (Hkept k0 Hk0)) as [fk [kk [Lk [Elk [Hck [_ _]]]]]].
        assert (Hmk : mixin_ok g true C S frs mx rt k0 = true)
          by (rewrite forallb_forall in Hmix; apply Hmix, Hkept, Hk0).
        destruct (nodes_incl C S frs mx rt true _ _ _ _ _ _ _ _ Hmk Efb Hfb Elk Hck) as [fm2 [c2 [Lm [E1 [E2 E3]]]]].
        rewrite Elf in E1. inversion E1; subst fm2.
        pose proof (collect_fuel_det _ _ _ _ _ _ _ _ _ Hcm E2) as El. subst Lm.
        eapply (HK k0 Hk0 fk kk Lk); eauto.
  Qed.
End MixC.

(* ------------------------------------------------------------------------------------------- *)
(* Operation level                                                                              *)
Theorem op_covers_mix C S frs F kind name mixins sels root own pub' cls g mx fc j n :
  root_type_name S kind = Ok root ->
  op_parse F C S frs kind name mixins sels = Ok (own, pub', false) ->
  all_classes F C S frs (DOp kind name mixins sels) = Ok cls ->
  op_okM g true C S frs mx mixins root sels = true -> mx_ok cls mx = true ->
  nodupb (map c_name cls) = true -> no_basemodel cls = true -> frag_no_skip F C S frs = true ->
  conf_op fc S frs root sels j = true -> jwf j = true ->
  n >= F + g + 2 ->
  covers n cls (AClass (pascal_s name)) j = true.
Proof.
  intros Hroot Hop Hall Hok Hmx Hnd Hnb Hfs Hconf Hwf Hn.
  apply nodupb_NoDup in Hnd.
  unfold op_okM in Hok. apply andb_true_iff in Hok as [Hobj Hsels]. apply andb_true_iff in Hobj as [Hobj Hmix].
  destruct (conf_op_obj _ _ _ _ _ _ Hobj Hconf) as [kv [k [Ej Hc]]]. subst j.
  destruct (all_classes_prefix _ _ _ _ _ _ Hall) as [own' [rest [Hr Ecls]]].
  simpl in Hr. rewrite Hop in Hr. simpl in Hr. inversion Hr; subst own'. clear Hr.
  assert (Hown : incl own cls) by (rewrite Ecls; apply incl_appl, incl_refl).
  unfold op_parse in Hop. rewrite Hroot in Hop. simpl in Hop.
  assert (HF1 : F >= 1) by (destruct F; [discriminate Hop | lia]).
  pose proof (frag_runs _ _ _ _ _ _ Hall Hfs) as G2.
  destruct (sels_okM_inv _ _ _ _ _ _ _ _ _ _ _ Hsels) as [g' [fns [ms [_ [_ [Htop _]]]]]].
  destruct (Htop eq_refl) as [l' [Hc' [Hk Hpy]]].
  unfold obj_conf, conf_obj_with in Hc. rewrite collect_scopes_single in Hc.
  destruct (collect k S frs root false sels) as [l|] eqn:Ec; [| discriminate Hc].
  pose proof (collect_fuel_det _ _ _ _ _ _ _ _ _ Ec Hc') as El. subst l'.
  rewrite conf_obj_nodes in Hc by (eapply keys_ok_nodup; eauto).
  simpl in Hc. apply andb_true_iff in Hc as [Q1 Q2]. rewrite forallb_forall in Q1, Q2.
  simpl in Hwf. apply andb_true_iff in Hwf as [Hndk Hmem]. rewrite forallb_forall in Hmem.
  destruct n as [|n']; [lia|].
  change (class_covers (covers n' cls) (mro_fields n' cls (pascal_s name)) (JObj kv) = true).
  eapply (class_goodC_covers C F cls HF1 g (pascal_s name) kv l l).
  - eapply (mixC_main C S frs F cls mx Hmx Hnd Hnb G2 HF1 g F [] (pascal_s name) root root sels false mixins None true
                      own pub' k l l kv k); eauto.
    + left; reflexivity.
    + discriminate.
    + apply (table_of_incl cls Hnd Hnb), Hown.
    + eapply mx_ok_harmless; eauto.
    + apply incl_refl.
    + split; [split; [exact Hk|]; split; [intros p Hp; apply mem_In, Q1, Hp | exact Q2]|].
      split; [apply Hpy; reflexivity | exact Hmem].
  - intros p Hp. apply mem_In, Q1, Hp.
  - apply nodupb_NoDup, Hndk.
  - apply Hpy; reflexivity.
  - lia.
Qed.
