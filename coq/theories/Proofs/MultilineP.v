(* Proofs about Model/Multiline.v (C02): the embedding round trip over the safe alphabet. *)
From Coq Require Import List String Ascii Bool Arith Lia.
From AC Require Import Base.Strs Base.Sexp Model.Multiline.
Import ListNotations.
Local Open Scope char_scope.
Local Open Scope nat_scope.
Local Open Scope list_scope.

(* ---------------------------------------------------------------- the safe alphabet *)
(* printable, not the single quote, not the backslash (bytes >= 0x80 included) *)
Definition safe_char (c : ascii) : bool :=
  (32 <=? code c) && negb (code c =? 127) && negb (ceq c SQ) && negb (ceq c BS).

Fixpoint has_dq3 (l : chars) : bool :=
  match l with
  | [] => false
  | c :: r => is_prefix DQ3 l || has_dq3 r
  end.

Definition safe_line (l : chars) : bool := forallb safe_char l && negb (has_dq3 l).

Lemma ceq_eq a b : ceq a b = true <-> a = b.
Proof. apply Ascii.eqb_eq. Qed.
Lemma ceq_refl a : ceq a a = true.
Proof. apply Ascii.eqb_refl. Qed.
Lemma ceq_neq a b : ceq a b = false <-> a <> b.
Proof. apply Ascii.eqb_neq. Qed.

Lemma safe_char_facts c : safe_char c = true ->
  32 <= code c /\ code c <> 127 /\ c <> SQ /\ c <> BS /\ c <> NL.
Proof.
  unfold safe_char. intro H. repeat (apply andb_true_iff in H as [H ?]).
  apply Nat.leb_le in H. apply negb_true_iff in H0, H1, H2.
  apply Nat.eqb_neq in H2. apply ceq_neq in H0, H1. repeat split; auto.
  intro E. subst c. vm_compute in H. lia.
Qed.

Lemma has_false c l : has c l = false <-> (forall x, In x l -> x <> c).
Proof.
  unfold has. induction l as [|y l IH]; simpl; split; intro H.
  - intros x [].
  - reflexivity.
  - apply orb_false_iff in H as [H1 H2]. intros x [<-|Hx].
    + intro E. subst. rewrite ceq_refl in H1. discriminate.
    + apply IH; assumption.
  - apply orb_false_iff. split.
    + apply ceq_neq. intro E. apply (H y (or_introl eq_refl)). symmetry. exact E.
    + apply IH. intros x Hx. apply H. right. exact Hx.
Qed.

Lemma has_app c a b : has c (a ++ b) = has c a || has c b.
Proof. unfold has. apply existsb_app. Qed.

Lemma has_cons_false c x l : has c (x :: l) = false -> ceq x c = false /\ has c l = false.
Proof.
  unfold has. cbn [existsb]. intro H. apply orb_false_iff in H as [H1 H2]. split; [|exact H2].
  unfold ceq in *. rewrite Ascii.eqb_sym. exact H1.
Qed.

Lemma safe_no c l : forallb safe_char l = true -> (c = SQ \/ c = BS \/ c = NL) -> has c l = false.
Proof.
  intros Hs Hc. apply has_false. intros x Hx. rewrite forallb_forall in Hs.
  destruct (safe_char_facts x (Hs x Hx)) as (_ & _ & H1 & H2 & H3). intuition congruence.
Qed.

(* ---------------------------------------------------------------- repr of a safe line *)
Lemma repr_char_safe c : safe_char c = true -> repr_char SQ c = [c].
Proof.
  intro H. destruct (safe_char_facts c H) as (H32 & H127 & Hq & Hb & _).
  unfold repr_char. apply ceq_neq in Hq, Hb. rewrite Hq, Hb. simpl.
  destruct (code c =? 9) eqn:E1; [apply Nat.eqb_eq in E1; lia|].
  destruct (code c =? 10) eqn:E2; [apply Nat.eqb_eq in E2; lia|].
  destruct (code c =? 13) eqn:E3; [apply Nat.eqb_eq in E3; lia|].
  destruct (code c <? 32) eqn:E4; [apply Nat.ltb_lt in E4; lia|].
  destruct (code c =? 127) eqn:E5; [apply Nat.eqb_eq in E5; lia|]. reflexivity.
Qed.

Lemma flat_map_repr_safe l : forallb safe_char l = true -> flat_map (repr_char SQ) l = l.
Proof.
  induction l as [|c l IH]; simpl; [reflexivity|]. intro H. apply andb_true_iff in H as [H1 H2].
  rewrite repr_char_safe by exact H1. rewrite IH by exact H2. reflexivity.
Qed.

(* the constant of a safe line *)
Definition Q (l : chars) : chars := SQ :: l ++ [BS; "n"; SQ].

Lemma piece_safe l : forallb safe_char l = true -> piece l = Q l.
Proof.
  intro H. unfold piece, py_repr, repr_quote.
  assert (E : has SQ (l ++ [NL]) = false).
  { rewrite has_app, (safe_no SQ l H) by auto. reflexivity. }
  rewrite E. simpl. unfold Q. f_equal. rewrite flat_map_app, flat_map_repr_safe by exact H.
  rewrite <- app_assoc. reflexivity.
Qed.

Lemma pieces_safe lines : Forall (fun l => forallb safe_char l = true) lines ->
  pieces lines = flat_map Q lines.
Proof.
  unfold pieces. induction 1; cbn [flat_map]; [reflexivity|]. rewrite piece_safe, IHForall by assumption. reflexivity.
Qed.

(* ---------------------------------------------------------------- the regex on the statement *)
Lemma upto_app c a r : has c a = false -> upto c (a ++ c :: r) = Some (a ++ [c], r).
Proof.
  induction a as [|x a IH]; simpl; intro H.
  - rewrite ceq_refl. reflexivity.
  - apply has_cons_false in H as [H1 H2]. rewrite H1, IH by exact H2. reflexivity.
Qed.

Lemma upto_none c l : has c l = false -> upto c l = None.
Proof.
  induction l as [|x l IH]; simpl; intro H; [reflexivity|].
  apply has_cons_false in H as [H1 H2]. rewrite H1, IH by exact H2. reflexivity.
Qed.

Lemma SQ_not_ws : is_ws SQ = false. Proof. reflexivity. Qed.

Lemma next_group_Q l rest : has SQ l = false -> next_group (Q l ++ rest) = Some (Q l, rest).
Proof.
  intro H. unfold next_group, Q. simpl.
  replace ((l ++ [BS; "n"; SQ]) ++ rest) with ((l ++ [BS; "n"]) ++ SQ :: rest)
    by (rewrite <- !app_assoc; reflexivity).
  rewrite upto_app.
  - rewrite <- !app_assoc. reflexivity.
  - rewrite has_app, H. reflexivity.
Qed.

Lemma next_group_none l : has SQ l = false -> next_group l = None.
Proof.
  intro H. unfold next_group.
  destruct (drop_while is_ws l) as [|c r] eqn:E; [reflexivity|].
  assert (Hin : In c l).
  { clear H. revert E. induction l as [|x l IH]; simpl; [discriminate|].
    destruct (is_ws x); intro E; [right; apply IH; exact E | inversion E; left; reflexivity]. }
  destruct (ceq c SQ) eqn:Ec; [|reflexivity].
  apply ceq_eq in Ec. subst. exfalso. exact (proj1 (has_false SQ l) H SQ Hin eq_refl).
Qed.

Lemma find_j_skip x g r rest : has SQ x = false -> next_group r = Some (g, rest) ->
  find_j (x ++ SQ :: r) = Some (x ++ SQ :: g, rest).
Proof.
  intros Hx Hg. induction x as [|c x IH]; simpl.
  - rewrite Hg. reflexivity.
  - apply has_cons_false in Hx as [H1 H2]. rewrite H1, IH by exact H2. reflexivity.
Qed.

Lemma Q_length l : 1 <= List.length (Q l).
Proof. unfold Q. simpl. lia. Qed.

Lemma chain_S f l : chain (S f) l = match next_group l with
                                     | Some (g, rest) => let '(a, b) := chain f rest in (g ++ a, b)
                                     | None => ([], l)
                                     end.
Proof. reflexivity. Qed.

Lemma chain_Q lines suf : Forall (fun l => has SQ l = false) lines -> has SQ suf = false ->
  forall fuel, List.length lines <= fuel -> chain fuel (flat_map Q lines ++ suf) = (flat_map Q lines, suf).
Proof.
  intros Hl Hs. induction Hl as [|l ls H1 H2 IH]; intros fuel Hf; cbn [flat_map].
  - destruct fuel; [reflexivity|]. rewrite chain_S. simpl app. rewrite next_group_none by exact Hs. reflexivity.
  - destruct fuel as [|fuel]; [simpl in Hf; lia|]. rewrite chain_S.
    rewrite <- app_assoc. rewrite next_group_Q by exact H1.
    rewrite IH by (simpl in Hf; lia). reflexivity.
Qed.

Lemma flat_map_Q_length lines : List.length lines <= List.length (flat_map Q lines).
Proof.
  induction lines as [|l ls IH]; simpl; [lia|]. rewrite app_length. pose proof (Q_length l). simpl in *. lia.
Qed.

(* the statement: pre = a = b, no quote in it *)
Record good_prefix (a b : chars) : Prop :=
  { gp_eq : has EQc a = false; gp_qa : has SQ a = false; gp_qb : has SQ b = false }.

Lemma find_match_gen a b x1 g2 R gs r3 :
  has EQc a = false -> has SQ b = false -> has SQ x1 = false ->
  next_group (g2 ++ R) = Some (g2, R) -> chain (List.length R) R = (gs, r3) ->
  find_match (a ++ EQc :: b ++ SQ :: x1 ++ SQ :: g2 ++ R)
  = Some ((a ++ [EQc]) ++ (b ++ [SQ]) ++ (x1 ++ SQ :: g2) ++ gs ++ take_while is_ws r3,
          drop_while is_ws r3).
Proof.
  intros He Hb Hx Hg Hc. unfold find_match.
  rewrite upto_app by exact He. rewrite upto_app by exact Hb.
  rewrite (find_j_skip x1 g2 (g2 ++ R) R Hx Hg). rewrite Hc. reflexivity.
Qed.

Lemma stmt_shape a b l1 l2 ls suf :
  (a ++ EQc :: b) ++ flat_map Q (l1 :: l2 :: ls) ++ suf
  = a ++ EQc :: b ++ SQ :: (l1 ++ [BS; "n"]) ++ SQ :: Q l2 ++ (flat_map Q ls ++ suf).
Proof. cbn [flat_map]. unfold Q at 1. repeat (rewrite <- app_assoc; cbn [app]). reflexivity. Qed.

Lemma find_match_stmt a b l1 l2 ls suf :
  good_prefix a b -> Forall (fun l => has SQ l = false) (l1 :: l2 :: ls) -> has SQ suf = false ->
  find_match ((a ++ EQc :: b) ++ flat_map Q (l1 :: l2 :: ls) ++ suf)
  = Some ((a ++ EQc :: b) ++ flat_map Q (l1 :: l2 :: ls) ++ take_while is_ws suf, drop_while is_ws suf).
Proof.
  intros [He Hqa Hqb] Hl Hs. inversion Hl as [|? ? H1 Hl']; subst. inversion Hl' as [|? ? H2 Hl'']; subst.
  rewrite stmt_shape.
  rewrite (find_match_gen a b (l1 ++ [BS; "n"]) (Q l2) (flat_map Q ls ++ suf) (flat_map Q ls) suf).
  - f_equal. f_equal. cbn [flat_map]. unfold Q at 3. repeat (rewrite <- app_assoc; cbn [app]). reflexivity.
  - exact He.
  - exact Hqb.
  - rewrite has_app, H1. reflexivity.
  - apply next_group_Q. exact H2.
  - apply chain_Q; [exact Hl'' | exact Hs |]. rewrite app_length. pose proof (flat_map_Q_length ls). lia.
Qed.

Lemma upto_rest_incl c : forall l a r, upto c l = Some (a, r) -> incl r l.
Proof.
  induction l as [|y l IH]; simpl; intros a r E; [discriminate|].
  destruct (ceq y c).
  - inversion E; subst. intros x Hx. right. exact Hx.
  - destruct (upto c l) as [[a' b']|] eqn:E'; [|discriminate]. inversion E; subst.
    intros x Hx. right. eapply IH; [reflexivity | exact Hx].
Qed.

Lemma find_match_none l : has SQ l = false -> find_match l = None.
Proof.
  intro H. unfold find_match. destruct (upto EQc l) as [[a r0]|] eqn:E; [|reflexivity].
  assert (Hr : has SQ r0 = false).
  { apply has_false. intros x Hx. apply (proj1 (has_false SQ l) H).
    eapply upto_rest_incl; eassumption. }
  rewrite upto_none by exact Hr. reflexivity.
Qed.

(* ---------------------------------------------------------------- the quoted span *)
Lemma split_last_quote_none l : has SQ l = false -> split_last_quote l = None.
Proof.
  induction l as [|c l IH]; intro H; [reflexivity|].
  apply has_cons_false in H as [H1 H2]. cbn [split_last_quote]. rewrite IH by exact H2. rewrite H1. reflexivity.
Qed.

Lemma split_last_quote_app x w : has SQ w = false ->
  split_last_quote (x ++ SQ :: w) = Some (x ++ [SQ], w).
Proof.
  intro Hw. induction x as [|c x IH]; cbn [app split_last_quote].
  - rewrite split_last_quote_none by exact Hw. rewrite ceq_refl. reflexivity.
  - rewrite IH. reflexivity.
Qed.

(* the pieces of a non-empty list of lines start and end with a quote *)
Lemma flat_map_Q_ends lines : lines <> [] -> exists x, flat_map Q lines = SQ :: x ++ [SQ].
Proof.
  induction lines as [|l ls IH]; intro H; [congruence|].
  destruct ls as [|l' ls'].
  - exists (l ++ [BS; "n"]). simpl. rewrite app_nil_r. unfold Q. rewrite <- app_assoc. reflexivity.
  - destruct IH as [x Hx]; [discriminate|]. cbn [flat_map] in *. rewrite Hx.
    exists (l ++ [BS; "n"; SQ] ++ SQ :: x). unfold Q. cbn [app]. f_equal.
    repeat (rewrite <- app_assoc; cbn [app]). reflexivity.
Qed.

Lemma quoted_span_stmt pre P w : has SQ pre = false -> has SQ w = false ->
  (exists x, P = SQ :: x ++ [SQ]) -> quoted_span (pre ++ P ++ w) = Some P.
Proof.
  intros Hp Hw [x ->]. unfold quoted_span. cbn [app]. rewrite upto_app by exact Hp.
  replace ((x ++ [SQ]) ++ w) with (x ++ SQ :: w) by (rewrite <- app_assoc; reflexivity).
  rewrite split_last_quote_app by exact Hw. reflexivity.
Qed.

(* ---------------------------------------------------------------- str.replace *)
Lemma is_prefix_app p l : is_prefix p (p ++ l) = true.
Proof. induction p as [|c p IH]; simpl; [reflexivity|]. rewrite ceq_refl. exact IH. Qed.

Lemma skipn_app_exact {X} (p l : list X) : skipn (List.length p) (p ++ l) = l.
Proof. induction p; simpl; auto. Qed.

Lemma replace_all_noq fuel s x new : has SQ s = false ->
  replace_all fuel s (SQ :: x) new = s.
Proof.
  revert s. induction fuel as [|f IH]; intros s H; [reflexivity|].
  destruct s as [|c s]; [reflexivity|]. apply has_cons_false in H as [H1 H2].
  cbn [replace_all is_prefix]. unfold ceq in *. rewrite Ascii.eqb_sym in H1. rewrite H1. cbn [andb].
  rewrite IH by exact H2. reflexivity.
Qed.

Lemma replace_all_stmt pre x suf new fuel : has SQ pre = false -> has SQ suf = false ->
  List.length pre < fuel ->
  replace_all fuel (pre ++ (SQ :: x) ++ suf) (SQ :: x) new = pre ++ new ++ suf.
Proof.
  intros Hp Hs. revert fuel. induction pre as [|c pre IH]; intros fuel Hf.
  - destruct fuel as [|f]; [simpl in Hf; lia|]. cbn [app].
    change (SQ :: x ++ suf) with ((SQ :: x) ++ suf).
    unfold replace_all; fold replace_all. rewrite is_prefix_app, skipn_app_exact.
    rewrite replace_all_noq by exact Hs. reflexivity.
  - destruct fuel as [|f]; [simpl in Hf; lia|]. apply has_cons_false in Hp as [H1 H2].
    cbn [app replace_all is_prefix]. unfold ceq in *. rewrite Ascii.eqb_sym in H1. rewrite H1. cbn [andb].
    f_equal. apply IH; [exact H2 | simpl in Hf; lia].
Qed.

(* ---------------------------------------------------------------- convert_to_multiline_string *)
Lemma unescape_nl_cons c r : ceq c BS = false -> unescape_nl (c :: r) = c :: unescape_nl r.
Proof. intro H. destruct r as [|d r']; cbn [unescape_nl]; [reflexivity|]. rewrite H. reflexivity. Qed.

Lemma unescape_nl_skip x y : has BS x = false -> unescape_nl (x ++ y) = x ++ unescape_nl y.
Proof.
  induction x as [|c x IH]; intro H; [reflexivity|].
  apply has_cons_false in H as [H1 H2]. cbn [app].
  rewrite unescape_nl_cons by exact H1. rewrite IH by exact H2. reflexivity.
Qed.

Lemma unescape_nl_bsn r : unescape_nl (BS :: "n" :: r) = NL :: unescape_nl r.
Proof. reflexivity. Qed.

(* the constant of a line after replace("\\n", "\n") *)
Definition Qn (l : chars) : chars := SQ :: l ++ [NL; SQ].

Lemma unescape_Q lines : Forall (fun l => has BS l = false) lines ->
  unescape_nl (flat_map Q lines) = flat_map Qn lines.
Proof.
  induction 1 as [|l ls H1 H2 IH]; [reflexivity|]. cbn [flat_map]. unfold Q at 1, Qn at 1.
  change (SQ :: l ++ [BS; "n"; SQ]) with ([SQ] ++ l ++ [BS; "n"; SQ]).
  rewrite <- !app_assoc. rewrite (unescape_nl_skip [SQ]) by reflexivity.
  rewrite unescape_nl_skip by exact H1. cbn [app]. rewrite unescape_nl_bsn.
  change (SQ :: flat_map Q ls) with ([SQ] ++ flat_map Q ls).
  rewrite (unescape_nl_skip [SQ]) by reflexivity. rewrite IH. cbn [app]. rewrite <- app_assoc. reflexivity.
Qed.

Lemma drop_quotes_app a b : drop_quotes (a ++ b) = drop_quotes a ++ drop_quotes b.
Proof. unfold drop_quotes. apply filter_app. Qed.

Lemma drop_quotes_noq l : has SQ l = false -> drop_quotes l = l.
Proof.
  unfold drop_quotes. induction l as [|c l IH]; intro H; [reflexivity|].
  apply has_cons_false in H as [H1 H2]. cbn [filter]. rewrite H1. cbn [negb]. rewrite IH by exact H2. reflexivity.
Qed.

Lemma drop_quotes_Qn lines : Forall (fun l => has SQ l = false) lines ->
  drop_quotes (flat_map Qn lines) = joined lines.
Proof.
  unfold joined. induction 1 as [|l ls H1 H2 IH]; [reflexivity|]. cbn [flat_map]. unfold Qn at 1.
  change (SQ :: l ++ [NL; SQ]) with ([SQ] ++ l ++ [NL] ++ [SQ]).
  rewrite !drop_quotes_app, IH. rewrite (drop_quotes_noq l) by exact H1.
  change (drop_quotes [SQ]) with (@nil ascii). change (drop_quotes [NL]) with [NL]. cbn [app].
  reflexivity.
Qed.

Lemma joined_ends lines : lines <> [] -> ends_with_nl (joined lines) = true.
Proof.
  intro H. destruct (exists_last H) as (ls & l & ->). unfold joined, ends_with_nl.
  rewrite flat_map_app. cbn [flat_map]. rewrite app_nil_r, !rev_app_distr. reflexivity.
Qed.

Lemma lines_keep_line l r : has NL l = false -> lines_keep (l ++ NL :: r) = (l ++ [NL]) :: lines_keep r.
Proof.
  induction l as [|c l IH]; intro H.
  - cbn [app lines_keep]. rewrite ceq_refl. reflexivity.
  - apply has_cons_false in H as [H1 H2]. cbn [app lines_keep]. rewrite H1, IH by exact H2. reflexivity.
Qed.

(* one line of the indented text *)
Definition ind_line (k : nat) (l : chars) : chars :=
  if blank (l ++ [NL]) then l ++ [NL] else spaces k ++ l ++ [NL].

Definition indented (k : nat) (lines : list chars) : chars := flat_map (ind_line k) lines.

Lemma indent_joined k lines : Forall (fun l => has NL l = false) lines ->
  indent_text (spaces k) (joined lines ++ DQ3) = indented k lines ++ spaces k ++ DQ3.
Proof.
  unfold indent_text, indented, joined. induction 1 as [|l ls H1 H2 IH].
  - cbn. rewrite app_nil_r. reflexivity.
  - cbn [flat_map]. rewrite <- !app_assoc. cbn [app]. rewrite lines_keep_line by exact H1.
    cbn [flat_map]. rewrite IH. reflexivity.
Qed.

Lemma convert_pieces lines k off : lines <> [] -> Forall (fun l => forallb safe_char l = true) lines ->
  convert (flat_map Q lines) k off = DQ3 ++ NL :: indented (k + off) lines ++ spaces (k + off) ++ DQ3.
Proof.
  intros Hne Hs. unfold convert.
  assert (Hq : Forall (fun l => has SQ l = false) lines)
    by (eapply Forall_impl; [|exact Hs]; intros l H; apply safe_no; auto).
  assert (Hb : Forall (fun l => has BS l = false) lines)
    by (eapply Forall_impl; [|exact Hs]; intros l H; apply safe_no; auto).
  assert (Hn : Forall (fun l => has NL l = false) lines)
    by (eapply Forall_impl; [|exact Hs]; intros l H; apply safe_no; auto).
  rewrite unescape_Q by exact Hb. rewrite drop_quotes_Qn by exact Hq.
  rewrite joined_ends by exact Hne. rewrite indent_joined by exact Hn. reflexivity.
Qed.

(* ---------------------------------------------------------------- format_line on the statement *)
Lemma has_incl c a b : incl a b -> has c b = false -> has c a = false.
Proof. intros Hi Hb. apply has_false. intros x Hx. apply (proj1 (has_false c b) Hb). apply Hi. exact Hx. Qed.

Lemma take_while_incl p l : incl (take_while p l) l.
Proof.
  induction l as [|c l IH]; simpl; [intros x []|]. destruct (p c); [|intros x []].
  intros x [<-|Hx]; [left; reflexivity | right; apply IH; exact Hx].
Qed.

Lemma drop_while_incl p l : incl (drop_while p l) l.
Proof.
  induction l as [|c l IH]; simpl; [intros x []|]. destruct (p c); [|intros x Hx; exact Hx].
  intros x Hx. right. apply IH. exact Hx.
Qed.

Lemma leading_ws_prefix a b x : leading_ws ((a ++ EQc :: b) ++ x) = leading_ws (a ++ EQc :: b).
Proof.
  unfold leading_ws. f_equal. induction a as [|c a IH]; cbn [app take_while].
  - reflexivity.
  - destruct (is_ws c); [rewrite IH|]; reflexivity.
Qed.

Lemma format_iter_S f rest cur off :
  format_iter (S f) rest cur off =
  match find_match rest with
  | None => cur
  | Some (t, rest') =>
      match quoted_span t with
      | Some span => format_iter f rest' (replace_all (S (List.length cur)) cur span
                                                     (convert span (leading_ws t) off)) off
      | None => format_iter f rest' cur off
      end
  end.
Proof. reflexivity. Qed.

Lemma format_line_stmt a b l1 l2 ls suf off :
  good_prefix a b -> Forall (fun l => forallb safe_char l = true) (l1 :: l2 :: ls) -> has SQ suf = false ->
  format_line ((a ++ EQc :: b) ++ flat_map Q (l1 :: l2 :: ls) ++ suf) off
  = (a ++ EQc :: b) ++ (DQ3 ++ NL :: indented (leading_ws (a ++ EQc :: b) + off) (l1 :: l2 :: ls)
                            ++ spaces (leading_ws (a ++ EQc :: b) + off) ++ DQ3) ++ suf.
Proof.
  intros Hg Hs Hsuf.
  assert (Hq : Forall (fun l => has SQ l = false) (l1 :: l2 :: ls))
    by (eapply Forall_impl; [|exact Hs]; intros l H; apply safe_no; auto).
  assert (Hpre : has SQ (a ++ EQc :: b) = false).
  { rewrite has_app. destruct Hg as [_ Ha Hb]. rewrite Ha. cbn [orb].
    change (EQc :: b) with ([EQc] ++ b). rewrite has_app, Hb. reflexivity. }
  assert (Hw : has SQ (take_while is_ws suf) = false)
    by (eapply has_incl; [apply take_while_incl | exact Hsuf]).
  assert (Hd : has SQ (drop_while is_ws suf) = false)
    by (eapply has_incl; [apply drop_while_incl | exact Hsuf]).
  destruct (flat_map_Q_ends (l1 :: l2 :: ls)) as [x Hx]; [discriminate|].
  unfold format_line.
  assert (Hlen : exists n, List.length ((a ++ EQc :: b) ++ flat_map Q (l1 :: l2 :: ls) ++ suf) = S n).
  { rewrite <- app_assoc, app_length. cbn [app List.length]. eexists. rewrite Nat.add_succ_r. reflexivity. }
  destruct Hlen as [n Hn]. rewrite Hn.
  rewrite format_iter_S. rewrite find_match_stmt by assumption.
  rewrite quoted_span_stmt; [| exact Hpre | exact Hw | exists x; exact Hx].
  rewrite format_iter_S. rewrite find_match_none by exact Hd.
  rewrite leading_ws_prefix.
  rewrite convert_pieces; [| discriminate | exact Hs].
  match goal with
  | |- replace_all ?F _ _ ?N = _ =>
      pose proof (replace_all_stmt (a ++ EQc :: b) (x ++ [SQ]) suf N F Hpre Hsuf) as R
  end.
  rewrite <- Hx in R. apply R. rewrite !app_length. cbn [List.length]. lia.
Qed.

(* ---------------------------------------------------------------- evaluation of the literal *)
Definition lift (s : chars) (e : ev) : ev :=
  match e with EvOk v rest => EvOk (s ++ v) rest | e => e end.

Lemma eval_triple_S f l :
  eval_triple (S f) l =
  if is_prefix DQ3 l then EvOk [] (skipn 3 l)
  else match l with
       | [] => EvSyntax
       | c :: r =>
           if ceq c BS
           then match escape r with
                | EscChars v r' => match eval_triple f r' with
                                   | EvOk v' rest => EvOk (v ++ v') rest
                                   | e => e end
                | EscSyntax => EvSyntax
                | EscUnsupported => EvUnsupported
                end
           else match eval_triple f r with
                | EvOk v' rest => EvOk (c :: v') rest
                | e => e end
       end.
Proof. reflexivity. Qed.

(* a segment through which evaluation copies characters: no backslash, and no position where three
   double quotes start, whatever follows the segment *)
Definition seg_ok (s : chars) : Prop :=
  has BS s = false /\ forall r u v, s = u ++ v -> v <> [] -> is_prefix DQ3 (v ++ r) = false.

Lemma eval_seg s : seg_ok s -> forall r f, eval_triple (List.length s + f) (s ++ r) = lift s (eval_triple f r).
Proof.
  induction s as [|c s IH]; intros [Hb Hq] r f.
  - cbn. destruct (eval_triple f r); reflexivity.
  - apply has_cons_false in Hb as [Hc Hb]. cbn [List.length app Nat.add]. rewrite eval_triple_S.
    pose proof (Hq r [] (c :: s) eq_refl ltac:(discriminate)) as Hp. cbn [app] in Hp. rewrite Hp, Hc.
    rewrite IH.
    + destruct (eval_triple f r); reflexivity.
    + split; [exact Hb|]. intros r' u v E Hv. apply (Hq r' (c :: u) v); [rewrite E; reflexivity | exact Hv].
Qed.

Lemma seg_ok_app s1 s2 : seg_ok s1 -> seg_ok s2 -> seg_ok (s1 ++ s2).
Proof.
  intros [Hb1 Hq1] [Hb2 Hq2]. split; [rewrite has_app, Hb1, Hb2; reflexivity|].
  intros r u v E Hv. apply app_eq_app in E as [w [[E1 E2]|[E1 E2]]].
  - (* s1 = u ++ w, v = w ++ s2 *)
    subst v. destruct w as [|c w].
    + cbn [app]. apply (Hq2 r [] s2 eq_refl). exact Hv.
    + rewrite <- app_assoc. apply (Hq1 (s2 ++ r) u (c :: w) E1). discriminate.
  - (* u = s1 ++ w, s2 = w ++ v *)
    apply (Hq2 r w v E2 Hv).
Qed.

Lemma seg_ok_nil : seg_ok [].
Proof.
  split; [reflexivity|]. intros r u v E Hv. symmetry in E. apply app_eq_nil in E as [_ ->]. congruence.
Qed.

Lemma seg_ok_uniform c k : ceq c BS = false -> ceq DQ c = false -> seg_ok (repeat c k).
Proof.
  intros Hb Hd. split.
  - apply has_false. intros x Hx. apply repeat_spec in Hx. subst. apply ceq_neq. exact Hb.
  - intros r u v E Hv. destruct v as [|d v]; [congruence|].
    assert (d = c). { apply (repeat_spec k c d). rewrite E. apply in_or_app. right. left. reflexivity. }
    subst. unfold DQ3. cbn [app is_prefix]. rewrite Hd. reflexivity.
Qed.

Lemma is_prefix_dq3_nl l r : is_prefix DQ3 l = false -> is_prefix DQ3 (l ++ NL :: r) = false.
Proof.
  unfold DQ3. destruct l as [|c1 [|c2 [|c3 l]]]; cbn [app is_prefix]; intro H.
  - reflexivity.
  - replace (ceq DQ NL) with false by reflexivity. rewrite !andb_false_r. reflexivity.
  - replace (ceq DQ NL) with false by reflexivity. rewrite !andb_false_r. reflexivity.
  - exact H.
Qed.

Lemma seg_ok_line l : safe_line l = true -> seg_ok (l ++ [NL]).
Proof.
  unfold safe_line. intro H. apply andb_true_iff in H as [Hs Hd]. apply negb_true_iff in Hd. split.
  - rewrite has_app, (safe_no BS l Hs) by auto. reflexivity.
  - clear Hs. induction l as [|c l IH]; intros r u v E Hv.
    + destruct u as [|x u]; cbn [app] in E.
      * subst v. reflexivity.
      * inversion E as [[E1 E2]]. symmetry in E2. apply app_eq_nil in E2 as [_ ->]. congruence.
    + cbn [has_dq3] in Hd. apply orb_false_iff in Hd as [Hd1 Hd2].
      destruct u as [|x u]; cbn [app] in E.
      * subst v. replace ((c :: l ++ [NL]) ++ r) with ((c :: l) ++ NL :: r)
          by (cbn [app]; rewrite <- app_assoc; reflexivity).
        apply is_prefix_dq3_nl. exact Hd1.
      * inversion E as [[E1 E2]]. apply (IH Hd2 r u v E2 Hv).
Qed.

Lemma seg_ok_ind_line k l : safe_line l = true -> seg_ok (ind_line k l).
Proof.
  intro H. unfold ind_line. destruct (blank (l ++ [NL])); [apply seg_ok_line; exact H|].
  apply seg_ok_app; [apply seg_ok_uniform; reflexivity | apply seg_ok_line; exact H].
Qed.

Lemma seg_ok_indented k lines : Forall (fun l => safe_line l = true) lines -> seg_ok (indented k lines).
Proof.
  unfold indented. induction 1 as [|l ls H1 H2 IH]; cbn [flat_map]; [apply seg_ok_nil|].
  apply seg_ok_app; [apply seg_ok_ind_line; exact H1 | exact IH].
Qed.

(* the value of the embedded literal *)
Definition embedded (k : nat) (lines : list chars) : chars := NL :: indented k lines ++ spaces k.

Lemma seg_ok_embedded k lines : Forall (fun l => safe_line l = true) lines -> seg_ok (embedded k lines).
Proof.
  intro H. unfold embedded. change (NL :: indented k lines ++ spaces k) with (([] ++ [NL]) ++ indented k lines ++ spaces k).
  apply seg_ok_app; [apply seg_ok_line; reflexivity|].
  apply seg_ok_app; [apply seg_ok_indented; exact H | apply seg_ok_uniform; reflexivity].
Qed.

Lemma eval_literals_S f seen paren l :
  eval_literals (S f) seen paren l =
  let l := skip_blanks (S (List.length l)) paren l in
  let one := if is_prefix DQ3 l then Some (eval_triple (S (List.length l)) (skipn 3 l))
             else match l with
                  | c :: r => if ceq c SQ || ceq c DQ then Some (eval_short (S (List.length l)) c r) else None
                  | [] => None
                  end in
  match one with
  | Some (EvOk v rest) => match eval_literals f true paren rest with
                          | EvOk v' rest' => EvOk (v ++ v') rest'
                          | e => e end
  | Some e => e
  | None => if seen then EvOk [] l else EvSyntax
  end.
Proof. reflexivity. Qed.

Lemma skip_blanks_dq3 f paren r : skip_blanks (S f) paren (DQ3 ++ r) = DQ3 ++ r.
Proof. destruct paren; reflexivity. Qed.

Lemma eval_literals_end f paren suf : suf = [] \/ suf = [")"] -> eval_literals (S f) true paren suf = EvOk [] suf.
Proof. intros [->| ->]; destruct paren; reflexivity. Qed.

Lemma eval_embedded k lines suf paren :
  Forall (fun l => safe_line l = true) lines -> suf = [] \/ suf = [")"] ->
  forall f, List.length (DQ3 ++ embedded k lines ++ DQ3 ++ suf) <= f ->
  eval_literals (S f) false paren (DQ3 ++ embedded k lines ++ DQ3 ++ suf) = EvOk (embedded k lines) suf.
Proof.
  intros Hl Hsuf f Hf. rewrite eval_literals_S. cbv zeta.
  rewrite !skip_blanks_dq3.
  rewrite is_prefix_app. change (skipn 3 (DQ3 ++ embedded k lines ++ DQ3 ++ suf)) with (embedded k lines ++ DQ3 ++ suf).
  set (X := embedded k lines) in *.
  replace (S (List.length (DQ3 ++ X ++ DQ3 ++ suf))) with (List.length X + S (3 + 3 + List.length suf))
    by (rewrite !app_length; unfold DQ3; cbn [List.length]; lia).
  rewrite (eval_seg X (seg_ok_embedded k lines Hl)).
  rewrite eval_triple_S, is_prefix_app. change (skipn 3 (DQ3 ++ suf)) with suf. cbn [lift].
  destruct f as [|f]; [unfold DQ3 in Hf; cbn [app List.length] in Hf; lia|].
  rewrite eval_literals_end by exact Hsuf. rewrite !app_nil_r. reflexivity.
Qed.

Lemma is_prefix_true_skipn p l : is_prefix p (p ++ l) = true /\ skipn (List.length p) (p ++ l) = l.
Proof. split; [apply is_prefix_app | apply skipn_app_exact]. Qed.

(* ---------------------------------------------------------------- the round trip *)
Theorem embed_roundtrip a b suf paren off lines :
  good_prefix a b -> suf = [] \/ suf = [")"] ->
  2 <= List.length lines -> Forall (fun l => safe_line l = true) lines ->
  let pre := a ++ EQc :: b in
  embed pre suf paren off lines = EvOk (embedded (leading_ws pre + off) lines) suf.
Proof.
  intros Hg Hsuf Hlen Hl pre.
  destruct lines as [|l1 [|l2 ls]]; [simpl in Hlen; lia | simpl in Hlen; lia |].
  assert (Hs : Forall (fun l => forallb safe_char l = true) (l1 :: l2 :: ls)).
  { eapply Forall_impl; [|exact Hl]. intros l H. unfold safe_line in H. apply andb_true_iff in H as [H _]. exact H. }
  assert (Hq : has SQ suf = false) by (destruct Hsuf as [->| ->]; reflexivity).
  subst pre. unfold embed, stmt. rewrite pieces_safe by exact Hs.
  rewrite format_line_stmt by assumption.
  unfold eval_stmt. rewrite is_prefix_app, skipn_app_exact.
  set (k := leading_ws (a ++ EQc :: b) + off).
  match goal with
  | |- eval_literals _ _ _ ?T = _ =>
      assert (E : T = DQ3 ++ embedded k (l1 :: l2 :: ls) ++ DQ3 ++ suf)
        by (unfold embedded; repeat (rewrite <- app_assoc; cbn [app]); reflexivity);
      rewrite E
  end.
  apply eval_embedded; [exact Hl | exact Hsuf | lia].
Qed.
