(* Proofs about Model/Multiline.v (C02): the embedding round trip of the rewriter of 0f971a2,
   for lines over all bytes (line feed excluded: lines come from str.split on it). *)
From Coq Require Import List String Ascii Bool Arith Lia NArith.
From AC Require Import Base.Strs Base.Sexp Model.Multiline.
Import ListNotations.
Local Open Scope char_scope.
Local Open Scope nat_scope.
Local Open Scope list_scope.

(* ---------------------------------------------------------------- characters and membership *)
Lemma ceq_eq a b : ceq a b = true <-> a = b.
Proof. apply Ascii.eqb_eq. Qed.
Lemma ceq_refl a : ceq a a = true.
Proof. apply Ascii.eqb_refl. Qed.
Lemma ceq_neq a b : ceq a b = false <-> a <> b.
Proof. apply Ascii.eqb_neq. Qed.

Lemma has_false c l : has c l = false <-> (forall x, In x l -> x <> c).
Proof.
  unfold has. induction l as [|y l IH]; simpl; split; intro H.
  - intros x [].
  - reflexivity.
  - apply orb_false_iff in H as [H1 H2]. intros x [<-|Hx].
    + intro E. subst. rewrite ceq_refl in H1. discriminate.
    + apply IH; assumption.
  - apply orb_false_iff. split.
    + apply ceq_neq. intro E. apply (H y (or_introl eq_refl)). symmetry. exact E.
    + apply IH. intros x Hx. apply H. right. exact Hx.
Qed.

Lemma has_app c a b : has c (a ++ b) = has c a || has c b.
Proof. unfold has. apply existsb_app. Qed.

Lemma has_cons_false c x l : has c (x :: l) = false -> ceq x c = false /\ has c l = false.
Proof.
  unfold has. cbn [existsb]. intro H. apply orb_false_iff in H as [H1 H2]. split; [|exact H2].
  unfold ceq in *. rewrite Ascii.eqb_sym. exact H1.
Qed.

Lemma has_incl c a b : incl a b -> has c b = false -> has c a = false.
Proof. intros Hi Hb. apply has_false. intros x Hx. apply (proj1 (has_false c b) Hb). apply Hi. exact Hx. Qed.

Definition lift (s : chars) (e : ev) : ev :=
  match e with
  | EvOk v rest => EvOk (s ++ v) rest
  | EvSyntax => EvSyntax
  | EvUnsupported => EvUnsupported
  end.

Lemma lift_app a b e : lift (a ++ b) e = lift a (lift b e).
Proof. destruct e; simpl; [rewrite app_assoc|..]; reflexivity. Qed.

Lemma lift_nil e : lift [] e = e.
Proof. destruct e; reflexivity. Qed.

(* ---------------------------------------------------------------- one character through repr and back *)
(* finite table: 2 quote characters x 256 bytes, by computation *)
Lemma short_step q c r f : q = SQ \/ q = DQ ->
  eval_short (S f) q (repr_char q c ++ r) = lift [c] (eval_short f q r).
Proof.
  intros [-> | ->]; destruct c as [[] [] [] [] [] [] [] []]; reflexivity.
Qed.

(* ... and through unicode_escape into a triple-quoted literal and back (the double quote aside) *)
Lemma triple_step c r f : c <> DQ ->
  eval_triple (S f) (esc_char c ++ r) = lift [c] (eval_triple f r).
Proof.
  intro H. destruct c as [[] [] [] [] [] [] [] []]; try reflexivity. exfalso. apply H. reflexivity.
Qed.

Lemma esc_char_head c : c <> DQ -> exists h t, esc_char c = h :: t /\ ceq DQ h = false.
Proof.
  intro H. destruct c as [[] [] [] [] [] [] [] []];
    try (eexists; eexists; split; [reflexivity | reflexivity]). exfalso. apply H. reflexivity.
Qed.

Lemma esc_char_no_nl c : has NL (esc_char c) = false.
Proof. destruct c as [[] [] [] [] [] [] [] []]; reflexivity. Qed.

Lemma esc_char_length c : 1 <= List.length (esc_char c).
Proof. destruct c as [[] [] [] [] [] [] [] []]; simpl; lia. Qed.

Lemma eval_triple_S f l :
  eval_triple (S f) l =
  if is_prefix DQ3 l then EvOk [] (skipn 3 l)
  else match l with
       | [] => EvSyntax
       | c :: r =>
           if ceq c BS
           then match escape r with
                | EscChars v r' => match eval_triple f r' with
                                   | EvOk v' rest => EvOk (v ++ v') rest
                                   | e => e end
                | EscSyntax => EvSyntax
                | EscUnsupported => EvUnsupported
                end
           else match eval_triple f r with
                | EvOk v' rest => EvOk (c :: v') rest
                | e => e end
       end.
Proof. reflexivity. Qed.

Lemma dq_step r f : is_prefix DQ3 (DQ :: r) = false ->
  eval_triple (S f) (DQ :: r) = lift [DQ] (eval_triple f r).
Proof. intro H. rewrite eval_triple_S, H. reflexivity. Qed.

Lemma escdq_step r f : eval_triple (S f) (BS :: DQ :: r) = lift [DQ] (eval_triple f r).
Proof. reflexivity. Qed.

(* more fuel never changes a successful evaluation *)
Lemma eval_triple_mono : forall f l v r, eval_triple f l = EvOk v r ->
  forall f', f <= f' -> eval_triple f' l = EvOk v r.
Proof.
  induction f as [|f IH]; intros l v r H f' Hf; [discriminate|].
  destruct f' as [|f']; [lia|]. rewrite eval_triple_S in *.
  destruct (is_prefix DQ3 l); [exact H|].
  destruct l as [|c l]; [discriminate|].
  destruct (ceq c BS).
  - destruct (escape l) as [v0 r0| |]; try discriminate.
    destruct (eval_triple f r0) as [v1 r1| |] eqn:E; try discriminate.
    rewrite (IH _ _ _ E f') by lia. exact H.
  - destruct (eval_triple f l) as [v1 r1| |] eqn:E; try discriminate.
    rewrite (IH _ _ _ E f') by lia. exact H.
Qed.

(* ---------------------------------------------------------------- esc3: induction principle *)
Definition starts3 (l : chars) : bool :=
  match l with c :: d :: e :: _ => ceq c DQ && ceq d DQ && ceq e DQ | _ => false end.

Lemma esc3_triple r : esc3 (DQ :: DQ :: DQ :: r) = [BS; DQ; BS; DQ; BS; DQ] ++ esc3 r.
Proof. reflexivity. Qed.

Lemma esc3_other c r : starts3 (c :: r) = false -> esc3 (c :: r) = esc_char c ++ esc3 r.
Proof.
  intro H. destruct r as [|d [|e r']]; try reflexivity.
  cbn [starts3] in H. cbn [esc3]. rewrite H. reflexivity.
Qed.

Lemma starts3_true l : starts3 l = true -> exists r, l = DQ :: DQ :: DQ :: r.
Proof.
  destruct l as [|c [|d [|e r]]]; try discriminate. cbn [starts3]. intro H.
  apply andb_true_iff in H as [H He]. apply andb_true_iff in H as [Hc Hd].
  apply ceq_eq in Hc, Hd, He. subst. exists r. reflexivity.
Qed.

Lemma esc3_ind (P : chars -> Prop) :
  P [] -> (forall r, P r -> P (DQ :: DQ :: DQ :: r)) ->
  (forall c r, starts3 (c :: r) = false -> P r -> P (c :: r)) -> forall l, P l.
Proof.
  intros H0 H3 H1 l.
  assert (Hn : forall n l, List.length l <= n -> P l).
  { induction n as [|n IH]; intros l0 Hl.
    - destruct l0; [exact H0 | simpl in Hl; lia].
    - destruct l0 as [|c r]; [exact H0|].
      destruct (starts3 (c :: r)) eqn:E.
      + apply starts3_true in E as [r' E]. rewrite E. apply H3. apply IH.
        rewrite E in Hl. simpl in Hl. lia.
      + apply H1; [exact E|]. apply IH. simpl in Hl. lia. }
  apply (Hn (List.length l)). lia.
Qed.

Lemma esc3_no_nl : forall l, has NL (esc3 l) = false.
Proof.
  apply esc3_ind.
  - reflexivity.
  - intros r IH. rewrite esc3_triple, has_app, IH. reflexivity.
  - intros c r E IH. rewrite esc3_other by exact E. rewrite has_app, esc_char_no_nl, IH. reflexivity.
Qed.

Lemma esc3_length : forall l, List.length l <= List.length (esc3 l).
Proof.
  apply esc3_ind.
  - simpl. lia.
  - intros r IH. rewrite esc3_triple, app_length. simpl in *. lia.
  - intros c r E IH. rewrite esc3_other by exact E. rewrite app_length. pose proof (esc_char_length c). simpl. lia.
Qed.

(* what follows a lone double quote is never two more of them *)
Lemma esc3_head2 l r : is_prefix [DQ; DQ] l = false -> is_prefix [DQ; DQ] (esc3 l ++ NL :: r) = false.
Proof.
  intro H. destruct l as [|d l1]; [reflexivity|].
  destruct (ceq d DQ) eqn:Ed.
  - apply ceq_eq in Ed. subst d.
    destruct l1 as [|e l2]; [reflexivity|].
    assert (He : ceq DQ e = false).
    { cbn [is_prefix] in H. rewrite ceq_refl in H. cbn [andb] in H. rewrite andb_true_r in H. exact H. }
    assert (Hs : starts3 (DQ :: e :: l2) = false).
    { destruct l2; cbn [starts3]; [reflexivity|]. unfold ceq in *. rewrite (Ascii.eqb_sym e DQ), He.
      rewrite andb_false_r. reflexivity. }
    rewrite esc3_other by exact Hs.
    assert (Hs2 : starts3 (e :: l2) = false).
    { destruct l2 as [|x [|y l3]]; cbn [starts3]; try reflexivity.
      unfold ceq in *. rewrite (Ascii.eqb_sym e DQ), He. reflexivity. }
    rewrite esc3_other by exact Hs2.
    destruct (esc_char_head e) as (h & t & Eh & Hh).
    { intro E. subst. rewrite ceq_refl in He. discriminate. }
    rewrite Eh. change (esc_char DQ) with [DQ]. cbn [app is_prefix]. rewrite Hh. rewrite andb_false_r. reflexivity.
  - assert (Hs : starts3 (d :: l1) = false).
    { destruct l1 as [|x [|y l3]]; cbn [starts3]; try reflexivity. rewrite Ed. reflexivity. }
    rewrite esc3_other by exact Hs.
    destruct (esc_char_head d) as (h & t & Eh & Hh); [apply ceq_neq; exact Ed|].
    rewrite Eh. cbn [app is_prefix]. rewrite Hh. reflexivity.
Qed.

(* an escaped line, up to its line feed, evaluates back to the line *)
Lemma eval_esc3 : forall l r f,
  eval_triple (List.length l + f) (esc3 l ++ NL :: r) = lift l (eval_triple f (NL :: r)).
Proof.
  apply (esc3_ind (fun l => forall r f,
    eval_triple (List.length l + f) (esc3 l ++ NL :: r) = lift l (eval_triple f (NL :: r)))).
  - intros r f. cbn. rewrite lift_nil. reflexivity.
  - intros l IH r f. rewrite esc3_triple. cbn [List.length Nat.add app].
    rewrite escdq_step, escdq_step, escdq_step, IH.
    destruct (eval_triple f (NL :: r)); reflexivity.
  - intros c l E IH r f. rewrite esc3_other by exact E. cbn [List.length Nat.add]. rewrite <- app_assoc.
    destruct (ceq c DQ) eqn:Ec.
    + apply ceq_eq in Ec. subst c. change (esc_char DQ) with [DQ]. cbn [app].
      rewrite dq_step.
      * rewrite IH. destruct (eval_triple f (NL :: r)); reflexivity.
      * unfold DQ3. cbn [is_prefix]. rewrite ceq_refl. cbn [andb].
        change (ceq DQ ?x && (ceq DQ ?y && true)) with (is_prefix [DQ; DQ] (x :: y :: [])).
        assert (H2 : is_prefix [DQ; DQ] l = false).
        { destruct l as [|d [|e l']]; try reflexivity.
          - cbn [is_prefix]. rewrite andb_false_r. reflexivity.
          - cbn [starts3] in E. rewrite ceq_refl in E. cbn [andb] in E. cbn [is_prefix].
            unfold ceq in *. rewrite (Ascii.eqb_sym DQ d), (Ascii.eqb_sym DQ e), andb_true_r. exact E. }
        pose proof (esc3_head2 l r H2) as H3.
        destruct (esc3 l ++ NL :: r) as [|x [|y t]]; try reflexivity; cbn [is_prefix] in *.
        -- rewrite andb_false_r. reflexivity.
        -- exact H3.
    + rewrite triple_step by (apply ceq_neq; exact Ec).
      rewrite IH. destruct (eval_triple f (NL :: r)); reflexivity.
Qed.

(* ---------------------------------------------------------------- the constants ast.unparse writes *)
Definition rq (l : chars) : ascii := repr_quote (l ++ [NL]).
Definition body (l : chars) : chars := flat_map (repr_char (rq l)) (l ++ [NL]).

Lemma rq_cases l : rq l = SQ \/ rq l = DQ.
Proof. unfold rq, repr_quote. destruct (has SQ (l ++ [NL]) && negb (has DQ (l ++ [NL]))); auto. Qed.

Lemma piece_eq l : piece l = rq l :: body l ++ [rq l].
Proof. reflexivity. Qed.

Lemma isq_q q : q = SQ \/ q = DQ -> isq q = true.
Proof. intros [-> | ->]; reflexivity. Qed.

Lemma repr_char_head q c : q = SQ \/ q = DQ ->
  exists h t, repr_char q c = h :: t /\ ceq q h = false.
Proof.
  intros [-> | ->]; destruct c as [[] [] [] [] [] [] [] []]; eexists; eexists; split; reflexivity.
Qed.

Lemma repr_char_length q c : 1 <= List.length (repr_char q c).
Proof.
  unfold repr_char. destruct (ceq c q || ceq c BS); [simpl; lia|].
  repeat match goal with |- context [if ?b then _ else _] => destruct b end; simpl; lia.
Qed.

Lemma flat_map_length_ge {X} (f : X -> chars) l : (forall x, 1 <= List.length (f x)) ->
  List.length l <= List.length (flat_map f l).
Proof.
  intro H. induction l as [|x l IH]; simpl; [lia|]. rewrite app_length. specialize (H x). lia.
Qed.

Lemma body_length l : List.length l + 1 <= List.length (body l).
Proof.
  unfold body. pose proof (flat_map_length_ge (repr_char (rq l)) (l ++ [NL]) (repr_char_length (rq l))) as H.
  rewrite app_length in H. simpl in H. lia.
Qed.

Lemma body_head l : exists h t, body l = h :: t /\ ceq (rq l) h = false.
Proof.
  unfold body. destruct l as [|c l]; cbn [app flat_map].
  - destruct (repr_char_head (rq []) NL (rq_cases [])) as (h & t & E & H). rewrite E. exists h, (t ++ []). auto.
  - destruct (repr_char_head (rq (c :: l)) c (rq_cases (c :: l))) as (h & t & E & H). rewrite E.
    eexists. eexists. split; [reflexivity | exact H].
Qed.

(* a repr'd constant evaluates back to its string *)
Lemma eval_short_repr q : q = SQ \/ q = DQ -> forall s r F, List.length s < F ->
  eval_short F q (flat_map (repr_char q) s ++ q :: r) = EvOk s r.
Proof.
  intros Hq. induction s as [|c s IH]; intros r F HF; (destruct F as [|F]; [lia|]).
  - cbn [flat_map app]. destruct Hq as [-> | ->]; reflexivity.
  - cbn [flat_map]. rewrite <- app_assoc. rewrite short_step by exact Hq.
    rewrite IH by (simpl in HF; lia). reflexivity.
Qed.

Lemma eval_literals_S f seen paren l :
  eval_literals (S f) seen paren l =
  let l := skip_blanks (S (List.length l)) paren l in
  let one := if is_prefix DQ3 l then Some (eval_triple (S (List.length l)) (skipn 3 l))
             else if is_prefix [SQ; SQ; SQ] l then Some EvUnsupported
             else match l with
                  | c :: r => if ceq c SQ || ceq c DQ then Some (eval_short (S (List.length l)) c r) else None
                  | [] => None
                  end in
  match one with
  | Some (EvOk v rest) => match eval_literals f true paren rest with
                          | EvOk v' rest' => EvOk (v ++ v') rest'
                          | e => e end
  | Some e => e
  | None => if seen then EvOk [] l else EvSyntax
  end.
Proof. reflexivity. Qed.

Lemma skip_blanks_q f paren q r : q = SQ \/ q = DQ -> skip_blanks (S f) paren (q :: r) = q :: r.
Proof. intros [-> | ->]; destruct paren; reflexivity. Qed.

(* one constant at the head of a sequence of literals *)
Lemma eval_literals_piece f seen paren l rest :
  eval_literals (S f) seen paren (piece l ++ rest)
  = lift (l ++ [NL]) (eval_literals f true paren rest).
Proof.
  rewrite piece_eq. destruct (body_head l) as (h & t & Eb & Hh). rewrite Eb.
  rewrite eval_literals_S. cbv zeta. cbn [app].
  rewrite skip_blanks_q by apply rq_cases.
  assert (E1 : is_prefix DQ3 (rq l :: h :: (t ++ [rq l]) ++ rest) = false).
  { unfold DQ3. cbn [is_prefix]. destruct (rq_cases l) as [E|E]; rewrite E in *.
    - reflexivity.
    - rewrite Hh. rewrite andb_false_r. reflexivity. }
  assert (E2 : is_prefix [SQ; SQ; SQ] (rq l :: h :: (t ++ [rq l]) ++ rest) = false).
  { cbn [is_prefix]. destruct (rq_cases l) as [E|E]; rewrite E in *.
    - rewrite Hh. rewrite andb_false_r. reflexivity.
    - reflexivity. }
  rewrite E1, E2.
  assert (E3 : ceq (rq l) SQ || ceq (rq l) DQ = true) by (destruct (rq_cases l) as [E|E]; rewrite E; reflexivity).
  rewrite E3.
  replace (h :: (t ++ [rq l]) ++ rest) with (body l ++ rq l :: rest)
    by (rewrite Eb; cbn [app]; rewrite <- app_assoc; reflexivity).
  unfold body. rewrite eval_short_repr; [| apply rq_cases |].
  - destruct (eval_literals f true paren rest); reflexivity.
  - fold (body l). pose proof (body_length l). rewrite app_length. cbn [List.length]. rewrite app_length.
    cbn [List.length]. lia.
Qed.

Lemma eval_literals_pieces paren tail : forall lines seen F, List.length lines < F ->
  eval_literals F seen paren (pieces lines ++ tail)
  = lift (joined lines)
         (eval_literals (F - List.length lines) (match lines with [] => seen | _ => true end) paren tail).
Proof.
  induction lines as [|l ls IH]; intros seen F HF.
  - cbn. rewrite Nat.sub_0_r, lift_nil. reflexivity.
  - destruct F as [|F]; [lia|]. unfold pieces, joined. cbn [flat_map]. rewrite <- app_assoc.
    rewrite eval_literals_piece. fold (pieces ls). rewrite IH by (simpl in HF; lia).
    rewrite <- lift_app. cbn [List.length Nat.sub].
    destruct ls; reflexivity.
Qed.

Lemma eval_literals_end f paren suf : suf = [] \/ suf = [")"] -> eval_literals (S f) true paren suf = EvOk [] suf.
Proof. intros [->| ->]; destruct paren; reflexivity. Qed.

Lemma pieces_length lines : List.length lines <= List.length (pieces lines).
Proof.
  unfold pieces. apply flat_map_length_ge. intro l. rewrite piece_eq. simpl. lia.
Qed.

(* the untouched statement evaluates to the text *)
Lemma eval_pieces_stmt paren suf lines : lines <> [] -> suf = [] \/ suf = [")"] ->
  eval_literals (S (List.length (pieces lines ++ suf))) false paren (pieces lines ++ suf)
  = EvOk (joined lines) suf.
Proof.
  intros Hne Hs. rewrite eval_literals_pieces.
  - destruct lines as [|l ls]; [congruence|].
    pose proof (pieces_length (l :: ls)) as Hl. rewrite app_length.
    replace (S (List.length (pieces (l :: ls)) + List.length suf) - List.length (l :: ls))
      with (S (List.length (pieces (l :: ls)) + List.length suf - List.length (l :: ls))) by lia.
    rewrite eval_literals_end by exact Hs. cbn [lift]. rewrite app_nil_r. reflexivity.
  - pose proof (pieces_length lines). rewrite app_length. lia.
Qed.

(* ast.literal_eval of the constants *)
Lemma literal_eval_pieces lines : lines <> [] -> literal_eval (pieces lines) = LOk (joined lines).
Proof.
  intro Hne. unfold literal_eval.
  assert (E : drop_while (fun c => ceq c SP || (code c =? 9)) (pieces lines) = pieces lines).
  { destruct lines as [|l ls]; [congruence|]. unfold pieces. cbn [flat_map]. rewrite piece_eq. cbn [app drop_while].
    destruct (rq_cases l) as [E|E]; rewrite E; reflexivity. }
  rewrite E. pose proof (eval_pieces_stmt false [] lines Hne (or_introl eq_refl)) as H.
  rewrite app_nil_r in H. rewrite H. reflexivity.
Qed.

(* ---------------------------------------------------------------- the span of the rewriter *)
Definition noq (l : chars) : bool := forallb (fun c => negb (isq c)) l.

Lemma upto_q_app a c r : noq a = true -> isq c = true -> upto_q (a ++ c :: r) = Some (a ++ [c], r).
Proof.
  intros Ha Hc. induction a as [|x a IH]; cbn [app upto_q].
  - rewrite Hc. reflexivity.
  - cbn [noq forallb] in Ha. apply andb_true_iff in Ha as [Hx Ha]. apply negb_true_iff in Hx.
    rewrite Hx, (IH Ha). reflexivity.
Qed.

Lemma split_last_q_none w : noq w = true -> split_last_q w = None.
Proof.
  induction w as [|x w IH]; intro H; [reflexivity|]. cbn [noq forallb] in H.
  apply andb_true_iff in H as [Hx Hw]. apply negb_true_iff in Hx. cbn [split_last_q].
  rewrite (IH Hw), Hx. reflexivity.
Qed.

Lemma split_last_q_app x c w : noq w = true -> isq c = true ->
  split_last_q (x ++ c :: w) = Some (x ++ [c], w).
Proof.
  intros Hw Hc. induction x as [|y x IH]; cbn [app split_last_q].
  - rewrite (split_last_q_none w Hw), Hc. reflexivity.
  - rewrite IH. reflexivity.
Qed.

Lemma pieces_ends lines : lines <> [] ->
  exists q1 x q2, pieces lines = q1 :: x ++ [q2] /\ isq q1 = true /\ isq q2 = true.
Proof.
  intro Hne. destruct lines as [|l ls]; [congruence|].
  destruct (exists_last (l := l :: ls)) as (ls' & l' & E); [discriminate|].
  destruct ls' as [|l0 ls0].
  - cbn [app] in E. rewrite E. unfold pieces. cbn [flat_map]. rewrite app_nil_r, piece_eq.
    exists (rq l'), (body l'), (rq l'). repeat split; apply isq_q, rq_cases.
  - rewrite E. unfold pieces. rewrite flat_map_app. cbn [flat_map app]. rewrite app_nil_r, !piece_eq.
    exists (rq l0), ((body l0 ++ [rq l0]) ++ flat_map piece ls0 ++ rq l' :: body l'), (rq l').
    split; [|split; apply isq_q, rq_cases].
    cbn [app]. f_equal. repeat (rewrite <- app_assoc; cbn [app]). reflexivity.
Qed.

Lemma quoted_span_stmt pre suf lines : noq pre = true -> noq suf = true -> lines <> [] ->
  quoted_span (pre ++ pieces lines ++ suf) = Some (pieces lines).
Proof.
  intros Hp Hs Hne. destruct (pieces_ends lines Hne) as (q1 & x & q2 & E & H1 & H2). rewrite E.
  unfold quoted_span. cbn [app]. rewrite upto_q_app by assumption.
  replace ((x ++ [q2]) ++ suf) with (x ++ q2 :: suf) by (rewrite <- app_assoc; reflexivity).
  rewrite split_last_q_app by assumption. rewrite last_last. reflexivity.
Qed.

(* ---------------------------------------------------------------- str.replace of the span *)
Lemma is_prefix_app p l : is_prefix p (p ++ l) = true.
Proof. induction p as [|c p IH]; simpl; [reflexivity|]. rewrite ceq_refl. exact IH. Qed.

Lemma skipn_app_exact {X} (p l : list X) : skipn (List.length p) (p ++ l) = l.
Proof. induction p; simpl; auto. Qed.

Lemma replace_all_absent fuel s h x new : has h s = false -> replace_all fuel s (h :: x) new = s.
Proof.
  revert s. induction fuel as [|f IH]; intros s H; [reflexivity|].
  destruct s as [|c s]; [reflexivity|]. apply has_cons_false in H as [H1 H2].
  cbn [replace_all is_prefix]. unfold ceq in *. rewrite Ascii.eqb_sym in H1. rewrite H1. cbn [andb].
  rewrite IH by exact H2. reflexivity.
Qed.

Lemma replace_all_stmt pre h x suf new fuel : has h pre = false -> has h suf = false ->
  List.length pre < fuel ->
  replace_all fuel (pre ++ (h :: x) ++ suf) (h :: x) new = pre ++ new ++ suf.
Proof.
  intros Hp Hs. revert fuel. induction pre as [|c pre IH]; intros fuel Hf.
  - destruct fuel as [|f]; [simpl in Hf; lia|]. cbn [app].
    change (h :: x ++ suf) with ((h :: x) ++ suf).
    unfold replace_all; fold replace_all. rewrite is_prefix_app, skipn_app_exact.
    rewrite replace_all_absent by exact Hs. reflexivity.
  - destruct fuel as [|f]; [simpl in Hf; lia|]. apply has_cons_false in Hp as [H1 H2].
    cbn [app replace_all is_prefix]. unfold ceq in *. rewrite Ascii.eqb_sym in H1. rewrite H1. cbn [andb].
    f_equal. apply IH; [exact H2 | simpl in Hf; lia].
Qed.

Lemma noq_has l q : noq l = true -> isq q = true -> has q l = false.
Proof.
  intros Hn Hq. apply has_false. intros x Hx E. subst. unfold noq in Hn. rewrite forallb_forall in Hn.
  specialize (Hn q Hx). rewrite Hq in Hn. discriminate.
Qed.

(* ---------------------------------------------------------------- the escaped, indented text *)
Lemma split_nl_line l r : has NL l = false -> split_nl (l ++ NL :: r) = l :: split_nl r.
Proof.
  induction l as [|c l IH]; intro H.
  - cbn [app split_nl]. rewrite ceq_refl. reflexivity.
  - apply has_cons_false in H as [H1 H2]. cbn [app split_nl]. rewrite H1, IH by exact H2. reflexivity.
Qed.

Lemma split_nl_joined lines : Forall (fun l => has NL l = false) lines ->
  split_nl (joined lines) = lines ++ [[]].
Proof.
  unfold joined. induction 1 as [|l ls H1 H2 IH]; [reflexivity|].
  cbn [flat_map]. rewrite <- app_assoc. cbn [app]. rewrite split_nl_line by exact H1. rewrite IH. reflexivity.
Qed.

Definition escaped (lines : list chars) : chars := flat_map (fun l => esc3 l ++ [NL]) lines.

Lemma join_nl_cons x r : r <> [] -> join_nl (x :: r) = x ++ NL :: join_nl r.
Proof. destruct r; [congruence | reflexivity]. Qed.

Lemma join_escaped lines : join_nl (map esc3 (lines ++ [[]])) = escaped lines.
Proof.
  unfold escaped. induction lines as [|l ls IH]; [reflexivity|].
  cbn [app map flat_map]. rewrite join_nl_cons by (destruct ls; discriminate).
  rewrite IH, <- app_assoc. reflexivity.
Qed.

Lemma escaped_ends lines : lines <> [] -> ends_with_nl (escaped lines) = true.
Proof.
  intro H. destruct (exists_last H) as (ls & l & ->). unfold escaped, ends_with_nl.
  rewrite flat_map_app. cbn [flat_map]. rewrite app_nil_r, !rev_app_distr. reflexivity.
Qed.

Lemma lines_keep_line l r : has NL l = false -> lines_keep (l ++ NL :: r) = (l ++ [NL]) :: lines_keep r.
Proof.
  induction l as [|c l IH]; intro H.
  - cbn [app lines_keep]. rewrite ceq_refl. reflexivity.
  - apply has_cons_false in H as [H1 H2]. cbn [app lines_keep]. rewrite H1, IH by exact H2. reflexivity.
Qed.

(* one line of the emitted text / of its value *)
Definition pad (k : nat) (l : chars) : chars := match l with [] => [] | _ => spaces k end.

Lemma only_nl_esc3 l : only_nl (esc3 l ++ [NL]) = match l with [] => true | _ => false end.
Proof.
  destruct l as [|c r]; [reflexivity|].
  pose proof (esc3_length (c :: r)) as Hl. pose proof (esc3_no_nl (c :: r)) as Hn.
  destruct (esc3 (c :: r)) as [|x t]; [simpl in Hl; lia|].
  apply has_cons_false in Hn as [Hx _]. unfold only_nl. cbn [app forallb].
  unfold ceq in *. rewrite Ascii.eqb_sym, Hx. reflexivity.
Qed.
Definition emitted (k : nat) (lines : list chars) : chars :=
  flat_map (fun l => pad k l ++ esc3 l ++ [NL]) lines.
Definition indented (k : nat) (lines : list chars) : chars :=
  flat_map (fun l => pad k l ++ l ++ [NL]) lines.
(* the value of the embedded literal: line feed, the lines (each non-blank one behind k blanks), k blanks *)
Definition embedded (k : nat) (lines : list chars) : chars := NL :: indented k lines ++ spaces k.

Lemma indent_escaped k lines :
  indent_text (spaces k) (escaped lines ++ DQ3) = emitted k lines ++ spaces k ++ DQ3.
Proof.
  unfold indent_text, emitted, escaped. induction lines as [|l ls IH].
  - cbn. rewrite app_nil_r. reflexivity.
  - cbn [flat_map]. rewrite <- !app_assoc. cbn [app]. rewrite lines_keep_line by apply esc3_no_nl.
    cbn [flat_map]. rewrite IH, only_nl_esc3. unfold pad. destruct l; cbn [app];
      rewrite <- ?app_assoc; reflexivity.
Qed.

Lemma convert_pieces lines k off : lines <> [] -> Forall (fun l => has NL l = false) lines ->
  convert (pieces lines) k off
  = Some (DQ3 ++ NL :: emitted (k + off) lines ++ spaces (k + off) ++ DQ3).
Proof.
  intros Hne Hn. unfold convert. rewrite literal_eval_pieces by exact Hne.
  rewrite split_nl_joined by exact Hn. rewrite join_escaped. unfold finish.
  rewrite escaped_ends by exact Hne. rewrite indent_escaped. reflexivity.
Qed.

(* ---------------------------------------------------------------- evaluation of the emitted literal *)
Lemma nl_step r f : eval_triple (S f) (NL :: r) = lift [NL] (eval_triple f r).
Proof. reflexivity. Qed.

Lemma sp_step r f : eval_triple (S f) (SP :: r) = lift [SP] (eval_triple f r).
Proof. reflexivity. Qed.

Lemma eval_spaces k r f : eval_triple (k + f) (spaces k ++ r) = lift (spaces k) (eval_triple f r).
Proof.
  induction k as [|k IH]; [cbn; rewrite lift_nil; reflexivity|].
  cbn [Nat.add spaces repeat app]. rewrite sp_step. fold (spaces k). rewrite IH.
  destruct (eval_triple f r); reflexivity.
Qed.

Lemma eval_line k l r f :
  eval_triple (List.length (pad k l ++ l ++ [NL]) + f) ((pad k l ++ esc3 l ++ [NL]) ++ r)
  = lift (pad k l ++ l ++ [NL]) (eval_triple f r).
Proof.
  assert (H : forall g, eval_triple (List.length l + S g) (esc3 l ++ NL :: r) = lift (l ++ [NL]) (eval_triple g r)).
  { intro g. rewrite eval_esc3, nl_step. rewrite <- lift_app. reflexivity. }
  assert (Hp : pad k l = [] \/ pad k l = spaces k) by (unfold pad; destruct l; auto).
  destruct Hp as [-> | ->].
  - cbn [app]. rewrite app_length. cbn [List.length]. rewrite <- app_assoc. cbn [app].
    replace (List.length l + 1 + f) with (List.length l + S f) by lia. apply H.
  - rewrite !app_length. cbn [List.length]. rewrite <- !app_assoc. cbn [app].
    replace (List.length (spaces k) + (List.length l + 1) + f)
      with (List.length (spaces k) + (List.length l + S f)) by lia.
    unfold spaces at 1. rewrite repeat_length. rewrite eval_spaces, H, <- lift_app. reflexivity.
Qed.

Lemma eval_emitted k lines r f :
  eval_triple (List.length (indented k lines) + f) (emitted k lines ++ r)
  = lift (indented k lines) (eval_triple f r).
Proof.
  unfold indented, emitted. induction lines as [|l ls IH].
  - cbn. rewrite lift_nil. reflexivity.
  - cbn [flat_map]. rewrite app_length, <- Nat.add_assoc, <- app_assoc.
    rewrite eval_line, IH, <- lift_app. reflexivity.
Qed.

Lemma emitted_length k lines : List.length (indented k lines) <= List.length (emitted k lines).
Proof.
  unfold indented, emitted. induction lines as [|l ls IH]; cbn [flat_map]; [lia|].
  rewrite !app_length. pose proof (esc3_length l). cbn [List.length]. lia.
Qed.

Lemma skip_blanks_dq3 f paren r : skip_blanks (S f) paren (DQ3 ++ r) = DQ3 ++ r.
Proof. destruct paren; reflexivity. Qed.

Lemma eval_embedded k lines suf paren : suf = [] \/ suf = [")"] ->
  forall F, List.length (DQ3 ++ NL :: emitted k lines ++ spaces k ++ DQ3 ++ suf) <= F ->
  eval_literals (S F) false paren (DQ3 ++ NL :: emitted k lines ++ spaces k ++ DQ3 ++ suf)
  = EvOk (embedded k lines) suf.
Proof.
  intros Hsuf F HF. rewrite eval_literals_S. cbv zeta. rewrite !skip_blanks_dq3, is_prefix_app.
  change (skipn 3 (DQ3 ++ NL :: emitted k lines ++ spaces k ++ DQ3 ++ suf))
    with (NL :: emitted k lines ++ spaces k ++ DQ3 ++ suf).
  assert (E : eval_triple (S (List.length (indented k lines) + (k + 1))) (NL :: emitted k lines ++ spaces k ++ DQ3 ++ suf)
              = EvOk (embedded k lines) suf).
  { rewrite nl_step, eval_emitted, eval_spaces. cbn [Nat.add]. rewrite eval_triple_S, is_prefix_app.
    change (skipn 3 (DQ3 ++ suf)) with suf. unfold embedded. cbn [lift]. rewrite !app_nil_r. reflexivity. }
  rewrite (eval_triple_mono _ _ _ _ E).
  - destruct F as [|F]; [unfold DQ3 in HF; cbn [app List.length] in HF; lia|].
    rewrite eval_literals_end by exact Hsuf. rewrite app_nil_r. reflexivity.
  - pose proof (emitted_length k lines). unfold DQ3. cbn [app List.length]. rewrite !app_length.
    unfold spaces. rewrite repeat_length. cbn [List.length]. lia.
Qed.

(* ---------------------------------------------------------------- format_line on the statement *)
Record good_prefix (a b : chars) : Prop :=
  { gp_eq : has EQc a = false; gp_qa : noq a = true; gp_qb : noq b = true }.

Lemma noq_prefix a b : good_prefix a b -> noq (a ++ EQc :: b) = true.
Proof.
  intros [_ Ha Hb]. unfold noq in *. rewrite forallb_app, Ha. cbn [forallb andb]. rewrite Hb. reflexivity.
Qed.

Lemma leading_ws_prefix a b x : leading_ws ((a ++ EQc :: b) ++ x) = leading_ws (a ++ EQc :: b).
Proof.
  unfold leading_ws. f_equal. induction a as [|c a IH]; cbn [app take_while].
  - reflexivity.
  - destruct (is_ws c); [rewrite IH|]; reflexivity.
Qed.

Lemma format_iter_S f rest cur off :
  format_iter (S f) rest cur off =
  match find_match rest with
  | None => Some cur
  | Some (_, rest') =>
      match quoted_span rest with
      | Some span =>
          if occurs span cur then
            match convert span (leading_ws rest) off with
            | Some new => format_iter f rest' (replace_all (S (List.length cur)) cur span new) off
            | None => None
            end
          else format_iter f rest' cur off
      | None => format_iter f rest' cur off
      end
  end.
Proof. reflexivity. Qed.

Lemma noq_suf suf : suf = [] \/ suf = [")"] -> noq suf = true.
Proof. intros [-> | ->]; reflexivity. Qed.

Definition emitted_stmt (pre suf : chars) (k : nat) (lines : list chars) : chars :=
  pre ++ (DQ3 ++ NL :: emitted k lines ++ spaces k ++ DQ3) ++ suf.

Lemma occurs_app old a b : occurs old (a ++ old ++ b) = true.
Proof.
  induction a as [|c a IH]; cbn [app].
  - destruct (old ++ b) eqn:E; cbn [occurs]; rewrite <- ?E, is_prefix_app; reflexivity.
  - cbn [occurs]. rewrite IH. apply orb_true_r.
Qed.

(* ---------------------------------------------------------------- backslash runs: why later matches change nothing *)
(* [oddn p l]: somewhere in l an n follows a maximal run of backslashes of odd length (p: the parity of the
   run that is open where l starts).  True of every span the regex can pick after the first rewrite (it
   ends with the backslash-n of a repr'd line), false of the rewritten text (there a backslash before an n
   is always the second half of an escaped backslash). *)
Fixpoint oddn (p : bool) (l : chars) : bool :=
  match l with
  | [] => false
  | c :: r => if ceq c BS then oddn (negb p) r else (p && ceq c "n") || oddn false r
  end.

Fixpoint endpar (p : bool) (l : chars) : bool :=
  match l with
  | [] => p
  | c :: r => if ceq c BS then endpar (negb p) r else endpar false r
  end.

Lemma oddn_app p a b : oddn p (a ++ b) = oddn p a || oddn (endpar p a) b.
Proof.
  revert p. induction a as [|c a IH]; intro p; cbn [app oddn endpar]; [reflexivity|].
  destruct (ceq c BS); [apply IH|]. rewrite IH, orb_assoc. reflexivity.
Qed.

Lemma endpar_app p a b : endpar p (a ++ b) = endpar (endpar p a) b.
Proof.
  revert p. induction a as [|c a IH]; intro p; cbn [app endpar]; [reflexivity|].
  destruct (ceq c BS); apply IH.
Qed.

Lemma oddn_nobs p l : has BS l = false -> oddn p l = match l with c :: _ => p && ceq c "n" | [] => false end.
Proof.
  revert p. induction l as [|c l IH]; intros p H; [reflexivity|].
  apply has_cons_false in H as [H1 H2]. cbn [oddn]. rewrite H1, (IH false H2).
  destruct l; cbn; rewrite ?orb_false_r; reflexivity.
Qed.

Lemma endpar_nobs p l : has BS l = false -> endpar p l = match l with [] => p | _ => false end.
Proof.
  revert p. induction l as [|c l IH]; intros p H; [reflexivity|].
  apply has_cons_false in H as [H1 H2]. cbn [endpar]. rewrite H1, (IH false H2). destruct l; reflexivity.
Qed.

(* an occurrence that starts with a character other than the backslash carries its odd run with it *)
Lemma occurs_split old : forall src, occurs old src = true -> exists u v, src = u ++ old ++ v.
Proof.
  induction src as [|c r IH]; cbn [occurs]; intro H.
  - rewrite orb_false_r in H. destruct old; [exists [], []; reflexivity | discriminate].
  - apply orb_true_iff in H as [H|H].
    + exists []. clear IH. revert H. generalize (c :: r). induction old as [|x old IHo]; intros l H.
      * exists l. reflexivity.
      * destruct l as [|y l]; [discriminate|]. cbn [is_prefix] in H. apply andb_true_iff in H as [H1 H2].
        apply ceq_eq in H1. subst. destruct (IHo l H2) as [v E]. exists v. cbn [app] in *. rewrite E. reflexivity.
    + destruct (IH H) as (u & v & E). exists (c :: u), v. rewrite E. reflexivity.
Qed.

Lemma oddn_infix q0 z src : ceq q0 BS = false -> oddn false z = true -> oddn false src = false ->
  occurs (q0 :: z) src = false.
Proof.
  intros Hq Hz Hs. destruct (occurs (q0 :: z) src) eqn:E; [|reflexivity].
  apply occurs_split in E as (u & v & ->). exfalso.
  rewrite oddn_app in Hs. apply orb_false_iff in Hs as [_ Hs].
  cbn [app oddn] in Hs. rewrite Hq in Hs. apply orb_false_iff in Hs as [_ Hs].
  rewrite oddn_app, Hz in Hs. discriminate.
Qed.

(* --- the rewritten text has no odd run before an n --- *)
Lemma esc_char_oddn c r : c <> NL -> oddn false (esc_char c ++ r) = oddn false r.
Proof.
  intro H. destruct c as [[] [] [] [] [] [] [] []]; try reflexivity. exfalso. apply H. reflexivity.
Qed.

Lemma esc3_oddn : forall l r, has NL l = false -> oddn false (esc3 l ++ r) = oddn false r.
Proof.
  apply (esc3_ind (fun l => forall r, has NL l = false -> oddn false (esc3 l ++ r) = oddn false r)).
  - reflexivity.
  - intros l IH r H. rewrite esc3_triple. cbn [app]. cbn [oddn]. cbn. apply IH.
    apply has_cons_false in H as [_ H]. apply has_cons_false in H as [_ H]. apply has_cons_false in H as [_ H]. exact H.
  - intros c l E IH r H. apply has_cons_false in H as [H1 H2]. rewrite esc3_other by exact E.
    rewrite <- app_assoc, esc_char_oddn by (apply ceq_neq; exact H1). apply IH. exact H2.
Qed.

Lemma spaces_oddn k r : oddn false (spaces k ++ r) = oddn false r.
Proof. induction k as [|k IH]; [reflexivity|]. cbn [spaces repeat app oddn]. cbn. exact IH. Qed.

Lemma emitted_oddn k lines r : Forall (fun l => has NL l = false) lines ->
  oddn false (emitted k lines ++ r) = oddn false r.
Proof.
  unfold emitted. induction 1 as [|l ls H1 H2 IH]; [reflexivity|].
  cbn [flat_map]. rewrite <- !app_assoc.
  assert (Hp : forall x, oddn false (pad k l ++ x) = oddn false x)
    by (intro x; unfold pad; destruct l; [reflexivity | apply spaces_oddn]).
  rewrite Hp, esc3_oddn by exact H1. cbn [app oddn]. cbn. exact IH.
Qed.

Lemma emitted_stmt_oddn pre suf k lines :
  has BS pre = false -> has BS suf = false -> Forall (fun l => has NL l = false) lines ->
  oddn false (emitted_stmt pre suf k lines) = false.
Proof.
  intros Hp Hs Hn. unfold emitted_stmt. rewrite oddn_app, (oddn_nobs false pre Hp).
  assert (E0 : (match pre with c :: _ => false && ceq c "n" | [] => false end) = false) by (destruct pre; reflexivity).
  rewrite E0. cbn [orb].
  assert (Ep : endpar false pre = false) by (rewrite endpar_nobs by exact Hp; destruct pre; reflexivity).
  rewrite Ep. unfold DQ3. repeat (rewrite <- app_assoc; cbn [app]). cbn [oddn]. cbn.
  rewrite emitted_oddn by exact Hn. rewrite spaces_oddn. cbn [app oddn]. cbn.
  rewrite (oddn_nobs false suf Hs). destruct suf; reflexivity.
Qed.
(* --- every span picked after the first rewrite ends with an odd run before an n --- *)
Lemma repr_char_tail q x : q = SQ \/ q = DQ -> x <> BS ->
  exists T y, repr_char q x = T ++ [y] /\ ceq y BS = false.
Proof.
  intros [-> | ->] H; destruct x as [[] [] [] [] [] [] [] []];
    try (exfalso; apply H; reflexivity);
    first [ exists [] ; eexists; split; reflexivity
          | exists [BS]; eexists; split; reflexivity
          | exists [BS; "x"%char; "0"%char]; eexists; split; reflexivity
          | exists [BS; "x"%char; "1"%char]; eexists; split; reflexivity
          | exists [BS; "x"%char; "7"%char]; eexists; split; reflexivity ].
Qed.

Lemma repeat_snoc2 {X} (x : X) j : repeat x (2 * j) ++ [x; x] = repeat x (2 * S j).
Proof.
  replace (2 * S j) with (2 * j + 2) by lia. rewrite repeat_app. reflexivity.
Qed.

Lemma tail_dec q : q = SQ \/ q = DQ -> forall l,
  exists M c j, q :: flat_map (repr_char q) l = M ++ c :: repeat BS (2 * j) /\ ceq c BS = false.
Proof.
  intros Hq l. induction l as [|x l IH] using rev_ind.
  - exists [], q, 0. split; [reflexivity | destruct Hq as [-> | ->]; reflexivity].
  - destruct IH as (M & c & j & E & Hc). rewrite flat_map_app. cbn [flat_map]. rewrite app_nil_r.
    rewrite app_comm_cons, E.
    destruct (ceq x BS) eqn:Ex.
    + apply ceq_eq in Ex. subst x. exists M, c, (S j). split; [|exact Hc].
      replace (repr_char q BS) with [BS; BS] by (destruct Hq as [-> | ->]; reflexivity).
      rewrite <- app_assoc. cbn [app]. rewrite repeat_snoc2. reflexivity.
    + destruct (repr_char_tail q x Hq) as (T & y & Et & Hy); [apply ceq_neq; exact Ex|].
      exists ((M ++ c :: repeat BS (2 * j)) ++ T), y, 0. rewrite Et. split; [|exact Hy].
      cbn [repeat Nat.mul]. rewrite app_assoc. reflexivity.
Qed.

Lemma body_tail l : body l = flat_map (repr_char (rq l)) l ++ [BS; "n"].
Proof.
  unfold body. rewrite flat_map_app. cbn [flat_map]. rewrite app_nil_r.
  destruct (rq_cases l) as [E|E]; rewrite E; reflexivity.
Qed.

(* the constants end with: a character other than the backslash, an even run, backslash n quote *)
Lemma pieces_tail lines : lines <> [] ->
  exists M c j q2, pieces lines = (M ++ [c]) ++ (repeat BS (2 * j) ++ [BS; "n"; q2])
                   /\ ceq c BS = false /\ isq q2 = true.
Proof.
  intro Hne. destruct (exists_last Hne) as (ls & l & ->).
  unfold pieces. rewrite flat_map_app. cbn [flat_map]. rewrite app_nil_r, piece_eq, body_tail.
  destruct (tail_dec (rq l) (rq_cases l) l) as (M & c & j & E & Hc).
  exists (flat_map piece ls ++ M), c, j, (rq l). split; [|split; [exact Hc | apply isq_q, rq_cases]].
  rewrite app_comm_cons, <- app_assoc, app_comm_cons, E.
  repeat (rewrite <- app_assoc; cbn [app]). reflexivity.
Qed.

Lemma oddn_even_run p j r : oddn p (repeat BS (2 * j) ++ r) = oddn p r.
Proof.
  induction j as [|j IH]; [reflexivity|].
  replace (2 * S j) with (S (S (2 * j))) by lia. cbn [repeat app].
  change (oddn p (BS :: BS :: repeat BS (2 * j) ++ r)) with (oddn (negb (negb p)) (repeat BS (2 * j) ++ r)).
  rewrite negb_involutive. exact IH.
Qed.

Lemma endpar_snoc p x c : ceq c BS = false -> endpar p (x ++ [c]) = false.
Proof. intro H. rewrite endpar_app. cbn [endpar]. rewrite H. reflexivity. Qed.

Lemma isq_not_bs q : isq q = true -> ceq q BS = false.
Proof.
  unfold isq. intro H. apply orb_true_iff in H as [H|H]; apply ceq_eq in H; subst; reflexivity.
Qed.

Lemma noq_app a b : noq (a ++ b) = noq a && noq b.
Proof. unfold noq. apply forallb_app. Qed.

Lemma noq_In l x : noq l = true -> In x l -> isq x = false.
Proof. unfold noq. rewrite forallb_forall. intros H Hx. apply negb_true_iff. apply H. exact Hx. Qed.

(* a suffix of the constants that starts with a quote and goes on *)
Lemma suffix_oddn lines W q0 Z : lines <> [] -> pieces lines = W ++ q0 :: Z -> isq q0 = true -> Z <> [] ->
  oddn false Z = true.
Proof.
  intros Hne E Hq HZ. destruct (pieces_tail lines Hne) as (M & c & j & q2 & Ep & Hc & Hq2).
  rewrite Ep in E. set (Rr := repeat BS (2 * j) ++ [BS; "n"%char; q2]) in *.
  assert (HRr : oddn false Rr = true).
  { unfold Rr. rewrite oddn_even_run. cbn [oddn]. rewrite ceq_refl. cbn. reflexivity. }
  assert (Hnoq : noq (repeat BS (2 * j) ++ [BS; "n"%char]) = true).
  { rewrite noq_app. apply andb_true_iff. split; [|reflexivity].
    unfold noq. apply forallb_forall. intros x Hx. apply repeat_spec in Hx. subst. reflexivity. }
  symmetry in E. apply app_eq_app in E as [l' [[E1 E2]|[E1 E2]]].
  - (* the quote lies in the tail: it can only be the last character *)
    exfalso. unfold Rr in E2.
    replace (repeat BS (2 * j) ++ [BS; "n"%char; q2]) with ((repeat BS (2 * j) ++ [BS; "n"%char]) ++ [q2]) in E2
      by (rewrite <- app_assoc; reflexivity).
    apply app_eq_app in E2 as [l2 [[E3 E4]|[E3 E4]]].
    + destruct l2 as [|y l2]; cbn [app] in E4.
      * inversion E4. subst. apply HZ. reflexivity.
      * inversion E4; subst y. assert (Hin : In q0 (repeat BS (2 * j) ++ [BS; "n"%char])).
        { rewrite E3. apply in_or_app. right. left. reflexivity. }
        rewrite (noq_In _ _ Hnoq Hin) in Hq. discriminate.
    + destruct l2 as [|y l2]; cbn [app] in E4.
      * inversion E4. subst. apply HZ. reflexivity.
      * inversion E4 as [[E5 E6]]. destruct l2; discriminate.
  - (* the quote lies before the tail *)
    destruct l' as [|y l']; cbn [app] in E2.
    + exfalso. unfold Rr in E2. assert (Hb : q0 = BS) by (destruct j; cbn in E2; inversion E2; reflexivity).
      subst q0. discriminate.
    + inversion E2; subst y Z. rewrite oddn_app. apply orb_true_iff. right.
      assert (Hend : endpar false l' = false).
      { destruct l' as [|z l' _] using rev_ind; [reflexivity|].
        assert (E3 : M ++ [c] = (W ++ q0 :: l') ++ [z]) by (rewrite E1, <- app_assoc; reflexivity).
        apply app_inj_tail in E3 as [_ <-]. apply endpar_snoc. exact Hc. }
      rewrite Hend. exact HRr.
Qed.

(* ---------------------------------------------------------------- when does the regex match exactly once *)
(* lines without a single quote: every constant is '...' with no quote inside, the greedy chain of
   groups takes all of them and nothing is left to match *)
Definition Q (b : chars) : chars := SQ :: b ++ [SQ].

Lemma upto_app c a r : has c a = false -> upto c (a ++ c :: r) = Some (a ++ [c], r).
Proof.
  induction a as [|x a IH]; simpl; intro H.
  - rewrite ceq_refl. reflexivity.
  - apply has_cons_false in H as [H1 H2]. rewrite H1, IH by exact H2. reflexivity.
Qed.

Lemma upto_none c l : has c l = false -> upto c l = None.
Proof.
  induction l as [|x l IH]; simpl; intro H; [reflexivity|].
  apply has_cons_false in H as [H1 H2]. rewrite H1, IH by exact H2. reflexivity.
Qed.

Lemma next_group_Q b rest : has SQ b = false -> next_group (Q b ++ rest) = Some (Q b, rest).
Proof.
  intro H. unfold next_group, Q. simpl.
  replace ((b ++ [SQ]) ++ rest) with (b ++ SQ :: rest) by (rewrite <- app_assoc; reflexivity).
  rewrite upto_app by exact H. reflexivity.
Qed.

Lemma next_group_none l : has SQ l = false -> next_group l = None.
Proof.
  intro H. unfold next_group.
  destruct (drop_while is_ws l) as [|c r] eqn:E; [reflexivity|].
  assert (Hin : In c l).
  { clear H. revert E. induction l as [|x l IH]; simpl; [discriminate|].
    destruct (is_ws x); intro E; [right; apply IH; exact E | inversion E; left; reflexivity]. }
  destruct (ceq c SQ) eqn:Ec; [|reflexivity].
  apply ceq_eq in Ec. subst. exfalso. exact (proj1 (has_false SQ l) H SQ Hin eq_refl).
Qed.

Lemma find_j_skip x g r rest : has SQ x = false -> next_group r = Some (g, rest) ->
  find_j (x ++ SQ :: r) = Some (x ++ SQ :: g, rest).
Proof.
  intros Hx Hg. induction x as [|c x IH]; simpl.
  - rewrite Hg. reflexivity.
  - apply has_cons_false in Hx as [H1 H2]. rewrite H1, IH by exact H2. reflexivity.
Qed.

Lemma chain_S f l : chain (S f) l = match next_group l with
                                     | Some (g, rest) => let '(a, b) := chain f rest in (g ++ a, b)
                                     | None => ([], l)
                                     end.
Proof. reflexivity. Qed.

Lemma chain_Q bs suf : Forall (fun b => has SQ b = false) bs -> has SQ suf = false ->
  forall fuel, List.length bs <= fuel -> chain fuel (flat_map Q bs ++ suf) = (flat_map Q bs, suf).
Proof.
  intros Hl Hs. induction Hl as [|l ls H1 H2 IH]; intros fuel Hf; cbn [flat_map].
  - destruct fuel; [reflexivity|]. rewrite chain_S. simpl app. rewrite next_group_none by exact Hs. reflexivity.
  - destruct fuel as [|fuel]; [simpl in Hf; lia|]. rewrite chain_S.
    rewrite <- app_assoc. rewrite next_group_Q by exact H1.
    rewrite IH by (simpl in Hf; lia). reflexivity.
Qed.

Lemma find_match_gen a b x1 g2 R gs r3 :
  has EQc a = false -> has SQ b = false -> has SQ x1 = false ->
  next_group (g2 ++ R) = Some (g2, R) -> chain (List.length R) R = (gs, r3) ->
  find_match (a ++ EQc :: b ++ SQ :: x1 ++ SQ :: g2 ++ R)
  = Some ((a ++ [EQc]) ++ (b ++ [SQ]) ++ (x1 ++ SQ :: g2) ++ gs ++ take_while is_ws r3,
          drop_while is_ws r3).
Proof.
  intros He Hb Hx Hg Hc. unfold find_match.
  rewrite upto_app by exact He. rewrite upto_app by exact Hb.
  rewrite (find_j_skip x1 g2 (g2 ++ R) R Hx Hg). rewrite Hc. reflexivity.
Qed.

Lemma upto_rest_incl c : forall l a r, upto c l = Some (a, r) -> incl r l.
Proof.
  induction l as [|y l IH]; simpl; intros a r E; [discriminate|].
  destruct (ceq y c).
  - inversion E; subst. intros x Hx. right. exact Hx.
  - destruct (upto c l) as [[a' b']|] eqn:E'; [|discriminate]. inversion E; subst.
    intros x Hx. right. eapply IH; [reflexivity | exact Hx].
Qed.

Lemma find_match_none l : has SQ l = false -> find_match l = None.
Proof.
  intro H. unfold find_match. destruct (upto EQc l) as [[a r0]|] eqn:E; [|reflexivity].
  assert (Hr : has SQ r0 = false).
  { apply has_false. intros x Hx. apply (proj1 (has_false SQ l) H). eapply upto_rest_incl; eassumption. }
  rewrite upto_none by exact Hr. reflexivity.
Qed.

Lemma repr_char_noq c : c <> SQ -> has SQ (repr_char SQ c) = false.
Proof.
  intro H. destruct c as [[] [] [] [] [] [] [] []]; try reflexivity. exfalso. apply H. reflexivity.
Qed.

Lemma piece_noq l : has SQ l = false -> piece l = Q (body l) /\ has SQ (body l) = false.
Proof.
  intro H.
  assert (Hq : rq l = SQ).
  { unfold rq, repr_quote. rewrite has_app, H. reflexivity. }
  split; [rewrite piece_eq, Hq; reflexivity|].
  unfold body. rewrite Hq. apply has_false. intros x Hx. apply in_flat_map in Hx as (c & Hc & Hx).
  assert (Hne : c <> SQ).
  { apply in_app_or in Hc as [Hc|[<-|[]]]; [exact (proj1 (has_false SQ l) H c Hc) | discriminate]. }
  exact (proj1 (has_false SQ _) (repr_char_noq c Hne) x Hx).
Qed.

Lemma pieces_noq lines : Forall (fun l => has SQ l = false) lines ->
  pieces lines = flat_map Q (map body lines) /\ Forall (fun b => has SQ b = false) (map body lines).
Proof.
  unfold pieces. induction 1 as [|l ls H1 H2 [IH1 IH2]]; [split; [reflexivity | constructor]|].
  destruct (piece_noq l H1) as [E Hb]. cbn [flat_map map]. rewrite E, IH1. split; [reflexivity|].
  constructor; assumption.
Qed.

Lemma take_while_incl p l : incl (take_while p l) l.
Proof.
  induction l as [|c l IH]; simpl; [intros x []|]. destruct (p c); [|intros x []].
  intros x [<-|Hx]; [left; reflexivity | right; apply IH; exact Hx].
Qed.

Lemma drop_while_incl p l : incl (drop_while p l) l.
Proof.
  induction l as [|c l IH]; simpl; [intros x []|]. destruct (p c); [|intros x Hx; exact Hx].
  intros x Hx. right. apply IH. exact Hx.
Qed.

Lemma flat_map_Q_length bs : List.length bs <= List.length (flat_map Q bs).
Proof. apply flat_map_length_ge. intro b. unfold Q. simpl. lia. Qed.

Theorem one_match_without_quote a b suf lines :
  good_prefix a b -> suf = [] \/ suf = [")"] -> 2 <= List.length lines ->
  Forall (fun l => has SQ l = false) lines ->
  matches (a ++ EQc :: b) suf lines = 1.
Proof.
  intros Hg Hsuf Hlen Hq. destruct (pieces_noq lines Hq) as [E Hb].
  destruct lines as [|l1 [|l2 ls]]; [simpl in Hlen; lia | simpl in Hlen; lia |].
  cbn [map] in *. inversion Hb as [|? ? Hb1 Hb']; subst. inversion Hb' as [|? ? Hb2 Hb'']; subst.
  assert (Hs : has SQ suf = false) by (destruct Hsuf as [-> | ->]; reflexivity).
  unfold matches, stmt. rewrite E.
  assert (Eshape : (a ++ EQc :: b) ++ flat_map Q (body l1 :: body l2 :: map body ls) ++ suf
                   = a ++ EQc :: b ++ SQ :: body l1 ++ SQ :: Q (body l2) ++ (flat_map Q (map body ls) ++ suf)).
  { cbn [flat_map]. unfold Q at 1. repeat (rewrite <- app_assoc; cbn [app]). reflexivity. }
  rewrite Eshape.
  rewrite (find_match_gen a b (body l1) (Q (body l2)) (flat_map Q (map body ls) ++ suf)
             (flat_map Q (map body ls)) suf).
  - rewrite find_match_none; [reflexivity|].
    eapply has_incl; [apply drop_while_incl | exact Hs].
  - apply Hg.
  - apply noq_has; [apply Hg | reflexivity].
  - exact Hb1.
  - apply next_group_Q. exact Hb2.
  - apply chain_Q; [exact Hb'' | exact Hs |]. rewrite app_length. pose proof (flat_map_Q_length (map body ls)). lia.
Qed.

(* ---------------------------------------------------------------- is the indentation uniform? *)
(* what a block string needs: EVERY non-empty line behind the same k blanks (its common indentation
   then grows by k and the value is unchanged).  Since 2c2512c this is what the rewriter does. *)
Definition uniform (k : nat) (lines : list chars) : chars :=
  NL :: flat_map (fun l => (match l with [] => [] | _ => spaces k end) ++ l ++ [NL]) lines ++ spaces k.

Lemma embedded_uniform k lines : embedded k lines = uniform k lines.
Proof. reflexivity. Qed.

(* ---------------------------------------------------------------- any number of matches *)
Lemma upto_split c : forall l a r, upto c l = Some (a, r) -> l = a ++ r.
Proof.
  induction l as [|y l IH]; simpl; intros a r E; [discriminate|].
  destruct (ceq y c); [inversion E; reflexivity|].
  destruct (upto c l) as [[a' b']|] eqn:E'; [|discriminate]. inversion E; subst. rewrite (IH a' r eq_refl). reflexivity.
Qed.

Lemma take_drop_while p l : take_while p l ++ drop_while p l = l.
Proof. induction l as [|c l IH]; simpl; [reflexivity|]. destruct (p c); simpl; [rewrite IH|]; reflexivity. Qed.

Lemma next_group_split l g r : next_group l = Some (g, r) -> l = g ++ r.
Proof.
  unfold next_group. intro H. rewrite <- (take_drop_while is_ws l) at 1.
  destruct (drop_while is_ws l) as [|c t]; [discriminate|].
  destruct (ceq c SQ); [|discriminate]. destruct (upto SQ t) as [[g' r']|] eqn:E; [|discriminate].
  inversion H; subst. apply upto_split in E. rewrite E, <- app_assoc. reflexivity.
Qed.

Lemma find_j_split : forall l g r, find_j l = Some (g, r) -> l = g ++ r.
Proof.
  induction l as [|c l IH]; simpl; intros g r H; [discriminate|].
  destruct (ceq c SQ).
  - destruct (next_group l) as [[g' r']|] eqn:E.
    + inversion H; subst. apply next_group_split in E. rewrite E. reflexivity.
    + destruct (find_j l) as [[a b]|]; [|discriminate]. inversion H; subst. rewrite (IH a r eq_refl). reflexivity.
  - destruct (find_j l) as [[a b]|]; [|discriminate]. inversion H; subst. rewrite (IH a r eq_refl). reflexivity.
Qed.

Lemma chain_split : forall f l a b, chain f l = (a, b) -> l = a ++ b.
Proof.
  induction f as [|f IH]; intros l a b H; [inversion H; reflexivity|].
  rewrite chain_S in H. destruct (next_group l) as [[g r]|] eqn:E; [|inversion H; reflexivity].
  destruct (chain f r) as [a' b'] eqn:Ec. inversion H; subst. apply next_group_split in E.
  rewrite E, (IH r a' b Ec), app_assoc. reflexivity.
Qed.

Lemma find_match_split l t r : find_match l = Some (t, r) -> l = t ++ r.
Proof.
  unfold find_match. intro H.
  destruct (upto EQc l) as [[a r0]|] eqn:E0; [|discriminate].
  destruct (upto SQ r0) as [[b r1]|] eqn:E1; [|discriminate].
  destruct (find_j r1) as [[g r2]|] eqn:E2; [|discriminate].
  destruct (chain (List.length r2) r2) as [gs r3] eqn:E3. inversion H; subst.
  apply upto_split in E0, E1. apply find_j_split in E2. apply chain_split in E3.
  rewrite E0, E1, E2, E3. rewrite <- (take_drop_while is_ws r3) at 1.
  repeat rewrite <- app_assoc. reflexivity.
Qed.

(* the span: a quote, something, a quote; nothing but non-quotes before and after it *)
Lemma upto_q_spec : forall l a r, upto_q l = Some (a, r) ->
  exists a' q, a = a' ++ [q] /\ isq q = true /\ noq a' = true /\ l = a ++ r.
Proof.
  induction l as [|x l IH]; cbn [upto_q]; intros a r H; [discriminate|].
  destruct (isq x) eqn:Ex.
  - inversion H; subst. exists [], x. repeat split; auto.
  - destruct (upto_q l) as [[a0 b0]|] eqn:E; [|discriminate]. inversion H; subst.
    destruct (IH a0 r eq_refl) as (a' & q & -> & Hq & Hn & ->).
    exists (x :: a'), q. repeat split; auto. cbn [noq forallb]. rewrite Ex. exact Hn.
Qed.

Lemma split_last_q_spec : forall l b c, split_last_q l = Some (b, c) ->
  exists b' q, b = b' ++ [q] /\ isq q = true /\ noq c = true /\ l = b ++ c.
Proof.
  induction l as [|x l IH]; cbn [split_last_q]; intros b c H; [discriminate|].
  destruct (split_last_q l) as [[b0 c0]|] eqn:E.
  - inversion H; subst. destruct (IH b0 c eq_refl) as (b' & q & -> & Hq & Hn & ->).
    exists (x :: b'), q. repeat split; auto.
  - destruct (isq x) eqn:Ex; [|discriminate]. inversion H; subst.
    exists [], x. repeat split; auto.
    clear -E. induction c as [|y c IHc]; [reflexivity|]. cbn [split_last_q] in E.
    destruct (split_last_q c) as [[? ?]|]; [discriminate|]. destruct (isq y) eqn:Ey; [discriminate|].
    cbn [noq forallb]. rewrite Ey. apply IHc. reflexivity.
Qed.

Lemma quoted_span_spec t span : quoted_span t = Some span ->
  exists A q0 Z q2 C, span = q0 :: Z ++ [q2] /\ isq q0 = true /\ isq q2 = true /\ noq C = true /\
                      t = A ++ span ++ C.
Proof.
  unfold quoted_span. intro H. destruct (upto_q t) as [[a r]|] eqn:E1; [|discriminate].
  destruct (split_last_q r) as [[b c]|] eqn:E2; [|discriminate]. inversion H; subst.
  destruct (upto_q_spec _ _ _ E1) as (a' & q & -> & Hq & _ & ->).
  destruct (split_last_q_spec _ _ _ E2) as (b' & q2 & -> & Hq2 & Hn & ->).
  exists a', q, b', q2, c. rewrite last_last. repeat split; auto.
  repeat (rewrite <- app_assoc; cbn [app]). reflexivity.
Qed.

(* the position of the last quote of a text is unique *)
Lemma last_quote_unique x q c x' q' c' :
  isq q = true -> isq q' = true -> noq c = true -> noq c' = true ->
  x ++ q :: c = x' ++ q' :: c' -> x = x' /\ c = c'.
Proof.
  intros Hq Hq' Hc Hc' E.
  assert (R : rev c ++ q :: rev x = rev c' ++ q' :: rev x').
  { apply (f_equal (@rev ascii)) in E. rewrite !rev_app_distr in E. cbn [rev] in E.
    rewrite <- !app_assoc in E. exact E. }
  assert (G : forall a a' r r', noq a = true -> noq a' = true -> a ++ q :: r = a' ++ q' :: r' -> a = a' /\ r = r').
  { induction a as [|y a IH]; intros [|y' a'] r r' Ha Ha' Ea; cbn [app] in Ea.
    - inversion Ea. auto.
    - inversion Ea; subst. cbn [noq forallb] in Ha'. rewrite Hq in Ha'. discriminate.
    - inversion Ea; subst. cbn [noq forallb] in Ha. rewrite Hq' in Ha. discriminate.
    - inversion Ea; subst. cbn [noq forallb] in Ha, Ha'. apply andb_true_iff in Ha as [_ Ha], Ha' as [_ Ha'].
      destruct (IH a' r r' Ha Ha' H1) as [-> ->]. auto. }
  assert (Hrc : forall l, noq l = true -> noq (rev l) = true).
  { intros l Hl. unfold noq in *. rewrite forallb_forall in *. intros y Hy. apply Hl. apply in_rev. exact Hy. }
  destruct (G _ _ _ _ (Hrc c Hc) (Hrc c' Hc') R) as [E1 E2].
  split; [apply (f_equal (@rev ascii)) in E2 | apply (f_equal (@rev ascii)) in E1]; rewrite !rev_involutive in *; assumption.
Qed.

(* a suffix of pre ++ P that starts with a quote is a suffix of P (no quote in pre) *)
Lemma suffix_past_prefix : forall pre U P q0 Z, noq pre = true -> isq q0 = true ->
  U ++ q0 :: Z = pre ++ P -> exists W, P = W ++ q0 :: Z.
Proof.
  induction pre as [|c pre IH]; intros U P q0 Z Hn Hq E; cbn [app] in E.
  - exists U. symmetry. exact E.
  - cbn [noq forallb] in Hn. apply andb_true_iff in Hn as [Hc Hn]. destruct U as [|u U]; cbn [app] in E.
    + inversion E; subst. rewrite Hq in Hc. discriminate.
    + inversion E; subst. eapply IH; eassumption.
Qed.

(* what the regex can pick in any suffix of the statement does not occur in the rewritten statement *)
Lemma later_span_absent pre suf k lines W rest span :
  noq pre = true -> has BS pre = false -> suf = [] \/ suf = [")"] -> lines <> [] ->
  Forall (fun l => has NL l = false) lines ->
  stmt pre suf lines = W ++ rest -> quoted_span rest = Some span ->
  occurs span (emitted_stmt pre suf k lines) = false.
Proof.
  intros Hp Hb Hsuf Hne Hn Est Hsp.
  destruct (quoted_span_spec _ _ Hsp) as (A & q0 & Z & q2 & C & -> & Hq0 & Hq2 & HC & Er).
  destruct (pieces_ends lines Hne) as (p1 & x & p2 & Ep & Hp1 & Hp2).
  assert (Hs : noq suf = true) by (apply noq_suf; exact Hsuf).
  (* both decompositions end with "last quote, then no quote" *)
  assert (E : (W ++ A ++ q0 :: Z) ++ q2 :: C = (pre ++ p1 :: x) ++ p2 :: suf).
  { unfold stmt in Est. rewrite Ep, Er in Est.
    transitivity (W ++ A ++ (q0 :: Z ++ [q2]) ++ C);
      [repeat (rewrite <- app_assoc; cbn [app]); reflexivity|].
    rewrite <- Est. repeat (rewrite <- app_assoc; cbn [app]). reflexivity. }
  destruct (last_quote_unique _ _ _ _ _ _ Hq2 Hp2 HC Hs E) as [E1 _].
  pose proof E as E0. rewrite E1 in E0. apply app_inv_head in E0. injection E0 as Eq _.
  rewrite <- Eq in *. clear Eq.
  assert (E2 : (W ++ A) ++ q0 :: Z ++ [q2] = pre ++ pieces lines).
  { rewrite Ep. transitivity ((pre ++ p1 :: x) ++ [q2]); [|rewrite <- app_assoc; reflexivity].
    rewrite <- E1. repeat (rewrite <- app_assoc; cbn [app]). reflexivity. }
  destruct (suffix_past_prefix _ _ _ _ _ Hp Hq0 E2) as [W' EW].
  apply oddn_infix.
  - apply isq_not_bs. exact Hq0.
  - eapply suffix_oddn; [exact Hne | exact EW | exact Hq0 | destruct Z; discriminate].
  - apply emitted_stmt_oddn; [exact Hb | destruct Hsuf as [-> | ->]; reflexivity | exact Hn].
Qed.

(* once rewritten, the statement stays as it is through every further match *)
Lemma format_iter_stable pre suf k lines off :
  noq pre = true -> has BS pre = false -> suf = [] \/ suf = [")"] -> lines <> [] ->
  Forall (fun l => has NL l = false) lines ->
  forall fuel W rest, stmt pre suf lines = W ++ rest ->
  format_iter fuel rest (emitted_stmt pre suf k lines) off = Some (emitted_stmt pre suf k lines).
Proof.
  intros Hp Hb Hsuf Hne Hn. induction fuel as [|fuel IH]; intros W rest E; [reflexivity|].
  rewrite format_iter_S. destruct (find_match rest) as [[t rest']|] eqn:Em; [|reflexivity].
  assert (E' : stmt pre suf lines = (W ++ t) ++ rest').
  { rewrite E, (find_match_split _ _ _ Em), app_assoc. reflexivity. }
  destruct (quoted_span rest) as [span|] eqn:Es; [|apply (IH _ _ E')].
  rewrite (later_span_absent pre suf k lines W rest span) by assumption. apply (IH _ _ E').
Qed.

Lemma format_line_all a b suf off lines :
  good_prefix a b -> has BS (a ++ EQc :: b) = false -> suf = [] \/ suf = [")"] -> lines <> [] ->
  Forall (fun l => has NL l = false) lines ->
  let pre := a ++ EQc :: b in
  format_line (stmt pre suf lines) off
  = Some (match find_match (stmt pre suf lines) with
          | None => stmt pre suf lines
          | Some _ => emitted_stmt pre suf (leading_ws pre + off) lines
          end).
Proof.
  intros Hg Hb Hsuf Hne Hn pre. unfold format_line.
  assert (Hnq : noq pre = true) by (apply noq_prefix; exact Hg).
  destruct (pieces_ends lines Hne) as (q1 & x & q2 & E & H1 & H2).
  assert (Hlen : exists n, List.length (stmt pre suf lines) = S n).
  { unfold stmt. rewrite E. exists (List.length pre + List.length (x ++ [q2]) + List.length suf).
    rewrite !app_length. cbn [List.length]. rewrite app_length. cbn [List.length]. lia. }
  destruct Hlen as [n Hlen]. rewrite Hlen. rewrite format_iter_S.
  destruct (find_match (stmt pre suf lines)) as [[t rest']|] eqn:E1; [|reflexivity].
  unfold stmt at 1. rewrite quoted_span_stmt; [| exact Hnq | apply noq_suf; exact Hsuf | exact Hne].
  unfold stmt at 1. rewrite occurs_app.
  unfold stmt at 1, pre at 1. rewrite leading_ws_prefix. fold pre.
  rewrite convert_pieces by assumption.
  assert (Er : replace_all (S (List.length (stmt pre suf lines))) (stmt pre suf lines) (pieces lines)
                 (DQ3 ++ NL :: emitted (leading_ws pre + off) lines ++ spaces (leading_ws pre + off) ++ DQ3)
               = emitted_stmt pre suf (leading_ws pre + off) lines).
  { unfold stmt, emitted_stmt. rewrite E.
    match goal with
    | |- replace_all ?F _ _ ?N = _ => pose proof (replace_all_stmt pre q1 (x ++ [q2]) suf N F) as R
    end.
    apply R.
    - apply noq_has; [exact Hnq | exact H1].
    - apply noq_has; [apply noq_suf; exact Hsuf | exact H1].
    - rewrite app_length. lia. }
  rewrite Er.
  apply (format_iter_stable pre suf (leading_ws pre + off) lines off Hnq Hb Hsuf Hne Hn (S n) t rest').
  apply find_match_split. exact E1.
Qed.

(* ---------------------------------------------------------------- the round trip, every list of lines *)
Theorem embed_roundtrip_all a b suf paren off lines :
  good_prefix a b -> has BS (a ++ EQc :: b) = false -> suf = [] \/ suf = [")"] -> lines <> [] ->
  Forall (fun l => has NL l = false) lines ->
  let pre := a ++ EQc :: b in
  embed pre suf paren off lines
  = EvOk (match find_match (stmt pre suf lines) with
          | None => joined lines
          | Some _ => embedded (leading_ws pre + off) lines
          end) suf.
Proof.
  intros Hg Hb Hsuf Hne Hn pre. unfold embed.
  pose proof (format_line_all a b suf off lines Hg Hb Hsuf Hne Hn) as F. cbv zeta in F. fold pre in F.
  rewrite F.
  destruct (find_match (stmt pre suf lines)) as [[t r]|].
  - unfold eval_stmt, emitted_stmt. rewrite is_prefix_app, skipn_app_exact.
    set (k := leading_ws pre + off).
    match goal with
    | |- eval_literals _ _ _ ?T = _ =>
        assert (E : T = DQ3 ++ NL :: emitted k lines ++ spaces k ++ DQ3 ++ suf)
          by (repeat (rewrite <- app_assoc; cbn [app]); reflexivity);
        rewrite E
    end.
    apply eval_embedded; [exact Hsuf | lia].
  - unfold eval_stmt, stmt. rewrite is_prefix_app, skipn_app_exact. apply eval_pieces_stmt; assumption.
Qed.
