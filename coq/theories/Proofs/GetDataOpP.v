(* C12 composed with C01: the generated method on the classes Model/Results.v generates. *)
From Coq Require Import List String Ascii ZArith Bool.
From AC Require Import Base.Json Model.GetData Proofs.GetDataP.
From AC Require Py.Ann Py.Pydantic Model.Results Proofs.ResultsRunP Proofs.ResultsObjP Gql.Schema Gql.Exec.
Import ListNotations.
Local Open Scope string_scope.

(* Result.model_validate(data) for the result class of the operation: the validated model is identified
   with the accepted data (C01: its by-alias dump is the data again) *)
Definition result_validate (n : nat) (cls : list Ann.pclass) (enums : list (string * list string))
                           (name : string) (d : json) : option json :=
  if Pydantic.accepts n cls enums (Ann.AClass name) d then Some d else None.

Lemma method_returns_conformant C S frs fuel kind name mixins sels root own pub' cls g cov mx fc d n st kv :
  Results.root_type_name S kind = Results.Ok root ->
  Results.op_parse fuel C S frs kind name mixins sels = Results.Ok (own, pub', false) ->
  Results.all_classes fuel C S frs (Results.DOp kind name mixins sels) = Results.Ok cls ->
  ResultsObjP.op_ok g cov C S frs mx mixins root sels = true -> ResultsRunP.mx_ok cls mx = true ->
  ResultsRunP.no_basemodel own = true ->
  n >= fuel + 2 ->
  (200 <= st <= 299)%Z -> jlookup "data" kv = Some d ->
  (jlookup "errors" kv = None \/ jlookup "errors" kv = Some (JArr [])) ->
  Exec.conf_op fc S frs root sels d = true ->
  client_method (result_validate n cls (Results.schema_enums S) (Results.pascal_s name)) st (Some (JObj kv))
  = MReturn d.
Proof.
  intros Hr Hop Hall Hok Hmx Hnb Hn Hst Hd He Hconf.
  apply method_returns_validated. exists d. split.
  - apply data_member_returned; assumption.
  - unfold result_validate.
    rewrite (ResultsObjP.op_accepts C S frs fuel kind name mixins sels root own pub' cls g cov mx fc d n
               Hr Hop Hall Hok Hmx Hnb Hconf Hn). reflexivity.
Qed.

(* whatever the validation function: nothing is returned when the server reported errors, whatever the
   status, the data and the rest of the body *)
Lemma method_returns_nothing_with_errors (V : Type) (validate : json -> option V) st kv e l v :
  jlookup "errors" kv = Some (JArr (e :: l)) ->
  client_method validate st (Some (JObj kv)) <> MReturn v.
Proof.
  intros E H. apply method_returns_validated in H as [d [G _]].
  exact (never_data_with_errors st kv e l d E G).
Qed.

(* and a non-2xx status never returns either *)
Lemma method_returns_nothing_non2xx (V : Type) (validate : json -> option V) st b v :
  (st < 200 \/ 299 < st)%Z -> client_method validate st b <> MReturn v.
Proof.
  intros S H. apply method_returns_validated in H as [d [G _]].
  rewrite non2xx_http_error in G by exact S. discriminate.
Qed.
