(* C19 — lexing a join: for the structural lexer Gql/Lex.v, the text  a ++ "\n" ++ b  lexes to the
   tokens of a followed by the tokens of b, for EVERY a that lexes at all (a may contain line feeds,
   comments - also an unterminated last-line comment -, strings and block strings; the only texts
   excluded are those that end inside a string or block string, which do not lex) and every b. *)
From Coq Require Import List String Ascii Bool Arith Lia.
From AC Require Import Base.Strs Gql.Lex Proofs.LexP.
Import ListNotations.
Local Open Scope char_scope.
Local Open Scope list_scope.

Definition la3 (x : ascii) (r : chars) : bool :=
  match r with d :: e :: g :: _ => leq d x && leq e x && leq g x | _ => false end.

Lemma lex_B acc c r : lex (LB acc) (c :: r) =
  if leq c lq && la2 lq r then cons_tok (TB (rev acc)) (lex LD (skipn 2 r))
  else if leq c lbs && la3 lq r then lex (LB (rev (firstn 3 r) ++ c :: acc)) (skipn 3 r)
  else lex (LB (c :: acc)) r.
Proof.
  destruct r as [|d [|e [|g r3]]]; cbn [lex la2 la3 skipn firstn rev app];
    repeat match goal with |- context [leq ?x ?y] => destruct (leq x y) end; reflexivity.
Qed.

Section Join.
  Variable b : chars.

  (* [ta] extended by the tokens of b *)
  Definition ext (ta : list tok) : option (list tok) :=
    match lex LD b with Some tb => Some (ta ++ tb) | None => None end.

  Definition good (x x' : option (list tok)) : Prop := forall ta, x = Some ta -> x' = ext ta.

  Lemma good_cons t x x' : good x x' -> good (cons_tok t x) (cons_tok t x').
  Proof.
    intros H ta. destruct x as [l|]; simpl; [|discriminate]. intro E. inversion E; subst.
    rewrite (H l eq_refl). unfold ext. destruct (lex LD b); reflexivity.
  Qed.

  Lemma good_emit pre x x' : good x x' -> good (emit pre x) (emit pre x').
  Proof. destruct pre; simpl; [apply good_cons | auto]. Qed.

  Lemma good_none x' : good None x'.
  Proof. intros ta H. discriminate. Qed.

  Lemma la2_join x l : leq lnl x = false -> la2 x (l ++ lnl :: b) = la2 x l.
  Proof.
    intro Hx. destruct l as [|d [|e l2]]; cbn [app la2]; [| rewrite Hx; apply andb_false_r | reflexivity].
    destruct b; [reflexivity|]. rewrite Hx. reflexivity.
  Qed.

  Lemma la3_join x l : leq lnl x = false -> la3 x (l ++ lnl :: b) = la3 x l.
  Proof.
    intro Hx. destruct l as [|d [|e [|g l3]]]; cbn [app la3]; try reflexivity.
    - destruct b as [|y [|z r]]; try reflexivity. rewrite Hx. reflexivity.
    - destruct b; [reflexivity|]. rewrite Hx, andb_false_r. reflexivity.
    - rewrite Hx, andb_false_r. reflexivity.
  Qed.

  Lemma skipn2_join l : la2 lq l = true \/ la2 "." l = true -> skipn 2 (l ++ lnl :: b) = skipn 2 l ++ lnl :: b.
  Proof. destruct l as [|d [|e l2]]; cbn [la2]; intros [H|H]; try discriminate; reflexivity. Qed.

  Lemma skipn3_join l : la3 lq l = true -> skipn 3 (l ++ lnl :: b) = skipn 3 l ++ lnl :: b.
  Proof. destruct l as [|d [|e [|g l3]]]; cbn [la3]; intro H; try discriminate; reflexivity. Qed.

  Lemma firstn3_join l : la3 lq l = true -> firstn 3 (l ++ lnl :: b) = firstn 3 l.
  Proof. destruct l as [|d [|e [|g l3]]]; cbn [la3]; intro H; try discriminate; reflexivity. Qed.

  Lemma lex_join_gen : forall n l, List.length l <= n ->
    forall st, good (lex st l) (lex st (l ++ lnl :: b)).
  Proof.
    induction n as [|n IH]; intros l Hl st.
    - destruct l; [|simpl in Hl; lia]. cbn [app]. intros ta H.
      destruct st; simpl in H; try discriminate; inversion H; subst.
      + rewrite lex_D, dflt_nl. unfold ext. simpl. destruct (lex LD b); reflexivity.
      + rewrite lex_W. change (leq lnl ".") with false. change (is_wordc lnl) with false. cbv iota.
        rewrite dflt_nl. unfold ext. simpl. destruct (lex LD b); reflexivity.
      + rewrite lex_C. change (leq lnl lnl || leq lnl lcr) with true. cbv iota.
        unfold ext. destruct (lex LD b); reflexivity.
    - destruct l as [|c l]; [apply (IH [] (Nat.le_0_l _))|].
      assert (Hl' : List.length l <= n) by (simpl in Hl; lia).
      assert (Hs2 : List.length (skipn 2 l) <= n) by (pose proof (skipn_length 2 l); lia).
      assert (Hs3 : List.length (skipn 3 l) <= n) by (pose proof (skipn_length 3 l); lia).
      assert (D : forall pre, good (dflt_of pre c l) (dflt_of pre c (l ++ lnl :: b))).
      { intro pre. unfold dflt_of. rewrite (la2_join lq l eq_refl), (la2_join "." l eq_refl).
        destruct (leq c lq).
        - destruct (la2 lq l) eqn:El.
          + rewrite skipn2_join by (left; exact El). apply good_emit, IH, Hs2.
          + apply good_emit, IH, Hl'.
        - destruct (leq c "#"); [apply good_emit, IH, Hl'|].
          destruct (leq c ".").
          + destruct (la2 "." l) eqn:El.
            * rewrite skipn2_join by (right; exact El). apply good_emit, good_cons, IH, Hs2.
            * apply good_emit, IH, Hl'.
          + destruct (is_punct c); [apply good_emit, good_cons, IH, Hl'|].
            destruct (is_ign c); [apply good_emit, IH, Hl'|].
            destruct (is_wordc c); [apply good_emit, IH, Hl' | apply good_none]. }
      cbn [app]. destruct st.
      + rewrite !lex_D. apply D.
      + rewrite !lex_W, (la2_join "." l eq_refl).
        destruct (leq c "."); [destruct (la2 "." l); [apply D | apply IH, Hl']|].
        destruct (is_wordc c); [apply IH, Hl' | apply D].
      + rewrite !lex_S. destruct (leq c lq); [apply good_cons, IH, Hl'|].
        destruct (leq c lbs); [apply IH, Hl'|]. destruct (leq c lnl || leq c lcr); [apply good_none | apply IH, Hl'].
      + rewrite !lex_SE. destruct (leq c lnl || leq c lcr); [apply good_none | apply IH, Hl'].
      + rewrite !lex_C. destruct (leq c lnl || leq c lcr); apply IH, Hl'.
      + rewrite !lex_B, (la2_join lq l eq_refl), (la3_join lq l eq_refl).
        destruct (leq c lq && la2 lq l) eqn:E1.
        * apply andb_true_iff in E1 as [_ E1]. rewrite skipn2_join by (left; exact E1). apply good_cons, IH, Hs2.
        * destruct (leq c lbs && la3 lq l) eqn:E2.
          -- apply andb_true_iff in E2 as [_ E2]. rewrite (skipn3_join l E2), (firstn3_join l E2). apply IH, Hs3.
          -- apply IH, Hl'.
  Qed.
End Join.

(* two texts *)
Theorem tokens_join a b ta :
  tokens a = Some ta ->
  tokens (a ++ lnl :: b) = match tokens b with Some tb => Some (ta ++ tb) | None => None end.
Proof. intro H. exact (lex_join_gen b (List.length a) a (le_n _) LD ta H). Qed.

(* any number of texts joined with line feeds (str.join) *)
Fixpoint join_chars (l : list chars) : chars :=
  match l with
  | [] => []
  | [t] => t
  | t :: r => t ++ lnl :: join_chars r
  end.

Theorem tokens_join_all texts tss :
  Forall2 (fun t ts => tokens t = Some ts) texts tss ->
  tokens (join_chars texts) = Some (List.concat tss).
Proof.
  induction 1 as [|t ts texts tss Ht Hr IH]; [reflexivity|].
  destruct texts as [|t2 r].
  - inversion Hr; subst. simpl. rewrite app_nil_r. exact Ht.
  - change (join_chars (t :: t2 :: r)) with (t ++ lnl :: join_chars (t2 :: r)).
    rewrite (tokens_join t _ ts Ht), IH. reflexivity.
Qed.
