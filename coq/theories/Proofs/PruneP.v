(* Proofs about Model/Prune.v (C09). *)
From Coq Require Import List String Bool Arith Lia.
From AC Require Import Model.Prune.
Import ListNotations.

Lemma mem_In x l : mem x l = true <-> In x l.
Proof.
  unfold mem. rewrite existsb_exists. split.
  - intros [y [Hy He]]. apply String.eqb_eq in He. subst. exact Hy.
  - intro H. exists x. split; [exact H | apply String.eqb_refl].
Qed.

Lemma mem_false x l : mem x l = false <-> ~ In x l.
Proof.
  split; intro H.
  - intro Hi. apply mem_In in Hi. congruence.
  - destruct (mem x l) eqn:E; [|reflexivity]. apply mem_In in E. contradiction.
Qed.

(* ---- reachability in the dependency graph ---- *)
Inductive reachable (g : graph) : string -> string -> Prop :=
| r_refl n : reachable g n n
| r_step a b c : In b (succs g a) -> reachable g b c -> reachable g a c.

Lemma reachable_trans g a b c : reachable g a b -> reachable g b c -> reachable g a c.
Proof. intros H1 H2. induction H1; [exact H2|]. eapply r_step; eauto. Qed.

(* ---- what one dfs call does ---- *)
Record dfs_post (g : graph) (vis : list string) (n : string) (vis' : list string) : Prop := {
  dp_incl : incl vis vis';
  dp_root : In n vis';
  dp_sound : forall x, In x vis' -> In x vis \/ reachable g n x;
  dp_closed : forall x, In x vis' -> ~ In x vis -> incl (succs g x) vis';
  dp_prefix : exists tl, vis' = (vis ++ tl)%list;
  dp_nodup : NoDup vis -> NoDup vis'
}.

Record fold_post (g : graph) (v0 : list string) (l : list string) (v' : list string) : Prop := {
  fp_incl : incl v0 v';
  fp_roots : forall m, In m l -> In m v';
  fp_sound : forall x, In x v' -> In x v0 \/ exists m, In m l /\ reachable g m x;
  fp_closed : forall x, In x v' -> ~ In x v0 -> incl (succs g x) v';
  fp_prefix : exists tl, v' = (v0 ++ tl)%list;
  fp_nodup : NoDup v0 -> NoDup v'
}.

Lemma NoDup_snoc (l : list string) n : NoDup l -> ~ In n l -> NoDup (l ++ [n]).
Proof.
  induction l as [|h l IH]; simpl; intros Hd Hn.
  - constructor; [intros []|constructor].
  - inversion Hd; subst. constructor.
    + intro H. apply in_app_or in H. destruct H as [H|[H|[]]]; [contradiction|]. subst. apply Hn. left. reflexivity.
    + apply IH; [assumption|]. intro H. apply Hn. right. exact H.
Qed.

Lemma fold_post_of g f :
  (forall vis n vis', dfs f g vis n = Some vis' -> dfs_post g vis n vis') ->
  forall l v0 v', fold_opt (dfs f g) l v0 = Some v' -> fold_post g v0 l v'.
Proof.
  intros IH l. induction l as [|b r IHl]; intros v0 v' H; simpl in H.
  - inversion H; subst. constructor.
    + apply incl_refl.
    + intros m [].
    + intros x Hx. left. exact Hx.
    + intros x Hx Hn. contradiction.
    + exists []. now rewrite app_nil_r.
    + auto.
  - destruct (dfs f g v0 b) as [v1|] eqn:E; [|discriminate].
    apply IH in E. apply IHl in H. destruct E, H. constructor.
    + eapply incl_tran; eauto.
    + intros m [Hm|Hm]; [subst; auto | auto].
    + intros x Hx. destruct (fp_sound0 x Hx) as [H1|[m [Hm Hr]]].
      * destruct (dp_sound0 x H1) as [H0|H0]; [left; exact H0|].
        right. exists b. split; [left; reflexivity | exact H0].
      * right. exists m. split; [right; exact Hm | exact Hr].
    + intros x Hx Hn. destruct (in_dec string_dec x v1) as [H1|H1].
      * eapply incl_tran; [apply dp_closed0; assumption | assumption].
      * apply fp_closed0; assumption.
    + destruct dp_prefix0 as [t1 ->]. destruct fp_prefix0 as [t2 ->].
      exists (t1 ++ t2)%list. now rewrite app_assoc.
    + auto.
Qed.

Lemma dfs_post_of g f : forall vis n vis', dfs f g vis n = Some vis' -> dfs_post g vis n vis'.
Proof.
  induction f as [|f IH]; intros vis n vis' H; simpl in H; [discriminate|].
  destruct (mem n vis) eqn:M.
  - inversion H; subst. apply mem_In in M. constructor.
    + apply incl_refl.
    + exact M.
    + intros x Hx; left; exact Hx.
    + intros x Hx Hn; contradiction.
    + exists []. now rewrite app_nil_r.
    + auto.
  - apply (fold_post_of g f IH) in H. destruct H. apply mem_false in M. constructor.
    + intros x Hx. apply fp_incl0. apply in_or_app. left. exact Hx.
    + apply fp_incl0. apply in_or_app. right. left. reflexivity.
    + intros x Hx. destruct (fp_sound0 x Hx) as [H1|[m [Hm Hr]]].
      * apply in_app_or in H1. destruct H1 as [H1|[H1|[]]]; [left; exact H1|].
        subst. right. constructor.
      * right. eapply r_step; eauto.
    + intros x Hx Hn. destruct (string_dec x n) as [->|Hne].
      * intros y Hy. apply fp_roots0. exact Hy.
      * apply fp_closed0; [exact Hx|]. intro H1. apply in_app_or in H1.
        destruct H1 as [H1|[H1|[]]]; [contradiction | congruence].
    + destruct fp_prefix0 as [tl ->]. exists ([n] ++ tl)%list. now rewrite app_assoc.
    + intro Hd. apply fp_nodup0. apply NoDup_snoc; assumption.
Qed.

(* ---- the result of the top-level call is exactly the reachable set ---- *)
Lemma dfs_is_reachability_gen g f t l :
  dfs f g [] t = Some l -> forall x, In x l <-> reachable g t x.
Proof.
  intros H x. apply dfs_post_of in H. destruct H. split.
  - intro Hx. destruct (dp_sound0 x Hx) as [[]|Hr]. exact Hr.
  - intro Hr. assert (G : forall a, In a l -> reachable g a x -> In x l).
    { clear Hr. intros a Ha Hra. induction Hra as [n|a b c Hb Hrb IHr]; [exact Ha|].
      apply IHr. apply (dp_closed0 a Ha); [intros []| exact Hb]. }
    exact (G t dp_root0 Hr).
Qed.

(* ---- fuel: the recursion depth never exceeds the number of unvisited nodes ---- *)
Definition unvis (U vis : list string) : nat :=
  List.length (filter (fun x => negb (mem x vis)) U).

Lemma unvis_mono U v0 v1 : incl v0 v1 -> unvis U v1 <= unvis U v0.
Proof.
  intro Hi. unfold unvis. induction U as [|h U IH]; simpl; [lia|].
  destruct (mem h v1) eqn:M1; destruct (mem h v0) eqn:M0; simpl; try lia.
  apply mem_In in M0. apply Hi in M0. apply mem_In in M0. congruence.
Qed.

Lemma unvis_strict U vis n : In n U -> mem n vis = false -> unvis U (vis ++ [n]) < unvis U vis.
Proof.
  intros Hin Hm. unfold unvis. induction U as [|h U IH]; [destruct Hin|].
  assert (Hle : List.length (filter (fun x => negb (mem x (vis ++ [n]))) U)
                <= List.length (filter (fun x => negb (mem x vis)) U)).
  { apply (unvis_mono U vis (vis ++ [n])). intros x Hx. apply in_or_app. left. exact Hx. }
  simpl. destruct (string_dec h n) as [->|Hne].
  - rewrite Hm. assert (M : mem n (vis ++ [n]) = true).
    { apply mem_In. apply in_or_app. right. left. reflexivity. }
    rewrite M. simpl. lia.
  - destruct Hin as [->|Hin]; [congruence|]. specialize (IH Hin).
    destruct (mem h (vis ++ [n])) eqn:M1; destruct (mem h vis) eqn:M0; simpl; try lia.
    apply mem_In in M0. assert (In h (vis ++ [n])) by (apply in_or_app; left; exact M0).
    apply mem_In in H. congruence.
Qed.

Definition closedU (g : graph) (U : list string) : Prop := forall x, In x U -> incl (succs g x) U.

Lemma dfs_total_gen g U : closedU g U ->
  forall f vis n, In n U -> unvis U vis < f -> exists vis', dfs f g vis n = Some vis'.
Proof.
  intros HU f. induction f as [|f IH]; intros vis n Hn Hlt; [lia|].
  simpl. destruct (mem n vis) eqn:M; [eexists; reflexivity|].
  assert (Hlt' : unvis U (vis ++ [n]) < f).
  { pose proof (unvis_strict U vis n Hn M). lia. }
  assert (Hs : incl (succs g n) U) by (apply HU; exact Hn).
  revert Hs Hlt'. generalize (vis ++ [n])%list as v0. generalize (succs g n) as l.
  induction l as [|b r IHl]; intros v0 Hs Hlt'; simpl; [eexists; reflexivity|].
  destruct (IH v0 b) as [v1 E]; [apply Hs; left; reflexivity | exact Hlt' |].
  rewrite E. apply IHl.
  - intros y Hy. apply Hs. right. exact Hy.
  - apply dfs_post_of in E. destruct E. pose proof (unvis_mono U v0 v1 dp_incl0). lia.
Qed.

Lemma succs_in_nodes g x y : In y (succs g x) -> In y (nodes g).
Proof.
  unfold nodes. intro H. apply in_or_app. right.
  induction g as [|[k v] g IH]; simpl in *; [destruct H|].
  apply in_or_app. destruct (String.eqb k x); [left; exact H | right; apply IH; exact H].
Qed.

Lemma unvis_nil U : unvis U [] = List.length U.
Proof. induction U as [|h U IH]; [reflexivity|]. unfold unvis in *. simpl in *. now rewrite IH. Qed.

Lemma dfs_total g t : exists l, deps_opt g t = Some l.
Proof.
  unfold deps_opt. apply (dfs_total_gen g (t :: nodes g)).
  - intros x _ y Hy. right. eapply succs_in_nodes; eauto.
  - left. reflexivity.
  - rewrite unvis_nil. simpl. lia.
Qed.

Theorem dfs_is_reachability g t :
  exists l, deps_opt g t = Some l /\ (forall x, In x l <-> reachable g t x) /\ NoDup l.
Proof.
  destruct (dfs_total g t) as [l E]. exists l. split; [exact E|]. split.
  - apply (dfs_is_reachability_gen g _ t l E).
  - apply dfs_post_of in E. destruct E. apply dp_nodup0. constructor.
Qed.

(* ---- closure of several roots; the filters ---- *)
Lemma closure_total g roots : exists l, closure_opt g roots = Some l.
Proof.
  induction roots as [|r rs [b IH]]; simpl; [eexists; reflexivity|].
  destruct (dfs_total g r) as [a E]. rewrite E, IH. eexists; reflexivity.
Qed.

Lemma closure_spec g roots : forall l, closure_opt g roots = Some l ->
  forall x, In x l <-> exists r, In r roots /\ reachable g r x.
Proof.
  induction roots as [|r rs IH]; simpl; intros l H x.
  - inversion H; subst. split; [intros [] | intros [r [[] _]]].
  - destruct (deps_opt g r) as [a|] eqn:E; [|discriminate].
    destruct (closure_opt g rs) as [b|] eqn:E2; [|discriminate].
    inversion H; subst. rewrite in_app_iff. rewrite (IH b eq_refl x).
    rewrite (dfs_is_reachability_gen g _ r a E x). split.
    + intros [H1|[r' [Hr' H1]]]; [exists r; auto | exists r'; auto].
    + intros [r' [[->|Hr'] H1]]; [left; exact H1 | right; exists r'; auto].
Qed.

Lemma filter_defs_In {A} (defs : list (string * A)) names d :
  In d (filter_defs defs names) <-> In d defs /\ In (fst d) names.
Proof. unfold filter_defs. rewrite filter_In. rewrite mem_In. reflexivity. Qed.

(* order-preserving selection *)
Inductive sublist {X} : list X -> list X -> Prop :=
| sub_nil : sublist [] []
| sub_keep x a b : sublist a b -> sublist (x :: a) (x :: b)
| sub_skip x a b : sublist a b -> sublist a (x :: b).

Lemma filter_sublist {X} (f : X -> bool) l : sublist (filter f l) l.
Proof. induction l as [|x l IH]; simpl; [constructor|]. destruct (f x); constructor; exact IH. Qed.

Lemma sublist_refl {X} (l : list X) : sublist l l.
Proof. induction l; constructor; assumption. Qed.

Lemma sublist_incl {X} (a b : list X) : sublist a b -> incl a b.
Proof.
  induction 1; intros y Hy; [exact Hy | |right; auto].
  destruct Hy as [->|Hy]; [left; reflexivity | right; auto].
Qed.

(* ---- package level ---- *)
Section Pkg.
Context {A : Type}.
Variable p : pkg A.

Lemma gen_inputs_total fi : exists ins, gen_inputs p fi = Some ins.
Proof.
  unfold gen_inputs. destruct fi; [eexists; reflexivity|].
  destruct (closure_total (dep_graph p) (roots p)) as [l E]. rewrite E. eexists; reflexivity.
Qed.

Lemma generate_total fi fe : exists ins ens, generate p fi fe = Some (ins, ens).
Proof. unfold generate. destruct (gen_inputs_total fi) as [ins E]. rewrite E. eexists; eexists; reflexivity. Qed.

(* retained inputs = exactly the input classes reachable from the variables' input types *)
Lemma inputs_closed_lemma : exists ins, gen_inputs p false = Some ins /\
  forall d, In d ins <->
    In d (input_defs p) /\ exists r, In r (roots p) /\ reachable (dep_graph p) r (fst d).
Proof.
  unfold gen_inputs. destruct (closure_total (dep_graph p) (roots p)) as [l E]. rewrite E.
  eexists; split; [reflexivity|]. intro d. rewrite filter_defs_In.
  rewrite (closure_spec _ _ l E). reflexivity.
Qed.

(* retained enums = exactly the enum classes named by results, retained inputs, fragments, arguments *)
Lemma enums_closed_lemma ins : forall d, In d (gen_enums p false ins) <->
  In d (p_enums p) /\
  (In (fst d) (p_res_enums p) \/
   (exists i, In i ins /\ In (fst d) (enums_of (p_inputs p) (fst i))) \/
   In (fst d) (p_frag_enums p) \/ In (fst d) (builder_enums p) \/ In (fst d) (p_arg_enums p)).
Proof.
  intro d. unfold gen_enums. rewrite filter_defs_In. unfold used_enums, input_used_enums.
  rewrite !in_app_iff. rewrite in_flat_map. reflexivity.
Qed.

Lemma retained_identical_lemma fi fe ins ens : generate p fi fe = Some (ins, ens) ->
  sublist ins (input_defs p) /\ sublist ens (p_enums p).
Proof.
  unfold generate, gen_inputs, gen_enums. intro H.
  destruct fi.
  - inversion H; subst. split; [apply sublist_refl|]. destruct fe; [apply sublist_refl | apply filter_sublist].
  - destruct (closure_opt (dep_graph p) (roots p)); [|discriminate]. inversion H; subst.
    split; [apply filter_sublist|]. destruct fe; [apply sublist_refl | apply filter_sublist].
Qed.

(* the four flag combinations factor: the input set depends on the inputs flag only; the enum set is a
   function of the enums flag and of the retained inputs only *)
Lemma flags_independent_lemma fi fe : exists ins,
  gen_inputs p fi = Some ins /\
  generate p fi fe = Some (ins, gen_enums p fe ins) /\
  (forall fe', exists ens', generate p fi fe' = Some (ins, ens')) /\
  (fe = true -> gen_enums p fe ins = p_enums p) /\
  (fi = true -> ins = input_defs p).
Proof.
  destruct (gen_inputs_total fi) as [ins E]. exists ins. split; [exact E|].
  unfold generate. rewrite E. split; [reflexivity|]. split; [intro; eexists; reflexivity|].
  split; [intros ->; reflexivity|]. intros ->. simpl in E. now inversion E.
Qed.

(* pruning inputs can only shrink the enum set, never add to it *)
Lemma prune_monotone_lemma i0 i1 e0 e1 :
  generate p false false = Some (i0, e0) -> generate p true false = Some (i1, e1) ->
  incl i0 i1 /\ incl e0 e1.
Proof.
  intros H0 H1. destruct (retained_identical_lemma _ _ _ _ H0) as [S0 _].
  unfold generate in *. destruct (gen_inputs p false) as [a|] eqn:Ea; [|discriminate].
  simpl in H1. inversion H0; subst. inversion H1; subst. split; [apply sublist_incl; exact S0|].
  intros d Hd. apply enums_closed_lemma in Hd. apply enums_closed_lemma.
  destruct Hd as [Hd Hc]. split; [exact Hd|].
  destruct Hc as [Hc|[[i [Hi Hc]]|Hc]]; [left; exact Hc | | right; right; exact Hc].
  right. left. exists i. split; [apply (sublist_incl _ _ S0); exact Hi | exact Hc].
Qed.

(* ---- "nothing needed is removed": with unique type names (schema.type_map is a dict) ---- *)
Hypothesis names_unique : NoDup (map i_name (p_inputs p)).

Lemma succs_dep_graph d : In d (p_inputs p) -> succs (dep_graph p) (i_name d) = i_deps d.
Proof.
  unfold dep_graph. revert names_unique. induction (p_inputs p) as [|h l IH]; simpl; intros Hn Hd; [destruct Hd|].
  destruct Hd as [->|Hd].
  - now rewrite String.eqb_refl.
  - inversion Hn; subst. destruct (String.eqb (i_name h) (i_name d)) eqn:E.
    + apply String.eqb_eq in E. exfalso. apply H1. rewrite E. apply in_map. exact Hd.
    + apply IH; assumption.
Qed.

Lemma enums_of_unique d : In d (p_inputs p) -> enums_of (p_inputs p) (i_name d) = i_enums d.
Proof.
  revert names_unique. induction (p_inputs p) as [|h l IH]; simpl; intros Hn Hd; [destruct Hd|].
  destruct Hd as [->|Hd].
  - now rewrite String.eqb_refl.
  - inversion Hn; subst. destruct (String.eqb (i_name h) (i_name d)) eqn:E.
    + apply String.eqb_eq in E. exfalso. apply H1. rewrite E. apply in_map. exact Hd.
    + apply IH; assumption.
Qed.

Lemma needed_retained_lemma ins ens : generate p false false = Some (ins, ens) ->
  (* every input type named by a variable *)
  (forall v, In v (roots p) -> forall d, In d (p_inputs p) -> i_name d = v -> In (i_name d, i_body d) ins) /\
  (* every input type a retained input class refers to *)
  (forall d, In d (p_inputs p) -> In (i_name d, i_body d) ins ->
     forall d', In d' (p_inputs p) -> In (i_name d') (i_deps d) -> In (i_name d', i_body d') ins) /\
  (* every enum a retained input class refers to, and every enum of results / fragments / variables *)
  (forall d, In d (p_inputs p) -> In (i_name d, i_body d) ins ->
     forall e, In e (p_enums p) -> In (fst e) (i_enums d) -> In e ens) /\
  (forall e, In e (p_enums p) ->
     In (fst e) (p_res_enums p) \/ In (fst e) (p_frag_enums p) \/ In (fst e) (builder_enums p) \/
     In (fst e) (p_arg_enums p) -> In e ens).
Proof.
  intro H. unfold generate in H. destruct inputs_closed_lemma as [ins' [E Hin]]. rewrite E in H.
  inversion H; subst. clear H.
  assert (Hdef : forall d, In d (p_inputs p) -> In (i_name d, i_body d) (input_defs p)).
  { intros d Hd. unfold input_defs. apply (in_map (fun d => (i_name d, i_body d))). exact Hd. }
  repeat split.
  - intros v Hv d Hd Hn. apply Hin. split; [apply Hdef; exact Hd|]. exists v. split; [exact Hv|].
    simpl. rewrite Hn. constructor.
  - intros d Hd Hr d' Hd' Hdep. apply Hin in Hr. destruct Hr as [_ [r [Hr Hreach]]]. simpl in Hreach.
    apply Hin. split; [apply Hdef; exact Hd'|]. exists r. split; [exact Hr|]. simpl.
    eapply reachable_trans; [exact Hreach|]. eapply r_step; [|constructor].
    rewrite (succs_dep_graph d Hd). exact Hdep.
  - intros d Hd Hr e He Hen. apply enums_closed_lemma. split; [exact He|]. right. left.
    exists (i_name d, i_body d). split; [exact Hr|]. simpl. rewrite (enums_of_unique d Hd). exact Hen.
  - intros e He Hc. apply enums_closed_lemma. split; [exact He|]. tauto.
Qed.

Lemma needs_lookup_unique d : In d (p_inputs p) -> needs_lookup (p_inputs p) (i_name d) = i_needs d.
Proof.
  revert names_unique. induction (p_inputs p) as [|h l IH]; simpl; intros Hn Hd; [destruct Hd|].
  destruct Hd as [->|Hd].
  - now rewrite String.eqb_refl.
  - inversion Hn; subst. destruct (String.eqb (i_name h) (i_name d)) eqn:E.
    + apply String.eqb_eq in E. exfalso. apply H1. rewrite E. apply in_map. exact Hd.
    + apply IH; assumption.
Qed.

(* a class body refers only to the fixed preamble, to the enums of its own fields and to the imports of
   its own custom-scalar fields *)
Definition needs_wf : Prop := forall d, In d (p_inputs p) -> forall x, In x (i_needs d) ->
  In x (p_preamble p) \/ (exists e, In e (i_enums d) /\ x = enum_item e) \/ In x (i_scalar_items d).

(* every import a RETAINED class needs is in the emitted module, whatever set was retained (pruned or not,
   autoflake working or giving up) *)
Lemma imports_cover_retained_lemma : needs_wf -> forall (retained : list (string * A)) d,
  In d (p_inputs p) -> In (i_name d, i_body d) retained ->
  forall x, In x (i_needs d) -> In x (module_imports p retained).
Proof.
  intros Hwf retained d Hd Hr x Hx.
  assert (Hneed : In x (needs_of p retained)).
  { unfold needs_of. apply in_flat_map. exists (i_name d, i_body d). split; [exact Hr|]. simpl.
    rewrite (needs_lookup_unique d Hd). exact Hx. }
  assert (Hcand : In x (candidates p retained)).
  { unfold candidates. rewrite !in_app_iff. destruct (Hwf d Hd x Hx) as [H|[[e [He ->]]|H]].
    - left. exact H.
    - right. left. apply in_map. unfold input_used_enums. apply in_flat_map.
      exists (i_name d, i_body d). split; [exact Hr|]. simpl. rewrite (enums_of_unique d Hd). exact He.
    - right. right. apply in_flat_map. exists d. split; assumption. }
  unfold module_imports. destruct (autoflake_gives_up p retained); [exact Hcand|].
  apply filter_In. split; [exact Hcand | apply mem_In; exact Hneed].
Qed.

(* and, unless autoflake gives up, nothing else is imported *)
Lemma imports_exact_lemma (retained : list (string * A)) x :
  autoflake_gives_up p retained = false -> In x (module_imports p retained) ->
  exists r, In r retained /\ In x (needs_lookup (p_inputs p) (fst r)).
Proof.
  intros Hb Hx. unfold module_imports in Hx. rewrite Hb in Hx. apply filter_In in Hx.
  destruct Hx as [_ Hx]. apply mem_In in Hx. unfold needs_of in Hx. apply in_flat_map in Hx. exact Hx.
Qed.
End Pkg.

(* ---- needs_wf is not an assumption for classes DERIVED from their fields ---- *)
Lemma base_needs_cases b x : In x (base_needs b) ->
  In x std_preamble \/ (exists e, b = BEnum e /\ x = enum_item e) \/
  (exists ty ser par hs, b = BCustom ty ser par hs /\ (In x (opt_item ty) \/ In x (opt_item ser))).
Proof.
  destruct b as [| | |e|n|ty ser par hs]; simpl; intro H; try (destruct H; fail).
  - destruct H as [<-|[]]. left. simpl. tauto.
  - destruct H as [<-|[]]. left. simpl. tauto.
  - destruct H as [<-|[]]. right. left. exists e. split; reflexivity.
  - apply in_app_or in H. destruct H as [H|H].
    + right. right. exists ty, ser, par, hs. split; [reflexivity | left; exact H].
    + destruct hs; [|destruct H]. destruct H as [<-|[<-|H]].
      * left. simpl. tauto.
      * left. simpl. tauto.
      * right. right. exists ty, ser, par, true. split; [reflexivity | right; exact H].
Qed.

Lemma derived_field_wf snake f x : In x (field_needs snake f) ->
  In x std_preamble \/ (exists e, In e (field_enums f) /\ x = enum_item e) \/ In x (field_scalar_items f).
Proof.
  unfold field_needs. rewrite !in_app_iff. intros [H|[H|[H|H]]].
  - destruct (if_nullable f); [|destruct H]. destruct H as [<-|[]]. left. simpl. tauto.
  - destruct (if_list f); [|destruct H]. destruct H as [<-|[]]. left. simpl. tauto.
  - destruct (base_needs_cases _ _ H) as [H1|[[e [Hb ->]]|[ty [ser [par [hs [Hb H1]]]]]]].
    + left. exact H1.
    + right. left. exists e. split; [|reflexivity]. unfold field_enums. rewrite Hb. left. reflexivity.
    + right. right. unfold field_scalar_items. rewrite Hb. rewrite !in_app_iff. tauto.
  - destruct (aliased snake (if_name f) || if_coll_default f); [|destruct H]. destruct H as [<-|[]]. left. simpl. tauto.
Qed.

Theorem derived_needs_wf {A} (p : pkg A) : incl std_preamble (p_preamble p) ->
  (forall d, In d (p_inputs p) -> exists snake fs, d = derive snake (i_name d) (i_body d) fs) -> needs_wf p.
Proof.
  intros Hpre Hder d Hd x Hx. destruct (Hder d Hd) as [snake [fs E]]. rewrite E in Hx |- *. simpl in Hx |- *.
  destruct Hx as [<-|Hx]; [left; apply Hpre; simpl; tauto|].
  apply in_flat_map in Hx. destruct Hx as [f [Hf Hx]].
  destruct (derived_field_wf _ _ _ Hx) as [H|[[e [He ->]]|H]].
  - left. apply Hpre. exact H.
  - right. left. exists e. split; [|reflexivity]. apply in_flat_map. exists f. split; assumption.
  - right. right. apply in_flat_map. exists f. split; assumption.
Qed.

(* imports_cover_retained without the needs_wf hypothesis, for derived classes *)
Corollary derived_imports_cover {A} (p : pkg A) : NoDup (map i_name (p_inputs p)) ->
  incl std_preamble (p_preamble p) ->
  (forall d, In d (p_inputs p) -> exists snake fs, d = derive snake (i_name d) (i_body d) fs) ->
  forall (retained : list (string * A)) d, In d (p_inputs p) -> In (i_name d, i_body d) retained ->
  forall x, In x (i_needs d) -> In x (module_imports p retained).
Proof.
  intros Hn Hpre Hder. apply imports_cover_retained_lemma; [exact Hn|]. apply derived_needs_wf; assumption.
Qed.
