(* Proofs about Model/PyRepr.v: literal_eval (repr v) = v at character level. *)
From Coq Require Import List String Ascii ZArith Bool Arith Lia DecimalString Decimal DecimalZ DecimalPos.
From AC Require Import Base.Strs Base.Sexp Model.PyRepr.
Import ListNotations.

(* ---------- hex ---------- *)
Lemma unhex2_hex2 c : unhex2 (hexdigit (code c / 16)) (hexdigit (code c mod 16)) = Some c.
Proof. destruct c as [[] [] [] [] [] [] [] []]; vm_compute; reflexivity. Qed.

(* ---------- strings ---------- *)
Lemma quote_cases q : is_quote q = true -> q = cSQ \/ q = cDQ.
Proof.
  unfold is_quote. intro H. apply orb_true_iff in H as [H|H]; apply Ascii.eqb_eq in H; auto.
Qed.

Lemma pstr_plain q c r : Ascii.eqb c q = false -> Ascii.eqb c cLF = false -> Ascii.eqb c cBS = false ->
  pstr q (c :: r) = match pstr q r with Some (s, r') => Some (c :: s, r') | None => None end.
Proof. intros H1 H2 H3. simpl. rewrite H1, H2, H3. reflexivity. Qed.

Lemma pstr_close q r : pstr q (q :: r) = Some ([], r).
Proof. simpl. rewrite Ascii.eqb_refl. reflexivity. Qed.

Lemma pstr_roundtrip q s rest : is_quote q = true ->
  pstr q (flat_map (esc_char q) s ++ q :: rest) = Some (s, rest).
Proof.
  intro Hq. induction s as [|c s IH].
  - simpl flat_map. simpl app. apply pstr_close.
  - simpl flat_map. rewrite <- app_assoc. unfold esc_char at 1.
    destruct (Ascii.eqb c cBS) eqn:E1.
    { apply Ascii.eqb_eq in E1. subst c.
      destruct (quote_cases q Hq); subst q; simpl app;
        (cbn -[flat_map app]; rewrite IH; reflexivity). }
    destruct (Ascii.eqb c q) eqn:E2.
    { apply Ascii.eqb_eq in E2. subst c.
      destruct (quote_cases q Hq); subst q; simpl app;
        (cbn -[flat_map app]; rewrite IH; reflexivity). }
    destruct (Ascii.eqb c cLF) eqn:E3.
    { apply Ascii.eqb_eq in E3. subst c.
      destruct (quote_cases q Hq); subst q; simpl app;
        (cbn -[flat_map app]; rewrite IH; reflexivity). }
    destruct (Ascii.eqb c cCR) eqn:E4.
    { apply Ascii.eqb_eq in E4. subst c.
      destruct (quote_cases q Hq); subst q; simpl app;
        (cbn -[flat_map app]; rewrite IH; reflexivity). }
    destruct (Ascii.eqb c cTAB) eqn:E5.
    { apply Ascii.eqb_eq in E5. subst c.
      destruct (quote_cases q Hq); subst q; simpl app;
        (cbn -[flat_map app]; rewrite IH; reflexivity). }
    destruct ((code c <? 32) || (code c =? 127)) eqn:E6.
    { unfold hex2. simpl app.
      assert (Hx := unhex2_hex2 c).
      assert (Hlt : (code c <? 128) = true).
      { apply orb_true_iff in E6 as [E6|E6].
        - apply Nat.ltb_lt in E6. apply Nat.ltb_lt. lia.
        - apply Nat.eqb_eq in E6. rewrite E6. reflexivity. }
      destruct (quote_cases q Hq); subst q;
        (cbn -[flat_map app unhex2 hexdigit Nat.div Nat.modulo code Nat.ltb]; rewrite Hx, IH, Hlt; reflexivity). }
    change ([c] ++ flat_map (esc_char q) s ++ q :: rest) with (c :: flat_map (esc_char q) s ++ q :: rest).
    rewrite pstr_plain by assumption. rewrite IH. reflexivity.
Qed.

Lemma repr_str_roundtrip s rest n :
  pval (S n) (repr_str s ++ rest) = Some (PStr s, rest).
Proof.
  unfold repr_str.
  assert (Hq : is_quote (choose_quote s) = true).
  { unfold choose_quote. destruct (_ && _); reflexivity. }
  set (q := choose_quote s) in *.
  change ((q :: flat_map (esc_char q) s ++ [q]) ++ rest)
    with (q :: (flat_map (esc_char q) s ++ [q]) ++ rest).
  rewrite <- app_assoc. change ([q] ++ rest) with (q :: rest).
  destruct (quote_cases q Hq) as [E|E]; rewrite E in *;
    cbn -[pstr flat_map app]; rewrite pstr_roundtrip by reflexivity; reflexivity.
Qed.

(* ---------- numbers ---------- *)
Definition stop (p : ascii -> bool) (rest : chars) : bool :=
  match rest with [] => true | c :: _ => negb (p c) end.

Lemma span_app p tok rest : forallb p tok = true -> stop p rest = true ->
  span p (tok ++ rest) = (tok, rest).
Proof.
  intros Ht Hs. induction tok as [|c t IH]; simpl in *.
  - destruct rest as [|c r]; simpl in *; [reflexivity|].
    destruct (p c); [discriminate|reflexivity].
  - apply andb_true_iff in Ht as [H1 H2]. rewrite H1, (IH H2). reflexivity.
Qed.

Lemma uint_chars d : forallb is_digit (s2l (NilEmpty.string_of_uint d)) = true.
Proof. induction d; simpl; auto. Qed.

Lemma uint0_chars d : forallb is_digit (s2l (NilZero.string_of_uint d)) = true.
Proof. destruct d; try reflexivity; apply (uint_chars (_ d)) || apply uint_chars. Qed.

Lemma digit_intch l : forallb is_digit l = true -> forallb intch l = true.
Proof.
  induction l; simpl; auto. intro H. apply andb_true_iff in H as [H1 H2].
  unfold intch at 1. rewrite H1. simpl. auto.
Qed.

Lemma repr_int_chars z : forallb intch (repr_int z) = true.
Proof.
  unfold repr_int, z_to_string. destruct (Z.to_int z); simpl NilZero.string_of_int.
  - apply digit_intch, uint0_chars.
  - simpl. apply digit_intch, uint0_chars.
Qed.

Lemma uint0_nonnil d : s2l (NilZero.string_of_uint d) <> [].
Proof. destruct d; simpl; discriminate. Qed.

Lemma repr_int_nonnil z : repr_int z <> [].
Proof.
  unfold repr_int, z_to_string. destruct (Z.to_int z); simpl NilZero.string_of_int.
  - apply uint0_nonnil.
  - simpl. discriminate.
Qed.

Lemma z_roundtrip z : z_of_string (z_to_string z) = Some z.
Proof.
  unfold z_of_string, z_to_string.
  rewrite NilZero.isi.
  - rewrite DecimalZ.of_to. reflexivity.
  - destruct z; simpl; try discriminate. intro H. inversion H.
    apply (Unsigned.to_uint_nonnil p). assumption.
  - destruct z; simpl; try discriminate. intro H. inversion H.
    apply (Unsigned.to_uint_nonnil p). assumption.
Qed.

Lemma intch_numch l : forallb intch l = true -> forallb numch l = true.
Proof.
  induction l; simpl; auto. intro H. apply andb_true_iff in H as [H1 H2].
  unfold numch at 1. rewrite H1. simpl. auto.
Qed.

Lemma pnum_int z rest : stop numch rest = true ->
  pnum (repr_int z ++ rest) = Some (PInt z, rest).
Proof.
  intro Hs. unfold pnum.
  rewrite (span_app numch _ _ (intch_numch _ (repr_int_chars z)) Hs).
  destruct (repr_int z) eqn:E; [exfalso; eapply repr_int_nonnil; eauto|].
  rewrite <- E. rewrite repr_int_chars. unfold repr_int. rewrite l2s_s2l, z_roundtrip. reflexivity.
Qed.

Lemma pnum_float lx rest : float_tok lx = true -> stop numch rest = true ->
  pnum (lx ++ rest) = Some (PFloat lx, rest).
Proof.
  unfold float_tok. intros H Hs.
  apply andb_true_iff in H as [H H3]. apply andb_true_iff in H as [H1 H2].
  unfold pnum. rewrite (span_app numch _ _ H1 Hs).
  destruct lx as [|c t]; [discriminate|].
  apply negb_true_iff in H2. rewrite H2, H3. reflexivity.
Qed.

(* first character of a number token selects the number branch of pval *)
Lemma numch_dispatch c : numch c = true ->
  Ascii.eqb c cSP = false /\ Ascii.eqb c "["%char = false /\ Ascii.eqb c "{"%char = false /\
  is_quote c = false /\ Ascii.eqb "N"%char c = false /\ Ascii.eqb "T"%char c = false /\
  Ascii.eqb "F"%char c = false.
Proof.
  destruct c as [[] [] [] [] [] [] [] []]; vm_compute; intro H; try discriminate H; repeat split.
Qed.

Definition pval_body (n : nat) (cs : chars) : option (pyval * chars) :=
  match cs with
  | [] => None
  | c :: r =>
      if Ascii.eqb c "["%char then
        match r with
        | c2 :: r2 =>
            if Ascii.eqb c2 "]"%char then Some (PList [], r2)
            else match pitems n r with Some (l, r') => Some (PList l, r') | None => None end
        | [] => None
        end
      else if Ascii.eqb c "{"%char then
        match r with
        | c2 :: r2 =>
            if Ascii.eqb c2 "}"%char then Some (PDict [], r2)
            else match pentries n r with
                 | Some (kv, r') => Some (PDict (dict_norm kv), r')
                 | None => None end
        | [] => None
        end
      else if is_quote c then
        match pstr c r with Some (s, r') => Some (PStr s, r') | None => None end
      else match strip_prefix (s2l "None") cs with
      | Some r' => Some (PNone, r')
      | None =>
      match strip_prefix (s2l "True") cs with
      | Some r' => Some (PBool true, r')
      | None =>
      match strip_prefix (s2l "False") cs with
      | Some r' => Some (PBool false, r')
      | None => pnum cs
      end end end
  end.

Lemma pval_S n cs : pval (S n) cs = pval_body n (skip_ws cs).
Proof. reflexivity. Qed.

Lemma pitems_S n cs : pitems (S n) cs =
  match pval n cs with
  | Some (v, c :: r) =>
      if Ascii.eqb c "]"%char then Some ([v], r)
      else if Ascii.eqb c ","%char then
        match pitems n r with Some (l, r') => Some (v :: l, r') | None => None end
      else None
  | _ => None
  end.
Proof. reflexivity. Qed.

Lemma pentries_S n cs0 : pentries (S n) cs0 =
  match skip_ws cs0 with
  | q :: r0 =>
      if is_quote q then
        match pstr q r0 with
        | Some (k, c1 :: r1) =>
            if Ascii.eqb c1 ":"%char then
              match pval n r1 with
              | Some (v, c :: r) =>
                  if Ascii.eqb c "}"%char then Some ([(k, v)], r)
                  else if Ascii.eqb c ","%char then
                    match pentries n r with
                    | Some (l, r') => Some ((k, v) :: l, r')
                    | None => None end
                  else None
              | _ => None
              end
            else None
        | _ => None
        end
      else None
  | [] => None
  end.
Proof. reflexivity. Qed.

Lemma strip_prefix_ne a p c t : Ascii.eqb a c = false -> strip_prefix (a :: p) (c :: t) = None.
Proof. intro H. simpl. rewrite H. reflexivity. Qed.

Lemma skip_ws_head c t : Ascii.eqb c cSP = false -> skip_ws (c :: t) = c :: t.
Proof. intro H. simpl. rewrite H. reflexivity. Qed.

Lemma pval_body_num n c t : numch c = true -> pval_body n (c :: t) = pnum (c :: t).
Proof.
  intro H. destruct (numch_dispatch c H) as (H1 & H2 & H3 & H4 & H5 & H6 & H7).
  unfold pval_body. rewrite H2, H3, H4.
  change (s2l "None") with ("N"%char :: s2l "one").
  change (s2l "True") with ("T"%char :: s2l "rue").
  change (s2l "False") with ("F"%char :: s2l "alse").
  rewrite !strip_prefix_ne by assumption. reflexivity.
Qed.

(* ---------- values ---------- *)
Local Arguments repr_str : simpl never.
Lemma pyval_ind2 (P : pyval -> Prop) :
  P PNone -> (forall b, P (PBool b)) -> (forall z, P (PInt z)) -> (forall l, P (PFloat l)) ->
  (forall s, P (PStr s)) -> (forall l, Forall P l -> P (PList l)) ->
  (forall kv, Forall (fun p => P (snd p)) kv -> P (PDict kv)) -> forall v, P v.
Proof.
  intros H1 H2 H3 H4 H5 H6 H7. fix IH 1. destruct v.
  - apply H1. - apply H2. - apply H3. - apply H4. - apply H5.
  - apply H6. induction l; constructor; [apply IH | assumption].
  - apply H7. induction kv as [|[k x] kv IHkv]; constructor; [apply IH | assumption].
Qed.

Fixpoint repr_items (l : list pyval) : chars :=
  match l with
  | [] => []
  | x :: r => match r with
              | [] => py_repr x
              | _ :: _ => py_repr x ++ ","%char :: cSP :: repr_items r
              end
  end.
Fixpoint repr_entries (kv : list (chars * pyval)) : chars :=
  match kv with
  | [] => []
  | (k, x) :: r =>
      match r with
      | [] => repr_str k ++ ":"%char :: cSP :: py_repr x
      | _ :: _ => repr_str k ++ ":"%char :: cSP :: py_repr x ++ ","%char :: cSP :: repr_entries r
      end
  end.

Lemma py_repr_list l : py_repr (PList l) = "["%char :: repr_items l ++ ["]"%char].
Proof.
  reflexivity.
Qed.
Lemma py_repr_dict kv : py_repr (PDict kv) = "{"%char :: repr_entries kv ++ ["}"%char].
Proof.
  reflexivity.
Qed.

Fixpoint lsize (sz : pyval -> nat) (l : list pyval) : nat :=
  match l with [] => 0 | x :: r => 1 + sz x + lsize sz r end.
Fixpoint esize (sz : pyval -> nat) (l : list (chars * pyval)) : nat :=
  match l with [] => 0 | p :: r => 1 + sz (snd p) + esize sz r end.
Fixpoint vsize (v : pyval) : nat :=
  match v with
  | PList l => 1 + (fix ls (l : list pyval) := match l with [] => 0 | x :: r => 1 + vsize x + ls r end) l
  | PDict kv => 1 + (fix es (l : list (chars * pyval)) :=
                       match l with [] => 0 | p :: r => 1 + vsize (snd p) + es r end) kv
  | _ => 1
  end.
Lemma vsize_list l : vsize (PList l) = 1 + lsize vsize l.
Proof. simpl. f_equal. induction l; simpl; auto. Qed.
Lemma vsize_dict kv : vsize (PDict kv) = 1 + esize vsize kv.
Proof. simpl. f_equal. induction kv; simpl; auto. Qed.
Lemma vsize_pos v : 1 <= vsize v.
Proof. destruct v; simpl; lia. Qed.

(* head character of a repr: never a space, never a closing bracket *)
Definition good_head (cs : chars) : Prop :=
  match cs with
  | c :: _ => Ascii.eqb c cSP = false /\ Ascii.eqb c "]"%char = false /\ Ascii.eqb c "}"%char = false
  | [] => False
  end.

Lemma numch_good c t : numch c = true -> good_head (c :: t).
Proof.
  destruct c as [[] [] [] [] [] [] [] []]; vm_compute; intro H; try discriminate H; repeat split.
Qed.

Lemma repr_str_head s : exists t, repr_str s = choose_quote s :: t.
Proof. unfold repr_str. eexists. reflexivity. Qed.

Lemma quote_good q t : is_quote q = true -> good_head (q :: t).
Proof. intro H. destruct (quote_cases q H); subst; vm_compute; repeat split. Qed.

Lemma choose_quote_is s : is_quote (choose_quote s) = true.
Proof. unfold choose_quote. destruct (_ && _); reflexivity. Qed.

Lemma repr_good v : wf_val v = true -> good_head (py_repr v).
Proof.
  destruct v; intro W.
  - vm_compute; repeat split.
  - destruct b; vm_compute; repeat split.
  - simpl. assert (H := repr_int_chars z). assert (N := repr_int_nonnil z).
    destruct (repr_int z) as [|c t]; [congruence|]. simpl in H. apply andb_true_iff in H as [H _].
    apply numch_good. unfold numch. rewrite H. reflexivity.
  - simpl in *. unfold float_tok in W. apply andb_true_iff in W as [W W3]. apply andb_true_iff in W as [W1 W2].
    destruct lexeme as [|c t]; [discriminate|]. simpl in W1. apply andb_true_iff in W1 as [W1 _].
    apply numch_good; assumption.
  - change (py_repr (PStr s)) with (repr_str s).
    destruct (repr_str_head s) as [t ->]. apply quote_good, choose_quote_is.
  - rewrite py_repr_list. vm_compute; repeat split.
  - rewrite py_repr_dict. vm_compute; repeat split.
Qed.

Lemma good_app cs rest : good_head cs -> good_head (cs ++ rest).
Proof. destruct cs; simpl; [tauto|auto]. Qed.

Lemma skip_ws_good cs : good_head cs -> skip_ws cs = cs.
Proof. destruct cs as [|c t]; simpl; [tauto|]. intros (H & _). rewrite H. reflexivity. Qed.

Lemma pval_sp n cs : pval n (cSP :: cs) = pval n cs.
Proof. destruct n; [reflexivity|]. rewrite !pval_S. reflexivity. Qed.
Lemma pitems_sp n cs : pitems n (cSP :: cs) = pitems n cs.
Proof. destruct n; [reflexivity|]. rewrite !pitems_S, pval_sp. reflexivity. Qed.
Lemma pentries_sp n cs : pentries n (cSP :: cs) = pentries n cs.
Proof. destruct n; [reflexivity|]. rewrite !pentries_S. reflexivity. Qed.

(* the statement proved by induction on the value *)
Definition RT (v : pyval) : Prop :=
  wf_val v = true -> forall n rest, vsize v <= n -> stop numch rest = true ->
  pval n (py_repr v ++ rest) = Some (v, rest).

Lemma pitems_ok l : l <> [] -> Forall RT l -> forallb wf_val l = true ->
  forall n rest, lsize vsize l <= n ->
  pitems n (repr_items l ++ "]"%char :: rest) = Some (l, rest).
Proof.
  induction l as [|x r IH]; [congruence|]. intros _ HF HW n rest Hn.
  inversion HF as [|? ? Hx Hr]; subst. simpl in HW. apply andb_true_iff in HW as [Wx Wr].
  simpl in Hn. destruct n as [|n]; [lia|]. rewrite pitems_S.
  destruct r as [|y r'].
  - simpl repr_items. rewrite (Hx Wx n ("]"%char :: rest)) by (try reflexivity; simpl in *; lia).
    reflexivity.
  - change (repr_items (x :: y :: r')) with (py_repr x ++ ","%char :: cSP :: repr_items (y :: r')).
    rewrite <- app_assoc.
    change ((","%char :: cSP :: repr_items (y :: r')) ++ "]"%char :: rest)
      with (","%char :: cSP :: (repr_items (y :: r') ++ "]"%char :: rest)).
    rewrite (Hx Wx n) by (try reflexivity; simpl in *; lia).
    change (Ascii.eqb ","%char "]"%char) with false. change (Ascii.eqb ","%char ","%char) with true.
    cbv iota. rewrite pitems_sp.
    rewrite IH; [reflexivity|discriminate|assumption|assumption|simpl in *; lia].
Qed.

Lemma pstr_repr_str k rest :
  exists q t, repr_str k ++ rest = q :: t /\ is_quote q = true /\ pstr q t = Some (k, rest).
Proof.
  unfold repr_str. set (q := choose_quote k).
  exists q, (flat_map (esc_char q) k ++ q :: rest). repeat split.
  - simpl. f_equal. rewrite <- app_assoc. reflexivity.
  - apply choose_quote_is.
  - apply pstr_roundtrip, choose_quote_is.
Qed.

Lemma pentries_ok kv : kv <> [] -> Forall (fun p => RT (snd p)) kv ->
  forallb (fun p => wf_val (snd p)) kv = true ->
  forall n rest, esize vsize kv <= n ->
  pentries n (repr_entries kv ++ "}"%char :: rest) = Some (kv, rest).
Proof.
  induction kv as [|[k x] r IH]; [congruence|]. intros _ HF HW n rest Hn.
  inversion HF as [|? ? Hx Hr]; subst. simpl in HW, Hx. apply andb_true_iff in HW as [Wx Wr].
  simpl in Hn. destruct n as [|n]; [lia|]. rewrite pentries_S.
  destruct r as [|[k2 y] r'].
  - change (repr_entries [(k, x)]) with (repr_str k ++ ":"%char :: cSP :: py_repr x).
    rewrite <- app_assoc.
    destruct (pstr_repr_str k ((":"%char :: cSP :: py_repr x) ++ "}"%char :: rest)) as (q & t & E & Hq & Hp).
    rewrite E. rewrite (skip_ws_good (q :: t)) by (apply quote_good; assumption).
    rewrite Hq, Hp.
    change ((":"%char :: cSP :: py_repr x) ++ "}"%char :: rest)
      with (":"%char :: cSP :: (py_repr x ++ "}"%char :: rest)).
    change (Ascii.eqb ":"%char ":"%char) with true. cbv iota.
    rewrite pval_sp. rewrite (Hx Wx n) by (try reflexivity; simpl in *; lia).
    reflexivity.
  - change (repr_entries ((k, x) :: (k2, y) :: r'))
      with (repr_str k ++ ":"%char :: cSP :: py_repr x ++ ","%char :: cSP :: repr_entries ((k2, y) :: r')).
    rewrite <- app_assoc.
    destruct (pstr_repr_str k ((":"%char :: cSP :: py_repr x ++ ","%char :: cSP :: repr_entries ((k2, y) :: r'))
                               ++ "}"%char :: rest)) as (q & t & E & Hq & Hp).
    rewrite E. rewrite (skip_ws_good (q :: t)) by (apply quote_good; assumption).
    rewrite Hq, Hp.
    change ((":"%char :: cSP :: py_repr x ++ ","%char :: cSP :: repr_entries ((k2, y) :: r')) ++ "}"%char :: rest)
      with (":"%char :: cSP :: ((py_repr x ++ ","%char :: cSP :: repr_entries ((k2, y) :: r')) ++ "}"%char :: rest)).
    rewrite <- app_assoc.
    change ((","%char :: cSP :: repr_entries ((k2, y) :: r')) ++ "}"%char :: rest)
      with (","%char :: cSP :: (repr_entries ((k2, y) :: r') ++ "}"%char :: rest)).
    change (Ascii.eqb ":"%char ":"%char) with true. cbv iota.
    rewrite pval_sp. rewrite (Hx Wx n) by (try reflexivity; simpl in *; lia).
    change (Ascii.eqb ","%char "}"%char) with false. change (Ascii.eqb ","%char ","%char) with true.
    cbv iota. rewrite pentries_sp.
    rewrite IH; [reflexivity|discriminate|assumption|assumption|simpl in *; lia].
Qed.

(* dict_norm is the identity on entry lists with distinct keys *)
Lemma dict_set_fresh {B : Type} (acc : list (chars * B)) k v : mem_chars k (map fst acc) = false -> dict_set acc k v = acc ++ [(k, v)].
Proof.
  induction acc as [|[k' v'] r IH]; simpl; [reflexivity|]. intro H.
  apply orb_false_iff in H as [H1 H2]. rewrite H1. rewrite IH by assumption. reflexivity.
Qed.

Lemma mem_chars_app k a b : mem_chars k (a ++ b) = mem_chars k a || mem_chars k b.
Proof. unfold mem_chars. apply existsb_app. Qed.

Lemma chars_eqb_sym a b : chars_eqb a b = chars_eqb b a.
Proof.
  destruct (chars_eqb a b) eqn:E.
  - apply chars_eqb_eq in E. subst. symmetry. apply chars_eqb_refl.
  - destruct (chars_eqb b a) eqn:E2; [|reflexivity]. apply chars_eqb_eq in E2. subst.
    rewrite chars_eqb_refl in E. discriminate.
Qed.

Lemma dict_norm_gen {B : Type} (kv : list (chars * B)) : forall acc,
  nodup_keys (map fst kv) = true ->
  (forall k, In k (map fst kv) -> mem_chars k (map fst acc) = false) ->
  fold_left (fun a p => dict_set a (fst p) (snd p)) kv acc = acc ++ kv.
Proof.
  induction kv as [|[k v] r IH]; intros acc Hn Hd; simpl.
  - rewrite app_nil_r. reflexivity.
  - simpl in Hn. apply andb_true_iff in Hn as [Hk Hn]. apply negb_true_iff in Hk.
    rewrite dict_set_fresh by (apply Hd; left; reflexivity).
    rewrite IH; [rewrite <- app_assoc; reflexivity|assumption|].
    intros k' Hin. rewrite map_app, mem_chars_app. simpl.
    rewrite (Hd k') by (right; assumption). simpl. rewrite orb_false_r.
    destruct (chars_eqb k' k) eqn:E; [|reflexivity].
    apply chars_eqb_eq in E. subst k'. apply mem_chars_In in Hin. congruence.
Qed.

Lemma dict_norm_nodup {B : Type} (kv : list (chars * B)) : nodup_keys (map fst kv) = true -> dict_norm kv = kv.
Proof. intro H. unfold dict_norm. rewrite dict_norm_gen; auto. Qed.

Lemma stop_comma r : stop numch (","%char :: r) = true. Proof. reflexivity. Qed.

Theorem pval_roundtrip v : RT v.
Proof.
  induction v using pyval_ind2; intros W n rest Hn Hs.
  - destruct n; [simpl in Hn; lia|]. reflexivity.
  - destruct n; [simpl in Hn; lia|]. destruct b; reflexivity.
  - destruct n; [simpl in Hn; lia|]. rewrite pval_S.
    assert (G := good_app _ rest (repr_good (PInt z) W)). rewrite (skip_ws_good _ G).
    simpl py_repr in *. assert (C := repr_int_chars z). assert (N := repr_int_nonnil z).
    destruct (repr_int z) as [|c t] eqn:E; [congruence|].
    simpl in C. apply andb_true_iff in C as [C _].
    change ((c :: t) ++ rest) with (c :: t ++ rest).
    rewrite pval_body_num by (unfold numch; rewrite C; reflexivity).
    change (c :: t ++ rest) with ((c :: t) ++ rest). rewrite <- E. apply pnum_int; assumption.
  - destruct n; [simpl in Hn; lia|]. rewrite pval_S.
    assert (G := good_app _ rest (repr_good (PFloat l) W)). rewrite (skip_ws_good _ G).
    simpl py_repr in *. simpl in W. assert (W' := W).
    unfold float_tok in W'. apply andb_true_iff in W' as [W' _]. apply andb_true_iff in W' as [W1 _].
    destruct l as [|c t]; [discriminate|]. simpl in W1. apply andb_true_iff in W1 as [W1 _].
    change ((c :: t) ++ rest) with (c :: t ++ rest).
    rewrite pval_body_num by assumption.
    change (c :: t ++ rest) with ((c :: t) ++ rest). apply pnum_float; assumption.
  - destruct n; [simpl in Hn; lia|]. apply repr_str_roundtrip.
  - rewrite vsize_list in Hn. destruct n as [|n]; [lia|].
    rewrite py_repr_list, pval_S. simpl in W.
    change (("["%char :: repr_items l ++ ["]"%char]) ++ rest)
      with ("["%char :: (repr_items l ++ ["]"%char]) ++ rest).
    rewrite <- app_assoc. change (["]"%char] ++ rest) with ("]"%char :: rest).
    change (skip_ws ("["%char :: repr_items l ++ "]"%char :: rest))
      with ("["%char :: repr_items l ++ "]"%char :: rest).
    unfold pval_body. change (Ascii.eqb "["%char "["%char) with true. cbv iota.
    destruct l as [|x r]; [reflexivity|].
    assert (Wx : wf_val x = true) by (simpl in W; apply andb_true_iff in W; tauto).
    assert (G := good_app _ ("]"%char :: rest) (good_app _ (match r with [] => [] | _ => ","%char :: cSP :: repr_items r end) (repr_good x Wx))).
    assert (E : repr_items (x :: r) = py_repr x ++ match r with [] => [] | _ => ","%char :: cSP :: repr_items r end).
    { destruct r; [simpl; rewrite app_nil_r; reflexivity|reflexivity]. }
    rewrite <- E in G.
    destruct (repr_items (x :: r) ++ "]"%char :: rest) as [|c2 r2] eqn:E2; [destruct G|].
    destruct G as (_ & G2 & _). rewrite G2. rewrite <- E2.
    rewrite pitems_ok; [reflexivity|discriminate|assumption|assumption|lia].
  - rewrite vsize_dict in Hn. destruct n as [|n]; [lia|].
    rewrite py_repr_dict, pval_S. simpl in W. apply andb_true_iff in W as [Wk W].
    change (("{"%char :: repr_entries kv ++ ["}"%char]) ++ rest)
      with ("{"%char :: (repr_entries kv ++ ["}"%char]) ++ rest).
    rewrite <- app_assoc. change (["}"%char] ++ rest) with ("}"%char :: rest).
    change (skip_ws ("{"%char :: repr_entries kv ++ "}"%char :: rest))
      with ("{"%char :: repr_entries kv ++ "}"%char :: rest).
    unfold pval_body. change (Ascii.eqb "{"%char "["%char) with false.
    change (Ascii.eqb "{"%char "{"%char) with true. cbv iota.
    destruct kv as [|[k x] r]; [reflexivity|].
    assert (E : exists q t, repr_entries ((k, x) :: r) ++ "}"%char :: rest = q :: t /\ is_quote q = true).
    { destruct r as [|[k2 y] r'].
      - change (repr_entries [(k, x)]) with (repr_str k ++ ":"%char :: cSP :: py_repr x).
        rewrite <- app_assoc.
        destruct (pstr_repr_str k ((":"%char :: cSP :: py_repr x) ++ "}"%char :: rest)) as (q & t & E & Hq & _).
        exists q, t. split; assumption.
      - change (repr_entries ((k, x) :: (k2, y) :: r'))
          with (repr_str k ++ ":"%char :: cSP :: py_repr x ++ ","%char :: cSP :: repr_entries ((k2, y) :: r')).
        rewrite <- app_assoc.
        match goal with |- exists q t, repr_str k ++ ?R = _ /\ _ =>
          destruct (pstr_repr_str k R) as (q & t & E & Hq & _) end.
        exists q, t. split; assumption. }
    destruct E as (q & t & E & Hq).
    assert (Hc : Ascii.eqb q "}"%char = false).
    { destruct (quote_cases q Hq); subst; reflexivity. }
    assert (PE : pentries n (repr_entries ((k, x) :: r) ++ "}"%char :: rest) = Some ((k, x) :: r, rest)).
    { apply pentries_ok; [discriminate|assumption|assumption|lia]. }
    rewrite E in PE |- *. rewrite Hc, PE.
    rewrite dict_norm_nodup by assumption. reflexivity.
Qed.

(* ---------- fuel bound ---------- *)
Lemma good_len cs : good_head cs -> 1 <= List.length cs.
Proof. destruct cs; simpl; [tauto|lia]. Qed.

Lemma items_len l : Forall (fun v => wf_val v = true -> vsize v <= 2 * List.length (py_repr v)) l ->
  forallb wf_val l = true -> lsize vsize l <= 2 * List.length (repr_items l) + 1.
Proof.
  induction l as [|x r IH]; intros HF HW; [simpl; lia|].
  inversion HF as [|? ? Hx Hr]; subst. simpl in HW. apply andb_true_iff in HW as [Wx Wr].
  specialize (Hx Wx). specialize (IH Hr Wr).
  destruct r as [|y r'].
  - simpl. lia.
  - change (repr_items (x :: y :: r')) with (py_repr x ++ ","%char :: cSP :: repr_items (y :: r')).
    change (lsize vsize (x :: y :: r')) with (1 + vsize x + lsize vsize (y :: r')).
    set (a := repr_items (y :: r')) in *. set (b := lsize vsize (y :: r')) in *.
    rewrite app_length. cbn [List.length]. lia.
Qed.

Lemma entries_len kv :
  Forall (fun p => wf_val (snd p) = true -> vsize (snd p) <= 2 * List.length (py_repr (snd p))) kv ->
  forallb (fun p => wf_val (snd p)) kv = true -> esize vsize kv <= 2 * List.length (repr_entries kv) + 1.
Proof.
  induction kv as [|[k x] r IH]; intros HF HW; [simpl; lia|].
  inversion HF as [|? ? Hx Hr]; subst. simpl in HW, Hx. apply andb_true_iff in HW as [Wx Wr].
  specialize (Hx Wx). specialize (IH Hr Wr).
  destruct r as [|[k2 y] r'].
  - change (repr_entries [(k, x)]) with (repr_str k ++ ":"%char :: cSP :: py_repr x).
    rewrite app_length. cbn [List.length esize snd]. lia.
  - change (repr_entries ((k, x) :: (k2, y) :: r'))
      with (repr_str k ++ ":"%char :: cSP :: py_repr x ++ ","%char :: cSP :: repr_entries ((k2, y) :: r')).
    change (esize vsize ((k, x) :: (k2, y) :: r')) with (1 + vsize x + esize vsize ((k2, y) :: r')).
    set (a := repr_entries ((k2, y) :: r')) in *. set (b := esize vsize ((k2, y) :: r')) in *.
    rewrite app_length. cbn [List.length]. rewrite app_length. cbn [List.length]. lia.
Qed.

Lemma vsize_bound v : wf_val v = true -> vsize v <= 2 * List.length (py_repr v).
Proof.
  induction v using pyval_ind2; intro W;
    try (assert (G := good_len _ (repr_good _ W)); simpl vsize; lia).
  - rewrite vsize_list, py_repr_list. simpl in W. assert (B := items_len l H W).
    cbn [List.length]. rewrite app_length. cbn [List.length]. lia.
  - rewrite vsize_dict, py_repr_dict. simpl in W. apply andb_true_iff in W as [_ W].
    assert (B := entries_len kv H W).
    cbn [List.length]. rewrite app_length. cbn [List.length]. lia.
Qed.

Theorem repr_roundtrip v : wf_val v = true -> py_literal_eval (py_repr v) = Some v.
Proof.
  intro W. unfold py_literal_eval.
  rewrite <- (app_nil_r (py_repr v)) at 2.
  rewrite (pval_roundtrip v W); [reflexivity| |reflexivity].
  assert (B := vsize_bound v W). lia.
Qed.

(* the same fact inside a larger text: what eval_module needs (constants are embedded in calls) *)
Theorem repr_roundtrip_ctx v rest n : wf_val v = true -> vsize v <= n -> stop numch rest = true ->
  pval n (py_repr v ++ rest) = Some (v, rest).
Proof. intros. apply pval_roundtrip; assumption. Qed.

(* non-finite floats: repr prints a bare name that literal_eval rejects *)
Theorem repr_nonfinite_refuted :
  exists v, py_val v = true /\ py_literal_eval (py_repr v) = None.
Proof. exists (PList [PFloat (s2l "inf")]). vm_compute. auto. Qed.

Lemma wf_of_py v : py_val v = true -> has_nonfinite v = false -> wf_val v = true.
Proof.
  induction v using pyval_ind2; simpl; auto.
  - intros A B. destruct (float_tok l); [reflexivity|]. simpl in *. rewrite A in B. discriminate.
  - induction l as [|x r IHr]; simpl; auto. inversion H as [|? ? Hx Hr]; subst.
    intros A B. apply andb_true_iff in A as [A1 A2]. apply orb_false_iff in B as [B1 B2].
    rewrite Hx by assumption. simpl. apply IHr; assumption.
  - intros A B. apply andb_true_iff in A as [K A]. rewrite K. simpl.
    clear K. induction kv as [|[k x] r IHr]; simpl; auto. inversion H as [|? ? Hx Hr]; subst. simpl in *.
    apply andb_true_iff in A as [A1 A2]. apply orb_false_iff in B as [B1 B2].
    rewrite Hx by assumption. simpl. apply IHr; assumption.
Qed.

Lemma wf_of_finite v : finite_val v = true -> wf_val v = true.
Proof.
  unfold finite_val. intro H. apply andb_true_iff in H as [A B]. apply negb_true_iff in B.
  apply wf_of_py; assumption.
Qed.
