(* C10: whatever the oracle, the fragments module contains the SAME classes; only their order is exposed.
   DFS invariants for Model/Nondet.v [visit] / [dfs_all] over a dependency-closed set of names. *)
From Coq Require Import List String Ascii Bool Arith Lia Permutation.
From AC Require Import Base.Strs Base.Sexp Base.SortUniq Model.Names Model.Settings Model.Nondet Proofs.NondetP.
Import ListNotations.
Local Open Scope string_scope.
Local Open Scope list_scope.

Definition dstate := (list string * list string)%type.     (* (visited, sorted_names) *)

Lemma NoDup_app_intro_single {A} (l : list A) x : NoDup l -> ~ In x l -> NoDup (l ++ [x]).
Proof.
  induction l as [|y r IH]; simpl; intros N H; [constructor; [intros []|constructor]|].
  inversion N; subst. constructor.
  - intro X. apply in_app_or in X. destruct X as [X|[X|[]]]; [contradiction | subst; apply H; left; reflexivity].
  - apply IH; auto.
Qed.

Section Dfs.
  Variable deps : string -> list string.
  Variable S : list string.                                  (* a set of names closed under deps *)
  Hypothesis closed : forall n d, In n S -> In d (deps n) -> In d S.

  Definition pre (st : dstate) : Prop :=
    incl (fst st) S /\ incl (snd st) (fst st) /\ NoDup (snd st).
  Definition step (st st' : dstate) : Prop :=
    pre st' /\ incl (fst st) (fst st') /\ incl (snd st) (snd st') /\
    (forall x, In x (fst st') -> In x (fst st) \/ In x (snd st')) /\
    (forall x, In x (snd st') -> In x (snd st) \/ ~ In x (fst st)).

  Lemma step_refl st : pre st -> step st st.
  Proof. intro P. repeat split; try apply P; try apply incl_refl; auto. Qed.

  Lemma step_trans a b c : step a b -> step b c -> step a c.
  Proof.
    intros [Pb [Va [Oa [Fa Ga]]]] [Pc [Vb [Ob [Fb Gb]]]].
    split; [exact Pc|]. split; [eapply incl_tran; eauto|]. split; [eapply incl_tran; eauto|]. split.
    - intros x Hx. destruct (Fb x Hx) as [H|H]; auto. destruct (Fa x H) as [H'|H']; auto.
    - intros x Hx. destruct (Gb x Hx) as [H|H].
      + destruct (Ga x H); auto.
      + right. intro Hv. apply H. apply Va. exact Hv.
  Qed.

  Definition fold_visit (F : string -> dstate -> option dstate) (l : list string) (acc : option dstate) :=
    fold_left (fun acc d => match acc with Some s => F d s | None => None end) l acc.

  Lemma fold_visit_none F l : fold_visit F l None = None.
  Proof. induction l; simpl; auto. Qed.

  Lemma fold_ok (F : string -> dstate -> option dstate) :
    (forall n st st', pre st -> In n S -> F n st = Some st' -> step st st' /\ In n (fst st')) ->
    forall l st st', pre st -> incl l S -> fold_visit F l (Some st) = Some st' ->
      step st st' /\ forall r, In r l -> In r (fst st').
  Proof.
    intros HF l. induction l as [|d r IH]; intros st st' P Hl H; simpl in H.
    - inversion H; subst. split; [apply step_refl; exact P | intros ? []].
    - destruct (F d st) as [st1|] eqn:E; [|unfold fold_visit in IH; rewrite (fold_visit_none F r) in H; discriminate].
      destruct (HF d st st1 P (Hl d (or_introl eq_refl)) E) as [S1 Hd].
      destruct (IH st1 st' (proj1 S1) (fun x Hx => Hl x (or_intror Hx)) H) as [S2 Hr].
      split; [eapply step_trans; eauto|].
      intros x [<-|Hx]; [apply (proj1 (proj2 S2)); exact Hd | apply Hr; exact Hx].
  Qed.

  Lemma visit_ok fuel : forall n st st', pre st -> In n S -> visit fuel deps n st = Some st' ->
    step st st' /\ In n (fst st').
  Proof.
    induction fuel as [|f IH]; intros n [vis out] st' P Hn H; simpl in H; [discriminate|].
    destruct (mem_s n vis) eqn:M.
    - inversion H; subst. split; [apply step_refl; exact P | apply mem_s_In; exact M].
    - assert (Nv : ~ In n vis) by (intro X; apply mem_s_In in X; congruence).
      destruct P as [Pv [Po Pn]]. simpl in Pv, Po, Pn.
      assert (P0 : pre (n :: vis, out)).
      { repeat split; simpl.
        - intros x [<-|Hx]; auto.
        - intros x Hx. right. apply Po. exact Hx.
        - exact Pn. }
      change (fold_left _ (deps n) (Some (n :: vis, out))) with
        (fold_visit (visit f deps) (deps n) (Some (n :: vis, out))) in H.
      destruct (fold_visit (visit f deps) (deps n) (Some (n :: vis, out))) as [[vis1 out1]|] eqn:E; [|discriminate].
      inversion H; subst. clear H.
      destruct (fold_ok (visit f deps) IH (deps n) (n :: vis, out) (vis1, out1) P0
                  (fun d Hd => closed n d Hn Hd) E) as [[P1 [V1 [O1 [F1 G1]]]] _].
      destruct P1 as [P1v [P1o P1n]]. simpl in *.
      assert (Hn1 : In n vis1) by (apply V1; left; auto).
      assert (Nout : ~ In n out1).
      { intro X. destruct (G1 n X) as [H|H]; [apply Nv, Po, H | apply H; left; auto]. }
      split; [|exact Hn1].
      split; [|split; [|split; [|split]]]; simpl.
      + repeat split; simpl; auto.
        * intros x Hx. apply in_app_or in Hx. destruct Hx as [Hx|[<-|[]]]; auto.
        * apply NoDup_app_intro_single; auto.
      + intros x Hx. apply V1. right. exact Hx.
      + intros x Hx. apply in_or_app. left. apply O1. exact Hx.
      + intros x Hx. destruct (F1 x Hx) as [[<-|H]|H]; auto.
        * right. apply in_or_app. right. left. reflexivity.
        * right. apply in_or_app. left. exact H.
      + intros x Hx. apply in_app_or in Hx. destruct Hx as [Hx|[<-|[]]]; [|right; exact Nv].
        destruct (G1 x Hx) as [H|H]; [left; exact H | right; intro X; apply H; right; exact X].
  Qed.

  Theorem dfs_all_exact fuel roots out :
    incl roots S -> dfs_all fuel deps roots = Some out ->
    NoDup out /\ incl out S /\ incl roots out.
  Proof.
    intros Hr H. unfold dfs_all in H.
    change (fold_left _ roots (Some ([], []))) with (fold_visit (visit fuel deps) roots (Some ([], []))) in H.
    destruct (fold_visit (visit fuel deps) roots (Some ([], []))) as [[vis o]|] eqn:E; [|discriminate].
    inversion H; subst. clear H.
    assert (P0 : pre ([], [])) by (repeat split; simpl; try (intros ? []); constructor).
    destruct (fold_ok (visit fuel deps) (visit_ok fuel) roots ([], []) (vis, out) P0 Hr E)
      as [[[Pv [Po Pn]] [_ [_ [F _]]]] Hroots].
    simpl in *. split; [exact Pn|]. split.
    - intros x Hx. apply Pv, Po, Hx.
    - intros x Hx. destruct (F x (Hroots x Hx)) as [[]|H]; exact H.
  Qed.
End Dfs.

(* ------------------------------------------------------------------ membership through the model's list functions *)
Lemma In_str_sort x l : In x (str_sort l) <-> In x l.
Proof.
  unfold str_sort. split; intro H.
  - apply (Permutation_in _ (isort_perm _ str_leb l)); exact H.
  - apply (Permutation_in _ (Permutation_sym (isort_perm _ str_leb l))); exact H.
Qed.

Lemma In_permute {A} (x : A) c l : In x (permute c l) <-> In x l.
Proof.
  split; intro H.
  - apply (Permutation_in _ (permute_perm c l)); exact H.
  - apply (Permutation_in _ (Permutation_sym (permute_perm c l))); exact H.
Qed.

Lemma In_set_diff x a b : In x (set_diff a b) <-> In x a /\ ~ In x b.
Proof.
  unfold set_diff. rewrite filter_In. split; intros [H1 H2]; split; auto.
  - intro X. apply mem_s_In in X. rewrite X in H2. discriminate.
  - destruct (mem_s x b) eqn:E; auto. apply mem_s_In in E. contradiction.
Qed.

Lemma In_dedupe_first x l : forall seen, In x (dedupe_first seen l) <-> In x l /\ ~ In x seen.
Proof.
  induction l as [|y r IH]; intro seen; simpl; [tauto|].
  destruct (mem_s y seen) eqn:E.
  - apply mem_s_In in E. rewrite IH. split.
    + intros [H1 H2]. auto.
    + intros [[<-|H1] H2]; [contradiction | auto].
  - assert (Ny : ~ In y seen) by (intro X; apply mem_s_In in X; congruence).
    simpl. rewrite IH. split.
    + intros [<-|[H1 H2]]; [auto|]. split; [right; exact H1 | intro X; apply H2; right; exact X].
    + intros [[<-|H1] H2]; [left; reflexivity|].
      destruct (string_dec y x) as [<-|Ne]; [left; reflexivity|].
      right. split; [exact H1|]. intros [X|X]; [apply Ne; exact X | apply H2; exact X].
Qed.

Lemma In_deps_iter o fi n d : In d (deps_iter o fi n) <-> In d (mix_of fi n).
Proof. unfold deps_iter. apply In_permute. Qed.

Lemma In_dfs_deps o fi n d : In d (dfs_deps o fi n) <-> In d (mix_of fi n).
Proof. unfold dfs_deps. rewrite In_str_sort. apply In_deps_iter. Qed.

Lemma In_dfs_deps_unsorted o fi n d : In d (dfs_deps_unsorted o fi n) <-> In d (mix_of fi n).
Proof. apply In_deps_iter. Qed.

(* ------------------------------------------------------------------ the worklist closes the name set under mixins *)
Definition winv (fi : finput) (queue names processed : list string) : Prop :=
  (forall n, In n names -> In n processed \/ In n queue) /\
  (forall n d, In n processed -> In d (mix_of fi n) -> In d names) /\
  incl queue names.

Lemma work_closed fuel o fi : forall queue names processed names' processed',
  winv fi queue names processed -> work fuel o fi queue names processed = Some (names', processed') ->
  (forall n d, In n names' -> In d (mix_of fi n) -> In d names') /\ incl names names'.
Proof.
  induction fuel as [|f IH]; intros queue names processed names' processed' [I1 [I2 I3]] H;
    destruct queue as [|n q]; simpl in H; try discriminate.
  - inversion H; subst. split; [|apply incl_refl].
    intros n d Hn Hd. destruct (I1 n Hn) as [Hp|[]]. eapply I2; eauto.
  - inversion H; subst. split; [|apply incl_refl].
    intros n d Hn Hd. destruct (I1 n Hn) as [Hp|[]]. eapply I2; eauto.
  - set (fresh := set_diff (dedupe_first [] (str_sort (deps_iter o fi n))) names) in *.
    assert (Hfresh : forall d, In d (mix_of fi n) -> In d names \/ In d fresh).
    { intros d Hd. destruct (in_dec string_dec d names) as [Y|N]; [left; exact Y|right].
      unfold fresh. apply In_set_diff. split; [|exact N].
      apply In_dedupe_first. split; [|intros []]. apply In_str_sort, In_deps_iter. exact Hd. }
    destruct (IH (q ++ fresh) (names ++ fresh) (processed ++ [n]) names' processed') as [C Inc]; auto.
    + split; [|split].
      * intros m Hm. apply in_app_or in Hm. destruct Hm as [Hm|Hm].
        -- destruct (I1 m Hm) as [Hp|[<-|Hq]].
           ++ left. apply in_or_app. left. exact Hp.
           ++ left. apply in_or_app. right. left. reflexivity.
           ++ right. apply in_or_app. left. exact Hq.
        -- right. apply in_or_app. right. exact Hm.
      * intros m d Hm Hd. apply in_app_or in Hm. destruct Hm as [Hm|[<-|[]]].
        -- apply in_or_app. left. eapply I2; eauto.
        -- apply in_or_app. destruct (Hfresh d Hd); auto.
      * intros m Hm. apply in_app_or in Hm. apply in_or_app. destruct Hm as [Hm|Hm]; auto.
        left. apply I3. right. exact Hm.
    + split; [exact C|]. intros m Hm. apply Inc. apply in_or_app. left. exact Hm.
Qed.

(* ------------------------------------------------------------------ what the module contains *)
(* For any dependency iteration whose MEMBERS are the mixins (sorted or not), any two oracles: same generation
   order, class orders that are permutations of each other, no class twice, every requested fragment present. *)
Theorem frag_module_same_classes deps1 deps2 o1 o2 fi p1 ord1 p2 ord2 :
  (forall o n d, In d (deps1 o fi n) <-> In d (mix_of fi n)) ->
  (forall o n d, In d (deps2 o fi n) <-> In d (mix_of fi n)) ->
  frag_module_order_with deps1 o1 fi = Some (p1, ord1) ->
  frag_module_order_with deps2 o2 fi = Some (p2, ord2) ->
  p1 = p2 /\ Permutation ord1 ord2 /\ NoDup ord1 /\
  (forall x, In x (set_diff (fi_defs fi) (fi_excl fi)) -> In x ord1).
Proof.
  unfold frag_module_order_with. intros M1 M2 H1 H2.
  set (names0 := set_diff (fi_defs fi) (fi_excl fi)) in *.
  rewrite (names_sorted_independent o1 o2) in H1. rewrite (work_independent _ o1 o2) in H1.
  destruct (work (frag_fuel fi) o2 fi (str_sort (permute (o2 "<names>") names0)) names0 [])
    as [[names processed]|] eqn:W; [|discriminate].
  rewrite (names_sorted_independent o1 o2) in H1.
  set (roots := str_sort (permute (o2 "<names>") names)) in *.
  destruct (dfs_all (frag_fuel fi) (deps1 o1 fi) roots) as [r1|] eqn:D1; [|discriminate].
  destruct (dfs_all (frag_fuel fi) (deps2 o2 fi) roots) as [r2|] eqn:D2; [|discriminate].
  inversion H1; subst. inversion H2; subst. clear H1 H2.
  assert (WI : winv fi (str_sort (permute (o2 "<names>") names0)) names0 []).
  { split; [|split].
    - intros n Hn. right. apply In_str_sort, In_permute. exact Hn.
    - intros n d [].
    - intros n Hn. apply In_str_sort, In_permute in Hn. exact Hn. }
  destruct (work_closed _ _ _ _ _ _ _ _ WI W) as [C Inc].
  assert (Rin : incl roots names) by (intros x Hx; apply In_str_sort, In_permute in Hx; exact Hx).
  assert (Rout : incl names roots) by (intros x Hx; apply In_str_sort, In_permute; exact Hx).
  destruct (dfs_all_exact (deps1 o1 fi) names
              (fun n d Hn Hd => C n d Hn (proj1 (M1 o1 n d) Hd)) _ roots ord1 Rin D1) as [N1 [S1 R1]].
  destruct (dfs_all_exact (deps2 o2 fi) names
              (fun n d Hn Hd => C n d Hn (proj1 (M2 o2 n d) Hd)) _ roots ord2 Rin D2) as [N2 [S2 R2]].
  split; [reflexivity|]. split; [|split; [exact N1|]].
  - apply NoDup_Permutation; auto. intro x. split; intro Hx.
    + apply R2, Rout, S1, Hx.
    + apply R1, Rout, S2, Hx.
  - intros x Hx. apply R1, Rout, Inc. exact Hx.
Qed.

(* the module as generated: no class twice, every requested fragment present *)
Theorem frag_module_complete o fi p ord :
  frag_module_order o fi = Some (p, ord) ->
  NoDup ord /\ (forall x, In x (set_diff (fi_defs fi) (fi_excl fi)) -> In x ord).
Proof.
  intro H.
  destruct (frag_module_same_classes dfs_deps dfs_deps o o fi p ord p ord
              (fun o' n d => In_dfs_deps o' fi n d) (fun o' n d => In_dfs_deps o' fi n d) H H) as [_ [_ R]].
  exact R.
Qed.

(* the pre-93e79d6 DFS could only ever reorder: same classes as the sorted one *)
Theorem frag_module_unsorted_same_classes o1 o2 fi p1 ord1 p2 ord2 :
  frag_module_order_unsorted o1 fi = Some (p1, ord1) -> frag_module_order o2 fi = Some (p2, ord2) ->
  p1 = p2 /\ Permutation ord1 ord2.
Proof.
  intros H1 H2.
  destruct (frag_module_same_classes dfs_deps_unsorted dfs_deps o1 o2 fi p1 ord1 p2 ord2
              (fun o' n d => In_dfs_deps_unsorted o' fi n d) (fun o' n d => In_dfs_deps o' fi n d) H1 H2)
    as [E [P _]].
  split; assumption.
Qed.
