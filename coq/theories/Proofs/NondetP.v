(* Proofs about Model/Nondet.v (C10). *)
From Coq Require Import List String Ascii Bool Arith Lia Permutation.
From AC Require Import Base.Strs Base.Sexp Base.SortUniq Model.Names Model.Settings Model.Nondet.
Import ListNotations.
Local Open Scope string_scope.
Local Open Scope list_scope.

(* ------------------------------------------------------------------ oracles are exactly the permutations *)
Lemma remove_nth_length {A} (l : list A) k : k < List.length l -> List.length (remove_nth k l) = pred (List.length l).
Proof.
  revert k; induction l as [|x r IH]; intros k H; simpl in *; [lia|].
  destruct k; simpl; auto. rewrite IH by lia. destruct r; simpl in *; lia.
Qed.

Lemma nth_remove_perm {A} (l : list A) k d :
  k < List.length l -> Permutation (nth k l d :: remove_nth k l) l.
Proof.
  revert k; induction l as [|x r IH]; intros k H; simpl in *; [lia|].
  destruct k; simpl; auto.
  eapply perm_trans; [apply perm_swap|]. apply perm_skip. apply IH. lia.
Qed.

Lemma permute_aux_perm {A} fuel : forall o (l : list A),
  List.length l <= fuel -> Permutation (permute_aux fuel o l) l.
Proof.
  induction fuel as [|f IH]; intros o l H.
  - destruct l; simpl in *; [constructor | lia].
  - destruct l as [|d r]; [constructor|].
    cbn [permute_aux].
    set (k := Nat.modulo (hd 0 o) (List.length (d :: r))).
    assert (Hk : k < List.length (d :: r)) by (apply Nat.mod_upper_bound; simpl; lia).
    eapply perm_trans; [apply perm_skip, IH | apply nth_remove_perm; exact Hk].
    rewrite remove_nth_length by exact Hk. simpl in *. lia.
Qed.

Theorem permute_perm {A} o (l : list A) : Permutation (permute o l) l.
Proof. apply permute_aux_perm. lia. Qed.

Lemma In_nth_remove {A} (x : A) l d :
  In x l -> exists k, k < List.length l /\ nth k l d = x.
Proof. intro H. destruct (In_nth l x d H) as [k [Hk E]]. exists k; auto. Qed.

Lemma permute_aux_fuel {A} fuel fuel' : forall o (l : list A),
  List.length l <= fuel -> List.length l <= fuel' -> permute_aux fuel o l = permute_aux fuel' o l.
Proof.
  revert fuel'; induction fuel as [|f IH]; intros fuel' o l H H'.
  - destruct l; simpl in *; [destruct fuel'; reflexivity | lia].
  - destruct l as [|d r]; [destruct fuel'; reflexivity|].
    destruct fuel' as [|f']; [simpl in H'; lia|].
    cbn [permute_aux]. f_equal.
    set (k := Nat.modulo (hd 0 o) (List.length (d :: r))).
    assert (Hk : k < List.length (d :: r)) by (apply Nat.mod_upper_bound; simpl; lia).
    apply IH; rewrite remove_nth_length by exact Hk; simpl in *; lia.
Qed.

Lemma permute_cons {A} k o (l : list A) d :
  k < List.length l -> permute (k :: o) l = nth k l d :: permute o (remove_nth k l).
Proof.
  intro Hk. destruct l as [|x r]; [simpl in Hk; lia|].
  unfold permute at 1. change (List.length (x :: r)) with (S (List.length r)) at 1.
  cbn [permute_aux hd tl]. rewrite (Nat.mod_small _ _ Hk).
  f_equal; [apply nth_indep; exact Hk|].
  unfold permute. apply permute_aux_fuel; rewrite remove_nth_length by exact Hk; simpl; lia.
Qed.

(* every permutation of the content is the iteration order under some oracle *)
Theorem permute_complete {A} (l l' : list A) : Permutation l l' -> exists o, permute o l = l'.
Proof.
  revert l; induction l' as [|x r' IH]; intros l P.
  - apply Permutation_sym, Permutation_nil in P. subst. exists []. reflexivity.
  - assert (Hin : In x l) by (apply (Permutation_in _ (Permutation_sym P)); left; auto).
    destruct l as [|d r]; [contradiction|].
    destruct (In_nth_remove x (d :: r) d Hin) as [k [Hk Ek]].
    assert (P' : Permutation (remove_nth k (d :: r)) r').
    { apply (Permutation_cons_inv (a := x)). rewrite <- Ek.
      eapply perm_trans; [apply nth_remove_perm; exact Hk|]. rewrite Ek. exact P. }
    destruct (IH _ P') as [o' Ho'].
    exists (k :: o'). rewrite (permute_cons k o' (d :: r) d Hk). rewrite Ek. f_equal. exact Ho'.
Qed.

Lemma permute_short {A} o (l : list A) : List.length l <= 1 -> permute o l = l.
Proof.
  destruct l as [|x [|y r]]; simpl; intro H; try lia; [reflexivity|].
  unfold permute. change (List.length [x]) with 1. cbn [permute_aux].
  change (List.length [x]) with 1. rewrite Nat.mod_1_r. reflexivity.
Qed.

Lemma permute_two_codes {A} c1 c2 (l : list A) : Permutation (permute c1 l) (permute c2 l).
Proof. eapply perm_trans; [apply permute_perm | apply Permutation_sym, permute_perm]. Qed.

(* ------------------------------------------------------------------ order-free observations *)
Lemma mem_s_In x l : mem_s x l = true <-> In x l.
Proof.
  unfold mem_s. rewrite existsb_exists. split.
  - intros [y [Hy E]]. apply String.eqb_eq in E. subst; auto.
  - intro H. exists x. split; auto. apply String.eqb_refl.
Qed.

Lemma mem_s_perm x l1 l2 : Permutation l1 l2 -> mem_s x l1 = mem_s x l2.
Proof.
  intro P. destruct (mem_s x l1) eqn:E1, (mem_s x l2) eqn:E2; auto.
  - apply mem_s_In in E1. apply (Permutation_in _ P) in E1. apply mem_s_In in E1. congruence.
  - apply mem_s_In in E2. apply (Permutation_in _ (Permutation_sym P)) in E2. apply mem_s_In in E2. congruence.
Qed.

(* ------------------------------------------------------------------ sorted(...) sites *)
Theorem class_bases_independent c1 c2 frs : class_bases c1 frs = class_bases c2 frs.
Proof. unfold class_bases. f_equal. apply str_sort_perm_invariant, permute_two_codes. Qed.

Theorem related_fragments_independent c1 c2 l : related_fragments c1 l = related_fragments c2 l.
Proof. apply str_sort_perm_invariant, permute_two_codes. Qed.

Theorem typename_literal_independent c1 c2 abs tn ps :
  typename_literal c1 abs tn ps = typename_literal c2 abs tn ps.
Proof.
  unfold typename_literal, typename_values_raw. apply str_sort_perm_invariant.
  apply perm_skip, permute_two_codes.
Qed.

(* without the downstream sort the literal would depend on the oracle *)
Theorem typename_values_raw_refuted : exists c1 c2 abs tn ps,
  typename_values_raw c1 abs tn ps <> typename_values_raw c2 abs tn ps.
Proof. exists [], [1], "Node", ["Node"], ["A"; "B"]. vm_compute. discriminate. Qed.

(* ------------------------------------------------------------------ isort on import names *)
Lemma dedupe_first_nodup l : forall seen,
  NoDup l -> (forall x, In x l -> ~ In x seen) -> dedupe_first seen l = l.
Proof.
  induction l as [|x r IH]; intros seen N D; simpl; auto.
  inversion N as [|? ? Nx Nr]; subst.
  destruct (mem_s x seen) eqn:E.
  - apply mem_s_In in E. exfalso. apply (D x); simpl; auto.
  - f_equal. apply IH; auto. intros y Hy [<-|Hs]; [contradiction|]. apply (D y); simpl; auto.
Qed.

Lemma NoDup_map_inv {A B} (f : A -> B) l : NoDup (map f l) -> NoDup l.
Proof.
  induction l as [|x r IH]; simpl; intro N; constructor; inversion N; subst; auto.
  intro H. apply H1. apply in_map. exact H.
Qed.

Theorem isort_names_perm_invariant l1 l2 :
  NoDup (map isort_key l1) -> Permutation l1 l2 -> isort_names l1 = isort_names l2.
Proof.
  intros N P. unfold isort_names.
  assert (N1 : NoDup l1) by (eapply NoDup_map_inv; exact N).
  assert (N2 : NoDup l2) by (eapply Permutation_NoDup; eauto).
  rewrite !dedupe_first_nodup by (auto; intros ? ? []).
  apply ksort_perm_invariant; auto.
  - apply String.leb_total.
  - apply String.leb_antisym.
  - apply string_leb_trans.
Qed.

(* the names of `from .fragments import ...` never depend on the oracle: the set is sorted before isort sees it *)
Theorem op_import_names_independent c1 c2 mixins : op_import_names c1 mixins = op_import_names c2 mixins.
Proof.
  unfold op_import_names. do 2 f_equal. apply str_sort_perm_invariant, permute_two_codes.
Qed.

(* (what made the sort necessary: isort alone is canonical only when the keys are distinct) *)
Theorem op_import_names_unsorted_distinct_keys c1 c2 mixins :
  NoDup (map isort_key (map pascal_s mixins)) ->
  op_import_names_unsorted c1 mixins = op_import_names_unsorted c2 mixins.
Proof.
  intro G. unfold op_import_names_unsorted. apply isort_names_perm_invariant.
  - eapply Permutation_NoDup; [|exact G].
    apply Permutation_map, Permutation_map, Permutation_sym, permute_perm.
  - apply Permutation_map, permute_two_codes.
Qed.

(* ------------------------------------------------------------------ the fragments module *)
Lemma deps_sorted_independent o1 o2 fi n :
  str_sort (deps_iter o1 fi n) = str_sort (deps_iter o2 fi n).
Proof. apply str_sort_perm_invariant, permute_two_codes. Qed.

Lemma work_independent fuel o1 o2 fi : forall queue names processed,
  work fuel o1 fi queue names processed = work fuel o2 fi queue names processed.
Proof.
  induction fuel as [|f IH]; intros queue names processed; destruct queue as [|n q]; simpl; auto.
  rewrite (deps_sorted_independent o1 o2). apply IH.
Qed.

Lemma fold_visit_ext (F1 F2 : string -> list string * list string -> option (list string * list string)) :
  (forall d s, F1 d s = F2 d s) -> forall l acc,
  fold_left (fun acc d => match acc with Some s => F1 d s | None => None end) l acc =
  fold_left (fun acc d => match acc with Some s => F2 d s | None => None end) l acc.
Proof.
  intros E l. induction l as [|d r IH]; intro acc; simpl; auto.
  destruct acc as [s|]; [rewrite E|]; apply IH.
Qed.

Lemma visit_ext fuel deps1 deps2 : (forall n, deps1 n = deps2 n) ->
  forall n st, visit fuel deps1 n st = visit fuel deps2 n st.
Proof.
  intro E. induction fuel as [|f IH]; intros n st; simpl; auto.
  destruct st as [vis out]. destruct (mem_s n vis); auto.
  rewrite E. rewrite (fold_visit_ext (visit f deps1) (visit f deps2) IH). reflexivity.
Qed.

Lemma dfs_all_ext fuel deps1 deps2 roots : (forall n, deps1 n = deps2 n) ->
  dfs_all fuel deps1 roots = dfs_all fuel deps2 roots.
Proof.
  intro E. unfold dfs_all.
  rewrite (fold_visit_ext (visit fuel deps1) (visit fuel deps2) (visit_ext fuel deps1 deps2 E)). reflexivity.
Qed.

Lemma names_sorted_independent (o1 o2 : orc) l :
  str_sort (permute (o1 "<names>") l) = str_sort (permute (o2 "<names>") l).
Proof. apply str_sort_perm_invariant, permute_two_codes. Qed.

Lemma frag_module_order_by_deps deps o1 o2 fi :
  (forall n, deps o1 fi n = deps o2 fi n) ->
  frag_module_order_with deps o1 fi = frag_module_order_with deps o2 fi.
Proof.
  intro E. unfold frag_module_order_with.
  rewrite (names_sorted_independent o1 o2). rewrite (work_independent _ o1 o2).
  destruct (work _ o2 fi _ _ _) as [[names processed]|]; auto.
  rewrite (names_sorted_independent o1 o2). rewrite (dfs_all_ext _ _ _ _ E). reflexivity.
Qed.

(* the whole module order (generation order and class order) is oracle-independent *)
Theorem toposort_oracle_independent o1 o2 fi : frag_module_order o1 fi = frag_module_order o2 fi.
Proof. apply frag_module_order_by_deps. intro n. apply deps_sorted_independent. Qed.

Definition fi_f12 : finput :=
  {| fi_defs := ["FragA"; "FragB"; "FragC"];
     fi_mix := [("FragA", ["FragB"; "FragC"]); ("FragB", []); ("FragC", [])];
     fi_excl := [] |}.

(* whatever the oracle, the ORDER OF GENERATION (imports, public names, used enums) is the same: the
   worklist sorts; only the class order of the module is exposed *)
Theorem generation_order_independent o1 o2 fi fuel queue names processed :
  work fuel o1 fi queue names processed = work fuel o2 fi queue names processed.
Proof. apply work_independent. Qed.

(* ------------------------------------------------------------------ directory listing *)
Lemma perm_filter {A} (f : A -> bool) l1 l2 : Permutation l1 l2 -> Permutation (filter f l1) (filter f l2).
Proof.
  induction 1; simpl; auto.
  - destruct (f x); auto.
  - destruct (f x), (f y); auto. apply perm_swap.
  - eapply perm_trans; eauto.
Qed.

Lemma NoDup_map_filter {A B} (g : A -> B) (f : A -> bool) l : NoDup (map g l) -> NoDup (map g (filter f l)).
Proof.
  induction l as [|x r IH]; simpl; intro N; [constructor|].
  inversion N as [|? ? Nx Nr]; subst.
  destruct (f x); simpl; auto. constructor; auto.
  intro H. apply Nx. apply in_map_iff in H. destruct H as [y [E Hy]].
  apply filter_In in Hy. destruct Hy as [Hy _]. rewrite <- E. apply in_map. exact Hy.
Qed.

Theorem load_dir_independent c1 c2 files :
  NoDup (map fst files) -> load_dir c1 files = load_dir c2 files.
Proof.
  intro N. unfold load_dir. apply ksort_perm_invariant.
  - apply lex_total, String.leb_total.
  - apply lex_antisym, String.leb_antisym.
  - apply lex_trans, string_leb_trans.
  - unfold keys_distinct. apply NoDup_map_filter.
    eapply Permutation_NoDup; [|exact N]. apply Permutation_map, Permutation_sym, permute_perm.
  - apply perm_filter, permute_two_codes.
Qed.

Theorem load_dir_text_independent c1 c2 files :
  NoDup (map fst files) -> load_dir_text c1 files = load_dir_text c2 files.
Proof. intro N. unfold load_dir_text. rewrite (load_dir_independent c1 c2 files N). reflexivity. Qed.

(* whatever is computed from the loaded text (client or graphqlschema strategy) inherits it *)
Theorem strategy_independent_of_listing {X} (generate : string -> X) c1 c2 files :
  NoDup (map fst files) -> generate (load_dir_text c1 files) = generate (load_dir_text c2 files).
Proof. intro N. rewrite (load_dir_text_independent c1 c2 files N). reflexivity. Qed.

(* ------------------------------------------------------------------ the target directory *)
Lemma fs_lookup_write m n b fs :
  fs_lookup m (fs_write n b fs) = if String.eqb m n then Some b else fs_lookup m fs.
Proof.
  unfold fs_lookup. induction fs as [|[n' b'] r IH]; simpl.
  - destruct (String.eqb m n); reflexivity.
  - destruct (String.eqb n n') eqn:E; simpl.
    + apply String.eqb_eq in E. subst n'. destruct (String.eqb m n); reflexivity.
    + destruct (String.eqb m n') eqn:E'.
      * apply String.eqb_eq in E'. subst n'.
        destruct (String.eqb m n) eqn:E2; auto. apply String.eqb_eq in E2. subst.
        rewrite String.eqb_refl in E. discriminate.
      * exact IH.
Qed.

Lemma lookup_write_all m : forall p fs,
  fs_lookup m (write_all p fs) =
  match last_write m p with Some b => Some b | None => fs_lookup m fs end.
Proof.
  unfold write_all. induction p as [|[n b] r IH]; intro fs; simpl; auto.
  rewrite IH. destruct (last_write m r); auto.
  rewrite fs_lookup_write. destruct (String.eqb m n); reflexivity.
Qed.

(* regenerating changes nothing that can be read back, for ANY previous content and any package *)
Theorem regenerate_idempotent_lookup p fs m :
  fs_lookup m (write_all p (write_all p fs)) = fs_lookup m (write_all p fs).
Proof. rewrite !lookup_write_all. destruct (last_write m p); reflexivity. Qed.

Lemma last_write_In m p : In m (map fst p) -> exists b, last_write m p = Some b.
Proof.
  induction p as [|[n b] r IH]; simpl; [contradiction|].
  intros [E|H].
  - subst. destruct (last_write m r); eauto. rewrite String.eqb_refl. eauto.
  - destruct (IH H) as [b' E]. rewrite E. eauto.
Qed.

(* on the files of the package the result does not depend on what was there before *)
Theorem regenerate_independent_of_previous p fs1 fs2 m :
  In m (map fst p) -> fs_lookup m (write_all p fs1) = fs_lookup m (write_all p fs2).
Proof. intro H. rewrite !lookup_write_all. destruct (last_write_In m p H) as [b E]. rewrite E. reflexivity. Qed.

(* files that are not of the package are left alone (stale files survive) *)
Theorem regenerate_keeps_other_files p fs m :
  ~ In m (map fst p) -> fs_lookup m (write_all p fs) = fs_lookup m fs.
Proof.
  intro H. rewrite lookup_write_all.
  assert (E : last_write m p = None).
  { induction p as [|[n b] r IH]; simpl; auto. simpl in H.
    rewrite IH by tauto. destruct (String.eqb m n) eqn:E; auto.
    apply String.eqb_eq in E. subst. tauto. }
  rewrite E. reflexivity.
Qed.

Lemma fs_write_same n b fs : fs_lookup n fs = Some b -> fs_write n b fs = fs.
Proof.
  unfold fs_lookup. induction fs as [|[n' b'] r IH]; simpl; [discriminate|].
  destruct (String.eqb n n') eqn:E.
  - intro H. inversion H; subst. apply String.eqb_eq in E. subst. reflexivity.
  - intro H. f_equal. apply IH. exact H.
Qed.

Lemma write_all_fixed q : forall fs,
  (forall n b, In (n, b) q -> fs_lookup n fs = Some b) -> write_all q fs = fs.
Proof.
  unfold write_all. induction q as [|[n b] r IH]; intros fs H; simpl; auto.
  rewrite fs_write_same by (apply H; left; reflexivity).
  apply IH. intros n' b' Hin. apply H. right. exact Hin.
Qed.

Lemma last_write_nodup p n b : NoDup (map fst p) -> In (n, b) p -> last_write n p = Some b.
Proof.
  induction p as [|[n' b'] r IH]; simpl; [contradiction|].
  intros N [E|H]; inversion N as [|? ? Nx Nr]; subst.
  - inversion E; subst.
    assert (E' : last_write n r = None).
    { clear -Nx. induction r as [|[m c] r IH]; simpl in *; auto.
      rewrite IH by tauto. destruct (String.eqb n m) eqn:E; auto.
      apply String.eqb_eq in E. subst. tauto. }
    rewrite E'. rewrite String.eqb_refl. reflexivity.
  - rewrite (IH Nr H). reflexivity.
Qed.

(* the directory itself (names, order, contents) is a fixed point of the second generation *)
Theorem regenerate_idempotent p fs :
  NoDup (map fst p) -> write_all p (write_all p fs) = write_all p fs.
Proof.
  intro N. apply write_all_fixed. intros n b H.
  rewrite lookup_write_all. rewrite (last_write_nodup p n b N H). reflexivity.
Qed.

(* ------------------------------------------------------------------ interpreter-global state *)
Theorem gen_keeps_state plugin wanted st : snd (gen_client_imports plugin wanted st) = st.
Proof.
  unfold gen_client_imports. destruct plugin; [|reflexivity].
  destruct (reduced_imports wanted st). reflexivity.
Qed.

Lemma run_history_id hist : forall st, run_history hist st = st.
Proof.
  unfold run_history. induction hist as [|h r IH]; intro st; simpl; auto.
  rewrite gen_keeps_state. apply IH.
Qed.

(* what a generation emits does not depend on what the interpreter generated before *)
Theorem gen_history_independent hist plugin wanted st :
  fst (gen_client_imports plugin wanted (run_history hist st)) = fst (gen_client_imports plugin wanted st).
Proof. rewrite run_history_id. reflexivity. Qed.

(* ------------------------------------------------------------------ isort's section placement *)
(* no source path is searched: the import blocks do not depend on what exists below cwd *)
Theorem layout_env_independent sl e1 e2 imps : layout sl e1 imps = layout sl e2 imps.
Proof. reflexivity. Qed.

Definition imps_selfimport : list (nat * string) :=
  [(0, "typing"); (0, "pydantic"); (0, "my_client.scalars_impl"); (1, "base_model")].

Theorem observe_env_independent k : env_sensitive k = false ->
  forall sl e1 e2 imps, observe_env k sl e1 imps = observe_env k sl e2 imps.
Proof. intros H sl e1 e2 imps. destruct k; try discriminate; reflexivity. Qed.

(* why no row may have the source-path sink *)
Theorem observe_env_refuted k : env_sensitive k = true ->
  exists sl e1 e2 imps, observe_env k sl e1 imps <> observe_env k sl e2 imps.
Proof.
  intro H. destruct k; try discriminate.
  exists ["typing"], (gen_env [] "my_client" false ["my_client.scalars_impl"]),
         (gen_env [] "my_client" true ["my_client.scalars_impl"]), imps_selfimport.
  vm_compute. discriminate.
Qed.

(* ------------------------------------------------------------------ the site table *)
Theorem observe_independent k : order_sensitive k = false ->
  forall l c1 c2 probe, observe k (permute c1 l) probe = observe k (permute c2 l) probe.
Proof.
  intros H l c1 c2 probe. destruct k; try discriminate; simpl; auto.
  - apply str_sort_perm_invariant, permute_two_codes.
  - rewrite (mem_s_perm probe _ _ (permute_two_codes c1 c2 l)).
    rewrite (Permutation_length (permute_two_codes c1 c2 l)). reflexivity.
Qed.

Theorem observe_refuted k : order_sensitive k = true ->
  exists l c1 c2 probe, NoDup l /\ observe k (permute c1 l) probe <> observe k (permute c2 l) probe.
Proof.
  intro H. exists ["FooBar"; "Foobar"], [], [1], "".
  split; [repeat constructor; simpl; intuition discriminate|].
  destruct k; try discriminate; vm_compute; discriminate.
Qed.

Theorem observe_isort_partial l c1 c2 probe : NoDup (map isort_key l) ->
  observe SkIsort (permute c1 l) probe = observe SkIsort (permute c2 l) probe.
Proof.
  intro N. simpl. apply isort_names_perm_invariant.
  - eapply Permutation_NoDup; [|exact N]. apply Permutation_map, Permutation_sym, permute_perm.
  - apply permute_two_codes.
Qed.

Lemma site_table_order_free : forallb (fun s => negb (order_sensitive (s_sink s))) site_table = true.
Proof. vm_compute. reflexivity. Qed.

(* EVERY row of the table: what reaches the emitted text does not depend on the iteration order *)
Theorem emission_oracle_independent : forall s, In s site_table ->
  forall l c1 c2 probe, observe (s_sink s) (permute c1 l) probe = observe (s_sink s) (permute c2 l) probe.
Proof.
  intros s Hin. apply observe_independent.
  pose proof site_table_order_free as H. rewrite forallb_forall in H.
  specialize (H s Hin). destruct (order_sensitive (s_sink s)); [discriminate | reflexivity].
Qed.

(* the rows whose sink would be order-sensitive: none *)
Definition sensitive_sites : list (string * string * string) :=
  map (fun s => (s_file s, s_fn s, s_expr s)) (filter (fun s => order_sensitive (s_sink s)) site_table).

(* the environment oracle (what exists below cwd) over the table: EVERY row *)
Lemma site_table_env_free : forallb (fun s => negb (env_sensitive (s_sink s))) site_table = true.
Proof. vm_compute. reflexivity. Qed.

Theorem emission_env_independent : forall s, In s site_table ->
  forall sl e1 e2 imps, observe_env (s_sink s) sl e1 imps = observe_env (s_sink s) sl e2 imps.
Proof.
  intros s Hin. apply observe_env_independent.
  pose proof site_table_env_free as H. rewrite forallb_forall in H.
  specialize (H s Hin). destruct (env_sensitive (s_sink s)); [discriminate | reflexivity].
Qed.

Definition env_sensitive_sites : list (string * string * string) :=
  map (fun s => (s_file s, s_fn s, s_expr s)) (filter (fun s => env_sensitive (s_sink s)) site_table).

(* the history oracle (what earlier generations of the interpreter did) over the table: EVERY row *)
Lemma site_table_history_free : forallb (fun s => negb (history_sensitive (s_sink s))) site_table = true.
Proof. vm_compute. reflexivity. Qed.

Theorem emission_history_independent : forall s, In s site_table ->
  forall (St : Type) (initial : St) (step : St -> St) n1 n2,
  observe_history (s_sink s) initial step n1 = observe_history (s_sink s) initial step n2.
Proof.
  intros s Hin St initial step n1 n2.
  pose proof site_table_history_free as H. rewrite forallb_forall in H. specialize (H s Hin).
  destruct (s_sink s); try reflexivity. discriminate.
Qed.

(* why no row may be carried state: a later generation sees what the earlier ones left *)
Theorem carried_state_is_history_sensitive : forall k, history_sensitive k = true ->
  exists (initial : nat) (step : nat -> nat) n1 n2,
  observe_history k initial step n1 <> observe_history k initial step n2.
Proof. intros k H. destruct k; try discriminate. exists 0, S, 0, 1. simpl. discriminate. Qed.

Definition history_sensitive_sites : list (string * string * string) :=
  map (fun s => (s_file s, s_fn s, s_expr s)) (filter (fun s => history_sensitive (s_sink s)) site_table).

(* ------------------------------------------------------------------ the target directory as the generator meets it *)
(* a fresh run (target absent) produces exactly what a run over an EMPTY directory produces *)
Theorem generate_absent_eq_empty p : generate_into true p TAbsent = generate_into true p (TDir []).
Proof. reflexivity. Qed.

(* whatever the first run met, running again over its result changes nothing (unique file names) *)
Theorem generate_twice b1 b2 p t t1 : NoDup (map fst p) ->
  generate_into b1 p t = GenOk t1 -> generate_into b2 p t1 = GenOk t1.
Proof.
  intros N H. destruct t as [| |fs]; simpl in H.
  - destruct b1; [|discriminate]. inversion H; subst. simpl. rewrite regenerate_idempotent; auto.
  - destruct p; [|discriminate]. inversion H; subst. reflexivity.
  - inversion H; subst. simpl. rewrite regenerate_idempotent; auto.
Qed.

(* the files of the package do not depend on what the run met: absent, empty, or any previous content *)
Theorem generate_files_independent_of_target b1 b2 p t1 t2 fs1 fs2 m :
  generate_into b1 p t1 = GenOk (TDir fs1) -> generate_into b2 p t2 = GenOk (TDir fs2) ->
  In m (map fst p) -> fs_lookup m fs1 = fs_lookup m fs2.
Proof.
  intros H1 H2 Hm.
  assert (E : forall b t fs, generate_into b p t = GenOk (TDir fs) -> exists fs0, fs = write_all p fs0).
  { intros b t fs H. destruct t as [| |f0]; simpl in H.
    - destruct b; [|discriminate]. inversion H. eauto.
    - destruct p; discriminate.
    - inversion H. eauto. }
  destruct (E _ _ _ H1) as [a ->]. destruct (E _ _ _ H2) as [c ->].
  apply regenerate_independent_of_previous. exact Hm.
Qed.

(* the only failures: the parent directory is missing, or the target is a file *)
Theorem generate_fails_iff b p t e : p <> [] ->
  generate_into b p t = GenErr e <-> (t = TAbsent /\ b = false /\ e = "FileNotFoundError"%string) \/
                                      (t = TFile /\ e = "NotADirectoryError"%string).
Proof.
  intro Hp. destruct t as [| |fs]; simpl.
  - destruct b; split; intro H.
    + discriminate.
    + destruct H as [[_ [H _]]|[H _]]; discriminate.
    + inversion H. left. auto.
    + destruct H as [[_ [_ ->]]|[H _]]; [reflexivity | discriminate].
  - destruct p; [contradiction|]. split; intro H.
    + inversion H. right. auto.
    + destruct H as [[H _]|[_ ->]]; [discriminate | reflexivity].
  - split; intro H; [discriminate|]. destruct H as [[H _]|[H _]]; discriminate.
Qed.

(* over the table: no site learns anything about the CONTENT a previous generation left *)
Lemma site_table_target_free : forallb (fun s => negb (target_sensitive (s_sink s))) site_table = true.
Proof. vm_compute. reflexivity. Qed.

Theorem emission_target_independent : forall s, In s site_table ->
  forall fs1 fs2, observe_target (s_sink s) (TDir fs1) = observe_target (s_sink s) (TDir fs2).
Proof.
  intros s Hin fs1 fs2.
  pose proof site_table_target_free as H. rewrite forallb_forall in H. specialize (H s Hin).
  destruct (s_sink s); try reflexivity. discriminate.
Qed.

Theorem read_target_is_target_sensitive : forall k, target_sensitive k = true ->
  exists fs1 fs2, observe_target k (TDir fs1) <> observe_target k (TDir fs2).
Proof.
  intros k H. destruct k; try discriminate.
  exists [], [("__init__.py"%string, ""%string)]. simpl. discriminate.
Qed.

Definition target_sensitive_sites : list (string * string * string) :=
  map (fun s => (s_file s, s_fn s, s_expr s)) (filter (fun s => target_sensitive (s_sink s)) site_table).
Definition target_exists_sites : list (string * string * string) :=
  map (fun s => (s_file s, s_fn s, s_expr s))
      (filter (fun s => match s_sink s with SkTargetExists => true | _ => false end) site_table).
