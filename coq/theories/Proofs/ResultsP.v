(* Proofs about Model/Results.v and Py/Pydantic.v (C01, C05). *)
From Coq Require Import List String Ascii Bool Arith Lia.
From AC Require Import Base.Strs Base.Sexp Base.Json Gql.Schema Py.Ann Py.Pydantic Model.Names Model.Results.
Import ListNotations.
Local Open Scope string_scope.
Local Open Scope list_scope.

(* ------------------------------------------------------------------------------------------- *)
(* P1. The declared annotation is the image of the GraphQL type (C05, second half).              *)

Definition strip_opt (a : ann) : ann := match a with AOpt x => x | _ => a end.

(* NonNull never directly wraps NonNull (GraphQL type grammar) *)
Fixpoint wf_gtype (t : gtype) : bool :=
  match t with
  | TNamed _ => true
  | TList t' => wf_gtype t'
  | TNonNull (TNonNull _) => false
  | TNonNull t' => wf_gtype t'
  end.

(* independent definition: Optional iff nullable, List iff list, the leaf at the bottom *)
Fixpoint image_of (leaf : string -> option ann) (t : gtype) : option ann :=
  match t with
  | TNamed n => option_map AOpt (leaf n)
  | TList t' => option_map (fun a => AOpt (AList a)) (image_of leaf t')
  | TNonNull t' => option_map strip_opt (image_of leaf t')
  end.

Section Image.
  Variable C : cfg.
  Variable S : schema.
  Variable frs : list fragdef.
  Variable fuel0 : nat.
  Variable fsub : option (list sel).
  Variable cn : string.

  (* the annotation of a named type in non-null position *)
  Definition leaf_ann (n : string) : option ann :=
    match named_ann C S frs fuel0 fsub n false cn false with Ok (a, _) => Some a | Err _ => None end.

  Definition image := image_of leaf_ann.

  Lemma opt_if_false a : opt_if false a = a. Proof. reflexivity. Qed.

  Lemma interface_nullable n nullable add a c :
    interface_ann S frs fuel0 fsub n nullable cn add = Ok (a, c) ->
    exists a0, interface_ann S frs fuel0 fsub n false cn add = Ok (a0, c) /\ a = opt_if nullable a0.
  Proof.
    unfold interface_ann. destruct fsub as [sels|].
    - destruct (inline_conds fuel0 frs sels) as [ics|m]; simpl; [| discriminate].
      destruct (spreads_on_subtypes S frs sels n) as [fos|m]; simpl; [| discriminate].
      destruct ics as [|i ics]; [destruct fos as [|f fos]|].
      + intro H; inversion H; subst. eexists; split; reflexivity.
      + match goal with |- context [existsb ?f ?l] => destruct (existsb f l) end; [discriminate|].
        intro H; inversion H; subst. eexists; split; reflexivity.
      + match goal with |- context [existsb ?f ?l] => destruct (existsb f l) end; [discriminate|].
        intro H; inversion H; subst. eexists; split; reflexivity.
    - intro H; inversion H; subst. eexists; split; reflexivity.
  Qed.

  Lemma named_nullable n nullable add a c :
    named_ann C S frs fuel0 fsub n nullable cn add = Ok (a, c) ->
    exists a0, named_ann C S frs fuel0 fsub n false cn add = Ok (a0, c) /\ a = opt_if nullable a0.
  Proof.
    unfold named_ann. destruct (lookup_type S n) as [[| vs | ifs fs | ifs fs | ms |]|]; try discriminate.
    - unfold scalar_ann. destruct (simple_type n).
      + intro H; inversion H; subst. eexists; split; reflexivity.
      + destruct (find _ (cf_scalars C)); intro H; inversion H; subst; eexists; split; reflexivity.
    - intro H; inversion H; subst. eexists; split; reflexivity.
    - unfold object_ann. intro H; inversion H; subst. eexists; split; reflexivity.
    - apply interface_nullable.
    - match goal with |- context [fold_left ?f ms ?i] => destruct (fold_left f ms i) as [[al cc]|m] end;
        simpl; [| discriminate].
      intro H; inversion H; subst. eexists; split; reflexivity.
  Qed.

  Lemma strip_opt_if nullable a : strip_opt (opt_if nullable a) = if nullable then a else strip_opt a.
  Proof. destruct nullable; reflexivity. Qed.

  Definition is_nonnull (t : gtype) : bool := match t with TNonNull _ => true | _ => false end.

  (* the accumulator-passing code computes the accumulator-free image *)
  Theorem field_type_ann_image : forall t nullable r,
    wf_gtype t = true ->
    field_type_ann C S frs fuel0 fsub t nullable cn false = Ok r ->
    exists a, image t = Some a /\
              fst r = (if nullable || is_nonnull t then a else strip_opt a) /\
              (is_nonnull t = false -> is_opt a = true).
  Proof.
    induction t as [n | t IH | t IH]; intros nullable r Hwf H; simpl in H.
    - destruct r as [a c]. destruct (named_nullable n nullable false a c H) as [a0 [H0 Ha]].
      unfold image. simpl. unfold leaf_ann. rewrite H0. simpl. exists (AOpt a0). subst a. simpl.
      destruct nullable; auto.
    - simpl in Hwf.
      destruct (field_type_ann C S frs fuel0 fsub t true cn false) as [r'|m] eqn:E; simpl in H; [| discriminate].
      inversion H; subst; clear H.
      destruct (IH true r' Hwf E) as [a [Hi [Hf _]]]. unfold image in *. simpl. rewrite Hi. simpl.
      exists (AOpt (AList a)). simpl in Hf. rewrite Hf. simpl. destruct nullable; auto.
    - assert (Hwf' : wf_gtype t = true) by (simpl in Hwf; destruct t; auto; discriminate).
      assert (Hnn : is_nonnull t = false) by (destruct t; auto; simpl in Hwf; discriminate).
      destruct (IH false r Hwf' H) as [a [Hi [Hf Ho]]]. unfold image in *. simpl. rewrite Hi. simpl.
      exists (strip_opt a). rewrite Hnn in Hf. simpl in Hf. rewrite orb_true_r.
      repeat split; auto. intro; discriminate.
  Qed.

  (* Optional iff nullable: the outermost constructor *)
  Corollary optional_iff_nullable : forall t r a,
    wf_gtype t = true ->
    field_type_ann C S frs fuel0 fsub t true cn false = Ok r ->
    image t = Some a -> fst r = a.
  Proof.
    intros t r a Hwf H Hi. destruct (field_type_ann_image t true r Hwf H) as [a' [Hi' [Hf _]]].
    rewrite Hi in Hi'. inversion Hi'; subst. exact Hf.
  Qed.
End Image.

(* ------------------------------------------------------------------------------------------- *)
(* P2. Wrappers: a value is accepted by the image of a type iff it has the null/list structure   *)
(*     GraphQL's CompleteValue gives that type (C01 direction ->, C05 direction <-).             *)

Section Wrap.
  Variable clsacc : ann -> json -> bool.
  Variable enums : list (string * list string).
  Variable leaf : string -> option ann.
  Let acc := acc_ann clsacc enums.
  (* the non-null annotation of a named type rejects null (true of every leaf the generator emits
     except Any, i.e. unconfigured custom scalars) *)
  Hypothesis leaf_rejects_null : forall n a, leaf n = Some a -> acc a JNull = false.

  Fixpoint conf (t : gtype) (j : json) : Prop :=
    match t with
    | TNamed n => j = JNull \/ (exists a, leaf n = Some a /\ acc a j = true)
    | TList t' => j = JNull \/ (exists l, j = JArr l /\ Forall (conf t') l)
    | TNonNull t' => j <> JNull /\ conf t' j
    end.

  Lemma is_null_true j : is_null j = true <-> j = JNull.
  Proof. destruct j; simpl; split; intro H; try discriminate; auto. Qed.

  Lemma image_core t a : is_nonnull t = false -> image_of leaf t = Some a ->
    exists x, a = AOpt x /\ acc x JNull = false.
  Proof.
    destruct t as [n | t' | t']; simpl; intros Hn H; try discriminate Hn.
    - destruct (leaf n) as [a0|] eqn:E; simpl in H; [| discriminate]. inversion H; subst.
      exists a0. split; [reflexivity | eapply leaf_rejects_null; eauto].
    - destruct (image_of leaf t') as [a'|]; simpl in H; [| discriminate]. inversion H; subst.
      exists (AList a'). split; reflexivity.
  Qed.

  Theorem wrap_accepts : forall t a j, wf_gtype t = true -> image_of leaf t = Some a ->
    (acc a j = true <-> conf t j).
  Proof.
    induction t as [n | t IH | t IH]; intros a j Hwf Hi.
    - simpl in Hi. destruct (leaf n) as [a0|] eqn:E; simpl in Hi; [| discriminate]. inversion Hi; subst.
      unfold acc. simpl. rewrite orb_true_iff, is_null_true. split.
      + intros [H | H]; [left; exact H | right; exists a0; auto].
      + intros [H | [a1 [H1 H2]]]; [left; exact H | right]. rewrite E in H1. inversion H1; subst. exact H2.
    - simpl in Hi. destruct (image_of leaf t) as [a'|] eqn:E; simpl in Hi; [| discriminate]. inversion Hi; subst.
      simpl in Hwf. unfold acc. simpl. rewrite orb_true_iff, is_null_true. split.
      + intros [H | H]; [left; exact H | right]. destruct j; try discriminate. exists l. split; [reflexivity|].
        rewrite forallb_forall in H. apply Forall_forall. intros x Hx. apply (IH a' x Hwf eq_refl). apply H, Hx.
      + intros [H | [l [Hl Hf]]]; [left; exact H | right]. subst j. apply forallb_forall. intros x Hx.
        rewrite Forall_forall in Hf. apply (IH a' x Hwf eq_refl). apply Hf, Hx.
    - assert (Hwf' : wf_gtype t = true) by (simpl in Hwf; destruct t; auto; discriminate).
      assert (Hnn : is_nonnull t = false) by (destruct t; auto; simpl in Hwf; discriminate).
      simpl in Hi. destruct (image_of leaf t) as [at'|] eqn:E; simpl in Hi; [| discriminate]. inversion Hi; subst.
      destruct (image_core t at' Hnn E) as [x [Hx Hrn]]. subst at'. simpl.
      specialize (IH (AOpt x) j Hwf' eq_refl). unfold acc in IH. simpl in IH.
      split.
      + intro H. split.
        * intro Hj. subst j. rewrite Hrn in H. discriminate.
        * apply IH. unfold acc in H. rewrite H. apply orb_true_r.
      + intros [Hj Hc]. apply IH in Hc. apply orb_true_iff in Hc as [Hc | Hc]; [| exact Hc].
        apply is_null_true in Hc. contradiction.
  Qed.

  (* the two C05 corollaries at wrapper level, for every depth of nesting *)
  Corollary null_at_nonnull_rejected : forall t a, wf_gtype (TNonNull t) = true ->
    image_of leaf (TNonNull t) = Some a -> acc a JNull = false.
  Proof.
    intros t a Hwf Hi. destruct (acc a JNull) eqn:E; [| reflexivity].
    apply (wrap_accepts (TNonNull t) a JNull Hwf Hi) in E. destruct E as [E _]. contradiction.
  Qed.

  Corollary non_list_at_list_rejected : forall t a j, wf_gtype (TList t) = true ->
    image_of leaf (TList t) = Some a -> j <> JNull -> (forall l, j <> JArr l) -> acc a j = false.
  Proof.
    intros t a j Hwf Hi Hn Hl. destruct (acc a j) eqn:E; [| reflexivity].
    apply (wrap_accepts (TList t) a j Hwf Hi) in E. destruct E as [E | [l [E _]]]; [contradiction|].
    exfalso. exact (Hl l E).
  Qed.
End Wrap.

(* ------------------------------------------------------------------------------------------- *)
(* P3. The typename literals of the related classes partition the possible types.                *)

Lemma mem_In x l : mem x l = true <-> In x l.
Proof.
  unfold mem. rewrite existsb_exists. split.
  - intros [y [Hy He]]. apply String.eqb_eq in He. subst. exact Hy.
  - intro H. exists x. split; [exact H | apply String.eqb_refl].
Qed.

Lemma dedup_In x l : In x (dedup l) <-> In x l.
Proof.
  induction l as [|y r IH]; simpl; [tauto|].
  destruct (mem y r) eqn:E.
  - rewrite IH. split; [auto|]. intros [H | H]; [subst; apply mem_In, E | exact H].
  - simpl. rewrite IH. tauto.
Qed.

Section Typename.
  Variable S : schema.
  Variable rel : list related.
  Let names := map r_type rel.
  Let tv := typename_values S rel.
  Variable a : string.
  Hypothesis first_abstract :
    find (fun n => match lookup_type S n with Some d => is_abstract d | None => false end) names = Some a.
  Hypothesis abstract_not_possible : ~ In a (possible_types S a).

  Lemma tv_abstract : tv a = a :: filter (fun p => negb (mem p names)) (dedup (possible_types S a)).
  Proof. unfold tv, typename_values. fold names. rewrite first_abstract, String.eqb_refl. reflexivity. Qed.

  Lemma tv_other tn : tn <> a -> tv tn = [tn].
  Proof.
    intro H. unfold tv, typename_values. fold names. rewrite first_abstract.
    destruct (String.eqb a tn) eqn:E; [apply String.eqb_eq in E; congruence | reflexivity].
  Qed.

  Lemma a_in_names : In a names.
  Proof. apply find_some in first_abstract. tauto. Qed.

  Theorem typename_partition : forall rt, In rt (possible_types S a) ->
    (exists tn, In tn names /\ In rt (tv tn)) /\
    (forall t1 t2, In t1 names -> In t2 names -> In rt (tv t1) -> In rt (tv t2) -> t1 = t2).
  Proof.
    intros rt Hrt.
    assert (Hne : rt <> a) by (intro E; subst; contradiction).
    assert (Hchar : forall tn, In tn names -> (In rt (tv tn) <->
                       (tn = rt \/ (tn = a /\ ~ In rt names)))).
    { intros tn Htn. destruct (string_dec tn a) as [E | E].
      - subst tn. rewrite tv_abstract. simpl. rewrite filter_In, dedup_In, negb_true_iff. split.
        + intros [H | [_ H]]; [congruence|]. right. split; [reflexivity|].
          intro Hin. apply mem_In in Hin. congruence.
        + intros [H | [_ H]]; [congruence|]. right. split; [exact Hrt|].
          destruct (mem rt names) eqn:M; [apply mem_In in M; contradiction | reflexivity].
      - rewrite (tv_other tn E). simpl. split.
        + intros [H | []]. left; exact H.
        + intros [H | [H _]]; [left; exact H | contradiction]. }
    split.
    - destruct (in_dec string_dec rt names) as [Hin | Hout].
      + exists rt. split; [exact Hin|]. apply Hchar; auto.
      + exists a. split; [apply a_in_names|]. apply Hchar; [apply a_in_names | auto].
    - intros t1 t2 H1 H2 R1 R2. apply Hchar in R1; auto. apply Hchar in R2; auto.
      destruct R1 as [R1 | [R1 N1]], R2 as [R2 | [R2 N2]]; subst; auto.
      + exfalso. apply N2. exact H1.
      + exfalso. apply N1. exact H2.
  Qed.
End Typename.
