(* Proofs about Model/Ws.v (C13). *)
From Coq Require Import List String Ascii ZArith Bool Lia.
From AC Require Import Base.Sexp Base.Json Model.Ws.
Import ListNotations.
Local Open Scope string_scope.
Local Open Scope list_scope.

Local Arguments mtype_of_string : simpl never.
Local Arguments has_substring : simpl never.
Local Arguments String.eqb : simpl never.
Local Arguments step : simpl never.

(* ------------------------------------------------------------------------------------------ *)
(* small facts                                                                                 *)

Lemma mtype_empty : mtype_of_string "" = None.
Proof. reflexivity. Qed.

Lemma first_bad_ok l : forallb is_error_obj l = true -> first_bad l = None.
Proof.
  induction l as [|e r IH]; simpl; intro H; [reflexivity|].
  apply andb_true_iff in H as [He Hr]. destruct e; try discriminate. simpl in *. rewrite He. auto.
Qed.

Lemma first_bad_not_ok l : forallb is_error_obj l = false -> exists e, first_bad l = Some e.
Proof.
  induction l as [|e r IH]; simpl; intro H; [discriminate|].
  destruct e; simpl in *; eauto.
  destruct (jhas "message" kv); simpl in *; eauto.
Qed.

Lemma sent_of_app a b : sent_of (a ++ b) = sent_of a ++ sent_of b.
Proof. unfold sent_of. apply flat_map_app. Qed.
Lemma yielded_of_app a b : yielded_of (a ++ b) = yielded_of a ++ yielded_of b.
Proof. unfold yielded_of. apply flat_map_app. Qed.

(* ------------------------------------------------------------------------------------------ *)
(* case analysis of one frame                                                                  *)

Ltac brk :=
  repeat (simpl in *;
          match goal with
          | |- context [match ?x with _ => _ end] =>
              lazymatch x with
              | context [match _ with _ => _ end] => fail
              | _ => destruct x eqn:?
              end
          end); simpl in *.

(* the spec's ack is the handler's ack, for every frame *)
Lemma ack_iff f : is_ack f = true <-> exists p, msg_type f = TKnown MAck p.
Proof.
  unfold is_ack, skind_of, msg_type. split.
  - destruct f as [s|j]; [discriminate|]. destruct j; try discriminate.
    destruct (jlookup "type" kv) as [t|]; [|discriminate]. destruct t; try discriminate.
    destruct (String.eqb s "") eqn:E.
    + apply String.eqb_eq in E. subst. rewrite mtype_empty. discriminate.
    + simpl. rewrite E. simpl. destruct (mtype_of_string s) as [m|]; [|discriminate].
      destruct m; try discriminate; try (intros _; eexists; reflexivity); brk; discriminate.
  - intros [p H]. destruct f as [s|j]; [discriminate|]. destruct j; try discriminate.
    destruct (jlookup "type" kv) as [t|]; [|discriminate]. destruct t; simpl in *; try discriminate.
    + destruct b; discriminate.
    + destruct (negb (z =? 0)%Z); discriminate.
    + destruct (String.eqb s "") eqn:E; simpl in *; [discriminate|].
      destruct (mtype_of_string s) as [m|]; [|discriminate]. inversion H; subst. reflexivity.
    + destruct l; discriminate.
    + destruct kv0; discriminate.
Qed.

(* AwaitAck, every frame *)
Lemma await_ack rq f : is_ack f = true ->
  step rq AwaitAck f =
    match subscribe_msg rq with
    | Some m => (Streaming, [ERecv; ESend m])
    | None => (Done (RaisedOther SER_ERROR), [ERecv])
    end.
Proof. intro H. apply ack_iff in H as [p H]. unfold step. rewrite H. reflexivity. Qed.

Lemma await_not_ack rq f : is_ack f = false -> exists o, step rq AwaitAck f = (Done o, [ERecv]).
Proof.
  intro H. unfold step. destruct (msg_type f) eqn:E; eauto.
  destruct t; eauto.
  assert (is_ack f = true) by (apply ack_iff; eauto). congruence.
Qed.

(* the type-level crash class is exact *)
Lemma type_crashes_iff f : type_crashes f = true <-> exists e, msg_type f = TCrash e.
Proof.
  unfold msg_type, type_crashes.
  destruct f as [s|j]; [split; [discriminate|intros [e H]; discriminate]|].
  destruct j; try (split; [eauto|reflexivity]).
  destruct (jlookup "type" kv) as [t|]; [|split; [discriminate|intros [e H]; discriminate]].
  destruct t; simpl; try (split; [discriminate|intros [e H]; discriminate]).
  - destruct b; split; try discriminate; intros [e H]; discriminate.
  - destruct (negb (z =? 0)%Z); split; try discriminate; intros [e H]; discriminate.
  - destruct (String.eqb s ""); simpl; [split; [discriminate|intros [e H]; discriminate]|].
    destruct (mtype_of_string s); split; try discriminate; intros [e H]; discriminate.
  - destruct l; simpl; split; eauto; try discriminate. intros [e H]; discriminate.
  - destruct kv0; simpl; split; eauto; try discriminate. intros [e H]; discriminate.
Qed.

Lemma shape_no_crash f e : type_crashes f = false -> msg_type f <> TCrash e.
Proof.
  intros H E. assert (type_crashes f = true) by (apply type_crashes_iff; eauto). congruence.
Qed.

(* AwaitAck outside the type-crash class: a first frame that is not the ack raises the invalid-message error *)
Lemma await_invalid rq f : type_crashes f = false -> is_ack f = false ->
  exists m, step rq AwaitAck f = (Done (RaisedInvalid m), [ERecv]).
Proof.
  intros S A. unfold step. destruct (msg_type f) eqn:E; eauto.
  - exfalso. exact (shape_no_crash f e S E).
  - destruct t; eauto.
    assert (is_ack f = true) by (apply ack_iff; eauto). congruence.
Qed.

(* Streaming, every frame (no guard): what is sent, what is yielded, which phase follows.
   The terminal outcome is left open here (exists o). *)
Lemma stream_coarse rq f :
  match skind_of f with
  | SNext d => step rq Streaming f = (Streaming, ERecv :: if nonnull d then [EYield d] else [])
  | SPing => step rq Streaming f = (Streaming, [ERecv; ESend pong_msg])
  | SPong | SAck | SIgnored => step rq Streaming f = (Streaming, [ERecv])
  | SComplete => step rq Streaming f = (Done Finished, [ERecv; EClose])
  | SError _ | SMalformed => exists o, step rq Streaming f = (Done o, [ERecv])
  end.
Proof.
  unfold step, skind_of, msg_type.
  destruct f as [s|j]; [eauto|]. destruct j; eauto.
  destruct (jlookup "type" kv) as [t|]; [|simpl; eauto].
  destruct t; simpl; eauto.
  - destruct b; simpl; eauto.
  - destruct (negb (z =? 0)%Z); simpl; eauto.
  - destruct (String.eqb s "") eqn:E; simpl.
    + apply String.eqb_eq in E. subst. rewrite mtype_empty. eauto.
    + destruct (mtype_of_string s) as [m|]; [|eauto].
      destruct m; simpl; eauto.
      * (* next *)
        destruct (jlookup "payload" kv) as [p|]; simpl; eauto.
        destruct p; simpl; eauto.
        -- destruct (has_substring "data" s0); eauto.
        -- destruct (existsb (is_str "data") l); eauto.
        -- destruct (jlookup "data" kv0); eauto.
      * (* error *)
        destruct (jlookup "payload" kv) as [p|]; simpl; eauto.
        destruct p; simpl; eauto.
        -- destruct s0; eauto.
        -- destruct (forallb is_error_obj l) eqn:F.
           ++ rewrite (first_bad_ok _ F). eauto.
           ++ destruct (first_bad l); eauto.
        -- destruct kv0; eauto.
  - destruct l; simpl; eauto.
  - destruct kv0; simpl; eauto.
Qed.

(* Streaming: an error frame with a well-formed (or absent) payload raises the multi-error — no guard *)
Lemma stream_error_exact rq f l : skind_of f = SError l ->
  step rq Streaming f = (Done (RaisedMulti l (frame_json f)), [ERecv]).
Proof.
  unfold step, skind_of, msg_type.
  destruct f as [s|j]; [discriminate|]. destruct j; try discriminate.
  destruct (jlookup "type" kv) as [t|]; [|discriminate].
  destruct t; try discriminate.
  destruct (String.eqb s "") eqn:E; simpl; rewrite E; simpl.
  - apply String.eqb_eq in E. subst. rewrite mtype_empty. discriminate.
  - destruct (mtype_of_string s) as [m|]; [|discriminate].
    destruct m; try discriminate.
    + brk; discriminate.
    + destruct (jlookup "payload" kv) as [p|]; simpl.
      * destruct p; try discriminate. destruct (forallb is_error_obj l0) eqn:F; [|discriminate].
        intros K. inversion K; subst. simpl. rewrite (first_bad_ok _ F). reflexivity.
      * intros K. inversion K. reflexivity.
Qed.

(* the payload-level crash class is exact *)
Lemma payload_crashes_iff f : payload_crashes f = true <->
  exists t p e, msg_type f = TKnown t p /\ action_of t p = ACrash e.
Proof.
  unfold msg_type, payload_crashes.
  destruct f as [s|j]; [split; [discriminate|intros (t' & p' & e' & H & _); discriminate]|].
  destruct j; try (split; [discriminate|intros (t' & p' & e' & H & _); discriminate]).
  destruct (jlookup "type" kv) as [t|]; [|split; [discriminate|intros (t' & p' & e' & H & _); discriminate]].
  destruct t; simpl; try (split; [discriminate|intros (t' & p' & e' & H & _); discriminate]).
  - destruct b; split; try discriminate; intros (t' & p' & e' & H & _); discriminate.
  - destruct (negb (z =? 0)%Z); split; try discriminate; intros (t' & p' & e' & H & _); discriminate.
  - destruct (String.eqb s "") eqn:E; simpl.
    + apply String.eqb_eq in E. subst. rewrite mtype_empty.
      split; [discriminate|intros (t' & p' & e' & H & _); discriminate].
    + destruct (mtype_of_string s) as [m|]; [|split; [discriminate|intros (t' & p' & e' & H & _); discriminate]].
      destruct m; try (split; [discriminate|intros (t' & p' & e' & H & A); inversion H; subst; discriminate]).
      * (* next *)
        destruct (jlookup "payload" kv) as [q|]; simpl.
        -- destruct q; simpl;
             try (split; [intros _; do 3 eexists; split; [reflexivity|reflexivity]|reflexivity]).
           ++ split.
              ** intro H. do 3 eexists. split; [reflexivity|]. simpl. rewrite H. reflexivity.
              ** intros (t' & p' & e' & H & A). inversion H; subst. simpl in A.
                 destruct (has_substring "data" s0); [reflexivity|discriminate].
           ++ split.
              ** intro H. do 3 eexists. split; [reflexivity|]. simpl. rewrite H. reflexivity.
              ** intros (t' & p' & e' & H & A). inversion H; subst. simpl in A.
                 destruct (existsb (is_str "data") l); [reflexivity|discriminate].
           ++ split; [discriminate|]. intros (t' & p' & e' & H & A). inversion H; subst. simpl in A.
              destruct (jlookup "data" kv0); discriminate.
        -- split; [discriminate|]. intros (t' & p' & e' & H & A). inversion H; subst. discriminate.
      * (* error *)
        destruct (jlookup "payload" kv) as [q|]; simpl.
        -- destruct q; simpl;
             try (split; [intros _; do 3 eexists; split; [reflexivity|reflexivity]|reflexivity]).
           ++ destruct s0; split; try discriminate.
              ** intros (t' & p' & e' & H & A). inversion H; subst. discriminate.
              ** intros _. do 3 eexists. split; reflexivity.
              ** reflexivity.
           ++ destruct (forallb is_error_obj l) eqn:F; simpl; split; try discriminate.
              ** intros (t' & p' & e' & H & A). inversion H; subst. simpl in A.
                 rewrite (first_bad_ok _ F) in A. discriminate.
              ** intros _. destruct (first_bad_not_ok _ F) as [x X].
                 do 3 eexists. split; [reflexivity|]. simpl. rewrite X. reflexivity.
              ** reflexivity.
           ++ destruct kv0; split; try discriminate.
              ** intros (t' & p' & e' & H & A). inversion H; subst. discriminate.
              ** intros _. do 3 eexists. split; reflexivity.
              ** reflexivity.
        -- split; [discriminate|]. intros (t' & p' & e' & H & A). inversion H; subst. discriminate.
  - destruct l; simpl; split; try discriminate; intros (t' & p' & e' & H & _); discriminate.
  - destruct kv0; simpl; split; try discriminate; intros (t' & p' & e' & H & _); discriminate.
Qed.

(* the crash class of the open stream is exact: these and only these frames end the run with a
   non-protocol exception *)
Definition crash_stream (f : frame) : bool := type_crashes f || payload_crashes f.

Lemma crash_stream_iff rq f : crash_stream f = true <->
  exists e, step rq Streaming f = (Done (RaisedOther e), [ERecv]).
Proof.
  unfold crash_stream. split.
  - intro H. apply orb_true_iff in H as [H|H].
    + apply type_crashes_iff in H as [e H]. unfold step. rewrite H. eauto.
    + apply payload_crashes_iff in H as (t & p & e & H & A). unfold step. rewrite H, A. eauto.
  - intros [e H]. unfold step in H. apply orb_true_iff.
    destruct (msg_type f) eqn:M; try discriminate.
    + left. apply type_crashes_iff. eauto.
    + destruct (action_of t payload) eqn:A; try discriminate.
      right. apply payload_crashes_iff. eauto 6.
Qed.

(* the two error payloads that are not a list but iterate as empty: an EMPTY multi-error *)
Lemma odd_error_multi rq f : odd_empty_error f = true ->
  step rq Streaming f = (Done (RaisedMulti [] (frame_json f)), [ERecv]).
Proof.
  unfold step, msg_type, odd_empty_error.
  destruct f as [s|j]; [discriminate|]. destruct j; try discriminate.
  destruct (jlookup "type" kv) as [t|]; [|discriminate]. destruct t; try discriminate.
  destruct (String.eqb s "") eqn:E; simpl; rewrite E; simpl.
  - apply String.eqb_eq in E. subst. rewrite mtype_empty. discriminate.
  - destruct (mtype_of_string s) as [m|]; [|discriminate]. destruct m; try discriminate.
    destruct (jlookup "payload" kv) as [q|]; [|discriminate].
    destruct q; try discriminate; simpl.
    + destruct s0; [reflexivity|discriminate].
    + destruct kv0; [reflexivity|discriminate].
Qed.

(* Streaming, malformed frames outside the (exact) shape class raise the invalid-message error *)
Lemma stream_malformed_exact rq f : shape_ok f = true -> skind_of f = SMalformed ->
  step rq Streaming f = (Done (RaisedInvalid (Some f)), [ERecv]).
Proof.
  unfold shape_ok, step, skind_of, msg_type, type_crashes, payload_crashes, odd_empty_error.
  destruct f as [s|j]; [reflexivity|]. destruct j; try discriminate.
  destruct (jlookup "type" kv) as [t|]; [|reflexivity].
  destruct t; simpl; try reflexivity.
  - destruct b; reflexivity.
  - destruct (negb (z =? 0)%Z); reflexivity.
  - destruct (String.eqb s "") eqn:E; simpl; [reflexivity|].
    destruct (mtype_of_string s) as [m|]; [|reflexivity].
    destruct m; try discriminate.
    + destruct (jlookup "payload" kv) as [p|]; simpl; [|reflexivity].
      destruct p; simpl; try discriminate.
      * destruct (has_substring "data" s0); [discriminate|reflexivity].
      * destruct (existsb (is_str "data") l); [discriminate|reflexivity].
      * intros _. destruct (jlookup "data" kv0); [discriminate|reflexivity].
    + destruct (jlookup "payload" kv) as [p|]; simpl; [|discriminate].
      destruct p; simpl; try discriminate.
      * destruct s0; discriminate.
      * destruct (forallb is_error_obj l); discriminate.
      * destruct kv0; discriminate.
  - destruct l; [reflexivity|discriminate].
  - destruct kv0; [reflexivity|discriminate].
Qed.

(* ------------------------------------------------------------------------------------------ *)
(* runs                                                                                        *)

Lemma run_done rq o fs : run_from rq (Done o) fs = ([], Done o).
Proof. induction fs as [|f r IH]; simpl; [reflexivity|]. rewrite IH. reflexivity. Qed.

Definition count_pings (fs : list frame) : nat :=
  List.length (filter (fun f => match skind_of f with SPing => true | _ => false end) fs).

(* what a run sends once streaming: one pong per ping the specification consumes, nothing else *)
Lemma run_stream_sent rq r :
  sent_of (fst (run_from rq Streaming r)) = repeat pong_msg (count_pings (spec_prefix r)).
Proof.
  induction r as [|f r IH]; [reflexivity|].
  simpl. unfold count_pings in *. pose proof (stream_coarse rq f) as C.
  destruct (skind_of f) eqn:K; simpl;
    try (rewrite C; destruct (run_from rq Streaming r) as [e q]; simpl in *; rewrite K; simpl;
         try (destruct (nonnull d)); simpl; rewrite ?IH; reflexivity).
  - (* complete *) rewrite C, run_done. simpl. rewrite K. reflexivity.
  - destruct C as [o C]. rewrite C, run_done. simpl. rewrite K. reflexivity.
  - destruct C as [o C]. rewrite C, run_done. simpl. rewrite K. reflexivity.
Qed.

(* the closed form of everything a run ever sends — no guard at all *)
Lemma sent_closed_form c rq fs :
  sent_of (t_events (run_ws c rq fs)) =
    init_msg c ::
    match fs with
    | [] => []
    | f :: r =>
        if is_ack f then
          match subscribe_msg rq with
          | Some m => m :: repeat pong_msg (count_pings (spec_prefix r))
          | None => []
          end
        else []
    end.
Proof.
  unfold run_ws. destruct fs as [|f r]; [reflexivity|]. simpl.
  destruct (is_ack f) eqn:A.
  - rewrite (await_ack rq f A). destruct (subscribe_msg rq) as [m|].
    + pose proof (run_stream_sent rq r) as S. destruct (run_from rq Streaming r) as [e q]. simpl in *.
      rewrite S. reflexivity.
    + rewrite run_done. reflexivity.
  - destruct (await_not_ack rq f A) as [o E]. rewrite E, run_done. reflexivity.
Qed.

(* the second event, if any, is the reception of the first frame *)
Lemma events_head c rq fs :
  exists evs, t_events (run_ws c rq fs) = ESend (init_msg c) :: evs /\
              (fs = [] /\ evs = [] \/ exists evs', evs = ERecv :: evs').
Proof.
  unfold run_ws. destruct fs as [|f r].
  - simpl. eauto.
  - simpl. destruct (is_ack f) eqn:A.
    + rewrite (await_ack rq f A). destruct (subscribe_msg rq).
      * destruct (run_from rq Streaming r). simpl. eauto 6.
      * rewrite run_done. simpl. eauto 6.
    + destruct (await_not_ack rq f A) as [o E]. rewrite E, run_done. simpl. eauto 6.
Qed.

(* non-terminal frames keep the machine streaming *)
Lemma run_stream_app rq a r :
  forallb (fun f => negb (terminal (skind_of f))) a = true ->
  exists e1, run_from rq Streaming a = (e1, Streaming) /\
             run_from rq Streaming (a ++ r) =
               (e1 ++ fst (run_from rq Streaming r), snd (run_from rq Streaming r)).
Proof.
  induction a as [|f a IH]; simpl; intro H.
  - exists []. split; [reflexivity|]. destruct (run_from rq Streaming r); reflexivity.
  - apply andb_true_iff in H as [Hf Ha]. destruct (IH Ha) as (e1 & E1 & E2).
    pose proof (stream_coarse rq f) as C.
    destruct (skind_of f) eqn:K; simpl in Hf; try discriminate;
      rewrite C, E1, E2; eexists; (split; [reflexivity|]); rewrite <- app_assoc; reflexivity.
Qed.

(* yields: no shape guard needed *)
Lemma run_stream_yields rq r : g_nonnull r = true ->
  yielded_of (fst (run_from rq Streaming r)) = yielded_of (fst (spec_stream r)).
Proof.
  unfold g_nonnull. induction r as [|f r IH]; [reflexivity|].
  simpl. pose proof (stream_coarse rq f) as C.
  destruct (skind_of f) eqn:K; simpl; rewrite ?K; simpl; intros T;
    try (destruct C as [o C]; rewrite C, run_done; reflexivity);
    try (rewrite C, run_done; reflexivity).
  - rewrite C. destruct (run_from rq Streaming r) as [e q]; destruct (spec_stream r) as [e' o'].
    simpl in *. rewrite <- IH; auto.
  - apply andb_true_iff in T as [Td T]. rewrite C, Td.
    destruct (run_from rq Streaming r) as [e q]; destruct (spec_stream r) as [e' o'].
    simpl in *. rewrite <- IH; auto.
  - rewrite C. destruct (run_from rq Streaming r) as [e q]; destruct (spec_stream r) as [e' o'].
    simpl in *. rewrite <- IH; auto.
  - rewrite C. destruct (run_from rq Streaming r) as [e q]; destruct (spec_stream r) as [e' o'].
    simpl in *. rewrite <- IH; auto.
  - rewrite C. destruct (run_from rq Streaming r) as [e q]; destruct (spec_stream r) as [e' o'].
    simpl in *. rewrite <- IH; auto.
Qed.

(* the whole streaming run equals the specification under the two frame guards *)
Lemma run_stream_conform rq r : forallb shape_ok (spec_prefix r) = true -> g_nonnull r = true ->
  fst (run_from rq Streaming r) = fst (spec_stream r) /\
  finish (snd (run_from rq Streaming r)) = snd (spec_stream r).
Proof.
  unfold g_nonnull. induction r as [|f r IH]; [split; reflexivity|].
  simpl. pose proof (stream_coarse rq f) as C.
  destruct (skind_of f) eqn:K; simpl; rewrite ?K; simpl; intros Sh T;
    apply andb_true_iff in Sh as [Shf Sh].
  - rewrite C. specialize (IH Sh T).
    destruct (run_from rq Streaming r) as [e q]; destruct (spec_stream r) as [e' o'].
    simpl in *. destruct IH; subst; auto.
  - apply andb_true_iff in T as [Td T]. rewrite C, Td. specialize (IH Sh T).
    destruct (run_from rq Streaming r) as [e q]; destruct (spec_stream r) as [e' o'].
    simpl in *. destruct IH; subst; auto.
  - rewrite C. specialize (IH Sh T).
    destruct (run_from rq Streaming r) as [e q]; destruct (spec_stream r) as [e' o'].
    simpl in *. destruct IH; subst; auto.
  - rewrite C. specialize (IH Sh T).
    destruct (run_from rq Streaming r) as [e q]; destruct (spec_stream r) as [e' o'].
    simpl in *. destruct IH; subst; auto.
  - rewrite C, run_done. split; reflexivity.
  - rewrite (stream_error_exact rq f errs K), run_done. split; reflexivity.
  - rewrite C. specialize (IH Sh T).
    destruct (run_from rq Streaming r) as [e q]; destruct (spec_stream r) as [e' o'].
    simpl in *. destruct IH; subst; auto.
  - rewrite (stream_malformed_exact rq f Shf K), run_done. split; reflexivity.
Qed.

(* ------------------------------------------------------------------------------------------ *)
(* the master statement: under the four guards the client IS the specified protocol machine     *)

Definition g_all (fs : list frame) : bool :=
  g_shape fs && match fs with f :: r => g_nonnull r | [] => true end.

Definition same_obs (a b : trace) : Prop :=
  t_connect a = t_connect b /\ t_events a = t_events b /\ erase_msg (t_fin a) = erase_msg (t_fin b).

Lemma conform c rq fs : g_all fs = true -> same_obs (run_ws c rq fs) (spec_ws c rq fs).
Proof.
  unfold g_all, same_obs, run_ws, spec_ws, g_shape. intro G.
  destruct fs as [|f r]; [simpl; auto|].
  apply andb_true_iff in G as [G2 GT]. apply andb_true_iff in G2 as [Sf Sr].
  simpl. destruct (is_ack f) eqn:A.
  - rewrite (await_ack rq f A). unfold is_ack in A. destruct (skind_of f); try discriminate.
    destruct (subscribe_msg rq) as [m|] eqn:M.
    + destruct (run_stream_conform rq r Sr GT) as [E F].
      destruct (run_from rq Streaming r) as [e q]; destruct (spec_stream r) as [e' o'].
      simpl in *. subst. auto.
    + rewrite run_done. simpl. auto.
  - apply negb_true_iff in Sf. destruct (await_invalid rq f Sf A) as [m E]. rewrite E, run_done.
    unfold is_ack in A. destruct (skind_of f); try discriminate; simpl; auto.
Qed.

(* ------------------------------------------------------------------------------------------ *)
(* the OpenTelemetry twin                                                                      *)

Lemma step_otel_same rq ph f : fst (step_otel rq ph f) = step rq ph f.
Proof.
  unfold step_otel, step. change (msg_type_otel f) with (msg_type f).
  destruct ph; try reflexivity; destruct (msg_type f); try reflexivity.
  - destruct t; try reflexivity. destruct (subscribe_msg rq); reflexivity.
  - destruct (action_of t payload); reflexivity.
Qed.

Lemma run_otel_same rq fs : forall ph, fst (run_from_otel rq ph fs) = run_from rq ph fs.
Proof.
  induction fs as [|f r IH]; intro ph; simpl; [reflexivity|].
  pose proof (step_otel_same rq ph f) as S.
  destruct (step_otel rq ph f) as [[ph' ev] sp]. simpl in S. rewrite <- S.
  specialize (IH ph'). destruct (run_from_otel rq ph' r) as [[evs p] sps]. simpl in IH. rewrite <- IH.
  reflexivity.
Qed.

Lemma otel_same c rq fs b : strip_spans (run_ws_otel b c rq fs) = run_ws c rq fs.
Proof.
  unfold run_ws_otel, run_ws. destruct b.
  - pose proof (run_otel_same rq fs AwaitAck) as S.
    destruct (run_from_otel rq AwaitAck fs) as [[evs p] sps]. simpl in S. rewrite <- S. reflexivity.
  - destruct (run_from rq AwaitAck fs). reflexivity.
Qed.

(* ------------------------------------------------------------------------------------------ *)
(* corollaries used by Properties/C13.v                                                        *)

Lemma fin_after_prefix c rq f a r m :
  is_ack f = true -> subscribe_msg rq = Some m ->
  forallb (fun f => negb (terminal (skind_of f))) a = true ->
  t_fin (run_ws c rq (f :: a ++ r)) = finish (snd (run_from rq Streaming r)) /\
  yielded_of (t_events (run_ws c rq (f :: a ++ r))) =
    yielded_of (fst (run_from rq Streaming a)) ++ yielded_of (fst (run_from rq Streaming r)) /\
  closes_of (t_events (run_ws c rq (f :: a ++ r))) =
    closes_of (fst (run_from rq Streaming a)) + closes_of (fst (run_from rq Streaming r)) /\
  consumed_of (t_events (run_ws c rq (f :: a ++ r))) =
    S (consumed_of (fst (run_from rq Streaming a)) + consumed_of (fst (run_from rq Streaming r))).
Proof.
  intros A M N. unfold run_ws. simpl. rewrite (await_ack rq f A), M.
  destruct (run_stream_app rq a r N) as (e1 & E1 & E2). rewrite E2, E1.
  destruct (run_from rq Streaming r) as [e q]. simpl. split; [reflexivity|]. split; [|split].
  - rewrite yielded_of_app. reflexivity.
  - unfold closes_of. simpl. rewrite filter_app, app_length. reflexivity.
  - unfold consumed_of. simpl. rewrite filter_app, app_length. reflexivity.
Qed.

(* non-terminal frames are each consumed once *)
Lemma nonterminal_consumed rq a :
  forallb (fun f => negb (terminal (skind_of f))) a = true ->
  consumed_of (fst (run_from rq Streaming a)) = List.length a.
Proof.
  induction a as [|f a IH]; simpl; intro H; [reflexivity|].
  apply andb_true_iff in H as [Hf Ha]. specialize (IH Ha).
  pose proof (stream_coarse rq f) as C.
  destruct (skind_of f) eqn:K; simpl in Hf; try discriminate; rewrite C;
    destruct (run_from rq Streaming a) as [e q]; simpl in *;
    try (destruct (nonnull d)); simpl; rewrite <- IH; reflexivity.
Qed.

(* non-terminal frames never call close() *)
Lemma nonterminal_no_close rq a :
  forallb (fun f => negb (terminal (skind_of f))) a = true ->
  closes_of (fst (run_from rq Streaming a)) = 0.
Proof.
  induction a as [|f a IH]; simpl; intro H; [reflexivity|].
  apply andb_true_iff in H as [Hf Ha]. specialize (IH Ha).
  pose proof (stream_coarse rq f) as C.
  destruct (skind_of f) eqn:K; simpl in Hf; try discriminate; rewrite C;
    destruct (run_from rq Streaming a) as [e q]; simpl in *;
    try (destruct (nonnull d)); simpl; exact IH.
Qed.

(* ... and yield exactly the truthy data of their next frames, in order *)
Definition next_data (fs : list frame) : list json :=
  flat_map (fun f => match skind_of f with SNext d => [d] | _ => [] end) fs.

Lemma nonterminal_yields rq a :
  forallb (fun f => negb (terminal (skind_of f))) a = true ->
  yielded_of (fst (run_from rq Streaming a)) = filter nonnull (next_data a).
Proof.
  induction a as [|f a IH]; simpl; intro H; [reflexivity|].
  apply andb_true_iff in H as [Hf Ha]. specialize (IH Ha).
  pose proof (stream_coarse rq f) as C. unfold next_data in *. simpl.
  destruct (skind_of f) eqn:K; simpl in Hf; try discriminate; rewrite C;
    destruct (run_from rq Streaming a) as [e q]; simpl in *;
    try (destruct (nonnull d)); simpl; rewrite ?IH; reflexivity.
Qed.

Lemma spec_yields r : yielded_of (fst (spec_stream r)) = next_data (spec_prefix r).
Proof.
  unfold next_data. induction r as [|f r IH]; [reflexivity|]. simpl.
  destruct (skind_of f) eqn:K; simpl; rewrite ?K; simpl; try reflexivity;
    destruct (spec_stream r) as [e o]; simpl in *; rewrite IH; reflexivity.
Qed.

Definition nonterminal (a : list frame) : bool :=
  forallb (fun f => negb (terminal (skind_of f))) a.

Lemma yields_partial c rq f r m : is_ack f = true -> subscribe_msg rq = Some m ->
  g_nonnull r = true ->
  yielded_of (t_events (run_ws c rq (f :: r))) = next_data (spec_prefix r).
Proof.
  intros A M T. unfold run_ws. simpl. rewrite (await_ack rq f A), M.
  pose proof (run_stream_yields rq r T) as Y. rewrite spec_yields in Y.
  destruct (run_from rq Streaming r) as [e q]. simpl in *. exact Y.
Qed.

Lemma silent_until_ack c rq fs : (forall f r, fs = f :: r -> is_ack f = false) ->
  sent_of (t_events (run_ws c rq fs)) = [init_msg c] /\ yielded_of (t_events (run_ws c rq fs)) = [].
Proof.
  intro H. split.
  - rewrite sent_closed_form. destruct fs as [|f r]; [reflexivity|]. rewrite (H f r eq_refl). reflexivity.
  - unfold run_ws. destruct fs as [|f r]; [reflexivity|]. simpl.
    destruct (await_not_ack rq f (H f r eq_refl)) as [o E]. rewrite E, run_done. reflexivity.
Qed.

Lemma first_not_ack c rq f r : type_crashes f = false -> is_ack f = false ->
  exists msg, t_fin (run_ws c rq (f :: r)) = RaisedInvalid msg /\
              t_events (run_ws c rq (f :: r)) = [ESend (init_msg c); ERecv].
Proof.
  intros S A. destruct (await_invalid rq f S A) as [m E]. exists m.
  unfold run_ws. simpl. rewrite E, run_done. split; reflexivity.
Qed.

Lemma one_subscribe c rq f r m : is_ack f = true -> subscribe_msg rq = Some m ->
  sent_of (t_events (run_ws c rq (f :: r))) =
    init_msg c :: m :: repeat pong_msg (count_pings (spec_prefix r)).
Proof. intros A M. rewrite sent_closed_form, A, M. reflexivity. Qed.

Lemma complete_finishes c rq f a x b m : is_ack f = true -> subscribe_msg rq = Some m ->
  nonterminal a = true -> skind_of x = SComplete ->
  t_fin (run_ws c rq (f :: a ++ x :: b)) = Finished /\
  closes_of (t_events (run_ws c rq (f :: a ++ x :: b))) = 1 /\
  consumed_of (t_events (run_ws c rq (f :: a ++ x :: b))) = S (S (List.length a)) /\
  yielded_of (t_events (run_ws c rq (f :: a ++ x :: b))) = filter nonnull (next_data a).
Proof.
  intros A M N K. destruct (fin_after_prefix c rq f a (x :: b) m A M N) as (F & Y & C & R).
  rewrite F, Y, C, R, (nonterminal_no_close rq a N), (nonterminal_yields rq a N),
    (nonterminal_consumed rq a N).
  simpl. pose proof (stream_coarse rq x) as SC. rewrite K in SC. rewrite SC, run_done. simpl.
  rewrite app_nil_r. unfold consumed_of. simpl. repeat split; auto; lia.
Qed.

Lemma error_multi c rq f a x b m l : is_ack f = true -> subscribe_msg rq = Some m ->
  nonterminal a = true -> skind_of x = SError l ->
  t_fin (run_ws c rq (f :: a ++ x :: b)) = RaisedMulti l (frame_json x) /\
  yielded_of (t_events (run_ws c rq (f :: a ++ x :: b))) = filter nonnull (next_data a).
Proof.
  intros A M N K. destruct (fin_after_prefix c rq f a (x :: b) m A M N) as (F & Y & _).
  rewrite F, Y, (nonterminal_yields rq a N). simpl.
  rewrite (stream_error_exact rq x l K), run_done. simpl. rewrite app_nil_r. auto.
Qed.

Lemma malformed_invalid c rq f a x b m : is_ack f = true -> subscribe_msg rq = Some m ->
  nonterminal a = true -> skind_of x = SMalformed -> shape_ok x = true ->
  t_fin (run_ws c rq (f :: a ++ x :: b)) = RaisedInvalid (Some x) /\
  yielded_of (t_events (run_ws c rq (f :: a ++ x :: b))) = filter nonnull (next_data a).
Proof.
  intros A M N K S. destruct (fin_after_prefix c rq f a (x :: b) m A M N) as (F & Y & _).
  rewrite F, Y, (nonterminal_yields rq a N). simpl.
  rewrite (stream_malformed_exact rq x S K), run_done. simpl. rewrite app_nil_r. auto.
Qed.

(* ------------------------------------------------------------------------------------------ *)
(* histories: every call of a history is the run of that call alone; the client is unchanged   *)
Lemma history_independent cl calls :
  snd (run_history cl calls) = cl /\
  fst (run_history cl calls) = map (fun c => run_ws (cfg_of cl (fst (fst c))) (snd (fst c)) (snd c)) calls.
Proof.
  induction calls as [|[[k rq] fs] r [IH1 IH2]]; [split; reflexivity|].
  simpl. destruct (run_history cl r) as [ts cl'']. simpl in *. subst. split; reflexivity.
Qed.

(* ------------------------------------------------------------------------------------------ *)
(* the run ends with a non-protocol exception exactly when a crash-class frame is consumed       *)
Lemma stream_other rq r e : snd (run_from rq Streaming r) = Done (RaisedOther e) ->
  exists a x b, r = a ++ x :: b /\ nonterminal a = true /\ crash_stream x = true.
Proof.
  unfold nonterminal. induction r as [|f r IH]; simpl; [discriminate|].
  pose proof (stream_coarse rq f) as C. pose proof (crash_stream_iff rq f) as X.
  destruct (skind_of f) eqn:K;
    try (rewrite C; destruct (run_from rq Streaming r) as [ev q] eqn:R; simpl in *; intro H;
         destruct (IH H) as (a & x & b & E & N & Cx); exists (f :: a), x, b; simpl;
         rewrite K, E; simpl; auto).
  - rewrite C, run_done. simpl. discriminate.
  - destruct C as [o C]. rewrite C, run_done. simpl. intro H. inversion H; subst.
    exists [], f, r. repeat split; auto. apply X. eauto.
  - destruct C as [o C]. rewrite C, run_done. simpl. intro H. inversion H; subst.
    exists [], f, r. repeat split; auto. apply X. eauto.
Qed.

Lemma only_protocol_outcomes c rq fs e : t_fin (run_ws c rq fs) = RaisedOther e ->
  (e = SER_ERROR /\ subscribe_msg rq = None /\ exists f r, fs = f :: r /\ is_ack f = true)
  \/ (exists f r, fs = f :: r /\ type_crashes f = true)
  \/ (exists f a x b, fs = f :: a ++ x :: b /\ is_ack f = true /\ nonterminal a = true /\ crash_stream x = true).
Proof.
  unfold run_ws. destruct fs as [|f r]; [simpl; discriminate|]. simpl.
  destruct (is_ack f) eqn:A.
  - rewrite (await_ack rq f A). destruct (subscribe_msg rq) as [m|] eqn:M.
    + pose proof (stream_other rq r e) as S. destruct (run_from rq Streaming r) as [ev q]. simpl in *.
      intro H. destruct q; try discriminate. simpl in H. subst.
      destruct (S eq_refl) as (a & x & b & E & N & Cx). right. right. exists f, a, x, b. subst. auto.
    + rewrite run_done. simpl. intro H. inversion H. left. repeat split; eauto.
  - unfold step. destruct (msg_type f) eqn:T.
    + rewrite run_done. simpl. discriminate.
    + rewrite run_done. simpl. intros _. right. left. exists f, r. split; auto.
      apply type_crashes_iff. eauto.
    + destruct t; rewrite ?run_done; simpl; try discriminate.
      assert (is_ack f = true) by (apply ack_iff; eauto). congruence.
Qed.

Lemma crash_consumed_raises c rq f a x b m : is_ack f = true -> subscribe_msg rq = Some m ->
  nonterminal a = true -> crash_stream x = true ->
  exists e, t_fin (run_ws c rq (f :: a ++ x :: b)) = RaisedOther e.
Proof.
  intros A M N Cx. destruct (fin_after_prefix c rq f a (x :: b) m A M N) as (F & _).
  apply (crash_stream_iff rq) in Cx as [e E]. exists e. rewrite F. simpl. rewrite E, run_done. reflexivity.
Qed.

Lemma first_crash_raises c rq f r : type_crashes f = true ->
  exists e, t_fin (run_ws c rq (f :: r)) = RaisedOther e.
Proof.
  intro H. apply type_crashes_iff in H as [e H]. exists e. unfold run_ws. simpl. unfold step. rewrite H.
  rewrite run_done. reflexivity.
Qed.

(* ------------------------------------------------------------------------------------------ *)
(* the message-type table exported to the harness is exactly what mtype_of_string decides       *)
Lemma mtype_table_exact s t : mtype_of_string s = Some t <-> exists n, In (n, s, t) type_table.
Proof.
  unfold mtype_of_string. split.
  - repeat match goal with
           | |- context [String.eqb s ?k] =>
               let E := fresh "E" in destruct (String.eqb s k) eqn:E;
               [apply String.eqb_eq in E; subst; intro H; inversion H; subst; eexists; simpl; eauto 12|]
           end.
    discriminate.
  - intros [n H]. simpl in H.
    repeat (destruct H as [H|H]; [inversion H; subst; reflexivity|]). contradiction.
Qed.
