(* Proofs about Model/Ws.v (C13).  Since /repo 2ce90a9 + 20e6b35 no finding class is open: every
   statement below is unguarded. *)
From Coq Require Import List String Ascii ZArith Bool Lia.
From AC Require Import Base.Sexp Base.Json Model.Ws.
Import ListNotations.
Local Open Scope string_scope.
Local Open Scope list_scope.

Local Arguments mtype_of_string : simpl never.
Local Arguments String.eqb : simpl never.
Local Arguments step : simpl never.

(* ------------------------------------------------------------------------------------------ *)
(* small facts                                                                                 *)

Lemma sent_of_app a b : sent_of (a ++ b) = sent_of a ++ sent_of b.
Proof. unfold sent_of. apply flat_map_app. Qed.
Lemma yielded_of_app a b : yielded_of (a ++ b) = yielded_of a ++ yielded_of b.
Proof. unfold yielded_of. apply flat_map_app. Qed.

(* ------------------------------------------------------------------------------------------ *)
(* one frame                                                                                   *)

(* before the ack: the handler's verdict as a function of the specification's classification *)
Lemma await_exact rq f :
  step rq AwaitAck f =
    match skind_of f with
    | SAck => match subscribe_msg rq with
              | Some m => (Streaming, [ERecv; ESend m])
              | None => (Done (RaisedOther SER_ERROR), [ERecv])
              end
    | _ => (Done (RaisedInvalid (match msg_type f with TInvalid => Some f | _ => None end)), [ERecv])
    end.
Proof.
  unfold step, skind_of, msg_type.
  destruct f as [s|j]; [reflexivity|]. destruct j; try reflexivity.
  destruct (jlookup "type" kv) as [t|]; [|reflexivity]. destruct t; try reflexivity.
  destruct (mtype_of_string s) as [m|]; [|reflexivity].
  destruct m; try reflexivity.
  - destruct (jlookup "payload" kv) as [q|]; [|reflexivity]. destruct q; try reflexivity.
    destruct (jlookup "data" kv0) as [d|]; [|reflexivity]. destruct d; try reflexivity.
    destruct (jlookup "errors" kv0) as [e|]; [|reflexivity]. destruct e; try reflexivity.
    destruct l; [reflexivity|]. destruct (wf_errors (j :: l)); reflexivity.
  - destruct (jlookup "payload" kv) as [q|]; [|reflexivity]. destruct q; try reflexivity.
    destruct (wf_errors l); reflexivity.
Qed.

Lemma await_ack rq f : is_ack f = true ->
  step rq AwaitAck f =
    match subscribe_msg rq with
    | Some m => (Streaming, [ERecv; ESend m])
    | None => (Done (RaisedOther SER_ERROR), [ERecv])
    end.
Proof. intro H. rewrite await_exact. unfold is_ack in H. destruct (skind_of f); try discriminate. reflexivity. Qed.

Lemma await_invalid rq f : is_ack f = false ->
  exists m, step rq AwaitAck f = (Done (RaisedInvalid m), [ERecv]).
Proof. intro H. rewrite await_exact. unfold is_ack in H. destruct (skind_of f); try discriminate; eauto. Qed.

(* once the stream is open: the handler's step IS the specification's, for every frame *)
Lemma stream_exact rq f :
  step rq Streaming f =
    match skind_of f with
    | SNext d => (Streaming, [ERecv; EYield d])
    | SPing => (Streaming, [ERecv; ESend pong_msg])
    | SPong | SAck | SIgnored => (Streaming, [ERecv])
    | SComplete => (Done Finished, [ERecv; EClose])
    | SError l => (Done (RaisedMulti l (frame_json f)), [ERecv])
    | SNextErrors l => (Done (RaisedMulti l JNull), [ERecv])
    | SMalformed => (Done (RaisedInvalid (Some f)), [ERecv])
    end.
Proof.
  unfold step, skind_of, msg_type, wf_errors.
  destruct f as [s|j]; [reflexivity|]. destruct j; try reflexivity.
  destruct (jlookup "type" kv) as [t|]; [|reflexivity]. destruct t; try reflexivity.
  destruct (mtype_of_string s) as [m|]; [|reflexivity].
  destruct m; try reflexivity; simpl.
  - (* next *)
    destruct (jlookup "payload" kv) as [q|]; [|reflexivity]. destruct q; try reflexivity. simpl.
    destruct (jlookup "data" kv0) as [d|]; [|reflexivity]. destruct d; try reflexivity.
    destruct (jlookup "errors" kv0) as [e|]; [|reflexivity]. destruct e; try reflexivity.
    destruct l; [reflexivity|]. simpl. destruct (is_error_obj j && forallb is_error_obj l); reflexivity.
  - (* error *)
    destruct (jlookup "payload" kv) as [q|]; [|reflexivity]. destruct q; try reflexivity. simpl.
    destruct (forallb is_error_obj l); reflexivity.
Qed.

(* ------------------------------------------------------------------------------------------ *)
(* runs                                                                                        *)

Lemma run_done rq o fs : run_from rq (Done o) fs = ([], Done o).
Proof. induction fs as [|f r IH]; simpl; [reflexivity|]. rewrite IH. reflexivity. Qed.

(* the whole streaming run IS the specification *)
Lemma run_stream_conform rq r :
  fst (run_from rq Streaming r) = fst (spec_stream r) /\
  finish (snd (run_from rq Streaming r)) = snd (spec_stream r).
Proof.
  induction r as [|f r [IH1 IH2]]; [split; reflexivity|].
  simpl. rewrite stream_exact.
  destruct (skind_of f); rewrite ?run_done; try (split; reflexivity);
    destruct (run_from rq Streaming r) as [e q]; destruct (spec_stream r) as [e' o'];
    simpl in *; subst; split; reflexivity.
Qed.

Definition same_obs (a b : trace) : Prop :=
  t_connect a = t_connect b /\ t_events a = t_events b /\ erase_msg (t_fin a) = erase_msg (t_fin b).

Lemma conform c rq fs : same_obs (run_ws c rq fs) (spec_ws c rq fs).
Proof.
  unfold same_obs, run_ws, spec_ws. destruct fs as [|f r]; [simpl; auto|].
  simpl. rewrite await_exact.
  destruct (skind_of f); rewrite ?run_done; simpl; auto.
  destruct (subscribe_msg rq) as [m|].
  - destruct (run_stream_conform rq r) as [E F].
    destruct (run_from rq Streaming r) as [e q]; destruct (spec_stream r) as [e' o'].
    simpl in *. subst. auto.
  - rewrite run_done. simpl. auto.
Qed.

Definition count_pings (fs : list frame) : nat :=
  List.length (filter (fun f => match skind_of f with SPing => true | _ => false end) fs).

(* what a run sends once streaming: one pong per ping the specification consumes, nothing else *)
Lemma run_stream_sent rq r :
  sent_of (fst (run_from rq Streaming r)) = repeat pong_msg (count_pings (spec_prefix r)).
Proof.
  induction r as [|f r IH]; [reflexivity|].
  simpl. unfold count_pings in *. rewrite stream_exact.
  destruct (skind_of f) eqn:K; simpl; rewrite ?run_done; simpl; rewrite ?K; simpl; try reflexivity;
    destruct (run_from rq Streaming r) as [e q]; simpl in *; rewrite ?IH; reflexivity.
Qed.

Lemma sent_closed_form c rq fs :
  sent_of (t_events (run_ws c rq fs)) =
    init_msg c ::
    match fs with
    | [] => []
    | f :: r =>
        if is_ack f then
          match subscribe_msg rq with
          | Some m => m :: repeat pong_msg (count_pings (spec_prefix r))
          | None => []
          end
        else []
    end.
Proof.
  unfold run_ws. destruct fs as [|f r]; [reflexivity|]. simpl.
  destruct (is_ack f) eqn:A.
  - rewrite (await_ack rq f A). destruct (subscribe_msg rq) as [m|].
    + pose proof (run_stream_sent rq r) as S. destruct (run_from rq Streaming r) as [e q]. simpl in *.
      rewrite S. reflexivity.
    + rewrite run_done. reflexivity.
  - destruct (await_invalid rq f A) as [o E]. rewrite E, run_done. reflexivity.
Qed.

Lemma events_head c rq fs :
  exists evs, t_events (run_ws c rq fs) = ESend (init_msg c) :: evs /\
              (fs = [] /\ evs = [] \/ exists evs', evs = ERecv :: evs').
Proof.
  unfold run_ws. destruct fs as [|f r].
  - simpl. eauto.
  - simpl. destruct (is_ack f) eqn:A.
    + rewrite (await_ack rq f A). destruct (subscribe_msg rq).
      * destruct (run_from rq Streaming r). simpl. eauto 6.
      * rewrite run_done. simpl. eauto 6.
    + destruct (await_invalid rq f A) as [o E]. rewrite E, run_done. simpl. eauto 6.
Qed.

Definition nonterminal (a : list frame) : bool :=
  forallb (fun f => negb (terminal (skind_of f))) a.

(* non-terminal frames keep the machine streaming *)
Lemma run_stream_app rq a r : nonterminal a = true ->
  exists e1, run_from rq Streaming a = (e1, Streaming) /\
             run_from rq Streaming (a ++ r) =
               (e1 ++ fst (run_from rq Streaming r), snd (run_from rq Streaming r)).
Proof.
  unfold nonterminal. induction a as [|f a IH]; simpl; intro H.
  - exists []. split; [reflexivity|]. destruct (run_from rq Streaming r); reflexivity.
  - apply andb_true_iff in H as [Hf Ha]. destruct (IH Ha) as (e1 & E1 & E2).
    rewrite stream_exact.
    destruct (skind_of f) eqn:K; simpl in Hf; try discriminate;
      rewrite E1, E2; eexists; (split; [reflexivity|]); rewrite <- ?app_assoc; reflexivity.
Qed.

(* ------------------------------------------------------------------------------------------ *)
(* the OpenTelemetry twin                                                                      *)

Lemma step_otel_same rq ph f : fst (step_otel rq ph f) = step rq ph f.
Proof.
  unfold step_otel, step. change (msg_type_otel f) with (msg_type f).
  destruct ph; try reflexivity; destruct (msg_type f); try reflexivity.
  - destruct t; try reflexivity. destruct (subscribe_msg rq); reflexivity.
  - destruct (action_of t payload); reflexivity.
Qed.

Lemma run_otel_same rq fs : forall ph, fst (run_from_otel rq ph fs) = run_from rq ph fs.
Proof.
  induction fs as [|f r IH]; intro ph; simpl; [reflexivity|].
  pose proof (step_otel_same rq ph f) as S.
  destruct (step_otel rq ph f) as [[ph' ev] sp]. simpl in S. rewrite <- S.
  specialize (IH ph'). destruct (run_from_otel rq ph' r) as [[evs p] sps]. simpl in IH. rewrite <- IH.
  reflexivity.
Qed.

Lemma otel_same c rq fs b : strip_spans (run_ws_otel b c rq fs) = run_ws c rq fs.
Proof.
  unfold run_ws_otel, run_ws. destruct b.
  - pose proof (run_otel_same rq fs AwaitAck) as S.
    destruct (run_from_otel rq AwaitAck fs) as [[evs p] sps]. simpl in S. rewrite <- S. reflexivity.
  - destruct (run_from rq AwaitAck fs). reflexivity.
Qed.

(* ------------------------------------------------------------------------------------------ *)
(* corollaries used by Properties/C13.v                                                        *)

Definition next_data (fs : list frame) : list json :=
  flat_map (fun f => match skind_of f with SNext d => [d] | _ => [] end) fs.

Lemma spec_yields r : yielded_of (fst (spec_stream r)) = next_data (spec_prefix r).
Proof.
  unfold next_data. induction r as [|f r IH]; [reflexivity|]. simpl.
  destruct (skind_of f) eqn:K; simpl; rewrite ?K; simpl; try reflexivity;
    destruct (spec_stream r) as [e o]; simpl in *; rewrite IH; reflexivity.
Qed.

(* the data of a next frame is never null in the specification's reading *)
Lemma snext_nonnull f d : skind_of f = SNext d -> nonnull d = true.
Proof.
  unfold skind_of. destruct f as [s|j]; [discriminate|]. destruct j; try discriminate.
  destruct (jlookup "type" kv) as [t|]; [|discriminate]. destruct t; try discriminate.
  destruct (mtype_of_string s) as [m|]; [|discriminate]. destruct m; try discriminate.
  - destruct (jlookup "payload" kv) as [q|]; [|discriminate]. destruct q; try discriminate.
    destruct (jlookup "data" kv0) as [x|]; [|discriminate].
    destruct x; intro H; inversion H; try reflexivity.
    destruct (jlookup "errors" kv0) as [e|]; [|discriminate]. destruct e; try discriminate.
    destruct l; [discriminate|]. destruct (wf_errors (j :: l)); discriminate.
  - destruct (jlookup "payload" kv) as [q|]; [|discriminate]. destruct q; try discriminate.
    destruct (wf_errors l); discriminate.
Qed.

Lemma yields c rq f r m : is_ack f = true -> subscribe_msg rq = Some m ->
  yielded_of (t_events (run_ws c rq (f :: r))) = next_data (spec_prefix r).
Proof.
  intros A M. unfold run_ws. simpl. rewrite (await_ack rq f A), M.
  destruct (run_stream_conform rq r) as [E _]. rewrite <- spec_yields, <- E.
  destruct (run_from rq Streaming r) as [e q]. reflexivity.
Qed.

Lemma silent_until_ack c rq fs : (forall f r, fs = f :: r -> is_ack f = false) ->
  sent_of (t_events (run_ws c rq fs)) = [init_msg c] /\ yielded_of (t_events (run_ws c rq fs)) = [].
Proof.
  intro H. split.
  - rewrite sent_closed_form. destruct fs as [|f r]; [reflexivity|]. rewrite (H f r eq_refl). reflexivity.
  - unfold run_ws. destruct fs as [|f r]; [reflexivity|]. simpl.
    destruct (await_invalid rq f (H f r eq_refl)) as [o E]. rewrite E, run_done. reflexivity.
Qed.

Lemma first_not_ack c rq f r : is_ack f = false ->
  exists msg, t_fin (run_ws c rq (f :: r)) = RaisedInvalid msg /\
              t_events (run_ws c rq (f :: r)) = [ESend (init_msg c); ERecv].
Proof.
  intros A. destruct (await_invalid rq f A) as [m E]. exists m.
  unfold run_ws. simpl. rewrite E, run_done. split; reflexivity.
Qed.

Lemma one_subscribe c rq f r m : is_ack f = true -> subscribe_msg rq = Some m ->
  sent_of (t_events (run_ws c rq (f :: r))) =
    init_msg c :: m :: repeat pong_msg (count_pings (spec_prefix r)).
Proof. intros A M. rewrite sent_closed_form, A, M. reflexivity. Qed.

(* after the ack and a prefix of non-terminal frames: what the rest of the run decides *)
Lemma after_prefix c rq f a r m : is_ack f = true -> subscribe_msg rq = Some m -> nonterminal a = true ->
  t_fin (run_ws c rq (f :: a ++ r)) = finish (snd (run_from rq Streaming r)) /\
  t_events (run_ws c rq (f :: a ++ r)) =
    ESend (init_msg c) :: ERecv :: ESend m :: fst (run_from rq Streaming a) ++ fst (run_from rq Streaming r).
Proof.
  intros A M N. unfold run_ws. simpl. rewrite (await_ack rq f A), M.
  destruct (run_stream_app rq a r N) as (e1 & E1 & E2). rewrite E2, E1.
  destruct (run_from rq Streaming r) as [e q]. simpl. split; reflexivity.
Qed.

Lemma nonterminal_events rq a : nonterminal a = true ->
  yielded_of (fst (run_from rq Streaming a)) = next_data a /\
  closes_of (fst (run_from rq Streaming a)) = 0 /\
  consumed_of (fst (run_from rq Streaming a)) = List.length a.
Proof.
  unfold nonterminal, next_data. induction a as [|f a IH]; simpl; intro H; [auto|].
  apply andb_true_iff in H as [Hf Ha]. destruct (IH Ha) as (I1 & I2 & I3).
  rewrite stream_exact.
  destruct (skind_of f) eqn:K; simpl in Hf; try discriminate;
    destruct (run_from rq Streaming a) as [e q]; simpl in *;
    unfold closes_of, consumed_of in *; simpl; rewrite ?I1; auto.
Qed.

Lemma terminal_outcome c rq f a x b m o ev : is_ack f = true -> subscribe_msg rq = Some m ->
  nonterminal a = true -> step rq Streaming x = (Done o, ev) ->
  t_fin (run_ws c rq (f :: a ++ x :: b)) = o /\
  yielded_of (t_events (run_ws c rq (f :: a ++ x :: b))) = next_data a ++ yielded_of ev /\
  closes_of (t_events (run_ws c rq (f :: a ++ x :: b))) = closes_of ev /\
  consumed_of (t_events (run_ws c rq (f :: a ++ x :: b))) = S (List.length a + consumed_of ev).
Proof.
  intros A M N S. destruct (after_prefix c rq f a (x :: b) m A M N) as (F & E).
  destruct (nonterminal_events rq a N) as (Y & C & R).
  rewrite F, E. simpl. rewrite S, run_done. simpl. rewrite app_nil_r.
  unfold closes_of, consumed_of in *. simpl. rewrite yielded_of_app, !filter_app, !app_length, Y, C, R.
  auto.
Qed.

Lemma complete_finishes c rq f a x b m : is_ack f = true -> subscribe_msg rq = Some m ->
  nonterminal a = true -> skind_of x = SComplete ->
  t_fin (run_ws c rq (f :: a ++ x :: b)) = Finished /\
  closes_of (t_events (run_ws c rq (f :: a ++ x :: b))) = 1 /\
  consumed_of (t_events (run_ws c rq (f :: a ++ x :: b))) = S (S (List.length a)) /\
  yielded_of (t_events (run_ws c rq (f :: a ++ x :: b))) = next_data a.
Proof.
  intros A M N K. pose proof (stream_exact rq x) as S. rewrite K in S.
  destruct (terminal_outcome c rq f a x b m _ _ A M N S) as (F & Y & C & R).
  rewrite F, Y, C, R. simpl. rewrite app_nil_r. unfold closes_of, consumed_of. simpl.
  repeat split; auto. lia.
Qed.

Lemma error_multi c rq f a x b m l : is_ack f = true -> subscribe_msg rq = Some m ->
  nonterminal a = true -> skind_of x = SError l ->
  t_fin (run_ws c rq (f :: a ++ x :: b)) = RaisedMulti l (frame_json x) /\
  yielded_of (t_events (run_ws c rq (f :: a ++ x :: b))) = next_data a.
Proof.
  intros A M N K. pose proof (stream_exact rq x) as S. rewrite K in S.
  destruct (terminal_outcome c rq f a x b m _ _ A M N S) as (F & Y & _).
  rewrite F, Y. simpl. rewrite app_nil_r. auto.
Qed.

Lemma next_errors_multi c rq f a x b m l : is_ack f = true -> subscribe_msg rq = Some m ->
  nonterminal a = true -> skind_of x = SNextErrors l ->
  t_fin (run_ws c rq (f :: a ++ x :: b)) = RaisedMulti l JNull /\
  yielded_of (t_events (run_ws c rq (f :: a ++ x :: b))) = next_data a.
Proof.
  intros A M N K. pose proof (stream_exact rq x) as S. rewrite K in S.
  destruct (terminal_outcome c rq f a x b m _ _ A M N S) as (F & Y & _).
  rewrite F, Y. simpl. rewrite app_nil_r. auto.
Qed.

Lemma malformed_invalid c rq f a x b m : is_ack f = true -> subscribe_msg rq = Some m ->
  nonterminal a = true -> skind_of x = SMalformed ->
  t_fin (run_ws c rq (f :: a ++ x :: b)) = RaisedInvalid (Some x) /\
  yielded_of (t_events (run_ws c rq (f :: a ++ x :: b))) = next_data a.
Proof.
  intros A M N K. pose proof (stream_exact rq x) as S. rewrite K in S.
  destruct (terminal_outcome c rq f a x b m _ _ A M N S) as (F & Y & _).
  rewrite F, Y. simpl. rewrite app_nil_r. auto.
Qed.

(* no frame whatsoever can make the run end with a non-protocol exception *)
Lemma stream_never_other rq r e : snd (run_from rq Streaming r) <> Done (RaisedOther e).
Proof.
  destruct (run_stream_conform rq r) as [_ F]. intro H. rewrite H in F. simpl in F.
  clear H. revert F. induction r as [|f r IH]; simpl; [discriminate|].
  destruct (skind_of f); try discriminate; destruct (spec_stream r) as [ev o]; simpl in *; auto.
Qed.

Lemma only_protocol_outcomes c rq fs e : t_fin (run_ws c rq fs) = RaisedOther e ->
  e = SER_ERROR /\ subscribe_msg rq = None /\ exists f r, fs = f :: r /\ is_ack f = true.
Proof.
  unfold run_ws. destruct fs as [|f r]; [simpl; discriminate|]. simpl.
  destruct (is_ack f) eqn:A.
  - rewrite (await_ack rq f A). destruct (subscribe_msg rq) as [m|] eqn:M.
    + pose proof (stream_never_other rq r e) as S. destruct (run_from rq Streaming r) as [ev q]. simpl in *.
      intro H. destruct q; try discriminate. simpl in H. subst. contradiction.
    + rewrite run_done. simpl. intro H. inversion H. repeat split; eauto.
  - destruct (await_invalid rq f A) as [m E]. rewrite E, run_done. simpl. discriminate.
Qed.

(* ------------------------------------------------------------------------------------------ *)
(* histories: every call of a history is the run of that call alone; the client is unchanged   *)
Lemma history_independent cl calls :
  snd (run_history cl calls) = cl /\
  fst (run_history cl calls) = map (fun c => run_ws (cfg_of cl (fst (fst c))) (snd (fst c)) (snd c)) calls.
Proof.
  induction calls as [|[[k rq] fs] r [IH1 IH2]]; [split; reflexivity|].
  simpl. destruct (run_history cl r) as [ts cl'']. simpl in *. subst. split; reflexivity.
Qed.

(* ------------------------------------------------------------------------------------------ *)
(* the message-type table exported to the harness is exactly what mtype_of_string decides       *)
Lemma mtype_table_exact s t : mtype_of_string s = Some t <-> exists n, In (n, s, t) type_table.
Proof.
  unfold mtype_of_string. split.
  - repeat match goal with
           | |- context [String.eqb s ?k] =>
               let E := fresh "E" in destruct (String.eqb s k) eqn:E;
               [apply String.eqb_eq in E; subst; intro H; inversion H; subst; eexists; simpl; eauto 12|]
           end.
    discriminate.
  - intros [n H]. simpl in H.
    repeat (destruct H as [H|H]; [inversion H; subst; reflexivity|]). contradiction.
Qed.
