(* Proofs about Model/Plugins.v (C15). *)
From Coq Require Import List String Ascii Bool Arith Lia.
From AC Require Import Base.Strs Base.Sexp Model.Names Model.Plugins.
Import ListNotations.
Local Open Scope string_scope.
Local Open Scope list_scope.

(* ================================================================== 1. the manager is a fold *)
Lemma apply_hook_app : forall ps qs h o,
  apply_hook (ps ++ qs) h o =
  match apply_hook ps h o with
  | None => None
  | Some (ps', o1) =>
      match apply_hook qs h o1 with
      | None => None
      | Some (qs', o2) => Some (ps' ++ qs', o2)
      end
  end.
Proof.
  induction ps as [|p r IH]; intros qs h o; simpl.
  - destruct (apply_hook qs h o) as [[qs' o2]|]; reflexivity.
  - destruct (step p h o) as [[p' o1]|]; [|reflexivity].
    rewrite IH. destruct (apply_hook r h o1) as [[r' o2]|]; [|reflexivity].
    destruct (apply_hook qs h o2) as [[qs' o3]|]; reflexivity.
Qed.

Lemma apply_hook_length : forall ps h o ps' o', apply_hook ps h o = Some (ps', o') -> List.length ps' = List.length ps.
Proof.
  induction ps as [|p r IH]; intros h o ps' o' H; simpl in H.
  - inversion H; reflexivity.
  - destruct (step p h o) as [[p1 o1]|]; [|discriminate].
    destruct (apply_hook r h o1) as [[r' o2]|] eqn:E; [|discriminate].
    inversion H; subst. simpl. f_equal. eapply IH; eauto.
Qed.

(* ================================================================== 2. a plugin overriding no hook *)
Definition is_identity (p : plugin) : bool := match p with PIdentity => true | _ => false end.
Definition strip (ps : list plugin) : list plugin := filter (fun p => negb (is_identity p)) ps.

Lemma step_identity : forall h o, step PIdentity h o = Some (PIdentity, o).
Proof. reflexivity. Qed.

Lemma step_kind : forall p h o p' o', step p h o = Some (p', o') -> is_identity p' = is_identity p.
Proof.
  intros [st|st| | |] h o p' o' H; simpl in H.
  - destruct (sh_step st h o) as [[st' o1]|]; inversion H; reflexivity.
  - destruct (ex_step st h o) as [[st' o1]|]; inversion H; reflexivity.
  - destruct (fr_step h o); inversion H; reflexivity.
  - inversion H; reflexivity.
  - inversion H; reflexivity.
Qed.

Lemma apply_hook_strip : forall ps h o,
  apply_hook (strip ps) h o =
  match apply_hook ps h o with None => None | Some (ps', o') => Some (strip ps', o') end.
Proof.
  induction ps as [|p r IH]; intros h o; simpl; [reflexivity|].
  destruct (is_identity p) eqn:Ei; simpl.
  - destruct p; try discriminate. simpl. rewrite IH.
    destruct (apply_hook r h o) as [[r' o2]|]; reflexivity.
  - destruct (step p h o) as [[p' o1]|] eqn:Es; [|reflexivity].
    rewrite IH. destruct (apply_hook r h o1) as [[r' o2]|]; [|reflexivity].
    simpl. rewrite (step_kind _ _ _ _ _ Es), Ei. reflexivity.
Qed.

Lemma strip_app : forall a b, strip (a ++ b) = strip a ++ strip b.
Proof. intros; unfold strip; apply filter_app. Qed.

Lemma strip_insert : forall ps qs, strip (ps ++ PIdentity :: qs) = strip (ps ++ qs).
Proof. intros. rewrite !strip_app. reflexivity. Qed.

(* hook level: inserting the identity plugin anywhere changes no hook's result and no other plugin's state *)
Theorem identity_neutral_hook : forall ps qs h o,
  match apply_hook (ps ++ PIdentity :: qs) h o, apply_hook (ps ++ qs) h o with
  | Some (l1, o1), Some (l2, o2) => o1 = o2 /\ strip l1 = strip l2
  | None, None => True
  | _, _ => False
  end.
Proof.
  intros. pose proof (apply_hook_strip (ps ++ PIdentity :: qs) h o) as H1.
  pose proof (apply_hook_strip (ps ++ qs) h o) as H2.
  rewrite strip_insert in H1. rewrite H1 in H2. clear H1.
  destruct (apply_hook (ps ++ PIdentity :: qs) h o) as [[l1 o1]|];
    destruct (apply_hook (ps ++ qs) h o) as [[l2 o2]|]; try discriminate; auto.
  inversion H2; auto.
Qed.

Lemma apply_classes_strip : forall cs ps,
  apply_classes (strip ps) cs = option_map strip (apply_classes ps cs).
Proof.
  induction cs as [|c r IH]; intros ps; simpl; [reflexivity|].
  rewrite apply_hook_strip. destruct (apply_hook ps HResultClass (OClass c)) as [[ps' o']|]; [|reflexivity].
  apply IH.
Qed.

Lemma gen_op_strip : forall ps u,
  gen_op (strip ps) u = match gen_op ps u with None => None | Some (ps', m) => Some (strip ps', m) end.
Proof.
  intros ps u. unfold gen_op. rewrite apply_classes_strip.
  destruct (apply_classes ps (uo_classes u)) as [ps1|]; simpl; [|reflexivity].
  rewrite apply_hook_strip.
  destruct (apply_hook ps1 HResultModule (OResultModule (uo_imports u))) as [[ps2 o2]|]; [|reflexivity].
  rewrite apply_hook_strip.
  destruct (apply_hook ps2 (HOpStr (uo_name u)) (OOpStr (uo_str u))) as [[ps3 o3]|]; [|reflexivity].
  destruct o3; try reflexivity.
  rewrite apply_hook_strip.
  destruct (apply_hook ps3 (HClientMethod (uo_name u) (uo_kind u)) (OMethod (set_doc (uo_method u) s))) as [[ps4 o4]|];
    [|reflexivity].
  destruct o4; reflexivity.
Qed.

Lemma gen_ops_strip : forall us ps,
  gen_ops (strip ps) us = match gen_ops ps us with None => None | Some (ps', ms) => Some (strip ps', ms) end.
Proof.
  induction us as [|u r IH]; intros ps; simpl; [reflexivity|].
  rewrite gen_op_strip. destruct (gen_op ps u) as [[ps1 m]|]; [|reflexivity].
  rewrite IH. destruct (gen_ops ps1 r) as [[ps2 ms]|]; reflexivity.
Qed.

Lemma written_strip : forall ps, written_modules (strip ps) = written_modules ps.
Proof.
  induction ps as [|p r IH]; simpl; [reflexivity|].
  destruct p; simpl; rewrite ?IH; reflexivity.
Qed.

Lemma generate_strip : forall ps u, generate (strip ps) u = generate ps u.
Proof.
  intros ps u. unfold generate. rewrite gen_ops_strip.
  destruct (gen_ops ps (u_ops u)) as [[ps1 ms]|]; [|reflexivity].
  rewrite apply_classes_strip.
  destruct (apply_classes ps1 (u_fragment_classes u)) as [ps2|]; simpl; [|reflexivity].
  rewrite apply_hook_strip.
  destruct (apply_hook ps2 HFragmentsModule _) as [[ps3 o3]|]; [|reflexivity].
  rewrite apply_hook_strip.
  destruct (apply_hook ps3 HClientModule _) as [[ps4 o4]|]; [|reflexivity].
  destruct o4; try reflexivity.
  rewrite apply_hook_strip.
  destruct (apply_hook ps4 HInitModule _) as [[ps5 o5]|]; [|reflexivity].
  destruct o5; try reflexivity. rewrite written_strip. reflexivity.
Qed.

(* package level: the whole generated package is the same with the identity plugin inserted anywhere *)
Theorem identity_neutral_package : forall ps qs u, generate (ps ++ PIdentity :: qs) u = generate (ps ++ qs) u.
Proof.
  intros. rewrite <- (generate_strip (ps ++ PIdentity :: qs)), <- (generate_strip (ps ++ qs)).
  rewrite strip_insert. reflexivity.
Qed.

(* ================================================================== 3. NoReimports *)
Definition is_init_hook (h : hook) : bool := match h with HInitModule => true | _ => false end.

Theorem no_reimports_other_hooks : forall h o, is_init_hook h = false -> step PNoReimports h o = Some (PNoReimports, o).
Proof. intros h o H. destruct h; try discriminate; reflexivity. Qed.

Theorem no_reimports_init : forall i, step PNoReimports HInitModule (OInit i) = Some (PNoReimports, OInit None).
Proof. reflexivity. Qed.

(* ================================================================== 4. ClientForwardRefs: annotations *)
Section AnnInd.
  Variable P : ann -> Prop.
  Hypothesis Hn : forall n, P (AName n).
  Hypothesis Hc : forall s, P (AConst s).
  Hypothesis Ho : forall t, P (AOther t).
  Hypothesis Hs : forall h args, Forall P args -> P (ASub h args).
  Fixpoint ann_ind' (a : ann) : P a :=
    match a with
    | AName n => Hn n
    | AConst s => Hc s
    | AOther t => Ho t
    | ASub h args =>
        Hs h args ((fix go (l : list ann) : Forall P l :=
                      match l with
                      | [] => Forall_nil P
                      | x :: r => Forall_cons x (ann_ind' x) (go r)
                      end) args)
    end.
End AnnInd.

Theorem forward_refs_denotation : forall ic a, denote (fst (fr_ann ic a)) = denote a.
Proof.
  intros ic a. induction a using ann_ind'; simpl; try reflexivity.
  - destruct (lookup n ic); reflexivity.
  - f_equal. rewrite !map_map. apply map_ext_in. intros x Hx.
    rewrite Forall_forall in H. apply H; exact Hx.
Qed.

(* names turned into constants are exactly local imports *)
Lemma fr_ann_names_local : forall ic a n, In n (snd (fr_ann ic a)) -> exists src, lookup n ic = Some src.
Proof.
  intros ic a. induction a using ann_ind'; simpl; intros m Hm; try contradiction.
  - destruct (lookup n ic) eqn:E; simpl in Hm; [|contradiction].
    destruct Hm as [<-|[]]. eauto.
  - rewrite flat_map_concat_map, map_map in Hm. apply in_concat in Hm. destruct Hm as [l [Hl Hin]].
    apply in_map_iff in Hl. destruct Hl as [x [<- Hx]]. rewrite Forall_forall in H. eapply H; eauto.
Qed.

(* ================================================================== 5. ShorterResults is a projection *)
Lemma last_map_some : forall (l : list stmt) s, last (map Some l) None = Some s -> l = removelast l ++ [s].
Proof.
  induction l as [|x r IH]; intros s H; [discriminate|].
  destruct r as [|y r'].
  - simpl in H. inversion H. reflexivity.
  - change (removelast (x :: y :: r')) with (x :: removelast (y :: r')).
    simpl app. f_equal. apply IH. exact H.
Qed.

Lemma result_expr_set_last : forall m r b s,
  result_expr (with_ret_body m r (set_last b s)) =
  match s with SReturn e => Some e | SAsyncFor _ _ _ e => Some e | _ => None end.
Proof.
  intros. unfold result_expr, with_ret_body, set_last. cbn [m_body].
  rewrite map_app. cbn [map]. rewrite last_last. reflexivity.
Qed.

(* whatever the class dictionary: either the method is left alone, or it now returns attribute f of what it
   returned before, where f is the ONLY entry of all_fields of the declared result class, and its return
   annotation is that field's (unquoted / un-Annotated) annotation *)
Theorem shorter_is_projection : forall st m st' m',
  sh_method st m = Some (st', m') ->
  m' = m \/
  exists cls f a e,
    lookup cls (sh_classes st) <> None /\
    (exists c, lookup cls (sh_classes st) = Some c /\
               all_fields (S (List.length (sh_classes st))) (sh_classes st) c = Some [(f, a)]) /\
    result_expr m = Some e /\ result_expr m' = Some (RAttr e f) /\
    (m_returns m' = Some (fst (sh_update a)) \/ m_returns m' = Some (ASub "AsyncIterator" [fst (sh_update a)])) /\
    m_params m' = m_params m /\ m_name m' = m_name m /\
    removelast (m_body m') = removelast (m_body m) /\
    (forall V, eval_r V (RAttr e f) =
               match eval_r V e with Some (VObj attrs) => lookup f attrs | _ => None end).
Proof.
  intros st m st' m' H. unfold sh_method in H.
  destruct (last (map Some (m_body m)) None) as [s|] eqn:El; [|inversion H; auto].
  pose proof (last_map_some _ _ El) as Hb.
  destruct s; try (inversion H; auto; fail).
  - (* SReturn *)
    destruct (m_returns m) as [[cls| | |]|] eqn:Er; try (inversion H; auto; fail).
    unfold sh_single_field in H.
    destruct (lookup cls (sh_classes st)) as [c|] eqn:Ec; [|inversion H; auto].
    destruct (all_fields _ _ c) as [fs|] eqn:Ea; [|discriminate].
    destruct fs as [|[f a] [|]]; try (inversion H; auto; fail).
    destruct (sh_update a) as [node ids] eqn:Eu. inversion H; subst; clear H.
    right. exists cls, f, a, e. rewrite Ec, Eu. simpl.
    split; [discriminate|]. split; [eauto|].
    split; [unfold result_expr; rewrite El; reflexivity|].
    split; [rewrite result_expr_set_last; reflexivity|].
    split; [auto|]. split; [reflexivity|]. split; [reflexivity|].
    split; [unfold set_last; rewrite removelast_last; reflexivity|].
    intros V; reflexivity.
  - (* SAsyncFor *)
    destruct (m_returns m) as [[| |hd [|[cls| | |] [|]]|]|] eqn:Er; try (inversion H; auto; fail).
    unfold sh_single_field in H.
    destruct (lookup cls (sh_classes st)) as [c|] eqn:Ec; [|inversion H; auto].
    destruct (all_fields _ _ c) as [fs|] eqn:Ea; [|discriminate].
    destruct fs as [|[f a] [|]]; try (inversion H; auto; fail).
    destruct (sh_update a) as [node ids] eqn:Eu. inversion H; subst; clear H.
    right. exists cls, f, a, e. rewrite Ec, Eu. simpl.
    split; [discriminate|]. split; [eauto|].
    split; [unfold result_expr; rewrite El; reflexivity|].
    split; [rewrite result_expr_set_last; reflexivity|].
    split; [auto|]. split; [reflexivity|]. split; [reflexivity|].
    split; [unfold set_last; rewrite removelast_last; reflexivity|].
    intros V; reflexivity.
Qed.

(* ================================================================== 6. dictionaries *)
Lemma lookup_dict_set : forall X k k' (v : X) l,
  lookup k (dict_set k' v l) = if String.eqb k k' then Some v else lookup k l.
Proof.
  intros X k k' v l. induction l as [|[k0 v0] r IH]; simpl.
  - reflexivity.
  - destruct (String.eqb k' k0) eqn:E0; simpl.
    + apply String.eqb_eq in E0; subst k0. destruct (String.eqb k k'); reflexivity.
    + rewrite IH. destruct (String.eqb k k0) eqn:E1; [|reflexivity].
      apply String.eqb_eq in E1; subst k0. rewrite String.eqb_sym in E0.
      rewrite E0. reflexivity.
Qed.

Lemma keys_dict_set : forall X k (v : X) l,
  map fst (dict_set k v l) = if mem k (map fst l) then map fst l else map fst l ++ [k].
Proof.
  intros X k v l. induction l as [|[k0 v0] r IH]; simpl; [reflexivity|].
  unfold mem in *. simpl. destruct (String.eqb k k0) eqn:E; simpl; [apply String.eqb_eq in E; subst; reflexivity|].
  rewrite IH. destruct (existsb (String.eqb k) (map fst r)); reflexivity.
Qed.

Lemma mem_In : forall x l, mem x l = true <-> In x l.
Proof.
  intros x l. unfold mem. rewrite existsb_exists. split.
  - intros [y [Hy E]]. apply String.eqb_eq in E; subst; exact Hy.
  - intros H. exists x. split; [exact H|apply String.eqb_refl].
Qed.

Lemma NoDup_app_intro_single : forall (l : list string) a, NoDup l -> ~ In a l -> NoDup (l ++ [a]).
Proof.
  induction l as [|x r IH]; intros a Hnd Hn; simpl.
  - constructor; [intros []|constructor].
  - inversion Hnd; subst. constructor.
    + intro Hc. apply in_app_or in Hc. destruct Hc as [Hc|[Hc|[]]]; [contradiction|].
      subst. apply Hn. left; reflexivity.
    + apply IH; [assumption|]. intro Hc. apply Hn. right; exact Hc.
Qed.

(* ================================================================== 7. ExtractOperations: same strings *)
Definition ex_record (st : ex_state) (op : string * string) : ex_state :=
  {| ex_module := ex_module st; ex_gqls := dict_set (fst op) (snd op) (ex_gqls st);
     ex_vars := dict_set (fst op) (const_name (fst op)) (ex_vars st); ex_written := ex_written st |}.

Lemma ex_step_opstr : forall st n s,
  ex_step st (HOpStr n) (OOpStr s) = Some (ex_record st (n, s), OOpStr s).
Proof. reflexivity. Qed.

Definition ex_inv (names : list string) (st : ex_state) : Prop :=
  (forall k, In k (map fst (ex_gqls st)) -> lookup k (ex_vars st) = Some (const_name k)) /\
  NoDup (map fst (ex_gqls st)) /\ incl (map fst (ex_gqls st)) names.

Lemma ex_record_inv : forall names st op, In (fst op) names -> ex_inv names st -> ex_inv names (ex_record st op).
Proof.
  intros names st [n s] Hn [Hv [Hnd Hi]]. unfold ex_inv, ex_record; simpl in *.
  rewrite keys_dict_set. destruct (mem n (map fst (ex_gqls st))) eqn:Em.
  - split; [|split; assumption].
    intros k Hk. rewrite lookup_dict_set. destruct (String.eqb k n) eqn:E.
    + apply String.eqb_eq in E; subst; reflexivity.
    + apply Hv; exact Hk.
  - split; [|split].
    + intros k Hk. rewrite lookup_dict_set. destruct (String.eqb k n) eqn:E.
      * apply String.eqb_eq in E; subst; reflexivity.
      * apply in_app_or in Hk. destruct Hk as [Hk|[Hk|[]]]; [apply Hv; exact Hk|].
        subst. rewrite String.eqb_refl in E. discriminate.
    + apply NoDup_app_intro_single; [exact Hnd|].
      intro Hc. apply mem_In in Hc. congruence.
    + intros x Hx. apply in_app_or in Hx. destruct Hx as [Hx|[<-|[]]]; [apply Hi; exact Hx|exact Hn].
Qed.

Definition ex_record_all (st : ex_state) (ops : list (string * string)) : ex_state := fold_left ex_record ops st.

Lemma ex_record_all_inv : forall names ops st,
  incl (map fst ops) names -> ex_inv names st -> ex_inv names (ex_record_all st ops).
Proof.
  intros names ops. induction ops as [|op r IH]; intros st Hi Hinv; simpl; [exact Hinv|].
  apply IH.
  - intros x Hx. apply Hi. right; exact Hx.
  - apply ex_record_inv; [apply Hi; left; reflexivity|exact Hinv].
Qed.

Lemma ex_record_all_other : forall ops st n,
  ~ In n (map fst ops) -> lookup n (ex_gqls (ex_record_all st ops)) = lookup n (ex_gqls st).
Proof.
  induction ops as [|[k s] r IH]; intros st n Hn; simpl; [reflexivity|].
  rewrite IH by (intro Hc; apply Hn; right; exact Hc).
  simpl. rewrite lookup_dict_set. destruct (String.eqb n k) eqn:E; [|reflexivity].
  apply String.eqb_eq in E; subst. exfalso. apply Hn. left; reflexivity.
Qed.

Lemma ex_record_all_lookup : forall ops st n s,
  NoDup (map fst ops) -> In (n, s) ops -> lookup n (ex_gqls (ex_record_all st ops)) = Some s.
Proof.
  induction ops as [|[k s0] r IH]; intros st n s Hnd Hin; [contradiction|].
  simpl in Hnd. inversion Hnd; subst. destruct Hin as [Heq|Hin].
  - inversion Heq; subst. simpl. rewrite ex_record_all_other by assumption.
    simpl. rewrite lookup_dict_set, String.eqb_refl. reflexivity.
  - simpl. apply IH; assumption.
Qed.

(* resolving a constant through the operations module *)
Lemma module_lookup : forall (vars gqls : list (string * string)) n s,
  (forall k, In k (map fst gqls) -> lookup k vars = Some (const_name k)) ->
  NoDup (map const_name (map fst gqls)) ->
  lookup n gqls = Some s ->
  lookup (const_name n)
         (flat_map (fun kv : string * string => match lookup (fst kv) vars with Some c => [(c, snd kv)] | None => [] end) gqls) = Some s.
Proof.
  intros vars gqls. induction gqls as [|[k s0] r IH]; intros n s Hv Hnd Hl; [discriminate|].
  simpl in *. rewrite (Hv k (or_introl eq_refl)). simpl.
  destruct (String.eqb n k) eqn:E.
  - apply String.eqb_eq in E; subst. rewrite String.eqb_refl. exact Hl.
  - inversion Hnd; subst.
    destruct (String.eqb (const_name n) (const_name k)) eqn:Ec.
    + exfalso. apply String.eqb_eq in Ec. apply H1. rewrite <- Ec.
      apply in_map. clear - Hl. induction r as [|[k1 v1] r IH]; [discriminate|].
      simpl in *. destruct (String.eqb n k1) eqn:E1; [apply String.eqb_eq in E1; subst; left; reflexivity|].
      right. apply IH. exact Hl.
    + apply IH; [intros k0 Hk0; apply Hv; right; exact Hk0|assumption|exact Hl].
Qed.

Lemma NoDup_map_incl : forall (f : string -> string) l names,
  NoDup l -> incl l names -> NoDup (map f names) -> NoDup (map f l).
Proof.
  intros f l names Hnd Hi Hf. induction l as [|x r IH]; simpl; [constructor|].
  inversion Hnd; subst. constructor.
  - intro Hc. apply in_map_iff in Hc. destruct Hc as [y [Hfy Hy]].
    assert (x = y).
    { assert (Hx : In x names) by (apply Hi; left; reflexivity).
      assert (Hy' : In y names) by (apply Hi; right; exact Hy).
      clear - Hf Hfy Hx Hy'. induction names as [|z t IHn]; [contradiction|].
      simpl in Hf. inversion Hf; subst. destruct Hx as [<-|Hx]; destruct Hy' as [<-|Hy']; auto.
      - exfalso. apply H1. rewrite <- Hfy. apply in_map. exact Hy'.
      - exfalso. apply H1. rewrite Hfy. apply in_map. exact Hx. }
    subst. contradiction.
  - apply IH; [assumption|]. intros z Hz. apply Hi. right; exact Hz.
Qed.

(* the constant named SNAKE_UPPER_GQL of the written module holds exactly the operation string the hook saw *)
Theorem extract_same_strings : forall m ops n s,
  NoDup (map const_name (map fst ops)) ->
  In (n, s) ops ->
  lookup (const_name n)
         (ex_operations_module (ex_record_all {| ex_module := m; ex_gqls := []; ex_vars := []; ex_written := false |} ops))
  = Some s.
Proof.
  intros m ops n s Hnd Hin.
  assert (Hn : NoDup (map fst ops)).
  { clear - Hnd. induction (map fst ops) as [|x r IH]; [constructor|].
    simpl in Hnd. inversion Hnd; subst. constructor; [|apply IH; assumption].
    intro Hc. apply H1. apply in_map. exact Hc. }
  set (st0 := {| ex_module := m; ex_gqls := []; ex_vars := []; ex_written := false |}).
  assert (Hinv : ex_inv (map fst ops) (ex_record_all st0 ops)).
  { apply ex_record_all_inv; [apply incl_refl|].
    split; [intros k []|split; [constructor|intros x []]]. }
  destruct Hinv as [Hv [Hk Hi]].
  unfold ex_operations_module. apply module_lookup.
  - exact Hv.
  - eapply NoDup_map_incl; eauto.
  - apply ex_record_all_lookup; assumption.
Qed.

(* ================================================================== 8. no plugin touches the request *)
Definition request_body (C : list (string * string)) (body : list stmt) : option (string * string * string * string) :=
  match find_call body, find_vars body with
  | Some (q, on, rest), Some vars =>
      match resolve C body q with Some doc => Some (doc, on, rest, vars) | None => None end
  | _, _ => None
  end.
Lemma request_of_body : forall C m, request_of C m = request_body C (m_body m).
Proof. reflexivity. Qed.

Lemma find_call_app : forall l l2, find_call (l ++ l2) = match find_call l with Some x => Some x | None => find_call l2 end.
Proof. induction l as [|s r IH]; intros; simpl; [reflexivity|]. destruct s; auto. Qed.
Lemma find_vars_app : forall l l2, find_vars (l ++ l2) = match find_vars l with Some x => Some x | None => find_vars l2 end.
Proof. induction l as [|s r IH]; intros; simpl; [reflexivity|]. destruct s; auto. Qed.
Lemma find_doc_app : forall v l l2, find_doc v (l ++ l2) = match find_doc v l with Some x => Some x | None => find_doc v l2 end.
Proof.
  induction l as [|s r IH]; intros; simpl; [reflexivity|]. destruct s; auto.
  destruct (String.eqb v var); auto.
Qed.

Lemma request_last_irrelevant : forall C pre s s',
  find_call [s] = find_call [s'] -> (forall v, find_doc v [s] = find_doc v [s']) -> find_vars [s] = find_vars [s'] ->
  request_body C (pre ++ [s]) = request_body C (pre ++ [s']).
Proof.
  intros C pre s s' Hc Hd Hv. unfold request_body, resolve.
  rewrite !find_call_app, !find_vars_app, Hc, Hv.
  destruct (match find_call pre with Some x => Some x | None => find_call [s'] end) as [[[q on] rest]|]; [|reflexivity].
  destruct (match find_vars pre with Some x => Some x | None => find_vars [s'] end); [|reflexivity].
  destruct q; [|reflexivity]. rewrite !find_doc_app, Hd. reflexivity.
Qed.

(* ShorterResults: whatever the state, the method sends the same document, operationName and variables *)
Theorem shorter_request_unchanged : forall st m st' m' C,
  sh_method st m = Some (st', m') -> request_of C m' = request_of C m.
Proof.
  intros st m st' m' C H. rewrite !request_of_body. unfold sh_method in H.
  destruct (last (map Some (m_body m)) None) as [s|] eqn:El; [|inversion H; reflexivity].
  pose proof (last_map_some _ _ El) as Hb.
  destruct s; try (inversion H; reflexivity).
  - destruct (m_returns m) as [[cls| | |]|]; try (inversion H; reflexivity).
    destruct (sh_single_field st cls) as [[[f a]|]|]; try (inversion H; reflexivity).
    destruct (sh_update a) as [node ids]. inversion H; subst; clear H. simpl. unfold set_last.
    rewrite Hb at 2. apply request_last_irrelevant; reflexivity.
  - destruct (m_returns m) as [[| |hd [|[cls| | |] [|]]|]|]; try (inversion H; reflexivity).
    destruct (sh_single_field st cls) as [[[f a]|]|]; try (inversion H; reflexivity).
    destruct (sh_update a) as [node ids]. inversion H; subst; clear H. simpl. unfold set_last.
    rewrite Hb at 2. apply request_last_irrelevant; reflexivity.
Qed.

(* ClientForwardRefs: only annotations change and one import statement is put in front of the body *)
Theorem forward_refs_request_unchanged : forall ic m m' a b C,
  fr_method ic m = Some (m', a, b) -> request_of C m' = request_of C m.
Proof.
  intros ic m m' a b C H. unfold fr_method in H.
  destruct (match m_returns m with Some a0 => let '(a', ns) := fr_ann ic a0 in (Some a', ns) | None => (None, []) end)
    as [ret rnames].
  destruct (fr_last_class (m_body m)) as [cls|]; [|inversion H; reflexivity].
  destruct (lookup cls ic) as [from|]; inversion H; subst; reflexivity.
Qed.

(* ExtractOperations on the shape the generator emits: [query = gql(doc); variables = ..; call(query=query) ...] *)
Definition std_body (m : pmethod) : bool :=
  match m_body m with
  | SQuery v _ :: SVars _ :: SExec (QVar v') _ _ :: _ => String.eqb v v'
  | SQuery v _ :: SVars _ :: SAsyncFor (QVar v') _ _ _ :: _ => String.eqb v v'
  | _ => false
  end.

Theorem extract_request_unchanged : forall st opname k m m' C r,
  std_body m = true -> ex_method st opname k m = Some m' ->
  request_of [] m = Some r ->
  (forall c, lookup opname (ex_vars st) = Some c -> lookup c C = Some (fst (fst (fst r)))) ->
  request_of C m' = Some r.
Proof.
  intros st opname k m m' C r Hstd Hex Hr HC. unfold std_body in Hstd. unfold ex_method in Hex.
  unfold request_of in *.
  destruct (m_body m) as [|s0 [|s1 [|s2 rest]]]; try discriminate.
  destruct s0; try discriminate. destruct s1; try discriminate.
  destruct s2; try discriminate; destruct q; try discriminate;
    apply String.eqb_eq in Hstd; subst; simpl in Hex;
    destruct k; simpl in Hex; try discriminate;
    (destruct (lookup opname (ex_vars st)) as [c|] eqn:El; [|discriminate]);
    inversion Hex; subst; clear Hex; simpl in *;
    rewrite String.eqb_refl in Hr; inversion Hr; subst; simpl in *;
    rewrite (HC c eq_refl); reflexivity.
Qed.

(* ================================================================== 9. ClientForwardRefs: where the deferred imports point *)
Definition local_import (i : imp) : bool := (Nat.eqb (i_level i) 1 || starts_with_dot (i_module i))%bool.

Lemma fold_left_inv : forall (X Y : Type) (P : X -> Prop) (f : X -> Y -> X) (l : list Y) (a : X),
  P a -> (forall acc y, In y l -> P acc -> P (f acc y)) -> P (fold_left f l a).
Proof.
  intros X Y P f l. induction l as [|y r IH]; intros a Ha Hf; simpl; [exact Ha|].
  apply IH; [apply Hf; [left; reflexivity|exact Ha]|].
  intros acc z Hz. apply Hf. right; exact Hz.
Qed.

Lemma fr_imported_lookup : forall imports n from,
  lookup n (fr_imported imports) = Some from ->
  exists i, In i imports /\ In n (i_names i) /\ local_import i = true /\ from = lstrip_dots (i_module i).
Proof.
  intros imports n from. unfold fr_imported.
  apply (fold_left_inv _ _ (fun acc => lookup n acc = Some from ->
           exists i, In i imports /\ In n (i_names i) /\ local_import i = true /\ from = lstrip_dots (i_module i))).
  - discriminate.
  - intros acc i Hi Hacc.
    destruct (negb (Nat.eqb (i_level i) 1) && negb (starts_with_dot (i_module i)))%bool eqn:El; [exact Hacc|].
    assert (Hloc : local_import i = true).
    { unfold local_import. destruct (Nat.eqb (i_level i) 1); destruct (starts_with_dot (i_module i)); simpl in *; congruence. }
    apply (fold_left_inv _ _ (fun acc2 => lookup n acc2 = Some from ->
           exists i0, In i0 imports /\ In n (i_names i0) /\ local_import i0 = true /\ from = lstrip_dots (i_module i0))).
    + exact Hacc.
    + intros acc2 k Hk Hacc2 Hl. rewrite lookup_dict_set in Hl.
      destruct (String.eqb n k) eqn:E; [|apply Hacc2; exact Hl].
      apply String.eqb_eq in E; subst k. inversion Hl; subst.
      exists i. repeat split; auto.
Qed.

Lemma lstrip_no_dot : forall s, starts_with_dot s = false -> lstrip_dots s = s.
Proof. intros [|c r] H; [reflexivity|]. simpl in *. destruct c as [[] [] [] [] [] [] [] []]; try reflexivity; discriminate. Qed.

(* the import the plugin defers names the module the unplugged client imported the name from: a level-1 import
   of module m is re-emitted as (level 1, m) *)
Theorem forward_refs_sources : forall imports n from,
  lookup n (fr_imported imports) = Some from ->
  exists i, In i imports /\ In n (i_names i) /\
            (i_level i = 1 -> starts_with_dot (i_module i) = false -> src_of 1 from = src_of (i_level i) (i_module i)).
Proof.
  intros imports n from H. destruct (fr_imported_lookup _ _ _ H) as [i [Hi [Hn [_ Hf]]]].
  exists i. repeat split; auto. intros Hl Hd. subst from.
  rewrite Hl, (lstrip_no_dot _ Hd). reflexivity.
Qed.

(* ... and also for the level-0 form `from .m import X` that ShorterResults inserts *)
Theorem forward_refs_sources_dotted : forall imports n from,
  lookup n (fr_imported imports) = Some from ->
  exists i, In i imports /\ In n (i_names i) /\
            (forall m, i_level i = 0 -> i_module i = ("." ++ m)%string -> starts_with_dot m = false ->
                       src_of 1 from = src_of (i_level i) (i_module i)).
Proof.
  intros imports n from H. destruct (fr_imported_lookup _ _ _ H) as [i [Hi [Hn [_ Hf]]]].
  exists i. repeat split; auto. intros m Hl Hm Hd. subst from. rewrite Hl, Hm. simpl.
  rewrite (lstrip_no_dot _ Hd). reflexivity.
Qed.

(* ================================================================== 10. composition through the pipeline *)
Definition estates (ps : list plugin) : list ex_state :=
  flat_map (fun p => match p with PExtract st => [st] | _ => [] end) ps.

Definition set_written (st : ex_state) : ex_state :=
  {| ex_module := ex_module st; ex_gqls := ex_gqls st; ex_vars := ex_vars st; ex_written := true |}.

Definition plain_hook (h : hook) : bool :=
  match h with HOpStr _ => false | HInitModule => false | _ => true end.

Lemma step_estates_plain : forall p h o p' o', plain_hook h = true -> step p h o = Some (p', o') ->
  estates [p'] = estates [p].
Proof.
  intros [st|st| | |] h o p' o' Hh H; simpl in H.
  - destruct (sh_step st h o) as [[st' o1]|]; inversion H; reflexivity.
  - destruct h; try discriminate; destruct o; simpl in H; try (inversion H; reflexivity).
    + destruct (ex_method st opname kind m); inversion H; reflexivity.
  - destruct (fr_step h o); inversion H; reflexivity.
  - inversion H; reflexivity.
  - inversion H; reflexivity.
Qed.

Lemma estates_cons : forall p r, estates (p :: r) = estates [p] ++ estates r.
Proof. intros. unfold estates. simpl. rewrite app_nil_r. reflexivity. Qed.

Lemma apply_estates_plain : forall ps h o ps' o', plain_hook h = true -> apply_hook ps h o = Some (ps', o') ->
  estates ps' = estates ps.
Proof.
  induction ps as [|p r IH]; intros h o ps' o' Hh H; simpl in H.
  - inversion H; reflexivity.
  - destruct (step p h o) as [[p1 o1]|] eqn:Es; [|discriminate].
    destruct (apply_hook r h o1) as [[r' o2]|] eqn:Er; [|discriminate]. inversion H; subst.
    rewrite (estates_cons p1), (estates_cons p), (step_estates_plain _ _ _ _ _ Hh Es), (IH _ _ _ _ Hh Er). reflexivity.
Qed.

Lemma apply_opstr : forall ps n s ps' o', apply_hook ps (HOpStr n) (OOpStr s) = Some (ps', o') ->
  o' = OOpStr s /\ estates ps' = map (fun st => ex_record st (n, s)) (estates ps).
Proof.
  induction ps as [|p r IH]; intros n s ps' o' H; simpl in H.
  - inversion H; auto.
  - destruct (step p (HOpStr n) (OOpStr s)) as [[p1 o1]|] eqn:Es; [|discriminate].
    destruct (apply_hook r (HOpStr n) o1) as [[r' o2]|] eqn:Er; [|discriminate]. inversion H; subst.
    assert (o1 = OOpStr s /\ estates [p1] = map (fun st => ex_record st (n, s)) (estates [p])) as [-> He].
    { destruct p; simpl in Es; inversion Es; subst; auto. }
    destruct (IH _ _ _ _ Er) as [-> Hr]. split; [reflexivity|].
    rewrite (estates_cons p1), (estates_cons p), map_app, He, Hr. reflexivity.
Qed.

Lemma apply_init : forall ps i ps' o', apply_hook ps HInitModule (OInit i) = Some (ps', o') ->
  (exists i', o' = OInit i') /\ estates ps' = map set_written (estates ps).
Proof.
  induction ps as [|p r IH]; intros i ps' o' H; simpl in H.
  - inversion H; eauto.
  - destruct (step p HInitModule (OInit i)) as [[p1 o1]|] eqn:Es; [|discriminate].
    destruct (apply_hook r HInitModule o1) as [[r' o2]|] eqn:Er; [|discriminate]. inversion H; subst.
    assert ((exists i1, o1 = OInit i1) /\ estates [p1] = map set_written (estates [p])) as [[i1 ->] He].
    { destruct p; simpl in Es; try (inversion Es; subst; eauto; fail).
      destruct i; inversion Es; subst; eauto. }
    destruct (IH _ _ _ Er) as [Ho Hr]. split; [exact Ho|].
    rewrite (estates_cons p1), (estates_cons p), map_app, He, Hr. reflexivity.
Qed.

Lemma apply_method_noext : forall ps n k m ps' o', estates ps = [] ->
  apply_hook ps (HClientMethod n k) (OMethod m) = Some (ps', o') -> o' = OMethod m.
Proof.
  induction ps as [|p r IH]; intros n k m ps' o' He H; simpl in H.
  - inversion H; reflexivity.
  - rewrite estates_cons in He. apply app_eq_nil in He. destruct He as [Hp Hr].
    destruct (step p (HClientMethod n k) (OMethod m)) as [[p1 o1]|] eqn:Es; [|discriminate].
    destruct (apply_hook r (HClientMethod n k) o1) as [[r' o2]|] eqn:Er; [|discriminate]. inversion H; subst.
    assert (o1 = OMethod m) as ->.
    { destruct p; simpl in Es; try (inversion Es; reflexivity). discriminate Hp. }
    eapply IH; eauto.
Qed.

Lemma apply_method : forall ps n k m ps' o',
  List.length (estates ps) <= 1 ->
  apply_hook ps (HClientMethod n k) (OMethod m) = Some (ps', o') ->
  exists m', o' = OMethod m' /\
             ((estates ps = [] /\ m' = m) \/ (exists st, estates ps = [st] /\ ex_method st n k m = Some m')).
Proof.
  induction ps as [|p r IH]; intros n k m ps' o' Hl H; simpl in H.
  - inversion H; subst. exists m. split; [reflexivity|]. left. split; reflexivity.
  - destruct (step p (HClientMethod n k) (OMethod m)) as [[p1 o1]|] eqn:Es; [|discriminate].
    destruct (apply_hook r (HClientMethod n k) o1) as [[r' o2]|] eqn:Er; [|discriminate]. inversion H; subst.
    rewrite estates_cons in *.
    destruct p as [st|st| | |]; simpl in Es;
      try (inversion Es; subst; simpl in *; eapply IH; eauto; fail).
    destruct (ex_method st n k m) as [m1|] eqn:Em; [|discriminate]. inversion Es; subst.
    simpl in Hl. assert (Hr : estates r = []) by (destruct (estates r); [reflexivity|simpl in Hl; lia]).
    rewrite (apply_method_noext _ _ _ _ _ _ Hr Er). exists m1. split; [reflexivity|].
    right. exists st. simpl. rewrite Hr. split; [reflexivity|exact Em].
Qed.

Lemma sh_methods_requests : forall ms st st' ms', sh_methods st ms = Some (st', ms') ->
  forall C, map (request_of C) ms' = map (request_of C) ms.
Proof.
  induction ms as [|m r IH]; intros st st' ms' H C; simpl in H.
  - inversion H; reflexivity.
  - destruct (sh_method st m) as [[st1 m1]|] eqn:Em; [|discriminate].
    destruct (sh_methods st1 r) as [[st2 r2]|] eqn:Er; [|discriminate]. inversion H; subst. simpl.
    rewrite (shorter_request_unchanged _ _ _ _ C Em), (IH _ _ _ Er C). reflexivity.
Qed.

Lemma fr_methods_requests : forall ic ms ms' a b, fr_methods ic ms = Some (ms', a, b) ->
  forall C, map (request_of C) ms' = map (request_of C) ms.
Proof.
  intros ic. induction ms as [|m r IH]; intros ms' a b H C; simpl in H.
  - inversion H; reflexivity.
  - destruct (fr_method ic m) as [[[m1 a1] b1]|] eqn:Em; [|discriminate].
    destruct (fr_methods ic r) as [[[r2 a2] b2]|] eqn:Er; [|discriminate]. inversion H; subst. simpl.
    rewrite (forward_refs_request_unchanged _ _ _ _ _ C Em), (IH _ _ _ eq_refl C). reflexivity.
Qed.

Lemma step_client_requests : forall p c p' o', step p HClientModule (OClient c) = Some (p', o') ->
  exists c', o' = OClient c' /\ forall C, map (request_of C) (cm_methods c') = map (request_of C) (cm_methods c).
Proof.
  intros [st|st| | |] c p' o' H; simpl in H.
  - unfold sh_client in H. destruct (sh_methods st (cm_methods c)) as [[st1 ms]|] eqn:Em; [|discriminate].
    destruct (sh_extend_imports (cm_imports c) (sh_extended st1)) as [imports1 rest]. inversion H; subst.
    eexists. split; [reflexivity|]. intros C. simpl. eapply sh_methods_requests; eauto.
  - inversion H; subst. eexists. split; [reflexivity|]. reflexivity.
  - unfold fr_client in H.
    destruct (fr_methods (fr_imported (cm_imports c)) (cm_methods c)) as [[[ms a] b]|] eqn:Em; [|discriminate].
    destruct (dedup a ++ b) eqn:Ed.
    + inversion H; subst. eexists. split; [reflexivity|]. intros C. simpl. eapply fr_methods_requests; eauto.
    + destruct (fr_tc_imports (fr_imported (cm_imports c)) (dedup a)) as [[|t0 tr]|]; [| |discriminate].
      * inversion H; subst.
        eexists. split; [reflexivity|]. intros C. simpl. eapply fr_methods_requests; eauto.
      * inversion H; subst.
        eexists. split; [reflexivity|]. intros C. simpl. eapply fr_methods_requests; eauto.
  - inversion H; subst. eexists. split; [reflexivity|]. reflexivity.
  - inversion H; subst. eexists. split; [reflexivity|]. reflexivity.
Qed.

Lemma apply_client_requests : forall ps c ps' o', apply_hook ps HClientModule (OClient c) = Some (ps', o') ->
  exists c', o' = OClient c' /\ forall C, map (request_of C) (cm_methods c') = map (request_of C) (cm_methods c).
Proof.
  induction ps as [|p r IH]; intros c ps' o' H; simpl in H.
  - inversion H; subst. eexists. split; reflexivity.
  - destruct (step p HClientModule (OClient c)) as [[p1 o1]|] eqn:Es; [|discriminate].
    destruct (apply_hook r HClientModule o1) as [[r' o2]|] eqn:Er; [|discriminate]. inversion H; subst.
    destruct (step_client_requests _ _ _ _ Es) as [c1 [-> H1]].
    destruct (IH _ _ _ Er) as [c2 [-> H2]]. exists c2. split; [reflexivity|].
    intros C. rewrite H2, H1. reflexivity.
Qed.

Definition bE (l : list ex_state) : bool := match l with [] => false | _ => true end.
Lemma bE_map : forall f l, bE (map f l) = bE l.
Proof. intros f [|x r]; reflexivity. Qed.

Definition op_ops (us : list uop) : list (string * string) := map (fun u => (uo_name u, uo_str u)) us.
Definition op_req (u : uop) := request_of [] (set_doc (uo_method u) (uo_str u)).
Definition J (b : bool) (u : uop) (m' : pmethod) : Prop :=
  forall C, (b = true -> lookup (const_name (uo_name u)) C = Some (uo_str u)) -> request_of C m' = op_req u.

Lemma std_set_doc : forall m s, std_body m = true ->
  std_body (set_doc m s) = true /\
  exists on rest vars, forall C, request_of C (set_doc m s) = Some (s, on, rest, vars).
Proof.
  intros m s H. unfold std_body, set_doc, request_of in *. simpl.
  destruct (m_body m) as [|s0 b]; [discriminate|]. destruct s0; try discriminate.
  destruct b as [|s1 b]; [discriminate|]. destruct s1; try discriminate.
  destruct b as [|s2 r]; [discriminate|].
  destruct s2; try discriminate; destruct q; try discriminate; simpl; rewrite H;
    (split; [reflexivity|]); do 3 eexists; intros C; apply String.eqb_eq in H; subst;
    rewrite String.eqb_refl; reflexivity.
Qed.

Lemma apply_classes_estates : forall cs ps ps', apply_classes ps cs = Some ps' -> estates ps' = estates ps.
Proof.
  induction cs as [|c r IH]; intros ps ps' H; simpl in H; [inversion H; reflexivity|].
  destruct (apply_hook ps HResultClass (OClass c)) as [[ps1 o1]|] eqn:E; [|discriminate].
  rewrite (IH _ _ H). exact (apply_estates_plain _ HResultClass _ _ _ eq_refl E).
Qed.

Lemma gen_op_J : forall ps u ps' m',
  gen_op ps u = Some (ps', m') -> List.length (estates ps) <= 1 -> std_body (uo_method u) = true ->
  J (bE (estates ps)) u m' /\ estates ps' = map (fun st => ex_record st (uo_name u, uo_str u)) (estates ps).
Proof.
  intros ps u ps' m' H Hl Hstd. unfold gen_op in H.
  destruct (apply_classes ps (uo_classes u)) as [ps1|] eqn:E1; [|discriminate].
  destruct (apply_hook ps1 HResultModule _) as [[ps2 o2]|] eqn:E2; [|discriminate].
  destruct (apply_hook ps2 (HOpStr (uo_name u)) _) as [[ps3 o3]|] eqn:E3; [|discriminate].
  destruct (apply_opstr _ _ _ _ _ E3) as [-> He3].
  destruct (apply_hook ps3 (HClientMethod (uo_name u) (uo_kind u)) _) as [[ps4 o4]|] eqn:E4; [|discriminate].
  pose proof (apply_classes_estates _ _ _ E1) as He1.
  pose proof (apply_estates_plain _ HResultModule _ _ _ eq_refl E2) as He2.
  pose proof (apply_estates_plain _ (HClientMethod (uo_name u) (uo_kind u)) _ _ _ eq_refl E4) as He4.
  assert (He : estates ps3 = map (fun st => ex_record st (uo_name u, uo_str u)) (estates ps)) by (rewrite He3, He2, He1; reflexivity).
  assert (Hl3 : List.length (estates ps3) <= 1) by (rewrite He, map_length; exact Hl).
  destruct (apply_method _ _ _ _ _ _ Hl3 E4) as [m1 [-> Hm]]. inversion H; subst ps4 m1.
  split; [|rewrite He4; exact He].
  destruct (std_set_doc _ (uo_str u) Hstd) as [Hstd' [on [rest [vars Hreq]]]].
  destruct Hm as [[Hnil ->]|[st [Hst Hex]]].
  - intros C _. unfold op_req. rewrite !Hreq. reflexivity.
  - intros C HC. unfold op_req.
    assert (Hb : bE (estates ps) = true).
    { rewrite He in Hst. destruct (estates ps); [discriminate|reflexivity]. }
    rewrite (Hreq []).
    eapply extract_request_unchanged; [exact Hstd'|exact Hex|apply Hreq|].
    intros c Hc. simpl.
    rewrite He in Hst. destruct (estates ps) as [|st0 [|]]; try discriminate. inversion Hst; subst st.
    simpl in Hc. rewrite lookup_dict_set, String.eqb_refl in Hc. inversion Hc; subst. apply HC. exact Hb.
Qed.

Lemma gen_ops_J : forall us ps ps' ms,
  gen_ops ps us = Some (ps', ms) -> List.length (estates ps) <= 1 ->
  Forall (fun u => std_body (uo_method u) = true) us ->
  Forall2 (J (bE (estates ps))) us ms /\
  estates ps' = map (fun st => ex_record_all st (op_ops us)) (estates ps).
Proof.
  induction us as [|u r IH]; intros ps ps' ms H Hl Hstd; simpl in H.
  - inversion H; subst. split; [constructor|]. simpl. rewrite map_id. reflexivity.
  - destruct (gen_op ps u) as [[ps1 m]|] eqn:E1; [|discriminate].
    destruct (gen_ops ps1 r) as [[ps2 ms2]|] eqn:E2; [|discriminate]. inversion H; subst.
    inversion Hstd; subst.
    destruct (gen_op_J _ _ _ _ E1 Hl H2) as [HJ He1].
    assert (Hl1 : List.length (estates ps1) <= 1) by (rewrite He1, map_length; exact Hl).
    destruct (IH _ _ _ E2 Hl1 H3) as [HF He2].
    split.
    + constructor; [exact HJ|]. rewrite He1, bE_map in HF. exact HF.
    + rewrite He2, He1, map_map. reflexivity.
Qed.

Lemma Forall2_J_map : forall b us ms C,
  Forall2 (J b) us ms ->
  (forall u, In u us -> b = true -> lookup (const_name (uo_name u)) C = Some (uo_str u)) ->
  map (request_of C) ms = map op_req us.
Proof.
  intros b us ms C H. induction H as [|u m us' ms' HJ HF IH]; intros HC; [reflexivity|].
  simpl. rewrite (HJ C (HC u (or_introl eq_refl))), IH; [reflexivity|].
  intros u0 Hu0. apply HC. right; exact Hu0.
Qed.

Lemma written_modules_estates : forall ps,
  written_modules ps = flat_map (fun st => if ex_written st then [ex_operations_module st] else []) (estates ps).
Proof.
  induction ps as [|p r IH]; [reflexivity|]. rewrite estates_cons, flat_map_app, <- IH.
  destruct p; simpl; rewrite ?app_nil_r; reflexivity.
Qed.

Definition init_ok (ps : list plugin) : Prop :=
  forall st, In st (estates ps) -> ex_gqls st = [] /\ ex_vars st = [] /\ ex_written st = false.

(* no plugin list (ExtractOperations configured at most once, freshly constructed) changes what any method
   sends: the document (resolved through the operations module that was written), operationName, the call
   and the variables are those of the unplugged method *)
Theorem request_unchanged_package : forall ps u p,
  List.length (estates ps) <= 1 -> init_ok ps ->
  Forall (fun o => std_body (uo_method o) = true) (u_ops u) ->
  NoDup (map const_name (map uo_name (u_ops u))) ->
  generate ps u = Some p ->
  map (request_of (List.concat (pk_operations p))) (cm_methods (pk_client p)) =
  map op_req (u_ops u) ++ map (request_of (List.concat (pk_operations p))) (cm_methods (u_client u)).
Proof.
  intros ps u p Hl Hinit Hstd Hnd H. unfold generate in H.
  destruct (gen_ops ps (u_ops u)) as [[ps1 ms]|] eqn:E1; [|discriminate].
  destruct (apply_classes ps1 (u_fragment_classes u)) as [ps2|] eqn:E2; [|discriminate].
  destruct (apply_hook ps2 HFragmentsModule _) as [[ps3 o3]|] eqn:E3; [|discriminate].
  destruct (apply_hook ps3 HClientModule _) as [[ps4 o4]|] eqn:E4; [|discriminate].
  destruct (apply_client_requests _ _ _ _ E4) as [c [-> Hc]]. simpl in Hc.
  destruct (apply_hook ps4 HInitModule _) as [[ps5 o5]|] eqn:E5; [|discriminate].
  destruct (apply_init _ _ _ _ E5) as [[i' ->] He5]. inversion H; subst p; clear H. simpl.
  destruct (gen_ops_J _ _ _ _ E1 Hl Hstd) as [HF He1].
  pose proof (apply_classes_estates _ _ _ E2) as He2.
  pose proof (apply_estates_plain _ HFragmentsModule _ _ _ eq_refl E3) as He3.
  pose proof (apply_estates_plain _ HClientModule _ _ _ eq_refl E4) as He4.
  rewrite Hc, map_app. f_equal. eapply Forall2_J_map; [exact HF|].
  intros u0 Hu0 Hb.
  rewrite written_modules_estates, He5, He4, He3, He2, He1.
  destruct (estates ps) as [|st0 [|]] eqn:Ees; [discriminate|clear Hl|simpl in Hl; lia].
  assert (Hin0 : In st0 (estates ps)) by (rewrite Ees; left; reflexivity).
  destruct (Hinit st0 Hin0) as [Hg [Hv Hw]]. clear Hin0 Hinit Ees.
  simpl. rewrite app_nil_r.
  destruct st0 as [mn g v w]; simpl in *; subst.
  change (ex_operations_module (set_written ?x)) with (ex_operations_module x).
  apply extract_same_strings.
  - replace (map fst (op_ops (u_ops u))) with (map uo_name (u_ops u))
      by (unfold op_ops; rewrite map_map; reflexivity). exact Hnd.
  - unfold op_ops. apply in_map_iff. exists u0. split; [reflexivity|exact Hu0].
Qed.

(* ================================================================== 11. ClientForwardRefs: every evaluated name stays bound *)
(* names an annotation EVALUATES when the `def` statement runs: plain names and subscript heads; a string constant
   evaluates nothing *)
Fixpoint ann_leaves (a : ann) : list string :=
  match a with
  | AName n => [n]
  | ASub _ args => flat_map ann_leaves args
  | _ => []
  end.
Fixpoint ann_heads (a : ann) : list string :=
  match a with
  | ASub h args => h :: flat_map ann_heads args
  | _ => []
  end.
Definition ann_eval (a : ann) : list string := ann_heads a ++ ann_leaves a.

Definition sig_anns (m : pmethod) : list ann :=
  flat_map (fun p => match p_ann p with Some a => [a] | None => [] end) (m_params m)
  ++ match m_returns m with Some a => [a] | None => [] end.
Definition sig_eval (m : pmethod) : list string := flat_map ann_eval (sig_anns m).
Definition sig_heads (m : pmethod) : list string := flat_map ann_heads (sig_anns m).

Definition imported (imports : list imp) (n : string) : Prop := exists i, In i imports /\ In n (i_names i).

Lemma fr_ann_heads : forall ic a, ann_heads (fst (fr_ann ic a)) = ann_heads a.
Proof.
  intros ic a. induction a using ann_ind'; simpl; try reflexivity.
  - destruct (lookup n ic); reflexivity.
  - f_equal. rewrite map_map. rewrite !flat_map_concat_map, map_map. f_equal.
    apply map_ext_in. intros x Hx. rewrite Forall_forall in H. apply H; exact Hx.
Qed.

Lemma fr_ann_leaves : forall ic a n, In n (ann_leaves (fst (fr_ann ic a))) -> In n (ann_leaves a) /\ lookup n ic = None.
Proof.
  intros ic a. induction a using ann_ind'; simpl; intros m Hm; try contradiction.
  - destruct (lookup n ic) eqn:E; simpl in Hm; [contradiction|].
    destruct Hm as [<-|[]]. split; [left; reflexivity|exact E].
  - rewrite map_map in Hm. apply in_flat_map in Hm. destruct Hm as [x [Hx Hin]].
    apply in_map_iff in Hx. destruct Hx as [y [<- Hy]]. rewrite Forall_forall in H.
    destruct (H y Hy m Hin) as [H1 H2]. split; [|exact H2].
    apply in_flat_map. exists y. split; assumption.
Qed.

Lemma fr_reduce_keeps : forall removed imports n, imported imports n -> ~ In n removed -> imported (fr_reduce removed imports) n.
Proof.
  intros removed imports n [i [Hi Hn]] Hr. unfold fr_reduce.
  assert (Hf : In n (filter (fun x => negb (mem x removed)) (i_names i))).
  { apply filter_In. split; [exact Hn|]. destruct (mem n removed) eqn:E; [|reflexivity].
    apply mem_In in E. contradiction. }
  destruct (filter (fun x => negb (mem x removed)) (i_names i)) as [|x r] eqn:Ef; [contradiction|].
  exists {| i_level := i_level i; i_module := i_module i; i_names := x :: r |}. split; [|exact Hf].
  apply in_flat_map. exists i. split; [exact Hi|]. rewrite Ef. left; reflexivity.
Qed.

Lemma dedup_In : forall l x, In x (dedup l) -> In x l.
Proof.
  induction l as [|y r IH]; intros x H; simpl in *; [exact H|].
  destruct (mem y r); [right; apply IH; exact H|].
  destruct H as [<-|H]; [left; reflexivity|right; apply IH; exact H].
Qed.

Lemma fr_param_spec : forall ic p,
  (forall n, In n (snd (fr_param ic p)) -> exists src, lookup n ic = Some src) /\
  match p_ann (fst (fr_param ic p)), p_ann p with
  | Some a', Some a => a' = fst (fr_ann ic a)
  | None, None => True
  | _, _ => False
  end.
Proof.
  intros ic p. unfold fr_param. destruct (p_ann p) as [a|] eqn:E.
  - destruct (fr_ann ic a) as [a' ns] eqn:Ea. simpl. rewrite ?E. split.
    + intros n Hn. apply (fr_ann_names_local ic a). rewrite Ea. exact Hn.
    + rewrite ?Ea. reflexivity.
  - simpl. rewrite ?E. split; [intros n []|exact I].
Qed.

(* what fr_method does to a method: the facts the binding theorem needs *)
Lemma fr_method_spec : forall ic m m' A B,
  fr_method ic m = Some (m', A, B) ->
  (forall n, In n A -> exists src, lookup n ic = Some src) /\
  (forall n, In n B -> exists src, lookup n ic = Some src) /\
  (forall n, In n (sig_eval m') -> In n (sig_heads m) \/ lookup n ic = None) /\
  (forall cls, fr_last_class (m_body m) = Some cls ->
     match lookup cls ic with
     | Some from => In (SImport 1 from cls) (m_body m')
     | None => True
     end).
Proof.
  intros ic m m' A B H. unfold fr_method in H.
  destruct (m_returns m) as [r|] eqn:Er.
  - destruct (fr_ann ic r) as [r' rn] eqn:Ea.
    assert (HA : forall n, In n (flat_map snd (map (fr_param ic) (m_params m)) ++ rn) -> exists src, lookup n ic = Some src).
    { intros n Hn. apply in_app_or in Hn. destruct Hn as [Hn|Hn].
      - apply in_flat_map in Hn. destruct Hn as [x [Hx Hin]]. apply in_map_iff in Hx. destruct Hx as [p [<- _]].
        apply (proj1 (fr_param_spec ic p)). exact Hin.
      - apply (fr_ann_names_local ic r). rewrite Ea. exact Hn. }
    assert (HS : forall m1, m_params m1 = map fst (map (fr_param ic) (m_params m)) -> m_returns m1 = Some r' ->
                 forall n, In n (sig_eval m1) -> In n (sig_heads m) \/ lookup n ic = None).
    { intros m1 Hp Hr n Hn. unfold sig_eval, sig_anns in Hn. rewrite Hp, Hr in Hn.
      apply in_flat_map in Hn. destruct Hn as [a [Ha Hin]]. apply in_app_or in Ha.
      assert (Hcase : exists a0, In a0 (sig_anns m) /\ a = fst (fr_ann ic a0)).
      { destruct Ha as [Ha|[<-|[]]].
        - apply in_flat_map in Ha. destruct Ha as [p' [Hp' Hin']]. rewrite map_map in Hp'.
          apply in_map_iff in Hp'. destruct Hp' as [p [<- Hp0]].
          pose proof (proj2 (fr_param_spec ic p)) as Hs.
          destruct (p_ann (fst (fr_param ic p))) as [a'|]; [|contradiction].
          destruct Hin' as [<-|[]]. destruct (p_ann p) as [a0|] eqn:Ep; [|contradiction].
          exists a0. split; [|exact Hs]. unfold sig_anns. apply in_or_app. left.
          apply in_flat_map. exists p. split; [exact Hp0|]. rewrite Ep. left; reflexivity.
        - exists r. split; [unfold sig_anns; rewrite Er; apply in_or_app; right; left; reflexivity|].
          rewrite Ea. reflexivity. }
      destruct Hcase as [a0 [Ha0 ->]]. unfold ann_eval in Hin. apply in_app_or in Hin. destruct Hin as [Hin|Hin].
      - left. rewrite fr_ann_heads in Hin. unfold sig_heads. apply in_flat_map. exists a0. split; assumption.
      - right. apply (fr_ann_leaves ic a0 n Hin). }
    destruct (fr_last_class (m_body m)) as [cls|] eqn:El.
    + destruct (lookup cls ic) as [from|] eqn:Ec; inversion H; subst; clear H.
      * split; [exact HA|]. split; [intros n [<-|[]]; eauto|]. split; [apply HS; reflexivity|].
        intros cls0 Hc. inversion Hc; subst. rewrite Ec. left; reflexivity.
      * split; [exact HA|]. split; [intros n []|]. split; [apply HS; reflexivity|].
        intros cls0 Hc. inversion Hc; subst. rewrite Ec. exact I.
    + inversion H; subst; clear H. split; [exact HA|]. split; [intros n []|]. split; [apply HS; reflexivity|].
      intros cls0 Hc. discriminate.
  - (* no return annotation *)
    assert (HA : forall n, In n (flat_map snd (map (fr_param ic) (m_params m)) ++ []) -> exists src, lookup n ic = Some src).
    { intros n Hn. rewrite app_nil_r in Hn.
      apply in_flat_map in Hn. destruct Hn as [x [Hx Hin]]. apply in_map_iff in Hx. destruct Hx as [p [<- _]].
      apply (proj1 (fr_param_spec ic p)). exact Hin. }
    assert (HS : forall m1, m_params m1 = map fst (map (fr_param ic) (m_params m)) -> m_returns m1 = None ->
                 forall n, In n (sig_eval m1) -> In n (sig_heads m) \/ lookup n ic = None).
    { intros m1 Hp Hr n Hn. unfold sig_eval, sig_anns in Hn. rewrite Hp, Hr, app_nil_r in Hn.
      apply in_flat_map in Hn. destruct Hn as [a [Ha Hin]].
      apply in_flat_map in Ha. destruct Ha as [p' [Hp' Hin']]. rewrite map_map in Hp'.
      apply in_map_iff in Hp'. destruct Hp' as [p [<- Hp0]].
      pose proof (proj2 (fr_param_spec ic p)) as Hs.
      destruct (p_ann (fst (fr_param ic p))) as [a'|]; [|contradiction].
      destruct Hin' as [<-|[]]. destruct (p_ann p) as [a0|] eqn:Ep; [|contradiction]. subst a'.
      unfold ann_eval in Hin. apply in_app_or in Hin. destruct Hin as [Hin|Hin].
      - left. rewrite fr_ann_heads in Hin. unfold sig_heads, sig_anns. apply in_flat_map. exists a0.
        split; [|exact Hin]. apply in_or_app. left. apply in_flat_map. exists p. split; [exact Hp0|].
        rewrite Ep. left; reflexivity.
      - right. apply (fr_ann_leaves ic a0 n Hin). }
    destruct (fr_last_class (m_body m)) as [cls|] eqn:El.
    + destruct (lookup cls ic) as [from|] eqn:Ec; inversion H; subst; clear H.
      * split; [exact HA|]. split; [intros n [<-|[]]; eauto|]. split; [apply HS; reflexivity|].
        intros cls0 Hc. inversion Hc; subst. rewrite Ec. left; reflexivity.
      * split; [exact HA|]. split; [intros n []|]. split; [apply HS; reflexivity|].
        intros cls0 Hc. inversion Hc; subst. rewrite Ec. exact I.
    + inversion H; subst; clear H. split; [exact HA|]. split; [intros n []|]. split; [apply HS; reflexivity|].
      intros cls0 Hc. discriminate.
Qed.

Lemma fr_methods_spec : forall ic ms ms' A B,
  fr_methods ic ms = Some (ms', A, B) ->
  (forall n, In n A -> exists src, lookup n ic = Some src) /\
  (forall n, In n B -> exists src, lookup n ic = Some src) /\
  (forall m', In m' ms' -> exists m a b, In m ms /\ fr_method ic m = Some (m', a, b)).
Proof.
  intros ic. induction ms as [|m r IH]; intros ms' A B H; simpl in H.
  - inversion H; subst. repeat split; intros ? [].
  - destruct (fr_method ic m) as [[[m1 a1] b1]|] eqn:Em; [|discriminate].
    destruct (fr_methods ic r) as [[[r2 a2] b2]|] eqn:Er; [|discriminate]. inversion H; subst; clear H.
    destruct (fr_method_spec _ _ _ _ _ Em) as [HA [HB _]].
    destruct (IH _ _ _ eq_refl) as [HA2 [HB2 HM]].
    split; [intros n Hn; apply in_app_or in Hn; destruct Hn; [apply HA|apply HA2]; assumption|].
    split; [intros n Hn; apply in_app_or in Hn; destruct Hn; [apply HB|apply HB2]; assumption|].
    intros m' [<-|Hm'].
    + exists m, a1, b1. split; [left; reflexivity|exact Em].
    + destruct (HM m' Hm') as [m0 [a [b [Hin Hf]]]]. exists m0, a, b. split; [right; exact Hin|exact Hf].
Qed.

Lemma imported_app : forall l1 l2 n, imported l1 n -> imported (l1 ++ l2) n.
Proof. intros l1 l2 n [i [Hi Hn]]. exists i. split; [apply in_or_app; left; exact Hi|exact Hn]. Qed.

(* Every name the `def` statements of the deferred client evaluate (plain names and subscript heads of parameter
   and return annotations), and the class each method validates with, is still bound: by a global import that was
   kept, or — for the validated class — by the import placed at the top of the method.  Hypothesis: subscript heads
   (Optional, List, Union, AsyncIterator ...) are not package imports; the tie checks it on every generated client. *)
Theorem forward_refs_bound : forall c c',
  fr_client c = Some c' ->
  (forall m h, In m (cm_methods c) -> In h (sig_heads m) -> lookup h (fr_imported (cm_imports c)) = None) ->
  forall m', In m' (cm_methods c') ->
  exists m, In m (cm_methods c) /\
    (forall n, In n (sig_eval m') -> imported (cm_imports c) n -> imported (cm_imports c') n) /\
    (forall cls, fr_last_class (m_body m) = Some cls -> imported (cm_imports c) cls ->
       imported (cm_imports c') cls \/ exists from, In (SImport 1 from cls) (m_body m')).
Proof.
  intros c c' H Hheads m' Hm'. unfold fr_client in H.
  set (ic := fr_imported (cm_imports c)) in *.
  destruct (fr_methods ic (cm_methods c)) as [[[ms A] B]|] eqn:Em; [|discriminate].
  destruct (fr_methods_spec _ _ _ _ _ Em) as [HA [HB HM]].
  assert (Hrem : forall n, In n (dedup A ++ B) -> exists src, lookup n ic = Some src).
  { intros n Hn. apply in_app_or in Hn. destruct Hn as [Hn|Hn]; [apply HA, dedup_In; exact Hn|apply HB; exact Hn]. }
  assert (Hkeep : forall n, lookup n ic = None -> imported (cm_imports c) n -> imported (cm_imports c') n /\ cm_methods c' = ms).
  { intros n Hn Hi. destruct (dedup A ++ B) as [|x r] eqn:Ed.
    - inversion H; subst. simpl. split; [exact Hi|reflexivity].
    - assert (Hk : imported (fr_reduce (x :: r) (cm_imports c)) n).
      { apply fr_reduce_keeps; [exact Hi|]. intro Hc. destruct (Hrem n Hc) as [src Hs]. congruence. }
      destruct (fr_tc_imports ic (dedup A)) as [[|t0 tr]|]; [| |discriminate].
      + inversion H; subst. simpl. split; [exact Hk|reflexivity].
      + inversion H; subst. simpl. split; [apply imported_app; exact Hk|reflexivity]. }
  assert (Hms : cm_methods c' = ms).
  { destruct (dedup A ++ B); [inversion H; reflexivity|].
    destruct (fr_tc_imports ic (dedup A)) as [[|t0 tr]|]; [| |discriminate].
    - inversion H; reflexivity.
    - inversion H; reflexivity. }
  rewrite Hms in Hm'. destruct (HM m' Hm') as [m [a [b [Hin Hf]]]].
  destruct (fr_method_spec _ _ _ _ _ Hf) as [_ [_ [Hsig Hcls]]].
  exists m. split; [exact Hin|]. split.
  - intros n Hn Hi. destruct (Hsig n Hn) as [Hh|Hnone].
    + apply (Hkeep n (Hheads m n Hin Hh) Hi).
    + apply (Hkeep n Hnone Hi).
  - intros cls Hc Hi. specialize (Hcls cls Hc). destruct (lookup cls ic) as [from|] eqn:El.
    + right. exists from. exact Hcls.
    + left. apply (Hkeep cls El Hi).
Qed.

(* ================================================================== 12. ShorterResults after ClientForwardRefs *)
(* once the return annotation is a string constant (what ClientForwardRefs leaves behind), ShorterResults leaves
   the method alone — for EVERY class dictionary and method: the order dependence is a property of the plugin pair *)
Theorem shorter_noop_on_string_annotations : forall st m,
  (exists s, m_returns m = Some (AConst s)) \/ (exists h s, m_returns m = Some (ASub h [AConst s])) ->
  sh_method st m = Some (st, m).
Proof.
  intros st m H. unfold sh_method.
  destruct (last (map Some (m_body m)) None) as [s0|]; [|reflexivity].
  destruct H as [[s ->]|[h [s ->]]]; destruct s0; reflexivity.
Qed.

Lemma fr_ann_local_name : forall ic n src, lookup n ic = Some src -> fst (fr_ann ic (AName n)) = AConst n.
Proof. intros ic n src H. simpl. rewrite H. reflexivity. Qed.

(* ================================================================== 13. reserved names: no argument is named like a constant *)
Lemma max_len_ge : forall l s, In s l -> String.length s <= max_len l.
Proof.
  induction l as [|x r IH]; intros s H; [contradiction|]. simpl. destruct H as [<-|H]; [lia|].
  specialize (IH s H). lia.
Qed.

Lemma long_not_mem : forall bad name, max_len bad < String.length name -> mem name bad = false.
Proof.
  intros bad name H. destruct (mem name bad) eqn:E; [|reflexivity].
  apply mem_In in E. apply max_len_ge in E. lia.
Qed.

Lemma string_app_length : forall a b, String.length (a ++ b)%string = String.length a + String.length b.
Proof. induction a as [|c r IH]; intros b; simpl; [reflexivity|]. rewrite IH. reflexivity. Qed.

Lemma length_append_us : forall s, String.length (s ++ "_")%string = S (String.length s).
Proof. intros s. rewrite string_app_length. simpl. lia. Qed.

Lemma avoid_spec : forall fuel bad name,
  max_len bad < fuel + String.length name -> mem (avoid fuel bad name) bad = false.
Proof.
  induction fuel as [|k IH]; intros bad name H; simpl.
  - apply long_not_mem. simpl in H. exact H.
  - destruct (mem name bad) eqn:E; [|exact E].
    apply IH. rewrite length_append_us. lia.
Qed.

Theorem avoid_all_spec : forall bad name, mem (avoid_all bad name) bad = false.
Proof. intros. unfold avoid_all. apply avoid_spec. lia. Qed.

Theorem avoid_all_id : forall bad name, mem name bad = false -> avoid_all bad name = name.
Proof. intros bad name H. unfold avoid_all. simpl. rewrite H. reflexivity. Qed.

(* the loop returns the name itself or the name with underscores appended *)
Definition ends_us (s : string) : Prop := exists t, s = (t ++ "_")%string.

Lemma avoid_shape : forall fuel bad name, avoid fuel bad name = name \/ ends_us (avoid fuel bad name).
Proof.
  induction fuel as [|k IH]; intros bad name; simpl; [left; reflexivity|].
  destruct (mem name bad); [|left; reflexivity].
  destruct (IH bad (name ++ "_")%string) as [->|H]; right; [exists name; reflexivity|exact H].
Qed.

Definition last_char (s : string) : option ascii := last (map Some (s2l s)) None.

Lemma last_char_app : forall a b c, last_char (a ++ String c b)%string = last_char (String c b).
Proof.
  intros a b c. unfold last_char. induction a as [|x r IH]; [reflexivity|].
  simpl. simpl in IH. rewrite <- IH. unfold s2l. simpl.
  destruct (list_ascii_of_string (r ++ String c b)) eqn:E; [|reflexivity].
  destruct r; discriminate.
Qed.

Lemma ends_us_last : forall s, ends_us s -> last_char s = Some "_"%char.
Proof. intros s [t ->]. rewrite last_char_app. reflexivity. Qed.

Lemma const_name_last : forall n, last_char (const_name n) = Some "L"%char.
Proof. intros n. unfold const_name. change "_GQL" with (String "_" "GQL"). rewrite last_char_app. reflexivity. Qed.

(* every name the arguments loop hands out is fresh w.r.t. the reserved names and the names handed out before *)
Theorem assign_names_fresh : forall hook processed used n,
  In n (assign_names hook used processed) -> mem n used = false.
Proof.
  intros hook. induction processed as [|p r IH]; intros used n H; simpl in H; [contradiction|].
  destruct H as [<-|H]; [apply avoid_all_spec|].
  specialize (IH _ _ H). unfold mem in *. simpl in IH. apply orb_false_iff in IH. apply IH.
Qed.

Theorem assign_names_nodup : forall hook processed used, NoDup (assign_names hook used processed).
Proof.
  intros hook. induction processed as [|p r IH]; intros used; simpl; constructor.
  - intro H. apply assign_names_fresh in H. unfold mem in H. simpl in H. rewrite String.eqb_refl in H. discriminate.
  - apply IH.
Qed.

(* THE point of /repo edeb7cc: with ExtractOperations' hook, no argument of a generated method is named like one of
   the extracted constants — so `query=X_GQL` inside the method always denotes the module constant.  Needs only that
   constants are const_name's (they end in "L", an appended underscore can never produce one). *)
Theorem names_avoid_constants : forall st used processed n,
  (forall c, In c (ex_constants st) -> exists op, c = const_name op) ->
  In n (assign_names (ex_process_name st) used processed) -> mem n (ex_constants st) = false.
Proof.
  intros st used processed n Hc. revert used. induction processed as [|p r IH]; intros used H; simpl in H; [contradiction|].
  destruct H as [<-|H]; [|eapply IH; exact H].
  unfold avoid_all at 1. destruct (avoid_shape (S (max_len used)) used (ex_process_name st p)) as [->|Hus].
  - apply avoid_all_spec.
  - destruct (mem (avoid (S (max_len used)) used (ex_process_name st p)) (ex_constants st)) eqn:E; [|reflexivity].
    apply mem_In in E. destruct (Hc _ E) as [op Hop]. apply ends_us_last in Hus. rewrite Hop, const_name_last in Hus.
    discriminate.
Qed.

(* outside the former finding class (no processed name is a constant) the hook changes nothing *)
Theorem process_name_id_outside_class : forall st hook_free used processed,
  hook_free = (fun s : string => s) ->
  (forall p, In p processed -> mem p (ex_constants st) = false) ->
  assign_names (ex_process_name st) used processed = assign_names hook_free used processed.
Proof.
  intros st hook_free used processed -> . revert used. induction processed as [|p r IH]; intros used H; simpl; [reflexivity|].
  assert (Hp : ex_process_name st p = p) by (unfold ex_process_name; apply avoid_all_id, H; left; reflexivity).
  rewrite Hp. f_equal. apply IH. intros q Hq. apply H. right; exact Hq.
Qed.

(* the constants ExtractOperations records ARE const_name's *)
Lemma ex_record_constants : forall st op c,
  (forall c0, In c0 (ex_constants st) -> exists o, c0 = const_name o) ->
  In c (ex_constants (ex_record st op)) -> exists o, c = const_name o.
Proof.
  intros st [n s] c H Hc. unfold ex_constants, ex_record in *. simpl in Hc.
  apply in_map_iff in Hc. destruct Hc as [[k v] [<- Hin]]. simpl.
  assert (G : forall l, (forall kv, In kv l -> exists o, snd kv = const_name o) ->
              forall kv, In kv (dict_set n (const_name n) l) -> exists o, snd kv = const_name o).
  { induction l as [|[k0 v0] r IHl]; intros Hl kv Hkv; simpl in Hkv.
    - destruct Hkv as [<-|[]]. exists n. reflexivity.
    - destruct (String.eqb n k0).
      + destruct Hkv as [<-|Hkv]; [exists n; reflexivity|apply Hl; right; exact Hkv].
      + destruct Hkv as [<-|Hkv]; [apply Hl; left; reflexivity|].
        apply IHl; [intros kv0 H0; apply Hl; right; exact H0|exact Hkv]. }
  apply (G (ex_vars st)) in Hin; [exact Hin|].
  intros kv Hkv. apply H. apply in_map. exact Hkv.
Qed.

(* ================================================================== 14. the configuration route keeps entry order *)
Lemma resolve_entries_app : forall a b, resolve_entries (a ++ b) = resolve_entries a ++ resolve_entries b.
Proof. intros. unfold resolve_entries. apply flat_map_app. Qed.

(* hooks see the entries' plugins in the order of the entries, whatever their form *)
Theorem entries_applied_in_order : forall a b h o,
  apply_hook (resolve_entries (a ++ b)) h o =
  match apply_hook (resolve_entries a) h o with
  | None => None
  | Some (ps', o1) =>
      match apply_hook (resolve_entries b) h o1 with
      | None => None
      | Some (qs', o2) => Some (ps' ++ qs', o2)
      end
  end.
Proof. intros. rewrite resolve_entries_app. apply apply_hook_app. Qed.

(* ================================================================== 15. const_name is injective on snake forms *)
Lemma lower_not_upper : forall c, is_upper (to_lower c) = false.
Proof. intros [[] [] [] [] [] [] [] []]; reflexivity. Qed.

Lemma lower_upper_cancel : forall c, is_upper c = false -> to_lower (to_upper c) = c.
Proof. intros [[] [] [] [] [] [] [] []]; intros H; try reflexivity; discriminate H. Qed.

Lemma snake_go_no_upper : forall l last sep, forallb (fun c => negb (is_upper c)) (snake_go last sep l) = true.
Proof.
  induction l as [|c r IH]; intros last sep; simpl; [reflexivity|].
  destruct (is_alnum c).
  - rewrite forallb_app. simpl. rewrite lower_not_upper, IH. simpl.
    destruct (match last with Some p => sep || boundary p (kind c) (head_lower r) | None => false end); reflexivity.
  - apply IH.
Qed.

Lemma map_lower_upper : forall l, forallb (fun c => negb (is_upper c)) l = true -> map to_lower (map to_upper l) = l.
Proof.
  induction l as [|c r IH]; intros H; simpl; [reflexivity|]. simpl in H. apply andb_true_iff in H. destruct H as [Hc Hr].
  rewrite lower_upper_cancel by (destruct (is_upper c); [discriminate|reflexivity]). rewrite IH by exact Hr. reflexivity.
Qed.

Lemma s2l_app : forall a b, s2l (a ++ b)%string = s2l a ++ s2l b.
Proof. induction a as [|c r IH]; intros b; simpl; [reflexivity|]. unfold s2l in *. simpl. rewrite IH. reflexivity. Qed.

(* two operations get the same constant only if their snake-cased names — i.e. their method and module names —
   coincide, and then the generator has already refused them (duplicated file names) *)
Theorem const_name_injective : forall a b, const_name a = const_name b -> snake (s2l a) = snake (s2l b).
Proof.
  intros a b H. unfold const_name, upper_s in H. apply (f_equal s2l) in H. rewrite !s2l_app, !s2l_l2s in H.
  apply app_inv_tail in H. apply (f_equal (map to_lower)) in H.
  rewrite !map_lower_upper in H by apply snake_go_no_upper. exact H.
Qed.

Theorem const_names_nodup : forall names,
  NoDup (map (fun n => snake (s2l n)) names) -> NoDup (map const_name names).
Proof.
  induction names as [|n r IH]; intros H; simpl in *; [constructor|]. inversion H; subst. constructor; [|apply IH; assumption].
  intro Hc. apply in_map_iff in Hc. destruct Hc as [m [Hm Hin]]. apply H2.
  apply in_map_iff. exists m. split; [|exact Hin]. apply const_name_injective. exact Hm.
Qed.
