(* Lemmas about Model/Args.v: the generated signature and variables dict. *)
From Coq Require Import List String Ascii ZArith Bool Permutation Lia.
From AC Require Import Base.Strs Base.Sexp Base.Json Model.Names Gql.Coerce Model.Args.
Import ListNotations.
Local Open Scope string_scope.

Lemma map_opt_length {X Y} (f : X -> option Y) l r : map_opt f l = Some r -> List.length r = List.length l.
Proof.
  revert r; induction l as [|x l IH]; simpl; intros r H.
  - inversion H; reflexivity.
  - destruct (f x); [|discriminate]. destruct (map_opt f l); [|discriminate].
    inversion H; subst; simpl. f_equal. apply IH. reflexivity.
Qed.

Lemma map_opt_map {X Y Z} (f : X -> option Y) (g : Y -> Z) (h : X -> Z) l r :
  (forall x y, f x = Some y -> g y = h x) -> map_opt f l = Some r -> map g r = map h l.
Proof.
  intros Hgh. revert r; induction l as [|x l IH]; simpl; intros r H.
  - inversion H; reflexivity.
  - destruct (f x) eqn:E; [|discriminate]. destruct (map_opt f l); [|discriminate].
    inversion H; subst; simpl. f_equal; [apply Hgh; exact E | apply IH; reflexivity].
Qed.

(* a type annotation parsed with nullable=false is never Optional[...] *)
Lemma parse_false_not_nullable S t a u :
  parse_type_node S t false = Some (a, u) -> ann_is_nullable a = false.
Proof.
  revert a u; induction t as [n|t IH|t IH]; simpl; intros a u H.
  - unfold parse_named in H. destruct (lookup_type S n) as [[b|[c|]|vals|fs]|];
      inversion H; reflexivity.
  - destruct (parse_type_node S t true) as [[a' u']|]; inversion H; reflexivity.
  - eapply IH; exact H.
Qed.

Lemma parse_true_nullable S t a u :
  is_nonnull t = false -> parse_type_node S t true = Some (a, u) -> ann_is_nullable a = true.
Proof.
  destruct t as [n|t|t]; simpl; intros Hn H; try discriminate.
  - unfold parse_named in H. destruct (lookup_type S n) as [[b|[c|]|vals|fs]|];
      inversion H; reflexivity.
  - destruct (parse_type_node S t true) as [[a' u']|]; inversion H; reflexivity.
Qed.

(* a parameter is required exactly when the variable's type is non-null (defaults play no role) *)
Lemma gen_one_required S snake v p e :
  gen_one S snake v = Some (p, e) -> p_required p = is_nonnull (v_type v).
Proof.
  unfold gen_one. destruct (parse_type_node S (v_type v) true) as [[a u]|] eqn:E; [|discriminate].
  intro H; inversion H; subst; simpl.
  destruct (v_type v) as [n|t|t] eqn:Et; simpl.
  - rewrite (parse_true_nullable S (TNamed n) a u eq_refl E). reflexivity.
  - rewrite (parse_true_nullable S (TList t) a u eq_refl E). reflexivity.
  - simpl in E. rewrite (parse_false_not_nullable S t a u E). reflexivity.
Qed.

Lemma gen_one_name S snake v p e :
  gen_one S snake v = Some (p, e) -> p_name p = pname snake (v_name v) /\ fst e = v_name v.
Proof.
  unfold gen_one. destruct (parse_type_node S (v_type v) true) as [[a u]|]; [|discriminate].
  intro H; inversion H; subst; simpl. split; reflexivity.
Qed.

Lemma gen_one_dictval S snake v p e :
  gen_one S snake v = Some (p, e) ->
  exists a used, parse_type_node S (v_type v) true = Some (a, used) /\
                 snd e = dict_value S (pname snake (v_name v)) used (v_type v).
Proof.
  unfold gen_one. destruct (parse_type_node S (v_type v) true) as [[a u]|]; [|discriminate].
  intro H; inversion H; subst; simpl. exists a, u. split; reflexivity.
Qed.

(* the variables dict is keyed by the ORIGINAL GraphQL names, in declaration order *)
Lemma keys_are_graphql_names S snake vs g :
  generate S snake vs = Some g -> map fst (g_dict g) = map v_name vs.
Proof.
  unfold generate. destruct (map_opt (gen_one S snake) vs) as [l|] eqn:E; [|discriminate].
  intro H; inversion H; subst; simpl. rewrite map_map.
  eapply (map_opt_map (gen_one S snake) (fun x => fst (snd x)) v_name); [|exact E].
  intros x [p e] Hx. simpl. apply (gen_one_name _ _ _ _ _ Hx).
Qed.

Lemma filter_partition_perm {X} (f : X -> bool) l :
  Permutation (filter f l ++ filter (fun x => negb (f x)) l)%list l.
Proof.
  induction l as [|x l IH]; simpl; [constructor|].
  destruct (f x); simpl.
  - constructor. exact IH.
  - eapply perm_trans; [apply Permutation_sym, Permutation_middle|]. constructor. exact IH.
Qed.

(* the signature: a permutation of the variables, required parameters first, relative order kept *)
Lemma signature_shape S snake vs g :
  generate S snake vs = Some g ->
  exists ps,
    map p_name ps = map (fun v => pname snake (v_name v)) vs /\
    map p_required ps = map (fun v => is_nonnull (v_type v)) vs /\
    g_params g = (filter p_required ps ++ filter (fun p => negb (p_required p)) ps)%list /\
    Permutation (g_params g) ps.
Proof.
  unfold generate. destruct (map_opt (gen_one S snake) vs) as [l|] eqn:E; [|discriminate].
  intro H; inversion H; subst; simpl. exists (map fst l). repeat split.
  - rewrite map_map.
    eapply (map_opt_map (gen_one S snake) (fun x => p_name (fst x)) (fun v => pname snake (v_name v))); [|exact E].
    intros x [p e] Hx. simpl. apply (gen_one_name _ _ _ _ _ Hx).
  - rewrite map_map.
    eapply (map_opt_map (gen_one S snake) (fun x => p_required (fst x)) (fun v => is_nonnull (v_type v))); [|exact E].
    intros x [p e] Hx. simpl. eapply gen_one_required; exact Hx.
  - apply filter_partition_perm.
Qed.

Lemma required_before_optional S snake vs g :
  generate S snake vs = Some g ->
  exists l1 l2, g_params g = (l1 ++ l2)%list /\ Forall (fun p => p_required p = true) l1 /\
                Forall (fun p => p_required p = false) l2.
Proof.
  intro H. destruct (signature_shape _ _ _ _ H) as [ps [_ [_ [Hg _]]]].
  exists (filter p_required ps), (filter (fun p => negb (p_required p)) ps). repeat split; [exact Hg| |].
  - apply Forall_forall. intros p Hp. apply filter_In in Hp. tauto.
  - apply Forall_forall. intros p Hp. apply filter_In in Hp. destruct Hp as [_ Hp].
    destruct (p_required p); [discriminate|reflexivity].
Qed.

(* GraphQL-required (non-null, no default) implies Python-required; the converse fails for T! = default *)
Definition gql_required (v : vardef) : bool :=
  is_nonnull (v_type v) && match v_default v with None => true | Some _ => false end.

Lemma gql_required_is_py_required S snake v p e :
  gen_one S snake v = Some (p, e) -> gql_required v = true -> p_required p = true.
Proof.
  intros H Hr. rewrite (gen_one_required _ _ _ _ _ H). unfold gql_required in Hr.
  apply andb_true_iff in Hr. tauto.
Qed.

(* locals are renamed exactly when they clash with a parameter *)
Lemma local_name_fresh names v : mem_str v names = true -> local_name names v = "_" ++ v.
Proof. intro H. unfold local_name. rewrite H. reflexivity. Qed.
