(* Lemmas about Model/Args.v: the generated signature and variables dict. *)
From Coq Require Import List String Ascii ZArith Bool Permutation Lia.
From AC Require Import Base.Strs Base.Sexp Base.Json Model.Names Gql.Coerce Model.Args.
Import ListNotations.
Local Open Scope string_scope.

Lemma map_opt_length {X Y} (f : X -> option Y) l r : map_opt f l = Some r -> List.length r = List.length l.
Proof.
  revert r; induction l as [|x l IH]; simpl; intros r H.
  - inversion H; reflexivity.
  - destruct (f x); [|discriminate]. destruct (map_opt f l); [|discriminate].
    inversion H; subst; simpl. f_equal. apply IH. reflexivity.
Qed.

Lemma map_opt_map {X Y Z} (f : X -> option Y) (g : Y -> Z) (h : X -> Z) l r :
  (forall x y, f x = Some y -> g y = h x) -> map_opt f l = Some r -> map g r = map h l.
Proof.
  intros Hgh. revert r; induction l as [|x l IH]; simpl; intros r H.
  - inversion H; reflexivity.
  - destruct (f x) eqn:E; [|discriminate]. destruct (map_opt f l); [|discriminate].
    inversion H; subst; simpl. f_equal; [apply Hgh; exact E | apply IH; reflexivity].
Qed.

(* a type annotation parsed with nullable=false is never Optional[...] *)
Lemma parse_false_not_nullable S t a u :
  parse_type_node S t false = Some (a, u) -> ann_is_nullable a = false.
Proof.
  revert a u; induction t as [n|t IH|t IH]; simpl; intros a u H.
  - unfold parse_named in H. destruct (lookup_type S n) as [[b|[c|]|vals|fs]|];
      inversion H; reflexivity.
  - destruct (parse_type_node S t true) as [[a' u']|]; inversion H; reflexivity.
  - eapply IH; exact H.
Qed.

Lemma parse_true_nullable S t a u :
  is_nonnull t = false -> parse_type_node S t true = Some (a, u) -> ann_is_nullable a = true.
Proof.
  destruct t as [n|t|t]; simpl; intros Hn H; try discriminate.
  - unfold parse_named in H. destruct (lookup_type S n) as [[b|[c|]|vals|fs]|];
      inversion H; reflexivity.
  - destruct (parse_type_node S t true) as [[a' u']|]; inversion H; reflexivity.
Qed.

(* a parameter is required exactly when the variable's type is non-null (defaults play no role) *)
Lemma gen_one_required S nm v p e :
  gen_one S nm v = Some (p, e) -> p_required p = is_nonnull (v_type v).
Proof.
  unfold gen_one. destruct (parse_type_node S (v_type v) true) as [[a u]|] eqn:E; [|discriminate].
  intro H; inversion H; subst; simpl.
  destruct (v_type v) as [n|t|t] eqn:Et; simpl.
  - rewrite (parse_true_nullable S (TNamed n) a u eq_refl E). reflexivity.
  - rewrite (parse_true_nullable S (TList t) a u eq_refl E). reflexivity.
  - simpl in E. rewrite (parse_false_not_nullable S t a u E). reflexivity.
Qed.

Lemma gen_one_name S nm v p e :
  gen_one S nm v = Some (p, e) -> p_name p = nm (v_name v) /\ fst e = v_name v.
Proof.
  unfold gen_one. destruct (parse_type_node S (v_type v) true) as [[a u]|]; [|discriminate].
  intro H; inversion H; subst; simpl. split; reflexivity.
Qed.

Lemma gen_one_dictval S nm v p e :
  gen_one S nm v = Some (p, e) ->
  exists a used, parse_type_node S (v_type v) true = Some (a, used) /\
                 snd e = dict_value S (nm (v_name v)) used (v_type v).
Proof.
  unfold gen_one. destruct (parse_type_node S (v_type v) true) as [[a u]|]; [|discriminate].
  intro H; inversion H; subst; simpl. exists a, u. split; reflexivity.
Qed.

(* the variables dict is keyed by the ORIGINAL GraphQL names, in declaration order *)
Lemma keys_are_graphql_names S nm vs g :
  generate S nm vs = Some g -> map fst (g_dict g) = map v_name vs.
Proof.
  unfold generate. destruct (map_opt (gen_one S nm) vs) as [l|] eqn:E; [|discriminate].
  intro H; inversion H; subst; simpl. rewrite map_map.
  eapply (map_opt_map (gen_one S nm) (fun x => fst (snd x)) v_name); [|exact E].
  intros x [p e] Hx. simpl. apply (gen_one_name _ _ _ _ _ Hx).
Qed.

Lemma filter_partition_perm {X} (f : X -> bool) l :
  Permutation (filter f l ++ filter (fun x => negb (f x)) l)%list l.
Proof.
  induction l as [|x l IH]; simpl; [constructor|].
  destruct (f x); simpl.
  - constructor. exact IH.
  - eapply perm_trans; [apply Permutation_sym, Permutation_middle|]. constructor. exact IH.
Qed.

(* the signature: a permutation of the variables, required parameters first, relative order kept *)
Lemma signature_shape S nm vs g :
  generate S nm vs = Some g ->
  exists ps,
    map p_name ps = map (fun v => nm (v_name v)) vs /\
    map p_required ps = map (fun v => is_nonnull (v_type v)) vs /\
    g_params g = (filter p_required ps ++ filter (fun p => negb (p_required p)) ps)%list /\
    Permutation (g_params g) ps.
Proof.
  unfold generate. destruct (map_opt (gen_one S nm) vs) as [l|] eqn:E; [|discriminate].
  intro H; inversion H; subst; simpl. exists (map fst l). repeat split.
  - rewrite map_map.
    eapply (map_opt_map (gen_one S nm) (fun x => p_name (fst x)) (fun v => nm (v_name v))); [|exact E].
    intros x [p e] Hx. simpl. apply (gen_one_name _ _ _ _ _ Hx).
  - rewrite map_map.
    eapply (map_opt_map (gen_one S nm) (fun x => p_required (fst x)) (fun v => is_nonnull (v_type v))); [|exact E].
    intros x [p e] Hx. simpl. eapply gen_one_required; exact Hx.
  - apply filter_partition_perm.
Qed.

Lemma required_before_optional S nm vs g :
  generate S nm vs = Some g ->
  exists l1 l2, g_params g = (l1 ++ l2)%list /\ Forall (fun p => p_required p = true) l1 /\
                Forall (fun p => p_required p = false) l2.
Proof.
  intro H. destruct (signature_shape _ _ _ _ H) as [ps [_ [_ [Hg _]]]].
  exists (filter p_required ps), (filter (fun p => negb (p_required p)) ps). repeat split; [exact Hg| |].
  - apply Forall_forall. intros p Hp. apply filter_In in Hp. tauto.
  - apply Forall_forall. intros p Hp. apply filter_In in Hp. destruct Hp as [_ Hp].
    destruct (p_required p); [discriminate|reflexivity].
Qed.

(* GraphQL-required (non-null, no default) implies Python-required; the converse fails for T! = default *)
Definition gql_required (v : vardef) : bool :=
  is_nonnull (v_type v) && match v_default v with None => true | Some _ => false end.

Lemma gql_required_is_py_required S nm v p e :
  gen_one S nm v = Some (p, e) -> gql_required v = true -> p_required p = true.
Proof.
  intros H Hr. rewrite (gen_one_required _ _ _ _ _ H). unfold gql_required in Hr.
  apply andb_true_iff in Hr. tauto.
Qed.

(* ---------- the renaming loops (since /repo 7f3b78b) ---------- *)
Lemma mem_str_In' s l : mem_str s l = true <-> In s l.
Proof.
  induction l as [|x l IH]; simpl; [split; [discriminate|tauto]|].
  rewrite orb_true_iff, IH, String.eqb_eq. split; intros [H|H]; auto.
Qed.

Definition longer (x : string) (used : list string) : nat :=
  List.length (filter (fun u => Nat.leb (String.length x) (String.length u)) used).

Lemma length_append a b : String.length (a ++ b) = String.length a + String.length b.
Proof. induction a as [|c a IH]; simpl; [reflexivity|]. rewrite IH. reflexivity. Qed.

Local Opaque Nat.leb.
(* moving to a strictly longer candidate drops at least the element equal to the current one *)
Lemma longer_decreases x y used :
  In x used -> String.length y = Datatypes.S (String.length x) -> longer y used < longer x used.
Proof.
  unfold longer. intros Hin Hy. induction used as [|u r IH]; [contradiction|].
  simpl. rewrite Hy.
  assert (Hmono : List.length (filter (fun u0 => Nat.leb (Datatypes.S (String.length x)) (String.length u0)) r)
                  <= List.length (filter (fun u0 => Nat.leb (String.length x) (String.length u0)) r)).
  { clear. induction r as [|a r IH]; simpl; [lia|].
    destruct (Nat.leb (Datatypes.S (String.length x)) (String.length a)) eqn:E1.
    - apply Nat.leb_le in E1. assert (E2 : Nat.leb (String.length x) (String.length a) = true) by (apply Nat.leb_le; lia).
      rewrite E2. simpl. lia.
    - destruct (Nat.leb (String.length x) (String.length a)); simpl; lia. }
  destruct Hin as [E|Hin].
  - subst u. rewrite Nat.leb_refl.
    assert (E1 : Nat.leb (Datatypes.S (String.length x)) (String.length x) = false) by (apply Nat.leb_gt; lia).
    rewrite E1. simpl. lia.
  - specialize (IH Hin). rewrite Hy in IH.
    destruct (Nat.leb (Datatypes.S (String.length x)) (String.length u)) eqn:E1.
    + apply Nat.leb_le in E1. assert (E2 : Nat.leb (String.length x) (String.length u) = true) by (apply Nat.leb_le; lia).
      rewrite E2. simpl. lia.
    + destruct (Nat.leb (String.length x) (String.length u)); simpl; lia.
Qed.

Lemma longer_le x used : longer x used <= List.length used.
Proof. unfold longer. induction used as [|u r IH]; simpl; [lia|]. destruct (Nat.leb _ _); simpl; lia. Qed.

Local Transparent Nat.leb.
(* the suffix loop ends on a free name *)
Lemma fresh_free : forall n used x, longer x used < n -> ~ In (fresh n used x) used.
Proof.
  induction n as [|n IH]; intros used x Hn; [lia|]. simpl.
  destruct (mem_str x used) eqn:E.
  - apply IH. apply mem_str_In' in E.
    pose proof (longer_decreases x (x ++ "_") used E) as Hd.
    rewrite length_append in Hd. simpl in Hd. specialize (Hd ltac:(lia)). lia.
  - intro H. apply mem_str_In' in H. congruence.
Qed.

Fixpoint us (k : nat) : string := match k with O => "" | Datatypes.S k' => "_" ++ us k' end.

Lemma append_assoc' a b c : ((a ++ b) ++ c = a ++ (b ++ c))%string.
Proof. induction a as [|x a IH]; simpl; [reflexivity|]. rewrite IH. reflexivity. Qed.

Lemma append_nil_r a : (a ++ "" = a)%string.
Proof. induction a as [|x a IH]; simpl; [reflexivity|]. rewrite IH. reflexivity. Qed.

Lemma us_comm k : ("_" ++ us k = us k ++ "_")%string.
Proof. induction k as [|k IH]; simpl; [reflexivity|]. simpl in IH. rewrite <- IH. reflexivity. Qed.

Lemma fresh_form : forall n used x, exists k, fresh n used x = (x ++ us k)%string.
Proof.
  induction n as [|n IH]; intros used x; simpl.
  - exists 0. simpl. symmetry; apply append_nil_r.
  - destruct (mem_str x used).
    + destruct (IH used (x ++ "_")%string) as [k Hk]. exists (Datatypes.S k). rewrite Hk.
      rewrite append_assoc'. reflexivity.
    + exists 0. simpl. symmetry; apply append_nil_r.
Qed.

Lemma assign_length used bs : List.length (assign used bs) = List.length bs.
Proof. revert used; induction bs as [|b r IH]; intro used; simpl; [reflexivity|]. rewrite IH. reflexivity. Qed.

(* assigned parameter names: pairwise distinct and never in the used (reserved) set *)
Lemma assign_free : forall bs used, NoDup (assign used bs) /\ (forall x, In x (assign used bs) -> ~ In x used).
Proof.
  induction bs as [|b r IH]; intro used; simpl.
  - split; [constructor|intros x []].
  - set (nm := fresh (Datatypes.S (List.length used)) used b).
    assert (Hnm : ~ In nm used).
    { apply fresh_free. pose proof (longer_le b used). lia. }
    destruct (IH (nm :: used)) as [Hnd Hfree]. split.
    + constructor; [|exact Hnd]. intro Hin. apply (Hfree nm Hin). left; reflexivity.
    + intros x [E|Hin]; [subst; exact Hnm|]. intro Hu. apply (Hfree x Hin). right; exact Hu.
Qed.

Lemma assign_form : forall bs used, Forall2 (fun b p => exists k, p = (b ++ us k)%string) bs (assign used bs).
Proof.
  induction bs as [|b r IH]; intro used; cbn [assign]; constructor.
  - apply fresh_form.
  - apply IH.
Qed.

(* looking the i-th key up in combine ks ps gives the i-th value when the keys are distinct *)
Lemma map_assoc_combine {X} (d : string -> X) : forall ks ps, NoDup ks -> List.length ks = List.length ps ->
  map (fun k => match assoc k (combine ks ps) with Some p => p | None => d k end) ks = ps.
Proof.
  induction ks as [|k ks IH]; intros [|p ps] Hnd Hl; simpl in *; try discriminate; [reflexivity|].
  apply NoDup_cons_iff in Hnd as [Hnotin Hnd]. rewrite String.eqb_refl. f_equal.
  transitivity (map (fun k0 => match assoc k0 (combine ks ps) with Some p0 => p0 | None => d k0 end) ks);
    [|apply IH; [exact Hnd|lia]].
  apply map_ext_in. intros a Ha.
  destruct (String.eqb a k) eqn:E; [apply String.eqb_eq in E; subst; contradiction|reflexivity].
Qed.

Lemma naming_names S snake extra vs : NoDup (map v_name vs) ->
  map (fun v => naming S snake extra vs (v_name v)) vs =
  assign (reserved_names S ++ extra) (map (base_name snake) (map v_name vs)).
Proof.
  intro Hnd. unfold naming.
  pose proof (map_assoc_combine (base_name snake) (map v_name vs)
                (assign (reserved_names S ++ extra) (map (base_name snake) (map v_name vs))) Hnd) as H.
  etransitivity; [|apply H; rewrite assign_length, !map_length; reflexivity].
  symmetry. apply (map_map v_name).
Qed.

(* the prefix loop for the method's locals *)
Lemma fresh_local_free : forall n names x, longer x names < n -> ~ In (fresh_local n names x) names.
Proof.
  induction n as [|n IH]; intros names x Hn; [lia|]. simpl.
  destruct (mem_str x names) eqn:E.
  - apply IH. apply mem_str_In' in E.
    pose proof (longer_decreases x ("_" ++ x) names E) as Hd. simpl in Hd. specialize (Hd eq_refl). lia.
  - intro H. apply mem_str_In' in H. congruence.
Qed.

Lemma local_name_free names x : ~ In (local_name names x) names.
Proof. unfold local_name. apply fresh_local_free. pose proof (longer_le x names). lia. Qed.
