(* Lemmas about Model/GetData.v (property C12). *)
From Coq Require Import List String Ascii ZArith Bool Lia.
From AC Require Import Base.Sexp Base.Json Model.GetData.
Import ListNotations.
Local Open Scope string_scope.

Lemma is_success_range st : is_success st = true <-> (200 <= st <= 299)%Z.
Proof. unfold is_success. rewrite andb_true_iff, !Z.leb_le. tauto. Qed.

Lemma not_success_range st : is_success st = false <-> (st < 200 \/ 299 < st)%Z.
Proof.
  unfold is_success. rewrite andb_false_iff, !Z.leb_gt. tauto.
Qed.

(* ---- branch lemmas ---- *)
Lemma non2xx_http_error st b : (st < 200 \/ 299 < st)%Z -> get_data st b = OHttpError st.
Proof. intro H. apply not_success_range in H. unfold get_data. rewrite H. reflexivity. Qed.

Lemma not_json_invalid st : (200 <= st <= 299)%Z -> get_data st None = OInvalid.
Proof. intro H. apply is_success_range in H. unfold get_data. rewrite H. reflexivity. Qed.

Lemma not_object_invalid st j : (200 <= st <= 299)%Z -> (forall kv, j <> JObj kv) ->
  get_data st (Some j) = OInvalid.
Proof.
  intros H N. apply is_success_range in H. unfold get_data. rewrite H. simpl.
  destruct j; try reflexivity. exfalso. eapply N. reflexivity.
Qed.

Lemma neither_key_invalid st kv : (200 <= st <= 299)%Z ->
  jlookup "data" kv = None -> jlookup "errors" kv = None ->
  get_data st (Some (JObj kv)) = OInvalid.
Proof.
  intros H D E. apply is_success_range in H. unfold get_data, jhas. rewrite H, D, E. reflexivity.
Qed.

(* what "carrying the error" means: every documented attribute, read off the error object *)
Definition error_carried (e : json) (g : gerror) : Prop :=
  exists kv m, e = JObj kv /\ jlookup "message" kv = Some m /\
    ge_message g = m /\
    ge_locations g = jget "locations" kv /\
    ge_path g = jget "path" kv /\
    ge_extensions g = jget "extensions" kv /\
    ge_original g = e.

Lemma from_dict_spec e : spec_error e = true -> exists g, from_dict e = inr g /\ error_carried e g.
Proof.
  destruct e; simpl; try discriminate. unfold jhas.
  destruct (jlookup "message" kv) as [m|] eqn:M; try discriminate. intros _.
  eexists. split; [reflexivity|]. exists kv, m. simpl. repeat split; auto.
Qed.

Lemma from_list_spec l : forallb spec_error l = true ->
  exists gs, from_list l = inr gs /\ Forall2 error_carried l gs.
Proof.
  induction l as [|e l IH]; simpl; intro H.
  - exists []. split; [reflexivity | constructor].
  - apply andb_true_iff in H as [He Hl].
    destruct (from_dict_spec e He) as [g [Hg Hc]]. destruct (IH Hl) as [gs [Hgs Hf]].
    exists (g :: gs). rewrite Hg, Hgs. split; [reflexivity | constructor; assumption].
Qed.

Lemma from_list_bad l : forallb spec_error l = false -> exists x, from_list l = inl x.
Proof.
  induction l as [|e l IH]; simpl; intro H; try discriminate.
  destruct (spec_error e) eqn:He.
  - simpl in H. destruct (from_dict_spec e He) as [g [Hg _]]. rewrite Hg.
    destruct (IH H) as [x Hx]. rewrite Hx. eauto.
  - destruct e; simpl in *; eauto. unfold jhas in He.
    destruct (jlookup "message" kv); try discriminate. eauto.
Qed.

Lemma errors_nonempty_multi st kv e l : (200 <= st <= 299)%Z ->
  jlookup "errors" kv = Some (JArr (e :: l)) -> forallb spec_error (e :: l) = true ->
  exists gs, get_data st (Some (JObj kv)) = OMulti gs (jget "data" kv) /\
             Forall2 error_carried (e :: l) gs.
Proof.
  intros H E S. apply is_success_range in H.
  destruct (from_list_spec _ S) as [gs [Hgs Hf]]. exists gs. split; [|exact Hf].
  unfold get_data, jhas, jget. rewrite H, E. simpl negb. rewrite andb_false_r.
  cbn [py_truthy truthy]. cbn [from_errors_dicts]. rewrite Hgs. reflexivity.
Qed.

Lemma otherwise_data_unchanged st kv : (200 <= st <= 299)%Z ->
  jhas "data" kv = true \/ jhas "errors" kv = true ->
  py_truthy (jget "errors" kv) = false ->
  get_data st (Some (JObj kv)) = OData (jget "data" kv).
Proof.
  intros H K T. apply is_success_range in H. unfold get_data. rewrite H. simpl negb.
  replace (negb (jhas "data" kv) && negb (jhas "errors" kv)) with false.
  - cbv zeta. rewrite T. reflexivity.
  - destruct K as [K|K]; rewrite K; simpl; try reflexivity. rewrite andb_false_r. reflexivity.
Qed.

Lemma data_member_returned st kv d : (200 <= st <= 299)%Z ->
  jlookup "data" kv = Some d ->
  (jlookup "errors" kv = None \/ jlookup "errors" kv = Some (JArr [])) ->
  get_data st (Some (JObj kv)) = OData d.
Proof.
  intros H D E. rewrite (otherwise_data_unchanged st kv H).
  - unfold jget. rewrite D. reflexivity.
  - left. unfold jhas. rewrite D. reflexivity.
  - unfold jget. destruct E as [E|E]; rewrite E; reflexivity.
Qed.

(* inversion: whenever data is returned, the status was 2xx, the body an object, the value is
   the data member (None if absent) and the errors member was absent or falsy *)
Lemma data_inversion st b d : get_data st b = OData d ->
  (200 <= st <= 299)%Z /\ exists kv, b = Some (JObj kv) /\ d = jget "data" kv /\
    (jhas "data" kv = true \/ jhas "errors" kv = true) /\
    py_truthy (jget "errors" kv) = false.
Proof.
  unfold get_data. destruct (is_success st) eqn:S; simpl; try discriminate.
  intro H. split; [apply is_success_range; exact S|].
  destruct b as [j|]; try discriminate. destruct j; try discriminate.
  destruct (negb (jhas "data" kv) && negb (jhas "errors" kv)) eqn:K; try discriminate.
  cbv zeta in H. destruct (py_truthy (jget "errors" kv)) eqn:T.
  - destruct (from_errors_dicts (jget "errors" kv)); discriminate.
  - inversion H; subst. exists kv. repeat split; auto.
    destruct (jhas "data" kv); [left; reflexivity|]. destruct (jhas "errors" kv); [right; reflexivity|].
    discriminate.
Qed.

Lemma never_data_with_errors st kv e l d :
  jlookup "errors" kv = Some (JArr (e :: l)) -> get_data st (Some (JObj kv)) <> OData d.
Proof.
  intros E H. apply data_inversion in H as [_ [kv' [B [_ [_ T]]]]].
  inversion B; subst kv'. unfold jget in T. rewrite E in T. discriminate.
Qed.

Lemma never_data_with_truthy_errors st kv e d :
  jlookup "errors" kv = Some e -> py_truthy e = true -> get_data st (Some (JObj kv)) <> OData d.
Proof.
  intros E Te H. apply data_inversion in H as [_ [kv' [B [_ [_ T]]]]].
  inversion B; subst kv'. unfold jget in T. rewrite E in T. congruence.
Qed.

(* ---- no other exception: exactly when the errors member is spec-shaped or falsy ---- *)
Lemma from_errors_dicts_spec e : spec_errors e = true -> exists gs, from_errors_dicts e = inr gs.
Proof.
  destruct e; simpl; try discriminate. intro H. destruct (from_list_spec _ H) as [gs [G _]]. eauto.
Qed.

Lemma from_errors_dicts_bad e : py_truthy e = true -> spec_errors e = false ->
  exists x, from_errors_dicts e = inl x.
Proof.
  destruct e; simpl; intros T S; eauto; try discriminate.
  - destruct (String.eqb s ""); [discriminate | eauto].
  - apply from_list_bad. exact S.
  - destruct kv as [|[k v] r]; [discriminate|]. simpl. eauto.
Qed.

Lemma no_other_exception st b x : spec_body b = true -> get_data st b <> OCrash x.
Proof.
  unfold get_data, spec_body. destruct (is_success st); simpl; try discriminate.
  destruct b as [j|]; try discriminate. destruct j; try discriminate. simpl.
  destruct (negb (jhas "data" kv) && negb (jhas "errors" kv)); try discriminate.
  unfold jget. destruct (jlookup "errors" kv) as [e|] eqn:E; simpl; try discriminate.
  intro S. destruct (py_truthy e); try discriminate.
  destruct (from_errors_dicts_spec e S) as [gs G]. rewrite G. discriminate.
Qed.

(* ---- the four hypotheses partition the input space and decide the outcome ---- *)
Lemma hyps_partition st b :
  b2n (h_http st b) + b2n (h_invalid st b) + b2n (h_errors st b) + b2n (h_data st b) = 1.
Proof.
  unfold h_http, h_invalid, h_errors, h_data, body_obj, jhas.
  destruct (is_success st); simpl; try reflexivity.
  destruct b as [j|]; try reflexivity. destruct j; try reflexivity.
  destruct (jlookup "data" kv); destruct (jlookup "errors" kv) as [e|]; simpl; try reflexivity;
    destruct (py_truthy e); reflexivity.
Qed.

Lemma h_http_decides st b : h_http st b = true -> get_data st b = OHttpError st.
Proof. unfold h_http, get_data. intro H. rewrite H. reflexivity. Qed.

Lemma h_invalid_decides st b : h_invalid st b = true -> get_data st b = OInvalid.
Proof.
  unfold h_invalid, get_data, body_obj. destruct (is_success st); simpl; try discriminate.
  destruct b as [j|]; try reflexivity. destruct j; try reflexivity. intro H. rewrite H. reflexivity.
Qed.

Lemma h_errors_spec_decides st b : h_errors st b = true -> spec_body b = true ->
  exists kv e gs, b = Some (JObj kv) /\ jlookup "errors" kv = Some e /\
    from_errors_dicts e = inr gs /\ get_data st b = OMulti gs (jget "data" kv).
Proof.
  unfold h_errors, spec_body, get_data, body_obj. destruct (is_success st); simpl; try discriminate.
  destruct b as [j|]; try discriminate. destruct j; try discriminate.
  destruct (jlookup "errors" kv) as [e|] eqn:E; try discriminate. intros T S.
  destruct (from_errors_dicts_spec e S) as [gs G].
  exists kv, e, gs. repeat split; auto.
  unfold jhas, jget. rewrite E. simpl negb. rewrite andb_false_r. cbv zeta. rewrite T, G. reflexivity.
Qed.

Lemma h_errors_bad_decides st b : h_errors st b = true -> spec_body b = false ->
  exists x, get_data st b = OCrash x.
Proof.
  unfold h_errors, spec_body, get_data, body_obj. destruct (is_success st); simpl; try discriminate.
  destruct b as [j|]; try discriminate. destruct j; try discriminate.
  destruct (jlookup "errors" kv) as [e|] eqn:E; try discriminate. intros T S.
  destruct (from_errors_dicts_bad e T S) as [x G]. exists x.
  unfold jhas, jget. rewrite E. simpl negb. rewrite andb_false_r. cbv zeta. rewrite T, G. reflexivity.
Qed.

Lemma h_data_decides st b : h_data st b = true ->
  exists kv, b = Some (JObj kv) /\ get_data st b = OData (jget "data" kv).
Proof.
  unfold h_data, body_obj. destruct (is_success st) eqn:S; simpl; try discriminate.
  destruct b as [j|]; try discriminate. destruct j; try discriminate. intro H.
  apply andb_true_iff in H as [K T]. exists kv. split; [reflexivity|].
  apply otherwise_data_unchanged.
  - apply is_success_range. exact S.
  - apply orb_true_iff. exact K.
  - unfold jget. destruct (jlookup "errors" kv); [|reflexivity].
    apply negb_true_iff. exact T.
Qed.

(* ---- the generated method ---- *)
Lemma method_returns_validated (V : Type) (validate : json -> option V) st b v :
  client_method validate st b = MReturn v <->
  exists d, get_data st b = OData d /\ validate d = Some v.
Proof.
  unfold client_method. split.
  - destruct (get_data st b) eqn:G; try discriminate.
    destruct (validate d) eqn:Vd; try discriminate. intro H. inversion H; subst. eauto.
  - intros [d [G Vd]]. rewrite G, Vd. reflexivity.
Qed.

Lemma method_raises (V : Type) (validate : json -> option V) st b o :
  client_method validate st b = MRaise o <->
  get_data st b = o /\ forall d, o <> OData d.
Proof.
  unfold client_method. split.
  - destruct (get_data st b) eqn:G; try (intro H; inversion H; subst; split; [reflexivity | discriminate]).
    destruct (validate d); discriminate.
  - intros [G N]. rewrite G. destruct o; try reflexivity. exfalso. eapply N. reflexivity.
Qed.

(* ---- str(exception) ---- *)
Definition msg_of (e : json) : option string :=
  match e with
  | JObj kv => match jlookup "message" kv with Some (JStr s) => Some s | _ => None end
  | _ => None
  end.

Lemma carried_str e g : error_carried e g -> gerror_str g = msg_of e.
Proof.
  intros [kv [m [E [M [Hm _]]]]]. subst e. unfold gerror_str, msg_of. rewrite Hm, M. reflexivity.
Qed.

Lemma carried_strs l gs : Forall2 error_carried l gs -> map gerror_str gs = map msg_of l.
Proof. induction 1; simpl; [reflexivity|]. rewrite (carried_str _ _ H), IHForall2. reflexivity. Qed.

(* str() of the multi-error lists the message of every error of the response, in order, joined by "; " *)
Lemma multi_str st kv e l : (200 <= st <= 299)%Z ->
  jlookup "errors" kv = Some (JArr (e :: l)) -> forallb spec_error (e :: l) = true ->
  outcome_str (get_data st (Some (JObj kv))) = join_opt (map msg_of (e :: l)).
Proof.
  intros H E S. destruct (errors_nonempty_multi st kv e l H E S) as [gs [G F]].
  rewrite G. unfold outcome_str. rewrite (carried_strs _ _ F). reflexivity.
Qed.

Lemma http_str st b : (st < 200 \/ 299 < st)%Z ->
  outcome_str (get_data st b) = Some (http_error_text ++ z_to_string st)%string.
Proof. intro H. rewrite non2xx_http_error by exact H. reflexivity. Qed.
