(* Proofs about Model/Names.v (C18). *)
From Coq Require Import List String Ascii Bool Arith Lia.
From AC Require Import Base.Strs Model.Names.
Import ListNotations.

(* ---------- character facts, by exhaustive computation over the 256 ascii values ---------- *)
Ltac ascii_cases c := destruct c as [[] [] [] [] [] [] [] []]; vm_compute; try reflexivity; try discriminate; auto.

Lemma alnum_not_us c : is_alnum c = true -> is_us c = false.
Proof. ascii_cases c. Qed.

Lemma lower_char_facts c : is_alnum c = true ->
  is_us (to_lower c) = false /\ is_alnum (to_lower c) = true /\ is_upper (to_lower c) = false /\
  ((lk (kind c) = KL /\ is_lower (to_lower c) = true) \/
   (lk (kind c) = KD /\ kind c = KD /\ is_lower (to_lower c) = false /\ is_digit (to_lower c) = true)).
Proof. ascii_cases c; intros; repeat split; auto. Qed.

Lemma to_lower_idem c : to_lower (to_lower c) = to_lower c.
Proof. ascii_cases c. Qed.

Lemma to_lower_nonupper c : is_upper c = false -> to_lower c = c.
Proof. unfold to_lower. intros ->. reflexivity. Qed.

Lemma lower_is_alnum c : is_lower c = true -> is_alnum c = true /\ kind c = KL /\ is_upper c = false /\ is_us c = false /\ is_digit c = false.
Proof. ascii_cases c; intros; repeat split; auto. Qed.

Lemma digit_is_alnum c : is_digit c = true -> is_alnum c = true /\ kind c = KD /\ is_upper c = false /\ is_us c = false /\ is_lower c = false.
Proof. ascii_cases c; intros; repeat split; auto. Qed.

Lemma kind_alnum c : is_alnum c = true -> kind c = KU \/ kind c = KL \/ kind c = KD.
Proof. ascii_cases c. Qed.

Lemma is_us_eq c : is_us c = true -> c = "_"%char.
Proof. unfold is_us. apply Ascii.eqb_eq. Qed.

Lemma us_not_alnum c : is_us c = true -> is_alnum c = false.
Proof. intro H. apply is_us_eq in H. subst. reflexivity. Qed.

Lemma name_char_cases c : is_name_char c = true -> is_alnum c = true \/ is_us c = true.
Proof. unfold is_name_char. intro H. apply orb_true_iff in H. exact H. Qed.

(* ---------- snake: every letter and digit kept, in order, lower-cased ---------- *)

Lemma snake_go_alnum l : forall last sep,
  filter is_alnum (snake_go last sep l) = map to_lower (filter is_alnum l).
Proof.
  induction l as [|c r IH]; intros last sep; simpl; [reflexivity|].
  destruct (is_alnum c) eqn:Hc.
  - destruct (lower_char_facts c Hc) as [_ [Ha _]].
    rewrite filter_app. simpl. rewrite Ha. simpl. rewrite IH.
    destruct (match last with Some p => sep || boundary p (kind c) (head_lower r) | None => false end);
      simpl; reflexivity.
  - apply IH.
Qed.

Theorem snake_alnum_preserved n :
  filter is_alnum (snake n) = map to_lower (filter is_alnum n).
Proof. apply snake_go_alnum. Qed.

(* ---------- normal form of snake output and idempotence ---------- *)

Definition okprev_us (p : option ckind) : bool :=
  match p with Some KL | Some KD => true | _ => false end.

Fixpoint nf (prev : option ckind) (l : chars) : bool :=
  match l with
  | [] => match prev with Some KO => false | _ => true end
  | c :: r =>
      if is_us c then okprev_us prev && nf (Some KO) r
      else if is_lower c then
        match prev with None | Some KL | Some KO => nf (Some KL) r | _ => false end
      else if is_digit c then
        match prev with None | Some KD | Some KO => nf (Some KD) r | _ => false end
      else false
  end.

Definition alnum_state (last : option ckind) : Prop :=
  match last with Some KO => False | _ => True end.

Lemma snake_go_nf l : forall last sep, alnum_state last ->
  nf (option_map lk last) (snake_go last sep l) = true.
Proof.
  induction l as [|c r IH]; intros last sep Hl.
  - simpl. destruct last as [[]|]; simpl in *; auto; contradiction.
  - simpl. destruct (is_alnum c) eqn:Hc; [| apply IH; exact Hl].
    destruct (lower_char_facts c Hc) as [Hus [Hal [Hup Hk]]].
    assert (IHc := IH (Some (kind c)) false).
    assert (Hst : alnum_state (Some (kind c))).
    { destruct (kind_alnum c Hc) as [-> | [-> | ->]]; exact I. }
    specialize (IHc Hst). simpl in IHc.
    destruct last as [p|].
    + destruct (sep || boundary p (kind c) (head_lower r)) eqn:Hb.
      * (* boundary: "_" then the character *)
        simpl. assert (Hp : okprev_us (Some (lk p)) = true).
        { destruct p; simpl in *; auto; contradiction. }
        simpl in Hp. rewrite Hp. simpl. rewrite Hus.
        destruct Hk as [[Hk Hlo] | [Hk [_ [Hlo Hd]]]]; rewrite Hlo; [| rewrite Hd]; rewrite Hk in IHc; exact IHc.
      * simpl. rewrite Hus. apply orb_false_iff in Hb as [_ Hb].
        destruct Hk as [[Hk Hlo] | [Hk [Hkd [Hlo Hd]]]]; rewrite Hlo; [| rewrite Hd]; rewrite Hk in IHc.
        -- destruct p, (kind c); simpl in *; try discriminate; try contradiction; exact IHc.
        -- rewrite Hkd in Hb. destruct p; simpl in *; try discriminate; try contradiction; exact IHc.
    + simpl. rewrite Hus.
      destruct Hk as [[Hk Hlo] | [Hk [_ [Hlo Hd]]]]; rewrite Hlo; [| rewrite Hd]; rewrite Hk in IHc; exact IHc.
Qed.

Definition low_state (last : option ckind) : Prop :=
  match last with None | Some KL | Some KD => True | _ => False end.

Lemma snake_go_fix l : forall last sep, low_state last -> (sep = true -> last <> None) ->
  nf (if sep then Some KO else last) l = true ->
  snake_go last sep l = (if sep then ["_"%char] else []) ++ l.
Proof.
  induction l as [|c r IH]; intros last sep Hl Hs Hnf.
  - simpl in *. destruct sep; [discriminate | reflexivity].
  - simpl in Hnf. simpl snake_go.
    destruct (is_us c) eqn:Hus.
    + rewrite (us_not_alnum c Hus). apply andb_true_iff in Hnf as [Hp Hnf].
      destruct sep; [simpl in Hp; discriminate|].
      assert (Hne : last <> None) by (destruct last; [discriminate | simpl in Hp; discriminate]).
      rewrite (IH last true Hl (fun _ => Hne) Hnf). simpl.
      apply is_us_eq in Hus. subst c. reflexivity.
    + destruct (is_lower c) eqn:Hlo.
      * destruct (lower_is_alnum c Hlo) as [Hal [Hk [Hup _]]].
        rewrite Hal, (to_lower_nonupper c Hup), Hk.
        destruct sep.
        -- destruct last as [p|]; [| exfalso; apply Hs; reflexivity].
           simpl. rewrite (IH (Some KL) false I (fun H => ltac:(discriminate)) Hnf). reflexivity.
        -- destruct last as [[]|]; simpl in Hl; try contradiction; try discriminate.
           ++ simpl. rewrite (IH (Some KL) false I (fun H => ltac:(discriminate)) Hnf). reflexivity.
           ++ simpl. rewrite (IH (Some KL) false I (fun H => ltac:(discriminate)) Hnf). reflexivity.
      * destruct (is_digit c) eqn:Hd; [| discriminate].
        destruct (digit_is_alnum c Hd) as [Hal [Hk [Hup _]]].
        rewrite Hal, (to_lower_nonupper c Hup), Hk.
        destruct sep.
        -- destruct last as [p|]; [| exfalso; apply Hs; reflexivity].
           simpl. rewrite (IH (Some KD) false I (fun H => ltac:(discriminate)) Hnf). reflexivity.
        -- destruct last as [[]|]; simpl in Hl; try contradiction; try discriminate.
           ++ simpl. rewrite (IH (Some KD) false I (fun H => ltac:(discriminate)) Hnf). reflexivity.
           ++ simpl. rewrite (IH (Some KD) false I (fun H => ltac:(discriminate)) Hnf). reflexivity.
Qed.

Theorem snake_idempotent n : snake (snake n) = snake n.
Proof.
  unfold snake at 1.
  rewrite (snake_go_fix (snake n) None false I (fun H => ltac:(discriminate))); [reflexivity|].
  exact (snake_go_nf n None false I).
Qed.

(* ---------- process_name ---------- *)
Local Arguments mem_chars : simpl never.
Local Arguments iskeyword : simpl never.
Local Arguments kwlist : simpl never.
Local Arguments pydantic_reserved : simpl never.

Lemma filter_alnum_suffix b x : filter is_alnum (suffix_if b x) = filter is_alnum x.
Proof. destruct b; simpl; [| reflexivity]. rewrite filter_app. simpl. apply app_nil_r. Qed.

Lemma filter_alnum_lstrip x : filter is_alnum (drop_while is_us x) = filter is_alnum x.
Proof.
  induction x as [|c r IH]; simpl; [reflexivity|].
  destruct (is_us c) eqn:Hc; [| reflexivity].
  rewrite (us_not_alnum c Hc). exact IH.
Qed.

Lemma map_lower_idem l : map to_lower (map to_lower l) = map to_lower l.
Proof. rewrite map_map. apply map_ext. intro c. apply to_lower_idem. Qed.

Lemma final_not_all_us (name p4 : chars) : all_us name = false ->
  match name, p4 with
  | _ :: _, [] => if all_us name then fallback_name else p4
  | _, _ => p4
  end = p4.
Proof. intros H. destruct name, p4; try reflexivity. rewrite H. reflexivity. Qed.

Theorem process_alnum_preserved R fl n : all_us n = false ->
  map to_lower (filter is_alnum (process_name_with R fl n)) = map to_lower (filter is_alnum n).
Proof.
  intro Hn. unfold process_name_with. rewrite (final_not_all_us _ _ Hn).
  assert (H : forall x, filter is_alnum (if f_trim fl then drop_while is_us x else x) = filter is_alnum x).
  { intro x. destruct (f_trim fl); [apply filter_alnum_lstrip | reflexivity]. }
  rewrite !filter_alnum_suffix, H.
  destruct (f_snake fl); [| reflexivity].
  rewrite snake_alnum_preserved. apply map_lower_idem.
Qed.

(* identifiers *)
Lemma py_identifier_suffix b x : py_identifier x = true -> py_identifier (suffix_if b x) = true.
Proof.
  destruct b; simpl; [| auto]. unfold py_identifier, gql_name.
  destruct x as [|c r]; [discriminate|]. simpl.
  intro H. apply andb_true_iff in H as [H1 H2]. apply andb_true_iff in H2 as [H2 H3].
  rewrite H1, H2. simpl. rewrite forallb_app, H3. reflexivity.
Qed.

Lemma all_us_snake_go n : all_us n = true -> forall last sep, snake_go last sep n = [].
Proof.
  induction n as [|c r IH]; intros H last sep; [reflexivity|].
  simpl in H. apply andb_true_iff in H as [Hc Hr]. simpl.
  rewrite (us_not_alnum c Hc). apply IH. exact Hr.
Qed.

Definition ends_us (x : chars) : bool := match rev x with c :: _ => is_us c | [] => false end.

Lemma ends_us_suffix x : ends_us (x ++ ["_"%char]) = true.
Proof. unfold ends_us. rewrite rev_app_distr. reflexivity. Qed.

Lemma forallb_mem (P : chars -> bool) (l : list chars) x :
  forallb P l = true -> mem_chars x l = true -> P x = true.
Proof. intros H Hm. apply mem_chars_In in Hm. rewrite forallb_forall in H. apply H. exact Hm. Qed.

Lemma keyword_not_ends_us x : iskeyword x = true -> ends_us x = false.
Proof.
  intro H. apply negb_true_iff.
  apply (forallb_mem (fun k => negb (ends_us k)) kwlist x); [vm_compute; reflexivity | exact H].
Qed.

Lemma reserved_not_ends_us x : mem_chars x pydantic_reserved = true -> ends_us x = false.
Proof.
  intro H. apply negb_true_iff.
  apply (forallb_mem (fun k => negb (ends_us k)) pydantic_reserved x); [vm_compute; reflexivity | exact H].
Qed.

Lemma keyword_not_all_us x : iskeyword x = true -> all_us x = false.
Proof.
  intro H. apply negb_true_iff.
  apply (forallb_mem (fun k => negb (all_us k)) kwlist x); [vm_compute; reflexivity | exact H].
Qed.

Lemma reserved_not_all_us x : mem_chars x pydantic_reserved = true -> all_us x = false.
Proof.
  intro H. apply negb_true_iff.
  apply (forallb_mem (fun k => negb (all_us k)) pydantic_reserved x); [vm_compute; reflexivity | exact H].
Qed.

Lemma suffix_not_keyword x : iskeyword (x ++ ["_"%char]) = false.
Proof.
  destruct (iskeyword (x ++ ["_"%char])) eqn:H; [| reflexivity].
  apply keyword_not_ends_us in H. rewrite ends_us_suffix in H. discriminate.
Qed.

Lemma suffix_not_reserved x : mem_chars (x ++ ["_"%char]) pydantic_reserved = false.
Proof.
  destruct (mem_chars (x ++ ["_"%char]) pydantic_reserved) eqn:H; [| reflexivity].
  apply reserved_not_ends_us in H. rewrite ends_us_suffix in H. discriminate.
Qed.

(* steps p2 and p3 *)
Definition step2 (p1 : chars) := suffix_if (iskeyword p1) p1.
Definition step3 (fl : pflags) (p2 : chars) := suffix_if (f_reserved fl && mem_chars p2 pydantic_reserved) p2.

Lemma step2_not_keyword p1 : iskeyword (step2 p1) = false.
Proof. unfold step2. destruct (iskeyword p1) eqn:H; simpl; [apply suffix_not_keyword | exact H]. Qed.

Lemma step3_not_keyword fl p2 : iskeyword p2 = false -> iskeyword (step3 fl p2) = false.
Proof.
  unfold step3. intro H. destruct (f_reserved fl && mem_chars p2 pydantic_reserved); simpl;
    [apply suffix_not_keyword | exact H].
Qed.

Lemma step3_not_reserved fl p2 : f_reserved fl = true ->
  mem_chars (step3 fl p2) pydantic_reserved = false.
Proof.
  unfold step3. intros ->. simpl. destruct (mem_chars p2 pydantic_reserved) eqn:H; simpl;
    [apply suffix_not_reserved | exact H].
Qed.

Lemma step23_head fl p1 c r : p1 = c :: r -> exists r', step3 fl (step2 p1) = c :: r'.
Proof.
  intros ->. unfold step3, step2, suffix_if.
  destruct (iskeyword (c :: r)); simpl;
  match goal with |- context [if ?b then _ else _] => destruct b end; simpl; eexists; reflexivity.
Qed.

Lemma step23_identifier fl p1 : py_identifier p1 = true -> py_identifier (step3 fl (step2 p1)) = true.
Proof. intro H. unfold step3, step2. apply py_identifier_suffix, py_identifier_suffix, H. Qed.

Lemma step23_all_us fl p1 : all_us p1 = true -> step3 fl (step2 p1) = p1.
Proof.
  intro H. unfold step3, step2.
  destruct (iskeyword p1) eqn:Hk; [apply keyword_not_all_us in Hk; congruence|]. simpl.
  destruct (mem_chars p1 pydantic_reserved) eqn:Hr; [apply reserved_not_all_us in Hr; congruence|].
  rewrite andb_false_r. reflexivity.
Qed.

(* shape of snake output when the name has an alphanumeric character *)
Lemma snake_go_name_chars l : forall last sep, forallb is_name_char (snake_go last sep l) = true.
Proof.
  induction l as [|c r IH]; intros last sep; simpl; [reflexivity|].
  destruct (is_alnum c) eqn:Hc; [| apply IH].
  destruct (lower_char_facts c Hc) as [_ [Hal _]].
  rewrite forallb_app. simpl. unfold is_name_char at 2. rewrite Hal, IH. simpl.
  destruct (match last with Some p => sep || boundary p (kind c) (head_lower r) | None => false end);
    reflexivity.
Qed.


Lemma digit_to_lower c : is_digit (to_lower c) = is_digit c.
Proof. ascii_cases c. Qed.

Lemma snake_go_head n : forall sep, forallb is_name_char n = true -> all_us n = false ->
  exists c r, snake_go None sep n = to_lower c :: r /\ is_alnum c = true /\
              is_digit c = first_alnum_is_digit n.
Proof.
  induction n as [|c r IH]; intros sep Hn Hu; [discriminate|].
  simpl in Hn. apply andb_true_iff in Hn as [Hc Hr]. simpl.
  destruct (name_char_cases c Hc) as [Ha | Hus].
  - rewrite Ha. simpl. eexists; eexists; repeat split; [exact Ha].
  - rewrite (us_not_alnum c Hus). simpl in Hu. rewrite Hus in Hu. simpl in Hu.
    apply IH; assumption.
Qed.

Lemma gql_name_chars n : gql_name n = true -> forallb is_name_char n = true /\ n <> [].
Proof.
  unfold gql_name. destruct n as [|c r]; [discriminate|]. intro H.
  apply andb_true_iff in H as [_ H]. split; [exact H | discriminate].
Qed.

Lemma snake_identifier n : gql_name n = true -> all_us n = false ->
  first_alnum_is_digit n = false -> py_identifier (snake n) = true /\ starts_us (snake n) = false.
Proof.
  intros Hg Hu Hd. destruct (gql_name_chars n Hg) as [Hc _].
  destruct (snake_go_head n false Hc Hu) as [c [r [He [Ha Hdig]]]].
  assert (Hall := snake_go_name_chars n None false).
  unfold snake. rewrite He in *. unfold py_identifier, gql_name.
  rewrite digit_to_lower, Hdig, Hd, Hall. split; [reflexivity|].
  simpl. apply alnum_not_us. destruct (lower_char_facts c Ha) as [_ [H _]]. exact H.
Qed.

Lemma lstrip_noop x : starts_us x = false -> drop_while is_us x = x.
Proof. destruct x as [|c r]; [reflexivity|]. simpl. intros ->. reflexivity. Qed.

Lemma lstrip_all_us x : all_us x = true -> drop_while is_us x = [].
Proof.
  induction x as [|c r IH]; [reflexivity|]. simpl. intro H.
  apply andb_true_iff in H as [-> Hr]. apply IH, Hr.
Qed.

Lemma starts_us_step23 fl p1 : starts_us p1 = false -> p1 <> [] -> starts_us (step3 fl (step2 p1)) = false.
Proof.
  intros H Hne. destruct p1 as [|c r]; [contradiction|].
  destruct (step23_head fl (c :: r) c r eq_refl) as [r' ->]. exact H.
Qed.

Lemma gql_not_all_us_start n : gql_name n = true -> starts_us n = false ->
  all_us n = false.
Proof. destruct n as [|c r]; [discriminate|]. simpl. intros _ ->. reflexivity. Qed.

(* the result of process_name on the guarded domain, in closed form *)
Definition trimmed (fl : pflags) (n : chars) : chars :=
  let p1 := if f_snake fl then snake n else n in
  if f_trim fl then drop_while is_us p1 else p1.

Definition p3_of (fl : pflags) (n : chars) : chars := step3 fl (step2 (trimmed fl n)).

Lemma process_name_unfold fl n :
  process_name fl n =
  match n, p3_of fl n with
  | _ :: _, [] => if all_us n then fallback_name else p3_of fl n
  | _, _ => p3_of fl n
  end.
Proof.
  unfold process_name, process_name_with, p3_of, trimmed, step3, step2.
  destruct n; reflexivity.
Qed.

Lemma trimmed_all_us fl n : all_us n = true ->
  trimmed fl n = if f_snake fl || f_trim fl then [] else n.
Proof.
  intro Hu. unfold trimmed. destruct (f_snake fl); simpl.
  - unfold snake. rewrite (all_us_snake_go _ Hu). destruct (f_trim fl); reflexivity.
  - destruct (f_trim fl); [apply lstrip_all_us, Hu | reflexivity].
Qed.

Lemma process_name_all_us fl n : gql_name n = true -> all_us n = true ->
  process_name fl n = if f_snake fl || f_trim fl then fallback_name else n.
Proof.
  intros Hg Hu. rewrite process_name_unfold.
  assert (Hp : p3_of fl n = if f_snake fl || f_trim fl then [] else n).
  { unfold p3_of. rewrite (trimmed_all_us fl n Hu).
    destruct (f_snake fl || f_trim fl); [apply (step23_all_us fl [] eq_refl) | apply (step23_all_us fl _ Hu)]. }
  destruct n as [|c0 r0]; [discriminate|]. rewrite !Hp.
  destruct (f_snake fl || f_trim fl); [rewrite Hu|]; reflexivity.
Qed.

Lemma lstrip_identifier n : forallb is_name_char n = true -> all_us n = false ->
  first_alnum_is_digit n = false ->
  py_identifier (drop_while is_us n) = true /\ starts_us (drop_while is_us n) = false.
Proof.
  induction n as [|c r IH]; intros Hc Hu Hd; [discriminate|].
  simpl in Hc. apply andb_true_iff in Hc as [Hc Hr]. simpl.
  destruct (is_us c) eqn:Hus.
  - simpl in Hu. rewrite Hus in Hu. simpl in Hu. simpl in Hd. rewrite (us_not_alnum c Hus) in Hd.
    apply IH; assumption.
  - destruct (name_char_cases c Hc) as [Ha | Hx]; [| congruence].
    simpl in Hd. rewrite Ha in Hd. unfold py_identifier, gql_name. simpl.
    rewrite Hd, Hus. simpl. unfold is_name_char at 1. rewrite Ha. simpl. rewrite Hr. split; reflexivity.
Qed.

Lemma trimmed_identifier fl n : gql_name n = true -> g_c18 fl n = true -> all_us n = false ->
  py_identifier (trimmed fl n) = true /\
  (f_snake fl || f_trim fl = true -> starts_us (trimmed fl n) = false) /\
  all_us (trimmed fl n) = false.
Proof.
  intros Hg Hgd Hu. unfold g_c18 in Hgd. unfold trimmed.
  destruct (gql_name_chars n Hg) as [Hc Hne].
  destruct (f_snake fl) eqn:Hs; simpl in *.
  - apply negb_true_iff in Hgd. destruct (snake_identifier n Hg Hu Hgd) as [Hid Hst].
    assert (Hau : all_us (snake n) = false).
    { destruct (snake n) as [|c r]; [discriminate|]. simpl in *. rewrite Hst. reflexivity. }
    destruct (f_trim fl); [rewrite (lstrip_noop _ Hst)|]; auto.
  - destruct (f_trim fl) eqn:Ht; simpl in *.
    + apply negb_true_iff in Hgd. destruct (lstrip_identifier n Hc Hu Hgd) as [Hid Hst].
      repeat split; auto.
      destruct (drop_while is_us n) as [|c r]; [discriminate|]. simpl in *. rewrite Hst. reflexivity.
    + repeat split; auto. intro; discriminate.
Qed.

Lemma process_name_guarded fl n : gql_name n = true -> g_c18 fl n = true -> all_us n = false ->
  process_name fl n = p3_of fl n /\ py_identifier (p3_of fl n) = true.
Proof.
  intros Hg Hgd Hu. rewrite process_name_unfold.
  destruct (trimmed_identifier fl n Hg Hgd Hu) as [Hid _].
  assert (Hid3 := step23_identifier fl _ Hid). fold (p3_of fl n) in Hid3.
  split; [| exact Hid3].
  destruct n; [reflexivity|]. destruct (p3_of fl (a :: n)); [discriminate | reflexivity].
Qed.

Theorem process_valid_identifier fl n : gql_name n = true -> g_c18 fl n = true ->
  py_identifier (process_name fl n) = true.
Proof.
  intros Hg Hgd. destruct (all_us n) eqn:Hu.
  - rewrite (process_name_all_us fl n Hg Hu). destruct (f_snake fl || f_trim fl); [reflexivity | exact Hg].
  - destruct (process_name_guarded fl n Hg Hgd Hu) as [-> H]. exact H.
Qed.

(* not a keyword / not reserved: UNGUARDED after the fix (the suffixing is the last step) *)
Lemma process_name_cases fl n : gql_name n = true ->
  process_name fl n = p3_of fl n \/ process_name fl n = fallback_name.
Proof.
  intro Hg. rewrite process_name_unfold. destruct n; [discriminate|].
  destruct (p3_of fl (a :: n)); [| left; reflexivity].
  destruct (all_us (a :: n)); [right | left]; reflexivity.
Qed.

Theorem process_not_keyword fl n : gql_name n = true -> iskeyword (process_name fl n) = false.
Proof.
  intro Hg. destruct (process_name_cases fl n Hg) as [-> | ->]; [| reflexivity].
  unfold p3_of. apply step3_not_keyword, step2_not_keyword.
Qed.

Theorem process_not_reserved fl n : f_reserved fl = true -> gql_name n = true ->
  mem_chars (process_name fl n) pydantic_reserved = false.
Proof.
  intros Hr Hg. destruct (process_name_cases fl n Hg) as [-> | ->]; [| reflexivity].
  unfold p3_of. apply step3_not_reserved, Hr.
Qed.

Theorem field_wire_name fl n : wire_name (field_names fl n) = n.
Proof.
  unfold wire_name, field_names. simpl.
  destruct (chars_eqb (process_name fl n) n) eqn:H; simpl; [apply chars_eqb_eq, H | reflexivity].
Qed.

(* ---------- idempotence of process_name on the guarded domain ---------- *)

Lemma head_lower_suffix r : head_lower (r ++ ["_"%char]) = head_lower r.
Proof. destruct r; reflexivity. Qed.

Lemma snake_go_suffix l : forall last sep, snake_go last sep (l ++ ["_"%char]) = snake_go last sep l.
Proof.
  induction l as [|c r IH]; intros last sep; [reflexivity|].
  simpl. rewrite head_lower_suffix. destruct (is_alnum c); rewrite IH; reflexivity.
Qed.

Lemma snake_suffix_if b x : snake (suffix_if b x) = snake x.
Proof. destruct b; [apply snake_go_suffix | reflexivity]. Qed.

Lemma identifier_first_alnum q : py_identifier q = true -> starts_us q = false ->
  first_alnum_is_digit q = false /\ all_us q = false.
Proof.
  destruct q as [|c r]; [discriminate|]. unfold py_identifier, gql_name. simpl.
  intros H Hs. rewrite Hs. split; [| reflexivity].
  apply andb_true_iff in H as [Hd H]. apply andb_true_iff in H as [Hc _].
  destruct (name_char_cases c Hc) as [Ha | Hu]; [| congruence].
  rewrite Ha. apply negb_true_iff, Hd.
Qed.

Lemma all_us_suffix_if b x : all_us x = false -> all_us (suffix_if b x) = false.
Proof.
  intro H. destruct b; [| exact H]. unfold suffix_if, all_us in *. rewrite forallb_app, H. reflexivity.
Qed.

Lemma starts_us_step23_eq fl p1 : p1 <> [] -> starts_us (step3 fl (step2 p1)) = starts_us p1.
Proof.
  intro Hne. destruct p1 as [|c r]; [contradiction|].
  destruct (step23_head fl (c :: r) c r eq_refl) as [r' ->]. reflexivity.
Qed.

Lemma step23_fixpoint fl q : iskeyword q = false ->
  (f_reserved fl = true -> mem_chars q pydantic_reserved = false) -> step3 fl (step2 q) = q.
Proof.
  intros Hk Hr. unfold step2. rewrite Hk. simpl suffix_if. unfold step3.
  destruct (f_reserved fl); [rewrite (Hr eq_refl) |]; reflexivity.
Qed.

Theorem process_idempotent fl n : gql_name n = true -> g_c18 fl n = true -> all_us n = false ->
  process_name fl (process_name fl n) = process_name fl n.
Proof.
  intros Hg Hgd Hu.
  destruct (process_name_guarded fl n Hg Hgd Hu) as [Hq Hid]. rewrite Hq.
  destruct (trimmed_identifier fl n Hg Hgd Hu) as [Hidt [Hst Haut]].
  assert (Hnet : trimmed fl n <> []) by (intro E; rewrite E in Hidt; discriminate).
  set (q := p3_of fl n) in *.
  assert (Hstq : starts_us q = starts_us (trimmed fl n)) by (apply starts_us_step23_eq, Hnet).
  assert (Hauq : all_us q = false).
  { unfold q, p3_of, step3, step2. apply all_us_suffix_if, all_us_suffix_if, Haut. }
  assert (Hkq : iskeyword q = false) by (apply step3_not_keyword, step2_not_keyword).
  assert (Hrq : f_reserved fl = true -> mem_chars q pydantic_reserved = false)
    by (intro Hr; apply step3_not_reserved, Hr).
  (* the trimmed form of q is q's own un-suffixed core, so the suffixing steps reproduce q *)
  assert (Hg2 : g_c18 fl q = true).
  { unfold g_c18. destruct (f_snake fl || f_trim fl) eqn:E; [| reflexivity].
    rewrite (Hst eq_refl) in Hstq. destruct (identifier_first_alnum q Hid Hstq) as [-> _]. reflexivity. }
  destruct (process_name_guarded fl q Hid Hg2 Hauq) as [Hq2 _]. rewrite Hq2.
  unfold p3_of at 1.
  destruct (f_snake fl) eqn:Hs.
  - (* snake: the core of q is snake n again *)
    assert (Ht : trimmed fl q = trimmed fl n).
    { unfold trimmed. rewrite Hs. unfold q, p3_of, step3, step2.
      rewrite !snake_suffix_if. unfold trimmed. rewrite Hs.
      assert (Hsn : snake (if f_trim fl then drop_while is_us (snake n) else snake n) = snake n).
      { unfold g_c18 in Hgd. rewrite Hs in Hgd. simpl in Hgd. apply negb_true_iff in Hgd.
        destruct (snake_identifier n Hg Hu Hgd) as [_ Hsst].
        destruct (f_trim fl); [rewrite (lstrip_noop _ Hsst)|]; apply snake_idempotent. }
      rewrite Hsn. reflexivity. }
    rewrite Ht. reflexivity.
  - (* no snake: q is already a fixed point of trim, keyword and reserved steps *)
    assert (Ht : trimmed fl q = q).
    { unfold trimmed. rewrite Hs. destruct (f_trim fl) eqn:Htr; [| reflexivity].
      apply lstrip_noop. rewrite Hstq. apply Hst. reflexivity. }
    rewrite Ht. apply step23_fixpoint; assumption.
Qed.

(* ---------- enum member names ---------- *)

Lemma app_us_inj (a b : chars) : a ++ ["_"%char] = b ++ ["_"%char] -> a = b.
Proof. apply app_inv_tail. Qed.

(* two values of one enum get the same member name only in the shape  r / r_  with r a renamed value *)
Theorem enum_member_collision a b : enum_member a = enum_member b -> a <> b ->
  (enum_renamed a = true /\ b = a ++ ["_"%char]) \/ (enum_renamed b = true /\ a = b ++ ["_"%char]).
Proof.
  unfold enum_member, suffix_if. intros H Hne.
  destruct (enum_renamed a) eqn:Ka, (enum_renamed b) eqn:Kb.
  - apply app_us_inj in H. contradiction.
  - left. split; [reflexivity | symmetry; exact H].
  - right. split; [reflexivity | exact H].
  - contradiction.
Qed.

Theorem enum_member_not_keyword v : iskeyword (enum_member v) = false.
Proof.
  unfold enum_member, suffix_if. destruct (enum_renamed v) eqn:E.
  - apply suffix_not_keyword.
  - unfold enum_renamed in E. apply orb_false_iff in E as [E _]. apply orb_false_iff in E as [E _]. exact E.
Qed.

Theorem enum_member_keeps_value v : filter is_alnum (enum_member v) = filter is_alnum v.
Proof. apply filter_alnum_suffix. Qed.
