(* C05, object level: a payload accepted AND covered by the generated classes is a conformant response
   up to pydantic's lax leaf conversions (lax_exception), for the sub-language sels_ok + sels_strict. *)
From Coq Require Import List String Ascii Bool Arith Lia ZArith.
From AC Require Import Base.Strs Base.Sexp Base.Json Gql.Schema Gql.Exec Py.Ann Py.Pydantic
     Model.Names Model.Results Proofs.ResultsP Proofs.ResultsRunP Proofs.ResultsAbsP Proofs.ResultsObjP.
Import ListNotations.
Local Open Scope string_scope.
Local Open Scope list_scope.

(* ------------------------------------------------------------------------------------------- *)
(* the leaf values pydantic's lax mode accepts although GraphQL result coercion never produces them *)
Definition lax_exception (n : string) (j : json) : bool :=
  if String.eqb n "Int" then
    match j with JBool _ => true | JFloat lx => ends_with_dot_zero lx | JStr s => int_string s | _ => false end
  else if String.eqb n "Float" then
    match j with JBool _ => true | JStr s => int_string s | _ => false end
  else if String.eqb n "Boolean" then
    match j with
    | JInt z => (Z.eqb z 0 || Z.eqb z 1)%bool
    | JStr s => mem s bool_strings
    | JFloat lx => (String.eqb lx "0.0" || String.eqb lx "1.0")%bool
    | _ => false end
  else false.

Definition lax_leaf (S : schema) (n : string) (d : tdef) (j : json) : bool :=
  leaf_conf S n d j || match d with DScalar => lax_exception n j | _ => false end.

(* the custom scalar is configured (otherwise the annotation is Any, which also accepts null) *)
Definition configured (C : cfg) (n : string) : bool :=
  match simple_type n with
  | Some _ => true
  | None => match find (fun s => String.eqb (sc_gql s) n) (cf_scalars C) with Some _ => true | None => false end
  end.

Lemma scalar_leaf_exact C S clsacc enums n j :
  j <> JNull -> acc_ann clsacc enums (fst (scalar_ann C n false)) j = lax_leaf S n DScalar j.
Proof.
  unfold scalar_ann, simple_type, lax_leaf, leaf_conf, lax_exception. intros Hn.
  destruct (String.eqb n "String") eqn:E1.
  { apply String.eqb_eq in E1. subst. simpl. destruct j; try reflexivity. }
  destruct (String.eqb n "ID") eqn:E2.
  { apply String.eqb_eq in E2. subst. simpl. destruct j; try reflexivity. }
  destruct (String.eqb n "Int") eqn:E3.
  { simpl. destruct j; try reflexivity. }
  destruct (String.eqb n "Boolean") eqn:E4.
  { apply String.eqb_eq in E4. subst. simpl. destruct j; try reflexivity. }
  destruct (String.eqb n "Float") eqn:E5.
  { simpl. destruct j; try reflexivity. }
  simpl. destruct (find _ (cf_scalars C)); simpl.
  - destruct j; try reflexivity. congruence.
  - reflexivity.
Qed.

Lemma scalar_rejects_null C clsacc enums n :
  configured C n = true -> acc_ann clsacc enums (fst (scalar_ann C n false)) JNull = false.
Proof.
  unfold configured, scalar_ann. destruct (simple_type n) as [a|] eqn:E.
  - intros _. unfold simple_type in E.
    repeat match type of E with (if ?b then _ else _) = _ => destruct b; [inversion E; reflexivity|] end.
    discriminate.
  - destruct (find (fun s => String.eqb (sc_gql s) n) (cf_scalars C)); [reflexivity | discriminate].
Qed.

Lemma enum_leaf_exact S clsacc n vs j :
  lookup_type S n = Some (DEnum vs) ->
  acc_ann clsacc (schema_enums S) (AEnum n) j = leaf_conf S n (DEnum vs) j.
Proof. intro Hl. simpl. destruct j; try reflexivity. rewrite (enum_assoc S n vs Hl). reflexivity. Qed.

(* ------------------------------------------------------------------------------------------- *)
(* the additional guard of the strictness direction *)
Definition field_strict (C : cfg) (S : schema) (nested : bool) (tn : string) (f : fnode) : bool :=
  (* F29: at the operation root __typename is a plain str; under @skip/@include it is Optional and also
     admits an explicit null *)
  if String.eqb (fn_name f) "__typename" then nested && negb (fn_cond f)
  else match schema_field_type S tn (fn_name f) with
       | Ok t =>
           (* an Optional added for @skip/@include on a non-null type also admits an explicit null *)
           (negb (fn_cond f) || negb (is_nonnull t)) &&
           match lookup_type S (base_name t) with
           | Some DScalar => configured C (base_name t)
           | _ => true
           end
       | Err _ => false
       end.

(* the strictness guard of a composite field's sub-selection: at a union position it must hold for every
   member type *)
Definition strict_sub (okb : string -> list sel -> bool) (strict : string -> list sel -> bool)
           (una : string -> list sel -> bool) (S : schema) (base : string) (sub : list sel) : bool :=
  match lookup_type S base with
  | Some (DUnion ms) => forallb (fun m => strict m sub) ms
  | Some (DInterface _ _) =>
      (* every type condition names the interface or one of its possible types (F4); every possible type
         has its own variant class, or the base class (whose Literal lists the interface and all possible
         types without a variant) has __typename only under its own key [una]: two differently aliased
         __typename fields would admit two different names of that Literal; and the interface itself —
         whose name the base class's Literal admits as __typename (F8) — is in the sub-language as a
         runtime type too *)
      let names := abs_names S base sub in
      forallb (fun t => String.eqb t base || mem t (possible_types S base)) names &&
      (forallb (fun s => mem s names) (possible_types S base) || una base sub) &&
      okb base sub && strict base sub &&
      forallb (fun s => strict s sub) (possible_types S base)
  | _ => strict base sub
  end.

(* every __typename of the class generated for r is selected without alias *)
Definition una_ok (g : nat) (S : schema) (frs : list fragdef) (r : string) (sels : list sel) : bool :=
  match flatten g S frs r r sels with
  | Some fns => forallb (fun f => negb (String.eqb (fn_name f) "__typename") ||
                                  match fn_alias f with None => true | Some _ => false end) fns
  | None => false
  end.

Fixpoint sels_strict (fuel : nat) (C : cfg) (S : schema) (frs : list fragdef) (mx : list string)
         (nested : bool) (tn : string) (sels : list sel) : bool :=
  match fuel with
  | O => false
  | Datatypes.S g =>
      match flatten g S frs tn tn sels with
      | Some fns =>
          forallb (fun f =>
            field_strict C S nested tn f &&
            match fn_sub f, schema_field_type S tn (fn_name f) with
            | Some sub, Ok t => strict_sub (fun b sb => sels_ok g true C S frs mx true b b sb)
                                           (sels_strict g C S frs mx true) (una_ok g S frs) S (base_name t) sub
            | _, _ => true
            end) fns
      | None => false
      end
  end.

(* ------------------------------------------------------------------------------------------- *)
(* wrappers, converse direction *)
Section WrapRev.
  Variable W : ann -> json -> bool.
  Hypothesis W_opt : forall a j, W (AOpt a) j = is_null j || W a j.
  Hypothesis W_list : forall a j, W (AList a) j = match j with JArr l => forallb (W a) l | _ => false end.
  Variable leaf : string -> option ann.

  Lemma W_wrapP : forall t a j, wf_gtype t = true -> image_of leaf t = Some a ->
    (forall x, leaf (base_name t) = Some x -> W x JNull = false) ->
    W a j = true ->
    wrapP (fun j' => j' <> JNull /\ exists x, leaf (base_name t) = Some x /\ W x j' = true) t j.
  Proof.
    induction t as [n | t IH | t IH]; intros a j Hwf Hi Hnull Hw.
    - simpl in Hi. destruct (leaf n) as [x|] eqn:E; simpl in Hi; [| discriminate]. inversion Hi; subst.
      rewrite W_opt in Hw. simpl. destruct j; try (right; split; [discriminate | exists x; split; [exact E | exact Hw]]).
      left; reflexivity.
    - simpl in Hi. destruct (image_of leaf t) as [a'|] eqn:E; simpl in Hi; [| discriminate]. inversion Hi; subst.
      rewrite W_opt, W_list in Hw. simpl. destruct j; try discriminate Hw; [left; reflexivity|].
      right. exists l. split; [reflexivity|]. simpl in Hw. rewrite forallb_forall in Hw.
      apply Forall_forall. intros y Hy. apply (IH a' y Hwf eq_refl Hnull). apply Hw, Hy.
    - assert (Hwf' : wf_gtype t = true) by (simpl in Hwf; destruct t; auto; discriminate).
      assert (Hnn : is_nonnull t = false) by (destruct t; auto; simpl in Hwf; discriminate).
      simpl in Hi. destruct (image_of leaf t) as [a'|] eqn:E; simpl in Hi; [| discriminate]. inversion Hi; subst.
      destruct (image_opt leaf t a' Hnn E) as [x Hx]. subst a'. simpl in Hw. simpl.
      assert (Hj : j <> JNull).
      { intro Ej. subst j. destruct t as [n | t' | t']; try discriminate Hnn.
        - simpl in E. destruct (leaf n) as [y|] eqn:El; simpl in E; [| discriminate]. inversion E as [Exy].
          rewrite <- Exy in Hw. rewrite (Hnull y El) in Hw. discriminate.
        - simpl in E. destruct (image_of leaf t'); simpl in E; [| discriminate]. inversion E as [Exy].
          rewrite <- Exy in Hw. rewrite W_list in Hw. discriminate. }
      split; [exact Hj|]. apply (IH (AOpt x) j Hwf' eq_refl Hnull). rewrite W_opt, Hw. apply orb_true_r.
  Qed.
End WrapRev.

(* from obligations "for all sufficiently large fuel" at the named type to the wrapped type *)
Definition ev (P : nat -> bool) : Prop := exists n0, forall n, n >= n0 -> P n = true.

Lemma ev_and P Q : ev P -> ev Q -> ev (fun n => P n && Q n).
Proof.
  intros [a Ha] [b Hb]. exists (max a b). intros n Hn. rewrite Ha, Hb by lia. reflexivity.
Qed.

Lemma ev_forallb {X} (P : nat -> X -> bool) l : (forall x, In x l -> ev (fun n => P n x)) -> ev (fun n => forallb (P n) l).
Proof.
  induction l as [|x l IH]; intro H.
  - exists 0. reflexivity.
  - simpl. apply ev_and; [apply H; left; reflexivity | apply IH; intros y Hy; apply H; right; exact Hy].
Qed.

Lemma ev_const b : b = true -> ev (fun _ => b).
Proof. intro H. exists 0. intros; exact H. Qed.

Lemma ev_shift P : ev P -> ev (fun n => match n with O => false | Datatypes.S k => P k end).
Proof. intros [a Ha]. exists (Datatypes.S a). intros [|k] Hn; [lia | apply Ha; lia]. Qed.

Lemma wrapP_conf leafp eo so S frs scs : forall t j,
  wrapP (fun j' => j' <> JNull /\ ev (fun fc => conf_val_gen leafp eo so fc S frs (TNamed (base_name t)) scs j')) t j ->
  ev (fun fc => conf_val_gen leafp eo so fc S frs t scs j).
Proof.
  induction t as [n | t IH | t IH]; intros j H; simpl in H.
  - destruct H as [E | [_ H]]; [| exact H]. subst. exists 1. intros [|k] Hk; [lia | reflexivity].
  - destruct H as [E | [l [E Hf]]].
    + subst. exists 1. intros [|k] Hk; [lia | reflexivity].
    + subst. rewrite Forall_forall in Hf.
      assert (He : ev (fun k => forallb (conf_val_gen leafp eo so k S frs t scs) l)).
      { apply ev_forallb. intros x Hx. apply IH, Hf, Hx. }
      apply ev_shift in He. destruct He as [a Ha]. exists a. intros [|k] Hk; [specialize (Ha 0 Hk); discriminate|].
      specialize (Ha _ Hk). exact Ha.
  - destruct H as [Hn H]. apply IH in H. apply ev_shift in H. destruct H as [a Ha]. exists a.
    intros [|k] Hk; [specialize (Ha 0 Hk); discriminate|]. specialize (Ha _ Hk). simpl.
    destruct j; try exact Ha. congruence.
Qed.

(* ------------------------------------------------------------------------------------------- *)
(* lax conformance: conf_val with pydantic's lax leaf table, extra keys still forbidden          *)
Definition lconf (fc : nat) (S : schema) (frs : list fragdef) := conf_val_gen lax_leaf false true fc S frs.
Definition obj_lconf (fc : nat) (S : schema) (frs : list fragdef) (tn : string) (sels : list sel)
           (kv : list (string * json)) : bool :=
  conf_obj_gen false (lconf fc S frs) S tn (collect_scopes fc S frs tn [(false, sels)]) kv.

Lemma cond_ann_id leaf t img cond :
  (negb cond || negb (is_nonnull t)) = true -> image_of leaf t = Some img -> cond_ann false cond img = img.
Proof.
  unfold cond_ann. destruct cond; [| reflexivity]. simpl. intros Hn Hi. apply negb_true_iff in Hn.
  destruct (image_opt leaf t img Hn Hi) as [x Hx]. subst. reflexivity.
Qed.

(* the typename literals of the classes at an interface position *)
Lemma tv_interface_shape S base sub rel ifs fs :
  lookup_type S base = Some (DInterface ifs fs) ->
  map r_type rel = abs_names S base sub ->
  (forall t, t <> base -> typename_values S rel t = [t]) /\
  typename_values S rel base =
    base :: filter (fun p => negb (mem p (abs_names S base sub))) (dedup (possible_types S base)).
Proof.
  intros Hl Hrel.
  assert (Hhead : exists tl, abs_names S base sub = base :: tl).
  { unfold abs_names. rewrite Hl. destruct (inline_tcs sub); eauto. }
  destruct Hhead as [tl Hn].
  assert (Hfirst : find (fun n => match lookup_type S n with Some d => is_abstract d | None => false end)
                        (abs_names S base sub) = Some base) by (rewrite Hn; simpl; rewrite Hl; reflexivity).
  split.
  - intros t Ht. unfold typename_values. rewrite Hrel, Hfirst.
    rewrite (eqb_neq_false base t) by congruence. reflexivity.
  - unfold typename_values. rewrite Hrel, Hfirst, String.eqb_refl. reflexivity.
Qed.

Section LevelS.
  Variables (C : cfg) (S : schema) (frs : list fragdef).
  Variables (fuel' g : nat) (cs : list pclass).
  Variable W : ann -> json -> bool.
  (* ok / strict: the guards required of nested selection sets *)
  Variable ok : bool -> string -> string -> list sel -> bool.
  (* ok2: the same guard as computed inside the strictness guard (for the interface's own name) *)
  Variable ok2 : bool -> string -> string -> list sel -> bool.
  Variable strict : string -> list sel -> bool.
  Variable una : string -> list sel -> bool.
  Variable mx : list string.
  Variable harm : list string -> Prop.
  Hypothesis harm_mx : forall eb, forallb (fun b => mem b mx) eb = true -> harm eb.
  Hypothesis W_opt : forall a j, W (AOpt a) j = is_null j || W a j.
  Hypothesis W_list : forall a j, W (AList a) j = match j with JArr l => forallb (W a) l | _ => false end.
  Hypothesis W_scalar : forall n j, j <> JNull -> W (fst (scalar_ann C n false)) j = true ->
                                    lax_leaf S n DScalar j = true.
  Hypothesis W_scalar_null : forall n, configured C n = true -> W (fst (scalar_ann C n false)) JNull = false.
  Hypothesis W_enum : forall n vs j, lookup_type S n = Some (DEnum vs) -> W (AEnum n) j = true ->
                                     leaf_conf S n (DEnum vs) j = true.
  Hypothesis W_lit : forall vs v, W (ALit vs) v = true -> exists s, v = JStr s /\ In s vs.
  Hypothesis W_class_obj : forall c j, W (AClass c) j = true -> exists kv, j = JObj kv.
  (* union positions: the checker discriminates on __typename with the field table mro *)
  Variable mro : string -> option (list pfield).
  Hypothesis W_uni : forall alts j, W (AUnion alts) j = true ->
      exists kv s c, j = JObj kv /\ jlookup "__typename" kv = Some (JStr s) /\
                     union_pick mro alts s = Some (AClass c) /\ W (AClass c) j = true.
  Hypothesis mro_det : forall c eb fs, lookup_class cs (c_name c) = Some c -> c_name c <> "BaseModel" ->
      c_bases c = "BaseModel" :: eb -> harm eb -> mro (c_name c) = Some fs -> fs = c_fields c.
  Hypothesis fuel_pos : exists f2, fuel' = Datatypes.S f2.
  (* the class generated for r2 with typename literal tvs2: the runtime type is one of tvs2 *)
  Hypothesis W_class : forall pub cn2 r2 sels2 at2 eb2 tvs2 out2 pub2 kv, harm eb2 ->
      parse_type_def fuel' C S frs pub cn2 r2 sels2 at2 eb2 (Some tvs2) = Ok (out2, pub2, false) ->
      tvs2 <> [] ->
      (forall rt2, In rt2 tvs2 -> ok at2 rt2 r2 sels2 = true \/ ok2 at2 rt2 r2 sels2 = true) ->
      strict r2 sels2 = true ->
      (tvs2 = [r2] \/ (at2 = true /\ una r2 sels2 = true)) ->
      (at2 = true -> has_typename sels2 = true) ->
      table_ok cs out2 -> W (AClass cn2) (JObj kv) = true ->
      exists rt2, In rt2 tvs2 /\ ev (fun fc => obj_lconf fc S frs rt2 sels2 kv).

  Definition value_lconf (tvs : list string) (tn : string) (f : fnode) (v : json) : Prop :=
    if String.eqb (fn_name f) "__typename" then exists s, v = JStr s /\ In s tvs
    else exists ft, field_type_on S tn (fn_name f) = Some ft /\
                    ev (fun fc => lconf fc S frs ft (sub_scopes [node_of_fnode false f]) v).

  Definition sub_strict (tn : string) (f : fnode) : bool :=
    match fn_sub f, schema_field_type S tn (fn_name f) with
    | Some sub, Ok t => strict_sub (fun b sb => ok2 true b b sb) strict una S (base_name t) sub
    | _, _ => true
    end.

  Lemma field_value_rev cn rt tn tv tvs nested at_ f pf ctx pub0 exc pub1 v :
    field_ok ok g true S mx at_ rt tn f = true ->
    field_strict C S nested tn f = true -> sub_strict tn f = true ->
    tv = (if nested then Some tvs else None) -> tvs <> [] ->
    field_pf C S frs fuel' cn tn tv at_ f = Ok (pf, ctx) ->
    parse_subs (parse_type_def fuel' C S frs) S ctx f pub0 = Ok (exc, pub1, false) ->
    table_ok cs exc -> W (p_ann pf) v = true -> value_lconf tvs rt f v.
  Proof.
    intros Hok Hst Hss Htv Htvs Hpf Hsub Htab Hw.
    destruct (field_pf_inv _ _ _ _ _ _ _ _ _ _ _ Hpf) as [t [a0 [il [Ht [Ha Hpf']]]]]. subst pf.
    cbn [p_ann mk_pfield] in Hw.
    unfold field_ok in Hok. apply andb_true_iff in Hok as [Hmix Hok].
    pose proof (harm_mx _ Hmix) as Hharm. clear Hmix.
    unfold value_lconf. unfold field_strict in Hst.
    destruct (String.eqb (fn_name f) "__typename") eqn:Etn.
    - apply andb_true_iff in Hst as [Hnest Hnc]. apply negb_true_iff in Hnc.
      subst nested tv. destruct tvs as [|v0 vs]; [congruence|].
      unfold field_ann_lit in Ha. rewrite Etn in Ha. simpl in Ha. inversion Ha; subst.
      unfold cond_ann in Hw. rewrite Hnc in Hw.
      assert (Hw' : W (ALit (sort_strings (v0 :: vs))) v = true) by (destruct (true && at_); exact Hw).
      destruct (W_lit _ _ Hw') as [s [Es Hs]]. exists s. split; [exact Es | apply sort_strings_In, Hs].
    - assert (Hne : fn_name f <> "__typename") by (apply String.eqb_neq, Etn).
      rewrite Ht in Hok, Hst. apply andb_true_iff in Hok as [Hwf Hok]. apply andb_true_iff in Hwf as [Hwf Hagree].
      apply andb_true_iff in Hst as [Hcn Hcfg].
      assert (Hrt : schema_field_type S rt (fn_name f) = Ok t).
      { destruct (schema_field_type S rt (fn_name f)) as [t'|]; [| discriminate Hagree].
        apply gtype_eqb_eq in Hagree. congruence. }
      clear Hagree.
      exists t. split; [apply field_type_on_schema; auto|].
      set (sc := cn +++ pascal_s (py_field_name C (field_key f))) in *.
      assert (Ha' : exists r, field_type_ann C S frs fuel' (fn_sub f) t true sc false = Ok r /\
                              a0 = fst r /\ ctx = snd r /\ il = false).
      { unfold field_ann_lit in Ha. rewrite Etn in Ha.
        destruct tv as [[|v0 vs]|]; apply bind_ok in Ha; destruct Ha as [r [Hr Ha]];
          inversion Ha; subst; exists r; auto. }
      destruct Ha' as [r [Hr [E1 [E2 E3]]]]. subst a0 ctx il. clear Ha. cbn [andb] in Hw.
      destruct (field_type_ann_image C S frs fuel' (fn_sub f) sc t true r Hwf Hr) as [img [Himg [Hfst _]]].
      simpl in Hfst. rewrite Hfst in Hw. unfold image in Himg.
      rewrite (cond_ann_id _ t img _ Hcn Himg) in Hw.
      destruct (field_type_ann_ctx _ _ _ _ _ _ _ _ _ Hr) as [a1 Hctx].
      unfold sub_strict in Hss. rewrite Ht in Hss.
      apply wrapP_conf.
      assert (Hnull : forall x, leaf_ann C S frs fuel' (fn_sub f) sc (base_name t) = Some x -> W x JNull = false).
      { intros x Hleaf. unfold leaf_ann, named_ann in Hleaf.
        destruct (lookup_type S (base_name t)) as [[| vs | ifs fs | ifs fs | ms |]|] eqn:El;
          destruct (fn_sub f) as [sub|] eqn:Esub; try discriminate Hok; try discriminate Hcfg.
        - destruct (scalar_ann C (base_name t) false) as [sa sctx] eqn:Esc. inversion Hleaf; subst x.
          replace sa with (fst (scalar_ann C (base_name t) false)) by (rewrite Esc; reflexivity).
          apply W_scalar_null, Hcfg.
        - inversion Hleaf; subst x. destruct (W (AEnum (base_name t)) JNull) eqn:E; [| reflexivity].
          apply (W_enum _ vs) in E; [discriminate E | exact El].
        - unfold object_ann in Hleaf. simpl in Hleaf. inversion Hleaf; subst x.
          destruct (W (AClass sc) JNull) eqn:E; [| reflexivity].
          apply W_class_obj in E. destruct E as [kv E]. discriminate E.
        - (* interface *)
          destruct (interface_ann S frs fuel' (Some sub) (base_name t) false sc false) as [[xa xc]|] eqn:Ei;
            [| discriminate Hleaf].
          inversion Hleaf; subst x.
          destruct (W xa JNull) eqn:E; [| reflexivity].
          destruct (interface_ann_shape _ _ _ _ _ _ _ _ _ Ei) as [[c0 Ec] | [alts Ec]]; subst xa.
          + apply W_class_obj in E. destruct E as [kv E]. discriminate E.
          + apply W_uni in E. destruct E as [kv [s0 [c0 [E _]]]]. discriminate E.
        - (* union *)
          destruct (fold_left _ ms _) as [r1|] eqn:Efold; simpl in Hleaf; [| discriminate Hleaf].
          inversion Hleaf; subst x.
          destruct (W (AUnion (fst r1)) JNull) eqn:E; [| reflexivity].
          apply W_uni in E. destruct E as [kv [s0 [c0 [E _]]]]. discriminate E. }
      pose proof (W_wrapP W W_opt W_list _ t img v Hwf Himg Hnull Hw) as Hwrap.
      eapply wrapP_impl; [| exact Hwrap]. clear Hwrap.
      intros j' [Hnn [x [Hleaf Hwx]]]. split; [exact Hnn|].
      unfold leaf_ann in Hleaf. unfold named_ann in Hleaf, Hctx. unfold lconf.
      destruct (lookup_type S (base_name t)) as [[| vs | ifs fs | ifs fs | ms |]|] eqn:El;
        destruct (fn_sub f) as [sub|] eqn:Esub; try discriminate Hok; try discriminate Hcfg.
      + (* scalar *)
        destruct (scalar_ann C (base_name t) false) as [sa sctx] eqn:Esc. inversion Hleaf; subst x.
        replace sa with (fst (scalar_ann C (base_name t) false)) in Hwx by (rewrite Esc; reflexivity).
        apply W_scalar in Hwx; [| exact Hnn]. exists 1. intros [|k] Hk; [lia|].
        cbn [conf_val_gen]. rewrite El. destruct j'; try exact Hwx. congruence.
      + (* enum *)
        inversion Hleaf; subst x. apply (W_enum _ vs) in Hwx; [| exact El]. exists 1. intros [|k] Hk; [lia|].
        cbn [conf_val_gen]. rewrite El. unfold lax_leaf. rewrite orb_false_r. destruct j'; try exact Hwx. congruence.
      + (* object *)
        unfold object_ann in Hleaf, Hctx. simpl in Hleaf. inversion Hleaf; subst x; clear Hleaf.
        inversion Hctx as [[Ea Ec]]; clear Hctx.
        destruct (W_class_obj _ _ Hwx) as [kv' Ej]. subst j'.
        apply parse_subs_inv in Hsub. destruct Hsub as [[Hn _] | [sub' [Hs Hrun]]]; [congruence|].
        rewrite Esub in Hs. inversion Hs; subst sub'; clear Hs.
        rewrite <- Ec in Hrun. simpl in Hrun.
        inversion Hrun as [| rc rcs pb qc qp qs cls pb' sk Hq Hrest]; subst.
        inversion Hrest; subst. simpl in Hq.
        match goal with H : _ || _ = false |- _ => apply orb_false_elim in H as [Hqs _] end. subst qs.
        rewrite (typename_values_object S _ (base_name t)) in Hq;
          [| unfold is_object; rewrite El; reflexivity | reflexivity].
        unfold strict_sub in Hss. rewrite El in Hss.
        assert (He : ev (fun fc => obj_lconf fc S frs (base_name t) sub kv')).
        { edestruct (W_class pub0 sc (base_name t) sub false (fn_mixins f) [base_name t]) as [rt2 [Hin2 He2]];
            [exact Hharm | exact Hq | discriminate | | exact Hss | left; reflexivity | discriminate | | exact Hwx |].
          - intros rt2 [E | []]. subst rt2. left. exact Hok.
          - eapply table_ok_incl; [exact Htab|]. rewrite app_nil_r. apply incl_refl.
          - destruct Hin2 as [E | []]. subst rt2. exact He2. }
        apply ev_shift in He. destruct He as [a Ha]. exists a. intros [|k] Hk; [specialize (Ha 0 Hk); discriminate|].
        specialize (Ha _ Hk). cbn [conf_val_gen]. rewrite El.
        unfold sub_scopes. simpl. rewrite Esub. simpl. rewrite andb_false_r. exact Ha.
      + (* interface, every possible type with its own variant: the discriminator names the interface itself
           (F8) or a possible type, whose class validated the object *)
        set (base := base_name t) in *.
        destruct fuel_pos as [f2 Ef].
        unfold abs_ok in Hok.
        apply andb_true_iff in Hok as [Hok Hall]. apply andb_true_iff in Hok as [Hok Hun].
        apply andb_true_iff in Hok as [Hok Hnb]. apply andb_true_iff in Hok as [Hok Hsome].
        apply andb_true_iff in Hok as [Hok Hns]. apply andb_true_iff in Hok as [_ Hht].
        assert (Hna : named_ann C S frs fuel' (Some sub) base false sc false = Ok (x, snd r)).
        { unfold named_ann. rewrite El. rewrite Hctx in Hleaf. inversion Hleaf; subst a1. exact Hctx. }
        unfold strict_sub in Hss. rewrite El in Hss. fold base in Hss.
        apply andb_true_iff in Hss as [Hss Hsp]. apply andb_true_iff in Hss as [Hss Hsb].
        apply andb_true_iff in Hss as [Hss Hokb]. apply andb_true_iff in Hss as [Hnames_ok Hallv].
        set (names := abs_names S base sub) in *.
        pose proof Hna as Hna'. rewrite Ef in Hna'.
        apply parse_subs_inv in Hsub. destruct Hsub as [[Hn _] | [sub' [Hs Hrun]]]; [congruence|].
        rewrite Esub in Hs. inversion Hs; subst sub'; clear Hs.
        assert (Hcand : forall t0, t0 = base \/ In t0 (possible_types S base) ->
                                   In t0 (abs_candidates true S base)).
        { intros t0 H. unfold abs_candidates. rewrite El. simpl. destruct H; auto. }
        (* the class of a related type t0 validated the object => lax conformance for runtime type t0 *)
        assert (Hfin : forall kv' cn0 t0, In {| r_class := cn0; r_type := t0 |} (x_related (snd r)) ->
                  x_abstract (snd r) = true ->
                  map r_type (x_related (snd r)) = names ->
                  t0 = base \/ (In t0 (possible_types S base) /\ mem t0 names = true) ->
                  W (AClass cn0) (JObj kv') = true ->
                  ev (fun fc => conf_val_gen lax_leaf false true fc S frs (TNamed base)
                                             (sub_scopes [node_of_fnode false f]) (JObj kv'))).
        { intros kv' cn0 t0 Hrc Hab Hrel Ht0 Hwc.
          destruct (subs_run_each _ _ _ _ _ _ _ _ _ _ Hrun eq_refl _ Hrc) as [pa [qc [qp [Hq Hi]]]].
          simpl in Hq. rewrite Hab in Hq.
          destruct (tv_interface_shape S base sub (x_related (snd r)) ifs fs El Hrel) as [Hnonbase Hbase].
          fold names in Hbase.
          set (tvs0 := typename_values S (x_related (snd r)) t0) in *.
          assert (Hmem : forall s, In s tvs0 -> s = t0 \/ (t0 = base /\ In s (possible_types S base) /\
                                                           mem s names = false)).
          { intros s Hs. destruct (String.eqb t0 base) eqn:Eb.
            - apply String.eqb_eq in Eb. unfold tvs0 in Hs. rewrite Eb, Hbase in Hs.
              destruct Hs as [Hs | Hs]; [left; congruence | right].
              apply filter_In in Hs. destruct Hs as [Hs1 Hs2]. apply (proj1 (dedup_In _ _)) in Hs1.
              apply negb_true_iff in Hs2. split; [exact Eb | split; [exact Hs1 | exact Hs2]].
            - apply String.eqb_neq in Eb. unfold tvs0 in Hs. rewrite (Hnonbase t0 Eb) in Hs.
              destruct Hs as [Hs | []]. left. auto. }
          assert (Hstt : strict t0 sub = true).
          { destruct Ht0 as [E | [Hin _]]; [subst t0; exact Hsb|]. rewrite forallb_forall in Hsp. apply Hsp, Hin. }
          edestruct (W_class pa cn0 t0 sub true (fn_mixins f) tvs0) as [rt2 [Hin2 He]];
            [exact Hharm | exact Hq | | | exact Hstt | | intros _; exact Hht | eapply table_ok_incl; eauto | exact Hwc |].
          - unfold tvs0. destruct (String.eqb t0 base) eqn:Eb.
            + apply String.eqb_eq in Eb. rewrite Eb, Hbase. discriminate.
            + apply String.eqb_neq in Eb. rewrite (Hnonbase t0 Eb). discriminate.
          - intros rt2 Hr2. rewrite forallb_forall in Hall.
            destruct (Hmem rt2 Hr2) as [E | [E [Hp Hm]]].
            + subst rt2. destruct Ht0 as [E | [Hin Hm]]; [subst t0; right; exact Hokb | left].
              destruct (andb_prop _ _ (Hall t0 Hin)) as [_ Hv].
              fold names in Hv. unfold variant in Hv. rewrite Hm in Hv. exact Hv.
            + subst t0. left. destruct (andb_prop _ _ (Hall rt2 Hp)) as [_ Hv].
              fold names in Hv. unfold variant in Hv. rewrite Hm in Hv. exact Hv.
          - apply orb_true_iff in Hallv as [Hallv | Hun0].
            + left. eapply tv_interface_singleton; eauto.
            + destruct (String.eqb t0 base) eqn:Eb.
              * apply String.eqb_eq in Eb. subst t0. right. split; [reflexivity | exact Hun0].
              * apply String.eqb_neq in Eb. left. apply Hnonbase, Eb.
          - apply ev_shift in He. destruct He as [a Ha]. exists a.
            intros [|k] Hk; [specialize (Ha 0 Hk); discriminate|].
            specialize (Ha _ Hk). cbn [conf_val_gen]. rewrite El. apply existsb_exists. exists rt2.
            split.
            + apply Hcand. destruct (Hmem rt2 Hin2) as [E | [_ [Hp _]]]; [| right; exact Hp].
              subst rt2. destruct Ht0 as [E | [Hin _]]; auto.
            + unfold sub_scopes. simpl. rewrite Esub. simpl. rewrite andb_false_r. exact Ha. }
        destruct (named_ann_interface _ _ _ _ _ _ _ _ _ _ _ El (no_spread_top _ _ Hns) Hsome Hna')
          as [Hab [[Hi [Hx Hrl]] | [Hi [Hx Hrl]]]]; subst x.
        * (* no fragment: one class for the interface itself *)
          destruct (W_class_obj _ _ Hwx) as [kv' Ej]. subst j'.
          assert (En : names = [base]) by (unfold names, abs_names; rewrite El, Hi; reflexivity).
          eapply (Hfin kv' sc base); eauto.
          -- rewrite Hrl. left. reflexivity.
          -- rewrite Hrl, En. reflexivity.
        * destruct (W_uni _ _ Hwx) as [kv' [s0 [c0 [Ej [Hjl [Hpick Hwc]]]]]]. subst j'.
          unfold union_pick in Hpick. apply find_some in Hpick. destruct Hpick as [Hin Hpred].
          apply in_map_iff in Hin. destruct Hin as [t0 [Ec0 Ht0]]. inversion Ec0; subst c0. clear Ec0.
          fold names in Ht0, Hrl.
          assert (Hrc : In (rel_of sc t0) (x_related (snd r))) by (rewrite Hrl; apply in_map, Ht0).
          assert (Hrel0 : map r_type (x_related (snd r)) = names).
          { rewrite Hrl, map_map. simpl. apply map_id. }
          assert (Ht0' : t0 = base \/ (In t0 (possible_types S base) /\ mem t0 names = true)).
          { rewrite forallb_forall in Hnames_ok. specialize (Hnames_ok t0 Ht0).
            apply orb_true_iff in Hnames_ok as [E | E]; [left; apply String.eqb_eq, E | right].
            split; [apply mem_In, E | apply mem_In, Ht0]. }
          eapply (Hfin kv' (sc +++ t0) t0); eauto.
      + (* union: the discriminator names a member, whose class validated the object *)
        set (base := base_name t) in *.
        destruct fuel_pos as [f2 Ef].
        unfold abs_ok in Hok.
        apply andb_true_iff in Hok as [Hok Hall]. apply andb_true_iff in Hok as [Hok Hun].
        apply andb_true_iff in Hok as [Hok Hnb]. apply andb_true_iff in Hok as [Hok Hsome].
        apply andb_true_iff in Hok as [Hok Hns]. apply andb_true_iff in Hok as [_ Hht].
        rewrite El in Hun.
        assert (Hna : named_ann C S frs fuel' (Some sub) base false sc false = Ok (x, snd r)).
        { unfold named_ann. rewrite El. rewrite Hctx in Hleaf. inversion Hleaf; subst a1. exact Hctx. }
        destruct (named_ann_union _ _ _ _ _ _ _ _ _ _ El Hun Hna) as [Hab [Hx Hrel]]. subst x.
        destruct (W_uni _ _ Hwx) as [kv' [s0 [c0 [Ej [Hjl [Hpick Hwc]]]]]]. subst j'.
        apply parse_subs_inv in Hsub. destruct Hsub as [[Hn _] | [sub' [Hs Hrun]]]; [congruence|].
        rewrite Esub in Hs. inversion Hs; subst sub'; clear Hs.
        (* the picked alternative is the class of a member t0 whose literal contains s0 *)
        unfold union_pick in Hpick. apply find_some in Hpick. destruct Hpick as [Hin Hpred].
        apply in_map_iff in Hin. destruct Hin as [t0 [Ec0 Ht0]]. inversion Ec0; subst c0. clear Ec0.
        assert (Hrc : In (rel_of sc t0) (x_related (snd r))) by (rewrite Hrel; apply in_map, Ht0).
        destruct (subs_run_each _ _ _ _ _ _ _ _ _ _ Hrun eq_refl _ Hrc) as [pa [qc [qp [Hq Hi]]]].
        simpl in Hq. rewrite Hab in Hq.
        assert (Htv0 : typename_values S (x_related (snd r)) t0 = [t0]).
        { unfold typename_values. rewrite Hrel, map_map. simpl. rewrite map_id.
          assert (Hnone : find (fun n => match lookup_type S n with Some d => is_abstract d | None => false end) ms = None).
          { clear - Hun. induction ms as [|m ms IH]; simpl; [reflexivity|].
            simpl in Hun. apply andb_true_iff in Hun as [H1 H2]. unfold is_object in H1.
            destruct (lookup_type S m) as [[]|]; try discriminate H1. simpl. apply IH, H2. }
          rewrite Hnone. reflexivity. }
        rewrite Htv0 in Hq.
        pose proof Hq as Hq'. rewrite Ef in Hq'.
        destruct (variant_class_facts _ _ _ _ _ _ _ _ _ _ _ _ _ Hq' Hns) as [fields0 [pfl0 [extra0 [_ [_ [Eqc Hlit]]]]]].
        assert (Hcin : In {| c_name := sc +++ t0; c_bases := "BaseModel" :: fn_mixins f; c_fields := pfl0 |} exc)
          by (apply Hi; rewrite Eqc; left; reflexivity).
        destruct (Htab _ Hcin) as [Hlk Hnbm].
        destruct (mro (sc +++ t0)) as [fs|] eqn:Emro; [| discriminate Hpred].
        pose proof (mro_det _ _ fs Hlk Hnbm eq_refl Hharm Emro) as Efs. simpl in Efs. subst fs.
        unfold typename_literal in Hpred.
        destruct (find (fun f0 => String.eqb (p_name f0) "typename__") (last_wins pfl0)) as [f'|] eqn:Ef';
          [| discriminate Hpred].
        destruct (p_ann f') as [| | | | | | | | | | |vs] eqn:Ea; try discriminate Hpred.
        apply find_some in Ef'. destruct Ef' as [Hf' _]. apply last_wins_In in Hf'.
        rewrite (Hlit f' vs Hf' Ea) in Hpred. unfold mem in Hpred. simpl in Hpred. rewrite orb_false_r in Hpred.
        apply String.eqb_eq in Hpred. subst s0.
        (* the member's guards *)
        assert (Hposs : possible_types S base = ms) by (unfold possible_types; rewrite El; reflexivity).
        rewrite forallb_forall in Hall. rewrite Hposs in Hall. specialize (Hall t0 Ht0).
        apply andb_true_iff in Hall as [_ Hokt].
        assert (Hnames : abs_names S base sub = ms) by (unfold abs_names; rewrite El; reflexivity).
        rewrite Hnames in Hokt. unfold variant in Hokt. rewrite (proj2 (mem_In t0 ms) Ht0) in Hokt.
        unfold strict_sub in Hss. rewrite El in Hss. rewrite forallb_forall in Hss. specialize (Hss t0 Ht0).
        assert (He : ev (fun fc => obj_lconf fc S frs t0 sub kv')).
        { edestruct (W_class pa (sc +++ t0) t0 sub true (fn_mixins f) [t0]) as [rt2 [Hin2 He2]];
            [exact Hharm | exact Hq | discriminate | | exact Hss | left; reflexivity | intros _; exact Hht
             | eapply table_ok_incl; eauto | exact Hwc |].
          - intros rt2 [E | []]. subst rt2. left. exact Hokt.
          - destruct Hin2 as [E | []]. subst rt2. exact He2. }
        apply ev_shift in He. destruct He as [a Ha]. exists a. intros [|k] Hk; [specialize (Ha 0 Hk); discriminate|].
        specialize (Ha _ Hk). cbn [conf_val_gen]. rewrite El. apply existsb_exists. exists t0.
        split; [unfold abs_candidates; rewrite El; cbn [app]; rewrite Hposs; exact Ht0|].
        unfold sub_scopes. simpl. rewrite Esub. simpl. rewrite andb_false_r. exact Ha.
  Qed.

  Definition field_facts_rev (tvs : list string) (tn : string) (f : fnode) (pf : pfield) : Prop :=
    field_key_of pf = field_key f /\ p_name pf = py_field_name C (field_key f) /\
    (p_default_none pf = true -> fn_cond f = true) /\
    (forall s, p_alias pf = Some s -> String.eqb (p_name pf) (field_key f) = false) /\
    (forall v, W (p_ann pf) v = true -> value_lconf tvs tn f v).

  Lemma level_facts_rev cn rt tn tv tvs nested at_ fns pub pfl extra pub' :
    fields_run (parse_type_def fuel' C S frs) C S frs fuel' cn tn tv at_ fns pub pfl extra pub' false ->
    forallb (field_ok ok g true S mx at_ rt tn) fns = true ->
    forallb (fun f => field_strict C S nested tn f && sub_strict tn f) fns = true ->
    tv = (if nested then Some tvs else None) -> tvs <> [] -> table_ok cs extra ->
    Forall2 (field_facts_rev tvs rt) fns pfl.
  Proof.
    intros Hrun Hok Hst Htv Htvs Htab.
    eapply fields_run_Forall; [exact Hrun|].
    intros f pf ctx exc pub0 pub1 Hin Hpf Hsub Hincl.
    rewrite forallb_forall in Hok, Hst. specialize (Hok f Hin). specialize (Hst f Hin).
    apply andb_true_iff in Hst as [Hst Hss].
    assert (Hval : forall v, W (p_ann pf) v = true -> value_lconf tvs rt f v).
    { intros v Hv. eapply field_value_rev; eauto. eapply table_ok_incl; eauto. }
    destruct (field_pf_inv _ _ _ _ _ _ _ _ _ _ _ Hpf) as [t [a0 [il [Ht [Ha Hpf']]]]].
    split; [subst pf; apply mk_pfield_key|]. split; [subst pf; reflexivity|].
    split; [| split; [| exact Hval]].
    - subst pf. cbn [p_default_none mk_pfield]. intro H. apply andb_true_iff in H as [_ H]. exact H.
    - subst pf. cbn [p_alias p_name mk_pfield]. intros s.
      destruct (String.eqb (py_field_name C (field_key f)) (field_key f)); [discriminate | reflexivity].
  Qed.
End LevelS.

Lemma forallb_andb {X} (p q : X -> bool) l : forallb p l && forallb q l = forallb (fun x => p x && q x) l.
Proof.
  induction l as [|x l IH]; simpl; [reflexivity|]. rewrite <- IH.
  destruct (p x), (q x), (forallb p l), (forallb q l); reflexivity.
Qed.

(* one class, converse direction *)
Lemma level_strict C S frs tvs tn Wa Wc kv fns pfl :
  Forall2 (field_facts_rev C S frs (fun a j => Wa a j && Wc a j) tvs tn) fns pfl ->
  (forall f s, In f fns -> fn_name f = "__typename" -> jlookup (field_key f) kv = Some (JStr s) ->
               In s tvs -> s = tn) ->
  keys_ok C (map field_key fns) = true ->
  NoDup (map (fun f => py_field_name C (field_key f)) fns) ->
  class_accepts Wa (Some pfl) (JObj kv) = true -> class_covers Wc (Some pfl) (JObj kv) = true ->
  (forall p, In p kv -> In (fst p) (map field_key fns)) /\
  (forall f, In f fns -> ev (fun fc => key_spec (lconf fc S frs) S tn kv f)).
Proof.
  intros H Hty Hkeys Hnn Ha Hc.
  assert (Hnk : NoDup (map field_key fns)) by (eapply keys_ok_nodup; eauto).
  assert (Ek : map field_key_of pfl = map field_key fns).
  { eapply Forall2_map_eq; [exact H|]. intros x y [E _]. exact E. }
  assert (En : map p_name pfl = map (fun f => py_field_name C (field_key f)) fns).
  { eapply Forall2_map_eq; [exact H|]. intros x y [_ [E _]]. exact E. }
  rewrite class_accepts_check in Ha. unfold class_covers in Hc.
  rewrite last_wins_nodup in Ha, Hc by (rewrite En; exact Hnn).
  rewrite forallb_forall in Ha, Hc.
  assert (Hkv : forall p, In p kv -> In (fst p) (map field_key fns)).
  { intros p Hp. specialize (Hc p Hp).
    destruct (find (fun f => String.eqb (field_key_of f) (fst p)) pfl) as [pf|] eqn:Ef; [| discriminate].
    apply find_some in Ef. destruct Ef as [Hin He]. apply String.eqb_eq in He.
    rewrite <- Ek, <- He. apply in_map, Hin. }
  split; [exact Hkv|].
  intros f Hf. destruct (Forall2_In_l _ _ _ _ H Hf) as [pf [Hpf [Hk [Hn [Hd [Hal0 Hv]]]]]].
  specialize (Ha pf Hpf). unfold field_check in Ha. rewrite Hk in Ha.
  unfold key_spec. destruct (jlookup (field_key f) kv) as [v|] eqn:Ev.
  - assert (Hcv : Wc (p_ann pf) v = true).
    { apply jlookup_In in Ev. specialize (Hc _ Ev). cbn [fst snd] in Hc.
      rewrite <- Hk in Hc. rewrite find_key_nodup in Hc; [exact Hc | rewrite Ek; exact Hnk | exact Hpf]. }
    assert (Hw : Wa (p_ann pf) v && Wc (p_ann pf) v = true) by (rewrite Ha, Hcv; reflexivity).
    apply Hv in Hw. unfold value_lconf in Hw.
    destruct (String.eqb (fn_name f) "__typename") eqn:Etn.
    + destruct Hw as [s [Es Hs]]. subst v. apply ev_const.
      rewrite (Hty f s Hf (proj1 (String.eqb_eq _ _) Etn) Ev Hs). apply String.eqb_refl.
    + destruct Hw as [ft [Hft He]]. rewrite Hft. exact He.
  - apply ev_const. apply Hd.
    assert (Hal : match p_alias pf with Some _ => jlookup (p_name pf) kv | None => None end = None).
    { destruct (p_alias pf) eqn:Eal; [| reflexivity].
      apply jlookup_None_notin. intro Hm. apply in_map_iff in Hm. destruct Hm as [p [Hp1 Hp2]].
      apply Hkv in Hp2. rewrite Hp1, Hn in Hp2.
      unfold keys_ok in Hkeys. apply andb_true_iff in Hkeys as [_ Hkeys].
      rewrite forallb_forall in Hkeys. specialize (Hkeys (field_key f) (in_map field_key _ _ Hf)).
      apply orb_true_iff in Hkeys as [Hkeys | Hkeys].
      - rewrite <- Hn in Hkeys. rewrite (Hal0 _ eq_refl) in Hkeys. discriminate.
      - apply negb_true_iff, mem_false_In in Hkeys. contradiction. }
    rewrite Hal in Ha. exact Ha.
Qed.

Lemma class_accepts_none rec j : class_accepts rec None j = false.
Proof. destruct j; reflexivity. Qed.

Lemma mro_one cs n c eb :
  lookup_class cs n = Some c -> c_bases c = "BaseModel" :: eb -> n <> "BaseModel" -> mro_fields 1 cs n = None.
Proof.
  intros Hl Hb Hn. cbn [mro_fields]. rewrite (eqb_neq_false _ _ Hn), Hl, Hb. cbn [fold_left].
  generalize eb. induction eb0 as [|b l IH]; [reflexivity | exact IH].
Qed.

Lemma mro_some_harmless cs n c eb j fs :
  lookup_class cs n = Some c -> n <> "BaseModel" -> c_bases c = "BaseModel" :: eb -> harmless cs eb ->
  mro_fields j cs n = Some fs -> fs = c_fields c.
Proof.
  intros Hl Hn Hb Hh H. destruct j as [|[|j]]; [discriminate H | |].
  - rewrite (mro_one cs n c eb Hl Hb Hn) in H. discriminate H.
  - rewrite (mro_harmless cs n c j eb Hl Hb Hn Hh) in H. inversion H. reflexivity.
Qed.

Lemma acc_cov_union cs enums n1 alts j :
  accepts (Datatypes.S n1) cs enums (AUnion alts) j && covers (Datatypes.S n1) cs (AUnion alts) j = true ->
  exists kv s c, j = JObj kv /\ jlookup "__typename" kv = Some (JStr s) /\
                 union_pick (mro_fields n1 cs) alts s = Some (AClass c) /\
                 accepts (Datatypes.S n1) cs enums (AClass c) j && covers (Datatypes.S n1) cs (AClass c) j = true.
Proof.
  intro H. apply andb_true_iff in H as [Ha Hc]. simpl in Ha, Hc.
  destruct j as [| | | | | |kv]; try discriminate Ha.
  destruct (jlookup "__typename" kv) as [[| | | |s| |]|] eqn:Ej; try discriminate Ha.
  destruct (union_pick (mro_fields n1 cs) alts s) as [[| | | | | | |c| | | |]|] eqn:Ep; try discriminate Ha.
  exists kv, s, c. repeat split; auto.
  change (class_accepts (accepts n1 cs enums) (mro_fields n1 cs c) (JObj kv)
          && class_covers (covers n1 cs) (mro_fields n1 cs c) (JObj kv) = true).
  rewrite Ha, Hc. reflexivity.
Qed.

Lemma flatten_root_det S frs rt1 rt2 r sels g1 g2 a b :
  flatten g1 S frs rt1 r sels = Some a -> flatten g2 S frs rt2 r sels = Some b -> a = b.
Proof.
  intros H1 H2.
  destruct (flatten_both_ex S frs rt1 _ _ _ _ H1 (max g1 g2) (Nat.le_max_l _ _)) as [R1 _].
  destruct (flatten_both_ex S frs rt2 _ _ _ _ H2 (max g1 g2) (Nat.le_max_r _ _)) as [R2 _].
  rewrite R1 in R2. inversion R2. reflexivity.
Qed.

(* the runtime type a validated object is checked against: the value under __typename if the class's
   literal lists it, else the first listed name *)
Definition pick_rt (tvs : list string) (r : string) (kv : list (string * json)) : string :=
  match jlookup "__typename" kv with
  | Some (JStr s) => if mem s tvs then s else hd r tvs
  | _ => hd r tvs
  end.

Lemma pick_rt_In tvs r kv : tvs <> [] -> In (pick_rt tvs r kv) tvs.
Proof.
  intro H. assert (Hh : In (hd r tvs) tvs) by (destruct tvs; [congruence | left; reflexivity]).
  unfold pick_rt. destruct (jlookup "__typename" kv) as [[| | | |s| |]|]; try exact Hh.
  destruct (mem s tvs) eqn:E; [apply mem_In, E | exact Hh].
Qed.

(* one generated class whose typename literal lists tvs (tvs = [r] except for the base class at an
   interface position): the validated object is lax-conformant for one runtime type of tvs *)
Theorem obj_strict_gen C S frs mx : forall fuel gs nested pub cn r sels at_ eb tv tvs out pub' cs kv n,
  parse_type_def fuel C S frs pub cn r sels at_ eb tv = Ok (out, pub', false) ->
  tvs <> [] ->
  (forall rt, In rt tvs -> exists g, sels_ok g true C S frs mx at_ rt r sels = true) ->
  sels_strict gs C S frs mx nested r sels = true ->
  (tvs = [r] \/ (at_ = true /\ exists gu, una_ok gu S frs r sels = true)) ->
  (at_ = true -> has_typename sels = true) ->
  tv = (if nested then Some tvs else None) -> table_ok cs out ->
  mx_ok cs mx = true -> harmless cs eb ->
  accepts n cs (schema_enums S) (AClass cn) (JObj kv) = true ->
  covers n cs (AClass cn) (JObj kv) = true ->
  exists rt, In rt tvs /\ ev (fun fc => obj_lconf fc S frs rt sels kv).
Proof.
  induction fuel as [|fuel IH];
    intros gs nested pub cn r sels at_ eb tv tvs out pub' cs kv n Hp Hne Hoks Hst Hdisj Hat Htv Htab Hmx Heb Hacc Hcov;
    [discriminate Hp|].
  set (rt := pick_rt tvs r kv).
  assert (Hrt : In rt tvs) by (apply pick_rt_In, Hne).
  exists rt. split; [exact Hrt|].
  destruct (Hoks rt Hrt) as [g Hok].
  destruct (level_inv _ _ _ _ _ _ _ _ _ _ _ _ _ _ _ _ _ Hp Hok Hat) as [f2 [g' [fns [pfl [extra [Ef [Eg [Hfl [Hrun Hout]]]]]]]]].
  destruct (sels_ok_inv _ _ _ _ _ _ _ _ _ _ Hok) as [g'' [fns' [Eg' [Hfl' [Hkeys [Hnames Hfields]]]]]].
  rewrite Eg in Eg'. inversion Eg'; subst g''. clear Eg'. specialize (Hnames eq_refl).
  rewrite Hfl in Hfl'. inversion Hfl'; subst fns'. clear Hfl'.
  destruct gs as [|gs']; [discriminate Hst|]. cbn [sels_strict] in Hst.
  destruct (flatten gs' S frs r r sels) as [fns2|] eqn:Hfl2; [| discriminate Hst].
  rewrite (flatten_root_det _ _ _ _ _ _ _ _ _ _ Hfl2 Hfl) in Hst. clear Hfl2 fns2.
  assert (Hc0 : In {| c_name := cn; c_bases := "BaseModel" :: eb; c_fields := pfl |} out)
    by (rewrite Hout; left; reflexivity).
  destruct (Htab _ Hc0) as [Hl Hnb]. simpl in Hl, Hnb.
  destruct n as [|n']; [discriminate Hacc|].
  change (class_accepts (accepts n' cs (schema_enums S)) (mro_fields n' cs cn) (JObj kv) = true) in Hacc.
  change (class_covers (covers n' cs) (mro_fields n' cs cn) (JObj kv) = true) in Hcov.
  destruct n' as [|[|n2]].
  - simpl in Hacc. discriminate Hacc.
  - rewrite (mro_one cs cn _ eb Hl eq_refl Hnb), class_accepts_none in Hacc. discriminate Hacc.
  - rewrite (mro_harmless cs cn _ n2 eb Hl eq_refl Hnb Heb) in Hacc, Hcov. simpl c_fields in Hacc, Hcov.
    set (n1 := Datatypes.S n2) in *.
    set (Wa := accepts (Datatypes.S n1) cs (schema_enums S)) in *.
    set (Wc := covers (Datatypes.S n1) cs) in *.
    assert (HF : Forall2 (field_facts_rev C S frs (fun a j => Wa a j && Wc a j) tvs rt) fns pfl).
    { eapply level_facts_rev with (W := fun a j => Wa a j && Wc a j) (mro := mro_fields n1 cs)
                                  (ok := sels_ok g' true C S frs mx) (ok2 := sels_ok gs' true C S frs mx)
                                  (strict := sels_strict gs' C S frs mx true) (una := una_ok gs' S frs)
                                  (mx := mx) (harm := harmless cs)
                                  (fuel' := fuel) (g := g') (cs := cs); try eassumption.
      - intros eb0. apply mx_ok_harmless, Hmx.
      - intros a j. unfold Wa, Wc. simpl. destruct (is_null j); reflexivity.
      - intros a j. unfold Wa, Wc. simpl. destruct j; try reflexivity. apply forallb_andb.
      - intros m j Hnn H. apply andb_true_iff in H as [H _]. unfold Wa in H. cbn [accepts] in H.
        rewrite (scalar_leaf_exact C S) in H by exact Hnn. exact H.
      - intros m Hm. unfold Wa. cbn [accepts]. rewrite scalar_rejects_null by exact Hm. reflexivity.
      - intros m vs j Hm H. apply andb_true_iff in H as [H _]. unfold Wa in H. cbn [accepts] in H.
        rewrite (enum_leaf_exact S _ m vs j Hm) in H. exact H.
      - intros vs v H. apply andb_true_iff in H as [H _]. unfold Wa in H. simpl in H.
        destruct v; try discriminate H. eexists. split; [reflexivity | apply mem_In, H].
      - intros c j H. apply andb_true_iff in H as [H _]. unfold Wa in H. simpl in H.
        destruct j; try discriminate H. eauto.
      - intros alts j H. unfold Wa, Wc in *. apply acc_cov_union, H.
      - intros c eb0 fs Hlc Hnc Hbc Hh Hm. eapply mro_some_harmless; eauto.
      - eauto.
      - intros pb cn2 r2 sels2 at2 eb2 tvs2 out2 pub2 kv2 P0 P1 Pne P2 P3 Pd P3' P4 P5.
        apply andb_true_iff in P5 as [P5 P6].
        eapply (IH gs' true pb cn2 r2 sels2 at2 eb2 (Some tvs2) tvs2); eauto.
        + intros rt2 Hr2. destruct (P2 rt2 Hr2) as [Q | Q]; eauto.
        + destruct Pd as [Pd | [Pd1 Pd2]]; [left; exact Pd | right; eauto].
      - eapply table_ok_incl; [exact Htab|]. rewrite Hout. apply incl_tl, incl_refl. }
    assert (Hty : forall f s, In f fns -> fn_name f = "__typename" ->
                              jlookup (field_key f) kv = Some (JStr s) -> In s tvs -> s = rt).
    { intros f s Hf Hn Hj Hs. destruct Hdisj as [E | [_ [gu Hu]]].
      - rewrite E in Hs, Hrt. destruct Hs as [Hs | []]. destruct Hrt as [Hr | []]. congruence.
      - unfold una_ok in Hu. destruct (flatten gu S frs r r sels) as [fnsu|] eqn:Hflu; [| discriminate Hu].
        rewrite (flatten_root_det _ _ _ _ _ _ _ _ _ _ Hflu Hfl) in Hu. rewrite forallb_forall in Hu.
        specialize (Hu f Hf). rewrite Hn in Hu. simpl in Hu.
        assert (Ek : field_key f = "__typename").
        { unfold field_key. destruct (fn_alias f); [discriminate Hu | exact Hn]. }
        rewrite Ek in Hj. unfold rt, pick_rt. rewrite Hj, (proj2 (mem_In s tvs) Hs). reflexivity. }
    destruct (level_strict C S frs tvs rt Wa Wc kv _ _ HF Hty Hkeys Hnames Hacc Hcov) as [Hkv Hspec].
    pose proof (ev_forallb (fun fc f => key_spec (lconf fc S frs) S rt kv f) _ Hspec) as [a Ha].
    exists (max a g'). intros fc Hk.
    unfold obj_lconf. rewrite (collect_scopes_flat_ex _ _ _ _ _ _ _ _ Hfl) by lia.
    rewrite conf_obj_flat by (eapply keys_ok_nodup; eauto).
    simpl orb. apply andb_true_iff. split.
    + apply forallb_forall. intros p Hp'. apply mem_In, Hkv, Hp'.
    + apply Ha. lia.
Qed.

Theorem obj_strict C S frs mx : forall fuel g gs nested pub cn tn sels at_ eb tv out pub' cs kv n,
  parse_type_def fuel C S frs pub cn tn sels at_ eb tv = Ok (out, pub', false) ->
  sels_ok g true C S frs mx at_ tn tn sels = true -> sels_strict gs C S frs mx nested tn sels = true ->
  (at_ = true -> has_typename sels = true) ->
  tv = (if nested then Some [tn] else None) -> table_ok cs out ->
  mx_ok cs mx = true -> harmless cs eb ->
  accepts n cs (schema_enums S) (AClass cn) (JObj kv) = true ->
  covers n cs (AClass cn) (JObj kv) = true ->
  ev (fun fc => obj_lconf fc S frs tn sels kv).
Proof.
  intros fuel g gs nested pub cn tn sels at_ eb tv out pub' cs kv n Hp Hok Hst Hat Htv Htab Hmx Heb Hacc Hcov.
  destruct (obj_strict_gen C S frs mx fuel gs nested pub cn tn sels at_ eb tv [tn] out pub' cs kv n)
    as [rt [[E | []] He]]; auto; [discriminate | | subst rt; exact He].
  intros rt [E | []]. subst rt. eauto.
Qed.

(* ------------------------------------------------------------------------------------------- *)
(* Operation level                                                                              *)
Theorem op_strict C S frs fuel kind name mixins sels root own pub' cls g gs mx j n :
  root_type_name S kind = Ok root ->
  op_parse fuel C S frs kind name mixins sels = Ok (own, pub', false) ->
  all_classes fuel C S frs (DOp kind name mixins sels) = Ok cls ->
  op_ok g true C S frs mx mixins root sels = true -> sels_strict gs C S frs mx false root sels = true ->
  mx_ok cls mx = true -> no_basemodel own = true ->
  accepts n cls (schema_enums S) (AClass (pascal_s name)) j = true ->
  covers n cls (AClass (pascal_s name)) j = true ->
  ev (fun fc => conf_op_gen lax_leaf false true fc S frs root sels j).
Proof.
  intros Hroot Hop Hall Hok Hst Hmx Hnb Hacc Hcov.
  pose proof (op_table _ _ _ _ _ _ _ _ _ _ _ Hop Hall Hnb) as Htab.
  unfold op_ok in Hok. apply andb_true_iff in Hok as [Hobj Hsels]. apply andb_true_iff in Hobj as [Hobj Hmix].
  pose proof (mx_ok_harmless _ _ _ Hmx Hmix) as Hharm.
  assert (Hj : exists kv, j = JObj kv).
  { destruct n as [|n']; [discriminate Hacc|]. simpl in Hacc. destruct j; try discriminate Hacc. eauto. }
  destruct Hj as [kv Ej]. subst j.
  unfold op_parse in Hop. rewrite Hroot in Hop. simpl in Hop.
  assert (He : ev (fun fc => obj_lconf fc S frs root sels kv))
    by (eapply (obj_strict C S frs mx fuel g gs false [] (pascal_s name) root sels false mixins); eauto; discriminate).
  destruct He as [a Ha]. exists (Datatypes.S (Datatypes.S a)). intros [|[|k]] Hk; try lia.
  unfold conf_op_gen. cbn [conf_val_gen]. unfold is_object in Hobj.
  destruct (lookup_type S root) as [[]|]; try discriminate Hobj. apply Ha. lia.
Qed.

Corollary op_strict_rejects C S frs fuel kind name mixins sels root own pub' cls g gs mx j n :
  root_type_name S kind = Ok root ->
  op_parse fuel C S frs kind name mixins sels = Ok (own, pub', false) ->
  all_classes fuel C S frs (DOp kind name mixins sels) = Ok cls ->
  op_ok g true C S frs mx mixins root sels = true -> sels_strict gs C S frs mx false root sels = true ->
  mx_ok cls mx = true -> no_basemodel own = true ->
  (forall fc, conf_op_gen lax_leaf false true fc S frs root sels j = false) ->
  covers n cls (AClass (pascal_s name)) j = true ->
  accepts n cls (schema_enums S) (AClass (pascal_s name)) j = false.
Proof.
  intros Hroot Hop Hall Hok Hst Hmx Hnb Hnc Hcov.
  destruct (accepts n cls (schema_enums S) (AClass (pascal_s name)) j) eqn:E; [| reflexivity].
  destruct (op_strict _ _ _ _ _ _ _ _ _ _ _ _ _ _ _ _ _ Hroot Hop Hall Hok Hst Hmx Hnb E Hcov) as [a Ha].
  specialize (Ha a (le_n a)). rewrite Hnc in Ha. discriminate Ha.
Qed.

(* the lax table is exact: on non-null values the scalar annotation accepts exactly lax_leaf *)
Lemma lax_leaf_unfold S n d j :
  lax_leaf S n d j = leaf_conf S n d j || match d with DScalar => lax_exception n j | _ => false end.
Proof. reflexivity. Qed.

(* strict conformance implies lax conformance (the lax relation only adds leaf values) *)
Lemma lax_leaf_weaker S n d j : leaf_conf S n d j = true -> lax_leaf S n d j = true.
Proof. intro H. unfold lax_leaf. rewrite H. reflexivity. Qed.

Lemma conf_key_mono rec1 rec2 S rt nodes kv k :
  (forall t scs j, rec1 t scs j = true -> rec2 t scs j = true) ->
  conf_key rec1 S rt nodes kv k = true -> conf_key rec2 S rt nodes kv k = true.
Proof.
  intros Hm. unfold conf_key. destruct (jlookup k kv); [| auto].
  destruct (filter _ nodes) as [|n0 r]; [auto|].
  destruct (String.eqb (n_name n0) "__typename"); [auto|].
  destruct (field_type_on S rt (n_name n0)); [apply Hm | auto].
Qed.

Lemma conf_obj_gen_mono eo rec1 rec2 S rt nodes kv :
  (forall t scs j, rec1 t scs j = true -> rec2 t scs j = true) ->
  conf_obj_gen eo rec1 S rt nodes kv = true -> conf_obj_gen eo rec2 S rt nodes kv = true.
Proof.
  intros Hm. unfold conf_obj_gen. destruct nodes as [nodes|]; [| auto]. intro H.
  apply andb_true_iff in H as [H1 H2]. rewrite H1. simpl. rewrite forallb_forall in *.
  intros k Hk. eapply conf_key_mono; eauto.
Qed.

(* every conformant response is lax-conformant *)
Lemma abs_candidates_incl so S n : incl (possible_types S n) (abs_candidates so S n).
Proof. unfold abs_candidates. destruct so; [apply incl_appr|]; apply incl_refl. Qed.

Lemma conf_val_gen_leaf_mono leafp1 leafp2 eo so S frs :
  (forall n d j, leafp1 S n d j = true -> leafp2 S n d j = true) ->
  forall fuel t scs j, conf_val_gen leafp1 eo false fuel S frs t scs j = true ->
                       conf_val_gen leafp2 eo so fuel S frs t scs j = true.
Proof.
  intro Hl. induction fuel as [|fuel IH]; intros t scs j H; [discriminate H|].
  cbn [conf_val_gen] in *. destruct t as [n | t' | t'].
  - destruct j; try exact H;
      (destruct (lookup_type S n) as [[| vs | ifs fs | ifs fs | ms |]|]; try exact H; try (apply Hl; exact H));
      try (eapply conf_obj_gen_mono; [| exact H]; exact IH);
      try (rewrite existsb_exists in *; destruct H as [rt [Hr1 Hr2]]; exists rt;
           split; [apply abs_candidates_incl; exact Hr1|];
           eapply conf_obj_gen_mono; [| exact Hr2]; exact IH).
  - destruct j; try exact H. rewrite forallb_forall in *. intros x Hx. apply IH, H, Hx.
  - destruct j; try exact H; apply IH, H.
Qed.

Corollary conf_op_lax fc S frs root sels j :
  conf_op fc S frs root sels j = true -> conf_op_gen lax_leaf false true fc S frs root sels j = true.
Proof.
  unfold conf_op, conf_op_gen. destruct j; auto;
    apply conf_val_gen_leaf_mono; intros; apply lax_leaf_weaker; assumption.
Qed.
