(* C10: the fuel of Model/Nondet.v [frag_module_order] is never what decides: on well-formed inputs (fragment
   names distinct, every mixin a defined fragment) the worklist and the DFS finish within [frag_fuel]. *)
From Coq Require Import List String Ascii Bool Arith Lia Permutation.
From AC Require Import Base.Strs Base.Sexp Base.SortUniq Model.Names Model.Settings Model.Nondet
  Proofs.NondetP Proofs.NondetDfs.
Import ListNotations.
Local Open Scope string_scope.
Local Open Scope list_scope.

Definition wf_finput (fi : finput) : Prop :=
  NoDup (fi_defs fi) /\ forall n d, In d (mix_of fi n) -> In d (fi_defs fi).

(* ---------------------------------------------------------------- list facts *)
Lemma NoDup_filter {A} (f : A -> bool) l : NoDup l -> NoDup (filter f l).
Proof.
  induction l as [|x r IH]; simpl; intro N; [constructor|]. inversion N; subst.
  destruct (f x); auto. constructor; auto. intro H. apply filter_In in H. tauto.
Qed.

Lemma NoDup_dedupe_first l : forall seen, NoDup (dedupe_first seen l).
Proof.
  induction l as [|x r IH]; intro seen; simpl; [constructor|].
  destruct (mem_s x seen) eqn:E; auto. constructor; auto.
  intro H. apply In_dedupe_first in H. destruct H as [_ H]. apply H. left. reflexivity.
Qed.

Lemma NoDup_app_intro {A} (a b : list A) :
  NoDup a -> NoDup b -> (forall x, In x a -> ~ In x b) -> NoDup (a ++ b).
Proof.
  induction a as [|x r IH]; simpl; intros Na Nb D; auto.
  inversion Na; subst. constructor.
  - intro H. apply in_app_or in H. destruct H; [contradiction|]. apply (D x); auto.
  - apply IH; auto.
Qed.

Lemma NoDup_app_parts {A} (a b : list A) : NoDup (a ++ b) ->
  NoDup a /\ NoDup b /\ (forall x, In x a -> ~ In x b).
Proof.
  induction a as [|x r IH]; simpl; intro N.
  - repeat split; auto. constructor.
  - inversion N; subst. destruct (IH H2) as [Na [Nb D]]. repeat split; auto.
    + constructor; auto. intro H. apply H1. apply in_or_app. auto.
    + intros y [<-|Hy] Hb; [apply H1; apply in_or_app; auto | apply (D y); auto].
Qed.

(* ---------------------------------------------------------------- the worklist *)
Definition winv2 (fi : finput) (queue names processed : list string) : Prop :=
  NoDup (processed ++ queue) /\ incl (processed ++ queue) (fi_defs fi) /\
  (forall x, In x names <-> In x (processed ++ queue)).

Lemma work_finishes fi (W : wf_finput fi) o : forall fuel queue names processed,
  winv2 fi queue names processed ->
  List.length (fi_defs fi) < fuel + List.length processed ->
  exists names' processed', work fuel o fi queue names processed = Some (names', processed') /\
    NoDup processed' /\ incl processed' (fi_defs fi) /\ (forall x, In x names' <-> In x processed').
Proof.
  destruct W as [Wn Wm].
  induction fuel as [|f IH]; intros queue names processed [N [I S]] L.
  - destruct queue as [|n q].
    + simpl. exists names, processed. rewrite app_nil_r in *. repeat split; auto; apply S.
    + exfalso. pose proof (NoDup_incl_length N I) as H. rewrite app_length in H. simpl in *. lia.
  - destruct queue as [|n q].
    + simpl. exists names, processed. rewrite app_nil_r in *. repeat split; auto; apply S.
    + cbn [work].
      set (fresh := set_diff (dedupe_first [] (str_sort (deps_iter o fi n))) names).
      assert (Nf : NoDup fresh) by (apply NoDup_filter, NoDup_dedupe_first).
      assert (Ff : forall x, In x fresh -> ~ In x names /\ In x (fi_defs fi)).
      { intros x Hx. apply In_set_diff in Hx. destruct Hx as [Hx Hn]. split; auto.
        apply In_dedupe_first in Hx. destruct Hx as [Hx _]. apply In_str_sort, In_deps_iter in Hx.
        eapply Wm; eauto. }
      apply IH.
      * split; [|split].
        -- (* NoDup ((processed ++ [n]) ++ q ++ fresh) *)
           rewrite <- app_assoc. simpl.
           assert (N' : NoDup ((processed ++ n :: q) ++ fresh)).
           { apply NoDup_app_intro; auto. intros x Hx Hf. destruct (Ff x Hf) as [Hn _]. apply Hn, S, Hx. }
           rewrite <- app_assoc in N'. simpl in N'. exact N'.
        -- rewrite <- app_assoc. simpl. intros x Hx.
           apply in_app_or in Hx. destruct Hx as [Hx|[<-|Hx]].
           ++ apply I. apply in_or_app. auto.
           ++ apply I. apply in_or_app. right. left. reflexivity.
           ++ apply in_app_or in Hx. destruct Hx as [Hx|Hx].
              ** apply I. apply in_or_app. right. right. exact Hx.
              ** apply (Ff x Hx).
        -- intro x. rewrite <- app_assoc. simpl. rewrite !in_app_iff. simpl. rewrite in_app_iff.
           rewrite S. rewrite in_app_iff. simpl. tauto.
      * rewrite app_length. simpl. lia.
Qed.

(* ---------------------------------------------------------------- the DFS *)
Definition unv (S vis : list string) : nat := List.length (filter (fun x => negb (mem_s x vis)) S).

Lemma filter_length_le {A} (f g : A -> bool) l :
  (forall x, In x l -> f x = true -> g x = true) -> List.length (filter f l) <= List.length (filter g l).
Proof.
  induction l as [|x r IH]; simpl; intro H; [lia|].
  assert (IH' := IH (fun y Hy => H y (or_intror Hy))).
  destruct (f x) eqn:Ef.
  - rewrite (H x (or_introl eq_refl) Ef). simpl. lia.
  - destruct (g x); simpl; lia.
Qed.

Lemma unv_mono S vis vis' : incl vis vis' -> unv S vis' <= unv S vis.
Proof.
  intro I. unfold unv. apply filter_length_le. intros x _ H.
  apply negb_true_iff in H. apply negb_true_iff.
  destruct (mem_s x vis) eqn:E; auto. apply mem_s_In in E. apply I in E. apply mem_s_In in E. congruence.
Qed.

Lemma mem_s_cons x n vis : mem_s x (n :: vis) = (String.eqb x n || mem_s x vis)%bool.
Proof. reflexivity. Qed.

Lemma unv_strict S vis n : In n S -> ~ In n vis -> unv S (n :: vis) < unv S vis.
Proof.
  unfold unv. induction S as [|x r IH]; intros Hn Hv; [contradiction|].
  set (f1 := fun y => negb (mem_s y (n :: vis))). set (f0 := fun y => negb (mem_s y vis)).
  assert (LE : List.length (filter f1 r) <= List.length (filter f0 r)).
  { apply (unv_mono r vis (n :: vis)). intros y Hy. right. exact Hy. }
  cbn [filter].
  destruct (string_dec x n) as [->|Ne].
  - assert (E1 : f1 n = false) by (unfold f1; rewrite mem_s_cons, String.eqb_refl; reflexivity).
    assert (E0 : f0 n = true).
    { unfold f0. destruct (mem_s n vis) eqn:E; auto. apply mem_s_In in E. contradiction. }
    rewrite E1, E0. simpl. lia.
  - destruct Hn as [E|Hn]; [contradiction|].
    specialize (IH Hn Hv). fold f1 f0 in IH.
    assert (E : f1 x = f0 x).
    { unfold f1, f0. rewrite mem_s_cons. replace (String.eqb x n) with false; auto.
      symmetry. apply String.eqb_neq. exact Ne. }
    rewrite E. destruct (f0 x); simpl; lia.
Qed.

Lemma filter_length_all_true {A} (l : list A) : List.length (filter (fun _ => true) l) = List.length l.
Proof. induction l; simpl; auto. Qed.

Section DfsFuel.
  Variable deps : string -> list string.
  Variable S : list string.
  Hypothesis closed : forall n d, In n S -> In d (deps n) -> In d S.

  Let pre := pre S.
  Let step := step S.

  Lemma fold_some (F : string -> dstate -> option dstate) k :
    (forall n st, pre st -> In n S -> unv S (fst st) < k -> exists st', F n st = Some st' /\ step st st') ->
    forall l st, pre st -> incl l S -> unv S (fst st) < k ->
      exists st', fold_visit F l (Some st) = Some st' /\ step st st'.
  Proof.
    intros HF l. induction l as [|d r IH]; intros st P Hl U; simpl.
    - exists st. split; auto. apply step_refl. exact P.
    - destruct (HF d st P (Hl d (or_introl eq_refl)) U) as [st1 [E S1]]. rewrite E.
      assert (P1 : pre st1) by apply S1.
      assert (U1 : unv S (fst st1) < k).
      { eapply Nat.le_lt_trans; [apply unv_mono; apply S1 | exact U]. }
      destruct (IH st1 P1 (fun x Hx => Hl x (or_intror Hx)) U1) as [st2 [E2 S2]].
      exists st2. split; auto. eapply step_trans; eauto.
  Qed.

  Lemma visit_some fuel : forall n st, pre st -> In n S -> unv S (fst st) < fuel ->
    exists st', visit fuel deps n st = Some st' /\ step st st'.
  Proof.
    induction fuel as [|f IH]; intros n [vis out] P Hn U; [simpl in U; lia|].
    assert (X : exists st', visit (Datatypes.S f) deps n (vis, out) = Some st').
    { cbn [visit]. destruct (mem_s n vis) eqn:M; [eauto|].
      assert (Nv : ~ In n vis) by (intro X; apply mem_s_In in X; congruence).
      destruct P as [Pv [Po Pn]]. simpl in Pv, Po, Pn, U.
      assert (P0 : pre (n :: vis, out)).
      { repeat split; simpl.
        - intros x [<-|Hx]; auto.
        - intros x Hx. right. apply Po. exact Hx.
        - exact Pn. }
      assert (U0 : unv S (fst (n :: vis, out)) < f).
      { simpl. pose proof (unv_strict S vis n Hn Nv). lia. }
      destruct (fold_some (visit f deps) f IH (deps n) (n :: vis, out) P0 (fun d Hd => closed n d Hn Hd) U0)
        as [[v1 o1] [E1 _]].
      unfold fold_visit, dstate in E1.
      rewrite E1. eauto. }
    destruct X as [st' E]. exists st'. split; auto.
    apply (visit_ok deps S closed (Datatypes.S f) n (vis, out) st' P Hn E).
  Qed.

  Lemma dfs_all_some fuel roots : incl roots S -> List.length S < fuel ->
    exists out, dfs_all fuel deps roots = Some out.
  Proof.
    intros Hr L. unfold dfs_all.
    assert (P0 : pre ([], [])) by (repeat split; simpl; try (intros ? []); constructor).
    assert (U0 : unv S (fst (([] : list string), ([] : list string))) < fuel).
    { unfold unv. simpl. rewrite filter_length_all_true; auto. }
    destruct (fold_some (visit fuel deps) fuel (visit_some fuel) roots ([], []) P0 Hr U0) as [[v o] [E _]].
    unfold fold_visit, dstate in E. rewrite E. eauto.
  Qed.
End DfsFuel.

(* ---------------------------------------------------------------- together *)
Theorem frag_module_order_total o fi : wf_finput fi ->
  exists p ord, frag_module_order o fi = Some (p, ord).
Proof.
  intro W. pose proof W as [Wn Wm].
  unfold frag_module_order, frag_module_order_with.
  set (names0 := set_diff (fi_defs fi) (fi_excl fi)).
  set (queue0 := str_sort (permute (o "<names>") names0)).
  assert (Q : forall x, In x queue0 <-> In x names0).
  { intro x. unfold queue0. rewrite In_str_sort, In_permute. tauto. }
  assert (N0 : NoDup names0) by (apply NoDup_filter; exact Wn).
  assert (NQ : NoDup queue0).
  { eapply Permutation_NoDup; [|exact N0]. unfold queue0.
    eapply perm_trans; [apply Permutation_sym, permute_perm | apply Permutation_sym, isort_perm]. }
  assert (I2 : winv2 fi queue0 names0 []).
  { split; [exact NQ|]. split.
    - intros x Hx. simpl in Hx. apply Q in Hx. apply In_set_diff in Hx. tauto.
    - intro x. simpl. rewrite Q. tauto. }
  destruct (work_finishes fi W o (frag_fuel fi) queue0 names0 [] I2) as [names [processed [E [Np [Ip Sp]]]]].
  { unfold frag_fuel. simpl. lia. }
  rewrite E.
  assert (WI : winv fi queue0 names0 []).
  { split; [|split].
    - intros n Hn. right. apply Q. exact Hn.
    - intros n d [].
    - intros n Hn. apply Q. exact Hn. }
  destruct (work_closed _ _ _ _ _ _ _ _ WI E) as [C _].
  assert (CL : forall n d, In n processed -> In d (dfs_deps o fi n) -> In d processed).
  { intros n d Hn Hd. apply Sp. eapply C; [apply Sp; exact Hn | apply In_dfs_deps in Hd; exact Hd]. }
  destruct (dfs_all_some (dfs_deps o fi) processed CL (frag_fuel fi) (str_sort (permute (o "<names>") names)))
    as [out Eo].
  - intros x Hx. apply In_str_sort, In_permute in Hx. apply Sp. exact Hx.
  - pose proof (NoDup_incl_length Np Ip). unfold frag_fuel. lia.
  - rewrite Eo. eauto.
Qed.
