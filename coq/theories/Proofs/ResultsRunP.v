(* Infrastructure for the object-level refinement of the result-class generator (C01 / C05):
   inversion of the monadic folds of parse_type_def, the _public_names invariant, fields-only
   selection sets, agreement of the two fragment flattenings (flatten), leaves, wrappers, and the
   boolean guard sels_ok. *)
From Coq Require Import List String Ascii Bool Arith Lia ZArith.
From AC Require Import Base.Strs Base.Sexp Base.Json Gql.Schema Gql.Exec Py.Ann Py.Pydantic
     Model.Names Model.Results Proofs.ResultsP.
Import ListNotations.
Local Open Scope string_scope.
Local Open Scope list_scope.

(* ------------------------------------------------------------------------------------------- *)
(* 0. Generic helpers                                                                           *)

Lemma bind_ok {X Y} (r : res X) (f : X -> res Y) y :
  bind r f = Ok y -> exists x, r = Ok x /\ f x = Ok y.
Proof. destruct r as [x|m]; simpl; intro H; [exists x; auto | discriminate]. Qed.

Lemma eqb_neq_false a b : a <> b -> String.eqb a b = false.
Proof. intro H. destruct (String.eqb a b) eqn:E; [apply String.eqb_eq in E; contradiction | reflexivity]. Qed.

Lemma mem_false_In x l : mem x l = false <-> ~ In x l.
Proof.
  split; intro H.
  - intro Hin. apply mem_In in Hin. congruence.
  - destruct (mem x l) eqn:E; [apply mem_In in E; contradiction | reflexivity].
Qed.

Fixpoint nodupb (l : list string) : bool :=
  match l with [] => true | x :: r => negb (mem x r) && nodupb r end.

Lemma nodupb_NoDup l : nodupb l = true <-> NoDup l.
Proof.
  induction l as [|x r IH]; simpl.
  - split; [constructor | reflexivity].
  - rewrite andb_true_iff, negb_true_iff, mem_false_In, IH. split.
    + intros [H1 H2]. constructor; assumption.
    + intro H. inversion H; subst. split; assumption.
Qed.

Lemma NoDup_snoc {X} (l : list X) x : NoDup l -> ~ In x l -> NoDup (l ++ [x]).
Proof.
  induction l as [|y r IH]; simpl; intros Hnd Hn.
  - constructor; [intros [] | constructor].
  - inversion Hnd; subst. constructor.
    + rewrite in_app_iff. intros [H | [H | []]]; [contradiction | subst; apply Hn; left; reflexivity].
    + apply IH; auto.
Qed.

Lemma jlookup_In k kv v : jlookup k kv = Some v -> In (k, v) kv.
Proof.
  induction kv as [|[k' v'] r IH]; simpl; [discriminate|].
  destruct (String.eqb k k') eqn:E.
  - apply String.eqb_eq in E. subst. intro H; inversion H; subst. left; reflexivity.
  - intro H. right. apply IH, H.
Qed.

Lemma jlookup_None_notin k kv : jlookup k kv = None <-> ~ In k (map fst kv).
Proof.
  induction kv as [|[k' v'] r IH]; simpl.
  - split; [intros _ [] | reflexivity].
  - destruct (String.eqb k k') eqn:E.
    + apply String.eqb_eq in E. subst. split; [discriminate | intro H; exfalso; apply H; left; reflexivity].
    + rewrite IH. apply String.eqb_neq in E. split.
      * intros H [H1 | H1]; [congruence | contradiction].
      * intros H H1. apply H. right. exact H1.
Qed.

(* ------------------------------------------------------------------------------------------- *)
(* 1. Inversion of the monadic folds of parse_type_def                                          *)

Section Run.
  Variable rec : ptd_fun.
  Variables (C : cfg) (S : schema) (frs : list fragdef) (fuel' : nat) (cn tn : string)
            (tv : option (list string)) (at_ : bool).

  Inductive subs_run (ctx : fctx) (f : fnode) (sub : list sel)
    : list related -> mem_state -> list pclass -> mem_state -> bool -> Prop :=
  | sr_nil pub : subs_run ctx f sub [] pub [] pub false
  | sr_cons rc rcs pub qc qp qs cls pub' sk :
      rec pub (r_class rc) (r_type rc) sub (x_abstract ctx) (fn_mixins f)
          (Some (typename_values S (x_related ctx) (r_type rc))) = Ok (qc, qp, qs) ->
      subs_run ctx f sub rcs qp cls pub' sk ->
      subs_run ctx f sub (rc :: rcs) pub (qc ++ cls) pub' (qs || sk).

  Lemma sub_fold_err ctx f sub rcs m :
    fold_left (parse_sub_step rec S ctx f sub) rcs (Err m) = Err m.
  Proof. induction rcs; simpl; auto. Qed.

  Lemma subs_fold ctx f sub : forall rcs cls0 pub0 sk0 cls pub' sk,
    fold_left (parse_sub_step rec S ctx f sub) rcs (Ok (cls0, pub0, sk0)) = Ok (cls, pub', sk) ->
    exists cl skl, subs_run ctx f sub rcs pub0 cl pub' skl /\ cls = cls0 ++ cl /\ sk = sk0 || skl.
  Proof.
    induction rcs as [|rc rcs IH]; intros cls0 pub0 sk0 cls pub' sk H; simpl in H.
    - inversion H; subst. exists [], false. rewrite app_nil_r, orb_false_r. repeat split. constructor.
    -
      destruct (rec pub0 (r_class rc) (r_type rc) sub (x_abstract ctx) (fn_mixins f)
                    (Some (typename_values S (x_related ctx) (r_type rc)))) as [[[qc qp] qs]|m] eqn:E;
        simpl in H; [| rewrite sub_fold_err in H; discriminate].
      apply IH in H. destruct H as [cl [skl [Hr [Hc Hs]]]].
      exists (qc ++ cl), (qs || skl). split; [econstructor; eauto|].
      subst. rewrite app_assoc, orb_assoc. auto.
  Qed.

  Inductive fields_run
    : list fnode -> mem_state -> list pfield -> list pclass -> mem_state -> bool -> Prop :=
  | fr_nil pub : fields_run [] pub [] [] pub false
  | fr_cons f fs pub pf ctx exc exp exs pfl extra pub' sk :
      field_pf C S frs fuel' cn tn tv at_ f = Ok (pf, ctx) ->
      parse_subs rec S ctx f pub = Ok (exc, exp, exs) ->
      fields_run fs exp pfl extra pub' sk ->
      fields_run (f :: fs) pub (pf :: pfl) (exc ++ extra) pub' (exs || sk).

  Lemma field_fold_err fs m :
    fold_left (parse_field_step rec C S frs fuel' cn tn tv at_) fs (Err m) = Err m.
  Proof. induction fs; simpl; auto. Qed.

  Lemma fields_fold : forall fs pfs0 extra0 pub0 sk0 pfs extra pub' sk,
    fold_left (parse_field_step rec C S frs fuel' cn tn tv at_) fs (Ok (pfs0, extra0, pub0, sk0))
      = Ok (pfs, extra, pub', sk) ->
    exists pfl exl skl, fields_run fs pub0 pfl exl pub' skl /\
                        pfs = pfs0 ++ pfl /\ extra = extra0 ++ exl /\ sk = sk0 || skl.
  Proof.
    induction fs as [|f fs IH]; intros pfs0 extra0 pub0 sk0 pfs extra pub' sk H; simpl in H.
    - inversion H; subst. exists [], [], false. rewrite !app_nil_r, orb_false_r. repeat split. constructor.
    -
      destruct (field_pf C S frs fuel' cn tn tv at_ f) as [[pf ctx]|m] eqn:E1; simpl in H;
        [| rewrite field_fold_err in H; discriminate].
      destruct (parse_subs rec S ctx f pub0) as [[[exc exp] exs]|m] eqn:E2; simpl in H;
        [| rewrite field_fold_err in H; discriminate].
      apply IH in H. destruct H as [pfl [exl [skl [Hr [Hp [He Hs]]]]]].
      exists (pf :: pfl), (exc ++ exl), (exs || skl). split; [econstructor; eauto|].
      subst. rewrite <- !app_assoc, orb_assoc. auto.
  Qed.

  Lemma parse_subs_inv ctx f pub exc exp exs :
    parse_subs rec S ctx f pub = Ok (exc, exp, exs) ->
    (fn_sub f = None /\ exc = [] /\ exp = pub /\ exs = false) \/
    (exists sub, fn_sub f = Some sub /\ subs_run ctx f sub (x_related ctx) pub exc exp exs).
  Proof.
    unfold parse_subs. destruct (fn_sub f) as [sub|].
    - intro H. apply subs_fold in H. destruct H as [cl [skl [Hr [Hc Hs]]]]. simpl in *. subst.
      right. exists sub. auto.
    - intro H. inversion H; subst. left. auto.
  Qed.

  Lemma body_inv pub sels eb out pub' sk :
    parse_body rec C S frs fuel' pub cn tn sels at_ eb tv = Ok (out, pub', sk) ->
    (mem cn pub = true /\ out = [] /\ pub' = pub /\ sk = true) \/
    (mem cn pub = false /\ exists fields0 mixins pfl extra,
        resolve fuel' S frs false sels tn = Ok (fields0, mixins) /\
        fields_run (add_typename_field at_ fields0) (pub ++ [cn]) pfl extra pub' sk /\
        exists kept, remove_inherited fuel' S frs mixins = Ok kept /\
        out = {| c_name := cn; c_bases := class_bases mixins kept eb; c_fields := pfl |} :: extra).
  Proof.
    unfold parse_body. destruct (mem cn pub) eqn:M.
    - intro H; inversion H; subst. left. auto.
    - intro H. right. split; [reflexivity|].
      apply bind_ok in H. destruct H as [[fields0 mixins] [Hres H]].
      apply bind_ok in H. destruct H as [kept [Hk H]].
      apply bind_ok in H. destruct H as [[[[pfs extra] pub1] sk1] [Hf H]].
      inversion H; subst; clear H.
      apply fields_fold in Hf. destruct Hf as [pfl [exl [skl [Hr [Hp [He Hs]]]]]]. simpl in *. subst.
      exists fields0, mixins, pfl, exl. split; [exact Hres|]. split; [exact Hr|]. exists kept. auto.
  Qed.

  Lemma remove_inherited_nil : remove_inherited fuel' S frs [] = Ok [].
  Proof. reflexivity. Qed.

  (* generic extraction of a per-field property from a run without skipped classes *)
  Lemma fields_run_Forall (P : fnode -> pfield -> Prop) : forall fs pub pfl extra pub',
    fields_run fs pub pfl extra pub' false ->
    (forall f pf ctx exc pub0 pub1, In f fs -> field_pf C S frs fuel' cn tn tv at_ f = Ok (pf, ctx) ->
        parse_subs rec S ctx f pub0 = Ok (exc, pub1, false) -> incl exc extra -> P f pf) ->
    Forall2 P fs pfl.
  Proof.
    intros fs pub pfl extra pub' H. remember false as sk eqn:Hsk. revert Hsk.
    induction H as [pub | f fs pub pf ctx exc exp exs pfl extra pub' sk Hpf Hsub Hrun IH]; intros Hsk HP.
    - constructor.
    - apply orb_false_elim in Hsk as [Hs1 Hs2]. subst. constructor.
      + eapply HP; eauto. left; reflexivity. apply incl_appl, incl_refl.
      + apply IH; auto. intros f0 pf0 ctx0 exc0 pub0 pub1 Hin H1 H2 H3.
        eapply HP; eauto. right; exact Hin. apply incl_appr, H3.
  Qed.
End Run.

(* ------------------------------------------------------------------------------------------- *)
(* 2. _public_names: without a skip the generated class names are appended, pairwise distinct    *)

Definition names_inv (rec : ptd_fun) : Prop :=
  forall pub cn tn sels at_ eb tv out pub',
    rec pub cn tn sels at_ eb tv = Ok (out, pub', false) ->
    pub' = pub ++ map c_name out /\ (NoDup pub -> NoDup pub').

Section NamesInv.
  Variable rec : ptd_fun.
  Hypothesis Hrec : names_inv rec.
  Variables (C : cfg) (S : schema) (frs : list fragdef) (fuel' : nat).

  Lemma subs_run_names ctx f sub : forall rcs pub cls pub' sk,
    subs_run rec S ctx f sub rcs pub cls pub' sk -> sk = false ->
    pub' = pub ++ map c_name cls /\ (NoDup pub -> NoDup pub').
  Proof.
    intros rcs pub cls pub' sk H.
    induction H as [pub | rc rcs pub qc qp qs cls pub' sk Hq Hrun IH]; intro Hsk.
    - simpl. rewrite app_nil_r. auto.
    - apply orb_false_elim in Hsk as [Hs1 Hs2]. subst.
      apply Hrec in Hq. destruct Hq as [Hq1 Hq2]. destruct (IH eq_refl) as [I1 I2].
      subst. rewrite map_app, app_assoc. auto.
  Qed.

  Lemma fields_run_names cn tn tv at_ : forall fs pub pfl extra pub' sk,
    fields_run rec C S frs fuel' cn tn tv at_ fs pub pfl extra pub' sk -> sk = false ->
    pub' = pub ++ map c_name extra /\ (NoDup pub -> NoDup pub').
  Proof.
    intros fs pub pfl extra pub' sk H.
    induction H as [pub | f fs pub pf ctx exc exp exs pfl extra pub' sk Hpf Hsub Hrun IH]; intro Hsk.
    - simpl. rewrite app_nil_r. auto.
    - apply orb_false_elim in Hsk as [Hs1 Hs2]. subst.
      destruct (IH eq_refl) as [I1 I2].
      apply parse_subs_inv in Hsub. destruct Hsub as [[_ [He [Hp _]]] | [sub [_ Hr]]].
      + subst. simpl. auto.
      + apply subs_run_names in Hr; [| reflexivity]. destruct Hr as [R1 R2].
        subst. rewrite map_app, app_assoc. auto.
  Qed.

  Lemma body_names : names_inv (parse_body rec C S frs fuel').
  Proof.
    intros pub cn tn sels at_ eb tv out pub' H.
    apply body_inv in H. destruct H as [[_ [_ [_ H]]] | [M [fields0 [mixins [pfl [extra [_ [Hr [kept [_ Ho]]]]]]]]]];
      [discriminate|].
    apply fields_run_names in Hr; [| reflexivity]. destruct Hr as [R1 R2]. subst.
    simpl. split; [rewrite <- app_assoc; reflexivity|].
    intro Hnd. apply R2. apply NoDup_snoc; [exact Hnd | apply mem_false_In, M].
  Qed.
End NamesInv.

Lemma ptd_names C S frs : forall fuel, names_inv (parse_type_def fuel C S frs).
Proof.
  induction fuel as [|fuel IH].
  - intros pub cn tn sels at_ eb tv out pub' H. discriminate H.
  - intros pub cn tn sels at_ eb tv out pub' H. simpl in H. eapply body_names; eauto.
Qed.

(* every generated class is found under its own name in any table that starts with the output *)
Lemma lookup_class_own : forall own rest c,
  NoDup (map c_name own) -> In c own -> lookup_class (own ++ rest) (c_name c) = Some c.
Proof.
  unfold lookup_class. induction own as [|d own IH]; intros rest c Hnd Hin; [contradiction|].
  simpl in *. inversion Hnd; subst. destruct Hin as [E | Hin].
  - subst. rewrite String.eqb_refl. reflexivity.
  - destruct (String.eqb (c_name d) (c_name c)) eqn:E.
    + apply String.eqb_eq in E. exfalso. apply H1. rewrite E. apply in_map, Hin.
    + apply IH; auto.
Qed.

Lemma ptd_table C S frs fuel cn tn sels at_ eb tv out pub' rest :
  parse_type_def fuel C S frs [] cn tn sels at_ eb tv = Ok (out, pub', false) ->
  forall c, In c out -> lookup_class (out ++ rest) (c_name c) = Some c.
Proof.
  intros H c Hin. apply ptd_names in H. destruct H as [H1 H2]. simpl in H1. subst.
  apply lookup_class_own; auto. apply H2. constructor.
Qed.

(* ------------------------------------------------------------------------------------------- *)
(* 3. Selection sets of fields only: resolve and collect are the identity                        *)

Definition fields_only (sels : list sel) : bool :=
  forallb (fun s => match s with SField _ _ _ _ _ => true | _ => false end) sels.

Definition fnodes_of (sels : list sel) : list fnode :=
  flat_map (fun s => match s with SField al n c ms sub => [fnode_of al n c ms sub] | _ => [] end) sels.

Definition node_of_fnode (under : bool) (f : fnode) : cnode :=
  {| n_key := field_key f; n_name := fn_name f; n_cond := under || fn_cond f; n_sub := fn_sub f |}.

Lemma resolve_fields_only S frs root : forall fuel sels,
  fields_only sels = true -> resolve (Datatypes.S fuel) S frs false sels root = Ok (fnodes_of sels, []).
Proof.
  intros fuel sels. simpl.
  assert (G : forall l0 m0, fields_only sels = true ->
            fold_left (resolve_step (resolve fuel S frs) S frs root false) sels (Ok (l0, m0))
            = Ok (l0 ++ fnodes_of sels, m0)).
  { induction sels as [|s sels IH]; intros l0 m0 H; simpl.
    - rewrite app_nil_r. reflexivity.
    - simpl in H. apply andb_true_iff in H as [H1 H2]. destruct s; try discriminate.
      simpl. rewrite IH; auto. rewrite <- app_assoc. reflexivity. }
  intro H. apply (G [] [] H).
Qed.

Lemma resolve_ok_fuel S frs root fuel under sels r :
  resolve fuel S frs under sels root = Ok r -> exists k, fuel = Datatypes.S k.
Proof. destruct fuel; [discriminate | eauto]. Qed.

Lemma collect_fields_only S frs rt under : forall fuel sels,
  fields_only sels = true ->
  collect (Datatypes.S fuel) S frs rt under sels = Some (map (node_of_fnode under) (fnodes_of sels)).
Proof.
  intros fuel sels. simpl.
  assert (G : forall l0, fields_only sels = true ->
            fold_left (collect_step (collect fuel S frs rt) S frs rt under) sels (Some l0)
            = Some (l0 ++ map (node_of_fnode under) (fnodes_of sels))).
  { induction sels as [|s sels IH]; intros l0 H; simpl.
    - rewrite app_nil_r. reflexivity.
    - simpl in H. apply andb_true_iff in H as [H1 H2]. destruct s; try discriminate.
      simpl. rewrite IH; auto. rewrite <- app_assoc. reflexivity. }
  intro H. apply (G [] H).
Qed.

Lemma collect_scopes_fields_only S frs rt fuel sels :
  fields_only sels = true ->
  collect_scopes (Datatypes.S fuel) S frs rt [(false, sels)]
  = Some (map (node_of_fnode false) (fnodes_of sels)).
Proof.
  intro H. unfold collect_scopes. cbn [fold_left fst snd]. rewrite collect_fields_only; auto.
Qed.

Lemma collect_scopes_O S frs rt sels : collect_scopes 0 S frs rt [(false, sels)] = None.
Proof. reflexivity. Qed.

Lemma keys_in_order_nodup : forall l seen,
  NoDup (map n_key l) -> (forall n, In n l -> ~ In (n_key n) seen) ->
  keys_in_order l seen = map n_key l.
Proof.
  induction l as [|n r IH]; intros seen Hnd Hs; simpl; [reflexivity|].
  simpl in Hnd. inversion Hnd; subst.
  assert (M : mem (n_key n) seen = false) by (apply mem_false_In, Hs; left; reflexivity).
  rewrite M. f_equal. apply IH; auto.
  intros m Hm [E | Hin].
  - apply H1. rewrite E. apply in_map, Hm.
  - apply (Hs m); [right; exact Hm | exact Hin].
Qed.

Lemma filter_key_single : forall nodes n,
  NoDup (map n_key nodes) -> In n nodes ->
  filter (fun m => String.eqb (n_key m) (n_key n)) nodes = [n].
Proof.
  induction nodes as [|m r IH]; intros n Hnd Hin; [contradiction|].
  simpl in *. inversion Hnd; subst. destruct Hin as [E | Hin].
  - subst. rewrite String.eqb_refl. f_equal.
    assert (G : forall l, ~ In (n_key n) (map n_key l) ->
                filter (fun m => String.eqb (n_key m) (n_key n)) l = []).
    { induction l as [|x l IHl]; simpl; intro Hn; [reflexivity|].
      rewrite eqb_neq_false; [apply IHl | ]; intuition. }
    apply G, H1.
  - rewrite eqb_neq_false; [apply IH; auto|].
    intro E. apply H1. rewrite E. apply in_map, Hin.
Qed.

(* ------------------------------------------------------------------------------------------- *)
(* 3b. Fragments that both sides flatten alike                                                  *)

(* ------------------------------------------------------------------------------------------- *)
(* The selection sets on which the generator's _resolve_selection_set (against root r) and the     *)
(* executor's CollectFields (for the runtime OBJECT type rt) treat fragments alike: unconditional   *)
(* (F3), every type condition judged alike by both sides (F4); unpacked spreads and inline          *)
(* fragments are flattened by both; a spread the generator turns into a mixin base class is         *)
(* recorded (second component) — the executor collects its fields in place.                        *)

Definition flattenM_step (rec : string -> bool -> list sel -> option (list fnode * list string))
           (S : schema) (frs : list fragdef) (rt r : string) (under : bool)
           (acc : option (list fnode * list string)) (s : sel) : option (list fnode * list string) :=
  match acc with
  | None => None
  | Some (l, ms) =>
      match s with
      | SField al n c mx sub => Some (l ++ [fnode_of al n (under || c) mx sub], ms)
      | SInline tc c sub =>
          (* a missing type condition means the enclosing type (generator) / always applies (executor);
             a conditional container makes everything below conditional on both sides *)
          match inline_root_type S (match tc with Some tc => tc | None => r end) r,
                (match tc with None => true | Some t => type_applies S rt t end) with
          | Some r', true => match rec r' (under || c) sub with
                             | Some (l', ms') => Some (l ++ l', ms ++ ms') | None => None end
          | None, false => Some (l, ms)
          | _, _ => None
          end
      | SSpread n c =>
          match lookup_frag frs n with
          | Some f =>
              match lookup_type S r, lookup_type S (fr_on f) with
              | Some _, Some fd =>
                  if negb (under || c) && negb (unpack_fragment S f (Some r))
                  then (if type_applies S rt (fr_on f) then Some (l, ms ++ [n]) else None)
                  else
                    if String.eqb (fr_on f) r || (is_abstract fd && is_sub_type S (fr_on f) r)
                    then (if type_applies S rt (fr_on f)
                          then match rec r (under || c) (fr_sel f) with
                               | Some (l', ms') => Some (l ++ l', ms ++ ms') | None => None end
                          else None)
                    else (if type_applies S rt (fr_on f) then None else Some (l, ms))
              | _, _ => None
              end
          | None => None
          end
      end
  end.

Fixpoint flattenM (fuel : nat) (S : schema) (frs : list fragdef) (rt r : string) (under : bool)
         (sels : list sel) : option (list fnode * list string) :=
  match fuel with
  | O => None
  | Datatypes.S g => fold_left (flattenM_step (flattenM g S frs rt) S frs rt r under) sels (Some ([], []))
  end.

Lemma flattenM_fold_none rec S frs rt r under sels :
  fold_left (flattenM_step rec S frs rt r under) sels None = None.
Proof. induction sels; simpl; auto. Qed.

Lemma resolve_fold_err rec S frs r under sels m :
  fold_left (resolve_step rec S frs r under) sels (Err m) = Err m.
Proof. induction sels; simpl; auto. Qed.

Lemma collect_fold_none rec S frs rt under sels :
  fold_left (collect_step rec S frs rt under) sels None = None.
Proof. induction sels; simpl; auto. Qed.

Section Agree.
  Variables (S : schema) (frs : list fragdef) (rt : string).

  Ltac kill Hf := rewrite flattenM_fold_none in Hf; discriminate Hf.

  (* resolve: whenever it succeeds it returns the flattened fields and the recorded mixins *)
  Lemma flattenM_resolve_det : forall g f r under sels x0 x,
    flattenM g S frs rt r under sels = Some x0 -> resolve f S frs under sels r = Ok x -> x = x0.
  Proof.
    induction g as [|g IH]; intros f r under sels x0 x Hf Hr; [discriminate Hf|].
    destruct f as [|f]; [discriminate Hr|]. simpl in Hf, Hr.
    assert (G : forall sels l1 m1 l0 m0 x0 x,
              fold_left (flattenM_step (flattenM g S frs rt) S frs rt r under) sels (Some (l1, m1)) = Some x0 ->
              fold_left (resolve_step (resolve f S frs) S frs r under) sels (Ok (l0, m0)) = Ok x ->
              exists d e, x0 = (l1 ++ d, m1 ++ e) /\ x = (l0 ++ d, m0 ++ e)).
    { clear Hf Hr x0 x sels. induction sels as [|s sels IHs]; intros l1 m1 l0 m0 x0 x Hf Hr; simpl in Hf, Hr.
      - inversion Hf; inversion Hr; subst. exists [], []. rewrite !app_nil_r. auto.
      - destruct s as [al n c ms sub | n c | tc c sub].
        + simpl in Hf, Hr. destruct (IHs _ _ _ _ _ _ Hf Hr) as [d [e [H1 H2]]].
          exists (fnode_of al n (under || c) ms sub :: d), e. subst. rewrite <- !app_assoc. auto.
        + simpl in Hf, Hr.
          destruct (lookup_frag frs n) as [fd|]; [| kill Hf].
          destruct (lookup_type S r) as [dr|]; [| kill Hf].
          destruct (lookup_type S (fr_on fd)) as [df|]; [| kill Hf].
          destruct (negb (under || c) && negb (unpack_fragment S fd (Some r))); simpl in Hr.
          * destruct (type_applies S rt (fr_on fd)); [| kill Hf].
            destruct (IHs _ _ _ _ _ _ Hf Hr) as [d [e [H1 H2]]]. exists d, (n :: e). subst.
            rewrite <- !app_assoc. auto.
          * destruct (String.eqb (fr_on fd) r || (is_abstract df && is_sub_type S (fr_on fd) r)).
            -- destruct (type_applies S rt (fr_on fd)); [| kill Hf].
               destruct (flattenM g S frs rt r (under || c) (fr_sel fd)) as [[l' ms']|] eqn:El; [| kill Hf].
               destruct (resolve f S frs (under || c) (fr_sel fd) r) as [q|m] eqn:Eq; simpl in Hr;
                 [| rewrite resolve_fold_err in Hr; discriminate].
               rewrite (IH _ _ _ _ _ _ El Eq) in Hr. simpl in Hr.
               destruct (IHs _ _ _ _ _ _ Hf Hr) as [d [e [H1 H2]]]. exists (l' ++ d), (ms' ++ e). subst.
               rewrite <- !app_assoc. auto.
            -- destruct (type_applies S rt (fr_on fd)); [kill Hf|].
               apply (IHs _ _ _ _ _ _ Hf Hr).
        + simpl in Hf, Hr.
          destruct (inline_root_type S (match tc with Some tc0 => tc0 | None => r end) r) as [r'|].
          * destruct (match tc with None => true | Some t => type_applies S rt t end); [| kill Hf].
            destruct (flattenM g S frs rt r' (under || c) sub) as [[l' ms']|] eqn:El; [| kill Hf].
            destruct (resolve f S frs (under || c) sub r') as [q|m] eqn:Eq; simpl in Hr;
              [| rewrite resolve_fold_err in Hr; discriminate].
            rewrite (IH _ _ _ _ _ _ El Eq) in Hr. simpl in Hr.
            destruct (IHs _ _ _ _ _ _ Hf Hr) as [d [e [H1 H2]]]. exists (l' ++ d), (ms' ++ e). subst.
            rewrite <- !app_assoc. auto.
          * destruct (match tc with None => true | Some t => type_applies S rt t end); [kill Hf|].
            apply (IHs _ _ _ _ _ _ Hf Hr). }
    destruct (G _ _ _ _ _ _ _ Hf Hr) as [d [e [H1 H2]]]. simpl in *. subst. reflexivity.
  Qed.

  (* collect: without a mixin, whenever it succeeds it returns the nodes of the flattened fields (whose
     fn_cond already carries the enclosing conditions) *)
  Lemma flattenM_collect_det : forall g f r under sels fns ms l,
    flattenM g S frs rt r under sels = Some (fns, ms) -> collect f S frs rt under sels = Some l ->
    ms = [] -> l = map (node_of_fnode false) fns.
  Proof.
    induction g as [|g IH]; intros f r under sels fns ms l Hf Hc Hm; [discriminate Hf|].
    destruct f as [|f]; [discriminate Hc|]. simpl in Hf, Hc.
    assert (G : forall sels l1 m1 l0 x0 l,
              fold_left (flattenM_step (flattenM g S frs rt) S frs rt r under) sels (Some (l1, m1)) = Some x0 ->
              fold_left (collect_step (collect f S frs rt) S frs rt under) sels (Some l0) = Some l ->
              exists d e, x0 = (l1 ++ d, m1 ++ e) /\ (e = [] -> l = l0 ++ map (node_of_fnode false) d)).
    { clear Hf Hc Hm fns ms l sels. induction sels as [|s sels IHs]; intros l1 m1 l0 x0 l Hf Hc; simpl in Hf, Hc.
      - inversion Hf; inversion Hc; subst. exists [], []. simpl. rewrite !app_nil_r. auto.
      - destruct s as [al n c ms sub | n c | tc c sub].
        + simpl in Hf, Hc. destruct (IHs _ _ _ _ _ Hf Hc) as [d [e [H1 H2]]].
          exists (fnode_of al n (under || c) ms sub :: d), e. subst. simpl. rewrite <- !app_assoc.
          split; [reflexivity|]. intro He. rewrite (H2 He), <- app_assoc. reflexivity.
        + simpl in Hf, Hc.
          destruct (lookup_frag frs n) as [fd|]; [| kill Hf].
          destruct (lookup_type S r) as [dr|]; [| kill Hf].
          destruct (lookup_type S (fr_on fd)) as [df|]; [| kill Hf].
          destruct (negb (under || c) && negb (unpack_fragment S fd (Some r))).
          * destruct (type_applies S rt (fr_on fd)); [| kill Hf].
            destruct (collect f S frs rt (under || c) (fr_sel fd)) as [q|] eqn:Eq;
              [| rewrite collect_fold_none in Hc; discriminate].
            destruct (IHs _ _ _ _ _ Hf Hc) as [d [e [H1 H2]]]. exists d, (n :: e). subst.
            rewrite <- !app_assoc. split; [reflexivity|]. intro He. discriminate He.
          * destruct (String.eqb (fr_on fd) r || (is_abstract df && is_sub_type S (fr_on fd) r)).
            -- destruct (type_applies S rt (fr_on fd)); [| kill Hf].
               destruct (flattenM g S frs rt r (under || c) (fr_sel fd)) as [[l' ms']|] eqn:El; [| kill Hf].
               destruct (collect f S frs rt (under || c) (fr_sel fd)) as [q|] eqn:Eq;
                 [| rewrite collect_fold_none in Hc; discriminate].
               destruct (IHs _ _ _ _ _ Hf Hc) as [d [e [H1 H2]]]. exists (l' ++ d), (ms' ++ e). subst.
               rewrite <- !app_assoc. split; [reflexivity|]. intro He. apply app_eq_nil in He as [He1 He2].
               rewrite (H2 He2), (IH _ _ _ _ _ _ _ El Eq He1), map_app, <- !app_assoc. reflexivity.
            -- destruct (type_applies S rt (fr_on fd)); [kill Hf|].
               apply (IHs _ _ _ _ _ Hf Hc).
        + simpl in Hf, Hc.
          destruct (inline_root_type S (match tc with Some tc0 => tc0 | None => r end) r) as [r'|].
          * destruct (match tc with None => true | Some t => type_applies S rt t end); [| kill Hf].
            destruct (flattenM g S frs rt r' (under || c) sub) as [[l' ms']|] eqn:El; [| kill Hf].
            destruct (collect f S frs rt (under || c) sub) as [q|] eqn:Eq;
              [| rewrite collect_fold_none in Hc; discriminate].
            destruct (IHs _ _ _ _ _ Hf Hc) as [d [e [H1 H2]]]. exists (l' ++ d), (ms' ++ e). subst.
            rewrite <- !app_assoc. split; [reflexivity|]. intro He. apply app_eq_nil in He as [He1 He2].
            rewrite (H2 He2), (IH _ _ _ _ _ _ _ El Eq He1), map_app, <- !app_assoc. reflexivity.
          * destruct (match tc with None => true | Some t => type_applies S rt t end); [kill Hf|].
            apply (IHs _ _ _ _ _ Hf Hc). }
    destruct (G _ _ _ _ _ _ Hf Hc) as [d [e [H1 H2]]]. simpl in H1. inversion H1; subst.
    rewrite (H2 eq_refl). reflexivity.
  Qed.

  (* collect with mixins: the nodes of the own fields, and the nodes of every mixin fragment (a mixin is
     only ever recorded outside conditional containers), are among the collected nodes *)
  Lemma flattenM_collect_mix : forall g f r under sels fns ms l,
    flattenM g S frs rt r under sels = Some (fns, ms) -> collect f S frs rt under sels = Some l ->
    (forall x, In x fns -> In (node_of_fnode false x) l) /\
    (forall m, In m ms -> exists fm k lm, lookup_frag frs m = Some fm /\
                 collect k S frs rt false (fr_sel fm) = Some lm /\ incl lm l).
  Proof.
    induction g as [|g IH]; intros f r under sels fns ms l Hf Hc; [discriminate Hf|].
    destruct f as [|f]; [discriminate Hc|]. simpl in Hf, Hc.
    set (PM := fun (l : list cnode) (m : string) =>
                 exists fm k lm, lookup_frag frs m = Some fm /\
                   collect k S frs rt false (fr_sel fm) = Some lm /\ incl lm l).
    assert (PMmono : forall a b m, incl a b -> PM a m -> PM b m).
    { intros a b m Hab [fm [k [lm [H1 [H2 H3]]]]]. exists fm, k, lm. repeat split; auto.
      eapply incl_tran; eauto. }
    assert (G : forall sels l1 m1 l0 fns ms l,
              fold_left (flattenM_step (flattenM g S frs rt) S frs rt r under) sels (Some (l1, m1)) = Some (fns, ms) ->
              fold_left (collect_step (collect f S frs rt) S frs rt under) sels (Some l0) = Some l ->
              incl l0 l /\
              (forall x, In x fns -> In x l1 \/ In (node_of_fnode false x) l) /\
              (forall m, In m ms -> In m m1 \/ PM l m)).
    { clear Hf Hc fns ms l sels. induction sels as [|s sels IHs]; intros l1 m1 l0 fns ms l Hf Hc; simpl in Hf, Hc.
      - inversion Hf; inversion Hc; subst. split; [apply incl_refl|]. split; auto.
      - destruct s as [al n c mx sub | n c | tc c sub].
        + simpl in Hf, Hc. destruct (IHs _ _ _ _ _ _ Hf Hc) as [I0 [I1 I2]].
          split; [eapply incl_tran; [apply incl_appl, incl_refl | exact I0]|]. split; [| exact I2].
          intros x Hx. destruct (I1 x Hx) as [H | H]; [| right; exact H].
          apply in_app_or in H. destruct H as [H | [H | []]]; [left; exact H|]. subst x. right.
          apply I0. apply in_or_app. right. left. reflexivity.
        + simpl in Hf, Hc.
          destruct (lookup_frag frs n) as [fd|] eqn:Elf; [| kill Hf].
          destruct (lookup_type S r) as [dr|]; [| kill Hf].
          destruct (lookup_type S (fr_on fd)) as [df|]; [| kill Hf].
          destruct (negb (under || c) && negb (unpack_fragment S fd (Some r))) eqn:Emx.
          * apply andb_true_iff in Emx as [Eu _]. apply negb_true_iff in Eu. rewrite Eu in Hc.
            destruct (type_applies S rt (fr_on fd)); [| kill Hf].
            destruct (collect f S frs rt false (fr_sel fd)) as [q|] eqn:Eq;
              [| rewrite collect_fold_none in Hc; discriminate].
            destruct (IHs _ _ _ _ _ _ Hf Hc) as [I0 [I1 I2]].
            assert (Hq : incl q l) by (eapply incl_tran; [apply incl_appr, incl_refl | exact I0]).
            split; [eapply incl_tran; [apply incl_appl, incl_refl | exact I0]|]. split; [exact I1|].
            intros m Hm. destruct (I2 m Hm) as [H | H]; [| right; exact H].
            apply in_app_or in H. destruct H as [H | [H | []]]; [left; exact H|]. subst m. right.
            exists fd, f, q. auto.
          * destruct (String.eqb (fr_on fd) r || (is_abstract df && is_sub_type S (fr_on fd) r)).
            -- destruct (type_applies S rt (fr_on fd)); [| kill Hf].
               destruct (flattenM g S frs rt r (under || c) (fr_sel fd)) as [[l' ms']|] eqn:El; [| kill Hf].
               destruct (collect f S frs rt (under || c) (fr_sel fd)) as [q|] eqn:Eq;
                 [| rewrite collect_fold_none in Hc; discriminate].
               destruct (IH _ _ _ _ _ _ _ El Eq) as [J1 J2].
               destruct (IHs _ _ _ _ _ _ Hf Hc) as [I0 [I1 I2]].
               assert (Hq : incl q l) by (eapply incl_tran; [apply incl_appr, incl_refl | exact I0]).
               split; [eapply incl_tran; [apply incl_appl, incl_refl | exact I0]|]. split.
               ++ intros x Hx. destruct (I1 x Hx) as [H | H]; [| right; exact H].
                  apply in_app_or in H. destruct H as [H | H]; [left; exact H | right; apply Hq, J1, H].
               ++ intros m Hm. destruct (I2 m Hm) as [H | H]; [| right; exact H].
                  apply in_app_or in H. destruct H as [H | H]; [left; exact H | right].
                  eapply PMmono; [exact Hq | apply J2, H].
            -- destruct (type_applies S rt (fr_on fd)); [kill Hf|].
               apply (IHs _ _ _ _ _ _ Hf Hc).
        + simpl in Hf, Hc.
          destruct (inline_root_type S (match tc with Some tc0 => tc0 | None => r end) r) as [r'|].
          * destruct (match tc with None => true | Some t => type_applies S rt t end); [| kill Hf].
            destruct (flattenM g S frs rt r' (under || c) sub) as [[l' ms']|] eqn:El; [| kill Hf].
            destruct (collect f S frs rt (under || c) sub) as [q|] eqn:Eq;
              [| rewrite collect_fold_none in Hc; discriminate].
            destruct (IH _ _ _ _ _ _ _ El Eq) as [J1 J2].
            destruct (IHs _ _ _ _ _ _ Hf Hc) as [I0 [I1 I2]].
            assert (Hq : incl q l) by (eapply incl_tran; [apply incl_appr, incl_refl | exact I0]).
            split; [eapply incl_tran; [apply incl_appl, incl_refl | exact I0]|]. split.
            -- intros x Hx. destruct (I1 x Hx) as [H | H]; [| right; exact H].
               apply in_app_or in H. destruct H as [H | H]; [left; exact H | right; apply Hq, J1, H].
            -- intros m Hm. destruct (I2 m Hm) as [H | H]; [| right; exact H].
               apply in_app_or in H. destruct H as [H | H]; [left; exact H | right].
               eapply PMmono; [exact Hq | apply J2, H].
          * destruct (match tc with None => true | Some t => type_applies S rt t end); [kill Hf|].
            apply (IHs _ _ _ _ _ _ Hf Hc). }
    destruct (G _ _ _ _ _ _ _ Hf Hc) as [_ [G1 G2]]. split.
    - intros x Hx. destruct (G1 x Hx) as [[] | H]. exact H.
    - intros m Hm. destruct (G2 m Hm) as [[] | H]. exact H.
  Qed.

  (* with at least the guard's fuel resolve succeeds, and so does collect when there is no mixin *)
  Lemma flattenM_both_ex : forall g r under sels fns ms,
    flattenM g S frs rt r under sels = Some (fns, ms) ->
    forall f, f >= g ->
      resolve f S frs under sels r = Ok (fns, ms) /\
      (ms = [] -> collect f S frs rt under sels = Some (map (node_of_fnode false) fns)).
  Proof.
    induction g as [|g IH]; intros r under sels fns ms Hf f Hge; [discriminate Hf|].
    destruct f as [|f]; [lia|]. assert (Hge' : f >= g) by lia. simpl in Hf. simpl.
    assert (G : forall sels l1 m1 x0,
              fold_left (flattenM_step (flattenM g S frs rt) S frs rt r under) sels (Some (l1, m1)) = Some x0 ->
              exists d e, x0 = (l1 ++ d, m1 ++ e) /\
                (forall l0 m0, fold_left (resolve_step (resolve f S frs) S frs r under) sels (Ok (l0, m0))
                               = Ok (l0 ++ d, m0 ++ e)) /\
                (e = [] -> forall l0,
                     fold_left (collect_step (collect f S frs rt) S frs rt under) sels (Some l0)
                     = Some (l0 ++ map (node_of_fnode false) d))).
    { clear Hf fns ms sels. induction sels as [|s sels IHs]; intros l1 m1 x0 Hf; simpl in Hf.
      - inversion Hf; subst. exists [], []. simpl. rewrite !app_nil_r. split; [reflexivity|].
        split; intros; rewrite ?app_nil_r; reflexivity.
      - destruct s as [al n c mx sub | n c | tc c sub].
        + simpl in Hf. destruct (IHs _ _ _ Hf) as [d [e [H1 [H2 H3]]]].
          exists (fnode_of al n (under || c) mx sub :: d), e. subst. split; [rewrite <- app_assoc; reflexivity|].
          split; intros; simpl; [rewrite H2 | rewrite H3 by assumption]; rewrite <- app_assoc; reflexivity.
        + simpl in Hf.
          destruct (lookup_frag frs n) as [fd|] eqn:Elf; [| kill Hf].
          destruct (lookup_type S r) as [dr|] eqn:Elr; [| kill Hf].
          destruct (lookup_type S (fr_on fd)) as [df|] eqn:Elo; [| kill Hf].
          destruct (negb (under || c) && negb (unpack_fragment S fd (Some r))) eqn:Eu.
          * destruct (type_applies S rt (fr_on fd)) eqn:Et; [| kill Hf].
            destruct (IHs _ _ _ Hf) as [d [e [H1 [H2 H3]]]]. exists d, (n :: e). subst.
            split; [rewrite <- !app_assoc; reflexivity|]. split.
            -- intros; simpl. rewrite Elf, Elr, Elo, Eu. simpl. rewrite H2, <- !app_assoc. reflexivity.
            -- intro He. discriminate He.
          * destruct (String.eqb (fr_on fd) r || (is_abstract df && is_sub_type S (fr_on fd) r)) eqn:Eb.
            -- destruct (type_applies S rt (fr_on fd)) eqn:Et; [| kill Hf].
               destruct (flattenM g S frs rt r (under || c) (fr_sel fd)) as [[l' ms']|] eqn:El; [| kill Hf].
               destruct (IH _ _ _ _ _ El f Hge') as [R1 R2].
               destruct (IHs _ _ _ Hf) as [d [e [H1 [H2 H3]]]]. exists (l' ++ d), (ms' ++ e). subst.
               split; [rewrite <- !app_assoc; reflexivity|].
               split.
               ++ intros; simpl. rewrite Elf, Elr, Elo, Eu, Eb, R1. simpl. rewrite H2, <- !app_assoc. reflexivity.
               ++ intros He l0. apply app_eq_nil in He as [He1 He2]. simpl.
                  rewrite Elf, Et, (R2 He1), (H3 He2), map_app, <- app_assoc. reflexivity.
            -- destruct (type_applies S rt (fr_on fd)) eqn:Et; [kill Hf|].
               destruct (IHs _ _ _ Hf) as [d [e [H1 [H2 H3]]]]. exists d, e. split; [exact H1|].
               split.
               ++ intros; simpl. rewrite Elf, Elr, Elo, Eu, Eb. simpl. apply H2.
               ++ intros He l0. simpl. rewrite Elf, Et. apply H3, He.
        + simpl in Hf.
          destruct (inline_root_type S (match tc with Some tc0 => tc0 | None => r end) r) as [r'|] eqn:Ei.
          * destruct (match tc with None => true | Some t => type_applies S rt t end) eqn:Et; [| kill Hf].
            destruct (flattenM g S frs rt r' (under || c) sub) as [[l' ms']|] eqn:El; [| kill Hf].
            destruct (IH _ _ _ _ _ El f Hge') as [R1 R2].
            destruct (IHs _ _ _ Hf) as [d [e [H1 [H2 H3]]]]. exists (l' ++ d), (ms' ++ e). subst.
            split; [rewrite <- !app_assoc; reflexivity|].
            split.
            -- intros; simpl. rewrite Ei, R1. simpl. rewrite H2, <- !app_assoc. reflexivity.
            -- intros He l0. apply app_eq_nil in He as [He1 He2]. simpl.
               rewrite Et, (R2 He1), (H3 He2), map_app, <- app_assoc. reflexivity.
          * destruct (match tc with None => true | Some t => type_applies S rt t end) eqn:Et; [kill Hf|].
            destruct (IHs _ _ _ Hf) as [d [e [H1 [H2 H3]]]]. exists d, e. split; [exact H1|].
            split.
            -- intros; simpl. rewrite Ei. apply H2.
            -- intros He l0. simpl. rewrite Et. apply H3, He. }
    destruct (G _ _ _ _ Hf) as [d [e [H1 [H2 H3]]]]. simpl in H1. inversion H1; subst d e.
    split; [apply (H2 [] []) | intros He; apply (H3 He [])].
  Qed.
End Agree.

(* ---- the mixin-free instance at a class position (no enclosing condition): both sides flatten to
        the same field list ---- *)
Definition flatten (fuel : nat) (S : schema) (frs : list fragdef) (rt r : string) (sels : list sel)
  : option (list fnode) :=
  match flattenM fuel S frs rt r false sels with
  | Some (fns, []) => Some fns
  | _ => None
  end.

Lemma flatten_M fuel S frs rt r sels fns :
  flatten fuel S frs rt r sels = Some fns <-> flattenM fuel S frs rt r false sels = Some (fns, []).
Proof.
  unfold flatten. destruct (flattenM fuel S frs rt r false sels) as [[l [|m ms]]|]; split; intro H;
    try discriminate H; inversion H; reflexivity.
Qed.

Lemma flatten_resolve_det S frs rt g f r sels fns x :
  flatten g S frs rt r sels = Some fns -> resolve f S frs false sels r = Ok x -> x = (fns, []).
Proof. intros H Hr. apply flatten_M in H. eapply flattenM_resolve_det; eauto. Qed.

Lemma flatten_collect_det S frs rt g f r sels fns l :
  flatten g S frs rt r sels = Some fns -> collect f S frs rt false sels = Some l ->
  l = map (node_of_fnode false) fns.
Proof. intros H Hc. apply flatten_M in H. eapply flattenM_collect_det; eauto. Qed.

Lemma flatten_both_ex S frs rt g r sels fns :
  flatten g S frs rt r sels = Some fns ->
  forall f, f >= g ->
    resolve f S frs false sels r = Ok (fns, []) /\
    collect f S frs rt false sels = Some (map (node_of_fnode false) fns).
Proof.
  intros H f Hge. apply flatten_M in H. destruct (flattenM_both_ex S frs rt _ _ _ _ _ _ H f Hge) as [R1 R2].
  split; [exact R1 | apply R2; reflexivity].
Qed.

Lemma flatten_det S frs rt r sels g1 g2 a b :
  flatten g1 S frs rt r sels = Some a -> flatten g2 S frs rt r sels = Some b -> a = b.
Proof.
  intros H1 H2.
  destruct (flatten_both_ex S frs rt _ _ _ _ H1 (max g1 g2) (Nat.le_max_l _ _)) as [R1 _].
  destruct (flatten_both_ex S frs rt _ _ _ _ H2 (max g1 g2) (Nat.le_max_r _ _)) as [R2 _].
  rewrite R1 in R2. inversion R2. reflexivity.
Qed.

(* fields-only selection sets are in the sub-language, and flatten is the identity on them *)
Lemma flatten_fields_only S frs rt r g sels :
  fields_only sels = true -> flatten (Datatypes.S g) S frs rt r sels = Some (fnodes_of sels).
Proof.
  intro H. apply flatten_M. simpl.
  assert (G : forall l0 m0, fields_only sels = true ->
            fold_left (flattenM_step (flattenM g S frs rt) S frs rt r false) sels (Some (l0, m0))
            = Some (l0 ++ fnodes_of sels, m0)).
  { induction sels as [|s sels IH]; intros l0 m0 H0; simpl.
    - rewrite app_nil_r. reflexivity.
    - simpl in H0. apply andb_true_iff in H0 as [H1 H2]. destruct s; try discriminate.
      simpl. rewrite IH; auto. rewrite <- app_assoc. reflexivity. }
  apply (G [] [] H).
Qed.

Lemma collect_scopes_flat S frs rt fc sels g r fns l :
  flatten g S frs rt r sels = Some fns ->
  collect_scopes fc S frs rt [(false, sels)] = Some l -> l = map (node_of_fnode false) fns.
Proof.
  intros Hf Hc. unfold collect_scopes in Hc. cbn [fold_left fst snd] in Hc.
  destruct (collect fc S frs rt false sels) as [l'|] eqn:E; [| discriminate].
  inversion Hc; subst. simpl. eapply flatten_collect_det; eauto.
Qed.

Lemma collect_scopes_flat_ex S frs rt fc sels g r fns :
  flatten g S frs rt r sels = Some fns -> fc >= g ->
  collect_scopes fc S frs rt [(false, sels)] = Some (map (node_of_fnode false) fns).
Proof.
  intros Hf Hge. unfold collect_scopes. cbn [fold_left fst snd].
  destruct (flatten_both_ex S frs rt _ _ _ _ Hf fc Hge) as [_ R]. rewrite R. reflexivity.
Qed.

(* ------------------------------------------------------------------------------------------- *)
(* 4. Leaves: what GraphQL's result coercion produces is accepted by the generated annotation     *)

Lemma scalar_leaf_accepts C S clsacc enums n j :
  leaf_conf S n DScalar j = true -> j <> JNull ->
  acc_ann clsacc enums (fst (scalar_ann C n false)) j = true.
Proof.
  unfold scalar_ann, simple_type, leaf_conf. intros H Hn.
  destruct (String.eqb n "String") eqn:E1.
  { apply String.eqb_eq in E1. subst. simpl in *. destruct j; try discriminate; reflexivity. }
  destruct (String.eqb n "ID") eqn:E2.
  { apply String.eqb_eq in E2. subst. simpl in *. destruct j; try discriminate; reflexivity. }
  destruct (String.eqb n "Int") eqn:E3.
  { simpl in *. destruct j; try discriminate; reflexivity. }
  destruct (String.eqb n "Boolean") eqn:E4.
  { apply String.eqb_eq in E4. subst. simpl in *. destruct j; try discriminate; reflexivity. }
  destruct (String.eqb n "Float") eqn:E5.
  { simpl in *. destruct j; try discriminate; reflexivity. }
  destruct (find _ (cf_scalars C)); simpl.
  - destruct j; try reflexivity. congruence.
  - reflexivity.
Qed.

Lemma enum_assoc S n vs : lookup_type S n = Some (DEnum vs) -> assoc n (schema_enums S) = Some vs.
Proof.
  unfold lookup_type, schema_enums. induction (s_types S) as [|[k d] r IH]; simpl; [discriminate|].
  destruct (String.eqb n k) eqn:E.
  - intro H. inversion H; subst. simpl. rewrite E. reflexivity.
  - intro H. destruct d; simpl; try (apply IH; exact H). rewrite E. apply IH, H.
Qed.

Lemma enum_leaf_accepts S clsacc n vs j :
  lookup_type S n = Some (DEnum vs) -> leaf_conf S n (DEnum vs) j = true ->
  acc_ann clsacc (schema_enums S) (AEnum n) j = true.
Proof.
  intros Hl H. simpl in *. destruct j; try discriminate. rewrite (enum_assoc S n vs Hl). exact H.
Qed.

(* ------------------------------------------------------------------------------------------- *)
(* 5. Wrappers                                                                                  *)

Fixpoint base_name (t : gtype) : string :=
  match t with TNamed n => n | TList t' | TNonNull t' => base_name t' end.

(* the null / list structure of CompleteValue with obligation P at the named type *)
Fixpoint wrapP (P : json -> Prop) (t : gtype) (j : json) : Prop :=
  match t with
  | TNamed _ => j = JNull \/ P j
  | TList t' => j = JNull \/ exists l, j = JArr l /\ Forall (wrapP P t') l
  | TNonNull t' => j <> JNull /\ wrapP P t' j
  end.

Lemma wrapP_impl (P Q : json -> Prop) : (forall j, P j -> Q j) -> forall t j, wrapP P t j -> wrapP Q t j.
Proof.
  intro H. induction t as [n | t IH | t IH]; intros j; simpl.
  - intros [E | HP]; auto.
  - intros [E | [l [E Hf]]]; auto. right. exists l. split; auto.
    rewrite Forall_forall in *. intros x Hx. apply IH, Hf, Hx.
  - intros [E HP]. auto.
Qed.

Lemma conf_val_wrapP leafp eo so S frs scs : forall t fc j,
  conf_val_gen leafp eo so fc S frs t scs j = true ->
  wrapP (fun j' => j' <> JNull /\
                   exists k, conf_val_gen leafp eo so (Datatypes.S k) S frs (TNamed (base_name t)) scs j' = true) t j.
Proof.
  induction t as [n | t IH | t IH]; intros fc j H; destruct fc as [|k]; try discriminate H.
  - simpl. destruct j; try (right; split; [discriminate | exists k; exact H]). left; reflexivity.
  - simpl in H. simpl. destruct j; try discriminate H; [left; reflexivity|]. right. exists l. split; [reflexivity|].
    rewrite forallb_forall in H. apply Forall_forall. intros x Hx. apply (IH k), H, Hx.
  - simpl in H. simpl. destruct j; try discriminate H; (split; [discriminate | apply (IH k), H]).
Qed.

Lemma image_opt leaf t a : is_nonnull t = false -> image_of leaf t = Some a -> exists x, a = AOpt x.
Proof.
  destruct t as [n | t' | t']; simpl; intros Hn H; try discriminate Hn.
  - destruct (leaf n); simpl in H; [| discriminate]. inversion H. eauto.
  - destruct (image_of leaf t'); simpl in H; [| discriminate]. inversion H. eauto.
Qed.

Section WrapGen.
  (* any checker that treats Optional and List the way acc_ann and cov_ann do *)
  Variable W : ann -> json -> bool.
  Hypothesis W_opt : forall a j, W (AOpt a) j = is_null j || W a j.
  Hypothesis W_list : forall a j, W (AList a) j = match j with JArr l => forallb (W a) l | _ => false end.
  Variable leaf : string -> option ann.

  Lemma wrapP_W : forall t a j P, wf_gtype t = true -> image_of leaf t = Some a -> wrapP P t j ->
    (forall x j', leaf (base_name t) = Some x -> P j' -> W x j' = true) -> W a j = true.
  Proof.
    induction t as [n | t IH | t IH]; intros a j P Hwf Hi Hw HP.
    - simpl in Hi. destruct (leaf n) as [x|] eqn:E; simpl in Hi; [| discriminate]. inversion Hi; subst.
      rewrite W_opt. destruct Hw as [Hj | Hj]; [subst; reflexivity|].
      rewrite (HP x j E Hj). apply orb_true_r.
    - simpl in Hi. destruct (image_of leaf t) as [a'|] eqn:E; simpl in Hi; [| discriminate]. inversion Hi; subst.
      rewrite W_opt. destruct Hw as [Hj | [l [Hj Hf]]]; [subst; reflexivity|]. subst j.
      rewrite W_list. simpl. apply forallb_forall. intros x Hx. rewrite Forall_forall in Hf.
      eapply IH; eauto.
    - assert (Hwf' : wf_gtype t = true) by (simpl in Hwf; destruct t; auto; discriminate).
      assert (Hnn : is_nonnull t = false) by (destruct t; auto; simpl in Hwf; discriminate).
      simpl in Hi. destruct (image_of leaf t) as [a'|] eqn:E; simpl in Hi; [| discriminate]. inversion Hi; subst.
      destruct (image_opt leaf t a' Hnn E) as [x Hx]. subst a'. simpl.
      destruct Hw as [Hj Hw]. specialize (IH (AOpt x) j P Hwf' eq_refl Hw HP).
      rewrite W_opt in IH. apply orb_true_iff in IH as [IH | IH]; [| exact IH].
      destruct j; try discriminate IH. congruence.
  Qed.
End WrapGen.

Lemma cond_ann_acc clsacc enums cond a j :
  acc_ann clsacc enums a j = true -> acc_ann clsacc enums (cond_ann false cond a) j = true.
Proof.
  unfold cond_ann. destruct cond; auto. destruct (is_opt a); auto. intro H. simpl. rewrite H. apply orb_true_r.
Qed.

Lemma cond_ann_cov clscov cond a j :
  cov_ann clscov a j = true -> cov_ann clscov (cond_ann false cond a) j = true.
Proof.
  unfold cond_ann. destruct cond; auto. destruct (is_opt a); auto. intro H. simpl. rewrite H. apply orb_true_r.
Qed.

(* the context of a field's annotation is the context of its named type *)
Lemma field_type_ann_ctx C S frs f0 fsub cn : forall t nl r,
  field_type_ann C S frs f0 fsub t nl cn false = Ok r ->
  exists a0, named_ann C S frs f0 fsub (base_name t) false cn false = Ok (a0, snd r).
Proof.
  induction t as [n | t IH | t IH]; intros nl r H; simpl in H.
  - destruct r as [a c]. destruct (named_nullable C S frs f0 fsub cn n nl false a c H) as [a0 [H0 _]].
    exists a0. exact H0.
  - apply bind_ok in H. destruct H as [r' [H1 H2]]. inversion H2; subst. simpl. eapply IH; eauto.
  - eapply IH; eauto.
Qed.

(* ------------------------------------------------------------------------------------------- *)
(* 6. The guard: fields only, leaf fields of scalar / enum type, composite fields of object type  *)

Definition keys_ok (C : cfg) (keys : list string) : bool :=
  nodupb keys &&
  forallb (fun k => String.eqb (py_field_name C k) k || negb (mem (py_field_name C k) keys)) keys.

(* ---- repeated response keys: allowed for leaf selections of one field (no merge needed) ---- *)
Definition count_key (k : string) (keys : list string) : nat := List.length (filter (String.eqb k) keys).

Definition is_leaf_sel (f : fnode) : bool := match fn_sub f with None => true | Some _ => false end.

Definition dup_ok (fns : list fnode) : bool :=
  forallb (fun f => Nat.eqb (count_key (field_key f) (map field_key fns)) 1 ||
                    (is_leaf_sel f &&
                     forallb (fun g => negb (String.eqb (field_key g) (field_key f)) ||
                                       String.eqb (fn_name g) (fn_name f)) fns)) fns.

Definition keys_okD (C : cfg) (fns : list fnode) : bool :=
  dup_ok fns &&
  forallb (fun k => String.eqb (py_field_name C k) k || negb (mem (py_field_name C k) (map field_key fns)))
          (map field_key fns).

Lemma count_nodup k l : NoDup l -> In k l -> count_key k l = 1.
Proof.
  unfold count_key. induction l as [|x l IH]; intros Hnd Hin; [contradiction|].
  inversion Hnd; subst. simpl. destruct Hin as [E | Hin].
  - subst x. rewrite String.eqb_refl. simpl. f_equal.
    assert (G : forall m, ~ In k m -> filter (String.eqb k) m = []).
    { induction m as [|y m IHm]; simpl; intro Hn; [reflexivity|].
      rewrite eqb_neq_false; [apply IHm | ]; intuition. }
    rewrite G; auto.
  - rewrite eqb_neq_false; [apply IH; auto|]. intro E. subst x. contradiction.
Qed.

Lemma keys_ok_D C fns : keys_ok C (map field_key fns) = true -> keys_okD C fns = true.
Proof.
  unfold keys_ok, keys_okD. intro H. apply andb_true_iff in H as [H1 H2]. rewrite H2, andb_true_r.
  apply nodupb_NoDup in H1. apply forallb_forall. intros f Hf.
  rewrite (count_nodup _ _ H1 (in_map field_key _ _ Hf)). reflexivity.
Qed.

(* the key guard of a selection set: pairwise distinct keys where Python names must be distinct too
   (cov: preservation, strictness, abstract positions); for acceptance alone a key may repeat among leaf
   selections of one field (the class body's last definition wins, all of them carry the same annotation) *)
Definition keys_okG (cov : bool) (C : cfg) (fns : list fnode) : bool :=
  if cov then keys_ok C (map field_key fns) else keys_okD C fns.

Lemma keys_okG_D cov C fns : keys_okG cov C fns = true -> keys_okD C fns = true.
Proof. destruct cov; simpl; [apply keys_ok_D | auto]. Qed.

Fixpoint gtype_eqb (a b : gtype) : bool :=
  match a, b with
  | TNamed x, TNamed y => String.eqb x y
  | TList x, TList y | TNonNull x, TNonNull y => gtype_eqb x y
  | _, _ => false
  end.

Lemma gtype_eqb_eq : forall a b, gtype_eqb a b = true -> a = b.
Proof.
  induction a as [x | a IH | a IH]; intros [y | b | b] H; simpl in H; try discriminate H.
  - apply String.eqb_eq in H. congruence.
  - f_equal. apply IH, H.
  - f_equal. apply IH, H.
Qed.

Lemma gtype_eqb_refl : forall a, gtype_eqb a a = true.
Proof. induction a; simpl; auto. apply String.eqb_refl. Qed.

Definition is_object (S : schema) (n : string) : bool :=
  match lookup_type S n with Some (DObject _ _) => true | _ => false end.

(* ---- abstract positions (interface / union typed composite fields) ---- *)

(* __typename selected directly, without alias or directive (the discriminator of the generated union) *)
Definition has_typename (sels : list sel) : bool :=
  existsb (fun s => match s with
                    | SField None n false _ None => String.eqb n "__typename"
                    | _ => false end) sels.

(* no fragment spread at the top level or inside inline fragments (so that no variant class gets a
   mixin base and inline_conds / spreads_on_subtypes see inline fragments only) *)
Fixpoint no_spread (fuel : nat) (sels : list sel) : bool :=
  match fuel with
  | O => false
  | Datatypes.S g =>
      forallb (fun s => match s with
                        | SField _ _ _ _ _ => true
                        | SSpread _ _ => false
                        | SInline _ _ sub => no_spread g sub end) sels
  end.

Definition inline_tcs (sels : list sel) : list (option string) :=
  flat_map (fun s => match s with SInline tc _ _ => [tc] | _ => [] end) sels.

Definition some_conds (l : list (option string)) : list string :=
  flat_map (fun o => match o with Some c => [c] | None => [] end) l.

(* the GraphQL types for which the generator emits one class each at an abstract position *)
Definition abs_names (S : schema) (base : string) (sub : list sel) : list string :=
  match lookup_type S base with
  | Some (DUnion ms) => ms
  | Some (DInterface ifs _) =>
      match inline_tcs sub with
      | [] => [base]
      | ics => base :: sorted_set (filter (fun c => negb (mem c ifs)) (some_conds ics))
      end
  | _ => []
  end.

(* the type whose class validates an object of runtime type rt *)
Definition variant (names : list string) (base rt : string) : string :=
  if mem rt names then rt else base.

Definition abs_ok (rec : bool -> string -> string -> list sel -> bool) (g : nat) (cov : bool) (S : schema)
           (base : string) (sub : list sel) : bool :=
  cov && has_typename sub && no_spread g sub &&
  forallb (fun o => match o with Some _ => true | None => false end) (inline_tcs sub) &&
  negb (mem base (possible_types S base)) &&
  (match lookup_type S base with Some (DUnion ms) => forallb (is_object S) ms | _ => true end) &&
  forallb (fun rt => is_object S rt && rec true rt (variant (abs_names S base sub) base rt) sub)
          (possible_types S base).

(* rt: the runtime object type of the response object; r: the type the class is generated for
   (r = rt except for the base variant of an interface); abs: the class is a variant at an abstract
   position (add_typename), where the __typename Literal ignores @skip/@include *)
(* mx: the @mixin names allowed on fields (extra base classes of the field's classes); the theorems demand
   that none of them is the name of a class of the table, so that they contribute no pydantic field *)
Definition field_ok (rec : bool -> string -> string -> list sel -> bool) (g : nat) (cov : bool) (S : schema)
           (mx : list string) (abs : bool) (rt r : string) (f : fnode) : bool :=
  forallb (fun b => mem b mx) (fn_mixins f) &&
  if String.eqb (fn_name f) "__typename" then
    (match fn_sub f with None => true | Some _ => false end) && negb (abs && fn_cond f) &&
    (match schema_field_type S r "__typename" with
     | Ok (TNonNull (TNamed s)) => String.eqb s "String" | _ => false end) &&
    (match lookup_type S "String" with Some DScalar => true | _ => false end)
  else
    match schema_field_type S r (fn_name f) with
    | Ok t =>
        wf_gtype t &&
        (match schema_field_type S rt (fn_name f) with Ok t' => gtype_eqb t t' | Err _ => false end) &&
        match lookup_type S (base_name t), fn_sub f with
        | Some DScalar, None | Some (DEnum _), None => true
        | Some (DObject _ _), Some sub => rec false (base_name t) (base_name t) sub
        | Some (DInterface _ _), Some sub | Some (DUnion _), Some sub => abs_ok rec g cov S (base_name t) sub
        | _, _ => false
        end
    | Err _ => false
    end.

(* [cov]: additionally require pairwise distinct Python field names (needed for preservation, and for
   abstract positions) *)
Fixpoint sels_ok (fuel : nat) (cov : bool) (C : cfg) (S : schema) (frs : list fragdef) (mx : list string)
         (abs : bool) (rt r : string) (sels : list sel) : bool :=
  match fuel with
  | O => false
  | Datatypes.S g =>
      match flatten g S frs rt r sels with
      | Some fns =>
          keys_okG cov C fns &&
          (negb cov || nodupb (map (fun f => py_field_name C (field_key f)) fns)) &&
          forallb (field_ok (sels_ok g cov C S frs mx) g cov S mx abs rt r) fns
      | None => false
      end
  end.

(* extra bases (@mixin) that contribute no pydantic field: BaseModel or a name outside the class table *)
Definition harmless (cs : list pclass) (eb : list string) : Prop :=
  forall b, In b eb -> b = "BaseModel" \/ lookup_class cs b = None.

Definition mx_ok (cs : list pclass) (mx : list string) : bool :=
  forallb (fun b => String.eqb b "BaseModel" || negb (mem b (map c_name cs))) mx.

Lemma mx_ok_harmless cs mx eb : mx_ok cs mx = true -> forallb (fun b => mem b mx) eb = true -> harmless cs eb.
Proof.
  intros H He b Hb. unfold mx_ok in H. rewrite forallb_forall in H, He. specialize (He b Hb). apply mem_In in He.
  specialize (H b He). apply orb_true_iff in H as [H | H]; [left; apply String.eqb_eq, H | right].
  apply negb_true_iff, mem_false_In in H. unfold lookup_class.
  destruct (find (fun c => String.eqb (c_name c) b) cs) as [c|] eqn:E; [| reflexivity].
  apply find_some in E. destruct E as [Hin Hn]. apply String.eqb_eq in Hn. exfalso. apply H. rewrite <- Hn.
  apply in_map, Hin.
Qed.

Definition no_basemodel (cls : list pclass) : bool :=
  forallb (fun c => negb (String.eqb (c_name c) "BaseModel")) cls.

(* ------------------------------------------------------------------------------------------- *)
(* 7. Small facts about the pieces of a generated class                                          *)

Lemma mro_simple cs n c k :
  lookup_class cs n = Some c -> c_bases c = ["BaseModel"] -> n <> "BaseModel" ->
  mro_fields (Datatypes.S (Datatypes.S k)) cs n = Some (c_fields c).
Proof.
  intros Hl Hb Hn. cbn [mro_fields]. rewrite (eqb_neq_false _ _ Hn), Hl, Hb. cbn [fold_left].
  rewrite String.eqb_refl. unfold mro_merge. simpl. rewrite app_nil_r. reflexivity.
Qed.

Lemma mro_empty cs b k : b = "BaseModel" \/ lookup_class cs b = None -> mro_fields (Datatypes.S k) cs b = Some [].
Proof.
  intros [E | E]; cbn [mro_fields]; [subst; reflexivity|]. rewrite E. destruct (String.eqb b "BaseModel"); reflexivity.
Qed.

Lemma mro_harmless cs n c k eb :
  lookup_class cs n = Some c -> c_bases c = "BaseModel" :: eb -> n <> "BaseModel" -> harmless cs eb ->
  mro_fields (Datatypes.S (Datatypes.S k)) cs n = Some (c_fields c).
Proof.
  intros Hl Hb Hn Hh.
  assert (E : mro_fields (Datatypes.S (Datatypes.S k)) cs n =
              if String.eqb n "BaseModel" then Some [] else
              match lookup_class cs n with
              | None => Some []
              | Some c0 => fold_left (fun acc b => match acc, mro_fields (Datatypes.S k) cs b with
                                                  | Some l, Some bl => Some (mro_merge l bl) | _, _ => None end)
                                     (c_bases c0) (Some (c_fields c0))
              end) by reflexivity.
  rewrite E, (eqb_neq_false _ _ Hn), Hl, Hb. clear E.
  assert (G : forall l acc, (forall b, In b l -> b = "BaseModel" \/ lookup_class cs b = None) ->
            fold_left (fun a b => match a, mro_fields (Datatypes.S k) cs b with
                                  | Some l0, Some bl => Some (mro_merge l0 bl) | _, _ => None end) l (Some acc)
            = Some acc).
  { induction l as [|b l IH]; intros acc H; [reflexivity|]. cbn [fold_left].
    rewrite (mro_empty cs b k (H b (or_introl eq_refl))). unfold mro_merge. simpl filter. rewrite app_nil_r.
    apply IH. intros b' Hb'. apply H. right; exact Hb'. }
  apply G. intros b [Eb | Hin]; [left; auto | apply Hh, Hin].
Qed.

Lemma last_wins_In f l : In f (last_wins l) -> In f l.
Proof.
  induction l as [|g r IH]; simpl; [auto|].
  destruct (existsb _ r); [intro H; right; apply IH, H|].
  intros [H | H]; [left; exact H | right; apply IH, H].
Qed.

Lemma last_wins_nodup l : NoDup (map p_name l) -> last_wins l = l.
Proof.
  induction l as [|g r IH]; simpl; [reflexivity|]. intro H. inversion H; subst.
  destruct (existsb (fun g0 => String.eqb (p_name g0) (p_name g)) r) eqn:E.
  - apply existsb_exists in E. destruct E as [x [Hx He]]. apply String.eqb_eq in He.
    exfalso. apply H2. rewrite <- He. apply in_map, Hx.
  - f_equal. apply IH, H3.
Qed.

Definition field_check (rec : ann -> json -> bool) (kv : list (string * json)) (f : pfield) : bool :=
  match jlookup (field_key_of f) kv with
  | Some v => rec (p_ann f) v
  | None =>
      match (match p_alias f with Some _ => jlookup (p_name f) kv | None => None end) with
      | Some v => rec (p_ann f) v
      | None => p_default_none f
      end
  end.

Lemma class_accepts_check rec fs kv :
  class_accepts rec (Some fs) (JObj kv) = forallb (field_check rec kv) (last_wins fs).
Proof. reflexivity. Qed.

Lemma mk_pfield_key name key a il c : field_key_of (mk_pfield name key a il c) = key.
Proof.
  unfold field_key_of, mk_pfield. simpl. destruct (String.eqb name key) eqn:E; [| reflexivity].
  apply String.eqb_eq in E. exact E.
Qed.

Lemma field_pf_inv C S frs fuel' cn tn tv at_ f pf ctx :
  field_pf C S frs fuel' cn tn tv at_ f = Ok (pf, ctx) ->
  exists t a0 il,
    schema_field_type S tn (fn_name f) = Ok t /\
    field_ann_lit C S frs fuel' tv f t (cn +++ pascal_s (py_field_name C (field_key f))) = Ok (a0, ctx, il) /\
    pf = mk_pfield (py_field_name C (field_key f)) (field_key f) (cond_ann (il && at_) (fn_cond f) a0)
                   (il && at_) (fn_cond f).
Proof.
  unfold field_pf. intro H. apply bind_ok in H. destruct H as [t [Ht H]].
  apply bind_ok in H. destruct H as [[[a0 ctx'] il] [Ha H]]. inversion H; subst.
  exists t, a0, il. auto.
Qed.

Lemma typename_values_object S rc tn :
  is_object S tn = true -> r_type rc = tn -> typename_values S [rc] tn = [tn].
Proof.
  unfold is_object, typename_values. intros H E. simpl. rewrite E.
  destruct (lookup_type S tn) as [[]|]; try discriminate; reflexivity.
Qed.

Lemma field_type_on_schema S tn name t :
  name <> "__typename" -> schema_field_type S tn name = Ok t -> field_type_on S tn name = Some t.
Proof.
  intros Hn. unfold schema_field_type, field_type_on. rewrite (eqb_neq_false _ _ Hn).
  destruct (lookup_type S tn) as [d|]; [| discriminate].
  destruct (type_fields d) as [fs|]; [| discriminate].
  destruct (assoc name fs); [intro H; inversion H; reflexivity | discriminate].
Qed.

Lemma sort_strings_single x : sort_strings [x] = [x].
Proof. reflexivity. Qed.

Lemma mem_single x : mem x [x] = true.
Proof. unfold mem. simpl. rewrite String.eqb_refl. reflexivity. Qed.

Lemma find_key_nodup : forall (l : list pfield) f,
  NoDup (map field_key_of l) -> In f l ->
  find (fun g => String.eqb (field_key_of g) (field_key_of f)) l = Some f.
Proof.
  induction l as [|g r IH]; intros f Hnd Hin; [contradiction|].
  simpl in *. inversion Hnd; subst. destruct Hin as [E | Hin].
  - subst. rewrite String.eqb_refl. reflexivity.
  - rewrite eqb_neq_false; [apply IH; auto|]. intro E. apply H1. rewrite E. apply in_map, Hin.
Qed.

(* the typename literal handed to a nested class contains the runtime type *)
Definition tv_ok (rt : string) (tv : option (list string)) : Prop :=
  tv = None \/ (exists tvs, tv = Some tvs /\ In rt tvs).

Definition table_ok (cs out : list pclass) : Prop :=
  forall c, In c out -> lookup_class cs (c_name c) = Some c /\ c_name c <> "BaseModel".

Lemma table_ok_incl cs out out' : table_ok cs out -> incl out' out -> table_ok cs out'.
Proof. intros H Hi c Hc. apply H, Hi, Hc. Qed.
