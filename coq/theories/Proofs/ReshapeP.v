(* The reshaping of default literals (coerce_default_value_node, fix e1f804e) does not change what the schema's own
   coercion makes of them:  coerced_default (coerce_lit d) = coerced_default d  (at some fuel), for every literal.
   Needs the fuel monotonicity of the specification. *)
From Coq Require Import List String Ascii ZArith Bool Lia.
From AC Require Import Base.Sexp Base.Json Base.Strs Gql.InSchema Gql.InCoerce
  Model.Names Model.Defaults Model.Inputs Py.PyEval Proofs.InputsP Proofs.FreshP Proofs.AcceptsP Proofs.ValidateP
  Proofs.ByNameP Proofs.DefaultsP.
Import ListNotations.
Local Open Scope string_scope.

Lemma cd_named n s nm lit :
  coerced_default n s (TNamed nm) lit =
  match lit with
  | CNull => Some CNull
  | _ =>
    match kind_of s nm with
    | KInput fs =>
        match lit, n with
        | CObj kv, S n' =>
            option_map CObj (fields_with (fun k => lookup k kv) (coerced_default n' s) (coerced_default n' s) fs)
        | _, _ => None
        end
    | _ => leaf_default s nm lit
    end
  end.
Proof. destruct n; reflexivity. Qed.

Lemma map_opt_mono {X Y} (f g : X -> option Y) l r :
  (forall x y, In x l -> f x = Some y -> g x = Some y) -> map_opt f l = Some r -> map_opt g l = Some r.
Proof.
  revert r. induction l as [|h t IH]; simpl; intros r H M; [exact M|].
  destruct (f h) as [y|] eqn:F; [|discriminate]. destruct (map_opt f t) as [ys|] eqn:Mt; [|discriminate].
  rewrite (H h y (or_introl eq_refl) F). rewrite (IH ys (fun x y0 Hx => H x y0 (or_intror Hx)) eq_refl). exact M.
Qed.

Lemma fields_with_mono {X} look (co co' : gtype -> X -> option cvalue) dflt dflt' fs r :
  (forall t x v, co t x = Some v -> co' t x = Some v) ->
  (forall t d v, dflt t d = Some v -> dflt' t d = Some v) ->
  fields_with look co dflt fs = Some r -> fields_with look co' dflt' fs = Some r.
Proof.
  intros Hc Hd. revert r. induction fs as [|f t IH]; simpl; intros r H; [exact H|].
  destruct (look (i_name f)) as [x|].
  - destruct (co (i_type f) x) as [v|] eqn:C; [|discriminate].
    destruct (fields_with look co dflt t) as [vs|] eqn:F; [|discriminate].
    rewrite (Hc _ _ _ C), (IH vs eq_refl). exact H.
  - destruct (i_default f) as [d|].
    + destruct (dflt (i_type f) d) as [v|] eqn:D; [|discriminate].
      destruct (fields_with look co dflt t) as [vs|] eqn:F; [|discriminate].
      rewrite (Hd _ _ _ D), (IH vs eq_refl). exact H.
    + destruct (is_nonnull (i_type f)); [exact H | apply IH; exact H].
Qed.

(* more fuel never changes a result *)
Theorem coerced_default_mono s : forall n m t lit cv, n <= m ->
  coerced_default n s t lit = Some cv -> coerced_default m s t lit = Some cv.
Proof.
  induction n as [n IHn] using lt_wf_ind. intros m t.
  induction t as [nm|t IH|t IH]; intros lit cv LE C.
  - rewrite cd_named in *. destruct lit; try exact C;
      destruct (kind_of s nm); try exact C.
    destruct n as [|n']; [simpl in C; discriminate|]. destruct m as [|m']; [lia|].
    destruct (fields_with (fun k => lookup k kv) (coerced_default n' s) (coerced_default n' s) fs) as [r|] eqn:F;
      [|simpl in C; discriminate].
    rewrite (fields_with_mono _ _ (coerced_default m' s) _ (coerced_default m' s) fs r
               (fun t x v H => IHn n' (Nat.lt_succ_diag_r n') m' t x v ltac:(lia) H)
               (fun t d v H => IHn n' (Nat.lt_succ_diag_r n') m' t d v ltac:(lia) H) F). exact C.
  - rewrite cd_list in *.
    destruct lit;
      try (match type of C with
           | option_map _ (coerced_default n s t ?x) = _ =>
               destruct (coerced_default n s t x) as [vv0|] eqn:E;
               [rewrite (IH _ _ LE E); exact C | simpl in C; discriminate]
           end).
    + exact C.
    + destruct n as [|n']; [simpl in C; discriminate|]. destruct m as [|m']; [lia|].
      destruct (map_opt (coerced_default n' s t) l) as [r|] eqn:M; [|simpl in C; discriminate].
      rewrite (map_opt_mono _ (coerced_default m' s t) l r
                 (fun x y _ H => IHn n' (Nat.lt_succ_diag_r n') m' t x y ltac:(lia) H) M). exact C.
  - rewrite cd_nonnull in *. destruct lit; try (apply (IH _ _ LE C)). discriminate.
Qed.

Lemma coerce_not_null s lit : lit <> CNull -> forall t, coerce_lit s lit t <> CNull.
Proof.
  intros N t. induction t as [nm|t IH|t IH].
  - destruct lit; simpl; try discriminate; try congruence; destruct (kind_of s nm); discriminate.
  - destruct lit; simpl; try discriminate. congruence.
  - destruct lit; simpl; simpl in IH; try exact IH.
Qed.

Lemma lookup_map_key {X Y} (h : string -> X -> Y) k (kv : list (string * X)) :
  lookup k (map (fun p => (fst p, h (fst p) (snd p))) kv) = option_map (h k) (lookup k kv).
Proof.
  induction kv as [|[k' v] r IH]; simpl; [reflexivity|].
  destruct (k =? k') eqn:E; [apply String.eqb_eq in E; subst; reflexivity | exact IH].
Qed.

Section Reshape.
Variable s : schema.
(* schema validity: the GraphQL field names of every input type are unique *)
Hypothesis WF : forall nm fs, kind_of s nm = KInput fs -> names_ok_fields true fs = true.

Definition PR (lit : cvalue) : Prop :=
  forall t n cv, coerced_default n s t lit = Some cv ->
  exists m, coerced_default m s t (coerce_lit s lit t) = Some cv.

(* a literal that is neither null, a list nor an object *)
Lemma pr_scalar lit : lit <> CNull -> (forall l, lit <> CList l) -> (forall kv, lit <> CObj kv) -> PR lit.
Proof.
  intros NN NL NO. unfold PR. intros t. induction t as [nm|t IH|t IH]; intros n cv C.
  - rewrite cd_named in C.
    assert (E : coerce_lit s lit (TNamed nm) = lit \/
                (exists z, lit = CInt z /\ kind_of s nm = KID /\ coerce_lit s lit (TNamed nm) = CStr (z_to_string z))).
    { destruct lit; simpl; auto; try (exfalso; eapply NO; reflexivity).
      destruct (kind_of s nm) eqn:K; auto. right. exists z. auto. }
    destruct E as [-> | [z [-> [K E]]]].
    + exists n. rewrite cd_named. exact C.
    + rewrite E. rewrite K in C. unfold leaf_default in C. rewrite K in C. inversion C; subst cv.
      exists 0. rewrite cd_named, K. unfold leaf_default. rewrite K. reflexivity.
  - rewrite cd_list in C.
    assert (W : coerce_lit s lit (TList t) = CList [coerce_lit s lit t]).
    { destruct lit; simpl; try reflexivity; [congruence | exfalso; eapply NL; reflexivity]. }
    assert (C' : option_map (fun v => CList [v]) (coerced_default n s t lit) = Some cv).
    { destruct lit; try exact C; [congruence | exfalso; eapply NL; reflexivity]. }
    destruct (coerced_default n s t lit) as [v|] eqn:E; [|discriminate]. simpl in C'. inversion C'; subst cv.
    destruct (IH n v E) as [m Hm]. exists (S m). rewrite W, cd_list. simpl. rewrite Hm. reflexivity.
  - rewrite cd_nonnull in C.
    assert (C' : coerced_default n s t lit = Some cv) by (destruct lit; try exact C; congruence).
    destruct (IH n cv C') as [m Hm]. exists m.
    assert (W : coerce_lit s lit (TNonNull t) = coerce_lit s lit t) by (destruct lit; reflexivity).
    rewrite W, cd_nonnull.
    pose proof (coerce_not_null s lit NN t) as NN'. destruct (coerce_lit s lit t); try exact Hm. congruence.
Qed.

Lemma pr_null : PR CNull.
Proof.
  unfold PR. intros t n cv C. exists n.
  assert (W : coerce_lit s CNull t = CNull \/ (exists t', t = TNonNull t')).
  { destruct t; simpl; auto. right. eauto. }
  destruct W as [-> | [t' ->]]; [exact C|]. rewrite cd_nonnull in C. discriminate.
Qed.

Lemma pr_list l : Forall PR l -> PR (CList l).
Proof.
  intros FA. unfold PR. intros t. induction t as [nm|t IH|t IH]; intros n cv C.
  - exists n. simpl. exact C.
  - rewrite cd_list in C. destruct n as [|n']; [discriminate|].
    destruct (map_opt (coerced_default n' s t) l) as [cvs|] eqn:M; [|discriminate]. simpl in C. inversion C; subst cv.
    assert (X : exists m, map_opt (coerced_default m s t) (map (fun x => coerce_lit s x t) l) = Some cvs).
    { clear C IH. revert cvs M. induction FA as [|h r Hh _ IHr]; intros cvs M.
      - exists 0. exact M.
      - simpl in M. destruct (coerced_default n' s t h) as [c|] eqn:Ch; [|discriminate].
        destruct (map_opt (coerced_default n' s t) r) as [cr|] eqn:Mr; [|discriminate]. inversion M; subst cvs.
        destruct (Hh t n' c Ch) as [m1 H1]. destruct (IHr cr eq_refl) as [m2 H2].
        exists (Nat.max m1 m2). simpl.
        rewrite (coerced_default_mono s m1 (Nat.max m1 m2) t _ c ltac:(lia) H1).
        rewrite (map_opt_mono _ (coerced_default (Nat.max m1 m2) s t) _ cr
                   (fun x y _ H => coerced_default_mono s m2 (Nat.max m1 m2) t x y ltac:(lia) H) H2). reflexivity. }
    destruct X as [m Hm]. exists (S m). simpl coerce_lit. rewrite cd_list. simpl. rewrite Hm. reflexivity.
  - rewrite cd_nonnull in C. destruct (IH n cv C) as [m Hm]. exists m.
    change (coerce_lit s (CList l) (TNonNull t)) with (coerce_lit s (CList l) t). rewrite cd_nonnull.
    pose proof (coerce_not_null s (CList l) ltac:(discriminate) t) as NN'.
    destruct (coerce_lit s (CList l) t); try exact Hm. congruence.
Qed.

Lemma pr_obj kv : Forall (fun p => PR (snd p)) kv -> PR (CObj kv).
Proof.
  intros FA. unfold PR. intros t. induction t as [nm|t IH|t IH]; intros n cv C.
  - rewrite cd_named in C. simpl coerce_lit.
    destruct (kind_of s nm) as [| | | | | |vals|fs|] eqn:K; try (exists n; rewrite cd_named, K; exact C).
    destruct n as [|n']; [discriminate|].
    destruct (fields_with (fun k => lookup k kv) (coerced_default n' s) (coerced_default n' s) fs) as [r|] eqn:FW;
      [|discriminate]. simpl in C. inversion C; subst cv.
    pose proof (WF nm fs K) as NOK.
    set (h := fun (k : string) (x : cvalue) =>
                match find_field k fs with Some f => coerce_lit s x (i_type f) | None => x end).
    change (map (fun p => (fst p, match find_field (fst p) fs with
                                 | Some f => coerce_lit s (snd p) (i_type f) | None => snd p end)) kv)
      with (map (fun p => (fst p, h (fst p) (snd p))) kv).
    set (kv' := map (fun p => (fst p, h (fst p) (snd p))) kv).
    assert (X : forall l r', incl l fs ->
              fields_with (fun k => lookup k kv) (coerced_default n' s) (coerced_default n' s) l = Some r' ->
              exists M, n' <= M /\
                fields_with (fun k => lookup k kv') (coerced_default M s) (coerced_default M s) l = Some r').
    { induction l as [|f l IHl]; intros r' INC F.
      - exists n'. split; [lia | exact F].
      - assert (Hf : In f fs) by (apply INC; left; reflexivity).
        assert (INC' : incl l fs) by (intros x Hx; apply INC; right; exact Hx).
        assert (LK : lookup (i_name f) kv' = option_map (fun x => coerce_lit s x (i_type f)) (lookup (i_name f) kv)).
        { unfold kv'. rewrite lookup_map_key. unfold h. rewrite (find_field_self true fs f NOK Hf). reflexivity. }
        simpl in F. simpl. rewrite LK. destruct (lookup (i_name f) kv) as [x|] eqn:Lx; simpl option_map.
        + destruct (coerced_default n' s (i_type f) x) as [v|] eqn:Cx; [|discriminate].
          destruct (fields_with (fun k => lookup k kv) (coerced_default n' s) (coerced_default n' s) l) as [rl|] eqn:Fl;
            [|discriminate]. inversion F; subst r'.
          destruct (IHl rl INC' eq_refl) as [M2 [LE2 H2]].
          rewrite Forall_forall in FA. pose proof (FA _ (lookup_in _ _ _ Lx)) as Px. simpl in Px.
          destruct (Px (i_type f) n' v Cx) as [m1 H1].
          exists (Nat.max m1 M2). split; [lia|].
          rewrite (coerced_default_mono s m1 (Nat.max m1 M2) _ _ v ltac:(lia) H1).
          rewrite (fields_with_mono _ _ (coerced_default (Nat.max m1 M2) s) _ (coerced_default (Nat.max m1 M2) s) l rl
                     (fun t x v0 H => coerced_default_mono s M2 (Nat.max m1 M2) t x v0 ltac:(lia) H)
                     (fun t d v0 H => coerced_default_mono s M2 (Nat.max m1 M2) t d v0 ltac:(lia) H) H2). reflexivity.
        + destruct (i_default f) as [d|].
          * destruct (coerced_default n' s (i_type f) d) as [v|] eqn:Cd; [|discriminate].
            destruct (fields_with (fun k => lookup k kv) (coerced_default n' s) (coerced_default n' s) l) as [rl|] eqn:Fl;
              [|discriminate]. inversion F; subst r'.
            destruct (IHl rl INC' eq_refl) as [M2 [LE2 H2]]. exists M2. split; [lia|].
            rewrite (coerced_default_mono s n' M2 _ _ v LE2 Cd), H2. reflexivity.
          * destruct (is_nonnull (i_type f)); [discriminate|]. apply (IHl r' INC' F). }
    destruct (X fs r (incl_refl fs) FW) as [M [_ HM]].
    exists (S M). rewrite cd_named, K. fold kv'. rewrite HM. reflexivity.
  - (* an object where a list is expected: wrapped into a one-item list *)
    rewrite cd_list in C. simpl in C.
    destruct (coerced_default n s t (CObj kv)) as [v|] eqn:E; [|discriminate]. simpl in C. inversion C; subst cv.
    destruct (IH n v E) as [m Hm]. exists (S m).
    change (coerce_lit s (CObj kv) (TList t)) with (CList [coerce_lit s (CObj kv) t]).
    remember (coerce_lit s (CObj kv) t) as x0 eqn:Ex. rewrite cd_list. simpl. rewrite Hm. reflexivity.
  - rewrite cd_nonnull in C. destruct (IH n cv C) as [m Hm]. exists m.
    change (coerce_lit s (CObj kv) (TNonNull t)) with (coerce_lit s (CObj kv) t). rewrite cd_nonnull.
    pose proof (coerce_not_null s (CObj kv) ltac:(discriminate) t) as NN'.
    destruct (coerce_lit s (CObj kv) t); try exact Hm. congruence.
Qed.

(* reshaping a default literal to its type does not change its coerced value *)
Theorem reshape_preserves : forall lit, PR lit.
Proof.
  apply cvalue_ind2; intros;
    try (apply pr_scalar; [discriminate | intros; discriminate | intros; discriminate]).
  - apply pr_null.
  - apply pr_list; assumption.
  - apply pr_obj; assumption.
Qed.
End Reshape.
