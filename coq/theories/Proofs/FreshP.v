(* The de-duplication loop of input field names (fix bec4417): `while name in used: name += "_"`.
   The modelled loop (fuel |used|+1) returns a name outside `used`; hence the Python names of one input type are
   pairwise distinct whenever its GraphQL names are. *)
From Coq Require Import List String Ascii ZArith Bool Lia.
From AC Require Import Base.Sexp Base.Json Base.Strs Gql.InSchema Model.Names Model.Defaults Model.Inputs.
Import ListNotations.
Local Open Scope string_scope.

Lemma mem_In' x l : mem x l = true <-> In x l.
Proof.
  unfold mem. rewrite existsb_exists. split.
  - intros [y [Hy E]]. apply String.eqb_eq in E. subst. exact Hy.
  - intros H. exists x. split; [exact H | apply String.eqb_refl].
Qed.

Lemma append_length a b : String.length (a ++ b) = String.length a + String.length b.
Proof. induction a; simpl; auto. Qed.

Lemma fresh_length n name used : String.length name <= String.length (fresh n name used).
Proof.
  revert name. induction n as [|n IH]; intros name; simpl; [lia|].
  destruct (mem name used); [|lia]. specialize (IH (name ++ "_")). rewrite append_length in IH. simpl in IH. lia.
Qed.

Lemma mem_remove x y l : x <> y -> mem x (remove string_dec y l) = mem x l.
Proof.
  intros N. induction l as [|h t IH]; simpl; [reflexivity|].
  destruct (string_dec y h) as [->|D]; simpl.
  - rewrite IH. destruct (x =? h) eqn:E; [apply String.eqb_eq in E; contradiction | reflexivity].
  - rewrite IH. reflexivity.
Qed.

(* candidates longer than y never meet y: y can be dropped from `used` *)
Lemma fresh_remove n y used : forall x, String.length y < String.length x ->
  fresh n x used = fresh n x (remove string_dec y used).
Proof.
  induction n as [|n IH]; intros x L; simpl; [reflexivity|].
  assert (x <> y) by (intro; subst; lia). rewrite (mem_remove x y used H).
  destruct (mem x used); [|reflexivity]. apply IH. rewrite append_length. simpl. lia.
Qed.

Lemma remove_length_lt y (l : list string) : In y l -> List.length (remove string_dec y l) < List.length l.
Proof.
  induction l as [|h t IH]; simpl; [contradiction|]. intros [->|H].
  - destruct (string_dec y y); [|contradiction]. pose proof (remove_length_le string_dec t y). lia.
  - destruct (string_dec y h); simpl; [pose proof (remove_length_le string_dec t y); lia | specialize (IH H); lia].
Qed.

Theorem fresh_not_used : forall n used name, List.length used < n -> ~ In (fresh n name used) used.
Proof.
  induction n as [|n IH]; intros used name L; [lia|]. simpl.
  destruct (mem name used) eqn:M.
  - apply mem_In' in M.
    rewrite (fresh_remove n name used (name ++ "_")) by (rewrite append_length; simpl; lia).
    intros H.
    assert (LT : List.length (remove string_dec name used) < n) by (pose proof (remove_length_lt name used M); lia).
    apply (IH (remove string_dec name used) (name ++ "_") LT).
    apply in_in_remove; [|exact H].
    intro E. pose proof (fresh_length n (name ++ "_") (remove string_dec name used)) as FL.
    rewrite E in FL. rewrite append_length in FL. simpl in FL. lia.
  - intro H. apply mem_In' in H. congruence.
Qed.

(* ---- the loop condition is membership in `blocked` ---- *)
Lemma mem_app x a b : mem x (a ++ b) = mem x a || mem x b.
Proof. unfold mem. apply existsb_app. Qed.

Lemma blocked_spec org used names x :
  mem x (blocked org used names) = mem x used || (negb (x =? org) && mem x names).
Proof.
  unfold blocked. rewrite mem_app. f_equal.
  induction names as [|h t IH]; simpl; [rewrite andb_false_r; reflexivity|].
  destruct (h =? org) eqn:E; simpl.
  - rewrite IH. apply String.eqb_eq in E. subst h.
    destruct (x =? org) eqn:E2; simpl; reflexivity.
  - rewrite IH. destruct (x =? h) eqn:E2; simpl; [|reflexivity].
    apply String.eqb_eq in E2. subst x. rewrite E. reflexivity.
Qed.

(* ---- the assigned names ---- *)
Lemma assign_keys snake names used fs : map fst (assign_names snake names used fs) = map i_name fs.
Proof. revert used. induction fs as [|f r IH]; intros used; simpl; [reflexivity|]. rewrite IH. reflexivity. Qed.

Lemma assign_fresh snake names fs : forall used,
  NoDup (map snd (assign_names snake names used fs)) /\
  (forall n, In n (map snd (assign_names snake names used fs)) -> ~ In n used) /\
  (forall k n, In (k, n) (assign_names snake names used fs) -> forall x, In x names -> x <> k -> n <> x).
Proof.
  induction fs as [|f r IH]; intros used; simpl; [split; [constructor | split; [contradiction | contradiction]]|].
  set (b := blocked (i_name f) used names).
  set (n0 := fresh (S (List.length b)) (py_name snake (i_name f)) b).
  assert (NB : ~ In n0 b) by (unfold n0; apply fresh_not_used; lia).
  destruct (IH (n0 :: used)) as [ND [NI NX]]. split; [|split].
  - constructor; [|exact ND]. intro H. apply (NI n0 H). left. reflexivity.
  - intros n [E|H].
    + subst n. change (~ In n0 used). intro U. apply NB. unfold b, blocked. apply in_or_app. left. exact U.
    + intro U. apply (NI n H). right. exact U.
  - intros k n [E|H] x Hx Nk.
    + inversion E; subst k n. change (n0 <> x). intro X. apply NB. unfold b, blocked. apply in_or_app. right.
      apply filter_In. split; [rewrite X; exact Hx|]. apply negb_true_iff. apply String.eqb_neq. rewrite X. exact Nk.
    + apply (NX k n H x Hx Nk).
Qed.

Lemma lookup_nodup_map {X} (al : list (string * X)) (d : string -> X) : NoDup (map fst al) ->
  map (fun k => match lookup k al with Some n => n | None => d k end) (map fst al) = map snd al.
Proof.
  induction al as [|[k v] r IH]; simpl; intros ND; [reflexivity|].
  inversion ND as [|? ? NI ND']; subst. rewrite String.eqb_refl. f_equal.
  rewrite <- (IH ND'). apply map_ext_in. intros k' Hk'.
  destruct (k' =? k) eqn:E; [apply String.eqb_eq in E; subst; contradiction | reflexivity].
Qed.

(* Python names of one input type are pairwise distinct when its GraphQL names are *)
Theorem fname_nodup snake fs : NoDup (map i_name fs) ->
  NoDup (map (fun f => fname snake fs (i_name f)) fs).
Proof.
  intros ND. unfold fname.
  pose proof (lookup_nodup_map (assign_names snake (map i_name fs) [] fs) (py_name snake)) as L.
  rewrite assign_keys in L. specialize (L ND). rewrite map_map in L. rewrite L.
  apply (assign_fresh snake (map i_name fs) fs []).
Qed.

Lemma lookup_in_pairs {X} k (l : list (string * X)) v : lookup k l = Some v -> In (k, v) l.
Proof.
  induction l as [|[k' v'] r IH]; simpl; [discriminate|].
  destruct (k =? k') eqn:E; intros H.
  - apply String.eqb_eq in E. inversion H. subst. auto.
  - auto.
Qed.

Lemma lookup_some_of_key {X} k (l : list (string * X)) : In k (map fst l) -> exists v, lookup k l = Some v.
Proof.
  induction l as [|[k' v'] r IH]; simpl; [contradiction|].
  destruct (k =? k') eqn:E; [eauto|]. intros [H|H]; [subst; rewrite String.eqb_refl in E; discriminate | auto].
Qed.

(* the Python name of a field is never the GraphQL name of a DIFFERENT field of the same input type (fix a4347c6):
   populate_by_name cannot read another field's value *)
Theorem fname_not_other snake fs f g : In f fs -> In g fs -> i_name f <> i_name g ->
  fname snake fs (i_name f) <> i_name g.
Proof.
  intros Hf Hg N. unfold fname.
  destruct (lookup_some_of_key (i_name f) (assign_names snake (map i_name fs) [] fs)) as [n L].
  { rewrite assign_keys. apply in_map. exact Hf. }
  rewrite L. apply lookup_in_pairs in L.
  destruct (assign_fresh snake (map i_name fs) fs []) as [_ [_ NX]].
  apply (NX (i_name f) n L (i_name g)); [apply in_map; exact Hg | congruence].
Qed.

Lemma nodup_map_inj {X} (g : X -> string) l : NoDup (map g l) ->
  forall a b, In a l -> In b l -> g a = g b -> a = b.
Proof.
  induction l as [|h t IH]; simpl; intros ND a b Ha Hb E; [contradiction|].
  inversion ND as [|? ? NI ND']; subst.
  destruct Ha as [<-|Ha], Hb as [<-|Hb]; auto.
  - exfalso. apply NI. rewrite E. apply in_map. exact Hb.
  - exfalso. apply NI. rewrite <- E. apply in_map. exact Ha.
Qed.
