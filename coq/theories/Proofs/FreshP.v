(* The de-duplication loop of input field names (fix bec4417): `while name in used: name += "_"`.
   The modelled loop (fuel |used|+1) returns a name outside `used`; hence the Python names of one input type are
   pairwise distinct whenever its GraphQL names are. *)
From Coq Require Import List String Ascii ZArith Bool Lia.
From AC Require Import Base.Sexp Base.Json Base.Strs Gql.InSchema Model.Names Model.Defaults Model.Inputs.
Import ListNotations.
Local Open Scope string_scope.

Lemma mem_In' x l : mem x l = true <-> In x l.
Proof.
  unfold mem. rewrite existsb_exists. split.
  - intros [y [Hy E]]. apply String.eqb_eq in E. subst. exact Hy.
  - intros H. exists x. split; [exact H | apply String.eqb_refl].
Qed.

Lemma append_length a b : String.length (a ++ b) = String.length a + String.length b.
Proof. induction a; simpl; auto. Qed.

Lemma fresh_length n name used : String.length name <= String.length (fresh n name used).
Proof.
  revert name. induction n as [|n IH]; intros name; simpl; [lia|].
  destruct (mem name used); [|lia]. specialize (IH (name ++ "_")). rewrite append_length in IH. simpl in IH. lia.
Qed.

Lemma mem_remove x y l : x <> y -> mem x (remove string_dec y l) = mem x l.
Proof.
  intros N. induction l as [|h t IH]; simpl; [reflexivity|].
  destruct (string_dec y h) as [->|D]; simpl.
  - rewrite IH. destruct (x =? h) eqn:E; [apply String.eqb_eq in E; contradiction | reflexivity].
  - rewrite IH. reflexivity.
Qed.

(* candidates longer than y never meet y: y can be dropped from `used` *)
Lemma fresh_remove n y used : forall x, String.length y < String.length x ->
  fresh n x used = fresh n x (remove string_dec y used).
Proof.
  induction n as [|n IH]; intros x L; simpl; [reflexivity|].
  assert (x <> y) by (intro; subst; lia). rewrite (mem_remove x y used H).
  destruct (mem x used); [|reflexivity]. apply IH. rewrite append_length. simpl. lia.
Qed.

Lemma remove_length_lt y (l : list string) : In y l -> List.length (remove string_dec y l) < List.length l.
Proof.
  induction l as [|h t IH]; simpl; [contradiction|]. intros [->|H].
  - destruct (string_dec y y); [|contradiction]. pose proof (remove_length_le string_dec t y). lia.
  - destruct (string_dec y h); simpl; [pose proof (remove_length_le string_dec t y); lia | specialize (IH H); lia].
Qed.

Theorem fresh_not_used : forall n used name, List.length used < n -> ~ In (fresh n name used) used.
Proof.
  induction n as [|n IH]; intros used name L; [lia|]. simpl.
  destruct (mem name used) eqn:M.
  - apply mem_In' in M.
    rewrite (fresh_remove n name used (name ++ "_")) by (rewrite append_length; simpl; lia).
    intros H.
    assert (LT : List.length (remove string_dec name used) < n) by (pose proof (remove_length_lt name used M); lia).
    apply (IH (remove string_dec name used) (name ++ "_") LT).
    apply in_in_remove; [|exact H].
    intro E. pose proof (fresh_length n (name ++ "_") (remove string_dec name used)) as FL.
    rewrite E in FL. rewrite append_length in FL. simpl in FL. lia.
  - intro H. apply mem_In' in H. congruence.
Qed.

(* ---- the assigned names ---- *)
Lemma assign_keys snake used fs : map fst (assign_names snake used fs) = map i_name fs.
Proof. revert used. induction fs as [|f r IH]; intros used; simpl; [reflexivity|]. rewrite IH. reflexivity. Qed.

Lemma assign_fresh snake fs : forall used,
  NoDup (map snd (assign_names snake used fs)) /\
  forall n, In n (map snd (assign_names snake used fs)) -> ~ In n used.
Proof.
  induction fs as [|f r IH]; intros used; simpl; [split; [constructor | contradiction]|].
  set (n0 := fresh (S (List.length used)) (py_name snake (i_name f)) used).
  destruct (IH (n0 :: used)) as [ND NI]. split.
  - constructor; [|exact ND]. intro H. apply (NI n0 H). left. reflexivity.
  - intros n [E|H].
    + subst n. change (~ In n0 used). unfold n0. apply fresh_not_used. lia.
    + intro U. apply (NI n H). right. exact U.
Qed.

Lemma lookup_nodup_map {X} (al : list (string * X)) (d : string -> X) : NoDup (map fst al) ->
  map (fun k => match lookup k al with Some n => n | None => d k end) (map fst al) = map snd al.
Proof.
  induction al as [|[k v] r IH]; simpl; intros ND; [reflexivity|].
  inversion ND as [|? ? NI ND']; subst. rewrite String.eqb_refl. f_equal.
  rewrite <- (IH ND'). apply map_ext_in. intros k' Hk'.
  destruct (k' =? k) eqn:E; [apply String.eqb_eq in E; subst; contradiction | reflexivity].
Qed.

(* Python names of one input type are pairwise distinct when its GraphQL names are *)
Theorem fname_nodup snake fs : NoDup (map i_name fs) ->
  NoDup (map (fun f => fname snake fs (i_name f)) fs).
Proof.
  intros ND. unfold fname.
  pose proof (lookup_nodup_map (assign_names snake [] fs) (py_name snake)) as L.
  rewrite assign_keys in L. specialize (L ND). rewrite map_map in L. rewrite L.
  apply (assign_fresh snake fs []).
Qed.

Lemma nodup_map_inj {X} (g : X -> string) l : NoDup (map g l) ->
  forall a b, In a l -> In b l -> g a = g b -> a = b.
Proof.
  induction l as [|h t IH]; simpl; intros ND a b Ha Hb E; [contradiction|].
  inversion ND as [|? ? NI ND']; subst.
  destruct Ha as [<-|Ha], Hb as [<-|Hb]; auto.
  - exfalso. apply NI. rewrite E. apply in_map. exact Hb.
  - exfalso. apply NI. rewrite <- E. apply in_map. exact Ha.
Qed.
