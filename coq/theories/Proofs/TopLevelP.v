(* C19 — proofs about Model/TopLevel.v: a join of documents splits as the documents do *)
From Coq Require Import List String Ascii Bool Arith Lia.
From AC Require Import Base.Sexp Model.TopLevel.
Import ListNotations.
Local Open Scope list_scope.

Lemma run_length s ts bs s' : run s ts = Some (bs, s') -> List.length bs = List.length ts.
Proof.
  revert s bs s'; induction ts as [|t r IH]; intros s bs s' H; simpl in H.
  - inversion H. reflexivity.
  - destruct (step s t) as [[s1 b]|]; [|discriminate].
    destruct (run s1 r) as [[bs1 s2]|] eqn:R; [|discriminate]. inversion H; subst. simpl. f_equal. eapply IH. exact R.
Qed.

Lemma run_app s a b fa sa :
  run s a = Some (fa, sa) ->
  run s (a ++ b) = match run sa b with Some (fb, sb) => Some (fa ++ fb, sb) | None => None end.
Proof.
  revert s fa sa; induction a as [|t r IH]; intros s fa sa H; simpl in *.
  - inversion H; subst. destruct (run sa b) as [[fb sb]|]; reflexivity.
  - destruct (step s t) as [[s1 f]|]; [|discriminate].
    destruct (run s1 r) as [[bs1 s2]|] eqn:R; [|discriminate]. inversion H; subst.
    rewrite (IH _ _ _ R). destruct (run sa b) as [[fb sb]|]; reflexivity.
Qed.

(* THE property of the grammar's top level: where a definition may end, a token that can begin a
   definition does begin one - it is never taken as a continuation *)
Lemma step_start_from_accepting s t :
  accepting s = true -> is_start t = true -> step s t = step init t.
Proof.
  unfold accepting. destruct s as [x d]. simpl. intros H Ht. apply andb_true_iff in H as [Hq Hd].
  apply Nat.eqb_eq in Hd. subst d. unfold step. simpl. rewrite Hq, Ht. reflexivity.
Qed.

Lemma run_from_accepting s t r :
  accepting s = true -> is_start t = true -> run s (t :: r) = run init (t :: r).
Proof. intros Ha Ht. simpl. rewrite (step_start_from_accepting s t Ha Ht). reflexivity. Qed.

(* a non-empty accepted document begins with a start token, and its first flag is set *)
Lemma doc_head ts bs : doc_flags ts = Some bs ->
  match ts with [] => bs = [] | t :: _ => is_start t = true /\ exists r, bs = true :: r end.
Proof.
  unfold doc_flags. destruct ts as [|t r]; simpl.
  - intro H. inversion H. reflexivity.
  - unfold step at 1. simpl. destruct (is_start t) eqn:Ht.
    + destruct (begin_def t) as [y|]; [|discriminate].
      destruct (run (at0 y) r) as [[bs1 s1]|]; [|discriminate].
      destruct (accepting s1); [|discriminate]. intro H. inversion H. split; [reflexivity | eauto].
    + simpl. destruct t; simpl; discriminate.
Qed.

Lemma segments_nonempty bs ts : segments bs ts <> [].
Proof.
  revert ts; induction bs as [|b bs IH]; intros [|t ts]; simpl; try discriminate.
  destruct (segments bs ts) eqn:E; destruct b; discriminate.
Qed.

Lemma segments_app fa a fb b :
  List.length fa = List.length a -> hd [] (segments fb b) = [] ->
  segments (fa ++ fb) (a ++ b) = segments fa a ++ tl (segments fb b).
Proof.
  revert a; induction fa as [|f fa IH]; intros [|t a] Hl Hh; simpl in Hl; try discriminate.
  - simpl. destruct (segments fb b) as [|x r] eqn:E; [exfalso; eapply segments_nonempty; exact E|].
    simpl in *. subst x. reflexivity.
  - simpl. rewrite (IH a); [|lia|exact Hh].
    destruct (segments fa a) as [|x r] eqn:E; [exfalso; eapply segments_nonempty; exact E|].
    simpl. destruct f; reflexivity.
Qed.

Lemma segments_head_true r ts : hd [] (segments (true :: r) ts) = [].
Proof.
  destruct ts as [|t ts]; simpl; [reflexivity|]. destruct (segments r ts); reflexivity.
Qed.

(* two documents *)
Theorem split_app a b da db :
  split_doc a = Some da -> split_doc b = Some db -> split_doc (a ++ b) = Some (da ++ db).
Proof.
  unfold split_doc. destruct (doc_flags a) as [fa|] eqn:Fa; [|discriminate].
  destruct (doc_flags b) as [fb|] eqn:Fb; [|discriminate]. intros Ha Hb. inversion Ha; inversion Hb; subst. clear Ha Hb.
  pose proof (doc_head b fb Fb) as Hhead.
  unfold doc_flags in *.
  destruct (run init a) as [[fa' sa]|] eqn:Ra; [|discriminate].
  destruct (accepting sa) eqn:Aa; [|discriminate]. inversion Fa; subst fa'. clear Fa.
  destruct (run init b) as [[fb' sb]|] eqn:Rb; [|discriminate].
  destruct (accepting sb) eqn:Ab; [|discriminate]. inversion Fb; subst fb'. clear Fb.
  destruct b as [|t r].
  - subst fb. simpl in Rb. inversion Rb; subst sb. rewrite app_nil_r, Ra, Aa.
    unfold definitions_of. simpl. rewrite app_nil_r. reflexivity.
  - destruct Hhead as [Ht [r' Hr]]. subst fb.
    rewrite (run_app init a (t :: r) fa sa Ra).
    rewrite (run_from_accepting sa t r Aa Ht).
    rewrite Rb, Ab. f_equal. unfold definitions_of.
    rewrite segments_app; [| eapply run_length; exact Ra | apply segments_head_true].
    destruct (segments fa a) as [|x s] eqn:E; [exfalso; eapply segments_nonempty; exact E|]. reflexivity.
Qed.

Lemma split_nil : split_doc [] = Some [].
Proof. reflexivity. Qed.

(* any number of documents: the join splits into the concatenation of the per-document splits *)
Theorem split_concat docs dss :
  Forall2 (fun d ds => split_doc d = Some ds) docs dss ->
  split_doc (List.concat docs) = Some (List.concat dss).
Proof.
  induction 1 as [|d ds docs dss Hd _ IH]; simpl; [apply split_nil|].
  apply split_app; assumption.
Qed.

(* hence the (extension?, keyword, name) lists *)
Definition doc_summaries (ts : list tok) : option (list (option (bool * string * string))) :=
  option_map (map summary) (split_doc ts).

Theorem summaries_concat docs sss :
  Forall2 (fun d ss => doc_summaries d = Some ss) docs sss ->
  doc_summaries (List.concat docs) = Some (List.concat sss).
Proof.
  intro H. unfold doc_summaries in *.
  assert (E : exists dss, Forall2 (fun d ds => split_doc d = Some ds) docs dss /\ sss = map (map summary) dss).
  { induction H as [|d ss docs sss Hd _ IH].
    - exists []. split; constructor.
    - destruct IH as [dss [H1 H2]]. destruct (split_doc d) as [ds|] eqn:E; [|discriminate].
      simpl in Hd. inversion Hd; subst. exists (ds :: dss). split; [constructor; assumption | reflexivity]. }
  destruct E as [dss [H1 H2]]. rewrite (split_concat docs dss H1). simpl. subst sss.
  f_equal. rewrite concat_map. reflexivity.
Qed.

(* every definition of an accepted document is a non-empty token list beginning with a start token:
   the automaton never produces an empty or headless definition *)
Lemma segments_flags_heads bs ts :
  List.length bs = List.length ts ->
  Forall (fun seg => match seg with [] => False | _ :: _ => True end) (tl (segments bs ts)).
Proof.
  revert ts; induction bs as [|b bs IH]; intros [|t ts] Hl; simpl in Hl; try discriminate; simpl.
  - constructor.
  - specialize (IH ts ltac:(lia)).
    destruct (segments bs ts) as [|x r] eqn:E; [exfalso; eapply segments_nonempty; exact E|].
    simpl in IH. destruct b; simpl; [constructor; [exact I | exact IH] | exact IH].
Qed.

Theorem split_doc_nonempty ts ds : split_doc ts = Some ds ->
  Forall (fun seg => match seg with [] => False | _ :: _ => True end) ds.
Proof.
  unfold split_doc, doc_flags. destruct (run init ts) as [[bs s]|] eqn:R; [|discriminate].
  destruct (accepting s); [|discriminate]. intro H. inversion H. apply segments_flags_heads.
  eapply run_length. exact R.
Qed.
